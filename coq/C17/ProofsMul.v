(* __mul *)
From C17 Require Import Model Proofs ProofsLib.
From Coq Require Import ZifyBool.
Local Open Scope Z_scope.
Ltac Zify.zify_post_hook ::= Z.div_mod_to_equations.

(* ---- __mul ---- *)
(* inner k-loop: adds the (unsigned reading of the) 64-bit product a at the head of the tail z *)
Lemma mul_addk_spec z : forall a c, Forall limb_ok z -> in_i64 a -> 0 <= c <= 1 ->
  Forall limb_ok (mul_addk z a c) /\ length (mul_addk z a c) = length z /\
  uval (mul_addk z a c) = (uval z + u64 a + c) mod Wd ^ Z.of_nat (length z).
Proof.
  induction z as [|zk r IH]; intros a c Hz Ha Hc; cbn [mul_addk length uval].
  - change (Z.of_nat 0) with 0. rewrite Z.pow_0_r, Z.mod_1_r. auto.
  - inversion Hz as [|? ? Hzk Hr]; subst. unfold limb_ok in Hzk.
    pose proof Wd_le32. pose proof Wd_ge2. pose proof (Wdpow_pos (length r)) as HP.
    rewrite (band_wordmax_u64 a). rewrite (shr_word_u64 a).
    pose proof (Z.mod_pos_bound (u64 a) Wd ltac:(lia)) as Hm.
    pose proof (Z.div_mod (u64 a) Wd ltac:(lia)) as Hdm.
    pose proof (shr_word_u64_lt a) as Hq.
    set (am := u64 a mod Wd) in *. set (aq := u64 a / Wd) in *. clearbody am aq.
    rewrite (ladd_exact zk) by (clear Hdm; i64). rewrite ladd_exact by (clear Hdm; i64).
    set (tmp := zk + am + c).
    rewrite band_wordmax. rewrite shr_word by (subst tmp; i64).
    assert (Hc' : 0 <= tmp / Wd <= 1).
    { subst tmp. split; [apply Z.div_pos; lia|]. assert ((zk + am + c) / Wd < 2) by (apply Z.div_lt_upper_bound; lia). lia. }
    assert (Ha' : in_i64 aq).
    { pose proof wb_range.
      assert (2 ^ (64 - BINT_WORDBITS) <= 2 ^ 63) by (apply Z.pow_le_mono_r; lia).
      change (2 ^ 63) with two63 in *. i64. }
    destruct (IH aq (tmp / Wd) Hr Ha' Hc') as (I1 & I2 & I3).
    split; [constructor; [apply mod_limb | exact I1]|]. split; [congruence|].
    rewrite I3, Wdpow_S.
    assert (Hu : u64 aq = aq).
    { apply u64_small. pose proof wb_range.
      assert (2 ^ (64 - BINT_WORDBITS) <= 2 ^ 64) by (apply Z.pow_le_mono_r; lia).
      change (2 ^ 64) with two64 in *. lia. }
    rewrite Hu.
    replace (zk + Wd * uval r + u64 a + c) with (tmp + (uval r + aq) * Wd)
      by (subst tmp; rewrite Hdm; ring).
    rewrite Z.rem_mul_r by lia. rewrite Z.mod_add, Z.div_add by lia.
    replace (tmp / Wd + (uval r + aq)) with (uval r + aq + tmp / Wd) by ring. reflexivity.
Qed.

Lemma mul_acc_spec z off a : Forall limb_ok z -> in_i64 a -> (off <= length z)%nat ->
  Forall limb_ok (mul_acc z off a) /\ length (mul_acc z off a) = length z /\
  uval (mul_acc z off a) = (uval z + Wd ^ Z.of_nat off * u64 a) mod Wd ^ Z.of_nat (length z).
Proof.
  intros Hz Ha Ho. unfold mul_acc. pose proof (uval_range z Hz) as Hr.
  destruct (a =? 0) eqn:E.
  - apply Z.eqb_eq in E. subst a. change (u64 0) with 0. rewrite Z.mul_0_r, Z.add_0_r.
    rewrite Z.mod_small by lia. auto.
  - assert (Hlt : Forall limb_ok (skipn off z)) by (apply Forall_skipn; auto).
    destruct (mul_addk_spec (skipn off z) a 0 Hlt Ha ltac:(lia)) as (I1 & I2 & I3).
    assert (Hl1 : length (firstn off z) = off) by (rewrite firstn_length; lia).
    split; [apply Forall_app; split; [apply Forall_firstn; auto | exact I1]|].
    split; [rewrite app_length, I2, <- app_length, firstn_skipn; reflexivity|].
    rewrite uval_app, I3, Hl1, Z.add_0_r.
    rewrite (uval_firstn_skipn off z). rewrite Hl1.
    assert (Hlen : length z = (off + length (skipn off z))%nat) by (rewrite skipn_length; lia).
    rewrite Hlen. rewrite Wdpow_add.
    pose proof (Wdpow_pos off). pose proof (Wdpow_pos (length (skipn off z))).
    pose proof (uval_range (firstn off z) (Forall_firstn _ off z Hz)) as Hf. rewrite Hl1 in Hf.
    set (A := Wd ^ Z.of_nat off) in *. set (B := Wd ^ Z.of_nat (length (skipn off z))) in *.
    set (f := uval (firstn off z)) in *. set (s := uval (skipn off z)).
    replace (f + A * s + A * u64 a) with (f + (s + u64 a) * A) by ring.
    rewrite Z.rem_mul_r by lia. rewrite Z.mod_add, Z.div_add by lia.
    rewrite (Z.mod_small f A), (Z.div_small f A) by lia. rewrite Z.add_0_l. reflexivity.
Qed.

(* product of two limbs never exceeds 64 bits unsigned, so the wrapped signed product has the
   exact product as its unsigned reading *)
Lemma limb_mul_u64 a b : limb_ok a -> limb_ok b -> u64 (lmul a b) = a * b.
Proof.
  intros Ha Hb. rewrite u64_lmul, !limb_u64 by auto. unfold limb_ok in *.
  pose proof Wd_le. apply Z.mod_small. nia.
Qed.

(* skipping iterations that do nothing *)
Lemma fold_left_noop {A} (g : A -> nat -> A) l z : (forall i, In i l -> forall z, g z i = z) -> fold_left g l z = z.
Proof.
  revert z. induction l as [|i l IH]; intros z H; cbn [fold_left]; auto.
  rewrite H by (left; auto). apply IH. intros. apply H. right; auto.
Qed.

Lemma fold_left_ext_in' {A B} (f g : A -> B -> A) l : forall z,
  (forall b z, In b l -> f z b = g z b) -> fold_left f l z = fold_left g l z.
Proof.
  induction l as [|b l IH]; intros z H; cbn [fold_left]; auto.
  rewrite H by (left; auto). apply IH. intros. apply H. right; auto.
Qed.

Lemma fold_window {A} (g : A -> nat -> A) n s e z :
  (1 <= s)%nat -> (e <= n)%nat ->
  (forall i, (1 <= i <= n)%nat -> (i < s \/ e < i)%nat -> forall z, g z i = z) ->
  fold_left g (seq s (S e - s)) z = fold_left g (seq 1 n) z.
Proof.
  intros Hs He Hno.
  destruct (le_lt_dec s (S e)) as [L|L].
  - replace n with ((s - 1) + ((S e - s) + (n - e)))%nat at 1 by lia.
    rewrite !seq_app, !fold_left_app.
    replace (1 + (s - 1))%nat with s by lia. replace (s + (S e - s))%nat with (S e) by lia.
    rewrite (fold_left_noop g (seq 1 (s - 1))).
    + rewrite (fold_left_noop g (seq (S e) (n - e))); [reflexivity|].
      intros i Hi. rewrite in_seq in Hi. apply Hno; lia.
    + intros i Hi. rewrite in_seq in Hi. apply Hno; lia.
  - replace (S e - s)%nat with 0%nat by lia. cbn [seq fold_left].
    symmetry. apply fold_left_noop. intros i Hi. rewrite in_seq in Hi. apply Hno; lia.
Qed.

Definition win_inv (x y : bint) (n : nat) (se : nat * nat) : Prop :=
  (1 <= fst se)%nat /\ (snd se <= n)%nat /\
  forall i : nat, (1 <= i <= n)%nat -> (i < fst se \/ snd se < i)%nat ->
                  nthz x (i - 1) = 0 /\ nthz y (i - 1) = 0.

Definition win_step (x y : bint) (se : nat * nat) (i : nat) : nat * nat :=
  if negb (nthz x (i - 1) =? 0) || negb (nthz y (i - 1) =? 0)
  then (Nat.min (fst se) i, Nat.max (snd se) i) else se.

Lemma win_step_inv x y n se : win_inv x y n se -> win_inv x y (S n) (win_step x y se (S n)).
Proof.
  intros (H1 & H2 & H3). unfold win_step.
  destruct (nthz x (S n - 1) =? 0) eqn:E1; [destruct (nthz y (S n - 1) =? 0) eqn:E2|]; cbn [negb orb].
  - apply Z.eqb_eq in E1, E2. split; [exact H1|]. split; [lia|].
    intros i Hi Ho. destruct (Nat.eq_dec i (S n)) as [->|Hne]; [auto|]. apply H3; lia.
  - split; [cbn [fst]; lia|]. split; [cbn [snd]; lia|]. cbn [fst snd].
    intros i Hi Ho. apply H3; lia.
  - split; [cbn [fst]; lia|]. split; [cbn [snd]; lia|]. cbn [fst snd].
    intros i Hi Ho. apply H3; lia.
Qed.

Lemma win_fold_inv x y m : forall n se, win_inv x y n se ->
  win_inv x y (n + m) (fold_left (win_step x y) (seq (S n) m) se).
Proof.
  induction m as [|m IH]; intros n se H; cbn [seq fold_left].
  - replace (n + 0)%nat with n by lia. exact H.
  - replace (n + S m)%nat with (S n + m)%nat by lia. apply IH, win_step_inv, H.
Qed.

Lemma mul_window_spec x y :
  let se := mul_window x y in
  (1 <= fst se)%nat /\ (snd se <= BINT_SIZE)%nat /\
  forall i : nat, (1 <= i <= BINT_SIZE)%nat -> (i < fst se \/ snd se < i)%nat ->
                  nthz x (i - 1) = 0 /\ nthz y (i - 1) = 0.
Proof.
  cbn zeta. unfold mul_window. change (fun (se : nat * nat) (i : nat) => _) with (win_step x y).
  apply (win_fold_inv x y BINT_SIZE 0%nat (S BINT_SIZE, 0%nat)).
  split; [cbn [fst]; lia|]. split; [cbn [snd]; lia|]. intros i Hi. lia.
Qed.

Definition mul_inner (x y : bint) (i : nat) (z : bint) (j : nat) : bint :=
  mul_acc z (i + j - 2) (lmul (nthz x (i - 1)) (nthz y (j - 1))).

Lemma mul_inner_full x y i : Forall limb_ok x -> Forall limb_ok y -> (1 <= i <= BINT_SIZE)%nat ->
  forall m z, (m <= S BINT_SIZE - i)%nat -> Forall limb_ok z -> length z = BINT_SIZE ->
  let z' := fold_left (mul_inner x y i) (seq 1 m) z in
  Forall limb_ok z' /\ length z' = BINT_SIZE /\
  uval z' = (uval z + Wd ^ Z.of_nat (i - 1) * nthz x (i - 1) * uval (firstn m y)) mod Wfull.
Proof.
  intros Hx Hy Hi. induction m as [|m IH]; intros z Hm Hz Lz.
  - cbn [seq fold_left firstn uval]. rewrite Z.mul_0_r, Z.add_0_r.
    pose proof (wf_range z (conj Lz Hz)). rewrite Z.mod_small by lia. auto.
  - rewrite seq_S, fold_left_app. cbn [fold_left]. cbn zeta.
    destruct (IH z ltac:(lia) Hz Lz) as (I1 & I2 & I3).
    set (z1 := fold_left (mul_inner x y i) (seq 1 m) z) in *.
    unfold mul_inner at 1 2 3.
    assert (Hxi : limb_ok (nthz x (i - 1))) by (apply nth_limb_ok; auto).
    assert (Hyj : limb_ok (nthz y (1 + m - 1))) by (apply nth_limb_ok; auto).
    destruct (mul_acc_spec z1 (i + (1 + m) - 2) (lmul (nthz x (i - 1)) (nthz y (1 + m - 1))) I1
                (wrap64_range _) ltac:(lia)) as (A1 & A2 & A3).
    split; [exact A1|]. split; [congruence|].
    rewrite A3, I2, <- Wfull_eq, I3, limb_mul_u64 by auto.
    rewrite uval_firstn_S.
    pose proof Wfull_pos.
    rewrite Z.add_mod_idemp_l by lia. f_equal.
    assert (Hfl : length (firstn m y) = Nat.min m (length y)) by apply firstn_length.
    replace (1 + m - 1)%nat with m by lia.
    destruct (le_lt_dec (length y) m) as [L|L].
    + unfold nthz. rewrite (nth_overflow y) by lia. ring.
    + rewrite Hfl. replace (Nat.min m (length y)) with m by lia.
      replace (i + (1 + m) - 2)%nat with ((i - 1) + m)%nat by lia. rewrite Wdpow_add. unfold nthz. ring.
Qed.

Lemma mul_outer_full x y : wf x -> wf y ->
  forall k, (k <= BINT_SIZE)%nat ->
  let z' := fold_left (fun z i => fold_left (mul_inner x y i) (seq 1 (S BINT_SIZE - i)) z) (seq 1 k) bint_zero in
  Forall limb_ok z' /\ length z' = BINT_SIZE /\
  uval z' = (uval (firstn k x) * uval y) mod Wfull.
Proof.
  intros [Lx Fx] [Ly Fy]. induction k as [|k IH]; intros Hk.
  - cbn [seq fold_left firstn uval]. destruct wf_zero as ([Lz Fz] & Vz). rewrite Vz. cbn. auto.
  - rewrite seq_S, fold_left_app. cbn [fold_left]. cbn zeta.
    destruct (IH ltac:(lia)) as (I1 & I2 & I3).
    set (z1 := fold_left _ (seq 1 k) bint_zero) in *.
    destruct (mul_inner_full x y (1 + k) Fx Fy ltac:(lia) (S BINT_SIZE - (1 + k)) z1 ltac:(lia) I1 I2) as (A1 & A2 & A3).
    split; [exact A1|]. split; [exact A2|].
    rewrite A3, I3. pose proof Wfull_pos. rewrite Z.add_mod_idemp_l by lia.
    rewrite uval_firstn_S. rewrite firstn_length. replace (Nat.min k (length x)) with k by lia.
    replace (1 + k - 1)%nat with k by lia. unfold nthz.
    set (m := (S BINT_SIZE - (1 + k))%nat).
    rewrite (uval_firstn_skipn m y) at 2. rewrite firstn_length. replace (Nat.min m (length y)) with m by lia.
    (* the part of y beyond limb m contributes a multiple of Wd^SIZE *)
    assert (HW : Wfull = Wd ^ Z.of_nat k * Wd ^ Z.of_nat m).
    { rewrite Wfull_eq, <- Wdpow_add. f_equal. lia. }
    set (A := uval (firstn k x) * uval y). set (xk := nth k x 0). set (f := uval (firstn m y)). set (s := uval (skipn m y)).
    replace ((uval (firstn k x) + Wd ^ Z.of_nat k * xk) * (f + Wd ^ Z.of_nat m * s))
      with (uval (firstn k x) * (f + Wd ^ Z.of_nat m * s) + Wd ^ Z.of_nat k * xk * f + (xk * s) * Wfull)
      by (rewrite HW; ring).
    rewrite Z.mod_add by lia. f_equal.
    subst A. rewrite (uval_firstn_skipn m y) at 1. rewrite firstn_length. replace (Nat.min m (length y)) with m by lia.
    reflexivity.
Qed.

Lemma lmul_zero_l b : lmul 0 b = 0. Proof. reflexivity. Qed.
Lemma lmul_zero_r a : lmul a 0 = 0. Proof. unfold lmul. rewrite Z.mul_0_r. reflexivity. Qed.
Lemma mul_acc_zero z off : mul_acc z off 0 = z. Proof. reflexivity. Qed.

Theorem mul_correct x y : wf x -> wf y ->
  wf (bmul x y) /\ uval (bmul x y) = (uval x * uval y) mod Wfull.
Proof.
  intros Hx Hy. unfold bmul.
  pose proof (mul_window_spec x y) as HW. cbn zeta in HW.
  destruct (mul_window x y) as [s e]. cbn [fst snd] in HW. destruct HW as (Hs & He & Hz).
  (* rewrite the windowed loops into the full loops *)
  assert (E : fold_left (fun z i => fold_left (fun z j => mul_acc z (i + j - 2) (lmul (nthz x (i - 1)) (nthz y (j - 1))))
                 (seq s (S (Nat.min (S BINT_SIZE - i) e) - s)) z) (seq s (S e - s)) bint_zero
            = fold_left (fun z i => fold_left (mul_inner x y i) (seq 1 (S BINT_SIZE - i)) z) (seq 1 BINT_SIZE) bint_zero).
  { rewrite <- (fold_window (fun z i => fold_left (mul_inner x y i) (seq 1 (S BINT_SIZE - i)) z) BINT_SIZE s e) by
      (try lia; intros i Hi Ho z; apply fold_left_noop; intros j Hj z0; unfold mul_inner;
       rewrite (proj1 (Hz i Hi Ho)), lmul_zero_l; apply mul_acc_zero).
    apply fold_left_ext_in'. intros i z Hi. rewrite in_seq in Hi.
    change (fun z0 j => mul_acc z0 (i + j - 2) (lmul (nthz x (i - 1)) (nthz y (j - 1)))) with (mul_inner x y i).
    apply (fold_window (mul_inner x y i) (S BINT_SIZE - i) s (Nat.min (S BINT_SIZE - i) e)); try lia.
    intros j Hj Ho z0. unfold mul_inner.
    rewrite (proj2 (Hz j ltac:(lia) ltac:(lia))), lmul_zero_r. apply mul_acc_zero. }
  rewrite E.
  destruct (mul_outer_full x y Hx Hy BINT_SIZE ltac:(lia)) as (A1 & A2 & A3).
  split; [split; auto|]. rewrite A3. rewrite <- (wf_length x Hx), firstn_all. reflexivity.
Qed.
