(* frombase: exactly which strings are accepted (strings without white space) *)
From C17 Require Import Model Model2 Model3 Proofs ProofsLib ProofsArith ProofsMul ProofsBits ProofsConv ProofsShift ProofsMisc ProofsText.
From Coq Require Import ZifyBool.
Local Open Scope Z_scope.
Ltac Zify.zify_post_hook ::= Z.div_mod_to_equations.

Definition no_space (s : str) : Prop := Forall (fun c => is_space c = false) s.
Definition digit_okb (base c : Z) : bool := is_alnum c && (char_digit c <? base).
Definition nonempty (s : str) : bool := match s with [] => false | _ => true end.
(* optional sign, then one or more digits of the base *)
Definition core_ok (base : Z) (s : str) : bool :=
  match s with
  | [] => false
  | c :: r => if (c =? 45) || (c =? 43) then nonempty r && forallb (digit_okb base) r else forallb (digit_okb base) s
  end.

Lemma digit_okb_spec base c : digit_okb base c = true <-> char_ok base c.
Proof.
  unfold digit_okb, char_ok. split.
  - intros H. apply andb_prop in H. destruct H as (A & B). split; [exact A|]. destruct (alnum_cases c A) as (_ & _ & _ & R & _). lia.
  - intros (A & B). rewrite A. cbn [andb]. lia.
Qed.

Lemma core_ok_split base s : core_ok base s = true ->
  exists sg cs, s = sg ++ cs /\ sign_ok sg /\ cs <> [] /\ Forall (char_ok base) cs.
Proof.
  destruct s as [|c r]; [discriminate|]. cbn [core_ok].
  assert (F : forall l, forallb (digit_okb base) l = true -> Forall (char_ok base) l).
  { intros l H. rewrite forallb_forall in H. apply Forall_forall. intros x Hx. apply digit_okb_spec. auto. }
  destruct ((c =? 45) || (c =? 43)) eqn:E.
  - intros H. apply andb_prop in H. destruct H as (N & H). exists [c], r. split; [reflexivity|].
    split; [assert (c = 45 \/ c = 43) as [-> | ->] by lia; unfold sign_ok; auto|]. split; [destruct r; [discriminate | discriminate]|]. auto.
  - intros H. exists [], (c :: r). split; [reflexivity|]. split; [left; reflexivity|]. split; [discriminate | auto].
Qed.

(* ---- tonumber(s, base) rejects ---- *)
Lemma str2int_bad base : forall cs n, no_space cs -> forallb (digit_okb base) cs = false ->
  match str2int_digits cs base n with
  | None => True
  | Some (_, rest) => rest <> [] /\ no_space rest
  end.
Proof.
  induction cs as [|c r IH]; intros n Hs Hb; [discriminate|]. cbn [str2int_digits]. cbn [forallb] in Hb.
  inversion Hs as [|? ? Hc Hr]; subst. unfold digit_okb in Hb at 1.
  destruct (is_alnum c) eqn:A; [|split; [discriminate | exact Hs]].
  destruct (base <=? char_digit c) eqn:E; [exact I|].
  assert (char_digit c <? base = true) by lia. rewrite H in Hb. cbn [andb] in Hb. apply IH; auto.
Qed.

Lemma skip_ws_nospace s : no_space s -> skip_ws s = s.
Proof. intros H. destruct s as [|c r]; [reflexivity|]. inversion H; subst. cbn [skip_ws]. rewrite H2. reflexivity. Qed.

Lemma tonumber_reject base s : no_space s -> core_ok base s = false -> lua_tonumber_base s base = None.
Proof.
  intros Hs Hc. unfold lua_tonumber_base. rewrite (skip_ws_nospace s Hs).
  assert (G : forall body, no_space body -> (nonempty body && forallb (digit_okb base) body) = false ->
            match body with
            | c :: _ => if is_alnum c then match str2int_digits body base 0 with
                                           | None => None
                                           | Some (n, rest) => match skip_ws rest with [] => Some n | _ => @None Z end
                                           end else None
            | [] => None
            end = None).
  { intros body Hb Hf. destruct body as [|c r]; [reflexivity|]. cbn [nonempty andb] in Hf.
    destruct (is_alnum c) eqn:A; [|reflexivity].
    pose proof (str2int_bad base (c :: r) 0 Hb Hf) as X. destruct (str2int_digits (c :: r) base 0) as [[n rest]|]; [|reflexivity].
    destruct X as (X1 & X2). rewrite (skip_ws_nospace rest X2). destruct rest; [congruence | reflexivity]. }
  destruct s as [|c r]; [reflexivity|]. cbn [core_ok] in Hc. inversion Hs as [|? ? Hc0 Hr]; subst.
  unfold strip_sign. destruct (c =? 45) eqn:E1; cbn [fst snd].
  - cbn [orb] in Hc. specialize (G r Hr Hc). destruct r as [|c2 r2]; [reflexivity|].
    revert G. destruct (is_alnum c2); [|reflexivity]. destruct (str2int_digits (c2 :: r2) base 0) as [[n rest]|]; [|reflexivity].
    destruct (skip_ws rest); [intros G; discriminate G | reflexivity].
  - destruct (c =? 43) eqn:E2; cbn [fst snd].
    + cbn [orb] in Hc. exact (G r Hr Hc).
    + cbn [orb] in Hc. exact (G (c :: r) Hs ltac:(cbn [nonempty andb]; exact Hc)).
Qed.

(* ---- lower-casing does not change acceptance ---- *)
Lemma lower_facts c : is_alnum (to_lower c) = is_alnum c /\
  ((to_lower c =? 45) || (to_lower c =? 43)) = ((c =? 45) || (c =? 43)) /\ is_space (to_lower c) = is_space c.
Proof.
  unfold to_lower. destruct (is_upper c) eqn:U; [|auto].
  unfold is_upper in U. unfold is_alnum, is_digit, is_upper, is_lower, is_space. repeat split; lia.
Qed.

Lemma digit_okb_lower base c : digit_okb base (to_lower c) = digit_okb base c.
Proof.
  unfold digit_okb. destruct (lower_facts c) as (A & _). rewrite A. destruct (is_alnum c) eqn:E; [|reflexivity].
  destruct (alnum_cases c E) as (_ & _ & _ & _ & _ & D). rewrite D. reflexivity.
Qed.

Lemma core_ok_lower base s : core_ok base (map to_lower s) = core_ok base s.
Proof.
  destruct s as [|c r]; [reflexivity|]. cbn [map core_ok]. destruct (lower_facts c) as (_ & S & _). rewrite S.
  assert (F : forall l, forallb (digit_okb base) (map to_lower l) = forallb (digit_okb base) l).
  { induction l as [|x l IH]; cbn [map forallb]; [reflexivity|]. rewrite digit_okb_lower, IH. reflexivity. }
  destruct ((c =? 45) || (c =? 43)).
  - rewrite F. destruct r; reflexivity.
  - change (to_lower c :: map to_lower r) with (map to_lower (c :: r)). apply F.
Qed.

(* ---- the chunk loop rejects a digit at or above the base ---- *)
Lemma alnum_no_space cs : forallb is_alnum cs = true -> no_space cs.
Proof.
  intros H. rewrite forallb_forall in H. apply Forall_forall. intros c Hc. destruct (alnum_cases c (H c Hc)) as (_ & _ & S & _). exact S.
Qed.

Lemma fb_loop_reject base step : 2 <= base -> (1 <= step)%nat -> base ^ Z.of_nat step <= maxint -> Z.of_nat step < 2 ^ 63 ->
  forall fuel cs first n, (length cs < fuel)%nat -> forallb is_alnum cs = true -> forallb (digit_okb base) cs = false ->
  fb_loop fuel cs first step base n = Err ENone.
Proof.
  intros Hb Hs Hmax Hs63.
  induction fuel as [|f IH]; intros cs first n Hf Ha Hbad; [lia|].
  cbn [fb_loop]. destruct cs as [|c0 cs0] eqn:Ecs; [discriminate|].
  rewrite <- Ecs in *. assert (Hne : cs <> []) by (rewrite Ecs; discriminate). clear Ecs c0 cs0.
  set (part := firstn step cs). set (rest := skipn step cs).
  assert (Ecs : cs = part ++ rest) by (symmetry; apply firstn_skipn).
  assert (Lp : (1 <= length part <= step)%nat).
  { subst part. rewrite firstn_length. destruct cs; [congruence|]. cbn [length]. lia. }
  assert (Hpa : forallb is_alnum part = true /\ forallb is_alnum rest = true).
  { rewrite Ecs, forallb_app in Ha. apply andb_prop in Ha. exact Ha. }
  destruct Hpa as (Hpa & Hra).
  destruct (forallb (digit_okb base) part) eqn:Hp.
  - (* this chunk is fine, the bad digit is further on *)
    assert (Hpart : Forall (char_ok base) part).
    { rewrite forallb_forall in Hp. apply Forall_forall. intros x Hx. apply digit_okb_spec. auto. }
    assert (Hpne : part <> []) by (intro E; rewrite E in Lp; cbn in Lp; lia).
    pose proof (dval_bound base (map cval part) ltac:(lia) (chars_ok_digits _ _ Hpart)) as Hd. rewrite map_length in Hd.
    assert (Hpp : base ^ Z.of_nat (length part) <= base ^ Z.of_nat step) by (apply Z.pow_le_mono_r; lia).
    pose proof (tonumber_spec base [] part Hb (or_introl eq_refl) Hpne Hpart ltac:(lia)) as Et.
    cbn [app sign_val] in Et. rewrite Et.
    assert (Ep : exists p, (if first then Some 1 else lua_ipow 64 1 base (Z.of_nat (length part))) = Some p).
    { destruct first; [eauto|]. rewrite lua_ipow_spec; [eauto | lia | lia | | lia].
      split; [lia|]. change (Z.of_nat 64) with 64. assert (2 ^ 63 < 2 ^ 64) by (apply Z.pow_lt_mono_r; lia). lia. }
    destruct Ep as (p & ->).
    apply IH; [| exact Hra |].
    + subst rest. rewrite skipn_length. destruct cs; [congruence|]. cbn [length] in *. lia.
    + rewrite Ecs, forallb_app, Hp in Hbad. exact Hbad.
  - rewrite (tonumber_reject base part (alnum_no_space part Hpa)); [reflexivity|].
    destruct part as [|c r] eqn:E; [cbn in Lp; lia|]. cbn [core_ok].
    cbn [forallb] in Hpa. apply andb_prop in Hpa. destruct (alnum_cases c (proj1 Hpa)) as (N1 & N2 & _).
    destruct (c =? 45) eqn:X1; [lia|]. destruct (c =? 43) eqn:X2; [lia|]. exact Hp.
Qed.

(* ---- frombase: accepted exactly when the string is an optional sign followed by digits of the base ---- *)
Lemma frombase_guard_fact : frombase_short_guarded = true. Proof. reflexivity. Qed.

Lemma shape_ok_nospace s : shape_ok s = true -> no_space s.
Proof.
  unfold shape_ok, split_sign. destruct s as [|c r]; [discriminate|].
  destruct ((c =? 45) || (c =? 43)) eqn:Sg.
  - destruct r as [|c2 r2]; [discriminate|]. destruct (forallb is_alnum (c2 :: r2)) eqn:Al; [|discriminate]. intros _.
    constructor; [unfold is_space; lia | apply alnum_no_space; exact Al].
  - destruct (forallb is_alnum (c :: r)) eqn:Al; [|discriminate]. intros _. apply alnum_no_space. exact Al.
Qed.

(* for the guarded policy, with no assumption on the string: white space anywhere, a digit at or above the base,
   an inner sign, an empty digit part or any other character give nil, on the short path and on the chunked path *)
Theorem frombase_pol_accepts base s : 2 <= base <= 36 ->
  (core_ok base s = true ->
     exists sg cs x, s = sg ++ cs /\ sign_ok sg /\ cs <> [] /\ Forall (char_ok base) cs /\
       frombase_pol true s base = Ok x /\ wf x /\ uval x = (sign_val sg * dval base (map cval cs)) mod Wfull) /\
  (core_ok base s = false -> frombase_pol true s base = Err ENone).
Proof.
  intros Hb. split.
  - intros Hc. destruct (core_ok_split base s Hc) as (sg & cs & E & Hsg & Hne & Hcs).
    destruct (frombase_pol_correct true base sg cs Hb Hsg Hne Hcs) as (x & A & B & C). exists sg, cs, x. rewrite E. auto 10.
  - intros Hc. unfold frombase_pol. destruct ((2 <=? base) && (base <=? 36)) eqn:Eb; [|lia]. cbn [negb].
    destruct (frombase_step base Hb) as (step & E1 & E2 & Hst & Hmax). rewrite E1, E2.
    destruct ((length s <? step)%nat && shape_ok s) eqn:Short.
    + apply andb_prop in Short. destruct Short as (_ & Sh).
      rewrite (tonumber_reject base s (shape_ok_nospace s Sh) Hc). reflexivity.
    + pose proof (core_ok_lower base s) as Hl. rewrite Hc in Hl.
      set (t := map to_lower s) in *.
      unfold split_sign. destruct t as [|c r] eqn:Et; [reflexivity|]. cbn [core_ok] in Hl.
      destruct ((c =? 45) || (c =? 43)) eqn:Sg.
      * destruct r as [|c2 r2]; [reflexivity|]. cbn [nonempty andb] in Hl.
        destruct (forallb is_alnum (c2 :: r2)) eqn:Al; [|reflexivity].
        rewrite (fb_loop_reject base step ltac:(lia) ltac:(lia) Hmax ltac:(change (2 ^ 63) with 9223372036854775808; lia)); auto.
      * destruct (forallb is_alnum (c :: r)) eqn:Al; [|reflexivity].
        rewrite (fb_loop_reject base step ltac:(lia) ltac:(lia) Hmax ltac:(change (2 ^ 63) with 9223372036854775808; lia)); auto.
Qed.

Theorem frombase_accepts base s : 2 <= base <= 36 ->
  (core_ok base s = true ->
     exists sg cs x, s = sg ++ cs /\ sign_ok sg /\ cs <> [] /\ Forall (char_ok base) cs /\
       frombase s base = Ok x /\ wf x /\ uval x = (sign_val sg * dval base (map cval cs)) mod Wfull) /\
  (core_ok base s = false -> frombase s base = Err ENone).
Proof. unfold frombase. rewrite frombase_guard_fact. apply frombase_pol_accepts. Qed.

(* the guard is needed: without it the short path reads " 1" (white space is skipped by tonumber) *)
Theorem frombase_guard_needed :
  ~ (forall base s, 2 <= base <= 36 -> core_ok base s = false -> frombase_pol false s base = Err ENone).
Proof.
  intros H. specialize (H 10 [32; 49] ltac:(lia) ltac:(reflexivity)). vm_compute in H. discriminate H.
Qed.

Example reject_example :
  frombase [49; 50] 2 = Err ENone /\ frombase [45] 10 = Err ENone /\ frombase [] 10 = Err ENone /\
  frombase [49; 45; 49] 10 = Err ENone.
Proof. split; [|split; [|split]]; vm_compute; reflexivity. Qed.
