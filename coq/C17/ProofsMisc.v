(* predicates, abs/max/min, bwrap, rotations *)
From C17 Require Import Model Model2 Proofs ProofsLib ProofsArith ProofsBits ProofsConv ProofsShift.
From Coq Require Import ZifyBool.
Local Open Scope Z_scope.
Ltac Zify.zify_post_hook ::= Z.div_mod_to_equations.

(* ---- iszero / isone / isminusone / iseven / isodd ---- *)
Lemma allzero_spec x : Forall limb_ok x -> forallb (fun w => w =? 0) x = (uval x =? 0).
Proof.
  induction 1 as [|w r Hw Hr IH]; cbn [forallb uval]; [reflexivity|].
  rewrite IH. unfold limb_ok in Hw. pose proof (uval_nonneg r Hr). pose proof Wd_pos.
  destruct (w =? 0) eqn:E1; destruct (uval r =? 0) eqn:E2; cbn [andb]; nia.
Qed.

Theorem iszero_correct x : wf x -> biszero x = (uval x =? 0).
Proof. intros [L F]. apply allzero_spec; auto. Qed.

Theorem isone_correct x : wf x -> bisone x = (uval x =? 1).
Proof.
  intros [L F]. unfold bisone. pose proof size_pos. destruct x as [|a r]; [cbn in L; lia|].
  inversion F as [|? ? Ha Hr]; subst. rewrite allzero_spec by auto. cbn [uval].
  unfold limb_ok in Ha. pose proof (uval_nonneg r Hr). pose proof Wd_ge2.
  destruct (a =? 1) eqn:E1; destruct (uval r =? 0) eqn:E2; cbn [andb]; nia.
Qed.

Lemma allmax_spec x : Forall limb_ok x ->
  forallb (fun w => w =? BINT_WORDMAX) x = (uval x =? Wd ^ Z.of_nat (length x) - 1).
Proof.
  rewrite wordmax_eq. induction 1 as [|w r Hw Hr IH]; cbn [forallb uval length]; [reflexivity|].
  rewrite IH, Wdpow_S. unfold limb_ok in Hw. pose proof (uval_range r Hr). pose proof Wd_pos.
  set (P := Wd ^ Z.of_nat (length r)) in *.
  destruct (w =? Wd - 1) eqn:E1; destruct (uval r =? P - 1) eqn:E2; cbn [andb]; nia.
Qed.

Theorem isminusone_correct x : wf x -> bisminusone x = (uval x =? Wfull - 1) /\ bisminusone x = (sval x =? -1).
Proof.
  intros [L F]. unfold bisminusone. rewrite allmax_spec, L, <- Wfull_eq by auto. split; [reflexivity|].
  pose proof (wf_range x (conj L F)). pose proof Wfull_half. pose proof Wfull_ge64. unfold sval.
  set (h := Wfull / 2) in *. clearbody h. unfold two64 in *.
  destruct (uval x <? h) eqn:E; lia.
Qed.

Lemma hd_mod2 x : wf x -> lband (hd 0 x) 1 = uval x mod 2.
Proof.
  intros [L F]. pose proof size_pos. destruct x as [|a r]; [cbn in L; lia|]. cbn [hd uval].
  change 1 with (2 ^ 1 - 1) at 1. rewrite lband_ones by lia. change (2 ^ 1) with 2.
  destruct wordmsb_eq as (_ & E & _). rewrite E at 1.
  replace (a + 2 * (Wd / 2) * uval r) with (a + (Wd / 2 * uval r) * 2) by ring.
  rewrite Z.mod_add by lia. reflexivity.
Qed.

Theorem iseven_correct x : wf x -> biseven x = (uval x mod 2 =? 0) /\ bisodd x = (uval x mod 2 =? 1).
Proof. intros Hx. unfold biseven, bisodd. rewrite hd_mod2 by auto. auto. Qed.

(* ---- mininteger / maxinteger ---- *)
Lemma uval_repeat_max n : uval (repeat BINT_WORDMAX n) = Wd ^ Z.of_nat n - 1 /\ Forall limb_ok (repeat BINT_WORDMAX n).
Proof.
  rewrite wordmax_eq. pose proof Wd_pos. induction n as [|n [IH1 IH2]]; cbn [repeat uval].
  - split; [reflexivity | constructor].
  - rewrite IH1, Wdpow_S. split; [ring|]. constructor; [unfold limb_ok; lia | exact IH2].
Qed.

Theorem mininteger_correct : wf bint_mininteger /\ uval bint_mininteger = Wfull / 2 /\ sval bint_mininteger = - (Wfull / 2).
Proof.
  unfold bint_mininteger. destruct wordmsb_eq as (E0 & E1 & E2). pose proof size_pos. pose proof Wd_ge2.
  assert (U : uval (repeat 0 (BINT_SIZE - 1) ++ [BINT_WORDMSB]) = Wfull / 2).
  { rewrite uval_snoc, uval_repeat0, repeat_length, E0, Wfull_eq.
    replace BINT_SIZE with (S (BINT_SIZE - 1)) at 2 by lia. rewrite Wdpow_S.
    set (P := Wd ^ Z.of_nat (BINT_SIZE - 1)). clearbody P. set (h := Wd / 2) in *. clearbody h.
    rewrite E1. replace (2 * h * P) with (h * P * 2) by ring. rewrite Z.div_mul by lia. ring. }
  assert (Hw : wf (repeat 0 (BINT_SIZE - 1) ++ [BINT_WORDMSB])).
  { split; [rewrite app_length, repeat_length; cbn; lia|].
    apply Forall_app; split; [apply Forall_repeat0|]. constructor; [|constructor]. rewrite E0. unfold limb_ok. lia. }
  split; [exact Hw|]. split; [exact U|]. unfold sval. rewrite U. pose proof Wfull_half.
  destruct (Wfull / 2 <? Wfull / 2) eqn:E; lia.
Qed.

Theorem maxinteger_correct : wf bint_maxinteger /\ uval bint_maxinteger = Wfull / 2 - 1.
Proof.
  unfold bint_maxinteger. destruct wordmsb_eq as (E0 & E1 & E2). pose proof size_pos. pose proof Wd_ge2.
  destruct (uval_repeat_max (BINT_SIZE - 1)) as (U & F).
  assert (X : lbxor BINT_WORDMAX BINT_WORDMSB = Wd / 2 - 1).
  { rewrite wordmax_eq, E0. unfold lbxor. pose proof wb_range.
    (* Wd - 1 = ones W; xor with the top bit clears it *)
    replace (Wd - 1) with ((Wd / 2 - 1) + 2 ^ (BINT_WORDBITS - 1) * 1) by (rewrite <- E2; lia).
    replace (Wd / 2) with (0 + 2 ^ (BINT_WORDBITS - 1) * 1) at 2 by (rewrite <- E2; lia).
    destruct (lxor_cons (BINT_WORDBITS - 1) (Wd / 2 - 1) 0 1 1 ltac:(lia) ltac:(rewrite <- E2; lia)
               ltac:(split; [lia | apply Z.pow_pos_nonneg; lia])) as (_ & ->).
    rewrite Z.lxor_0_r. change (Z.lxor 1 1) with 0. ring. }
  rewrite X. split.
  - split; [rewrite app_length, repeat_length; cbn; lia|].
    apply Forall_app; split; [exact F|]. constructor; [|constructor]. unfold limb_ok. lia.
  - rewrite uval_snoc, U, repeat_length, Wfull_eq.
    replace BINT_SIZE with (S (BINT_SIZE - 1)) at 3 by lia. rewrite Wdpow_S.
    set (P := Wd ^ Z.of_nat (BINT_SIZE - 1)). clearbody P. set (h := Wd / 2) in *. clearbody h.
    rewrite E1. replace (2 * h * P) with (h * P * 2) by ring. rewrite Z.div_mul by lia. ring.
Qed.

(* ---- abs / max / min ---- *)
Lemma sval_mod x : wf x -> uval x = sval x mod Wfull.
Proof.
  intros Hx. pose proof (wf_range x Hx). pose proof Wfull_pos. unfold sval.
  destruct (uval x <? Wfull / 2); [symmetry; apply Z.mod_small; lia|].
  replace (uval x - Wfull) with (uval x + (-1) * Wfull) by ring. rewrite Z.mod_add, Z.mod_small by lia. reflexivity.
Qed.

Theorem abs_correct x : wf x -> wf (babs x) /\ uval (babs x) = Z.abs (sval x) mod Wfull.
Proof.
  intros Hx. unfold babs. rewrite isneg_correct by auto.
  destruct (sval x <? 0) eqn:E.
  - destruct (unm_correct x Hx) as (A & B). split; [exact A|]. rewrite B, (sval_mod x Hx).
    pose proof Wfull_pos. rewrite Z.abs_neq by lia.
    set (a := sval x). rewrite (Z.div_mod a Wfull) at 2 by lia.
    replace (- (Wfull * (a / Wfull) + a mod Wfull)) with (- (a mod Wfull) + (- (a / Wfull)) * Wfull) by ring.
    rewrite Z.mod_add by lia. reflexivity.
  - split; [exact Hx|]. rewrite Z.abs_eq by lia. apply sval_mod; auto.
Qed.

Theorem max_correct x y : wf x -> wf y ->
  wf (bmax x y) /\ sval (bmax x y) = Z.max (sval x) (sval y) /\ (bmax x y = x \/ bmax x y = y).
Proof.
  intros Hx Hy. unfold bmax. rewrite lt_correct by auto.
  destruct (sval y <? sval x) eqn:E; (split; [auto|]); split; auto; lia.
Qed.
Theorem min_correct x y : wf x -> wf y ->
  wf (bmin x y) /\ sval (bmin x y) = Z.min (sval x) (sval y) /\ (bmin x y = x \/ bmin x y = y).
Proof.
  intros Hx Hy. unfold bmin. rewrite lt_correct by auto.
  destruct (sval x <? sval y) eqn:E; (split; [auto|]); split; auto; lia.
Qed.

(* ---- |x| as the code computes it, half range ---- *)
Definition Half : Z := Wfull / 2.
Lemma Half_facts : Wfull = 2 * Half /\ two63 <= Half.
Proof. unfold Half. split; [apply Wfull_half | apply two63_le_half]. Qed.

Lemma sval_bounds x : wf x -> - Half <= sval x < Half.
Proof. apply sval_range. Qed.

(* |x| as computed by the code (abs, or the conditional negation of idivmod) *)
Lemma absval x : wf x ->
  let a := if isneg x then bunm x else x in
  wf a /\ uval a = Z.abs (sval x).
Proof.
  intros Hx. pose proof (abs_correct x Hx) as (A & B). unfold babs in *. cbn zeta.
  split; [exact A|]. rewrite B. destruct Half_facts as (E & _). pose proof (sval_bounds x Hx).
  apply Z.mod_small. unfold two63 in *. lia.
Qed.


(* ---- bwrap ---- *)
Theorem bwrap_correct x y : wf x -> in_i64 y ->
  exists r, bwrap x y = Some r /\ wf r /\ uval r = if y <=? 0 then 0 else uval x mod 2 ^ y.
Proof.
  intros Hx Hy. unfold bwrap. pose proof (wf_range x Hx) as Hr. pose proof Wfull_pos.
  destruct (y <=? 0) eqn:E0.
  - exists bint_zero. destruct wf_zero as (A & B). auto.
  - destruct (y <? BINT_BITS) eqn:E1.
    + destruct wf_one as (W1 & V1).
      destruct (bshl_small bint_one y W1 ltac:(lia)) as (s & Es & Ws & Vs). rewrite Es.
      assert (Hp : 0 < 2 ^ y < Wfull).
      { split; [apply Z.pow_pos_nonneg; lia|]. unfold Wfull. apply Z.pow_lt_mono_r; lia. }
      rewrite V1, Z.mul_1_l, Z.mod_small in Vs by lia.
      destruct (dec_correct s Ws) as (Wd1 & Vd). rewrite Vs, Z.mod_small in Vd by lia.
      destruct (band_correct x (bdec s) Hx Wd1) as (Wb & Vb).
      eexists; split; [reflexivity|]. split; [exact Wb|].
      rewrite Vb, Vd. replace (2 ^ y - 1) with (Z.ones y) by (rewrite Z.ones_equiv; lia).
      apply Z.land_ones. lia.
    + exists x. split; [reflexivity|]. split; [exact Hx|]. symmetry. apply Z.mod_small.
      assert (Wfull <= 2 ^ y) by (unfold Wfull; apply Z.pow_le_mono_r; lia). lia.
Qed.

(* ---- rotations ---- *)
(* rotation to the left by any integer count k (reduced mod BITS) *)
Definition rotl (u k : Z) : Z :=
  let k' := k mod BINT_BITS in
  if k' =? 0 then u else Z.lor ((u * 2 ^ k') mod Wfull) (u / 2 ^ (BINT_BITS - k')).

Lemma lsub_bits y : - BINT_BITS <= y <= BINT_BITS -> lsub BINT_BITS y = BINT_BITS - y.
Proof. intros. pose proof bits_small. pose proof bits_ge64. change (2 ^ 31) with 2147483648 in *. apply lsub_exact. i64. Qed.

(* the two bodies, for 0 < y <= BITS *)
Lemma brol_pos_spec x y : wf x -> 0 < y <= BINT_BITS ->
  exists r, brol_pos x y = Some r /\ wf r /\ uval r = rotl (uval x) y.
Proof.
  intros Hx Hy. unfold brol_pos. rewrite lsub_bits by lia. pose proof bits_small as Hbs.
  change (2 ^ 31) with 2147483648 in Hbs. pose proof (wf_range x Hx). pose proof Wfull_pos.
  destruct (shl_correct x y Hx ltac:(i64)) as (a & Ea & Wa & Va).
  destruct (bshr_small x (BINT_BITS - y) Hx ltac:(lia)) as (b & Eb & Wb & Vb).
  rewrite Ea, Eb. cbn [bor_opt]. destruct (bor_correct a b Wa Wb) as (Wr & Vr).
  eexists; split; [reflexivity|]. split; [exact Wr|]. rewrite Vr, Va, Vb.
  rewrite Z.shiftl_mul_pow2 by lia. unfold rotl. cbn zeta.
  destruct (Z.eq_dec y BINT_BITS) as [->|Hne].
  - rewrite Z.mod_same by lia. rewrite Z.eqb_refl. fold Wfull. rewrite Z.mod_mul by lia.
    rewrite Z.sub_diag, Z.pow_0_r, Z.div_1_r. reflexivity.
  - rewrite (Z.mod_small y BINT_BITS) by lia. destruct (y =? 0) eqn:E; [lia|]. reflexivity.
Qed.

Lemma bror_pos_spec x y : wf x -> 0 < y <= BINT_BITS ->
  exists r, bror_pos x y = Some r /\ wf r /\ uval r = rotl (uval x) (- y).
Proof.
  intros Hx Hy. unfold bror_pos. rewrite lsub_bits by lia. pose proof bits_small as Hbs.
  change (2 ^ 31) with 2147483648 in Hbs. pose proof (wf_range x Hx). pose proof Wfull_pos.
  destruct (shr_correct x y Hx ltac:(i64)) as (a & Ea & Wa & Va).
  destruct (bshl_small x (BINT_BITS - y) Hx ltac:(lia)) as (b & Eb & Wb & Vb).
  rewrite Ea, Eb. cbn [bor_opt]. destruct (bor_correct a b Wa Wb) as (Wr & Vr).
  eexists; split; [reflexivity|]. split; [exact Wr|]. rewrite Vr, Va, Vb.
  rewrite Z.shiftr_div_pow2 by lia. unfold rotl. cbn zeta.
  destruct (Z.eq_dec y BINT_BITS) as [->|Hne].
  - replace (- BINT_BITS) with ((-1) * BINT_BITS) by ring. rewrite Z.mod_mul by lia. rewrite Z.eqb_refl.
    fold Wfull. rewrite Z.div_small, Z.mod_0_l by lia. rewrite Z.sub_diag, Z.pow_0_r, Z.mul_1_r.
    rewrite Z.mod_small by lia. reflexivity.
  - assert (E : (- y) mod BINT_BITS = BINT_BITS - y).
    { replace (- y) with (BINT_BITS - y + (-1) * BINT_BITS) by ring. rewrite Z.mod_add, Z.mod_small by lia. reflexivity. }
    rewrite E. destruct (BINT_BITS - y =? 0) eqn:E0; [lia|].
    replace (BINT_BITS - (BINT_BITS - y)) with y by ring.
    assert (0 < 2 ^ y) by (apply Z.pow_pos_nonneg; lia).
    rewrite (Z.mod_small (uval x / 2 ^ y)).
    + apply Z.lor_comm.
    + split; [apply Z.div_pos; lia|]. apply Z.le_lt_trans with (uval x); [|lia]. apply Z.div_le_upper_bound; nia.
Qed.

Lemma imod_bits_lmod y : lmod y BINT_BITS = Some (imod_bits y).
Proof. unfold lmod, imod_bits. pose proof bits_ge64. destruct (BINT_BITS =? 0) eqn:E; [lia | reflexivity]. Qed.

Lemma rotl_mod u k : rotl u (k mod BINT_BITS) = rotl u k.
Proof. unfold rotl. pose proof bits_ge64. rewrite Z.mod_mod by lia. reflexivity. Qed.

Lemma rotl_opp_mod u k : rotl u (- (k mod BINT_BITS)) = rotl u (- k).
Proof.
  unfold rotl. pose proof bits_ge64.
  assert (E : (- (k mod BINT_BITS)) mod BINT_BITS = (- k) mod BINT_BITS).
  { rewrite (Z.div_mod k BINT_BITS) at 2 by lia.
    replace (- (BINT_BITS * (k / BINT_BITS) + k mod BINT_BITS)) with (- (k mod BINT_BITS) + (- (k / BINT_BITS)) * BINT_BITS) by ring.
    rewrite Z.mod_add by lia. reflexivity. }
  rewrite E. reflexivity.
Qed.

(* facts about the scraped policy: a revert of the repair flips the boolean and the theorems below stop checking *)
Lemma rot_policy_fact : rot_reduces_count = true. Proof. reflexivity. Qed.

(* every Lua-integer count: rotation by the count reduced mod BITS - for the policy that reduces the count *)
Theorem brol_pol_correct x y : wf x -> in_i64 y ->
  exists r, brol_pol true x y = Some r /\ wf r /\ uval r = rotl (uval x) y.
Proof.
  intros Hx _. unfold brol_pol, imod_bits. pose proof bits_ge64.
  pose proof (Z.mod_pos_bound y BINT_BITS ltac:(lia)) as Hm. rewrite <- (rotl_mod (uval x) y).
  destruct (y mod BINT_BITS =? 0) eqn:E.
  - apply Z.eqb_eq in E. rewrite E. exists x. split; [reflexivity|]. split; [exact Hx|].
    unfold rotl. rewrite Z.mod_0_l by lia. reflexivity.
  - apply brol_pos_spec; auto. lia.
Qed.

Theorem bror_pol_correct x y : wf x -> in_i64 y ->
  exists r, bror_pol true x y = Some r /\ wf r /\ uval r = rotl (uval x) (- y).
Proof.
  intros Hx _. unfold bror_pol, imod_bits. pose proof bits_ge64.
  pose proof (Z.mod_pos_bound y BINT_BITS ltac:(lia)) as Hm. rewrite <- (rotl_opp_mod (uval x) y).
  destruct (y mod BINT_BITS =? 0) eqn:E.
  - apply Z.eqb_eq in E. rewrite E. exists x. split; [reflexivity|]. split; [exact Hx|].
    unfold rotl. cbn [Z.opp]. rewrite Z.mod_0_l by lia. reflexivity.
  - apply bror_pos_spec; auto. lia.
Qed.

Theorem brol_correct x y : wf x -> in_i64 y ->
  exists r, brol x y = Some r /\ wf r /\ uval r = rotl (uval x) y.
Proof. unfold brol. rewrite rot_policy_fact. apply brol_pol_correct. Qed.
Theorem bror_correct x y : wf x -> in_i64 y ->
  exists r, bror x y = Some r /\ wf r /\ uval r = rotl (uval x) (- y).
Proof. unfold bror. rewrite rot_policy_fact. apply bror_pol_correct. Qed.

(* the reduction is needed: the policy that branches on the sign of the count is not a rotation
   (witnesses: 2^(BITS-1) rotated left by BITS+1, 1 rotated right by BITS+1) *)
Theorem rot_reduction_needed :
  ~ (forall x y, wf x -> in_i64 y -> exists r, brol_pol false x y = Some r /\ wf r /\ uval r = rotl (uval x) y) /\
  ~ (forall x y, wf x -> in_i64 y -> exists r, bror_pol false x y = Some r /\ wf r /\ uval r = rotl (uval x) (- y)).
Proof.
  split; intros H.
  - specialize (H bint_mininteger (BINT_BITS + 1) (proj1 mininteger_correct) ltac:(vm_compute; split; discriminate)).
    destruct H as (r & A & _ & C). vm_compute in A. injection A as <-. vm_compute in C. discriminate.
  - specialize (H bint_one (BINT_BITS + 1) (proj1 wf_one) ltac:(vm_compute; split; discriminate)).
    destruct H as (r & A & _ & C). vm_compute in A. injection A as <-. vm_compute in C. discriminate.
Qed.

(* rotl is the mathematical rotation: the two parts occupy disjoint bits *)
Lemma rotl_range u k : 0 <= u < Wfull -> 0 <= rotl u k < Wfull.
Proof.
  intros Hu. unfold rotl. pose proof bits_ge64. pose proof (Z.mod_pos_bound k BINT_BITS ltac:(lia)) as Hm.
  set (k' := k mod BINT_BITS) in *. destruct (k' =? 0) eqn:E; [exact Hu|].
  assert (0 < 2 ^ (BINT_BITS - k')) by (apply Z.pow_pos_nonneg; lia).
  pose proof (Z.mod_pos_bound (u * 2 ^ k') Wfull Wfull_pos).
  assert (0 <= u / 2 ^ (BINT_BITS - k') < Wfull).
  { split; [apply Z.div_pos; lia|]. apply Z.le_lt_trans with u; [|lia]. apply Z.div_le_upper_bound; nia. }
  unfold Wfull in *. destruct (lor_cons BINT_BITS ((u * 2 ^ k') mod 2 ^ BINT_BITS) (u / 2 ^ (BINT_BITS - k')) 0 0 ltac:(lia) ltac:(lia) ltac:(lia)) as (R & _).
  exact R.
Qed.

Example misc_example :
  bwrap (frominteger (-1)) 8 = Some (frominteger 255) /\ brol bint_one (BINT_BITS - 1) = Some bint_mininteger /\
  brol bint_mininteger (BINT_BITS + 1) = Some bint_one /\ bror bint_one minint = brol bint_one (two63 mod BINT_BITS).
Proof. repeat split; vm_compute; reflexivity. Qed.
