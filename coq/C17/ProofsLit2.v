(* Completeness of the literal splitter: every text of the declared shape is accepted, with exactly the captures the
   shape names.  Together with split_partition (ProofsLit.v) the splitter is characterised: an iff. *)
From C17 Require Import Model Model2 Model3 Model4 Model5 Proofs ProofsLib ProofsText ProofsLit.
From Coq Require Import ZifyBool.
Local Open Scope Z_scope.
Ltac Zify.zify_post_hook ::= Z.div_mod_to_equations.

Lemma bindigit_class : digit_class_ok is_bindigit. Proof. repeat split. Qed.
Lemma hexdigit_class : digit_class_ok is_hexdigit. Proof. repeat split. Qed.

Definition stops (p : Z -> bool) (rest : str) : Prop := match rest with [] => True | c :: _ => p c = false end.

Lemma span_app p ds rest : forallb p ds = true -> stops p rest -> span p (ds ++ rest) = (ds, rest).
Proof. intros H Hr. exact (span_all p ds H rest Hr). Qed.

(* the exponent part: parse_exp consumes exactly et and returns e *)
Lemma exp_complete et e : exp_shape et e -> parse_exp et = (e, []).
Proof.
  intros [(-> & ->) | (pc & sg & ds & -> & Hpc & Hsg & Hne & Hd & ->)]; [reflexivity|].
  unfold parse_exp. assert (Ep : ((pc =? 112) || (pc =? 80)) = true) by lia. rewrite Ep.
  destruct ds as [|d0 r0] eqn:Eds; [congruence|]. rewrite <- Eds in *.
  assert (Hd0 : 48 <= d0 <= 57) by (rewrite Eds in Hd; cbn [forallb] in Hd; unfold is_digit in Hd; lia).
  assert (Esp : span is_digit ds = (ds, [])) by (pose proof (span_all is_digit ds Hd [] I) as X; rewrite app_nil_r in X; exact X).
  assert (Esg : match sg ++ ds with c2 :: _ => if (c2 =? 45) || (c2 =? 43) then [c2] else [] | [] => [] end = sg).
  { destruct Hsg as [-> | [-> | ->]]; [|reflexivity|reflexivity]. cbn [app]. rewrite Eds.
    replace ((d0 =? 45) || (d0 =? 43)) with false by lia. reflexivity. }
  rewrite Esg.
  assert (Esk : skipn (length sg) (sg ++ ds) = ds) by (destruct Hsg as [-> | [-> | ->]]; reflexivity).
  rewrite Esk, Esp. cbn [fst snd].
  assert (Nn : nonempty ds = true) by (rewrite Eds; reflexivity). rewrite Nn. reflexivity.
Qed.

(* the first character of an exponent part is not a digit of the class and not the point *)
Lemma exp_stops isdig et e : digit_class_ok isdig -> exp_shape et e -> stops isdig et /\ match et with c :: _ => (c =? 46) = false | [] => True end.
Proof.
  intros (_ & Hp & HP) [(_ & ->) | (pc & sg & ds & -> & [-> | ->] & _)]; cbn; auto.
Qed.

(* the mantissa: parse_mant consumes exactly mt and returns the captures of the shape *)
Lemma mant_complete isdig mt int frac et e : digit_class_ok isdig -> mant_shape isdig mt int frac -> exp_shape et e ->
  parse_mant isdig (mt ++ et) = Some (int, frac, et).
Proof.
  intros Hc Hm He. destruct (exp_stops isdig et e Hc He) as (St & Sp). destruct Hc as (H46 & _).
  unfold parse_mant.
  destruct Hm as [(Hne & Hd & -> & ->) | [(f & Hne & Hd & Hf & -> & ->) | (f & Hne & Hf & -> & -> & ->)]].
  - rewrite (span_app isdig int et Hd St). cbn [fst snd]. apply nonempty_spec in Hne. rewrite Hne.
    destruct et as [|d s4]; [reflexivity|]. rewrite Sp. reflexivity.
  - rewrite <- app_assoc. cbn [app].
    rewrite (span_app isdig int (46 :: f ++ et) Hd H46). cbn [fst snd]. apply nonempty_spec in Hne. rewrite Hne.
    change (46 =? 46) with true. cbv iota. rewrite (span_app isdig f et Hf St). reflexivity.
  - cbn [app span]. rewrite H46. cbn [fst snd nonempty]. change (46 =? 46) with true. cbv iota.
    rewrite (span_app isdig f et Hf St). cbn [fst snd]. apply nonempty_spec in Hne. rewrite Hne. reflexivity.
Qed.

Theorem split_complete isdig m1 m2 sg m mt et neg int frac e : digit_class_ok isdig ->
  (m = m1 \/ m = m2) ->
  ((neg = true /\ sg = [45]) \/ (neg = false /\ (sg = [43] \/ sg = []))) ->
  mant_shape isdig mt int frac -> exp_shape et e ->
  split_lit isdig m1 m2 (sg ++ 48 :: m :: mt ++ et) = Some (neg, int, frac, e).
Proof.
  intros Hc Hm Hsg Hmt He.
  assert (Ez : ((48 =? 48) && ((m =? m1) || (m =? m2))) = true) by lia.
  assert (Es : parse_sign (sg ++ 48 :: m :: mt ++ et) = (neg, 48 :: m :: mt ++ et)).
  { destruct Hsg as [(-> & ->) | (-> & [-> | ->])]; reflexivity. }
  unfold split_lit. rewrite Es. cbn [fst snd]. rewrite Ez.
  rewrite (mant_complete isdig mt int frac et e Hc Hmt He), (exp_complete et e He). reflexivity.
Qed.

Theorem split_iff isdig m1 m2 s neg int frac e : digit_class_ok isdig ->
  (split_lit isdig m1 m2 s = Some (neg, int, frac, e) <-> lit_shape isdig m1 m2 s neg int frac e).
Proof.
  intros Hc. split; [apply split_partition|].
  intros (sg & m & mt & et & -> & Hm & Hsg & Hmt & He). apply split_complete; assumption.
Qed.

Theorem split_bin_hex_iff s neg int frac e :
  (split_bin s = Some (neg, int, frac, e) <-> lit_shape is_bindigit 98 66 s neg int frac e) /\
  (split_hex s = Some (neg, int, frac, e) <-> lit_shape is_hexdigit 120 88 s neg int frac e).
Proof. split; [apply split_iff, bindigit_class | apply split_iff, hexdigit_class]. Qed.

(* so a text is refused exactly when it has no reading of the shape *)
Corollary split_none_iff s :
  (split_bin s = None <-> forall neg int frac e, ~ lit_shape is_bindigit 98 66 s neg int frac e) /\
  (split_hex s = None <-> forall neg int frac e, ~ lit_shape is_hexdigit 120 88 s neg int frac e).
Proof.
  split.
  - split.
    + intros H neg int frac e Hs. apply (proj1 (split_bin_hex_iff s neg int frac e)) in Hs. congruence.
    + intros H. destruct (split_bin s) as [[[[neg int] frac] e]|] eqn:E; [|reflexivity].
      exfalso. apply (H neg int frac e). apply (proj1 (split_bin_hex_iff s neg int frac e)). exact E.
  - split.
    + intros H neg int frac e Hs. apply (proj2 (split_bin_hex_iff s neg int frac e)) in Hs. congruence.
    + intros H. destruct (split_hex s) as [[[[neg int] frac] e]|] eqn:E; [|reflexivity].
      exfalso. apply (H neg int frac e). apply (proj2 (split_bin_hex_iff s neg int frac e)). exact E.
Qed.

Theorem split_exact s :
  (forall neg int frac e,
    (split_bin s = Some (neg, int, frac, e) <-> lit_shape is_bindigit 98 66 s neg int frac e) /\
    (split_hex s = Some (neg, int, frac, e) <-> lit_shape is_hexdigit 120 88 s neg int frac e)) /\
  (split_bin s = None <-> forall neg int frac e, ~ lit_shape is_bindigit 98 66 s neg int frac e) /\
  (split_hex s = None <-> forall neg int frac e, ~ lit_shape is_hexdigit 120 88 s neg int frac e).
Proof. split; [intros; apply split_bin_hex_iff | apply split_none_iff]. Qed.

(* a text with a binary / hexadecimal prefix that has no reading of the shape is an error *)
Theorem from_text_malformed_shape s :
  (has_prefix 98 66 s = true -> (forall neg int frac e, ~ lit_shape is_bindigit 98 66 s neg int frac e) -> bn_from_text s = TMalformed) /\
  (has_prefix 98 66 s = false -> has_prefix 120 88 s = true ->
     (forall neg int frac e, ~ lit_shape is_hexdigit 120 88 s neg int frac e) -> bn_from_text s = TMalformed).
Proof.
  destruct (from_text_malformed s) as (A & B). destruct (split_none_iff s) as (C & D). split.
  - intros P H. apply A; [exact P | apply C, H].
  - intros P Q H. apply B; [exact P | exact Q | apply D, H].
Qed.
