(* fromle / frombe / tole / tobe: byte buffers *)
From C17 Require Import Model Model2 Model3 Model4 Proofs ProofsLib.
From Coq Require Import ZifyBool.
Local Open Scope Z_scope.
Ltac Zify.zify_post_hook ::= Z.div_mod_to_equations.

Definition byte_ok (b : Z) : Prop := 0 <= b < 256.

(* parameter facts *)
Lemma word_bytes_fact : BINT_WORDBITS = 8 * Z.of_nat WORD_BYTES /\ (0 < WORD_BYTES)%nat.
Proof. vm_compute. split; [reflexivity | lia]. Qed.
Lemma bytes_fact : BINT_BYTES = (BINT_SIZE * WORD_BYTES)%nat.
Proof. vm_compute. reflexivity. Qed.

Lemma pow256_pos n : 0 < 256 ^ Z.of_nat n. Proof. apply Z.pow_pos_nonneg; lia. Qed.
Lemma pow256_S n : 256 ^ Z.of_nat (S n) = 256 * 256 ^ Z.of_nat n.
Proof. rewrite Nat2Z.inj_succ, Z.pow_succ_r by lia. reflexivity. Qed.

Lemma Wd_bytes : Wd = 256 ^ Z.of_nat WORD_BYTES.
Proof.
  destruct word_bytes_fact as (E & _). unfold Wd. rewrite E. change 256 with (2 ^ 8). rewrite <- Z.pow_mul_r by lia. reflexivity.
Qed.

(* ---------- little-endian byte lists ---------- *)
Lemma le_val_range bs : Forall byte_ok bs -> 0 <= le_bytes_val bs < 256 ^ Z.of_nat (length bs).
Proof.
  induction 1 as [|b r Hb Hr IH]; cbn [le_bytes_val length]; [change (256 ^ Z.of_nat 0) with 1; lia|]. rewrite pow256_S. unfold byte_ok in Hb. lia.
Qed.

Lemma le_val_app a b : le_bytes_val (a ++ b) = le_bytes_val a + 256 ^ Z.of_nat (length a) * le_bytes_val b.
Proof.
  induction a as [|x a IH]; cbn [app le_bytes_val length]; [change (256 ^ Z.of_nat 0) with 1; lia|]. rewrite IH, pow256_S. ring.
Qed.

Lemma le_val_zeros k : le_bytes_val (repeat 0 k) = 0.
Proof. induction k; cbn [repeat le_bytes_val]; lia. Qed.

Lemma val_le_spec n : forall v, 0 <= v ->
  length (val_le_bytes n v) = n /\ Forall byte_ok (val_le_bytes n v) /\
  le_bytes_val (val_le_bytes n v) = v mod 256 ^ Z.of_nat n.
Proof.
  induction n as [|n IH]; intros v Hv; cbn [val_le_bytes length le_bytes_val].
  - split; [reflexivity|]. split; [constructor|]. change (256 ^ Z.of_nat 0) with 1. rewrite Z.mod_1_r. reflexivity.
  - destruct (IH (v / 256) ltac:(apply Z.div_pos; lia)) as (A & B & C).
    split; [f_equal; exact A|]. split; [constructor; [unfold byte_ok; lia | exact B]|].
    rewrite C, pow256_S. pose proof (pow256_pos n). rewrite Z.rem_mul_r by lia. reflexivity.
Qed.

Lemma le_val_inv bs : Forall byte_ok bs -> val_le_bytes (length bs) (le_bytes_val bs) = bs.
Proof.
  induction 1 as [|b r Hb Hr IH]; cbn [length le_bytes_val val_le_bytes]; [reflexivity|]. unfold byte_ok in Hb.
  replace ((b + 256 * le_bytes_val r) mod 256) with b by lia.
  replace ((b + 256 * le_bytes_val r) / 256) with (le_bytes_val r) by lia. rewrite IH. reflexivity.
Qed.

(* ---------- words ---------- *)
Lemma unpack_spec n : forall bs, Forall byte_ok bs -> length bs = (n * WORD_BYTES)%nat ->
  Forall limb_ok (unpack_words n bs) /\ length (unpack_words n bs) = n /\ uval (unpack_words n bs) = le_bytes_val bs.
Proof.
  induction n as [|n IH]; intros bs Hb Hl; cbn [unpack_words length uval].
  - destruct bs; [|discriminate]. auto.
  - assert (Lf : length (firstn WORD_BYTES bs) = WORD_BYTES) by (rewrite firstn_length; lia).
    assert (Ls : length (skipn WORD_BYTES bs) = (n * WORD_BYTES)%nat) by (rewrite skipn_length; lia).
    destruct (IH (skipn WORD_BYTES bs) (Forall_skipn _ _ _ Hb) Ls) as (A & B & C).
    pose proof (le_val_range _ (Forall_firstn _ WORD_BYTES _ Hb)) as R. rewrite Lf, <- Wd_bytes in R.
    split; [constructor; [exact R | exact A]|]. split; [f_equal; exact B|].
    rewrite C. rewrite <- (firstn_skipn WORD_BYTES bs) at 3. rewrite le_val_app, Lf, <- Wd_bytes. reflexivity.
Qed.

Lemma pack_spec x : Forall limb_ok x ->
  length (pack_words x) = (length x * WORD_BYTES)%nat /\ Forall byte_ok (pack_words x) /\
  le_bytes_val (pack_words x) = uval x /\ unpack_words (length x) (pack_words x) = x.
Proof.
  unfold pack_words. induction 1 as [|a r Ha Hr IH]; cbn [flat_map length uval unpack_words].
  - cbn. auto.
  - destruct IH as (I1 & I2 & I3 & I4). unfold limb_ok in Ha.
    destruct (val_le_spec WORD_BYTES a ltac:(lia)) as (V1 & V2 & V3). rewrite <- Wd_bytes, Z.mod_small in V3 by lia.
    split; [rewrite app_length, V1, I1; lia|]. split; [apply Forall_app; auto|].
    split; [rewrite le_val_app, V1, V3, I3, <- Wd_bytes; reflexivity|].
    rewrite <- V1 at 1. rewrite firstn_app, firstn_all, Nat.sub_diag. cbn [firstn]. rewrite app_nil_r, V3.
    rewrite <- V1 at 1. rewrite skipn_app, skipn_all, Nat.sub_diag. cbn [skipn app]. rewrite I4. reflexivity.
Qed.

(* ---------- fromle / tole ---------- *)
Lemma pad_right_spec bs : Forall byte_ok bs ->
  length (pad_right bs) = BINT_BYTES /\ Forall byte_ok (pad_right bs) /\
  le_bytes_val (pad_right bs) = le_bytes_val (firstn BINT_BYTES bs).
Proof.
  intros Hb. unfold pad_right.
  assert (Hz : Forall byte_ok (repeat 0 (BINT_BYTES - length bs))) by (apply Forall_forall; intros b Hi; apply repeat_spec in Hi; subst; unfold byte_ok; lia).
  split; [rewrite firstn_length, app_length, repeat_length; lia|].
  split; [apply Forall_firstn, Forall_app; auto|].
  rewrite firstn_app, le_val_app, firstn_length.
  rewrite (firstn_all2 (n := BINT_BYTES - length bs) (repeat 0 (BINT_BYTES - length bs))) by (rewrite repeat_length; lia).
  rewrite le_val_zeros. lia.
Qed.

Theorem fromle_correct bs : Forall byte_ok bs ->
  wf (bfromle bs) /\ uval (bfromle bs) = le_bytes_val (firstn BINT_BYTES bs).
Proof.
  intros Hb. unfold bfromle. destruct (pad_right_spec bs Hb) as (L & F & V).
  destruct (unpack_spec BINT_SIZE (pad_right bs) F ltac:(rewrite L; apply bytes_fact)) as (A & B & C).
  split; [split; auto|]. rewrite C. exact V.
Qed.

Lemma drop_zeros_spec rs : exists k, rs = repeat 0 k ++ drop_zeros rs /\ (forall r, drop_zeros rs <> 0 :: r).
Proof.
  induction rs as [|b r (k & E & N)]; [exists 0%nat; split; [reflexivity | discriminate]|].
  destruct (Z.eq_dec b 0) as [->|Hb].
  - exists (S k). cbn [drop_zeros repeat app]. split; [f_equal; exact E | exact N].
  - exists 0%nat. assert (Ed : drop_zeros (b :: r) = b :: r) by (destruct b; [congruence | reflexivity | reflexivity]).
    rewrite Ed. split; [reflexivity|]. intros r0 X. injection X as X _. congruence.
Qed.

Lemma repeat_snoc0 k : repeat 0 k ++ [0] = 0 :: repeat 0 k.
Proof. induction k; cbn [repeat app]; [reflexivity | f_equal; exact IHk]. Qed.
Lemma rev_repeat0 k : rev (repeat 0 k) = repeat 0 k.
Proof. induction k; cbn [repeat rev]; [reflexivity|]. rewrite IHk. apply repeat_snoc0. Qed.

Lemma trim_right_pad s : length s = BINT_BYTES -> pad_right (trim_right s) = s.
Proof.
  intros L. assert (Hpos : (0 < BINT_BYTES)%nat) by (vm_compute; lia).
  unfold trim_right. destruct (drop_zeros_spec (rev s)) as (k & E & _).
  assert (Es : s = rev (drop_zeros (rev s)) ++ repeat 0 k).
  { apply (f_equal (@rev Z)) in E. rewrite rev_involutive, rev_app_distr, rev_repeat0 in E. exact E. }
  set (t := rev (drop_zeros (rev s))) in *.
  assert (Lt : (length t + k = BINT_BYTES)%nat) by (rewrite <- L, Es at 1; rewrite app_length, repeat_length; reflexivity).
  unfold pad_right. destruct t as [|b t'] eqn:Et.
  - cbn [length] in *. cbn [app] in Es. rewrite Es. replace k with BINT_BYTES by lia.
    cbn [length]. replace (BINT_BYTES - 1)%nat with (pred BINT_BYTES) by lia.
    destruct BINT_BYTES as [|n]; [lia|]. cbn [pred repeat app]. rewrite firstn_all2 by (cbn [length]; rewrite repeat_length; lia). reflexivity.
  - rewrite <- Et in *. replace (BINT_BYTES - length t)%nat with k by lia. rewrite <- Es. apply firstn_all2. lia.
Qed.

Theorem tole_correct x trim : wf x ->
  Forall byte_ok (btole x trim) /\ le_bytes_val (btole x trim) = uval x /\
  (trim = false -> length (btole x trim) = BINT_BYTES) /\ bfromle (btole x trim) = x.
Proof.
  intros [L F]. destruct (pack_spec x F) as (P1 & P2 & P3 & P4). rewrite L, <- bytes_fact in P1.
  assert (Hun : unpack_words BINT_SIZE (pack_words x) = x) by (rewrite <- L; exact P4).
  assert (Hpad : pad_right (pack_words x) = pack_words x).
  { unfold pad_right. rewrite P1, Nat.sub_diag. cbn [repeat]. rewrite app_nil_r. apply firstn_all2. lia. }
  unfold btole, bfromle. destruct trim.
  - pose proof (trim_right_pad (pack_words x) P1) as T.
    assert (Ft : Forall byte_ok (trim_right (pack_words x))).
    { unfold trim_right. destruct (drop_zeros_spec (rev (pack_words x))) as (k & E & _).
      assert (Fd : Forall byte_ok (drop_zeros (rev (pack_words x)))).
      { assert (Fr : Forall byte_ok (rev (pack_words x))) by (apply Forall_rev; auto). rewrite E in Fr. apply Forall_app in Fr. tauto. }
      destruct (rev (drop_zeros (rev (pack_words x)))) eqn:Er; [constructor; [unfold byte_ok; lia | constructor]|].
      rewrite <- Er. apply Forall_rev. exact Fd. }
    split; [exact Ft|]. split.
    + destruct (pad_right_spec _ Ft) as (_ & _ & V). rewrite T in V.
      rewrite firstn_all2 in V; [congruence|].
      (* the trimmed buffer is not longer than the packed one *)
      unfold trim_right. destruct (drop_zeros_spec (rev (pack_words x))) as (k & E & _).
      assert (length (drop_zeros (rev (pack_words x))) <= BINT_BYTES)%nat.
      { apply (f_equal (@length Z)) in E. rewrite rev_length, app_length, P1 in E. lia. }
      assert (0 < BINT_BYTES)%nat by (vm_compute; lia).
      destruct (rev (drop_zeros (rev (pack_words x)))) eqn:Er; [cbn; lia|]. rewrite <- Er, rev_length. lia.
    + split; [discriminate|]. rewrite T. exact Hun.
  - split; [exact P2|]. split; [exact P3|]. split; [intros _; exact P1|]. rewrite Hpad. exact Hun.
Qed.

(* ---------- frombe / tobe ---------- *)
Lemma trim_left_pad s : length s = BINT_BYTES ->
  let t := trim_left s in
  (if (BINT_BYTES <? length t)%nat then skipn (length t - BINT_BYTES) t else repeat 0 (BINT_BYTES - length t) ++ t) = s.
Proof.
  intros L. cbn zeta. assert (Hpos : (0 < BINT_BYTES)%nat) by (vm_compute; lia).
  unfold trim_left. destruct (drop_zeros_spec s) as (k & E & _).
  assert (Lk : (k + length (drop_zeros s) = BINT_BYTES)%nat).
  { pose proof (f_equal (@length Z) E) as E1. rewrite app_length, repeat_length, L in E1. lia. }
  destruct (drop_zeros s) as [|b t'] eqn:Ed.
  - cbn [length] in *. destruct (Nat.ltb_spec BINT_BYTES 1) as [X|X]; [lia|].
    rewrite E, app_nil_r. replace k with BINT_BYTES by lia.
    replace BINT_BYTES with (S (BINT_BYTES - 1)) at 2 by lia.
    clear. induction (BINT_BYTES - 1)%nat; cbn [repeat app]; [reflexivity | f_equal; exact IHn].
  - destruct (Nat.ltb_spec BINT_BYTES (length (b :: t'))) as [X|X]; [lia|].
    replace (BINT_BYTES - length (b :: t'))%nat with k by lia. symmetry. exact E.
Qed.

Theorem tobe_correct x trim : wf x -> bfrombe (btobe x trim) = x /\ (trim = false -> btobe x trim = rev (btole x false)).
Proof.
  intros [L F]. destruct (pack_spec x F) as (P1 & P2 & P3 & P4). rewrite L, <- bytes_fact in P1.
  assert (Hun : unpack_words BINT_SIZE (pack_words x) = x) by (rewrite <- L; exact P4).
  assert (Lr : length (rev (pack_words x)) = BINT_BYTES) by (rewrite rev_length; exact P1).
  unfold btobe, btole, bfrombe. destruct trim.
  - split; [|discriminate]. rewrite (trim_left_pad _ Lr). rewrite rev_involutive. exact Hun.
  - split; [|reflexivity]. rewrite Lr. destruct (Nat.ltb_spec BINT_BYTES BINT_BYTES) as [X|X]; [lia|].
    rewrite Nat.sub_diag. cbn [repeat app]. rewrite rev_involutive. exact Hun.
Qed.

Theorem frombe_correct bs : Forall byte_ok bs -> (length bs <= BINT_BYTES)%nat ->
  wf (bfrombe bs) /\ uval (bfrombe bs) = le_bytes_val (rev bs).
Proof.
  intros Hb Hl. unfold bfrombe. destruct (Nat.ltb_spec BINT_BYTES (length bs)) as [X|X]; [lia|].
  set (k := (BINT_BYTES - length bs)%nat).
  assert (Fz : Forall byte_ok (repeat 0 k)) by (apply Forall_forall; intros b Hi; apply repeat_spec in Hi; subst; unfold byte_ok; lia).
  assert (F1 : Forall byte_ok (rev (repeat 0 k ++ bs))) by (apply Forall_rev, Forall_app; auto).
  destruct (unpack_spec BINT_SIZE (rev (repeat 0 k ++ bs)) F1) as (A & B & C).
  { rewrite rev_length, app_length, repeat_length, <- bytes_fact. subst k. lia. }
  split; [split; auto|]. rewrite C, rev_app_distr, le_val_app.
  pose proof (rev_repeat0 k) as Er.
  rewrite Er, le_val_zeros. lia.
Qed.

Example bytes_example :
  bfromle [1; 2] = frominteger 513 /\ bfrombe [1; 2] = frominteger 258 /\
  btole (frominteger 65536) true = [0; 0; 1] /\ btobe (frominteger 65536) true = [1; 0; 0].
Proof. repeat split; vm_compute; reflexivity. Qed.
