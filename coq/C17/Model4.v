(* Executable model of bint.lua / bn.lua, part 4: how the compiler (types.lua) actually calls the
   library - with Lua integers, Lua floats, strings and bints mixed.  Conversions (tobint,
   frominteger of floats with integral values, fromstring, bint.new), the arithmetic and
   comparison entry points with their fallback to plain Lua numbers, bint.tonumber,
   trunc / floor / ceil, the byte-buffer conversions, and the small bn.lua helpers.

   A Lua float (IEEE double) is represented exactly: FFin m e is the double of value m * 2^e
   (the driver passes the double's own mantissa/exponent), plus infinities and NaN.  The Lua VM
   functions on floats the code relies on (math.floor/ceil/modf, number comparison, tostring ->
   tonumber of a long decimal, string.pack/unpack) are modelled from lmathlib.c / lvm.c /
   lstrlib.c and belong to the trusted base. *)
From C17 Require Export Model3.
Local Open Scope Z_scope.

Inductive lfloat := FFin (m e : Z) | FInf (neg : bool) | FNan.
Inductive lnum := NInt (i : Z) | NFlt (f : lfloat).
Inductive lval := LNum (n : lnum) | LBint (x : bint) | LStr (s : str).

(* ---------- Lua VM: floats ---------- *)
Definition fl_floor (m e : Z) : Z := if 0 <=? e then m * 2 ^ e else m / 2 ^ (- e).
Definition fl_ceil (m e : Z) : Z := if 0 <=? e then m * 2 ^ e else - ((- m) / 2 ^ (- e)).
Definition fl_trunc (m e : Z) : Z := if 0 <=? e then m * 2 ^ e else Z.quot m (2 ^ (- e)).
Definition fl_integral (m e : Z) : bool := (0 <=? e) || (m mod 2 ^ (- e) =? 0).

(* pushnumint: a float result of floor/ceil becomes an integer when it fits *)
Definition pushnumint (z : Z) : lnum := if in_i64b z then NInt z else NFlt (FFin z 0).
Definition math_floor (n : lnum) : lnum :=
  match n with
  | NInt i => NInt i
  | NFlt (FFin m e) => pushnumint (fl_floor m e)
  | NFlt f => NFlt f
  end.
Definition math_ceil (n : lnum) : lnum :=
  match n with
  | NInt i => NInt i
  | NFlt (FFin m e) => pushnumint (fl_ceil m e)
  | NFlt f => NFlt f
  end.
(* first result of math.modf: a float for a float argument *)
Definition math_modf (n : lnum) : lnum :=
  match n with
  | NInt i => NInt i
  | NFlt (FFin m e) => NFlt (FFin (fl_trunc m e) 0)
  | NFlt f => NFlt f
  end.

(* exact comparison of two numbers as lvm.c does (LTnum / LEnum / luaV_equalobj): by value, NaN unordered.
   cmpq: compare m1*2^e1 with m2*2^e2 *)
Definition scale_pair (m1 e1 m2 e2 : Z) : Z * Z :=
  let k := Z.min e1 e2 in (m1 * 2 ^ (e1 - k), m2 * 2 ^ (e2 - k)).
Inductive ext := XFin (m e : Z) | XInf (neg : bool) | XNan.
Definition num_ext (n : lnum) : ext :=
  match n with
  | NInt i => XFin i 0
  | NFlt (FFin m e) => XFin m e
  | NFlt (FInf s) => XInf s
  | NFlt FNan => XNan
  end.
Definition ext_lt (a b : ext) : bool :=
  match a, b with
  | XNan, _ | _, XNan => false
  | XFin m1 e1, XFin m2 e2 => let p := scale_pair m1 e1 m2 e2 in fst p <? snd p
  | XInf s1, XInf s2 => s1 && negb s2
  | XInf s, XFin _ _ => s
  | XFin _ _, XInf s => negb s
  end.
Definition ext_eq (a b : ext) : bool :=
  match a, b with
  | XNan, _ | _, XNan => false
  | XFin m1 e1, XFin m2 e2 => let p := scale_pair m1 e1 m2 e2 in fst p =? snd p
  | XInf s1, XInf s2 => Bool.eqb s1 s2
  | _, _ => false
  end.
Definition num_lt (a b : lnum) : bool := ext_lt (num_ext a) (num_ext b).
Definition num_le (a b : lnum) : bool := ext_lt (num_ext a) (num_ext b) || ext_eq (num_ext a) (num_ext b).
Definition num_eq (a b : lnum) : bool := ext_eq (num_ext a) (num_ext b).

(* tonumber(tostring(x)) for a decimal integer too large for a Lua integer: strtod rounds to the
   nearest double, ties to even; the result is an integer-valued double *)
Definition rne53 (v : Z) : Z :=
  let a := Z.abs v in
  let L := Z.log2 a + 1 in
  if L <=? 53 then v
  else
    let s := L - 53 in
    let q := a / 2 ^ s in
    let r := a mod 2 ^ s in
    let half := 2 ^ (s - 1) in
    let q' := if (half <? r) || ((r =? half) && Z.odd q) then q + 1 else q in
    Z.sgn v * (q' * 2 ^ s).

(* ---------- conversions ---------- *)
(* local function tointeger(x) of bint.lua, for a number *)
Definition bint_tointeger_num (n : lnum) : option Z :=
  match n with
  | NInt i => Some i
  | NFlt f =>
      (* floorx = math_floor(x); if floorx == x then x = floorx end; integers only are returned *)
      match math_floor (NFlt f) with
      | NInt i => if num_eq (NInt i) (NFlt f) then Some i else None
      | NFlt _ => None
      end
  end.

Definition is_hexdigit (c : Z) : bool :=
  is_digit c || ((65 <=? c) && (c <=? 70)) || ((97 <=? c) && (c <=? 102)).
Definition is_bindigit (c : Z) : bool := (c =? 48) || (c =? 49).
Definition nonempty (s : str) : bool := match s with [] => false | _ => true end.

(* bint.fromstring: decimal, 0x.., 0b.. with optional sign; anything else is nil *)
Definition fromstring (s : str) : res bint :=
  let signed := match s with c :: _ => (c =? 45) || (c =? 43) | [] => false end in
  let sg := if signed then firstn 1 s else [] in
  let body := if signed then skipn 1 s else s in
  if nonempty body && forallb is_digit body then frombase s 10
  else
    match body with
    | z :: x :: r =>
        if (z =? 48) && ((x =? 120) || (x =? 88)) && nonempty r && forallb is_hexdigit r then frombase (sg ++ r) 16
        else if (z =? 48) && ((x =? 98) || (x =? 66)) && nonempty r && forallb is_bindigit r then frombase (sg ++ r) 2
        else Err ENone
    | _ => Err ENone
    end.

(* bint.tobint(x): nil when x has no exact integer representation *)
Definition tobint (v : lval) : option bint :=
  match v with
  | LBint x => Some x
  | LNum n => match bint_tointeger_num n with Some i => Some (frominteger i) | None => None end
  | LStr s => match fromstring s with Ok x => Some x | Err _ => None end
  end.

(* bint.new / bint_assert_convert: assert(x, 'value cannot be represented by a bint') *)
Inductive cres (A : Type) := COk (a : A) | CAssert.
Arguments COk {A} a.
Arguments CAssert {A}.
Definition bnew (v : lval) : cres bint := match tobint v with Some x => COk x | None => CAssert end.

(* bint.tonumber for a bint: a Lua integer when it fits, otherwise tonumber(tostring(x)) *)
Definition strtod_dec (s : str) : lfloat :=
  let neg := match s with c :: _ => c =? 45 | [] => false end in
  let ds := if neg then skipn 1 s else s in
  let v := fold_left (fun a c => a * 10 + (c - 48)) ds 0 in
  FFin (rne53 (if neg then - v else v)) 0.
Definition bint_tonumber (x : bint) : lnum :=
  if ble x (frominteger maxint) && ble (frominteger minint) x then NInt (tointeger x)
  else match tobase x 10 None with
       | Ok s => NFlt (strtod_dec s)
       | Err _ => NFlt FNan
       end.
(* bint.tonumber on any value the compiler passes (strings are left out: they go through the VM's reader) *)
Definition lval_tonumber (v : lval) : option lnum :=
  match v with
  | LBint x => Some (bint_tonumber x)
  | LNum n => Some n
  | LStr _ => None
  end.

(* ---------- arithmetic and comparison entry points on mixed arguments ----------
   local ix, iy = tobint(x), tobint(y); if ix and iy then <bint algorithm> end;
   otherwise the operation is done on bint.tonumber(x), bint.tonumber(y) by the VM (float or
   integer arithmetic): MFallback carries the two numbers, the arithmetic result is the VM's. *)
Inductive mres := MBint (x : bint) | MFallback (a b : option lnum).
Definition mixed2 (f : bint -> bint -> bint) (a b : lval) : mres :=
  match tobint a, tobint b with
  | Some x, Some y => MBint (f x y)
  | _, _ => MFallback (lval_tonumber a) (lval_tonumber b)
  end.
Definition madd := mixed2 badd.
Definition msub := mixed2 bsub.
Definition mmul := mixed2 bmul.

(* __lt / __le: signed comparison of the bints, else the VM's number comparison *)
Definition mlt (a b : lval) : option bool :=
  match tobint a, tobint b with
  | Some x, Some y => Some (blt x y)
  | _, _ => match lval_tonumber a, lval_tonumber b with
            | Some p, Some q => Some (num_lt p q)
            | _, _ => None
            end
  end.
Definition mle (a b : lval) : option bool :=
  match tobint a, tobint b with
  | Some x, Some y => Some (ble x y)
  | _, _ => match lval_tonumber a, lval_tonumber b with
            | Some p, Some q => Some (num_le p q)
            | _, _ => None
            end
  end.
(* bint.eq: ix == iy, else the raw x == y (numbers by value, strings by content, a bint against a
   plain value is false) *)
Definition raw_eq (a b : lval) : bool :=
  match a, b with
  | LNum p, LNum q => num_eq p q
  | LStr s, LStr t => str_eqb s t
  | LBint x, LBint y => beq x y
  | _, _ => false
  end.
Definition meq (a b : lval) : bool :=
  match tobint a, tobint b with
  | Some x, Some y => beq x y
  | _, _ => raw_eq a b
  end.

(* ---------- trunc / floor / ceil ---------- *)
(* bint.trunc(x): nil when the truncated value does not fit *)
Definition btrunc (v : lval) : option bint :=
  match v with
  | LBint x => Some x
  | LNum (NInt i) => Some (frominteger i)
  | LNum (NFlt f) =>
      match bint_tointeger_num (math_modf (NFlt f)) with Some i => Some (frominteger i) | None => None end
  | LStr _ => None
  end.
(* bint.floor / bint.ceil: bint_new(math_floor(tonumber(x))) asserts *)
Definition bfloor (v : lval) : cres bint :=
  match v with
  | LBint x => COk x
  | LNum n => bnew (LNum (math_floor n))
  | LStr _ => CAssert
  end.
Definition bceil (v : lval) : cres bint :=
  match v with
  | LBint x => COk x
  | LNum n => bnew (LNum (math_ceil n))
  | LStr _ => CAssert
  end.

(* ---------- byte buffers (string.pack / unpack with '<I4I4..') ---------- *)
Definition BINT_BYTES : nat := Z.to_nat (BINT_BITS / 8).
Definition WORD_BYTES : nat := Z.to_nat (BINT_WORDBITS / 8).

Fixpoint le_bytes_val (bs : list Z) : Z :=
  match bs with [] => 0 | b :: r => b + 256 * le_bytes_val r end.
Fixpoint val_le_bytes (n : nat) (v : Z) : list Z :=
  match n with O => [] | S n' => v mod 256 :: val_le_bytes n' (v / 256) end.
(* unpack '<I<k>' repeated: consecutive groups of WORD_BYTES bytes, little endian *)
Fixpoint unpack_words (n : nat) (bs : list Z) : bint :=
  match n with
  | O => []
  | S n' => le_bytes_val (firstn WORD_BYTES bs) :: unpack_words n' (skipn WORD_BYTES bs)
  end.
Definition pack_words (x : bint) : list Z := flat_map (val_le_bytes WORD_BYTES) x.

Definition pad_right (bs : list Z) : list Z := firstn BINT_BYTES (bs ++ repeat 0 (BINT_BYTES - length bs)).
Definition bfromle (bs : list Z) : bint := unpack_words BINT_SIZE (pad_right bs).
(* frombe: extra bytes are trimmed from the left, missing ones padded to the left, then reversed *)
Definition bfrombe (bs : list Z) : bint :=
  let bs1 := if (BINT_BYTES <? length bs)%nat then skipn (length bs - BINT_BYTES) bs
             else repeat 0 (BINT_BYTES - length bs) ++ bs in
  unpack_words BINT_SIZE (rev bs1).

(* s:gsub('\x00+$', ''), '\x00' if that leaves nothing *)
Fixpoint drop_zeros (rs : list Z) : list Z :=
  match rs with 0 :: r => drop_zeros r | _ => rs end.
Definition trim_right (bs : list Z) : list Z :=
  match rev (drop_zeros (rev bs)) with [] => [0] | t => t end.
Definition trim_left (bs : list Z) : list Z :=
  match drop_zeros bs with [] => [0] | t => t end.
Definition btole (x : bint) (trim : bool) : list Z :=
  let s := pack_words x in if trim then trim_right s else s.
Definition btobe (x : bint) (trim : bool) : list Z :=
  let s := rev (pack_words x) in if trim then trim_left s else s.

(* ---------- bn.lua helpers ---------- *)
(* bn.todecsci for a bint (integer branch): tostring(v), '.0' appended when forcefract *)
Definition todecsci_int (v : bint) (forcefract : bool) : res str :=
  match tobase v 10 None with
  | Err e => Err e
  | Ok s => Ok (if forcefract then s ++ [46; 48] else s)
  end.
(* bn.demotefloat: a float with an integral value becomes math.floor of it *)
Definition demotefloat (n : lnum) : lnum :=
  match n with
  | NInt i => NInt i
  | NFlt f => let i := math_floor (NFlt f) in if num_eq i (NFlt f) then i else NFlt f
  end.
(* bn.canbeintegral on a number: truthy or not *)
Definition canbeintegral (n : lnum) : bool :=
  match n with
  | NInt _ => true
  | NFlt f => num_le (NInt minint) (NFlt f) && num_le (NFlt f) (NInt maxint) && num_eq (math_floor (NFlt f)) (NFlt f)
  end.
