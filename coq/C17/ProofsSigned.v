(* small lemmas about values known modulo 2^BITS, shared by the signed division proofs *)
From C17 Require Import Model Model2 Proofs ProofsLib ProofsArith ProofsBits ProofsConv ProofsShift ProofsMisc.
From Coq Require Import ZifyBool.
Local Open Scope Z_scope.
Ltac Zify.zify_post_hook ::= Z.div_mod_to_equations.

Lemma sval_of x v : wf x -> uval x = v mod Wfull -> - Half <= v < Half -> sval x = v.
Proof. intros. apply sval_of_mod; auto. Qed.

Lemma unm_val x v : wf x -> uval x = v mod Wfull -> wf (bunm x) /\ uval (bunm x) = (- v) mod Wfull.
Proof.
  intros Hx E. destruct (unm_correct x Hx) as (A & B). split; [exact A|]. rewrite B, E.
  pose proof Wfull_pos. rewrite (Z.div_mod v Wfull) at 2 by lia.
  replace (- (Wfull * (v / Wfull) + v mod Wfull)) with (- (v mod Wfull) + (- (v / Wfull)) * Wfull) by ring.
  rewrite Z.mod_add by lia. reflexivity.
Qed.
Lemma dec_val x v : wf x -> uval x = v mod Wfull -> wf (bdec x) /\ uval (bdec x) = (v - 1) mod Wfull.
Proof.
  intros Hx E. destruct (dec_correct x Hx) as (A & B). split; [exact A|]. rewrite B, E.
  pose proof Wfull_pos. rewrite Zminus_mod_idemp_l. reflexivity.
Qed.
Lemma add_val x y u v : wf x -> wf y -> uval x = u mod Wfull -> uval y = v mod Wfull ->
  wf (badd x y) /\ uval (badd x y) = (u + v) mod Wfull.
Proof.
  intros Hx Hy E1 E2. destruct (add_correct x y Hx Hy) as (A & B). split; [exact A|]. rewrite B, E1, E2.
  pose proof Wfull_pos. rewrite <- Z.add_mod by lia. reflexivity.
Qed.
Lemma self_val x : wf x -> uval x = uval x mod Wfull.
Proof. intros Hx. pose proof (wf_range x Hx). symmetry. apply Z.mod_small. lia. Qed.

Lemma beq_min x : wf x -> beq x bint_mininteger = (sval x =? - Half).
Proof.
  intros Hx. destruct mininteger_correct as (Wm & Um & Sm). fold Half in Um, Sm.
  pose proof (eq_correct x bint_mininteger Hx Wm) as E. rewrite Um in E.
  pose proof (wf_range x Hx). destruct Half_facts as (EH & H63). unfold sval. fold Half.
  destruct (beq x bint_mininteger) eqn:B.
  - assert (uval x = Half) by (apply E; reflexivity). destruct (uval x <? Half) eqn:E2; unfold two63 in *; lia.
  - assert (uval x <> Half) by (intro C; apply E in C; congruence). destruct (uval x <? Half) eqn:E2; unfold two63 in *; lia.
Qed.

