(* fromuinteger / frominteger / touinteger / tointeger and their round trips *)
From C17 Require Import Model Proofs ProofsLib ProofsArith ProofsBits.
From Coq Require Import ZifyBool.
Local Open Scope Z_scope.
Ltac Zify.zify_post_hook ::= Z.div_mod_to_equations.

Lemma bits_small : BINT_BITS < 2 ^ 31. Proof. vm_compute. reflexivity. Qed.

Lemma size_small : Z.of_nat BINT_SIZE < 2 ^ 31.
Proof.
  pose proof bits_small. pose proof bits_multiple. pose proof wb_range.
  change (2 ^ 31) with 2147483648 in *. nia.
Qed.

Lemma Wfull_ge64 : two64 <= Wfull.
Proof. unfold Wfull. change two64 with (2 ^ 64). apply Z.pow_le_mono_r; [lia | apply bits_ge64]. Qed.

(* ---- split into limbs ---- *)
Lemma split_words_spec n : forall x, in_i64 x ->
  Forall limb_ok (split_words n x) /\ length (split_words n x) = n /\
  uval (split_words n x) = u64 x mod Wd ^ Z.of_nat n.
Proof.
  induction n as [|n IH]; intros x Hx; cbn [split_words length uval].
  - change (Z.of_nat 0) with 0. rewrite Z.pow_0_r, Z.mod_1_r. auto.
  - rewrite band_wordmax_u64, shr_word_u64.
    pose proof (shr_word_u64_lt x) as Hq. pose proof wb_range.
    assert (2 ^ (64 - BINT_WORDBITS) <= 2 ^ 63) by (apply Z.pow_le_mono_r; lia).
    change (2 ^ 63) with two63 in *.
    assert (Hq' : in_i64 (u64 x / Wd)) by i64.
    destruct (IH _ Hq') as (I1 & I2 & I3).
    split; [constructor; [apply mod_limb | exact I1]|]. split; [congruence|].
    rewrite I3, Wdpow_S. rewrite (u64_small (u64 x / Wd)) by (unfold two63, two64 in *; lia).
    pose proof Wd_pos. pose proof (Wdpow_pos n). rewrite Z.rem_mul_r by lia. reflexivity.
Qed.

Theorem fromuinteger_correct x : in_i64 x ->
  wf (fromuinteger x) /\ uval (fromuinteger x) = u64 x.
Proof.
  intros Hx. unfold fromuinteger.
  destruct (x =? 1) eqn:E1; [apply Z.eqb_eq in E1; subst; exact wf_one|].
  destruct (x =? 0) eqn:E0; [apply Z.eqb_eq in E0; subst; exact wf_zero|].
  destruct (split_words_spec BINT_SIZE x Hx) as (I1 & I2 & I3).
  split; [split; auto|]. rewrite I3, <- Wfull_eq.
  pose proof (u64_range x). pose proof Wfull_ge64. apply Z.mod_small. lia.
Qed.

Lemma labs_neg x : in_i64 x -> x < 0 -> in_i64 (labs x) /\ u64 (labs x) = - x.
Proof.
  intros Hx Hn. unfold labs. destruct (x <? 0) eqn:E; [|lia]. split; [apply wrap64_range|].
  unfold lneg. rewrite u64_wrap. i64.
Qed.

Lemma sval_of_mod x v : wf x -> - (Wfull / 2) <= v < Wfull / 2 -> uval x = v mod Wfull -> sval x = v.
Proof.
  intros Hx Hv E. unfold sval. pose proof Wfull_half. pose proof Wfull_pos. rewrite E.
  set (h := Wfull / 2) in *. clearbody h.
  destruct (Z_lt_le_dec v 0) as [L|L].
  - assert (E2 : v mod Wfull = v + Wfull).
    { replace v with (v + Wfull + (-1) * Wfull) at 1 by ring. rewrite Z.mod_add, Z.mod_small by lia. reflexivity. }
    rewrite E2. destruct (v + Wfull <? h) eqn:E3; lia.
  - rewrite Z.mod_small by lia. destruct (v <? h) eqn:E3; lia.
Qed.

Lemma two63_le_half : two63 <= Wfull / 2.
Proof.
  pose proof Wfull_half. pose proof Wfull_ge64. unfold two63, two64 in *. lia.
Qed.

Theorem frominteger_correct x : in_i64 x ->
  wf (frominteger x) /\ uval (frominteger x) = x mod Wfull /\ sval (frominteger x) = x.
Proof.
  intros Hx. pose proof two63_le_half as Hh. pose proof Wfull_pos.
  assert (G : wf (frominteger x) /\ uval (frominteger x) = x mod Wfull).
  { unfold frominteger.
    destruct (x =? 1) eqn:E1.
    { apply Z.eqb_eq in E1; subst. destruct wf_one as (A & B). split; [exact A|].
      rewrite B, Z.mod_small; [reflexivity|]. unfold two63 in *. lia. }
    destruct (x =? 0) eqn:E0.
    { apply Z.eqb_eq in E0; subst. destruct wf_zero as (A & B). split; [exact A|]. rewrite B, Z.mod_0_l; lia. }
    pose proof Wfull_ge64.
    destruct (x <? 0) eqn:En.
    - destruct (labs_neg x Hx ltac:(lia)) as (La & Lu).
      destruct (split_words_spec BINT_SIZE (labs x) La) as (I1 & I2 & I3).
      rewrite <- Wfull_eq, Lu, Z.mod_small in I3 by i64.
      destruct (unm_correct _ (conj I2 I1)) as (U1 & U2). split; [exact U1|].
      rewrite U2, I3. f_equal. ring.
    - destruct (split_words_spec BINT_SIZE x Hx) as (I1 & I2 & I3).
      split; [split; auto|]. rewrite I3, <- Wfull_eq.
      rewrite u64_small by i64. reflexivity. }
  destruct G as (G1 & G2). split; [exact G1|]. split; [exact G2|].
  apply sval_of_mod; auto. i64.
Qed.

(* ---- join limbs into a Lua integer ---- *)
Lemma join_words_spec x : forall i n, Forall limb_ok x -> 0 <= i -> i + Z.of_nat (length x) < 2 ^ 31 ->
  in_i64 n -> (BINT_WORDBITS * i < 64 -> u64 n < 2 ^ (BINT_WORDBITS * i)) ->
  in_i64 (join_words x i n) /\
  u64 (join_words x i n) = (u64 n + 2 ^ (BINT_WORDBITS * i) * uval x) mod two64.
Proof.
  induction x as [|w r IH]; intros i n Hx Hi Hb Hn Hlow; cbn [join_words uval].
  - split; [exact Hn|]. rewrite Z.mul_0_r, Z.add_0_r. pose proof (u64_range n). rewrite Z.mod_small; lia.
  - inversion Hx as [|? ? Hw Hr]; subst. cbn [length] in Hb. pose proof wb_range.
    change (2 ^ 31) with 2147483648 in Hb.
    assert (Hk : lmul BINT_WORDBITS i = BINT_WORDBITS * i) by (apply lmul_exact; unf64; nia).
    rewrite Hk. set (k := BINT_WORDBITS * i) in *.
    assert (Hk0 : 0 <= k) by (subst k; nia).
    set (s := lshl w k).
    assert (Hs : in_i64 s) by apply lshl_i64.
    assert (Hn' : in_i64 (lbor n s)) by (apply lbor_i64; auto).
    assert (Hkk : BINT_WORDBITS * (i + 1) = k + BINT_WORDBITS) by (subst k; ring).
    destruct (IH (i + 1) (lbor n s) Hr ltac:(lia) ltac:(change (2 ^ 31) with 2147483648; lia) Hn') as (I1 & I2).
    + (* low-bits invariant for the new accumulator *)
      rewrite Hkk. intros Hlt. rewrite u64_lbor. subst s. rewrite lshl_u64 by lia.
      rewrite (limb_u64 w) by auto. unfold limb_ok, Wd in Hw.
      assert (Hp : 0 < 2 ^ k) by (apply Z.pow_pos_nonneg; lia).
      assert (w * 2 ^ k < two64).
      { change two64 with (2 ^ 64). replace 64 with (k + (64 - k)) by ring. rewrite Z.pow_add_r by lia.
        assert (2 ^ BINT_WORDBITS <= 2 ^ (64 - k)) by (apply Z.pow_le_mono_r; lia). nia. }
      rewrite Z.mod_small by nia. rewrite (Z.mul_comm w), lor_disjoint_add by (specialize (Hlow ltac:(lia)); pose proof (u64_range n); lia).
      rewrite Z.pow_add_r by lia. specialize (Hlow ltac:(lia)). nia.
    + split; [exact I1|]. rewrite I2, Hkk. rewrite u64_lbor.
      destruct (Z_lt_le_dec k 64) as [L|L].
      * subst s. rewrite lshl_u64 by lia. rewrite (limb_u64 w) by auto.
        assert (Hp : 0 < 2 ^ k) by (apply Z.pow_pos_nonneg; lia).
        (* (w * 2^k) mod 2^64 = 2^k * (w mod 2^(64-k)) *)
        assert (E64 : two64 = 2 ^ k * 2 ^ (64 - k)).
        { change two64 with (2 ^ 64). rewrite <- Z.pow_add_r by lia. f_equal; lia. }
        assert (Hp2 : 0 < 2 ^ (64 - k)) by (apply Z.pow_pos_nonneg; lia).
        assert (Em : (w * 2 ^ k) mod two64 = 2 ^ k * (w mod 2 ^ (64 - k))).
        { rewrite E64, (Z.mul_comm w). rewrite Z.mul_mod_distr_l by lia. reflexivity. }
        rewrite Em, lor_disjoint_add by (specialize (Hlow L); pose proof (u64_range n); lia).
        rewrite <- Em. rewrite Z.pow_add_r by lia. fold Wd.
        set (A := w * 2 ^ k). set (B := 2 ^ k * Wd * uval r).
        replace (u64 n + 2 ^ k * (w + Wd * uval r)) with (u64 n + A + B) by (subst A B; ring).
        unfold two64. clearbody A B. lia.
      * subst s. rewrite lshl_big by lia. change (u64 0) with 0. rewrite Z.lor_0_r.
        assert (E : exists q, 2 ^ k = q * two64).
        { exists (2 ^ (k - 64)). change two64 with (2 ^ 64). rewrite <- Z.pow_add_r by lia. f_equal; lia. }
        destruct E as (q & Eq). rewrite Z.pow_add_r by lia. rewrite Eq.
        replace (u64 n + q * two64 * 2 ^ BINT_WORDBITS * uval r) with (u64 n + (q * 2 ^ BINT_WORDBITS * uval r) * two64) by ring.
        replace (u64 n + q * two64 * (w + Wd * uval r)) with (u64 n + (q * (w + Wd * uval r)) * two64) by ring.
        rewrite !Z.mod_add by (unfold two64; lia). reflexivity.
Qed.

Lemma join_wf x : wf x -> in_i64 (join_words x 0 0) /\ u64 (join_words x 0 0) = uval x mod two64.
Proof.
  intros [L F]. pose proof size_small.
  destruct (join_words_spec x 0 0 F ltac:(lia) ltac:(lia) ltac:(i64)) as (A & B).
  - intros _. rewrite Z.mul_0_r. cbn. lia.
  - split; [exact A|]. rewrite B. rewrite Z.mul_0_r, Z.pow_0_r. change (u64 0) with 0. f_equal. ring.
Qed.

Theorem touinteger_correct x : wf x -> touinteger x = wrap64 (uval x).
Proof.
  intros Hx. unfold touinteger. destruct (join_wf x Hx) as (A & B).
  apply i64_eq; [exact A | apply wrap64_range|]. rewrite u64_wrap. exact B.
Qed.

Theorem tointeger_correct x : wf x -> tointeger x = wrap64 (sval x).
Proof.
  intros Hx. unfold tointeger. rewrite isneg_spec by auto. unfold sval.
  pose proof (wf_range x Hx) as Hr. pose proof Wfull_half. pose proof Wfull_ge64.
  destruct (uval x <? Wfull / 2) eqn:E; cbn [negb].
  - apply touinteger_correct; auto.
  - destruct (unm_correct x Hx) as (U1 & U2). destruct (join_wf _ U1) as (A & B).
    apply i64_eq; [apply wrap64_range | apply wrap64_range|].
    unfold lneg. rewrite !u64_wrap.
    assert (E2 : (- uval x) mod Wfull = Wfull - uval x).
    { replace (- uval x) with (Wfull - uval x + (-1) * Wfull) by ring. rewrite Z.mod_add, Z.mod_small by lia. reflexivity. }
    rewrite U2, E2 in B.
    (* Wfull is a multiple of 2^64 *)
    assert (Hm : exists q, Wfull = q * two64).
    { exists (2 ^ (BINT_BITS - 64)). unfold Wfull. change two64 with (2 ^ 64). pose proof bits_ge64.
      rewrite <- Z.pow_add_r by lia. f_equal; lia. }
    destruct Hm as (q & Eq).
    set (j := join_words (bunm x) 0 0) in *. clearbody j.
    unfold u64 in *. rewrite Eq in *. set (u := uval x) in *. clearbody u. unfold two64 in *. lia.
Qed.

(* ---- round trips (Lua int64 wrap made explicit) ---- *)
Theorem tointeger_frominteger i : in_i64 i -> tointeger (frominteger i) = i.
Proof.
  intros Hi. destruct (frominteger_correct i Hi) as (W & _ & S).
  rewrite tointeger_correct, S by auto. apply wrap64_id; auto.
Qed.

Theorem touinteger_fromuinteger i : in_i64 i -> touinteger (fromuinteger i) = i.
Proof.
  intros Hi. destruct (fromuinteger_correct i Hi) as (W & U).
  rewrite touinteger_correct, U, wrap64_u64 by auto. apply wrap64_id; auto.
Qed.

Theorem frominteger_tointeger x : wf x -> in_i64 (sval x) -> frominteger (tointeger x) = x.
Proof.
  intros Hx Hs. rewrite tointeger_correct, wrap64_id by auto.
  destruct (frominteger_correct (sval x) Hs) as (W & U & _).
  apply wf_inj; auto. rewrite U. unfold sval. pose proof (wf_range x Hx). pose proof Wfull_pos.
  destruct (uval x <? Wfull / 2); [apply Z.mod_small; lia|].
  replace (uval x - Wfull) with (uval x + (-1) * Wfull) by ring. rewrite Z.mod_add, Z.mod_small by lia. reflexivity.
Qed.

(* non-vacuity *)
Example conv_example : tointeger (frominteger (-5)) = -5 /\ touinteger (fromuinteger minint) = minint.
Proof. split; vm_compute; reflexivity. Qed.
