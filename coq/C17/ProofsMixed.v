(* mixed arguments: conversions of Lua integers / floats / strings to bints, the arithmetic and
   comparison entry points on mixed arguments, bint.tonumber, trunc / floor / ceil *)
From C17 Require Import Model Model2 Model3 Model4 Proofs ProofsLib ProofsArith ProofsMul ProofsBits ProofsConv ProofsShift ProofsMisc
  ProofsText ProofsText2.
From Coq Require Import ZifyBool.
Local Open Scope Z_scope.
Ltac Zify.zify_post_hook ::= Z.div_mod_to_equations.

Lemma in_i64b_spec z : in_i64b z = true <-> in_i64 z.
Proof. unfold in_i64b, in_i64. lia. Qed.

(* ---------- floats with an integral value ---------- *)
(* the exact integer a number denotes, if it is one that fits a Lua integer *)
Definition float_int (m e : Z) : option Z :=
  if fl_integral m e && in_i64b (fl_floor m e) then Some (fl_floor m e) else None.

(* fl_integral / fl_floor speak about the real value m * 2^e *)
Lemma fl_integral_spec m e : fl_integral m e = true <->
  (0 <= e \/ (e < 0 /\ m = fl_floor m e * 2 ^ (- e))).
Proof.
  unfold fl_integral, fl_floor. destruct (0 <=? e) eqn:E; cbn [orb]; [split; [left; lia | reflexivity]|].
  assert (0 < 2 ^ (- e)) by (apply Z.pow_pos_nonneg; lia).
  pose proof (Z.div_mod m (2 ^ (- e)) ltac:(lia)). split.
  - intros X. right. split; [lia|]. apply Z.eqb_eq in X. lia.
  - intros [X|(_ & X)]; [lia|]. apply Z.eqb_eq. lia.
Qed.

Lemma num_eq_floor m e : num_eq (NInt (fl_floor m e)) (NFlt (FFin m e)) = fl_integral m e.
Proof.
  unfold num_eq, num_ext, ext_eq, scale_pair, fl_integral, fl_floor. cbn [fst snd].
  destruct (0 <=? e) eqn:E; cbn [orb].
  - rewrite Z.min_l by lia. replace (0 - 0) with 0 by lia. replace (e - 0) with e by lia.
    rewrite Z.pow_0_r, Z.mul_1_r. apply Z.eqb_refl.
  - rewrite Z.min_r by lia. rewrite Z.sub_diag, Z.pow_0_r, Z.mul_1_r. replace (0 - e) with (- e) by lia.
    assert (0 < 2 ^ (- e)) by (apply Z.pow_pos_nonneg; lia).
    pose proof (Z.div_mod m (2 ^ (- e)) ltac:(lia)).
    destruct (m mod 2 ^ (- e) =? 0) eqn:E2; lia.
Qed.

Lemma tointeger_num_float m e : bint_tointeger_num (NFlt (FFin m e)) = float_int m e.
Proof.
  unfold bint_tointeger_num, float_int, math_floor, pushnumint.
  destruct (in_i64b (fl_floor m e)) eqn:E; [|rewrite andb_false_r; reflexivity].
  rewrite num_eq_floor, andb_true_r. reflexivity.
Qed.

Lemma tointeger_num_special f : (forall m e, f <> FFin m e) -> bint_tointeger_num (NFlt f) = None.
Proof. intros H. destruct f as [m e| |]; [exfalso; eapply H; reflexivity | reflexivity | reflexivity]. Qed.

(* ---------- the integer a Lua value denotes for the library ---------- *)
Definition lval_int (v : lval) : option Z :=
  match v with
  | LNum (NInt i) => Some i
  | LNum (NFlt (FFin m e)) => float_int m e
  | LNum (NFlt _) => None
  | LBint x => Some (sval x)
  | LStr _ => None
  end.
Definition wf_lval (v : lval) : Prop :=
  match v with
  | LBint x => wf x
  | LNum (NInt i) => in_i64 i
  | _ => True
  end.
Definition not_string (v : lval) : Prop := match v with LStr _ => False | _ => True end.

Theorem tobint_int v z : wf_lval v -> lval_int v = Some z ->
  exists x, tobint v = Some x /\ wf x /\ sval x = z /\ uval x = z mod Wfull.
Proof.
  intros Hw Hz. destruct v as [[i|f]|x|s]; cbn [lval_int tobint wf_lval] in *.
  - injection Hz as <-. cbn [bint_tointeger_num]. destruct (frominteger_correct i Hw) as (A & B & C). eauto.
  - destruct f as [m e| |]; try discriminate. rewrite tointeger_num_float, Hz.
    assert (Hi : in_i64 z).
    { unfold float_int in Hz. destruct (fl_integral m e && in_i64b (fl_floor m e)) eqn:E; [|discriminate].
      injection Hz as <-. apply andb_prop in E. apply in_i64b_spec. tauto. }
    destruct (frominteger_correct z Hi) as (A & B & C). eauto.
  - injection Hz as <-. exists x. split; [reflexivity|]. split; [exact Hw|]. split; [reflexivity | apply sval_mod; auto].
  - discriminate.
Qed.

Theorem tobint_none v : not_string v -> lval_int v = None -> tobint v = None.
Proof.
  intros Hs Hz. destruct v as [[i|f]|x|s]; cbn [lval_int tobint not_string] in *; try discriminate; try tauto.
  destruct f as [m e| |]; [rewrite tointeger_num_float, Hz | |]; reflexivity.
Qed.

Lemma sval_inj x y : wf x -> wf y -> sval x = sval y -> x = y.
Proof. intros Hx Hy E. apply wf_inj; auto. rewrite (sval_mod x Hx), (sval_mod y Hy), E. reflexivity. Qed.

Lemma beq_sval x y : wf x -> wf y -> beq x y = (sval x =? sval y).
Proof.
  intros Hx Hy. pose proof (eq_correct x y Hx Hy) as E.
  destruct (beq x y) eqn:B.
  - assert (uval x = uval y) by (apply E; reflexivity). assert (x = y) by (apply wf_inj; auto). subst. symmetry. apply Z.eqb_refl.
  - destruct (sval x =? sval y) eqn:S; [|reflexivity]. apply Z.eqb_eq in S. apply sval_inj in S; auto. subst.
    assert (X : false = true) by (apply E; reflexivity). discriminate.
Qed.

(* add / sub / mul / comparisons on any mix of Lua integers, integer-valued floats (within the
   Lua integer range) and bints are the exact operations on the integers they denote *)
Theorem mixed_exact a b za zb : wf_lval a -> wf_lval b -> lval_int a = Some za -> lval_int b = Some zb ->
  (exists r, madd a b = MBint r /\ wf r /\ uval r = (za + zb) mod Wfull) /\
  (exists r, msub a b = MBint r /\ wf r /\ uval r = (za - zb) mod Wfull) /\
  (exists r, mmul a b = MBint r /\ wf r /\ uval r = (za * zb) mod Wfull) /\
  mlt a b = Some (za <? zb) /\ mle a b = Some (za <=? zb) /\ meq a b = (za =? zb).
Proof.
  intros Wa Wb Ha Hb. pose proof Wfull_pos.
  destruct (tobint_int a za Wa Ha) as (x & Ex & Wx & Sx & Ux).
  destruct (tobint_int b zb Wb Hb) as (y & Ey & Wy & Sy & Uy).
  unfold madd, msub, mmul, mixed2, mlt, mle, meq. rewrite Ex, Ey.
  destruct (add_correct x y Wx Wy) as (A1 & A2). destruct (sub_correct x y Wx Wy) as (S1 & S2).
  destruct (mul_correct x y Wx Wy) as (M1 & M2).
  split; [eexists; split; [reflexivity|]; split; [exact A1|]; rewrite A2, Ux, Uy, <- Z.add_mod by lia; reflexivity|].
  split; [eexists; split; [reflexivity|]; split; [exact S1|]; rewrite S2, Ux, Uy, <- Zminus_mod; reflexivity|].
  split; [eexists; split; [reflexivity|]; split; [exact M1|]; rewrite M2, Ux, Uy, <- Z.mul_mod by lia; reflexivity|].
  rewrite (lt_correct x y Wx Wy), (le_correct x y Wx Wy), (beq_sval x y Wx Wy), Sx, Sy. auto.
Qed.

(* a value without an exact integer representation (a float with a fraction or beyond the Lua
   integer range, inf, nan): no bint arithmetic happens, the operands go to the VM as plain numbers *)
Theorem mixed_fallback a b : not_string a -> not_string b -> lval_int a = None \/ lval_int b = None ->
  madd a b = MFallback (lval_tonumber a) (lval_tonumber b) /\
  msub a b = MFallback (lval_tonumber a) (lval_tonumber b) /\
  mmul a b = MFallback (lval_tonumber a) (lval_tonumber b).
Proof.
  intros Sa Sb H. unfold madd, msub, mmul, mixed2.
  destruct H as [H|H]; [rewrite (tobint_none a Sa H) | rewrite (tobint_none b Sb H); destruct (tobint a)]; auto.
Qed.

(* bint.new / bint_assert_convert *)
Theorem bnew_correct v : wf_lval v -> not_string v ->
  match lval_int v with
  | Some z => exists x, bnew v = COk x /\ wf x /\ sval x = z
  | None => bnew v = CAssert
  end.
Proof.
  intros Hw Hs. unfold bnew. destruct (lval_int v) as [z|] eqn:E.
  - destruct (tobint_int v z Hw E) as (x & A & B & C & _). rewrite A. eauto.
  - rewrite (tobint_none v Hs E). reflexivity.
Qed.

(* ---------- strings: bint.fromstring ---------- *)
Definition hex_check (c : Z) : bool := negb (is_hexdigit c) || (is_alnum c && (char_digit c <? 16)).
Lemma hex_check_all : forallb hex_check (map Z.of_nat (seq 48 75)) = true.
Proof. vm_compute. reflexivity. Qed.
Lemma hexdigit_ok c : is_hexdigit c = true -> char_ok 16 c.
Proof.
  intros H.
  assert (R : 48 <= c <= 122) by (unfold is_hexdigit, is_digit in H; lia).
  pose proof hex_check_all as X. rewrite forallb_forall in X.
  specialize (X c ltac:(apply in_map_iff; exists (Z.to_nat c); split; [lia | apply in_seq; lia])).
  unfold hex_check in X. rewrite H in X. cbn [negb orb] in X. apply andb_prop in X. destruct X as (X1 & X2).
  split; [exact X1|]. destruct (alnum_cases c X1) as (_ & _ & _ & B & _). lia.
Qed.
Lemma bindigit_ok c : is_bindigit c = true -> char_ok 2 c.
Proof.
  unfold is_bindigit. intros H. assert (c = 48 \/ c = 49) as [-> | ->] by lia; split; try reflexivity; cbn; lia.
Qed.
Lemma digit_ok10 c : is_digit c = true -> char_ok 10 c.
Proof.
  intros H. unfold char_ok, is_alnum, char_digit. rewrite H. cbn [orb]. unfold is_digit in H. split; [reflexivity | lia].
Qed.

Lemma Forall_of_forallb {A} (p : A -> bool) (P : A -> Prop) l : (forall a, p a = true -> P a) -> forallb p l = true -> Forall P l.
Proof. intros H E. rewrite forallb_forall in E. apply Forall_forall. auto. Qed.

Definition str_sign (s : str) : str * str :=
  match s with c :: r => if (c =? 45) || (c =? 43) then ([c], r) else ([], s) | [] => ([], []) end.

(* decimal, 0x.. and 0b.. strings with an optional sign are read exactly (mod 2^BITS); the digits
   are those of Lua's patterns [0-9], [0-9a-fA-F], [01] *)
Theorem fromstring_correct sg cs : sign_ok sg -> cs <> [] ->
  (forallb is_digit cs = true ->
     exists x, fromstring (sg ++ cs) = Ok x /\ wf x /\ uval x = (sign_val sg * dval 10 (map cval cs)) mod Wfull) /\
  (forall p, p = 120 \/ p = 88 -> forallb is_hexdigit cs = true ->
     exists x, fromstring (sg ++ 48 :: p :: cs) = Ok x /\ wf x /\ uval x = (sign_val sg * dval 16 (map cval cs)) mod Wfull) /\
  (forall p, p = 98 \/ p = 66 -> forallb is_bindigit cs = true ->
     exists x, fromstring (sg ++ 48 :: p :: cs) = Ok x /\ wf x /\ uval x = (sign_val sg * dval 2 (map cval cs)) mod Wfull).
Proof.
  intros Hsg Hne.
  assert (Hdec : forall body, body <> [] -> fromstring (sg ++ body) =
            (let b := body in
             if nonempty b && forallb is_digit b then frombase (sg ++ b) 10
             else match b with
                  | z :: x :: r =>
                      if (z =? 48) && ((x =? 120) || (x =? 88)) && nonempty r && forallb is_hexdigit r then frombase (sg ++ r) 16
                      else if (z =? 48) && ((x =? 98) || (x =? 66)) && nonempty r && forallb is_bindigit r then frombase (sg ++ r) 2
                      else Err ENone
                  | _ => Err ENone
                  end) \/ (exists c r, body = c :: r /\ ((c =? 45) || (c =? 43)) = true)).
  { intros body Hb. destruct Hsg as [->|[->| ->]]; cbn [app].
    - destruct body as [|c r]; [congruence|]. destruct ((c =? 45) || (c =? 43)) eqn:E; [right; eauto|].
      left. unfold fromstring. rewrite E. reflexivity.
    - left. reflexivity.
    - left. reflexivity. }
  assert (Hnosign : forall c, is_digit c = true -> ((c =? 45) || (c =? 43)) = false) by (unfold is_digit; intros; lia).
  split; [|split].
  - intros Hd. destruct (Hdec cs Hne) as [E|(c & r & -> & E)].
    + rewrite E. cbn zeta. destruct cs; [congruence|]. cbn [nonempty andb]. rewrite Hd.
      apply frombase_correct; auto; [lia|]. eapply Forall_of_forallb; [apply digit_ok10 | exact Hd].
    + cbn [forallb] in Hd. apply andb_prop in Hd. rewrite (Hnosign c (proj1 Hd)) in E. discriminate.
  - intros p Hp Hh. destruct (Hdec (48 :: p :: cs) ltac:(discriminate)) as [E|(c & r & X & E)].
    + rewrite E. cbn zeta. cbn [nonempty forallb andb].
      assert (Ep : is_digit p = false) by (unfold is_digit; lia). rewrite Ep, andb_false_r. cbn [andb].
      assert (Ex : ((p =? 120) || (p =? 88)) = true) by lia. rewrite Ex. change (48 =? 48) with true. cbn [andb].
      destruct cs; [congruence|]. cbn [nonempty andb]. rewrite Hh.
      apply frombase_correct; auto; [lia|]. eapply Forall_of_forallb; [apply hexdigit_ok | exact Hh].
    + injection X as <- _. discriminate.
  - intros p Hp Hh. destruct (Hdec (48 :: p :: cs) ltac:(discriminate)) as [E|(c & r & X & E)].
    + rewrite E. cbn zeta. cbn [nonempty forallb andb].
      assert (Ep : is_digit p = false) by (unfold is_digit; lia). rewrite Ep, andb_false_r. cbn [andb].
      assert (Ex : ((p =? 120) || (p =? 88)) = false) by lia. rewrite Ex. change (48 =? 48) with true. cbn [andb].
      assert (Eb : ((p =? 98) || (p =? 66)) = true) by lia. rewrite Eb.
      destruct cs; [congruence|]. cbn [nonempty andb]. rewrite Hh.
      apply frombase_correct; auto; [lia|]. eapply Forall_of_forallb; [apply bindigit_ok | exact Hh].
    + injection X as <- _. discriminate.
Qed.

(* ---------- trunc / floor / ceil of floats ---------- *)
Lemma tointeger_num_int0 t : bint_tointeger_num (NFlt (FFin t 0)) = if in_i64b t then Some t else None.
Proof.
  rewrite tointeger_num_float. unfold float_int, fl_integral, fl_floor. cbn [Z.leb orb andb].
  rewrite Z.pow_0_r, Z.mul_1_r. change (0 <=? 0) with true. cbn [orb andb]. reflexivity.
Qed.

Theorem trunc_correct v :
  match v with
  | LNum (NFlt (FFin m e)) =>
      btrunc v = if in_i64b (fl_trunc m e) then Some (frominteger (fl_trunc m e)) else None
  | LNum (NFlt _) => btrunc v = None
  | LNum (NInt i) => btrunc v = Some (frominteger i)
  | LBint x => btrunc v = Some x
  | LStr _ => True
  end.
Proof.
  destruct v as [[i|[m e|s|]]|x|s]; cbn [btrunc math_modf]; try reflexivity; try exact I.
  rewrite tointeger_num_int0. destruct (in_i64b (fl_trunc m e)); reflexivity.
Qed.

Theorem floor_ceil_correct m e :
  bfloor (LNum (NFlt (FFin m e))) = (if in_i64b (fl_floor m e) then COk (frominteger (fl_floor m e)) else CAssert) /\
  bceil (LNum (NFlt (FFin m e))) = (if in_i64b (fl_ceil m e) then COk (frominteger (fl_ceil m e)) else CAssert) /\
  (forall f, (forall m e, f <> FFin m e) -> bfloor (LNum (NFlt f)) = CAssert /\ bceil (LNum (NFlt f)) = CAssert) /\
  (forall i, bfloor (LNum (NInt i)) = COk (frominteger i) /\ bceil (LNum (NInt i)) = COk (frominteger i)).
Proof.
  assert (G : forall z, bnew (LNum (pushnumint z)) = if in_i64b z then COk (frominteger z) else CAssert).
  { intros z. unfold pushnumint, bnew, tobint. destruct (in_i64b z) eqn:E; [reflexivity|].
    rewrite tointeger_num_int0, E. reflexivity. }
  split; [apply G|]. split; [apply G|]. split.
  - intros f Hf. destruct f as [m' e'| |]; [exfalso; eapply Hf; reflexivity | split; reflexivity | split; reflexivity].
  - intros i. split; reflexivity.
Qed.

(* the three roundings are the mathematical ones of the real value m * 2^e *)
Lemma fl_round_spec m e : e < 0 ->
  let d := 2 ^ (- e) in
  fl_floor m e * d <= m < (fl_floor m e + 1) * d /\
  (fl_ceil m e - 1) * d < m <= fl_ceil m e * d /\
  fl_trunc m e = (if m <? 0 then fl_ceil m e else fl_floor m e).
Proof.
  intros He. cbn zeta. unfold fl_floor, fl_ceil, fl_trunc. destruct (0 <=? e) eqn:E; [lia|].
  assert (Hd : 0 < 2 ^ (- e)) by (apply Z.pow_pos_nonneg; lia). set (d := 2 ^ (- e)) in *.
  pose proof (Z.div_mod m d ltac:(lia)) as D1. pose proof (Z.mod_pos_bound m d Hd) as D2.
  pose proof (Z.div_mod (- m) d ltac:(lia)) as D3. pose proof (Z.mod_pos_bound (- m) d Hd) as D4.
  split; [nia|]. split; [nia|].
  destruct (m <? 0) eqn:En.
  - rewrite <- (Z.opp_involutive m) at 1. rewrite Z.quot_opp_l by lia. rewrite Z.quot_div_nonneg by lia. reflexivity.
  - apply Z.quot_div_nonneg; lia.
Qed.

(* ---------- bint.tonumber ---------- *)
Lemma strtod_digits ds : digits_ok 10 ds -> forall acc,
  fold_left (fun a c => a * 10 + (c - 48)) (map digit_char ds) acc = dval_acc 10 ds acc.
Proof.
  induction 1 as [|d r Hd Hr IH]; intros acc; cbn [map fold_left dval_acc]; [reflexivity|].
  rewrite IH. f_equal. unfold digit_char. destruct (d <? 10) eqn:E; lia.
Qed.

Theorem tonumber_correct x : wf x ->
  bint_tonumber x = if in_i64b (sval x) then NInt (sval x) else NFlt (FFin (rne53 (sval x)) 0).
Proof.
  intros Hx. unfold bint_tonumber.
  destruct (frominteger_correct maxint ltac:(i64)) as (Wmax & _ & Smax).
  destruct (frominteger_correct minint ltac:(i64)) as (Wmin & _ & Smin).
  rewrite (le_correct x _ Hx Wmax), (le_correct _ x Wmin Hx), Smax, Smin, (tointeger_correct x Hx).
  assert (E : ((sval x <=? maxint) && (minint <=? sval x)) = in_i64b (sval x)) by (unfold in_i64b; lia).
  rewrite E. destruct (in_i64b (sval x)) eqn:Ei.
  - apply in_i64b_spec in Ei. rewrite wrap64_id by exact Ei. reflexivity.
  - destruct (tobase_correct x 10 None Hx ltac:(lia)) as (ds & T & (C1 & C2 & C3 & _)). cbn zeta in T, C2.
    change (negb (10 =? 10)) with false in *. unfold tobase_neg, tobase_val in *. cbn [negb andb] in *.
    rewrite T. f_equal. unfold strtod_dec.
    destruct (sval x <? 0) eqn:En; cbn [app].
    + change (45 =? 45) with true. cbv iota. cbn [skipn]. rewrite strtod_digits by exact C1. fold (dval 10 ds). rewrite C2.
      f_equal. f_equal. lia.
    + destruct ds as [|d0 r0]; [congruence|]. cbn [map].
      inversion C1; subst.
      assert (Ed : (digit_char d0 =? 45) = false) by (unfold digit_char; destruct (d0 <? 10); lia).
      rewrite Ed. change (digit_char d0 :: map digit_char r0) with (map digit_char (d0 :: r0)).
      rewrite strtod_digits by exact C1. fold (dval 10 (d0 :: r0)). rewrite C2. f_equal. f_equal. lia.
Qed.

(* round to nearest, ties to even, on 53 significant bits *)
Theorem rne53_spec v :
  let L := Z.log2 (Z.abs v) + 1 in
  (L <= 53 -> rne53 v = v) /\
  (53 < L -> exists q, rne53 v = Z.sgn v * (q * 2 ^ (L - 53)) /\ 2 ^ 52 <= q <= 2 ^ 53 /\
             2 * Z.abs (rne53 v - v) <= 2 ^ (L - 53)).
Proof.
  cbn zeta. unfold rne53. set (a := Z.abs v). set (L := Z.log2 a + 1).
  destruct (L <=? 53) eqn:E; [split; [reflexivity | lia]|]. split; [lia|]. intros _.
  set (s := L - 53). assert (Hs : 0 < s) by lia.
  assert (Ha : 0 < a) by (destruct (Z.eq_dec a 0) as [X|X]; [subst L; rewrite X in *; cbn in *; lia | subst a; lia]).
  pose proof (Z.log2_spec a Ha) as (L1 & L2). replace (Z.succ (Z.log2 a)) with L in L2 by (subst L; lia).
  assert (Hp : 0 < 2 ^ s) by (apply Z.pow_pos_nonneg; lia).
  assert (E2 : 2 ^ s = 2 * 2 ^ (s - 1)) by (rewrite <- Z.pow_succ_r by lia; f_equal; lia).
  assert (EL : 2 ^ L = 2 ^ 53 * 2 ^ s) by (rewrite <- Z.pow_add_r by lia; f_equal; subst s; lia).
  assert (EL1 : 2 ^ Z.log2 a = 2 ^ 52 * 2 ^ s) by (rewrite <- Z.pow_add_r by lia; f_equal; subst s L; lia).
  pose proof (Z.div_mod a (2 ^ s) ltac:(lia)) as D1. pose proof (Z.mod_pos_bound a (2 ^ s) Hp) as D2.
  set (q := a / 2 ^ s) in *. set (r := a mod 2 ^ s) in *. set (h := 2 ^ (s - 1)) in *.
  assert (Hq : 2 ^ 52 <= q < 2 ^ 53) by (change (2 ^ 52) with 4503599627370496 in *; change (2 ^ 53) with 9007199254740992 in *; nia).
  set (q' := if (h <? r) || ((r =? h) && Z.odd q) then q + 1 else q).
  assert (Hq' : q' = q \/ q' = q + 1) by (subst q'; destruct ((h <? r) || ((r =? h) && Z.odd q)); auto).
  exists q'. split; [reflexivity|]. split; [lia|].
  assert (Hv : v = Z.sgn v * a) by (subst a; rewrite Z.mul_comm; symmetry; apply Z.abs_sgn).
  rewrite Hv at 2. rewrite <- Z.mul_sub_distr_l, Z.abs_mul.
  assert (Z.abs (Z.sgn v) = 1) by (subst a; lia). rewrite H, Z.mul_1_l.
  subst q'. destruct ((h <? r) || ((r =? h) && Z.odd q)) eqn:C; lia.
Qed.

(* ---------- bn.todecsci, integer branch ---------- *)
Theorem todecsci_int_correct v forcefract : wf v ->
  exists ds, todecsci_int v forcefract =
             Ok (((if sval v <? 0 then [45] else []) ++ map digit_char ds) ++ (if forcefract then [46; 48] else [])) /\
             canon 10 ds (Z.abs (sval v)).
Proof.
  intros Hv. destruct (tobase_correct v 10 None Hv ltac:(lia)) as (ds & T & C). cbn zeta in *.
  change (negb (10 =? 10)) with false in *. unfold tobase_neg, tobase_val in *. cbn [negb andb] in *.
  exists ds. unfold todecsci_int. rewrite T. split; [|exact C]. destruct forcefract; [reflexivity | rewrite app_nil_r; reflexivity].
Qed.

Example mixed_example :
  tobint (LNum (NFlt (FFin 5 (-1)))) = None /\ tobint (LNum (NFlt (FFin 3 2))) = Some (frominteger 12) /\
  btrunc (LNum (NFlt (FFin (-5) (-1)))) = Some (frominteger (-2)) /\
  bfloor (LNum (NFlt (FFin (-5) (-1)))) = COk (frominteger (-3)) /\
  rne53 (2 ^ 63 + 2 ^ 10) = 2 ^ 63 /\ rne53 (2 ^ 63 + 2 ^ 10 + 1) = 2 ^ 63 + 2 ^ 11.
Proof. repeat split; vm_compute; reflexivity. Qed.
