(* Reads "op hexA hexB" lines; operands are 160-bit unsigned values (hex); prints the result
   of the extracted model, one line per case.  Integers for from*/to* are signed hex. *)
open Model
open Zutil

let size = int_of_nat bINT_SIZE
let two32 = z_of_hex "100000000"

(* hex (unsigned, < 2^160) -> limbs, via plain bit slicing (not through the model) *)
let limbs_of_hex (s : string) : z list =
  let s = String.make (max 0 (size * 8 - String.length s)) '0' ^ s in
  let n = String.length s in
  List.init size (fun i -> z_of_hex (String.sub s (n - 8 * (i + 1)) 8))

let hex_of_limbs (l : z list) : string =
  String.concat "," (List.map hex_of_z l)

let b2s b = if b then "true" else "false"

let () =
  iter_lines (fun line ->
    match split_ws line with
    | [] -> ()
    | op :: args ->
      let a i = limbs_of_hex (List.nth args i) in
      let out =
        try
          (match op with
           | "add" -> hex_of_limbs (badd (a 0) (a 1))
           | "sub" -> hex_of_limbs (bsub (a 0) (a 1))
           | "mul" -> hex_of_limbs (bmul (a 0) (a 1))
           | "band" -> hex_of_limbs (band (a 0) (a 1))
           | "bor" -> hex_of_limbs (bor (a 0) (a 1))
           | "bxor" -> hex_of_limbs (bxor (a 0) (a 1))
           | "bnot" -> hex_of_limbs (bnot (a 0))
           | "unm" -> hex_of_limbs (bunm (a 0))
           | "inc" -> hex_of_limbs (binc (a 0))
           | "dec" -> hex_of_limbs (bdec (a 0))
           | "shlone" -> hex_of_limbs (shlone (a 0))
           | "shrone" -> hex_of_limbs (shrone (a 0))
           | "eq" -> b2s (beq (a 0) (a 1))
           | "ult" -> b2s (ult (a 0) (a 1))
           | "ule" -> b2s (ule (a 0) (a 1))
           | "lt" -> b2s (blt (a 0) (a 1))
           | "le" -> b2s (ble (a 0) (a 1))
           | "isneg" -> b2s (isneg (a 0))
           | "fromuinteger" -> hex_of_limbs (fromuinteger (z_of_hex (List.nth args 0)))
           | "frominteger" -> hex_of_limbs (frominteger (z_of_hex (List.nth args 0)))
           | "touinteger" -> hex_of_z (touinteger (a 0))
           | "tointeger" -> hex_of_z (tointeger (a 0))
           | _ -> "?unknown-op")
        with e -> "!exn " ^ Printexc.to_string e
      in
      print_string out; print_newline ())
