(* Reads "op arg..." lines; bint operands are 160-bit unsigned values (hex); Lua integers are
   signed hex; strings are hex-encoded bytes.  Prints the result of the extracted model, one
   line per case. *)
open Model
open Zutil

let size = int_of_nat bINT_SIZE
let limbhex = int_of_z bINT_WORDBITS / 4

(* hex (unsigned, < 2^160) -> limbs, via plain text slicing (not through the model) *)
let limbs_of_hex (s : string) : z list =
  let s = String.make (max 0 (size * limbhex - String.length s)) '0' ^ s in
  let n = String.length s in
  List.init size (fun i -> z_of_hex (String.sub s (n - limbhex * (i + 1)) limbhex))

let hex_of_limbs (l : z list) : string = String.concat "," (List.map hex_of_z l)
let b2s b = if b then "true" else "false"
let str_of_codes (l : z list) : string = String.concat "" (List.map (fun c -> String.make 1 (Char.chr (int_of_z c land 255))) l)

let err_s = function
  | EDivZero -> "!err divzero"
  | EDivOverflow -> "!err overflow"
  | ENil -> "!err nil"
  | EFuel -> "!err FUEL"
  | ENone -> "nil"

let opt_limbs = function Some l -> hex_of_limbs l | None -> "!err FUEL"
let res_limbs = function Ok l -> hex_of_limbs l | Err e -> err_s e
let res_pair = function Ok (q, r) -> hex_of_limbs q ^ " " ^ hex_of_limbs r | Err e -> err_s e
let res_str = function Ok s -> str_of_codes s | Err e -> err_s e

(* Lua values: i:<int>  b:<bint>  s:<hexbytes|->  f:<m>:<e>[:<hexfloat>] | f:inf | f:-inf | f:nan *)
let lnum_of_token (t : string) : lnum =
  match String.split_on_char ':' t with
  | "i" :: v :: _ -> NInt (z_of_hex v)
  | "f" :: "inf" :: _ -> NFlt (FInf false)
  | "f" :: "-inf" :: _ -> NFlt (FInf true)
  | "f" :: "nan" :: _ -> NFlt FNan
  | "f" :: m :: e :: _ -> NFlt (FFin (z_of_hex m, z_of_hex e))
  | _ -> failwith ("bad number token " ^ t)

let lval_of_token (t : string) : lval =
  match String.split_on_char ':' t with
  | "b" :: v :: _ -> LBint (limbs_of_hex v)
  | "s" :: v :: _ -> LStr (if v = "-" then [] else zlist_of_hexbytes v)
  | _ -> LNum (lnum_of_token t)

let lnum_s = function
  | NInt i -> "i " ^ hex_of_z i
  | NFlt (FFin (m, e)) -> "flt:" ^ hex_of_z m ^ ":" ^ hex_of_z e
  | NFlt (FInf false) -> "flt:inf"
  | NFlt (FInf true) -> "flt:-inf"
  | NFlt FNan -> "flt:nan"

let mres_s = function MBint x -> hex_of_limbs x | MFallback _ -> "fallback"
let cres_s = function COk x -> hex_of_limbs x | CAssert -> "!err assert"
let optb_s = function Some l -> hex_of_limbs l | None -> "nil"

(* ---- aliasing stream: the object-level model on the store [x; y; m] ---- *)
let alias_run (fname : string) (x : z list) (y : z list) (n : z) (m : z list) : string =
  let s0 = [x; y; m] in
  let r0 = O and r1 = S O and r2 = S (S O) in
  let one (s, r) = (s, [r], "") in
  let pair = function Ok (s, (q, r)) -> (s, [q; r], "") | Err e -> (s0, [], err_s e) in
  let s', refs, scalar =
    match fname with
    | "tobint" | "parse" -> one (o_tobint s0 r0 false)
    | "tobintc" -> one (o_tobint s0 r0 true)
    | "new" -> one (o_new s0 r0)
    | "abs" -> one (o_abs s0 r0)
    | "inc" -> one (o_inc s0 r0)
    | "dec" -> one (o_dec s0 r0)
    | "max" -> one (o_max s0 r0 r1)
    | "min" -> one (o_min s0 r0 r1)
    | "add" -> one (o_bin badd s0 r0 r1)
    | "sub" -> one (o_bin bsub s0 r0 r1)
    | "mul" -> one (o_bin bmul s0 r0 r1)
    | "bnot" -> one (o_bnot s0 r0)
    | "unm" -> one (o_neg s0 r0)
    | "band" -> one (o_bit band s0 r0 r1)
    | "bor" -> one (o_bit bor s0 r0 r1)
    | "bxor" -> one (o_bit bxor s0 r0 r1)
    | "shl" -> one (o_shift true s0 r0 n)
    | "shr" -> one (o_shift false s0 r0 n)
    | "bwrap" -> one (o_bwrap s0 r0 n)
    | "brol" -> one (o_rot true s0 r0 n)
    | "bror" -> one (o_rot false s0 r0 n)
    | "udivmod" -> pair (o_udivmod s0 r0 r1)
    | "idivmod" -> pair (o_idivmod s0 r0 r1)
    | "tdivmod" -> pair (o_tdivmod s0 r0 r1)
    | "ipow" -> (match o_ipow s0 r0 r1 with Ok p -> one p | Err e -> (s0, [], err_s e))
    | "upowmod" -> (match o_upowmod s0 r0 r1 r2 with Ok p -> one p | Err e -> (s0, [], err_s e))
    | "tobase" -> let (s, r) = o_tobase s0 r0 n None in (s, [], res_str r)
    | "tointeger" -> let (s, i) = o_tointeger s0 r0 in (s, [], "i " ^ hex_of_z i)
    | "compress" -> (match o_compress s0 r0 with (s, Inl i) -> (s, [], "i " ^ hex_of_z i) | (s, Inr r) -> (s, [r], ""))
    | _ -> (s0, [], "?unknown-alias-op")
  in
  let flag r = if r = r0 then "x" else if r = r1 then "y" else if r = r2 then "m" else "-" in
  let rs = String.concat "/" (List.map (fun r -> hex_of_limbs (oget s' r)) refs) in
  let s'' = List.fold_left (fun s r -> fst (oupd s r binc)) s' refs in
  Printf.sprintf "R=%s%s X=%s Y=%s A=%s X2=%s Y2=%s" rs scalar (hex_of_limbs (oget s' r0)) (hex_of_limbs (oget s' r1))
    (String.concat "" (List.map flag refs)) (hex_of_limbs (oget s'' r0)) (hex_of_limbs (oget s'' r1))

let () =
  iter_lines (fun line ->
    match split_ws line with
    | [] -> ()
    | op0 :: args ->
      (* "<op>_i x n": the second operand is passed to the real module as a Lua integer (tobint -> frominteger) *)
      let mixed = String.length op0 > 2 && String.sub op0 (String.length op0 - 2) 2 = "_i" in
      let op = if mixed then String.sub op0 0 (String.length op0 - 2) else op0 in
      let a i = if mixed && i = 1 then frominteger (z_of_hex (List.nth args 1)) else limbs_of_hex (List.nth args i) in
      let zi i = z_of_hex (List.nth args i) in
      let ni i = nat_of_int (int_of_string (List.nth args i)) in
      let bytes i = let s = List.nth args i in if s = "-" then [] else zlist_of_hexbytes s in
      let optz i = if List.nth args i = "nil" then None else Some (zi i) in
      let flag i = List.nth args i = "t" in
      let out =
        try
          (match op with
           | "add" -> hex_of_limbs (badd (a 0) (a 1))
           | "sub" -> hex_of_limbs (bsub (a 0) (a 1))
           | "mul" -> hex_of_limbs (bmul (a 0) (a 1))
           | "band" -> hex_of_limbs (band (a 0) (a 1))
           | "bor" -> hex_of_limbs (bor (a 0) (a 1))
           | "bxor" -> hex_of_limbs (bxor (a 0) (a 1))
           | "bnot" -> hex_of_limbs (bnot (a 0))
           | "unm" -> hex_of_limbs (bunm (a 0))
           | "inc" -> hex_of_limbs (binc (a 0))
           | "dec" -> hex_of_limbs (bdec (a 0))
           | "shlone" -> hex_of_limbs (shlone (a 0))
           | "shrone" -> hex_of_limbs (shrone (a 0))
           | "eq" -> b2s (beq (a 0) (a 1))
           | "ult" -> b2s (ult (a 0) (a 1))
           | "ule" -> b2s (ule (a 0) (a 1))
           | "lt" -> b2s (blt (a 0) (a 1))
           | "le" -> b2s (ble (a 0) (a 1))
           | "isneg" -> b2s (isneg (a 0))
           | "fromuinteger" -> hex_of_limbs (fromuinteger (zi 0))
           | "frominteger" -> hex_of_limbs (frominteger (zi 0))
           | "touinteger" -> hex_of_z (touinteger (a 0))
           | "tointeger" -> hex_of_z (tointeger (a 0))
           | "shlwords" -> hex_of_limbs (shlwords (a 0) (ni 1))
           | "shrwords" -> hex_of_limbs (shrwords (a 0) (ni 1))
           | "shl" -> opt_limbs (bshl (a 0) (zi 1))
           | "shr" -> opt_limbs (bshr (a 0) (zi 1))
           | "bwrap" -> opt_limbs (bwrap (a 0) (zi 1))
           | "brol" -> opt_limbs (brol (a 0) (zi 1))
           | "bror" -> opt_limbs (bror (a 0) (zi 1))
           | "iszero" -> b2s (biszero (a 0))
           | "isone" -> b2s (bisone (a 0))
           | "isminusone" -> b2s (bisminusone (a 0))
           | "iseven" -> b2s (biseven (a 0))
           | "isodd" -> b2s (bisodd (a 0))
           | "mininteger" -> hex_of_limbs bint_mininteger
           | "maxinteger" -> hex_of_limbs bint_maxinteger
           | "abs" -> hex_of_limbs (babs (a 0))
           | "max" -> hex_of_limbs (bmax (a 0) (a 1))
           | "min" -> hex_of_limbs (bmin (a 0) (a 1))
           | "udivmod" -> res_pair (udivmod (a 0) (a 1))
           | "udiv" -> res_limbs (udiv (a 0) (a 1))
           | "umod" -> res_limbs (umod (a 0) (a 1))
           | "tdivmod" -> res_pair (tdivmod (a 0) (a 1))
           | "idivmod" -> res_pair (idivmod (a 0) (a 1))
           | "idiv" -> res_limbs (bidiv (a 0) (a 1))
           | "mod" -> res_limbs (bmod (a 0) (a 1))
           | "ipow" -> res_limbs (ipow (a 0) (a 1))
           | "upowmod" -> res_limbs (upowmod (a 0) (a 1) (a 2))
           | "compress" -> (match compress (a 0) with Inl i -> "i " ^ hex_of_z i | Inr b -> "b " ^ hex_of_limbs b)
           | "tobase" -> res_str (tobase (a 0) (zi 1) (match List.nth args 2 with "t" -> Some true | "f" -> Some false | _ -> None))
           | "frombase" -> res_limbs (frombase (bytes 0) (zi 1))
           | "from_bin" -> res_limbs (bn_from_bin (flag 0) (bytes 1))
           | "from_hex" -> res_limbs (bn_from_hex (flag 0) (bytes 1))
           | "from_dec" -> (match bn_from_dec (bytes 0) with Ok (LInt x) -> hex_of_limbs x | Ok LFloat -> "float" | Err e -> err_s e)
           | "tohexint" -> res_str (tohexint (a 0) (optz 1))
           | "tobinint" -> res_str (tobinint (a 0) (optz 1))
           | "todecint" -> res_str (todecint (a 0))
           | "alias" -> alias_run (List.nth args 0) (a 1) (a 2) (zi 3) (a 4)
           | "split_bin" | "split_hex" ->
               let hx l = match l with [] -> "-" | _ -> hexbytes_of_zlist l in
               (match (if op = "split_bin" then split_bin else split_hex) (bytes 0) with
                | None -> "nil"
                | Some (((neg, i), f), e) ->
                    Printf.sprintf "%s %s %s %s" (b2s neg) (hx i) (match f with Some x -> hx x | None -> "false") (match e with Some x -> hx x | None -> "nil"))
           | "from_text" -> (match bn_from_text (bytes 0) with TInt x -> hex_of_limbs x | TFloat -> "float" | TMalformed -> "!err raises" | TOther -> "other")
           | "lua_tonumber" -> (match lua_tonumber_base (bytes 0) (zi 1) with Some v -> hex_of_z v | None -> "nil")
           | "lua_tostring" -> (match lua_tostring_int (zi 0) with Some t -> str_of_codes t | None -> "!err FUEL")
           | "lua_format_x" -> (match lua_format_x (zi 0) with Some t -> str_of_codes t | None -> "!err FUEL")
           | "tobint" -> optb_s (tobint (lval_of_token (List.nth args 0)))
           | "new" -> cres_s (bnew (lval_of_token (List.nth args 0)))
           | "madd" -> mres_s (madd (lval_of_token (List.nth args 0)) (lval_of_token (List.nth args 1)))
           | "msub" -> mres_s (msub (lval_of_token (List.nth args 0)) (lval_of_token (List.nth args 1)))
           | "mmul" -> mres_s (mmul (lval_of_token (List.nth args 0)) (lval_of_token (List.nth args 1)))
           | "mlt" -> (match mlt (lval_of_token (List.nth args 0)) (lval_of_token (List.nth args 1)) with Some b -> b2s b | None -> "none")
           | "mle" -> (match mle (lval_of_token (List.nth args 0)) (lval_of_token (List.nth args 1)) with Some b -> b2s b | None -> "none")
           | "meq" -> b2s (meq (lval_of_token (List.nth args 0)) (lval_of_token (List.nth args 1)))
           | "tonumber" -> lnum_s (bint_tonumber (a 0))
           | "trunc" -> optb_s (btrunc (lval_of_token (List.nth args 0)))
           | "floor" -> cres_s (bfloor (lval_of_token (List.nth args 0)))
           | "ceil" -> cres_s (bceil (lval_of_token (List.nth args 0)))
           | "fromle" -> hex_of_limbs (bfromle (bytes 0))
           | "frombe" -> hex_of_limbs (bfrombe (bytes 0))
           | "tole" -> (match btole (a 0) (flag 1) with [] -> "-" | l -> hexbytes_of_zlist l)
           | "tobe" -> (match btobe (a 0) (flag 1) with [] -> "-" | l -> hexbytes_of_zlist l)
           | "todecsci" -> res_str (todecsci_int (a 0) (flag 1))
           | "demotefloat" -> lnum_s (demotefloat (lnum_of_token (List.nth args 0)))
           | "canbeintegral" -> b2s (canbeintegral (lnum_of_token (List.nth args 0)))
           | _ -> "?unknown-op")
        with e -> "!exn " ^ Printexc.to_string e
      in
      print_string out; print_newline ())
