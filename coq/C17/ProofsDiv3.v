(* signed division: idivmod / __idiv / __mod (floor) *)
From C17 Require Import Model Model2 Proofs ProofsLib ProofsArith ProofsBits ProofsConv ProofsShift ProofsMisc ProofsSigned ProofsDiv.
From Coq Require Import ZifyBool.
Local Open Scope Z_scope.
Ltac Zify.zify_post_hook ::= Z.div_mod_to_equations.

(* ---- idivmod / __idiv / __mod ---- *)
Lemma floor_div_range H s t : 0 < H -> - H <= s < H -> - H <= t < H -> t <> 0 -> ~ (s = - H /\ t = -1) ->
  - H <= s / t < H.
Proof.
  intros HH Hs Ht Hnz Hno. pose proof (Z.div_mod s t Hnz) as E.
  destruct (Z_lt_le_dec 0 t) as [L|L].
  - pose proof (Z.mod_pos_bound s t L) as M. set (q := s / t) in *. set (r := s mod t) in *. clearbody q r.
    split.
    + destruct (Z_le_dec (- H) q); [lia|exfalso]. assert (t * (q + 1) <= t * (- H)) by (apply Z.mul_le_mono_nonneg_l; lia). nia.
    + destruct (Z_lt_dec q H); [lia|exfalso]. assert (t * H <= t * q) by (apply Z.mul_le_mono_nonneg_l; lia). nia.
  - pose proof (Z.mod_neg_bound s t ltac:(lia)) as M. set (q := s / t) in *. set (r := s mod t) in *. clearbody q r.
    split.
    + destruct (Z_le_dec (- H) q); [lia|exfalso]. assert (t * (- H) <= t * (q + 1)) by (apply Z.mul_le_mono_nonpos_l; lia). nia.
    + destruct (Z_lt_dec q H); [lia|exfalso]. assert (t * q <= t * H) by (apply Z.mul_le_mono_nonpos_l; lia).
      destruct (Z.eq_dec t (-1)); [subst t; lia|]. assert (t <= -2) by lia.
      assert (t * H <= -2 * H) by nia. nia.
Qed.

Lemma floor_mod_range H s t : t <> 0 -> - H <= t < H -> - H <= s mod t < H.
Proof.
  intros Hnz Ht.
  destruct (Z_lt_le_dec 0 t) as [L|L]; [pose proof (Z.mod_pos_bound s t L) | pose proof (Z.mod_neg_bound s t ltac:(lia))];
    set (m := s mod t) in *; clearbody m; lia.
Qed.

(* the common computation of idivmod and __idiv, as a relation between the inputs and the
   floor quotient / remainder *)
Lemma floor_cases sx sy a b : a = Z.abs sx -> b = Z.abs sy -> sy <> 0 ->
  let q0 := a / b in let r0 := a mod b in
  (sx < 0 -> 0 < sy -> r0 <> 0 -> sx / sy = - q0 - 1 /\ sx mod sy = - r0 + sy) /\
  (sx < 0 -> 0 < sy -> r0 = 0 -> sx / sy = - q0 /\ sx mod sy = 0) /\
  (0 <= sx -> sy < 0 -> r0 <> 0 -> sx / sy = - q0 - 1 /\ sx mod sy = r0 + sy) /\
  (0 <= sx -> sy < 0 -> r0 = 0 -> sx / sy = - q0 /\ sx mod sy = 0) /\
  (sx < 0 -> sy < 0 -> sx / sy = q0 /\ sx mod sy = - r0) /\
  (0 <= sx -> 0 < sy -> sx / sy = q0 /\ sx mod sy = r0).
Proof.
  intros Ea Eb Hnz. cbn zeta. assert (Hb : 0 < b) by lia.
  pose proof (Z.div_mod a b ltac:(lia)) as E. pose proof (Z.mod_pos_bound a b Hb) as M.
  set (q0 := a / b) in *. set (r0 := a mod b) in *. clearbody q0 r0.
  repeat split; intros.
  - symmetry; apply Z.div_unique with (- r0 + sy); [left; lia | nia].
  - symmetry; apply Z.mod_unique with (- q0 - 1); [left; lia | nia].
  - symmetry; apply Z.div_unique with 0; [left; lia | nia].
  - symmetry; apply Z.mod_unique with (- q0); [left; lia | nia].
  - symmetry; apply Z.div_unique with (r0 + sy); [right; lia | nia].
  - symmetry; apply Z.mod_unique with (- q0 - 1); [right; lia | nia].
  - symmetry; apply Z.div_unique with 0; [right; lia | nia].
  - symmetry; apply Z.mod_unique with (- q0); [right; lia | nia].
  - symmetry; apply Z.div_unique with (- r0); [right; lia | nia].
  - symmetry; apply Z.mod_unique with q0; [right; lia | nia].
  - symmetry; apply Z.div_unique with r0; [left; lia | nia].
  - symmetry; apply Z.mod_unique with q0; [left; lia | nia].
Qed.

Theorem idivmod_correct x y : wf x -> wf y ->
  let sx := sval x in let sy := sval y in
  (sy = 0 -> idivmod x y = Err EDivZero /\ bidiv x y = Err EDivZero /\ bmod x y = Err EDivZero) /\
  (sy <> 0 -> exists q r, idivmod x y = Ok (q, r) /\ bidiv x y = Ok q /\ bmod x y = Ok r /\ wf q /\ wf r /\
     uval q = (sx / sy) mod Wfull /\ sval r = sx mod sy /\
     (~ (sx = - (Wfull / 2) /\ sy = -1) -> sval q = sx / sy)).
Proof.
  intros Hx Hy. cbn zeta. fold Half. unfold bmod, bidiv, idivmod.
  pose proof (sval_bounds x Hx) as Bx. pose proof (sval_bounds y Hy) as By.
  destruct Half_facts as (EH & H63). unfold two63 in H63.
  destruct (absval x Hx) as (Wa & Va). destruct (absval y Hy) as (Wb & Vb). cbn zeta in *.
  destruct (udivmod_correct _ _ Wa Wb) as (D0 & D1). rewrite Va, Vb in *.
  set (sx := sval x) in *. set (sy := sval y) in *.
  split.
  - intros Hz. rewrite D0 by lia. auto.
  - intros Hnz. destruct (D1 ltac:(lia)) as (q0 & r0 & E & Wq & Wr & Vq & Vr). rewrite E.
    rewrite !isneg_correct by auto. fold sx sy.
    rewrite (iszero_correct r0 Wr), Vr.
    set (a := Z.abs sx) in *. set (b := Z.abs sy) in *.
    assert (Hb : 0 < b) by lia. assert (Ha : 0 <= a <= Half) by lia.
    pose proof (Z.mod_pos_bound a b Hb) as Hr0.
    assert (Hq0 : 0 <= a / b <= a) by (split; [apply Z.div_pos; lia | apply Z.div_le_upper_bound; nia]).
    destruct (floor_cases sx sy a b eq_refl eq_refl Hnz) as (F1 & F2 & F3 & F4 & F5 & F6). cbn zeta in *.
    assert (Vy : uval y = sy mod Wfull) by (apply sval_mod; auto).
    (* a result (q, r) with the right values mod W finishes the proof *)
    assert (Fin : forall q r, wf q -> wf r -> uval q = (sx / sy) mod Wfull -> uval r = (sx mod sy) mod Wfull ->
              wf q /\ wf r /\ uval q = (sx / sy) mod Wfull /\ sval r = sx mod sy /\
              (~ (sx = - Half /\ sy = -1) -> sval q = sx / sy)).
    { intros q r Wq1 Wr1 Uq Ur. split; [auto|]. split; [auto|]. split; [auto|]. split.
      - apply sval_of; auto. apply floor_mod_range; auto.
      - intros Hno. apply sval_of; auto. apply floor_div_range; auto. clear - H63. lia. }
    set (qv := a / b) in *. set (rv := a mod b) in *. set (fq := sx / sy) in *. set (fr := sx mod sy) in *.
    clearbody qv rv fq fr.
    assert (Vq' : uval q0 = qv mod Wfull) by (rewrite Vq; symmetry; apply Z.mod_small; clear - Hq0 Ha EH H63; lia).
    assert (Vr' : uval r0 = rv mod Wfull) by (rewrite Vr; symmetry; apply Z.mod_small; clear - Hr0 Hb Ha EH H63 By sy; lia).
    destruct (sx <? 0) eqn:S1; destruct (sy <? 0) eqn:S2; cbn [Bool.eqb negb andb].
    + (* both negative *)
      destruct (F5 ltac:(lia) ltac:(lia)) as (Fq & Fr).
      destruct (unm_val r0 _ Wr Vr') as (A & B).
      eexists; eexists; split; [reflexivity|]. split; [reflexivity|]. split; [reflexivity|].
      apply Fin; auto; rewrite ?Fq, ?Fr; auto.
    + (* x negative, y positive *)
      destruct (unm_val q0 _ Wq Vq') as (A1 & B1).
      destruct (rv =? 0) eqn:Ez; cbn [negb].
      * destruct (F2 ltac:(lia) ltac:(lia) ltac:(lia)) as (Fq & Fr).
        eexists; eexists; split; [reflexivity|]. split; [reflexivity|]. split; [reflexivity|].
        apply Fin; auto; rewrite ?Fq, ?Fr; auto. rewrite Vr'. f_equal. lia.
      * destruct (F1 ltac:(lia) ltac:(lia) ltac:(lia)) as (Fq & Fr).
        destruct (dec_val _ _ A1 B1) as (A2 & B2).
        destruct (unm_val r0 _ Wr Vr') as (A3 & B3).
        destruct (add_val _ y _ _ A3 Hy B3 Vy) as (A4 & B4).
        eexists; eexists; split; [reflexivity|]. split; [reflexivity|]. split; [reflexivity|].
        apply Fin; auto; rewrite ?Fq, ?Fr; auto.
    + (* x non-negative, y negative *)
      destruct (unm_val q0 _ Wq Vq') as (A1 & B1).
      destruct (rv =? 0) eqn:Ez; cbn [negb].
      * destruct (F4 ltac:(lia) ltac:(lia) ltac:(lia)) as (Fq & Fr).
        eexists; eexists; split; [reflexivity|]. split; [reflexivity|]. split; [reflexivity|].
        apply Fin; auto; rewrite ?Fq, ?Fr; auto. rewrite Vr'. f_equal. lia.
      * destruct (F3 ltac:(lia) ltac:(lia) ltac:(lia)) as (Fq & Fr).
        destruct (dec_val _ _ A1 B1) as (A2 & B2).
        destruct (add_val r0 y _ _ Wr Hy Vr' Vy) as (A4 & B4).
        eexists; eexists; split; [reflexivity|]. split; [reflexivity|]. split; [reflexivity|].
        apply Fin; auto; rewrite ?Fq, ?Fr; auto.
    + (* both non-negative *)
      destruct (F6 ltac:(lia) ltac:(lia)) as (Fq & Fr).
      eexists; eexists; split; [reflexivity|]. split; [reflexivity|]. split; [reflexivity|].
      apply Fin; auto; rewrite ?Fq, ?Fr; auto.
Qed.

Example idiv_example :
  idivmod (frominteger (-7)) (frominteger 2) = Ok (frominteger (-4), frominteger 1) /\
  idivmod bint_mininteger (frominteger (-1)) = Ok (bint_mininteger, bint_zero).
Proof. repeat split; vm_compute; reflexivity. Qed.
