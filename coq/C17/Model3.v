(* Executable model of bint.lua / bn.lua, part 3: conversion to and from text.
   Strings are lists of byte codes.  The Lua VM library functions the code relies on
   (tostring(integer), string.format('%x'), tonumber(s, base), string.lower, the character
   classes) are modelled here from lstrlib.c / lbaselib.c / lobject.c; they belong to the
   trusted base ("Lua VM semantics"), the correspondence run exercises them too. *)
From C17 Require Export Model2.
Local Open Scope Z_scope.

Definition str := list Z.

(* ---------- Lua VM side ---------- *)
Definition digit_char (d : Z) : Z := if d <? 10 then 48 + d else 87 + d.

(* digits of n >= 0 in the given base, most significant first; None = the fuel ran out (unreachable
   for 64-bit arguments, ProofsText2.nat_digits_spec) *)
Fixpoint digits_fuel (fuel : nat) (base n : Z) (acc : list Z) : option (list Z) :=
  match fuel with
  | O => None
  | S f => if n <? base then Some (n :: acc) else digits_fuel f base (n / base) (n mod base :: acc)
  end.
Definition nat_digits (base n : Z) : option (list Z) := digits_fuel 64 base n [].

(* tostring(n) for a Lua integer: "%lld" *)
Definition lua_tostring_int (n : Z) : option str :=
  if n <? 0 then match nat_digits 10 (- n) with Some ds => Some (45 :: map digit_char ds) | None => None end
  else match nat_digits 10 n with Some ds => Some (map digit_char ds) | None => None end.
(* string.format('%x', n): unsigned reading *)
Definition lua_format_x (n : Z) : option str :=
  match nat_digits 16 (u64 n) with Some ds => Some (map digit_char ds) | None => None end.

Definition is_space (c : Z) : bool := (c =? 32) || ((9 <=? c) && (c <=? 13)).
Definition is_digit (c : Z) : bool := (48 <=? c) && (c <=? 57).
Definition is_upper (c : Z) : bool := (65 <=? c) && (c <=? 90).
Definition is_lower (c : Z) : bool := (97 <=? c) && (c <=? 122).
Definition is_alnum (c : Z) : bool := is_digit c || is_upper c || is_lower c.
Definition to_lower (c : Z) : Z := if is_upper c then c + 32 else c.
Definition to_upper (c : Z) : Z := if is_lower c then c - 32 else c.
Definition char_digit (c : Z) : Z := if is_digit c then c - 48 else to_upper c - 65 + 10.

Fixpoint skip_ws (s : str) : str :=
  match s with
  | c :: r => if is_space c then skip_ws r else s
  | [] => []
  end.

(* the do..while (isalnum) loop of l_str2int; n is a lua_Unsigned, wrap-around *)
Fixpoint str2int_digits (s : str) (base n : Z) : option (Z * str) :=
  match s with
  | c :: r =>
      if is_alnum c then
        let d := char_digit c in
        if base <=? d then None else str2int_digits r base (ladd (lmul n base) d)
      else Some (n, s)
  | [] => Some (n, [])
  end.

(* optional '-' / '+' in front *)
Definition strip_sign (s : str) : bool * str :=
  match s with
  | c :: r => if c =? 45 then (true, r) else if c =? 43 then (false, r) else (false, s)
  | [] => (false, [])
  end.

(* tonumber(s, base) *)
Definition lua_tonumber_base (s : str) (base : Z) : option Z :=
  let s1 := skip_ws s in
  let neg := fst (strip_sign s1) in
  let s2 := snd (strip_sign s1) in
  match s2 with
  | c :: _ =>
      if is_alnum c then
        match str2int_digits s2 base 0 with
        | None => None
        | Some (n, rest) =>
            match skip_ws rest with
            | [] => Some (if neg then lneg n else n)
            | _ => None
            end
        end
      else None
  | [] => None
  end.

(* ---------- tobase ---------- *)
Definition letter (d : Z) : Z := nth (Z.to_nat d) base_letters 0.

(* repeat step = step + 1; pow = pow * base until pow >= limit *)
Fixpoint basepow_loop (fuel : nat) (base limit : Z) (step : nat) (pow : Z) : option (nat * Z) :=
  match fuel with
  | O => None
  | S f =>
      let step' := S step in
      let pow' := lmul pow base in
      if limit <=? pow' then Some (step', pow') else basepow_loop f base limit step' pow'
  end.

(* single word division of x[size..1] by basepow; tracks the first non-zero quotient limb *)
Fixpoint tb_div (rx : list Z) (basepow carry xd : Z) (xiszero : bool) (size : nat)
  : option (list Z * Z * bool * nat) :=
  match rx with
  | [] => Some ([], xd, xiszero, size)
  | w :: r =>
      let i := S (length r) in
      let c := lbor carry w in
      match lidiv c basepow, lmod c basepow with
      | Some d, Some m =>
          let upd := xiszero && negb (d =? 0) in
          match tb_div r basepow (lshl m BINT_WORDBITS) m (if upd then false else xiszero) (if upd then i else size) with
          | Some (qs, xd', xz', sz') => Some (d :: qs, xd', xz', sz')
          | None => None
          end
      | _, _ => None
      end
  end.

(* for _=1,step: xd, d = xd // base, xd % base; stop on leading zeros; insert at the front *)
Fixpoint tb_digits (n : nat) (base xd : Z) (xiszero : bool) (acc : list Z) : option (list Z) :=
  match n with
  | O => Some acc
  | S n' =>
      match lidiv xd base, lmod xd base with
      | Some q, Some d =>
          if xiszero && (q =? 0) && (d =? 0) then Some acc
          else tb_digits n' base q xiszero (d :: acc)
      | _, _ => None
      end
  end.

Fixpoint tb_outer (fuel : nat) (x : bint) (size : nat) (basepow : Z) (step : nat) (base : Z) (acc : list Z)
  : res (list Z) :=
  match fuel with
  | O => Err EFuel
  | S f =>
      match tb_div (rev (firstn size x)) basepow 0 0 true size with
      | None => Err EDivZero
      | Some (qs, xd, xz, sz) =>
          let x' := rev qs ++ skipn size x in
          match tb_digits step base xd xz acc with
          | None => Err EDivZero
          | Some acc' => if xz then Ok acc' else tb_outer f x' sz basepow step base acc'
          end
      end
  end.

Definition tobase (x : bint) (base : Z) (unsigned_opt : option bool) : res str :=
  if negb ((2 <=? base) && (base <=? 36)) then Err ENone else
  let unsigned := match unsigned_opt with Some u => u | None => negb (base =? 10) end in
  let isxneg := isneg x in
  let small :=
    (((base =? 10) && negb unsigned) || ((base =? 16) && unsigned && negb isxneg))
    && ble x (frominteger maxint) && ble (frominteger minint) x in
  if small && (base =? 10) then match lua_tostring_int (tointeger x) with Some t => Ok t | None => Err EFuel end
  else if small && unsigned then match lua_format_x (tointeger x) with Some t => Ok t | None => Err EFuel end
  else
    let neg := negb unsigned && isxneg in
    let x := if neg then babs x else x in
    if biszero x then Ok [48] else
    match lidiv (lsub BINT_WORDMSB 1) base with
    | None => Err EDivZero
    | Some limit =>
        match basepow_loop 64 base limit 0 1 with
        | None => Err EFuel
        | Some (step, basepow) =>
            match tb_outer (S (Z.to_nat BINT_BITS)) x BINT_SIZE basepow step base [] with
            | Err e => Err e
            | Ok ds => Ok ((if neg then [45] else []) ++ map letter ds)
            end
        end
    end.

(* ---------- frombase ---------- *)
(* local function ipow(y, x, n) on Lua integers *)
Fixpoint lua_ipow (fuel : nat) (y x n : Z) : option Z :=
  match fuel with
  | O => None
  | S f =>
      if n =? 1 then Some (lmul y x)
      else if lband n 1 =? 0 then lua_ipow f y (lmul x x) (n / 2)
      else lua_ipow f (lmul x y) (lmul x x) ((n - 1) / 2)
  end.

(* s:lower():match('^([+-]?)(%w+)$'): the captured sign (0 for none) and the alphanumeric rest *)
Definition split_sign (s : str) : option (Z * str) :=
  match s with
  | [] => None
  | c :: r =>
      let signed := (c =? 45) || (c =? 43) in
      let rest := if signed then r else s in
      match rest with
      | [] => None
      | _ => if forallb is_alnum rest then Some (if signed then c else 0, rest) else None
      end
  end.

Fixpoint fb_loop (fuel : nat) (int : str) (first : bool) (step : nat) (base : Z) (n : bint) : res bint :=
  match fuel with
  | O => Err EFuel
  | S f =>
      match int with
      | [] => Ok n
      | _ =>
          let part := firstn step int in
          match lua_tonumber_base part base with
          | None => Err ENone
          | Some d =>
              match (if first then Some 1 else lua_ipow 64 1 base (Z.of_nat (length part))) with
              | None => Err EFuel
              | Some p =>
                  let n1 := if first then n else bmul n (frominteger p) in
                  let n2 := if d =? 0 then n1 else badd n1 (frominteger d) in
                  fb_loop f (skipn step int) false step base n2
              end
          end
      end
  end.

(* the guard of the fast path is scraped (Gen.frombase_short_guarded): true = the repaired code
     if #s < step and s:find('^[+-]?%w+$') then return bint_frominteger(tonumber(s, base)) end
   false = the code before the repair (every short string went to tonumber, which skips surrounding white space) *)
Definition shape_ok (s : str) : bool := match split_sign s with Some _ => true | None => false end.
Definition frombase_pol (guarded : bool) (s : str) (base : Z) : res bint :=
  if negb ((2 <=? base) && (base <=? 36)) then Err ENone else
  match lidiv maxint base with
  | None => Err EDivZero
  | Some limit =>
      match basepow_loop 64 base limit 0 1 with
      | None => Err EFuel
      | Some (step, _) =>
          if (length s <? step)%nat && (if guarded then shape_ok s else true) then
            match lua_tonumber_base s base with
            | None => Err ENone
            | Some v => Ok (frominteger v)
            end
          else
            match split_sign (map to_lower s) with
            | None => Err ENone
            | Some (sign, int) =>
                match fb_loop (S (length int)) int true step base bint_zero with
                | Err e => Err e
                | Ok n => Ok (if sign =? 45 then bunm n else n)
                end
            end
      end
  end.

Definition frombase := frombase_pol frombase_short_guarded.

(* ---------- bn.lua ---------- *)
(* local from(base=2, ..., int): n = (n * base) + d per digit, then the sign *)
Fixpoint from_digits (int : str) (base : Z) (n : bint) : res bint :=
  match int with
  | [] => Ok n
  | c :: r =>
      match lua_tonumber_base [c] base with
      | None => Err ENil
      | Some d => from_digits r base (badd (bmul n (frominteger base)) (frominteger d))
      end
  end.
Definition bn_from_bin (neg : bool) (int : str) : res bint :=
  match from_digits int 2 bint_zero with
  | Err e => Err e
  | Ok n => Ok (if neg then bunm n else n)
  end.
(* hexadecimal without fraction/exponent: bn.frombase(int, 16), then the sign *)
Definition bn_from_hex (neg : bool) (int : str) : res bint :=
  match frombase int 16 with
  | Err e => Err e
  | Ok n => Ok (if neg then bunm n else n)
  end.
Definition with_bits (v : bint) (bits : option Z) : res bint :=
  match bits with
  | None => Ok v
  | Some b => match bwrap v b with Some w => Ok w | None => Err EFuel end
  end.
Definition tohexint (v : bint) (bits : option Z) : res str :=
  match with_bits v bits with Err e => Err e | Ok w => tobase w 16 (Some true) end.
Definition tobinint (v : bint) (bits : option Z) : res str :=
  match with_bits v bits with Err e => Err e | Ok w => tobase w 2 (Some true) end.
Definition todecint (v : bint) : res str := tobase v 10 (Some false).

(* decimal integer literal '^[+-]?[0-9]+$' (bn.from, decimal branch, after
   "fix: decimal integer literals that do not fit the compiler's big numbers are read as floats"):
     local n = bn.parse(v)                                   -- bint.fromstring -> frombase(v, 10)
     local digits = bn.isbint(n) and v:match('^0*(%d+)$')    -- only unsigned digit strings match
     if digits and bn.todecint(n) ~= digits then n = tonumber(v) end   -- a float
   The float value itself is not modelled (C14): LFloat stands for "read as a float". *)
Inductive lit := LInt (x : bint) | LFloat.

(* the capture of '^0*(%d+)$' on a digit string: leading zeros go, one digit stays *)
Fixpoint strip0 (s : str) : str :=
  match s with
  | c :: r => match r with [] => s | _ => if c =? 48 then strip0 r else s end
  | [] => []
  end.
Definition dec_digits (s : str) : option str :=
  match s with [] => None | _ => if forallb is_digit s then Some (strip0 s) else None end.

Fixpoint str_eqb (a b : str) : bool :=
  match a, b with
  | [], [] => true
  | x :: a', y :: b' => (x =? y) && str_eqb a' b'
  | _, _ => false
  end.

(* the policy is scraped (Gen.dec_literal_checked): true = the repaired reader with the test, false = the reader
   before the repair, which kept the parsed value (reduced mod 2^BITS) *)
Definition bn_from_dec_pol (checked : bool) (s : str) : res lit :=
  match frombase s 10 with
  | Err e => Err e
  | Ok n =>
      if checked then
        match dec_digits s with
        | None => Ok (LInt n)
        | Some digits =>
            match todecint n with
            | Err e => Err e
            | Ok t => if str_eqb t digits then Ok (LInt n) else Ok LFloat
            end
        end
      else Ok (LInt n)
  end.
Definition bn_from_dec := bn_from_dec_pol dec_literal_checked.
