(* sudivmod: division by a single word (also the chunk division of tobase) *)
From C17 Require Import Model Model2 Proofs ProofsLib ProofsArith ProofsBits ProofsConv ProofsShift ProofsMisc.
From Coq Require Import ZifyBool.
Local Open Scope Z_scope.
Ltac Zify.zify_post_hook ::= Z.div_mod_to_equations.

(* ---- division by a single word ---- *)
Lemma sudiv_loop_spec deno : 1 <= deno < Wd / 2 ->
  forall rn rem, Forall limb_ok rn -> 0 <= rem < deno ->
  exists qs rm, sudiv_loop rn deno (rem * Wd) rem = Some (qs, rm) /\
    Forall limb_ok qs /\ length qs = length rn /\
    let N := rem * Wd ^ Z.of_nat (length rn) + uval (rev rn) in
    uval (rev qs) = N / deno /\ rm = N mod deno.
Proof.
  intros Hd. destruct wordmsb_eq as (_ & EW & _). pose proof Wd_le as HWW. pose proof Wd_pos.
  induction rn as [|w r IH]; intros rem Hrn Hrem; cbn [sudiv_loop].
  - exists [], rem. cbn [length rev uval]. change (Z.of_nat 0) with 0. rewrite Z.pow_0_r, Z.mul_1_r, Z.add_0_r.
    split; [reflexivity|]. split; [constructor|]. split; [reflexivity|]. cbn zeta.
    rewrite Z.div_small, Z.mod_small by lia. auto.
  - inversion Hrn as [|? ? Hw Hr]; subst. unfold limb_ok in Hw.
    assert (Ec : lbor (rem * Wd) w = rem * Wd + w).
    { unfold lbor. rewrite Z.lor_comm, (Z.mul_comm rem), Z.add_comm. unfold Wd. apply lor_disjoint_add; [pose proof wb_range; lia | exact Hw]. }
    rewrite Ec. set (c := rem * Wd + w).
    assert (Hc : 0 <= c < deno * Wd) by (subst c; nia).
    assert (Hc63 : deno * Wd <= two63) by (unfold two63, two64 in *; nia).
    unfold lidiv, lmod. destruct (deno =? 0) eqn:E0; [lia|].
    assert (Hq : 0 <= c / deno < Wd) by (split; [apply Z.div_pos; lia | apply Z.div_lt_upper_bound; lia]).
    pose proof (Z.mod_pos_bound c deno ltac:(lia)) as Hm.
    rewrite (wrap64_small (c / deno)) by (unfold two63 in *; nia).
    assert (El : lshl (c mod deno) BINT_WORDBITS = c mod deno * Wd).
    { apply lshl_small; [pose proof wb_range; lia|]. fold Wd. unf64. nia. }
    rewrite El.
    destruct (IH (c mod deno) Hr Hm) as (qs & rm & E1 & F1 & L1 & V1). cbn zeta in V1. destruct V1 as (V1 & V2).
    rewrite E1. exists (c / deno :: qs), rm.
    split; [reflexivity|]. split; [constructor; [unfold limb_ok; lia | exact F1]|]. split; [cbn [length]; congruence|].
    cbn zeta. cbn [rev length]. rewrite !uval_snoc, !rev_length, L1, Wdpow_S, V1.
    set (P := Wd ^ Z.of_nat (length r)) in *. set (u := uval (rev r)) in *.
    pose proof (Wdpow_pos (length r)) as HP. fold P in HP.
    pose proof (Z.div_mod c deno ltac:(lia)) as Hdm.
    assert (EN : rem * (Wd * P) + (u + P * w) = (c mod deno * P + u) + (c / deno * P) * deno) by (subst c; nia).
    rewrite EN. rewrite Z.div_add, Z.mod_add by lia. split; [ring | exact V2].
Qed.

Lemma sudivmod_spec x deno : wf x -> 1 <= deno < Wd / 2 ->
  exists q rm, sudivmod x deno = Some (q, rm) /\ wf q /\ uval q = uval x / deno /\ rm = uval x mod deno.
Proof.
  intros [L F] Hd. unfold sudivmod.
  destruct (sudiv_loop_spec deno Hd (rev x) 0 ltac:(apply Forall_rev; auto) ltac:(lia)) as (qs & rm & E & F1 & L1 & V).
  cbn zeta in V. rewrite Z.mul_0_l in *. rewrite E. rewrite rev_involutive, Z.add_0_l in V. destruct V as (V1 & V2).
  exists (rev qs), rm. split; [reflexivity|]. split; [split; [rewrite rev_length, L1, rev_length; auto | apply Forall_rev; auto]|].
  auto.
Qed.


Lemma small_firstn x n : Forall limb_ok x -> (n <= length x)%nat -> uval x < Wd ^ Z.of_nat n ->
  uval (firstn n x) = uval x /\ uval (skipn n x) = 0.
Proof.
  intros F Hn Hlt. destruct (uval_firstn_mod n x F Hn) as (A & B). pose proof (uval_nonneg x F).
  rewrite A, B. rewrite Z.mod_small, Z.div_small by lia. auto.
Qed.

