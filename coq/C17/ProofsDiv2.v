(* signed division: tdivmod (truncating), idivmod / __idiv / __mod (floor) *)
From C17 Require Import Model Model2 Proofs ProofsLib ProofsArith ProofsBits ProofsConv ProofsShift ProofsMisc ProofsDiv.
From Coq Require Import ZifyBool.
Local Open Scope Z_scope.
Ltac Zify.zify_post_hook ::= Z.div_mod_to_equations.

(* reading back a result known modulo W *)
Lemma sval_of x v : wf x -> uval x = v mod Wfull -> - Half <= v < Half -> sval x = v.
Proof. intros. apply sval_of_mod; auto. Qed.

Lemma unm_val x v : wf x -> uval x = v mod Wfull -> wf (bunm x) /\ uval (bunm x) = (- v) mod Wfull.
Proof.
  intros Hx E. destruct (unm_correct x Hx) as (A & B). split; [exact A|]. rewrite B, E.
  pose proof Wfull_pos. rewrite (Z.div_mod v Wfull) at 2 by lia.
  replace (- (Wfull * (v / Wfull) + v mod Wfull)) with (- (v mod Wfull) + (- (v / Wfull)) * Wfull) by ring.
  rewrite Z.mod_add by lia. reflexivity.
Qed.
Lemma dec_val x v : wf x -> uval x = v mod Wfull -> wf (bdec x) /\ uval (bdec x) = (v - 1) mod Wfull.
Proof.
  intros Hx E. destruct (dec_correct x Hx) as (A & B). split; [exact A|]. rewrite B, E.
  pose proof Wfull_pos. rewrite Zminus_mod_idemp_l. reflexivity.
Qed.
Lemma add_val x y u v : wf x -> wf y -> uval x = u mod Wfull -> uval y = v mod Wfull ->
  wf (badd x y) /\ uval (badd x y) = (u + v) mod Wfull.
Proof.
  intros Hx Hy E1 E2. destruct (add_correct x y Hx Hy) as (A & B). split; [exact A|]. rewrite B, E1, E2.
  pose proof Wfull_pos. rewrite <- Z.add_mod by lia. reflexivity.
Qed.
Lemma self_val x : wf x -> uval x = uval x mod Wfull.
Proof. intros Hx. pose proof (wf_range x Hx). symmetry. apply Z.mod_small. lia. Qed.

Lemma beq_min x : wf x -> beq x bint_mininteger = (sval x =? - Half).
Proof.
  intros Hx. destruct mininteger_correct as (Wm & Um & Sm). fold Half in Um, Sm.
  pose proof (eq_correct x bint_mininteger Hx Wm) as E. rewrite Um in E.
  pose proof (wf_range x Hx). destruct Half_facts as (EH & H63). unfold sval. fold Half.
  destruct (beq x bint_mininteger) eqn:B.
  - assert (uval x = Half) by (apply E; reflexivity). destruct (uval x <? Half) eqn:E2; unfold two63 in *; lia.
  - assert (uval x <> Half) by (intro C; apply E in C; congruence). destruct (uval x <? Half) eqn:E2; unfold two63 in *; lia.
Qed.

(* ---- tdivmod ---- *)
Theorem tdivmod_correct x y : wf x -> wf y ->
  let sx := sval x in let sy := sval y in
  (sx = - (Wfull / 2) /\ sy = -1 -> tdivmod x y = Err EDivOverflow) /\
  (~ (sx = - (Wfull / 2) /\ sy = -1) -> sy = 0 -> tdivmod x y = Err EDivZero) /\
  (~ (sx = - (Wfull / 2) /\ sy = -1) -> sy <> 0 ->
     exists q r, tdivmod x y = Ok (q, r) /\ wf q /\ wf r /\ sval q = Z.quot sx sy /\ sval r = Z.rem sx sy).
Proof.
  intros Hx Hy. cbn zeta. fold Half. unfold tdivmod.
  rewrite beq_min by auto. destruct (isminusone_correct y Hy) as (_ & ->).
  pose proof (sval_bounds x Hx) as Bx. pose proof (sval_bounds y Hy) as By.
  destruct Half_facts as (EH & H63). unfold two63 in H63.
  set (sx := sval x) in *. set (sy := sval y) in *.
  destruct ((sx =? - Half) && (sy =? -1)) eqn:Eov.
  { split; [reflexivity|]. split; intros; lia. }
  split; [intros; lia|].
  destruct (absval x Hx) as (Wa & Va). destruct (absval y Hy) as (Wb & Vb). cbn zeta in *. fold sx in Va. fold sy in Vb.
  unfold babs.
  destruct (udivmod_correct _ _ Wa Wb) as (D0 & D1). rewrite Va, Vb in *.
  split.
  - intros _ Hz. rewrite D0 by lia. reflexivity.
  - intros Hno Hnz. destruct (D1 ltac:(lia)) as (q0 & r0 & E & Wq & Wr & Vq & Vr). rewrite E.
    set (a := Z.abs sx) in *. set (b := Z.abs sy) in *.
    assert (Hb : 0 < b) by lia. assert (Ha : 0 <= a <= Half) by lia.
    pose proof (Z.mod_pos_bound a b Hb) as Hr0.
    assert (Hq0 : 0 <= a / b <= a) by (split; [apply Z.div_pos; lia | apply Z.div_le_upper_bound; nia]).
    eexists; eexists; split; [reflexivity|].
    (* quotient *)
    assert (Q : wf (if xorb (sx <? 0) (sy <? 0) then bunm q0 else q0) /\
                sval (if xorb (sx <? 0) (sy <? 0) then bunm q0 else q0) = Z.quot sx sy).
    { assert (Hqs : (sx <? 0) = (sy <? 0) -> a / b < Half).
      { intros Hs. destruct (Z.eq_dec a Half) as [Ea|]; [|lia].
        assert (2 <= b) by lia. assert (a / b < a); [|lia]. apply Z.div_lt_upper_bound; nia. }
      destruct (sx <? 0) eqn:S1; destruct (sy <? 0) eqn:S2; cbn [xorb].
      - split; [exact Wq|]. replace sx with (- a) by lia. replace sy with (- b) by lia.
        rewrite Z.quot_opp_opp, Z.quot_div_nonneg by lia.
        apply sval_of; auto; [rewrite Vq; symmetry; apply Z.mod_small; lia|]; specialize (Hqs eq_refl); lia.
      - destruct (unm_val q0 (a / b) Wq ltac:(rewrite Vq; symmetry; apply Z.mod_small; lia)) as (A & B). split; [exact A|].
        replace sx with (- a) by lia. replace sy with b by lia.
        rewrite Z.quot_opp_l, Z.quot_div_nonneg by lia. apply sval_of; auto. lia.
      - destruct (unm_val q0 (a / b) Wq ltac:(rewrite Vq; symmetry; apply Z.mod_small; lia)) as (A & B). split; [exact A|].
        replace sx with a by lia. replace sy with (- b) by lia.
        rewrite Z.quot_opp_r, Z.quot_div_nonneg by lia. apply sval_of; auto. lia.
      - split; [exact Wq|]. replace sx with a by lia. replace sy with b by lia.
        rewrite Z.quot_div_nonneg by lia.
        apply sval_of; auto; [rewrite Vq; symmetry; apply Z.mod_small; lia|]; specialize (Hqs eq_refl); lia. }
    assert (R : wf (if sx <? 0 then bunm r0 else r0) /\ sval (if sx <? 0 then bunm r0 else r0) = Z.rem sx sy).
    { destruct (sx <? 0) eqn:S1.
      - destruct (unm_val r0 (a mod b) Wr ltac:(rewrite Vr; symmetry; apply Z.mod_small; lia)) as (A & B). split; [exact A|].
        replace sx with (- a) by lia.
        assert (Er : Z.rem (- a) sy = - (a mod b)).
        { destruct (sy <? 0) eqn:S2.
          - replace sy with (- b) by lia. rewrite Z.rem_opp_opp, Z.rem_mod_nonneg by lia. reflexivity.
          - replace sy with b by lia. rewrite Z.rem_opp_l, Z.rem_mod_nonneg by lia. reflexivity. }
        rewrite Er. apply sval_of; auto. lia.
      - split; [exact Wr|]. replace sx with a by lia.
        assert (Er : Z.rem a sy = a mod b).
        { destruct (sy <? 0) eqn:S2.
          - replace sy with (- b) by lia. rewrite Z.rem_opp_r, Z.rem_mod_nonneg by lia. reflexivity.
          - replace sy with b by lia. rewrite Z.rem_mod_nonneg by lia. reflexivity. }
        rewrite Er. apply sval_of; auto; [rewrite Vr; symmetry; apply Z.mod_small; lia|]; lia. }
    destruct Q as (Q1 & Q2). destruct R as (R1 & R2). rewrite ?isneg_correct by auto. fold sx sy. auto.
Qed.

(* ---- idivmod / __idiv / __mod ---- *)
Lemma floor_div_range H s t : 0 < H -> - H <= s < H -> - H <= t < H -> t <> 0 -> ~ (s = - H /\ t = -1) ->
  - H <= s / t < H.
Proof.
  intros HH Hs Ht Hnz Hno. pose proof (Z.div_mod s t Hnz) as E.
  destruct (Z_lt_le_dec 0 t) as [L|L].
  - pose proof (Z.mod_pos_bound s t L) as M. set (q := s / t) in *. set (r := s mod t) in *. clearbody q r.
    split.
    + destruct (Z_le_dec (- H) q); [lia|exfalso]. assert (t * (q + 1) <= t * (- H)) by (apply Z.mul_le_mono_nonneg_l; lia). nia.
    + destruct (Z_lt_dec q H); [lia|exfalso]. assert (t * H <= t * q) by (apply Z.mul_le_mono_nonneg_l; lia). nia.
  - pose proof (Z.mod_neg_bound s t ltac:(lia)) as M. set (q := s / t) in *. set (r := s mod t) in *. clearbody q r.
    split.
    + destruct (Z_le_dec (- H) q); [lia|exfalso]. assert (t * (- H) <= t * (q + 1)) by (apply Z.mul_le_mono_nonpos_l; lia). nia.
    + destruct (Z_lt_dec q H); [lia|exfalso]. assert (t * q <= t * H) by (apply Z.mul_le_mono_nonpos_l; lia).
      destruct (Z.eq_dec t (-1)); [subst t; lia|]. assert (t <= -2) by lia.
      assert (t * H <= -2 * H) by nia. nia.
Qed.

Lemma floor_mod_range H s t : t <> 0 -> - H <= t < H -> - H <= s mod t < H.
Proof.
  intros Hnz Ht.
  destruct (Z_lt_le_dec 0 t) as [L|L]; [pose proof (Z.mod_pos_bound s t L) | pose proof (Z.mod_neg_bound s t ltac:(lia))];
    set (m := s mod t) in *; clearbody m; lia.
Qed.

(* the common computation of idivmod and __idiv, as a relation between the inputs and the
   floor quotient / remainder *)
Lemma floor_cases sx sy a b : a = Z.abs sx -> b = Z.abs sy -> sy <> 0 ->
  let q0 := a / b in let r0 := a mod b in
  (sx < 0 -> 0 < sy -> r0 <> 0 -> sx / sy = - q0 - 1 /\ sx mod sy = - r0 + sy) /\
  (sx < 0 -> 0 < sy -> r0 = 0 -> sx / sy = - q0 /\ sx mod sy = 0) /\
  (0 <= sx -> sy < 0 -> r0 <> 0 -> sx / sy = - q0 - 1 /\ sx mod sy = r0 + sy) /\
  (0 <= sx -> sy < 0 -> r0 = 0 -> sx / sy = - q0 /\ sx mod sy = 0) /\
  (sx < 0 -> sy < 0 -> sx / sy = q0 /\ sx mod sy = - r0) /\
  (0 <= sx -> 0 < sy -> sx / sy = q0 /\ sx mod sy = r0).
Proof.
  intros Ea Eb Hnz. cbn zeta. assert (Hb : 0 < b) by lia.
  pose proof (Z.div_mod a b ltac:(lia)) as E. pose proof (Z.mod_pos_bound a b Hb) as M.
  set (q0 := a / b) in *. set (r0 := a mod b) in *. clearbody q0 r0.
  repeat split; intros.
  - symmetry; apply Z.div_unique with (- r0 + sy); [left; lia | nia].
  - symmetry; apply Z.mod_unique with (- q0 - 1); [left; lia | nia].
  - symmetry; apply Z.div_unique with 0; [left; lia | nia].
  - symmetry; apply Z.mod_unique with (- q0); [left; lia | nia].
  - symmetry; apply Z.div_unique with (r0 + sy); [right; lia | nia].
  - symmetry; apply Z.mod_unique with (- q0 - 1); [right; lia | nia].
  - symmetry; apply Z.div_unique with 0; [right; lia | nia].
  - symmetry; apply Z.mod_unique with (- q0); [right; lia | nia].
  - symmetry; apply Z.div_unique with (- r0); [right; lia | nia].
  - symmetry; apply Z.mod_unique with q0; [right; lia | nia].
  - symmetry; apply Z.div_unique with r0; [left; lia | nia].
  - symmetry; apply Z.mod_unique with q0; [left; lia | nia].
Qed.

Theorem idivmod_correct x y : wf x -> wf y ->
  let sx := sval x in let sy := sval y in
  (sy = 0 -> idivmod x y = Err EDivZero /\ bidiv x y = Err EDivZero /\ bmod x y = Err EDivZero) /\
  (sy <> 0 -> exists q r, idivmod x y = Ok (q, r) /\ bidiv x y = Ok q /\ bmod x y = Ok r /\ wf q /\ wf r /\
     uval q = (sx / sy) mod Wfull /\ sval r = sx mod sy /\
     (~ (sx = - (Wfull / 2) /\ sy = -1) -> sval q = sx / sy)).
Proof.
  intros Hx Hy. cbn zeta. fold Half. unfold bmod, bidiv, idivmod.
  pose proof (sval_bounds x Hx) as Bx. pose proof (sval_bounds y Hy) as By.
  destruct Half_facts as (EH & H63). unfold two63 in H63.
  destruct (absval x Hx) as (Wa & Va). destruct (absval y Hy) as (Wb & Vb). cbn zeta in *.
  destruct (udivmod_correct _ _ Wa Wb) as (D0 & D1). rewrite Va, Vb in *.
  set (sx := sval x) in *. set (sy := sval y) in *.
  split.
  - intros Hz. rewrite D0 by lia. auto.
  - intros Hnz. destruct (D1 ltac:(lia)) as (q0 & r0 & E & Wq & Wr & Vq & Vr). rewrite E.
    rewrite !isneg_correct by auto. fold sx sy.
    rewrite (iszero_correct r0 Wr), Vr.
    set (a := Z.abs sx) in *. set (b := Z.abs sy) in *.
    assert (Hb : 0 < b) by lia. assert (Ha : 0 <= a <= Half) by lia.
    pose proof (Z.mod_pos_bound a b Hb) as Hr0.
    assert (Hq0 : 0 <= a / b <= a) by (split; [apply Z.div_pos; lia | apply Z.div_le_upper_bound; nia]).
    destruct (floor_cases sx sy a b eq_refl eq_refl Hnz) as (F1 & F2 & F3 & F4 & F5 & F6). cbn zeta in *.
    assert (Vq' : uval q0 = (a / b) mod Wfull) by (rewrite Vq; symmetry; apply Z.mod_small; lia).
    assert (Vr' : uval r0 = (a mod b) mod Wfull) by (rewrite Vr; symmetry; apply Z.mod_small; lia).
    assert (Vy : uval y = sy mod Wfull) by (apply sval_mod; auto).
    (* a result (q, r) with the right values mod W finishes the proof *)
    assert (Fin : forall q r, wf q -> wf r -> uval q = (sx / sy) mod Wfull -> uval r = (sx mod sy) mod Wfull ->
              wf q /\ wf r /\ uval q = (sx / sy) mod Wfull /\ sval r = sx mod sy /\
              (~ (sx = - Half /\ sy = -1) -> sval q = sx / sy)).
    { intros q r Wq1 Wr1 Uq Ur. split; [auto|]. split; [auto|]. split; [auto|]. split.
      - apply sval_of; auto. apply floor_mod_range; auto.
      - intros Hno. apply sval_of; auto. apply floor_div_range; auto. clear - H63. lia. }
    set (qv := a / b) in *. set (rv := a mod b) in *. set (fq := sx / sy) in *. set (fr := sx mod sy) in *.
    clearbody qv rv fq fr.
    destruct (sx <? 0) eqn:S1; destruct (sy <? 0) eqn:S2; cbn [Bool.eqb negb andb].
    + (* both negative *)
      destruct (F5 ltac:(lia) ltac:(lia)) as (Fq & Fr).
      destruct (unm_val r0 _ Wr Vr') as (A & B).
      eexists; eexists; split; [reflexivity|]. split; [reflexivity|]. split; [reflexivity|].
      apply Fin; auto; rewrite ?Fq, ?Fr; auto.
    + (* x negative, y positive *)
      destruct (unm_val q0 _ Wq Vq') as (A1 & B1).
      destruct (rv =? 0) eqn:Ez; cbn [negb].
      * destruct (F2 ltac:(lia) ltac:(lia) ltac:(lia)) as (Fq & Fr).
        eexists; eexists; split; [reflexivity|]. split; [reflexivity|]. split; [reflexivity|].
        apply Fin; auto; rewrite ?Fq, ?Fr; auto. rewrite Vr'. f_equal. lia.
      * destruct (F1 ltac:(lia) ltac:(lia) ltac:(lia)) as (Fq & Fr).
        destruct (dec_val _ _ A1 B1) as (A2 & B2).
        destruct (unm_val r0 _ Wr Vr') as (A3 & B3).
        destruct (add_val _ y _ _ A3 Hy B3 Vy) as (A4 & B4).
        eexists; eexists; split; [reflexivity|]. split; [reflexivity|]. split; [reflexivity|].
        apply Fin; auto; rewrite ?Fq, ?Fr; auto.
    + (* x non-negative, y negative *)
      destruct (unm_val q0 _ Wq Vq') as (A1 & B1).
      destruct (rv =? 0) eqn:Ez; cbn [negb].
      * destruct (F4 ltac:(lia) ltac:(lia) ltac:(lia)) as (Fq & Fr).
        eexists; eexists; split; [reflexivity|]. split; [reflexivity|]. split; [reflexivity|].
        apply Fin; auto; rewrite ?Fq, ?Fr; auto. rewrite Vr'. f_equal. lia.
      * destruct (F3 ltac:(lia) ltac:(lia) ltac:(lia)) as (Fq & Fr).
        destruct (dec_val _ _ A1 B1) as (A2 & B2).
        destruct (add_val r0 y _ _ Wr Hy Vr' Vy) as (A4 & B4).
        eexists; eexists; split; [reflexivity|]. split; [reflexivity|]. split; [reflexivity|].
        apply Fin; auto; rewrite ?Fq, ?Fr; auto.
    + (* both non-negative *)
      destruct (F6 ltac:(lia) ltac:(lia)) as (Fq & Fr).
      eexists; eexists; split; [reflexivity|]. split; [reflexivity|]. split; [reflexivity|].
      apply Fin; auto; rewrite ?Fq, ?Fr; auto.
Qed.

Example sdiv_example :
  idivmod (frominteger (-7)) (frominteger 2) = Ok (frominteger (-4), frominteger 1) /\
  tdivmod (frominteger (-7)) (frominteger 2) = Ok (frominteger (-3), frominteger (-1)) /\
  tdivmod bint_mininteger (frominteger (-1)) = Err EDivOverflow /\
  idivmod bint_mininteger (frominteger (-1)) = Ok (bint_mininteger, bint_zero).
Proof. repeat split; vm_compute; reflexivity. Qed.
