(* signed division: tdivmod (truncating) *)
From C17 Require Import Model Model2 Proofs ProofsLib ProofsArith ProofsBits ProofsConv ProofsShift ProofsMisc ProofsSigned ProofsDiv.
From Coq Require Import ZifyBool.
Local Open Scope Z_scope.
Ltac Zify.zify_post_hook ::= Z.div_mod_to_equations.

(* ---- tdivmod ---- *)
Theorem tdivmod_correct x y : wf x -> wf y ->
  let sx := sval x in let sy := sval y in
  (sx = - (Wfull / 2) /\ sy = -1 -> tdivmod x y = Err EDivOverflow) /\
  (~ (sx = - (Wfull / 2) /\ sy = -1) -> sy = 0 -> tdivmod x y = Err EDivZero) /\
  (~ (sx = - (Wfull / 2) /\ sy = -1) -> sy <> 0 ->
     exists q r, tdivmod x y = Ok (q, r) /\ wf q /\ wf r /\ sval q = Z.quot sx sy /\ sval r = Z.rem sx sy).
Proof.
  intros Hx Hy. cbn zeta. fold Half. unfold tdivmod.
  rewrite beq_min by auto. destruct (isminusone_correct y Hy) as (_ & ->).
  pose proof (sval_bounds x Hx) as Bx. pose proof (sval_bounds y Hy) as By.
  destruct Half_facts as (EH & H63). unfold two63 in H63.
  set (sx := sval x) in *. set (sy := sval y) in *.
  destruct ((sx =? - Half) && (sy =? -1)) eqn:Eov.
  { split; [reflexivity|]. split; intros; lia. }
  split; [intros; lia|].
  destruct (absval x Hx) as (Wa & Va). destruct (absval y Hy) as (Wb & Vb). cbn zeta in *. fold sx in Va. fold sy in Vb.
  unfold babs.
  destruct (udivmod_correct _ _ Wa Wb) as (D0 & D1). rewrite Va, Vb in *.
  split.
  - intros _ Hz. rewrite D0 by lia. reflexivity.
  - intros Hno Hnz. destruct (D1 ltac:(lia)) as (q0 & r0 & E & Wq & Wr & Vq & Vr). rewrite E.
    set (a := Z.abs sx) in *. set (b := Z.abs sy) in *.
    assert (Hb : 0 < b) by lia. assert (Ha : 0 <= a <= Half) by lia.
    pose proof (Z.mod_pos_bound a b Hb) as Hr0.
    assert (Hq0 : 0 <= a / b <= a) by (split; [apply Z.div_pos; lia | apply Z.div_le_upper_bound; nia]).
    eexists; eexists; split; [reflexivity|].
    (* quotient *)
    assert (Q : wf (if xorb (sx <? 0) (sy <? 0) then bunm q0 else q0) /\
                sval (if xorb (sx <? 0) (sy <? 0) then bunm q0 else q0) = Z.quot sx sy).
    { assert (Hqs : (sx <? 0) = (sy <? 0) -> a / b < Half).
      { intros Hs. destruct (Z.eq_dec a Half) as [Ea|]; [|lia].
        assert (2 <= b) by lia. assert (a / b < a); [|lia]. apply Z.div_lt_upper_bound; nia. }
      destruct (sx <? 0) eqn:S1; destruct (sy <? 0) eqn:S2; cbn [xorb].
      - split; [exact Wq|]. replace sx with (- a) by lia. replace sy with (- b) by lia.
        rewrite Z.quot_opp_opp, Z.quot_div_nonneg by lia.
        apply sval_of; auto; [rewrite Vq; symmetry; apply Z.mod_small; lia|]; specialize (Hqs eq_refl); lia.
      - destruct (unm_val q0 (a / b) Wq ltac:(rewrite Vq; symmetry; apply Z.mod_small; lia)) as (A & B). split; [exact A|].
        replace sx with (- a) by lia. replace sy with b by lia.
        rewrite Z.quot_opp_l, Z.quot_div_nonneg by lia. apply sval_of; auto. lia.
      - destruct (unm_val q0 (a / b) Wq ltac:(rewrite Vq; symmetry; apply Z.mod_small; lia)) as (A & B). split; [exact A|].
        replace sx with a by lia. replace sy with (- b) by lia.
        rewrite Z.quot_opp_r, Z.quot_div_nonneg by lia. apply sval_of; auto. lia.
      - split; [exact Wq|]. replace sx with a by lia. replace sy with b by lia.
        rewrite Z.quot_div_nonneg by lia.
        apply sval_of; auto; [rewrite Vq; symmetry; apply Z.mod_small; lia|]; specialize (Hqs eq_refl); lia. }
    assert (R : wf (if sx <? 0 then bunm r0 else r0) /\ sval (if sx <? 0 then bunm r0 else r0) = Z.rem sx sy).
    { destruct (sx <? 0) eqn:S1.
      - destruct (unm_val r0 (a mod b) Wr ltac:(rewrite Vr; symmetry; apply Z.mod_small; lia)) as (A & B). split; [exact A|].
        replace sx with (- a) by lia.
        assert (Er : Z.rem (- a) sy = - (a mod b)).
        { destruct (sy <? 0) eqn:S2.
          - replace sy with (- b) by lia. rewrite Z.rem_opp_opp, Z.rem_mod_nonneg by lia. reflexivity.
          - replace sy with b by lia. rewrite Z.rem_opp_l, Z.rem_mod_nonneg by lia. reflexivity. }
        rewrite Er. apply sval_of; auto. lia.
      - split; [exact Wr|]. replace sx with a by lia.
        assert (Er : Z.rem a sy = a mod b).
        { destruct (sy <? 0) eqn:S2.
          - replace sy with (- b) by lia. rewrite Z.rem_opp_r, Z.rem_mod_nonneg by lia. reflexivity.
          - replace sy with b by lia. rewrite Z.rem_mod_nonneg by lia. reflexivity. }
        rewrite Er. apply sval_of; auto; [rewrite Vr; symmetry; apply Z.mod_small; lia|]; lia. }
    destruct Q as (Q1 & Q2). destruct R as (R1 & R2). rewrite ?isneg_correct by auto. fold sx sy. auto.
Qed.

Example tdiv_example :
  tdivmod (frominteger (-7)) (frominteger 2) = Ok (frominteger (-3), frominteger (-1)) /\
  tdivmod bint_mininteger (frominteger (-1)) = Err EDivOverflow.
Proof. repeat split; vm_compute; reflexivity. Qed.
