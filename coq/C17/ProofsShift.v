(* _shlwords, _shrwords, __shl, __shr for every Lua-integer count *)
From C17 Require Import Model Proofs ProofsLib ProofsArith ProofsBits ProofsConv.
From Coq Require Import ZifyBool.
Local Open Scope Z_scope.
Ltac Zify.zify_post_hook ::= Z.div_mod_to_equations.

Lemma uval_firstn_mod m x : Forall limb_ok x -> (m <= length x)%nat ->
  uval (firstn m x) = uval x mod Wd ^ Z.of_nat m /\ uval (skipn m x) = uval x / Wd ^ Z.of_nat m.
Proof.
  intros F Hm. pose proof (uval_firstn_skipn m x) as E.
  assert (Hl : length (firstn m x) = m) by (rewrite firstn_length; lia). rewrite Hl in E.
  pose proof (uval_range _ (Forall_firstn _ m x F)) as R. rewrite Hl in R.
  pose proof (Wdpow_pos m). set (P := Wd ^ Z.of_nat m) in *.
  rewrite E. rewrite Z.mul_comm.
  rewrite Z.mod_add, Z.div_add by lia. rewrite Z.mod_small, Z.div_small by lia. split; ring.
Qed.

Lemma shlwords_spec x n : wf x -> (n < BINT_SIZE)%nat ->
  wf (shlwords x n) /\ uval (shlwords x n) = (Wd ^ Z.of_nat n * uval x) mod Wfull.
Proof.
  intros [L F] Hn. unfold shlwords.
  assert (Hl : length (firstn (BINT_SIZE - n) x) = (BINT_SIZE - n)%nat) by (rewrite firstn_length; lia).
  split.
  - split; [rewrite app_length, repeat_length, Hl; lia|].
    apply Forall_app; split; [apply Forall_repeat0 | apply Forall_firstn; auto].
  - rewrite uval_app, uval_repeat0, repeat_length, Z.add_0_l.
    destruct (uval_firstn_mod (BINT_SIZE - n) x F ltac:(lia)) as (-> & _).
    rewrite Wfull_eq. replace BINT_SIZE with (n + (BINT_SIZE - n))%nat at 2 by lia.
    rewrite Wdpow_add. pose proof (Wdpow_pos n). pose proof (Wdpow_pos (BINT_SIZE - n)).
    rewrite Z.mul_mod_distr_l by lia. reflexivity.
Qed.

Lemma shrwords_spec x n : wf x -> (n < BINT_SIZE)%nat ->
  wf (shrwords x n) /\ uval (shrwords x n) = uval x / Wd ^ Z.of_nat n.
Proof.
  intros [L F] Hn. unfold shrwords. destruct (Nat.ltb_spec n BINT_SIZE) as [_|]; [|lia].
  split.
  - split; [rewrite app_length, repeat_length, skipn_length; lia|].
    apply Forall_app; split; [apply Forall_skipn; auto | apply Forall_repeat0].
  - rewrite uval_app, uval_repeat0, Z.mul_0_r, Z.add_0_r.
    destruct (uval_firstn_mod n x F ltac:(lia)) as (_ & ->). reflexivity.
Qed.

Lemma idiv_wb_lidiv y : lidiv y BINT_WORDBITS = Some (idiv_wb y) /\ lmod y BINT_WORDBITS = Some (imod_wb y).
Proof.
  pose proof wb_range. unfold lidiv, lmod, idiv_wb, imod_wb.
  destruct (BINT_WORDBITS =? 0) eqn:E; [lia|]. auto.
Qed.

(* the word/bit split of a count 0 <= y < BITS *)
Lemma count_split y : 0 <= y < BINT_BITS ->
  let q := idiv_wb y in
  let y1 := if q =? 0 then y else lsub y (lmul q BINT_WORDBITS) in
  q = y / BINT_WORDBITS /\ 0 <= q /\ (Z.to_nat q < BINT_SIZE)%nat /\ y1 = y mod BINT_WORDBITS /\
  0 <= y1 < BINT_WORDBITS /\ y = BINT_WORDBITS * q + y1.
Proof.
  intros Hy. cbn zeta. pose proof wb_range. pose proof bits_small. pose proof bits_multiple.
  change (2 ^ 31) with 2147483648 in *.
  assert (Hq : idiv_wb y = y / BINT_WORDBITS).
  { unfold idiv_wb. apply wrap64_id.
    assert (0 <= y / BINT_WORDBITS <= y) by (split; [apply Z.div_pos; lia | apply Z.div_le_upper_bound; nia]). i64. }
  rewrite Hq. set (q := y / BINT_WORDBITS).
  pose proof (Z.div_mod y BINT_WORDBITS ltac:(lia)) as Hd. fold q in Hd.
  pose proof (Z.mod_pos_bound y BINT_WORDBITS ltac:(lia)) as Hm.
  assert (0 <= q) by (apply Z.div_pos; lia).
  assert (q < Z.of_nat BINT_SIZE) by (apply Z.div_lt_upper_bound; lia).
  split; [reflexivity|]. split; [lia|]. split; [lia|].
  assert (E : (if q =? 0 then y else lsub y (lmul q BINT_WORDBITS)) = y mod BINT_WORDBITS).
  { destruct (q =? 0) eqn:E0.
    - apply Z.eqb_eq in E0. rewrite E0 in Hd. lia.
    - rewrite lmul_exact by (unf64; nia). rewrite lsub_exact by (unf64; nia). lia. }
  rewrite E. repeat split; lia.
Qed.

Lemma Wd_pow_q q : 0 <= q -> Wd ^ Z.of_nat (Z.to_nat q) = 2 ^ (BINT_WORDBITS * q).
Proof.
  intros. rewrite Z2Nat.id by lia. unfold Wd. rewrite <- Z.pow_mul_r by (pose proof wb_range; lia). reflexivity.
Qed.

Lemma shl_pos_spec x y : wf x -> 0 <= y < BINT_BITS ->
  wf (shl_pos x y) /\ uval (shl_pos x y) = (uval x * 2 ^ y) mod Wfull.
Proof.
  intros Hx Hy. unfold shl_pos. destruct (count_split y Hy) as (Eq & Hq0 & Hq & E1 & Hy1 & Ey).
  set (q := idiv_wb y) in *. set (y1 := if q =? 0 then y else lsub y (lmul q BINT_WORDBITS)) in *.
  clearbody y1. pose proof Wfull_pos. pose proof wb_range.
  assert (X1 : wf (if q =? 0 then x else shlwords x (Z.to_nat q)) /\
               uval (if q =? 0 then x else shlwords x (Z.to_nat q)) = (2 ^ (BINT_WORDBITS * q) * uval x) mod Wfull).
  { destruct (q =? 0) eqn:E0.
    - apply Z.eqb_eq in E0. rewrite E0, Z.mul_0_r, Z.pow_0_r, Z.mul_1_l.
      split; [auto|]. symmetry. apply Z.mod_small. apply wf_range; auto.
    - destruct (shlwords_spec x (Z.to_nat q) Hx Hq) as (A & B). split; [auto|].
      rewrite B, Wd_pow_q by lia. reflexivity. }
  destruct X1 as (W1 & V1). set (x1 := if q =? 0 then x else shlwords x (Z.to_nat q)) in *. clearbody x1.
  assert (Ep : 2 ^ y = 2 ^ y1 * 2 ^ (BINT_WORDBITS * q)).
  { rewrite <- Z.pow_add_r by nia. f_equal. lia. }
  destruct (y1 =? 0) eqn:E0.
  - apply Z.eqb_eq in E0. split; [auto|]. rewrite V1, Ep, E0, Z.pow_0_r. f_equal. ring.
  - destruct W1 as [L1 F1]. destruct (shl_small_spec y1 ltac:(lia) x1 F1) as (I1 & I2 & I3).
    split; [split; [congruence | auto]|].
    rewrite I3, L1, <- Wfull_eq, V1. rewrite Z.mul_mod_idemp_r by lia. f_equal. rewrite Ep. ring.
Qed.

Lemma shr_pos_spec x y : wf x -> 0 <= y < BINT_BITS ->
  wf (shr_pos x y) /\ uval (shr_pos x y) = uval x / 2 ^ y.
Proof.
  intros Hx Hy. unfold shr_pos. destruct (count_split y Hy) as (Eq & Hq0 & Hq & E1 & Hy1 & Ey).
  set (q := idiv_wb y) in *. set (y1 := if q =? 0 then y else lsub y (lmul q BINT_WORDBITS)) in *.
  clearbody y1. pose proof Wfull_pos. pose proof wb_range.
  assert (X1 : wf (if q =? 0 then x else shrwords x (Z.to_nat q)) /\
               uval (if q =? 0 then x else shrwords x (Z.to_nat q)) = uval x / 2 ^ (BINT_WORDBITS * q)).
  { destruct (q =? 0) eqn:E0.
    - apply Z.eqb_eq in E0. rewrite E0, Z.mul_0_r, Z.pow_0_r, Z.div_1_r. auto.
    - destruct (shrwords_spec x (Z.to_nat q) Hx Hq) as (A & B). split; [auto|].
      rewrite B, Wd_pow_q by lia. reflexivity. }
  destruct X1 as (W1 & V1). set (x1 := if q =? 0 then x else shrwords x (Z.to_nat q)) in *. clearbody x1.
  assert (Ep : 2 ^ y = 2 ^ (BINT_WORDBITS * q) * 2 ^ y1).
  { rewrite <- Z.pow_add_r by nia. f_equal. lia. }
  assert (0 < 2 ^ (BINT_WORDBITS * q)) by (apply Z.pow_pos_nonneg; nia).
  assert (0 < 2 ^ y1) by (apply Z.pow_pos_nonneg; lia).
  destruct (y1 =? 0) eqn:E0.
  - apply Z.eqb_eq in E0. split; [auto|]. rewrite V1, Ep, E0, Z.pow_0_r, Z.mul_1_r. reflexivity.
  - destruct W1 as [L1 F1]. destruct (shr_small_spec y1 ltac:(lia) x1 F1) as (I1 & I2 & I3).
    split; [split; [congruence | auto]|].
    rewrite I3, V1, Ep. rewrite Z.div_div by lia. reflexivity.
Qed.

Lemma labs_abs y : in_i64 y -> y <> minint -> labs y = Z.abs y /\ lneg y = - y.
Proof.
  intros Hy Hm. unfold labs, lneg.
  assert (E : wrap64 (- y) = - y) by (apply wrap64_id; i64).
  rewrite E. destruct (y <? 0) eqn:E1; lia.
Qed.

Lemma shift_guard_spec y : in_i64 y ->
  shift_guard y = true <-> (y = minint \/ BINT_BITS <= Z.abs y).
Proof.
  intros Hy. unfold shift_guard. pose proof bits_small. change (2 ^ 31) with 2147483648 in *.
  destruct (y =? minint) eqn:E.
  - apply Z.eqb_eq in E. cbn [orb]. split; auto.
  - apply Z.eqb_neq in E. cbn [orb]. destruct (labs_abs y Hy E) as (-> & _). split; [lia|].
    intros [A|A]; [congruence|lia].
Qed.

(* both reading directions in one statement: the result of a shift to the left by y
   (negative = to the right) *)
Lemma shift_fuel_spec left x y : wf x -> in_i64 y ->
  exists r, shift_fuel 2 left x y = Some r /\ wf r /\
            uval r = Z.shiftl (uval x) (if left then y else - y) mod Wfull.
Proof.
  intros Hx Hy. pose proof (wf_range x Hx) as Hr. pose proof Wfull_pos. pose proof bits_ge64.
  pose proof bits_small as Hbs. change (2 ^ 31) with 2147483648 in Hbs.
  cbn [shift_fuel].
  destruct (shift_guard y) eqn:G.
  - (* oversize count or mininteger: zero *)
    apply shift_guard_spec in G; auto. exists bint_zero. destruct wf_zero as (Wz & Vz).
    split; [reflexivity|]. split; [exact Wz|]. rewrite Vz.
    assert (Hbig : BINT_BITS <= Z.abs y) by (destruct G as [->|G]; [unfold minint, two63; lia | exact G]).
    set (c := if left then y else - y).
    assert (Hc : BINT_BITS <= Z.abs c) by (subst c; destruct left; lia).
    destruct (Z_lt_le_dec c 0) as [L|L].
    + rewrite <- (Z.opp_involutive c), Z.shiftl_opp_r. rewrite Z.shiftr_div_pow2 by lia.
      assert (Wfull <= 2 ^ (- c)) by (unfold Wfull; apply Z.pow_le_mono_r; lia).
      rewrite Z.div_small by lia. reflexivity.
    + rewrite Z.shiftl_mul_pow2 by lia. replace c with ((c - BINT_BITS) + BINT_BITS) by ring.
      rewrite Z.pow_add_r by lia. fold Wfull. rewrite Z.mul_assoc, Z.mod_mul by lia. reflexivity.
  - assert (G' : ~ (y = minint \/ BINT_BITS <= Z.abs y)) by (rewrite <- shift_guard_spec by auto; congruence).
    assert (Hm : y <> minint) by tauto. assert (Ha : Z.abs y < BINT_BITS) by lia.
    destruct (labs_abs y Hy Hm) as (_ & En).
    destruct (y <? 0) eqn:E.
    + (* negative count: the other operator with -y *)
      rewrite En.
      assert (G2 : shift_guard (- y) = false).
      { destruct (shift_guard (- y)) eqn:G2; [|reflexivity]. apply shift_guard_spec in G2; [|i64].
        unfold minint, two63 in *. lia. }
      rewrite G2. destruct (- y <? 0) eqn:E2; [lia|].
      destruct left; cbn [negb].
      * destruct (shr_pos_spec x (- y) Hx ltac:(lia)) as (A & B). eexists; split; [reflexivity|]. split; [exact A|].
        rewrite B. rewrite <- (Z.opp_involutive y) at 2. rewrite Z.shiftl_opp_r, Z.shiftr_div_pow2 by lia.
        symmetry. apply Z.mod_small.
        assert (0 < 2 ^ (- y)) by (apply Z.pow_pos_nonneg; lia).
        split; [apply Z.div_pos; lia|]. apply Z.le_lt_trans with (uval x); [|lia]. apply Z.div_le_upper_bound; nia.
      * destruct (shl_pos_spec x (- y) Hx ltac:(lia)) as (A & B). eexists; split; [reflexivity|]. split; [exact A|].
        rewrite B. rewrite Z.shiftl_mul_pow2 by lia. reflexivity.
    + destruct left.
      * destruct (shl_pos_spec x y Hx ltac:(lia)) as (A & B). eexists; split; [reflexivity|]. split; [exact A|].
        rewrite B. rewrite Z.shiftl_mul_pow2 by lia. reflexivity.
      * destruct (shr_pos_spec x y Hx ltac:(lia)) as (A & B). eexists; split; [reflexivity|]. split; [exact A|].
        rewrite B. rewrite Z.shiftl_opp_r, Z.shiftr_div_pow2 by lia.
        symmetry. apply Z.mod_small.
        assert (0 < 2 ^ y) by (apply Z.pow_pos_nonneg; lia).
        split; [apply Z.div_pos; lia|]. apply Z.le_lt_trans with (uval x); [|lia]. apply Z.div_le_upper_bound; nia.
Qed.

Theorem shl_correct x y : wf x -> in_i64 y ->
  exists r, bshl x y = Some r /\ wf r /\ uval r = Z.shiftl (uval x) y mod Wfull.
Proof. intros. apply (shift_fuel_spec true); auto. Qed.

Theorem shr_correct x y : wf x -> in_i64 y ->
  exists r, bshr x y = Some r /\ wf r /\ uval r = Z.shiftr (uval x) y mod Wfull.
Proof.
  intros Hx Hy. destruct (shift_fuel_spec false x y Hx Hy) as (r & A & B & C).
  exists r. split; [exact A|]. split; [exact B|]. rewrite C. rewrite <- Z.shiftl_opp_r. reflexivity.
Qed.

(* convenient forms for in-range counts *)
Lemma bshl_small x y : wf x -> 0 <= y < BINT_BITS ->
  exists r, bshl x y = Some r /\ wf r /\ uval r = (uval x * 2 ^ y) mod Wfull.
Proof.
  intros Hx Hy. pose proof bits_small. change (2 ^ 31) with 2147483648 in *.
  destruct (shl_correct x y Hx ltac:(i64)) as (r & A & B & C). exists r.
  rewrite Z.shiftl_mul_pow2 in C by lia. auto.
Qed.
Lemma bshr_small x y : wf x -> 0 <= y < BINT_BITS ->
  exists r, bshr x y = Some r /\ wf r /\ uval r = uval x / 2 ^ y.
Proof.
  intros Hx Hy. pose proof bits_small. change (2 ^ 31) with 2147483648 in *.
  destruct (shr_correct x y Hx ltac:(i64)) as (r & A & B & C). exists r.
  rewrite Z.shiftr_div_pow2 in C by lia. split; [auto|]. split; [auto|]. rewrite C.
  pose proof (wf_range x Hx). assert (0 < 2 ^ y) by (apply Z.pow_pos_nonneg; lia).
  apply Z.mod_small. split; [apply Z.div_pos; lia|]. apply Z.le_lt_trans with (uval x); [|lia].
  apply Z.div_le_upper_bound; nia.
Qed.

Example shift_example :
  bshl bint_one minint = Some bint_zero /\ bshr bint_one (-3) = bshl bint_one 3.
Proof. split; vm_compute; reflexivity. Qed.
