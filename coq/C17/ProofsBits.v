(* bitwise operations, comparisons, sign test, shifts *)
From C17 Require Import Model Proofs ProofsLib.
From Coq Require Import ZifyBool.
Local Open Scope Z_scope.
Ltac Zify.zify_post_hook ::= Z.div_mod_to_equations.

(* ---- _band / _bor / _bxor ---- *)
Lemma map2_bitop (f : Z -> Z -> Z) :
  (forall a b u v, limb_ok a -> limb_ok b ->
     limb_ok (f a b) /\ f (a + Wd * u) (b + Wd * v) = f a b + Wd * f u v) ->
  f 0 0 = 0 ->
  forall x y, Forall limb_ok x -> Forall limb_ok y -> length x = length y ->
  let r := map (fun p => f (fst p) (snd p)) (combine x y) in
  Forall limb_ok r /\ length r = length x /\ uval r = f (uval x) (uval y).
Proof.
  intros Hc H0. induction x as [|a x IH]; intros [|b y] Hx Hy Hl; try discriminate; cbn [combine map uval length fst snd].
  - auto.
  - inversion Hx; inversion Hy; subst. injection Hl as Hl.
    destruct (IH y ltac:(auto) ltac:(auto) Hl) as (I1 & I2 & I3). cbn zeta in *.
    destruct (Hc a b (uval x) (uval y) ltac:(auto) ltac:(auto)) as (C1 & C2).
    split; [constructor; auto|]. split; [congruence|]. rewrite I3, C2. reflexivity.
Qed.

Lemma wf_bitop (f : Z -> Z -> Z) :
  (forall a b u v, limb_ok a -> limb_ok b ->
     limb_ok (f a b) /\ f (a + Wd * u) (b + Wd * v) = f a b + Wd * f u v) ->
  f 0 0 = 0 ->
  forall x y, wf x -> wf y ->
  wf (map (fun p => f (fst p) (snd p)) (combine x y)) /\
  uval (map (fun p => f (fst p) (snd p)) (combine x y)) = f (uval x) (uval y).
Proof.
  intros Hc H0 x y [Lx Fx] [Ly Fy].
  destruct (map2_bitop f Hc H0 x y Fx Fy ltac:(congruence)) as (A & B & C). cbn zeta in *.
  split; [split; [congruence|auto]|auto].
Qed.

Theorem band_correct x y : wf x -> wf y -> wf (band x y) /\ uval (band x y) = Z.land (uval x) (uval y).
Proof.
  apply (wf_bitop Z.land); [|reflexivity]. intros a b u v Ha Hb. unfold limb_ok, Wd in *.
  apply land_cons; auto. pose proof wordbits_pos; lia.
Qed.
Theorem bor_correct x y : wf x -> wf y -> wf (bor x y) /\ uval (bor x y) = Z.lor (uval x) (uval y).
Proof.
  apply (wf_bitop Z.lor); [|reflexivity]. intros a b u v Ha Hb. unfold limb_ok, Wd in *.
  apply lor_cons; auto. pose proof wordbits_pos; lia.
Qed.
Theorem bxor_correct x y : wf x -> wf y -> wf (bxor x y) /\ uval (bxor x y) = Z.lxor (uval x) (uval y).
Proof.
  apply (wf_bitop Z.lxor); [|reflexivity]. intros a b u v Ha Hb. unfold limb_ok, Wd in *.
  apply lxor_cons; auto. pose proof wordbits_pos; lia.
Qed.

(* ---- comparisons ---- *)
Lemma uval_snoc x a : uval (x ++ [a]) = uval x + Wd ^ Z.of_nat (length x) * a.
Proof. rewrite uval_app. cbn [uval]. ring. Qed.

Lemma cmp_msb_spec rx : forall ry d, Forall limb_ok rx -> Forall limb_ok ry -> length rx = length ry ->
  cmp_msb rx ry d = if uval (rev rx) =? uval (rev ry) then d else uval (rev rx) <? uval (rev ry).
Proof.
  induction rx as [|a rx IH]; intros [|b ry] d Hx Hy Hl; try discriminate; cbn [cmp_msb rev].
  - reflexivity.
  - inversion Hx; inversion Hy; subst. injection Hl as Hl.
    rewrite !uval_snoc, !rev_length, <- Hl.
    assert (F1 : Forall limb_ok (rev rx)) by (apply Forall_rev; auto).
    assert (F2 : Forall limb_ok (rev ry)) by (apply Forall_rev; auto).
    pose proof (uval_range _ F1) as R1. pose proof (uval_range _ F2) as R2.
    rewrite rev_length in R1, R2. rewrite <- Hl in R2.
    set (P := Wd ^ Z.of_nat (length rx)) in *. set (u := uval (rev rx)) in *. set (v := uval (rev ry)) in *.
    unfold limb_ok in *.
    destruct (a =? b) eqn:E.
    + apply Z.eqb_eq in E. subst b. rewrite IH by auto. fold u v.
      destruct (u =? v) eqn:E2.
      * apply Z.eqb_eq in E2. rewrite E2, Z.eqb_refl. reflexivity.
      * apply Z.eqb_neq in E2. destruct (u + P * a =? v + P * a) eqn:E3; [lia|].
        destruct (u <? v) eqn:E4; lia.
    + apply Z.eqb_neq in E. unfold llt.
      destruct (u + P * a =? v + P * b) eqn:E3; [exfalso; nia|].
      destruct (a <? b) eqn:E4; destruct (u + P * a <? v + P * b) eqn:E5; try reflexivity; exfalso; nia.
Qed.

Lemma cmp_wf x y d : wf x -> wf y ->
  cmp_msb (rev x) (rev y) d = if uval x =? uval y then d else uval x <? uval y.
Proof.
  intros [Lx Fx] [Ly Fy]. rewrite cmp_msb_spec; try (apply Forall_rev; auto).
  - rewrite !rev_involutive. reflexivity.
  - rewrite !rev_length. congruence.
Qed.

Theorem ult_correct x y : wf x -> wf y -> ult x y = (uval x <? uval y).
Proof.
  intros Hx Hy. unfold ult. rewrite cmp_wf by auto.
  destruct (uval x =? uval y) eqn:E; [|reflexivity]. apply Z.eqb_eq in E. rewrite E. symmetry. apply Z.ltb_irrefl.
Qed.
Theorem ule_correct x y : wf x -> wf y -> ule x y = (uval x <=? uval y).
Proof.
  intros Hx Hy. unfold ule. rewrite cmp_wf by auto.
  destruct (uval x =? uval y) eqn:E; lia.
Qed.

(* ---- isneg ---- *)
Lemma wordmsb_eq : BINT_WORDMSB = Wd / 2 /\ Wd = 2 * (Wd / 2) /\ Wd / 2 = 2 ^ (BINT_WORDBITS - 1).
Proof.
  pose proof wb_range. unfold BINT_WORDMSB.
  assert (E : Wd = 2 * 2 ^ (BINT_WORDBITS - 1)).
  { unfold Wd. rewrite <- Z.pow_succ_r by lia. f_equal; lia. }
  assert (E2 : Wd / 2 = 2 ^ (BINT_WORDBITS - 1)) by (rewrite E, Z.mul_comm, Z.div_mul; lia).
  split; [|split; [lia | exact E2]].
  rewrite lsub_exact by i64. rewrite lshl_small; [lia | lia |]. rewrite Z.mul_1_l, <- E2.
  pose proof Wd_le32. pose proof Wd_pos. i64.
Qed.

Lemma land_msb w : limb_ok w -> Z.land w (Wd / 2) = if w <? Wd / 2 then 0 else Wd / 2.
Proof.
  intros Hw. unfold limb_ok in Hw. destruct wordmsb_eq as (_ & E1 & E2). pose proof wb_range.
  set (k := BINT_WORDBITS - 1) in *. rewrite E2.
  assert (Hp : 0 < 2 ^ k) by (apply Z.pow_pos_nonneg; lia).
  pose proof (Z.div_mod w (2 ^ k) ltac:(lia)) as Hd.
  pose proof (Z.mod_pos_bound w (2 ^ k) ltac:(lia)) as Hm.
  set (lo := w mod 2 ^ k) in *. set (hi := w / 2 ^ k) in *.
  assert (Hhi : 0 <= hi <= 1) by (subst hi; split; [apply Z.div_pos; lia | assert (w / 2 ^ k < 2) by (apply Z.div_lt_upper_bound; lia); lia]).
  clearbody lo hi.
  replace (Z.land w (2 ^ k)) with (Z.land (lo + 2 ^ k * hi) (0 + 2 ^ k * 1)) by (f_equal; lia).
  destruct (land_cons k lo 0 hi 1 ltac:(lia) ltac:(lia) ltac:(lia)) as (_ & ->).
  rewrite Z.land_0_r.
  assert (hi = 0 \/ hi = 1) as [E|E] by lia; rewrite E in *;
    [change (Z.land 0 1) with 0 | change (Z.land 1 1) with 1]; destruct (w <? 2 ^ k) eqn:E3; lia.
Qed.

Lemma last_snoc_decomp (x : bint) : x <> [] -> x = removelast x ++ [last x 0].
Proof. apply app_removelast_last. Qed.

Lemma isneg_spec x : wf x -> isneg x = negb (uval x <? Wfull / 2).
Proof.
  intros [L F]. unfold isneg. destruct wordmsb_eq as (E0 & E1 & E2). rewrite E0.
  pose proof size_pos.
  assert (Hne : x <> []) by (intro; subst; cbn in L; lia).
  pose proof (app_removelast_last 0 Hne) as Hd.
  set (hi := last x 0) in *. set (lo := removelast x) in *.
  assert (Fl : Forall limb_ok lo /\ limb_ok hi).
  { rewrite Hd in F. apply Forall_app in F. destruct F as [F1 F2]. inversion F2; auto. }
  destruct Fl as [Fl Fh].
  assert (Ll : S (length lo) = BINT_SIZE).
  { rewrite <- L, Hd at 1. rewrite app_length. cbn. lia. }
  unfold lband. rewrite land_msb by auto.
  rewrite Hd, uval_snoc. rewrite Wfull_eq, <- Ll, Wdpow_S.
  pose proof (uval_range lo Fl) as Rl. set (P := Wd ^ Z.of_nat (length lo)) in *. set (u := uval lo) in *.
  unfold limb_ok in Fh. set (h := Wd / 2) in *.
  clearbody h. replace (Wd * P) with (h * P * 2) by (rewrite E1; ring). rewrite Z.div_mul by lia.
  destruct (hi <? h) eqn:E3.
  - cbn. destruct (u + P * hi <? h * P) eqn:E4; [reflexivity | exfalso; nia].
  - assert (0 < h) by (subst h; pose proof Wd_ge2; lia).
    destruct (h =? 0) eqn:E5; [lia|]. cbn. destruct (u + P * hi <? h * P) eqn:E4; [exfalso; nia | reflexivity].
Qed.

Lemma Wfull_half : Wfull = 2 * (Wfull / 2).
Proof.
  pose proof bits_ge64.
  assert (E : Wfull = 2 ^ (BINT_BITS - 1) * 2).
  { unfold Wfull. rewrite Z.mul_comm, <- Z.pow_succ_r by lia. f_equal; lia. }
  rewrite E at 2. rewrite Z.div_mul by lia. lia.
Qed.

Lemma sval_range x : wf x -> - (Wfull / 2) <= sval x < Wfull / 2.
Proof.
  intros Hx. pose proof (wf_range x Hx). unfold sval. pose proof Wfull_half.
  destruct (uval x <? Wfull / 2) eqn:E; lia.
Qed.

Theorem isneg_correct x : wf x -> isneg x = (sval x <? 0).
Proof.
  intros Hx. rewrite isneg_spec by auto. pose proof (wf_range x Hx). unfold sval.
  pose proof (sval_range x Hx) as Hs. unfold sval in Hs.
  pose proof Wfull_half. set (h := Wfull / 2) in *. clearbody h.
  destruct (uval x <? h) eqn:E; cbn [negb]; lia.
Qed.

Theorem lt_correct x y : wf x -> wf y -> blt x y = (sval x <? sval y).
Proof.
  intros Hx Hy. unfold blt. rewrite cmp_wf, !isneg_spec by auto.
  pose proof (wf_range x Hx). pose proof (wf_range y Hy). unfold sval.
  pose proof Wfull_half. set (h := Wfull / 2) in *. clearbody h.
  destruct (uval x <? h) eqn:E1; destruct (uval y <? h) eqn:E2; cbn [negb Bool.eqb andb];
    destruct (uval x =? uval y) eqn:E3; lia.
Qed.
Theorem le_correct x y : wf x -> wf y -> ble x y = (sval x <=? sval y).
Proof.
  intros Hx Hy. unfold ble. rewrite cmp_wf, !isneg_spec by auto.
  pose proof (wf_range x Hx). pose proof (wf_range y Hy). unfold sval.
  pose proof Wfull_half. set (h := Wfull / 2) in *. clearbody h.
  destruct (uval x <? h) eqn:E1; destruct (uval y <? h) eqn:E2; cbn [negb Bool.eqb andb];
    destruct (uval x =? uval y) eqn:E3; lia.
Qed.

(* ---- bit shifts inside the limbs ---- *)
Section SmallShift.
  Variable y : Z.
  Hypothesis Hy : 0 < y < BINT_WORDBITS.

  Let wy := BINT_WORDBITS - y.

  Lemma pow_split : Wd = 2 ^ y * 2 ^ wy /\ 0 < 2 ^ y /\ 0 < 2 ^ wy.
  Proof.
    unfold wy, Wd. rewrite <- Z.pow_add_r by lia. split; [f_equal; lia|].
    split; apply Z.pow_pos_nonneg; lia.
  Qed.

  Lemma lsub_wy : lsub BINT_WORDBITS y = wy.
  Proof. pose proof wb_range. apply lsub_exact. i64. Qed.

  Lemma limb_shl a : limb_ok a -> lshl a y = a * 2 ^ y.
  Proof.
    intros Ha. unfold limb_ok in Ha. destruct pow_split as (E & P1 & P2). pose proof wb_range. pose proof Wd_le.
    apply lshl_small; [lia|].
    assert (2 * 2 ^ y <= Wd).
    { unfold Wd. rewrite <- Z.pow_succ_r by lia. apply Z.pow_le_mono_r; lia. }
    unfold two64 in *. unf64. nia.
  Qed.
  Lemma limb_shl_wy a : limb_ok a -> lshl a wy = a * 2 ^ wy.
  Proof.
    intros Ha. unfold limb_ok in Ha. destruct pow_split as (E & P1 & P2). pose proof wb_range. pose proof Wd_le.
    apply lshl_small; [unfold wy; lia|].
    assert (2 * 2 ^ wy <= Wd).
    { unfold Wd. rewrite <- Z.pow_succ_r by (unfold wy; lia). apply Z.pow_le_mono_r; unfold wy; lia. }
    unfold two64 in *. unf64. nia.
  Qed.
  Lemma limb_shr a : limb_ok a -> lshr a y = a / 2 ^ y /\ 0 <= a / 2 ^ y < 2 ^ wy.
  Proof.
    intros Ha. pose proof (limb_i64 a Ha). unfold limb_ok in Ha. destruct pow_split as (E & P1 & P2). pose proof wb_range.
    split; [apply lshr_nonneg; auto; lia|].
    split; [apply Z.div_pos; lia|]. apply Z.div_lt_upper_bound; lia.
  Qed.
  Lemma limb_shr_wy a : limb_ok a -> lshr a wy = a / 2 ^ wy /\ 0 <= a / 2 ^ wy < 2 ^ y.
  Proof.
    intros Ha. pose proof (limb_i64 a Ha). unfold limb_ok in Ha. destruct pow_split as (E & P1 & P2). pose proof wb_range.
    split; [apply lshr_nonneg; auto; unfold wy; lia|].
    split; [apply Z.div_pos; lia|]. apply Z.div_lt_upper_bound; lia.
  Qed.

  (* one limb of the left shift: ((a << y) | (p >> (W-y))) & MAX *)
  Lemma shl_limb a p : limb_ok a -> limb_ok p ->
    lband (lbor (lshl a y) (lshr p (lsub BINT_WORDBITS y))) BINT_WORDMAX = (a * 2 ^ y + p / 2 ^ wy) mod Wd.
  Proof.
    intros Ha Hp. rewrite lsub_wy, limb_shl by auto. destruct (limb_shr_wy p Hp) as (-> & Hq).
    rewrite band_wordmax. f_equal. unfold lbor. rewrite Z.lor_comm, (Z.mul_comm a), Z.add_comm.
    apply lor_disjoint_add; lia.
  Qed.

  Lemma shl_loop_spec x : forall p, Forall limb_ok x -> limb_ok p ->
    Forall limb_ok (shl_loop y p x) /\ length (shl_loop y p x) = length x /\
    uval (shl_loop y p x) = (2 ^ y * uval x + p / 2 ^ wy) mod Wd ^ Z.of_nat (length x).
  Proof.
    induction x as [|a r IH]; intros p Hx Hp; cbn [shl_loop length uval].
    - change (Z.of_nat 0) with 0. rewrite Z.pow_0_r, Z.mod_1_r. auto.
    - inversion Hx as [|? ? Ha Hr]; subst. rewrite shl_limb by auto.
      destruct (IH a Hr Ha) as (I1 & I2 & I3).
      split; [constructor; [apply mod_limb | exact I1]|]. split; [congruence|].
      rewrite I3, Wdpow_S. destruct pow_split as (E & P1 & P2).
      destruct (limb_shr_wy p Hp) as (_ & Hq). set (q := p / 2 ^ wy) in *.
      pose proof (Wdpow_pos (length r)) as HP. pose proof Wd_pos.
      set (t := a * 2 ^ y + q).
      assert (Ht : t / Wd = a / 2 ^ wy).
      { subst t. rewrite E, <- Z.div_div by lia. rewrite Z.div_add_l by lia. rewrite (Z.div_small q) by lia.
        rewrite Z.add_0_r. reflexivity. }
      replace (2 ^ y * (a + Wd * uval r) + q) with (t mod Wd + Wd * (t / Wd + 2 ^ y * uval r))
        by (pose proof (Z.div_mod t Wd ltac:(lia)); subst t; lia).
      rewrite mod_cons by (try apply Z.mod_pos_bound; lia).
      rewrite Ht. f_equal. f_equal. f_equal. ring.
  Qed.

  Lemma shl_small_spec x : Forall limb_ok x ->
    Forall limb_ok (shl_small y x) /\ length (shl_small y x) = length x /\
    uval (shl_small y x) = (2 ^ y * uval x) mod Wd ^ Z.of_nat (length x).
  Proof.
    intros Hx. assert (H0 : limb_ok 0) by (unfold limb_ok; pose proof Wd_pos; lia).
    assert (E : shl_small y x = shl_loop y 0 x).
    { destruct x as [|a r]; cbn [shl_small shl_loop]; [reflexivity|]. f_equal. f_equal.
      rewrite lsub_wy. destruct (limb_shr_wy 0 H0) as (-> & _). rewrite Z.div_0_l by (destruct pow_split; lia).
      unfold lbor. rewrite Z.lor_0_r. reflexivity. }
    rewrite E. destruct (shl_loop_spec x 0 Hx H0) as (I1 & I2 & I3).
    rewrite Z.div_0_l, Z.add_0_r in I3 by (destruct pow_split; lia). auto.
  Qed.

  Lemma shr_limb a b : limb_ok a -> limb_ok b ->
    lband (lbor (lshr a y) (lshl b (lsub BINT_WORDBITS y))) BINT_WORDMAX = a / 2 ^ y + 2 ^ wy * (b mod 2 ^ y).
  Proof.
    intros Ha Hb. rewrite lsub_wy, limb_shl_wy by auto. destruct (limb_shr a Ha) as (-> & Hq).
    rewrite band_wordmax. unfold lbor. rewrite (Z.mul_comm b). rewrite lor_disjoint_add by (try exact Hq; unfold wy; lia).
    destruct pow_split as (E & P1 & P2). rewrite E, (Z.mul_comm (2 ^ y)).
    rewrite Z.rem_mul_r by lia. rewrite (Z.mul_comm (2 ^ wy) b), Z.mod_add, Z.div_add by lia.
    rewrite (Z.mod_small (a / 2 ^ y)), (Z.div_small (a / 2 ^ y)) by lia. rewrite Z.add_0_l. reflexivity.
  Qed.

  Lemma shr_small_spec x : Forall limb_ok x ->
    Forall limb_ok (shr_small y x) /\ length (shr_small y x) = length x /\
    uval (shr_small y x) = uval x / 2 ^ y.
  Proof.
    induction x as [|a r IH]; intros Hx.
    - cbn [shr_small uval length]. split; [constructor|]. split; [reflexivity|].
      symmetry; apply Z.div_0_l. destruct pow_split; lia.
    - inversion Hx as [|? ? Ha Hr]; subst. destruct pow_split as (E & P1 & P2). pose proof Wd_pos.
      destruct r as [|b r'].
      + cbn [shr_small uval length]. destruct (limb_shr a Ha) as (-> & Hq).
        split; [constructor; [unfold limb_ok; nia | constructor]|]. split; [reflexivity|].
        rewrite Z.mul_0_r, !Z.add_0_r. reflexivity.
      + destruct (IH Hr) as (I1 & I2 & I3). inversion Hr as [|? ? Hb Hr']; subst.
        change (shr_small y (a :: b :: r')) with
          (lband (lbor (lshr a y) (lshl b (lsub BINT_WORDBITS y))) BINT_WORDMAX :: shr_small y (b :: r')).
        rewrite shr_limb by auto. cbn [length uval] in *.
        destruct (limb_shr a Ha) as (_ & Hq).
        pose proof (Z.mod_pos_bound b (2 ^ y) ltac:(lia)) as Hm.
        split; [constructor; [unfold limb_ok; nia | exact I1]|]. split; [congruence|].
        rewrite I3. set (U := b + Wd * uval r') in *.
        assert (Hbm : b mod 2 ^ y = U mod 2 ^ y).
        { subst U. rewrite E. replace (b + 2 ^ y * 2 ^ wy * uval r') with (b + (2 ^ wy * uval r') * 2 ^ y) by ring.
          rewrite Z.mod_add by lia. reflexivity. }
        rewrite Hbm.
        replace (a + Wd * U) with (a + (2 ^ wy * U) * 2 ^ y) by (rewrite E; ring).
        rewrite Z.div_add by lia.
        pose proof (Z.div_mod U (2 ^ y) ltac:(lia)) as HdU.
        rewrite HdU at 3. rewrite E. ring.
  Qed.
End SmallShift.

Theorem shlone_correct x : wf x -> wf (shlone x) /\ uval (shlone x) = (2 * uval x) mod Wfull.
Proof.
  intros [L F]. unfold shlone. pose proof wordbits_ge8.
  destruct (shl_small_spec 1 ltac:(lia) x F) as (I1 & I2 & I3).
  split; [split; [congruence|auto]|]. rewrite I3, L, <- Wfull_eq. reflexivity.
Qed.
Theorem shrone_correct x : wf x -> wf (shrone x) /\ uval (shrone x) = uval x / 2.
Proof.
  intros [L F]. unfold shrone. pose proof wordbits_ge8.
  destruct (shr_small_spec 1 ltac:(lia) x F) as (I1 & I2 & I3).
  split; [split; [congruence|auto]|]. rewrite I3. reflexivity.
Qed.
