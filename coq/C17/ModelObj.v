(* Object-level model of bint.lua: bints are mutable Lua tables.  A store is the heap of bint objects,
   a reference is an index into it.  Every public function is written as the sequence of
   allocations (setmetatable({}, bint), bint_zero(), bint_new(x), the fresh result of __add ...)
   and in-place updates (self[i] = ... of the underscore methods) that the Lua code performs, with the
   limb-level results taken from the value-level model (Model.v .. Model4.v), so that what is stated
   here is WHICH object is written and WHICH object is returned:
     - tobint(x) without clone, parse(x), compress(x) for a value that does not fit a Lua integer and
       brol/bror(x, y) with y % BITS == 0 return their argument itself;
     - every other public function returns freshly allocated objects and writes only to objects it
       allocated itself.
   Loops that update objects allocated inside the function (nume/deno/quot of udivmod, the copies of
   ipow/upowmod/tobase) are summarised by one in-place write of their final value.
   The tie to the code is the aliasing stream of the correspondence run: after f(x, y) the operands are
   re-read, raw identity of the result with the operands is observed, the result is then mutated in
   place (_inc) and the operands are re-read again. *)
From C17 Require Export Model4.
Local Open Scope Z_scope.

Definition store := list bint.
Definition oget (s : store) (r : nat) : bint := nth r s bint_zero.
Fixpoint oset (s : store) (r : nat) (v : bint) : store :=
  match s, r with
  | [], _ => []
  | _ :: t, O => v :: t
  | h :: t, S r' => h :: oset t r' v
  end.
Definition oalloc (s : store) (v : bint) : store * nat := (s ++ [v], length s).
(* in-place update self := f(self), returns self *)
Definition oupd (s : store) (r : nat) (f : bint -> bint) : store * nat := (oset s r (f (oget s r)), r).

(* bint.new(x) / tobint(x, true): a clone *)
Definition o_new (s : store) (x : nat) : store * nat := oalloc s (oget s x).
(* bint.tobint(x, clone) for a bint: x itself unless clone *)
Definition o_tobint (s : store) (x : nat) (clone : bool) : store * nat := if clone then o_new s x else (s, x).

(* abs / inc / dec: tobint(x, true) then the in-place method *)
Definition o_abs (s : store) (x : nat) : store * nat :=
  let (s1, c) := o_new s x in oupd s1 c (fun v => if isneg v then bunm v else v).
Definition o_inc (s : store) (x : nat) : store * nat := let (s1, c) := o_new s x in oupd s1 c binc.
Definition o_dec (s : store) (x : nat) : store * nat := let (s1, c) := o_new s x in oupd s1 c bdec.
(* max / min: bint_new(ix > iy and ix or iy) *)
Definition o_max (s : store) (x y : nat) : store * nat := o_new s (if blt (oget s y) (oget s x) then x else y).
Definition o_min (s : store) (x y : nat) : store * nat := o_new s (if blt (oget s x) (oget s y) then x else y).

(* __add / __sub / __mul: a fresh z *)
Definition o_bin (f : bint -> bint -> bint) (s : store) (x y : nat) : store * nat := oalloc s (f (oget s x) (oget s y)).
(* __bnot: fresh;  __unm: (~x):_inc() *)
Definition o_bnot (s : store) (x : nat) : store * nat := oalloc s (bnot (oget s x)).
Definition o_neg (s : store) (x : nat) : store * nat := let (s1, y) := o_bnot s x in oupd s1 y binc.
(* __band / __bor / __bxor: bint_new(x):_band(y) *)
Definition o_bit (f : bint -> bint -> bint) (s : store) (x y : nat) : store * nat :=
  let (s1, c) := o_new s x in (oset s1 c (f (oget s1 c) (oget s1 y)), c).
(* __shl / __shr: x = bint_new(x), then zero() or the shifted copy *)
Definition o_shift (left : bool) (s : store) (x : nat) (n : Z) : store * nat :=
  let (s1, c) := o_new s x in
  match shift_fuel 2 left (oget s x) n with
  | Some v => if shift_guard n then oalloc s1 v else (oset s1 c v, c)
  | None => (s1, c)
  end.
(* bwrap *)
Definition o_bwrap (s : store) (x : nat) (n : Z) : store * nat :=
  if n <=? 0 then oalloc s bint_zero
  else if n <? BINT_BITS then
    let (s1, o) := oalloc s bint_one in
    let (s2, sh) := o_shift true s1 o n in
    let (s3, _) := oupd s2 sh bdec in
    o_bit band s3 x sh
  else o_new s x.
(* brol / bror (repaired code): y % BITS == 0 returns x itself *)
Definition o_rot (left : bool) (s : store) (x : nat) (n : Z) : store * nat :=
  let y1 := imod_bits n in
  if y1 =? 0 then (s, x)
  else
    let (s1, a) := o_shift left s x y1 in
    let (s2, b) := o_shift (negb left) s1 x (lsub BINT_BITS y1) in
    o_bit bor s2 a b.

(* udivmod: nume = bint_new(x); the quotient is nume itself on the single-word paths, a fresh object
   otherwise; the remainder is fresh resp. nume *)
Definition udiv_q_in_nume (y : bint) : bool :=
  forallb (fun w => w =? 0) (tl y) && (hd 0 y <=? lsub BINT_WORDMSB 1).
Definition o_udivmod (s : store) (x y : nat) : res (store * (nat * nat)) :=
  match udivmod (oget s x) (oget s y) with
  | Err e => Err e
  | Ok (q, r) =>
      let (s1, nume) := o_new s x in
      let (s2, o2) := oalloc s1 bint_zero in
      let qr := if udiv_q_in_nume (oget s y) then (nume, o2) else (o2, nume) in
      Ok (oset (oset s2 (fst qr) q) (snd qr) r, qr)
  end.
(* idivmod: ix = -ix (fresh) when negative; quot:_unm(), quot:_dec(), rema:_unm():_add(y) in place on the
   fresh results *)
Definition o_idivmod (s : store) (x y : nat) : res (store * (nat * nat)) :=
  let nn := isneg (oget s x) in
  let dn := isneg (oget s y) in
  let (s1, ix) := if nn then o_neg s x else (s, x) in
  let (s2, iy) := if dn then o_neg s1 y else (s1, y) in
  match o_udivmod s2 ix iy with
  | Err e => Err e
  | Ok (s3, (q, r)) =>
      match idivmod (oget s x) (oget s y) with
      | Err e => Err e
      | Ok (qv, rv) => Ok (oset (oset s3 q qv) r rv, (q, r))
      end
  end.
(* tdivmod: abs copies, udivmod, then quot = -quot / rema = -rema (fresh again) *)
Definition o_tdivmod (s : store) (x y : nat) : res (store * (nat * nat)) :=
  match tdivmod (oget s x) (oget s y) with
  | Err e => Err e
  | Ok (qv, rv) =>
      let (s1, ax) := o_abs s x in
      let (s2, ay) := o_abs s1 y in
      match o_udivmod s2 ax ay with
      | Err e => Err e
      | Ok (s3, (q, r)) =>
          let (s4, q') := if xorb (isneg (oget s x)) (isneg (oget s y)) then o_neg s3 q else (s3, q) in
          let (s5, r') := if isneg (oget s x) then o_neg s4 r else (s4, r) in
          Ok (oset (oset s5 q' qv) r' rv, (q', r'))
      end
  end.
(* ipow: one() / bint_new(x) / copies of x and y, the copy of y is shifted down in place, result x*z fresh *)
Definition o_ipow (s : store) (x y : nat) : res (store * nat) :=
  match ipow (oget s x) (oget s y) with
  | Err e => Err e
  | Ok v =>
      if biszero (oget s y) then Ok (oalloc s bint_one)
      else if bisone (oget s y) then Ok (o_new s x)
      else
        let (s1, cx) := o_new s x in
        let (s2, cy) := o_new s1 y in
        let (s3, z) := oalloc s2 bint_one in
        Ok (oalloc (oset s3 cy bint_one) v)
  end.
(* upowmod: copies of x and y, z = one(); y:_shrone() on the copy; the result is z *)
Definition o_upowmod (s : store) (x y m : nat) : res (store * nat) :=
  match upowmod (oget s x) (oget s y) (oget s m) with
  | Err e => Err e
  | Ok v =>
      if bisone (oget s m) then Ok (oalloc s bint_zero)
      else
        let (s1, cx) := o_new s x in
        let (s2, cy) := o_new s1 y in
        let (s3, z) := oalloc s2 bint_one in
        Ok (oset (oset s3 cy bint_zero) z v, z)
  end.
(* tobase: x = neg and x:abs() or bint_new(x), the copy is divided down in place; a string is returned *)
Definition o_tobase (s : store) (x : nat) (base : Z) (uo : option bool) : store * res str :=
  let (s1, c) := o_new s x in (oset s1 c bint_zero, tobase (oget s x) base uo).
(* tointeger: x = -x (fresh) when negative; a Lua integer is returned *)
Definition o_tointeger (s : store) (x : nat) : store * Z :=
  let s1 := if isneg (oget s x) then fst (o_neg s x) else s in (s1, tointeger (oget s x)).
(* bn.compress: a Lua integer, or x itself *)
Definition o_compress (s : store) (x : nat) : store * (Z + nat) :=
  match compress (oget s x) with inl i => (s, inl i) | inr _ => (s, inr x) end.
