(* ipow and upowmod *)
From C17 Require Import Model Model2 Proofs ProofsLib ProofsArith ProofsMul ProofsBits ProofsConv ProofsShift ProofsMisc ProofsDiv.
From Coq Require Import ZifyBool.
Local Open Scope Z_scope.
Ltac Zify.zify_post_hook ::= Z.div_mod_to_equations.

Lemma pow_mod_base a k m : 0 < m -> 0 <= k -> ((a mod m) ^ k) mod m = (a ^ k) mod m.
Proof.
  intros Hm Hk. pattern k. apply natlike_ind; [reflexivity | | exact Hk].
  intros n Hn IH. rewrite !Z.pow_succ_r by lia.
  rewrite Z.mul_mod, IH by lia. rewrite Z.mod_mod by lia. rewrite <- Z.mul_mod by lia. reflexivity.
Qed.

Lemma pow_half_even a n : 0 <= n -> n mod 2 = 0 -> a ^ n = (a * a) ^ (n / 2).
Proof.
  intros Hn He. rewrite <- Z.pow_2_r, <- Z.pow_mul_r by lia. f_equal. lia.
Qed.
Lemma pow_half_odd a n : 0 <= n -> n mod 2 = 1 -> a ^ n = (a * a) ^ (n / 2) * a.
Proof.
  intros Hn He. rewrite <- Z.pow_2_r, <- Z.pow_mul_r by lia.
  replace n with (Z.succ (2 * (n / 2))) at 1 by lia. rewrite Z.pow_succ_r by lia. ring.
Qed.

(* y -> y >> 1 resp. (y - 1) >> 1 *)
Lemma half_step y : wf y -> 1 <= uval y ->
  let y' := if biseven y then shrone y else shrone (bdec y) in
  wf y' /\ uval y' = uval y / 2.
Proof.
  intros Hy H1. cbn zeta. destruct (iseven_correct y Hy) as (-> & _). pose proof (wf_range y Hy).
  destruct (uval y mod 2 =? 0) eqn:E.
  - apply shrone_correct; auto.
  - destruct (dec_correct y Hy) as (A & B). rewrite Z.mod_small in B by lia.
    destruct (shrone_correct _ A) as (C & D). split; [exact C|]. rewrite D, B. lia.
Qed.

Lemma ipow_loop_spec fuel : forall x y z, wf x -> wf y -> wf z ->
  2 <= uval y < 2 ^ (Z.of_nat fuel + 1) ->
  exists r, ipow_loop fuel x y z = Ok r /\ wf r /\ uval r = (uval x ^ uval y * uval z) mod Wfull.
Proof.
  pose proof Wfull_pos as HW.
  induction fuel as [|f IH]; intros x y z Hx Hy Hz Hr.
  - change (Z.of_nat 0 + 1) with 1 in Hr. change (2 ^ 1) with 2 in Hr. lia.
  - cbn [ipow_loop]. cbn zeta.
    destruct (half_step y Hy ltac:(lia)) as (Wy' & Vy'). cbn zeta in *.
    set (y' := if biseven y then shrone y else shrone (bdec y)) in *.
    destruct (mul_correct x x Hx Hx) as (Wxx & Vxx).
    set (z' := if biseven y then z else bmul x z).
    assert (Z' : wf z' /\ (uval x ^ uval y * uval z) mod Wfull = ((uval x * uval x) ^ (uval y / 2) * uval z') mod Wfull).
    { subst z'. destruct (iseven_correct y Hy) as (-> & _).
      destruct (uval y mod 2 =? 0) eqn:E.
      - split; [exact Hz|]. rewrite (pow_half_even (uval x) (uval y)) by lia. reflexivity.
      - destruct (mul_correct x z Hx Hz) as (A & B). split; [exact A|]. rewrite B.
        rewrite (pow_half_odd (uval x) (uval y)) by lia.
        rewrite Z.mul_mod_idemp_r by lia. f_equal. ring. }
    destruct Z' as (Wz' & EZ). clearbody z'.
    assert (Hpow : forall k, 0 <= k -> (uval (bmul x x) ^ k * uval z') mod Wfull = ((uval x * uval x) ^ k * uval z') mod Wfull).
    { intros k Hk. rewrite Vxx. rewrite Z.mul_mod, pow_mod_base by lia. rewrite <- Z.mul_mod by lia. reflexivity. }
    rewrite (isone_correct y' Wy'), Vy'.
    destruct (uval y / 2 =? 1) eqn:E1.
    + destruct (mul_correct _ _ Wxx Wz') as (A & B). eexists; split; [reflexivity|]. split; [exact A|].
      rewrite B, EZ. apply Z.eqb_eq in E1. rewrite E1, Z.pow_1_r.
      rewrite Vxx. rewrite Z.mul_mod_idemp_l by lia. reflexivity.
    + destruct (IH (bmul x x) y' z' Wxx Wy' Wz') as (r & A & B & C).
      { rewrite Vy'. split; [lia|]. apply Z.div_lt_upper_bound; [lia|].
        replace (Z.of_nat (S f) + 1) with (Z.succ (Z.of_nat f + 1)) in Hr by lia. rewrite Z.pow_succ_r in Hr by lia. lia. }
      exists r. split; [exact A|]. split; [exact B|]. rewrite C, Vy', EZ. apply Hpow. lia.
Qed.

(* the exponent is read as an unsigned number, as documented *)
Theorem ipow_correct x y : wf x -> wf y ->
  exists r, ipow x y = Ok r /\ wf r /\ uval r = (uval x ^ uval y) mod Wfull.
Proof.
  intros Hx Hy. unfold ipow. pose proof Wfull_pos. pose proof (wf_range x Hx). pose proof (wf_range y Hy) as Ry.
  rewrite iszero_correct, isone_correct by auto. pose proof Wfull_ge64. unfold two64 in *.
  destruct (uval y =? 0) eqn:E0.
  { apply Z.eqb_eq in E0. destruct wf_one as (A & B). exists bint_one. rewrite E0, Z.pow_0_r, B.
    split; [reflexivity|]. split; [exact A|]. symmetry. apply Z.mod_small. lia. }
  destruct (uval y =? 1) eqn:E1.
  { apply Z.eqb_eq in E1. exists x. rewrite E1, Z.pow_1_r. split; [reflexivity|]. split; [exact Hx|].
    symmetry. apply Z.mod_small. lia. }
  destruct wf_one as (W1 & V1).
  destruct (ipow_loop_spec (S (Z.to_nat BINT_BITS)) x y bint_one Hx Hy W1) as (r & A & B & C).
  { split; [lia|]. pose proof bits_ge64. rewrite Nat2Z.inj_succ, Z2Nat.id by lia.
    apply Z.lt_le_trans with Wfull; [lia|]. unfold Wfull. apply Z.pow_le_mono_r; lia. }
  exists r. split; [exact A|]. split; [exact B|]. rewrite C, V1, Z.mul_1_r. reflexivity.
Qed.

(* signed reading, for non-negative exponents *)
Theorem ipow_signed x y : wf x -> wf y -> 0 <= sval y ->
  exists r, ipow x y = Ok r /\ wf r /\ uval r = (sval x ^ sval y) mod Wfull.
Proof.
  intros Hx Hy Hs. destruct (ipow_correct x y Hx Hy) as (r & A & B & C). exists r. split; [exact A|]. split; [exact B|].
  rewrite C. pose proof Wfull_pos.
  assert (Ey : uval y = sval y).
  { unfold sval in *. pose proof (wf_range y Hy). destruct (uval y <? Wfull / 2); lia. }
  rewrite Ey. rewrite (sval_mod x Hx). apply pow_mod_base; lia.
Qed.

(* ---- upowmod ---- *)
Lemma testbit_uval x : Forall limb_ok x -> forall i, 0 <= i ->
  Z.testbit (uval x) i = Z.testbit (nthz x (Z.to_nat (i / BINT_WORDBITS))) (i mod BINT_WORDBITS).
Proof.
  pose proof wb_range as Hwb. unfold nthz.
  induction 1 as [|a r Ha Hr IH]; intros i Hi; cbn [uval].
  - rewrite Z.testbit_0_l. destruct (Z.to_nat (i / BINT_WORDBITS)); cbn [nth]; rewrite Z.testbit_0_l; reflexivity.
  - unfold limb_ok, Wd in *. rewrite testbit_cons by lia.
    pose proof (Z.div_mod i BINT_WORDBITS ltac:(lia)) as D. pose proof (Z.mod_pos_bound i BINT_WORDBITS ltac:(lia)) as M.
    destruct (i <? BINT_WORDBITS) eqn:E.
    + rewrite Z.div_small, Z.mod_small by lia. reflexivity.
    + assert (Hq : 1 <= i / BINT_WORDBITS) by (apply Z.div_le_lower_bound; lia).
      rewrite IH by lia.
      replace (i - BINT_WORDBITS) with (i + (-1) * BINT_WORDBITS) by ring. rewrite Z.div_add, Z.mod_add by lia.
      replace (Z.to_nat (i / BINT_WORDBITS)) with (S (Z.to_nat (i / BINT_WORDBITS + -1))) by lia. reflexivity.
Qed.

Lemma test_bit_spec b i : wf b -> 0 <= i < BINT_BITS -> test_bit b i = Z.testbit (uval b) i.
Proof.
  intros [L F] Hi. unfold test_bit. pose proof wb_range as Hwb. pose proof bits_small as Hbs. change (2 ^ 31) with 2147483648 in Hbs.
  destruct (count_split i Hi) as (Eq & _). unfold imod_wb. rewrite Eq.
  rewrite (testbit_uval b F i) by lia.
  pose proof (Z.mod_pos_bound i BINT_WORDBITS ltac:(lia)) as Hk. set (k := i mod BINT_WORDBITS) in *.
  set (w := nthz b (Z.to_nat (i / BINT_WORDBITS))).
  assert (Hw : limb_ok w) by (apply nth_limb_ok; auto).
  pose proof (limb_i64 w Hw) as Hw64. unfold limb_ok in Hw. clearbody w k.
  rewrite lshr_nonneg by (auto; lia).
  assert (E1 : lband (w / 2 ^ k) 1 = (w / 2 ^ k) mod 2) by (apply (lband_ones (w / 2 ^ k) 1); lia). rewrite E1.
  destruct (Z.testbit w k) eqn:T.
  - apply Z.testbit_true in T; [|lia]. rewrite T. reflexivity.
  - apply Z.testbit_false in T; [|lia]. rewrite T. reflexivity.
Qed.

Lemma uaddmod_spec a b m : wf a -> wf b -> wf m -> uval a < uval m -> uval b < uval m ->
  wf (uaddmod a b m) /\ uval (uaddmod a b m) = (uval a + uval b) mod uval m.
Proof.
  intros Ha Hb Hm La Lb. unfold uaddmod. pose proof (wf_range a Ha). pose proof (wf_range b Hb). pose proof (wf_range m Hm).
  destruct (sub_correct m b Hm Hb) as (W1 & V1). rewrite Z.mod_small in V1 by lia.
  rewrite ult_correct, V1 by auto.
  destruct (uval a <? uval m - uval b) eqn:E.
  - destruct (add_correct a b Ha Hb) as (W2 & V2). split; [exact W2|]. rewrite V2, Z.mod_small by lia. symmetry. apply Z.mod_small. lia.
  - destruct (sub_correct a _ Ha W1) as (W2 & V2). split; [exact W2|]. rewrite V2, V1, Z.mod_small by lia.
    apply Z.mod_unique with 1; lia.
Qed.

Lemma umulmod_loop_spec a b m : wf a -> wf b -> wf m -> uval a < uval m ->
  forall n r, Z.of_nat n <= BINT_BITS -> wf r -> uval r = (uval a * (uval b / 2 ^ Z.of_nat n)) mod uval m ->
  wf (umulmod_loop n a b m r) /\ uval (umulmod_loop n a b m r) = (uval a * uval b) mod uval m.
Proof.
  intros Ha Hb Hm La. pose proof (wf_range a Ha). pose proof (wf_range b Hb) as Rb. pose proof (wf_range m Hm).
  assert (HM : 0 < uval m) by lia.
  induction n as [|n IH]; intros r Hn Hr Vr; cbn [umulmod_loop].
  - change (2 ^ Z.of_nat 0) with 1 in Vr. rewrite Z.div_1_r in Vr. auto.
  - assert (Lr : uval r < uval m) by (rewrite Vr; apply Z.mod_pos_bound; lia).
    destruct (uaddmod_spec r r m Hr Hr Hm Lr Lr) as (W1 & V1).
    assert (L1 : uval (uaddmod r r m) < uval m) by (rewrite V1; apply Z.mod_pos_bound; lia).
    rewrite test_bit_spec by (auto; lia).
    set (q := uval b / 2 ^ Z.of_nat (S n)) in *.
    assert (Hp : 0 < 2 ^ Z.of_nat n) by (apply Z.pow_pos_nonneg; lia).
    assert (Eq : uval b / 2 ^ Z.of_nat n = 2 * q + (if Z.testbit (uval b) (Z.of_nat n) then 1 else 0)).
    { assert (Eqq : q = uval b / 2 ^ Z.of_nat n / 2).
      { subst q. rewrite Nat2Z.inj_succ, Z.pow_succ_r by lia. rewrite (Z.mul_comm 2 (2 ^ Z.of_nat n)).
        symmetry. apply Z.div_div; lia. }
      rewrite Eqq. set (t := uval b / 2 ^ Z.of_nat n).
      assert (Tt : Z.testbit (uval b) (Z.of_nat n) = true -> t mod 2 = 1) by (intros T; apply Z.testbit_true in T; [exact T | lia]).
      assert (Tf : Z.testbit (uval b) (Z.of_nat n) = false -> t mod 2 = 0) by (intros T; apply Z.testbit_false in T; [exact T | lia]).
      clearbody t. destruct (Z.testbit (uval b) (Z.of_nat n)); [specialize (Tt eq_refl) | specialize (Tf eq_refl)]; lia. }
    apply IH; [lia | |].
    + destruct (Z.testbit (uval b) (Z.of_nat n)); [apply uaddmod_spec; auto | exact W1].
    + rewrite Eq. destruct (Z.testbit (uval b) (Z.of_nat n)).
      * destruct (uaddmod_spec _ a m W1 Ha Hm L1 La) as (W2 & V2). rewrite V2, V1, Vr.
        rewrite <- Z.add_mod by lia. rewrite Z.add_mod_idemp_l by lia. f_equal. ring.
      * rewrite V1, Vr. rewrite <- Z.add_mod by lia. f_equal. ring.
Qed.

Lemma umulmod_spec a b m : wf a -> wf b -> wf m -> uval a < uval m ->
  wf (umulmod a b m) /\ uval (umulmod a b m) = (uval a * uval b) mod uval m.
Proof.
  intros Ha Hb Hm La. unfold umulmod. pose proof bits_ge64. pose proof (wf_range b Hb) as Rb. pose proof (wf_range a Ha).
  destruct wf_zero as (Wz & Vz).
  apply umulmod_loop_spec; auto; [rewrite Z2Nat.id by lia; lia|].
  rewrite Vz, Z2Nat.id by lia. fold Wfull. rewrite Z.div_small by lia. rewrite Z.mul_0_r, Z.mod_0_l by lia. reflexivity.
Qed.

Lemma upowmod_loop_spec M fuel : forall x y z m, wf x -> wf y -> wf z -> wf m ->
  uval m = M -> 2 <= M -> uval x < M -> uval z < M ->
  uval y < 2 ^ Z.of_nat fuel ->
  exists r, upowmod_loop true (S fuel) x y z m = Ok r /\ wf r /\ uval r = (uval x ^ uval y * uval z) mod M.
Proof.
  induction fuel as [|f IH]; intros x y z m Hx Hy Hz Hm EM HM2 Hxlt Hzlt Hylt;
    pose proof (wf_range x Hx) as Rx; pose proof (wf_range y Hy) as Ry; pose proof (wf_range z Hz) as Rz;
    cbn [upowmod_loop mulmod_pol]; rewrite (iszero_correct y Hy).
  - change (2 ^ Z.of_nat 0) with 1 in Hylt. assert (E : uval y = 0) by lia. rewrite E. cbn [Z.eqb].
    exists z. split; [reflexivity|]. split; [exact Hz|]. rewrite Z.pow_0_r, Z.mul_1_l. symmetry. apply Z.mod_small. lia.
  - destruct (uval y =? 0) eqn:E0.
    { apply Z.eqb_eq in E0. rewrite E0. exists z. split; [reflexivity|]. split; [exact Hz|].
      rewrite Z.pow_0_r, Z.mul_1_l. symmetry. apply Z.mod_small. lia. }
    destruct (iseven_correct y Hy) as (_ & ->).
    destruct (umulmod_spec x x m Hx Hx Hm ltac:(lia)) as (Wxx & Vxx). rewrite EM in Vxx.
    destruct (shrone_correct y Hy) as (Wy' & Vy').
    assert (Ez : (if uval y mod 2 =? 1 then Ok (umulmod z x m) else Ok z) = Ok (if uval y mod 2 =? 1 then umulmod z x m else z)) by (destruct (uval y mod 2 =? 1); reflexivity).
    rewrite Ez. clear Ez. set (z' := if uval y mod 2 =? 1 then umulmod z x m else z).
    assert (Z' : wf z' /\ uval z' < M /\
                 (uval x ^ uval y * uval z) mod M = ((uval x * uval x) ^ (uval y / 2) * uval z') mod M).
    { subst z'. destruct (uval y mod 2 =? 1) eqn:E.
      - destruct (umulmod_spec z x m Hz Hx Hm ltac:(lia)) as (A & B). rewrite EM in B.
        split; [exact A|]. split; [rewrite B; apply Z.mod_pos_bound; lia|].
        rewrite B, (pow_half_odd (uval x) (uval y)) by lia. rewrite Z.mul_mod_idemp_r by lia. f_equal. ring.
      - split; [exact Hz|]. split; [exact Hzlt|]. rewrite (pow_half_even (uval x) (uval y)) by lia. reflexivity. }
    destruct Z' as (Wz' & Hz'lt & EZ). clearbody z'.
    destruct (IH (umulmod x x m) (shrone y) z' m Wxx Wy' Wz' Hm EM HM2) as (r & R1 & R2 & R3).
    + rewrite Vxx. apply Z.mod_pos_bound. lia.
    + exact Hz'lt.
    + rewrite Vy'. apply Z.div_lt_upper_bound; [lia|]. rewrite Nat2Z.inj_succ, Z.pow_succ_r in Hylt by lia. lia.
    + exists r. split; [exact R1|]. split; [exact R2|]. rewrite R3, Vy', EZ, Vxx.
      rewrite Z.mul_mod, pow_mod_base by lia. rewrite <- Z.mul_mod by lia. reflexivity.
Qed.

Lemma upowmod_policy_fact : upowmod_mulmod = true. Proof. reflexivity. Qed.

(* exact for every modulus - for the policy that multiplies modulo m by double-and-add (nothing wraps) *)
Theorem upowmod_pol_correct x y m : wf x -> wf y -> wf m ->
  (uval m = 0 -> upowmod_pol true x y m = Err EDivZero) /\
  (uval m <> 0 -> exists r, upowmod_pol true x y m = Ok r /\ wf r /\ uval r = (uval x ^ uval y) mod uval m).
Proof.
  intros Hx Hy Hm. unfold upowmod_pol. rewrite isone_correct by auto.
  pose proof (wf_range m Hm) as Rm. pose proof (wf_range y Hy) as Ry.
  split.
  - intros E0. rewrite E0. cbn [Z.eqb]. unfold umod. destruct (udivmod_correct x m Hx Hm) as (D0 & _). rewrite D0 by auto. reflexivity.
  - intros Hne. destruct (uval m =? 1) eqn:E1.
    + apply Z.eqb_eq in E1. rewrite E1. destruct wf_zero as (A & B). exists bint_zero.
      split; [reflexivity|]. split; [exact A|]. rewrite B, Z.mod_1_r. reflexivity.
    + destruct (udiv_umod_correct x m Hx Hm Hne) as (_ & (x' & C & D & F)). rewrite C.
      destruct wf_one as (W1 & V1).
      destruct (upowmod_loop_spec (uval m) (Z.to_nat BINT_BITS) x' y bint_one m D Hy W1 Hm eq_refl ltac:(lia)) as (r & R1 & R2 & R3).
      * rewrite F. apply Z.mod_pos_bound. lia.
      * lia.
      * pose proof bits_ge64. rewrite Z2Nat.id by lia. exact (proj2 Ry).
      * exists r. split; [exact R1|]. split; [exact R2|]. rewrite R3, V1, Z.mul_1_r, F.
        apply pow_mod_base; lia.
Qed.

Theorem upowmod_correct x y m : wf x -> wf y -> wf m ->
  (uval m = 0 -> upowmod x y m = Err EDivZero) /\
  (uval m <> 0 -> exists r, upowmod x y m = Ok r /\ wf r /\ uval r = (uval x ^ uval y) mod uval m).
Proof. unfold upowmod. rewrite upowmod_policy_fact. apply upowmod_pol_correct. Qed.

(* the modular products are needed: with bint_umod(a * b, m) the products wrap at 2^BITS before they are reduced;
   witness x = 2^(BITS/2), y = 2, m = 2^BITS - 1 (x^2 = 2^BITS = 1 mod m, that policy returns 0) *)
Theorem upowmod_mulmod_needed : ~ (forall x y m, wf x -> wf y -> wf m -> uval m <> 0 ->
  exists r, upowmod_pol false x y m = Ok r /\ wf r /\ uval r = (uval x ^ uval y) mod uval m).
Proof.
  intros H.
  pose (x := match bshl bint_one (BINT_BITS / 2) with Some v => v | None => bint_zero end).
  assert (Wx : wf x).
  { destruct (bshl_small bint_one (BINT_BITS / 2) (proj1 wf_one)) as (r & A & B & _).
    - pose proof bits_ge64. split; [apply Z.div_pos; lia | apply Z.div_lt_upper_bound; lia].
    - subst x. rewrite A. exact B. }
  assert (W2 : wf (frominteger 2)) by (apply frominteger_correct; vm_compute; split; discriminate).
  destruct (unm_correct bint_one (proj1 wf_one)) as (Wm & _).
  specialize (H x (frominteger 2) (bunm bint_one) Wx W2 Wm ltac:(vm_compute; discriminate)).
  destruct H as (r & A & _ & C). vm_compute in A. injection A as <-. vm_compute in C. discriminate.
Qed.

Example pow_example :
  ipow (frominteger 3) (frominteger 5) = Ok (frominteger 243) /\
  upowmod (frominteger 3) (frominteger 5) (frominteger 100) = Ok (frominteger 43) /\
  upowmod (frominteger 2) (frominteger 3) (bunm bint_one) = Ok (frominteger 8).
Proof. split; [|split]; vm_compute; reflexivity. Qed.
