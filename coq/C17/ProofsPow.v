(* ipow and upowmod *)
From C17 Require Import Model Model2 Proofs ProofsLib ProofsArith ProofsMul ProofsBits ProofsConv ProofsShift ProofsMisc ProofsDiv.
From Coq Require Import ZifyBool.
Local Open Scope Z_scope.
Ltac Zify.zify_post_hook ::= Z.div_mod_to_equations.

Lemma pow_mod_base a k m : 0 < m -> 0 <= k -> ((a mod m) ^ k) mod m = (a ^ k) mod m.
Proof.
  intros Hm Hk. pattern k. apply natlike_ind; [reflexivity | | exact Hk].
  intros n Hn IH. rewrite !Z.pow_succ_r by lia.
  rewrite Z.mul_mod, IH by lia. rewrite Z.mod_mod by lia. rewrite <- Z.mul_mod by lia. reflexivity.
Qed.

Lemma pow_half_even a n : 0 <= n -> n mod 2 = 0 -> a ^ n = (a * a) ^ (n / 2).
Proof.
  intros Hn He. rewrite <- Z.pow_2_r, <- Z.pow_mul_r by lia. f_equal. lia.
Qed.
Lemma pow_half_odd a n : 0 <= n -> n mod 2 = 1 -> a ^ n = (a * a) ^ (n / 2) * a.
Proof.
  intros Hn He. rewrite <- Z.pow_2_r, <- Z.pow_mul_r by lia.
  replace n with (Z.succ (2 * (n / 2))) at 1 by lia. rewrite Z.pow_succ_r by lia. ring.
Qed.

(* y -> y >> 1 resp. (y - 1) >> 1 *)
Lemma half_step y : wf y -> 1 <= uval y ->
  let y' := if biseven y then shrone y else shrone (bdec y) in
  wf y' /\ uval y' = uval y / 2.
Proof.
  intros Hy H1. cbn zeta. destruct (iseven_correct y Hy) as (-> & _). pose proof (wf_range y Hy).
  destruct (uval y mod 2 =? 0) eqn:E.
  - apply shrone_correct; auto.
  - destruct (dec_correct y Hy) as (A & B). rewrite Z.mod_small in B by lia.
    destruct (shrone_correct _ A) as (C & D). split; [exact C|]. rewrite D, B. lia.
Qed.

Lemma ipow_loop_spec fuel : forall x y z, wf x -> wf y -> wf z ->
  2 <= uval y < 2 ^ (Z.of_nat fuel + 1) ->
  exists r, ipow_loop fuel x y z = Ok r /\ wf r /\ uval r = (uval x ^ uval y * uval z) mod Wfull.
Proof.
  pose proof Wfull_pos as HW.
  induction fuel as [|f IH]; intros x y z Hx Hy Hz Hr.
  - change (Z.of_nat 0 + 1) with 1 in Hr. change (2 ^ 1) with 2 in Hr. lia.
  - cbn [ipow_loop]. cbn zeta.
    destruct (half_step y Hy ltac:(lia)) as (Wy' & Vy'). cbn zeta in *.
    set (y' := if biseven y then shrone y else shrone (bdec y)) in *.
    destruct (mul_correct x x Hx Hx) as (Wxx & Vxx).
    set (z' := if biseven y then z else bmul x z).
    assert (Z' : wf z' /\ (uval x ^ uval y * uval z) mod Wfull = ((uval x * uval x) ^ (uval y / 2) * uval z') mod Wfull).
    { subst z'. destruct (iseven_correct y Hy) as (-> & _).
      destruct (uval y mod 2 =? 0) eqn:E.
      - split; [exact Hz|]. rewrite (pow_half_even (uval x) (uval y)) by lia. reflexivity.
      - destruct (mul_correct x z Hx Hz) as (A & B). split; [exact A|]. rewrite B.
        rewrite (pow_half_odd (uval x) (uval y)) by lia.
        rewrite Z.mul_mod_idemp_r by lia. f_equal. ring. }
    destruct Z' as (Wz' & EZ). clearbody z'.
    assert (Hpow : forall k, 0 <= k -> (uval (bmul x x) ^ k * uval z') mod Wfull = ((uval x * uval x) ^ k * uval z') mod Wfull).
    { intros k Hk. rewrite Vxx. rewrite Z.mul_mod, pow_mod_base by lia. rewrite <- Z.mul_mod by lia. reflexivity. }
    rewrite (isone_correct y' Wy'), Vy'.
    destruct (uval y / 2 =? 1) eqn:E1.
    + destruct (mul_correct _ _ Wxx Wz') as (A & B). eexists; split; [reflexivity|]. split; [exact A|].
      rewrite B, EZ. apply Z.eqb_eq in E1. rewrite E1, Z.pow_1_r.
      rewrite Vxx. rewrite Z.mul_mod_idemp_l by lia. reflexivity.
    + destruct (IH (bmul x x) y' z' Wxx Wy' Wz') as (r & A & B & C).
      { rewrite Vy'. split; [lia|]. apply Z.div_lt_upper_bound; [lia|].
        replace (Z.of_nat (S f) + 1) with (Z.succ (Z.of_nat f + 1)) in Hr by lia. rewrite Z.pow_succ_r in Hr by lia. lia. }
      exists r. split; [exact A|]. split; [exact B|]. rewrite C, Vy', EZ. apply Hpow. lia.
Qed.

(* the exponent is read as an unsigned number, as documented *)
Theorem ipow_correct x y : wf x -> wf y ->
  exists r, ipow x y = Ok r /\ wf r /\ uval r = (uval x ^ uval y) mod Wfull.
Proof.
  intros Hx Hy. unfold ipow. pose proof Wfull_pos. pose proof (wf_range x Hx). pose proof (wf_range y Hy) as Ry.
  rewrite iszero_correct, isone_correct by auto. pose proof Wfull_ge64. unfold two64 in *.
  destruct (uval y =? 0) eqn:E0.
  { apply Z.eqb_eq in E0. destruct wf_one as (A & B). exists bint_one. rewrite E0, Z.pow_0_r, B.
    split; [reflexivity|]. split; [exact A|]. symmetry. apply Z.mod_small. lia. }
  destruct (uval y =? 1) eqn:E1.
  { apply Z.eqb_eq in E1. exists x. rewrite E1, Z.pow_1_r. split; [reflexivity|]. split; [exact Hx|].
    symmetry. apply Z.mod_small. lia. }
  destruct wf_one as (W1 & V1).
  destruct (ipow_loop_spec (S (Z.to_nat BINT_BITS)) x y bint_one Hx Hy W1) as (r & A & B & C).
  { split; [lia|]. pose proof bits_ge64. rewrite Nat2Z.inj_succ, Z2Nat.id by lia.
    apply Z.lt_le_trans with Wfull; [lia|]. unfold Wfull. apply Z.pow_le_mono_r; lia. }
  exists r. split; [exact A|]. split; [exact B|]. rewrite C, V1, Z.mul_1_r. reflexivity.
Qed.

(* ---- upowmod ---- *)
Definition upowmod_exact : Prop := forall x y m, wf x -> wf y -> wf m -> uval m <> 0 ->
  exists r, upowmod x y m = Ok r /\ wf r /\ uval r = (uval x ^ uval y) mod uval m.

Lemma upowmod_loop_spec M fuel : forall x y z m, wf x -> wf y -> wf z -> wf m ->
  uval m = M -> 2 <= M -> M * M <= Wfull -> uval x < M -> uval z < M ->
  uval y < 2 ^ Z.of_nat fuel ->
  exists r, upowmod_loop (S fuel) x y z m = Ok r /\ wf r /\ uval r = (uval x ^ uval y * uval z) mod M.
Proof.
  pose proof Wfull_pos as HW.
  induction fuel as [|f IH]; intros x y z m Hx Hy Hz Hm EM HM2 HMM Hxlt Hzlt Hylt;
    pose proof (wf_range x Hx) as Rx; pose proof (wf_range y Hy) as Ry; pose proof (wf_range z Hz) as Rz;
    cbn [upowmod_loop]; rewrite (iszero_correct y Hy).
  - change (2 ^ Z.of_nat 0) with 1 in Hylt. assert (E : uval y = 0) by lia. rewrite E. cbn [Z.eqb].
    exists z. split; [reflexivity|]. split; [exact Hz|]. rewrite Z.pow_0_r, Z.mul_1_l. symmetry. apply Z.mod_small. lia.
  - destruct (uval y =? 0) eqn:E0.
    { apply Z.eqb_eq in E0. rewrite E0. exists z. split; [reflexivity|]. split; [exact Hz|].
      rewrite Z.pow_0_r, Z.mul_1_l. symmetry. apply Z.mod_small. lia. }
    destruct (iseven_correct y Hy) as (_ & ->).
    (* z' *)
    assert (Z' : exists z', (if uval y mod 2 =? 1 then umod (bmul z x) m else Ok z) = Ok z' /\ wf z' /\ uval z' < M /\
                 (uval x ^ uval y * uval z) mod M = ((uval x * uval x) ^ (uval y / 2) * uval z') mod M).
    { destruct (uval y mod 2 =? 1) eqn:E.
      - destruct (mul_correct z x Hz Hx) as (A & B). rewrite Z.mod_small in B by nia.
        destruct (udiv_umod_correct _ m A Hm ltac:(lia)) as (_ & (r & C & D & F)). rewrite EM, B in F.
        exists r. split; [exact C|]. split; [exact D|]. split; [rewrite F; apply Z.mod_pos_bound; lia|].
        rewrite F, (pow_half_odd (uval x) (uval y)) by lia. rewrite Z.mul_mod_idemp_r by lia. f_equal. ring.
      - exists z. split; [reflexivity|]. split; [exact Hz|]. split; [exact Hzlt|].
        rewrite (pow_half_even (uval x) (uval y)) by lia. reflexivity. }
    destruct Z' as (z' & -> & Wz' & Hz'lt & EZ).
    destruct (mul_correct x x Hx Hx) as (A & B). rewrite Z.mod_small in B by nia.
    destruct (udiv_umod_correct _ m A Hm ltac:(lia)) as (_ & (x' & C & D & F)). rewrite EM, B in F. rewrite C.
    destruct (shrone_correct y Hy) as (Wy' & Vy').
    destruct (IH x' (shrone y) z' m D Wy' Wz' Hm EM HM2 HMM) as (r & R1 & R2 & R3).
    + rewrite F. apply Z.mod_pos_bound. lia.
    + exact Hz'lt.
    + rewrite Vy'. apply Z.div_lt_upper_bound; [lia|]. rewrite Nat2Z.inj_succ, Z.pow_succ_r in Hylt by lia. lia.
    + exists r. split; [exact R1|]. split; [exact R2|]. rewrite R3, Vy', EZ, F.
      rewrite Z.mul_mod, pow_mod_base by lia. rewrite <- Z.mul_mod by lia. reflexivity.
Qed.

(* exact as long as the square of the modulus fits: no product wraps before it is reduced *)
Theorem upowmod_partial x y m : wf x -> wf y -> wf m ->
  (uval m = 0 -> upowmod x y m = Err EDivZero) /\
  (uval m <> 0 -> uval m * uval m <= Wfull ->
     exists r, upowmod x y m = Ok r /\ wf r /\ uval r = (uval x ^ uval y) mod uval m).
Proof.
  intros Hx Hy Hm. unfold upowmod. rewrite isone_correct by auto.
  pose proof (wf_range m Hm) as Rm. pose proof (wf_range y Hy) as Ry.
  split.
  - intros E0. rewrite E0. cbn [Z.eqb]. unfold umod. destruct (udivmod_correct x m Hx Hm) as (D0 & _). rewrite D0 by auto. reflexivity.
  - intros Hne HMM. destruct (uval m =? 1) eqn:E1.
    + apply Z.eqb_eq in E1. rewrite E1. destruct wf_zero as (A & B). exists bint_zero.
      split; [reflexivity|]. split; [exact A|]. rewrite B, Z.mod_1_r. reflexivity.
    + destruct (udiv_umod_correct x m Hx Hm Hne) as (_ & (x' & C & D & F)). rewrite C.
      destruct wf_one as (W1 & V1).
      destruct (upowmod_loop_spec (uval m) (Z.to_nat BINT_BITS) x' y bint_one m D Hy W1 Hm eq_refl ltac:(lia) HMM) as (r & R1 & R2 & R3).
      * rewrite F. apply Z.mod_pos_bound. lia.
      * lia.
      * pose proof bits_ge64. rewrite Z2Nat.id by lia. exact (proj2 Ry).
      * exists r. split; [exact R1|]. split; [exact R2|]. rewrite R3, V1, Z.mul_1_r, F.
        apply pow_mod_base; lia.
Qed.

(* beyond that the products z*x and x*x wrap at 2^BITS before they are reduced: witness
   x = 2^(BITS/2), y = 2, m = 2^BITS - 1 (x^2 = 2^BITS = 1 mod m, the code returns 0) *)
Theorem upowmod_exact_refuted : ~ upowmod_exact.
Proof.
  intros H.
  pose (x := match bshl bint_one (BINT_BITS / 2) with Some v => v | None => bint_zero end).
  assert (Wx : wf x).
  { destruct (bshl_small bint_one (BINT_BITS / 2) (proj1 wf_one)) as (r & A & B & _).
    - pose proof bits_ge64. split; [apply Z.div_pos; lia | apply Z.div_lt_upper_bound; lia].
    - subst x. rewrite A. exact B. }
  assert (W2 : wf (frominteger 2)) by (apply frominteger_correct; vm_compute; split; discriminate).
  destruct (unm_correct bint_one (proj1 wf_one)) as (Wm & _).
  specialize (H x (frominteger 2) (bunm bint_one) Wx W2 Wm ltac:(vm_compute; discriminate)).
  destruct H as (r & A & _ & C). vm_compute in A. injection A as <-. vm_compute in C. discriminate.
Qed.

Example pow_example :
  ipow (frominteger 3) (frominteger 5) = Ok (frominteger 243) /\
  upowmod (frominteger 3) (frominteger 5) (frominteger 100) = Ok (frominteger 43).
Proof. split; vm_compute; reflexivity. Qed.
