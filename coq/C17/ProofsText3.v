(* bn.lua: integer literal reader (bases 2/10/16), tohexint / tobinint / todecint, compress *)
From C17 Require Import Model Model2 Model3 Proofs ProofsLib ProofsArith ProofsMul ProofsBits ProofsConv ProofsShift ProofsMisc
  ProofsSudiv ProofsText ProofsText2.
From Coq Require Import ZifyBool.
Local Open Scope Z_scope.
Ltac Zify.zify_post_hook ::= Z.div_mod_to_equations.

Lemma neg_mod v : (- (v mod Wfull)) mod Wfull = (- v) mod Wfull.
Proof.
  pose proof Wfull_pos. rewrite (Z.div_mod v Wfull) at 2 by lia.
  replace (- (Wfull * (v / Wfull) + v mod Wfull)) with (- (v mod Wfull) + (- (v / Wfull)) * Wfull) by ring.
  rewrite Z.mod_add by lia. reflexivity.
Qed.

(* ---- from(base, ..., int): n = n * base + d for every digit ---- *)
Lemma from_digits_spec base cs : 2 <= base <= 36 -> Forall (char_ok base) cs -> forall n, wf n ->
  exists r, from_digits cs base n = Ok r /\ wf r /\
    uval r = (uval n * base ^ Z.of_nat (length cs) + dval base (map cval cs)) mod Wfull.
Proof.
  intros Hb. pose proof Wfull_pos as HW. induction 1 as [|c r Hc Hr IH]; intros n Hn; cbn [from_digits].
  - exists n. split; [reflexivity|]. split; [exact Hn|]. cbn [length map]. change (dval base []) with 0.
    change (Z.of_nat 0) with 0. rewrite Z.pow_0_r, Z.mul_1_r, Z.add_0_r. pose proof (wf_range n Hn). symmetry. apply Z.mod_small. lia.
  - destruct Hc as (A & B).
    pose proof (tonumber_spec base [] [c] ltac:(lia) (or_introl eq_refl) ltac:(discriminate) ltac:(constructor; [split; auto | constructor])) as Et.
    cbn [app map sign_val] in Et. unfold dval in Et. cbn [dval_acc] in Et. rewrite Z.mul_0_l, Z.add_0_l, Z.mul_1_l in Et.
    rewrite Et by (unfold cval, maxint, two63; lia).
    destruct (frominteger_correct base ltac:(i64)) as (Wb & Ub & _).
    destruct (frominteger_correct (cval c) ltac:(unfold cval; i64)) as (Wc & Uc & _).
    destruct (mul_correct n _ Hn Wb) as (W1 & U1). destruct (add_correct _ _ W1 Wc) as (W2 & U2).
    destruct (IH _ W2) as (x & X1 & X2 & X3). exists x. split; [exact X1|]. split; [exact X2|].
    rewrite X3, U2, U1, Ub, Uc. cbn [length map]. rewrite Nat2Z.inj_succ, Z.pow_succ_r by lia.
    change (dval base (cval c :: map cval r)) with (dval_acc base (map cval r) (0 * base + cval c)).
    rewrite dval_acc_shift, map_length.
    rewrite Z.mul_mod_idemp_r, <- Z.add_mod by lia.
    rewrite Z.add_mod, Z.mul_mod_idemp_l, <- Z.add_mod by lia. f_equal; ring.
Qed.

Definition lit_sign (neg : bool) : Z := if neg then -1 else 1.

(* binary literal [-]0b<digits> *)
Theorem from_bin_correct neg cs : Forall (char_ok 2) cs ->
  exists x, bn_from_bin neg cs = Ok x /\ wf x /\ uval x = (lit_sign neg * dval 2 (map cval cs)) mod Wfull.
Proof.
  intros Hcs. unfold bn_from_bin. destruct wf_zero as (Wz & Vz).
  destruct (from_digits_spec 2 cs ltac:(lia) Hcs bint_zero Wz) as (r & A & B & C). rewrite A.
  rewrite Vz, Z.mul_0_l, Z.add_0_l in C. destruct neg; cbn [lit_sign].
  - destruct (unm_correct r B) as (U1 & U2). exists (bunm r). split; [reflexivity|]. split; [exact U1|].
    rewrite U2, C, neg_mod. f_equal; ring.
  - exists r. rewrite Z.mul_1_l. auto.
Qed.

(* hexadecimal literal [-]0x<digits> without fraction/exponent *)
Theorem from_hex_correct neg cs : cs <> [] -> Forall (char_ok 16) cs ->
  exists x, bn_from_hex neg cs = Ok x /\ wf x /\ uval x = (lit_sign neg * dval 16 (map cval cs)) mod Wfull.
Proof.
  intros Hne Hcs. unfold bn_from_hex.
  destruct (frombase_correct 16 [] cs ltac:(lia) (or_introl eq_refl) Hne Hcs) as (r & A & B & C).
  cbn [app sign_val] in A, C. rewrite A. rewrite Z.mul_1_l in C. destruct neg; cbn [lit_sign].
  - destruct (unm_correct r B) as (U1 & U2). exists (bunm r). split; [reflexivity|]. split; [exact U1|].
    rewrite U2, C, neg_mod. f_equal; ring.
  - exists r. rewrite Z.mul_1_l. auto.
Qed.

(* ---- integers to text ---- *)
Theorem todecint_correct v : wf v ->
  exists ds, todecint v = Ok ((if sval v <? 0 then [45] else []) ++ map digit_char ds) /\ canon 10 ds (Z.abs (sval v)).
Proof.
  intros Hv. destruct (tobase_correct v 10 (Some false) Hv ltac:(lia)) as (ds & A & B). cbn zeta in *.
  exists ds. unfold todecint. unfold tobase_neg, tobase_val in *. cbn [negb andb] in *. auto.
Qed.

(* ---- decimal literal: exact within the accepted range, a float beyond ---- *)
Lemma str_eqb_spec a : forall b, str_eqb a b = true <-> a = b.
Proof.
  induction a as [|x a IH]; intros [|y b]; cbn [str_eqb]; try (split; [discriminate | congruence]); [tauto|].
  rewrite andb_true_iff, IH, Z.eqb_eq. split; [intros (-> & ->); reflexivity | intros E; injection E; auto].
Qed.

Definition dec_check (c : Z) : bool :=
  negb (is_alnum c && (char_digit c <? 10)) || (is_digit c && (c =? digit_char (char_digit c))).
Lemma dec_check_all : forallb dec_check (map Z.of_nat (seq 48 75)) = true.
Proof. vm_compute. reflexivity. Qed.

Lemma char_ok10 c : char_ok 10 c -> is_digit c = true /\ c = digit_char (cval c) /\ (c = 48 <-> cval c = 0).
Proof.
  intros (A & B).
  assert (R : 48 <= c <= 122) by (unfold is_alnum, is_digit, is_upper, is_lower in A; lia).
  pose proof dec_check_all as X. rewrite forallb_forall in X.
  specialize (X c ltac:(apply in_map_iff; exists (Z.to_nat c); split; [lia | apply in_seq; lia])).
  unfold dec_check in X. rewrite A in X. destruct (char_digit c <? 10) eqn:E; [|lia]. cbn [andb negb orb] in X.
  apply andb_prop in X. destruct X as (X1 & X2). apply Z.eqb_eq in X2. unfold cval.
  split; [exact X1|]. split; [exact X2|].
  assert (Ecd : char_digit c = c - 48) by (unfold char_digit; rewrite X1; reflexivity). lia.
Qed.

Lemma dval_cons base d r : dval base (d :: r) = d * base ^ Z.of_nat (length r) + dval base r.
Proof. change (dval base (d :: r)) with (dval_acc base r (0 * base + d)). rewrite dval_acc_shift. ring. Qed.

(* canonical digit lists are unique *)
Lemma dval_inj_len base : 2 <= base -> forall a b, length a = length b -> digits_ok base a -> digits_ok base b ->
  dval base a = dval base b -> a = b.
Proof.
  intros Hb. induction a as [|x a IH]; intros [|y b] L Ha Hb' E; try discriminate; [reflexivity|].
  inversion Ha; inversion Hb'; subst. injection L as L. rewrite !dval_cons, L in E.
  pose proof (dval_bound base a ltac:(lia) ltac:(assumption)) as Ra. pose proof (dval_bound base b ltac:(lia) ltac:(assumption)) as Rb.
  rewrite L in Ra. set (P := base ^ Z.of_nat (length b)) in *. assert (0 < P) by (subst P; apply Z.pow_pos_nonneg; lia).
  assert (x = y) by nia. subst y. f_equal. apply IH; auto. lia.
Qed.

Lemma canon_len base ds v : 2 <= base -> canon base ds v -> v <> 0 ->
  base ^ (Z.of_nat (length ds) - 1) <= v < base ^ Z.of_nat (length ds).
Proof.
  intros Hb (C1 & C2 & C3 & C4 & C5) Hv. specialize (C5 Hv). destruct ds as [|d r]; [congruence|]. cbn [hd] in C5.
  inversion C1; subst. pose proof (dval_bound base (d :: r) ltac:(lia) C1) as R. rewrite dval_cons in *.
  pose proof (dval_bound base r ltac:(lia) ltac:(assumption)). cbn [length]. rewrite Nat2Z.inj_succ.
  replace (Z.succ (Z.of_nat (length r)) - 1) with (Z.of_nat (length r)) by lia.
  assert (0 < base ^ Z.of_nat (length r)) by (apply Z.pow_pos_nonneg; lia).
  cbn [length] in R. rewrite Nat2Z.inj_succ in R. split; [nia | lia].
Qed.

Lemma canon_unique base a b v : 2 <= base -> canon base a v -> canon base b v -> a = b.
Proof.
  intros Hb Ca Cb. destruct (Z.eq_dec v 0) as [E|E].
  - destruct Ca as (_ & _ & _ & A & _). destruct Cb as (_ & _ & _ & B & _). rewrite (A E), (B E). reflexivity.
  - pose proof (canon_len base a v Hb Ca E) as La. pose proof (canon_len base b v Hb Cb E) as Lb.
    assert (L : length a = length b).
    { destruct (Nat.lt_trichotomy (length a) (length b)) as [H|[H|H]]; [exfalso | exact H | exfalso].
      - assert (base ^ Z.of_nat (length a) <= base ^ (Z.of_nat (length b) - 1)) by (apply Z.pow_le_mono_r; lia). lia.
      - assert (base ^ Z.of_nat (length b) <= base ^ (Z.of_nat (length a) - 1)) by (apply Z.pow_le_mono_r; lia). lia. }
    destruct Ca as (A1 & A2 & _). destruct Cb as (B1 & B2 & _). apply (dval_inj_len base Hb a b L A1 B1). congruence.
Qed.

(* the capture of '^0*(%d+)$' is the canonical decimal form of the digits read *)
Lemma strip0_canon cs : cs <> [] -> Forall (char_ok 10) cs ->
  exists ds, strip0 cs = map digit_char ds /\ canon 10 ds (dval 10 (map cval cs)).
Proof.
  induction cs as [|c r IH]; intros Hne Hcs; [congruence|]. inversion Hcs as [|? ? Hc Hr]; subst.
  destruct (char_ok10 c Hc) as (D1 & D2 & D3). destruct Hc as (A & B). change (char_digit c) with (cval c) in B.
  destruct r as [|c2 r'].
  - exists [cval c]. cbn [strip0 map]. split; [f_equal; exact D2|].
    unfold canon, digits_ok, dval. cbn [dval_acc hd]. split; [constructor; [lia | constructor]|]. split; [ring|].
    split; [discriminate|]. split; [intros E0; f_equal; lia | intros; lia].
  - change (strip0 (c :: c2 :: r')) with (if c =? 48 then strip0 (c2 :: r') else c :: c2 :: r').
    change (map cval (c :: c2 :: r')) with (cval c :: map cval (c2 :: r')). rewrite dval_cons.
    destruct (c =? 48) eqn:E.
    + apply Z.eqb_eq in E. rewrite (proj1 D3 E), Z.mul_0_l, Z.add_0_l. apply IH; [discriminate | exact Hr].
    + assert (Hd : cval c <> 0) by (intro X; apply D3 in X; lia).
      exists (cval c :: map cval (c2 :: r')).
      assert (Hok : digits_ok 10 (map cval (c :: c2 :: r'))) by (apply chars_ok_digits; exact Hcs).
      split.
      { change (cval c :: map cval (c2 :: r')) with (map cval (c :: c2 :: r')).
        clear - Hcs. induction Hcs as [|x l Hx Hl IHl]; cbn [map]; [reflexivity|]. destruct (char_ok10 x Hx) as (_ & E & _).
        rewrite <- E, <- IHl. reflexivity. }
      pose proof (dval_bound 10 (map cval (c2 :: r')) ltac:(lia) (chars_ok_digits _ _ Hr)) as Rr.
      assert (0 < 10 ^ Z.of_nat (length (map cval (c2 :: r')))) by (apply Z.pow_pos_nonneg; lia).
      split; [exact Hok|]. split; [rewrite dval_cons; reflexivity|].
      split; [discriminate|]. cbn [hd]. split; [intros; nia | intros _; exact Hd].
Qed.

Lemma dec_digits_spec cs : cs <> [] -> Forall (char_ok 10) cs -> dec_digits cs = Some (strip0 cs).
Proof.
  intros Hne Hcs. unfold dec_digits. destruct cs; [congruence|].
  assert (E : forallb is_digit (z :: cs) = true).
  { apply forallb_forall. intros c Hc. rewrite Forall_forall in Hcs. exact (proj1 (char_ok10 c (Hcs c Hc))). }
  rewrite E. reflexivity.
Qed.

Lemma dec_digits_signed sg cs : sg = [45] \/ sg = [43] -> dec_digits (sg ++ cs) = None.
Proof. intros [-> | ->]; reflexivity. Qed.

(* unsigned decimal literal: an exact integer below 2^(BITS-1) (no wrap is possible), a float from there on *)
Lemma dec_policy_fact : dec_literal_checked = true. Proof. reflexivity. Qed.

Theorem from_dec_pol_unsigned cs : cs <> [] -> Forall (char_ok 10) cs ->
  let v := dval 10 (map cval cs) in
  (v < Wfull / 2 -> exists x, bn_from_dec_pol true cs = Ok (LInt x) /\ wf x /\ uval x = v /\ sval x = v) /\
  (Wfull / 2 <= v -> bn_from_dec_pol true cs = Ok LFloat).
Proof.
  intros Hne Hcs. cbn zeta. set (v := dval 10 (map cval cs)).
  destruct (frombase_correct 10 [] cs ltac:(lia) (or_introl eq_refl) Hne Hcs) as (n & A & B & C).
  cbn [app sign_val] in A, C. rewrite Z.mul_1_l in C. fold v in C.
  unfold bn_from_dec_pol. rewrite A, (dec_digits_spec cs Hne Hcs).
  destruct (todecint_correct n B) as (ds & T & Cn). rewrite T.
  destruct (strip0_canon cs Hne Hcs) as (ds' & S & Cs). fold v in Cs. rewrite S.
  pose proof (dval_bound 10 (map cval cs) ltac:(lia) (chars_ok_digits _ _ Hcs)) as (Hv0 & _). fold v in Hv0.
  pose proof Wfull_half as HH. pose proof Wfull_pos. pose proof (sval_range n B) as Rs.
  split.
  - intros Hlt. assert (Es : sval n = v) by (apply sval_of_mod; auto; lia).
    rewrite Es in *. destruct (v <? 0) eqn:En; [lia|]. cbn [app]. rewrite Z.abs_eq in Cn by lia.
    rewrite (canon_unique 10 ds ds' v ltac:(lia) Cn Cs).
    rewrite (proj2 (str_eqb_spec _ _) eq_refl). exists n. split; [reflexivity|]. split; [exact B|].
    split; [rewrite C; apply Z.mod_small; lia | exact Es].
  - intros Hge. destruct (str_eqb _ _) eqn:Eq; [exfalso | reflexivity]. apply str_eqb_spec in Eq.
    destruct Cs as (S1 & S2 & S3 & _). destruct Cn as (N1 & N2 & N3 & _).
    destruct (sval n <? 0) eqn:En.
    + (* a minus sign against a digit *)
      destruct ds' as [|d0 r0]; [congruence|]. cbn [app map] in Eq. injection Eq as E0 _.
      inversion S1; subst. unfold digit_char in E0. destruct (d0 <? 10); lia.
    + cbn [app] in Eq.
      assert (ds = ds').
      { destruct (digit_chars_ok 10 ds ltac:(lia) N1) as (_ & K1). destruct (digit_chars_ok 10 ds' ltac:(lia) S1) as (_ & K2).
        rewrite <- K1, <- K2, Eq. reflexivity. }
      subst ds'. rewrite Z.abs_eq in N2 by lia. lia.
Qed.

Theorem from_dec_unsigned cs : cs <> [] -> Forall (char_ok 10) cs ->
  let v := dval 10 (map cval cs) in
  (v < Wfull / 2 -> exists x, bn_from_dec cs = Ok (LInt x) /\ wf x /\ uval x = v /\ sval x = v) /\
  (Wfull / 2 <= v -> bn_from_dec cs = Ok LFloat).
Proof. unfold bn_from_dec. rewrite dec_policy_fact. apply from_dec_pol_unsigned. Qed.

(* the test is needed: the reader that keeps the parsed value reads the decimal digits of 2^BITS as 0 *)
Definition pow_digits : str :=
  match digits_fuel 400 10 Wfull [] with Some ds => map digit_char ds | None => [] end.

Theorem dec_check_needed : ~ (forall cs, cs <> [] -> Forall (char_ok 10) cs ->
  let v := dval 10 (map cval cs) in
  (v < Wfull / 2 -> exists x, bn_from_dec_pol false cs = Ok (LInt x) /\ wf x /\ uval x = v /\ sval x = v) /\
  (Wfull / 2 <= v -> bn_from_dec_pol false cs = Ok LFloat)).
Proof.
  intros H.
  assert (Hne : pow_digits <> []) by (vm_compute; discriminate).
  assert (Hok : Forall (char_ok 10) pow_digits).
  { apply Forall_forall. intros c Hc.
    assert (Hb : forallb (fun c => is_alnum c && (0 <=? char_digit c) && (char_digit c <? 10)) pow_digits = true) by (vm_compute; reflexivity).
    rewrite forallb_forall in Hb. specialize (Hb c Hc). apply andb_prop in Hb. destruct Hb as (Hb1 & Hb3).
    apply andb_prop in Hb1. destruct Hb1 as (Hb1 & Hb2). split; [exact Hb1 | lia]. }
  destruct (H pow_digits Hne Hok) as (_ & Hf). cbn zeta in Hf.
  assert (Ev : dval 10 (map cval pow_digits) = Wfull) by (vm_compute; reflexivity).
  rewrite Ev in Hf. specialize (Hf ltac:(vm_compute; discriminate)).
  vm_compute in Hf. discriminate Hf.
Qed.

(* a signed string is not subject to the test (it never reaches the reader from the compiler's lexer) and wraps *)
Theorem from_dec_signed sg cs : sg = [45] \/ sg = [43] -> cs <> [] -> Forall (char_ok 10) cs ->
  exists x, bn_from_dec (sg ++ cs) = Ok (LInt x) /\ wf x /\ uval x = (sign_val sg * dval 10 (map cval cs)) mod Wfull.
Proof.
  intros Hs Hne Hcs.
  destruct (frombase_correct 10 sg cs ltac:(lia) ltac:(right; exact Hs) Hne Hcs) as (n & A & B & C).
  unfold bn_from_dec, bn_from_dec_pol. rewrite A. destruct dec_literal_checked; [rewrite (dec_digits_signed sg cs Hs)|]; exists n; auto.
Qed.

Definition wrapped_val (v : bint) (bits : option Z) : Z :=
  match bits with None => uval v | Some b => if b <=? 0 then 0 else uval v mod 2 ^ b end.

Lemma with_bits_spec v bits : wf v -> (forall b, bits = Some b -> in_i64 b) ->
  exists w, with_bits v bits = Ok w /\ wf w /\ uval w = wrapped_val v bits.
Proof.
  intros Hv Hb. unfold with_bits, wrapped_val. destruct bits as [b|].
  - destruct (bwrap_correct v b Hv (Hb b eq_refl)) as (r & A & B & C). rewrite A. exists r. auto.
  - exists v. auto.
Qed.

Theorem tohexint_correct v bits : wf v -> (forall b, bits = Some b -> in_i64 b) ->
  exists ds, tohexint v bits = Ok (map digit_char ds) /\ canon 16 ds (wrapped_val v bits).
Proof.
  intros Hv Hb. unfold tohexint. destruct (with_bits_spec v bits Hv Hb) as (w & A & B & C). rewrite A.
  destruct (tobase_correct w 16 (Some true) B ltac:(lia)) as (ds & D & E). cbn zeta in *.
  unfold tobase_neg, tobase_val in *. cbn [negb andb app] in *. rewrite C in E. exists ds. auto.
Qed.

Theorem tobinint_correct v bits : wf v -> (forall b, bits = Some b -> in_i64 b) ->
  exists ds, tobinint v bits = Ok (map digit_char ds) /\ canon 2 ds (wrapped_val v bits).
Proof.
  intros Hv Hb. unfold tobinint. destruct (with_bits_spec v bits Hv Hb) as (w & A & B & C). rewrite A.
  destruct (tobase_correct w 2 (Some true) B ltac:(lia)) as (ds & D & E). cbn zeta in *.
  unfold tobase_neg, tobase_val in *. cbn [negb andb app] in *. rewrite C in E. exists ds. auto.
Qed.

(* ---- compress ---- *)
Theorem compress_correct x : wf x ->
  compress x = if (sval x <=? maxint) && (minint <=? sval x) then inl (sval x) else inr x.
Proof.
  intros Hx. unfold compress.
  destruct (frominteger_correct maxint ltac:(i64)) as (Wmax & _ & Smax).
  destruct (frominteger_correct minint ltac:(i64)) as (Wmin & _ & Smin).
  rewrite (le_correct x _ Hx Wmax), (le_correct _ x Wmin Hx), Smax, Smin, (tointeger_correct x Hx).
  destruct ((sval x <=? maxint) && (minint <=? sval x)) eqn:E; [|reflexivity].
  rewrite wrap64_id by i64. reflexivity.
Qed.

Example text_example2 :
  todecint (frominteger (-255)) = Ok [45; 50; 53; 53] /\
  frombase [45; 50; 53; 53] 10 = Ok (frominteger (-255)) /\
  bn_from_dec [50; 53; 53] = Ok (LInt (frominteger 255)) /\
  bn_from_hex true [70; 102] = Ok (frominteger (-255)) /\
  tohexint (frominteger (-1)) (Some 8) = Ok [102; 102].
Proof. repeat split; vm_compute; reflexivity. Qed.
