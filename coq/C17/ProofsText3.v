(* bn.lua: integer literal reader (bases 2/10/16), tohexint / tobinint / todecint, compress *)
From C17 Require Import Model Model2 Model3 Proofs ProofsLib ProofsArith ProofsBits ProofsConv ProofsShift ProofsMisc
  ProofsDiv ProofsText ProofsText2.
From Coq Require Import ZifyBool.
Local Open Scope Z_scope.
Ltac Zify.zify_post_hook ::= Z.div_mod_to_equations.

Lemma neg_mod v : (- (v mod Wfull)) mod Wfull = (- v) mod Wfull.
Proof.
  pose proof Wfull_pos. rewrite (Z.div_mod v Wfull) at 2 by lia.
  replace (- (Wfull * (v / Wfull) + v mod Wfull)) with (- (v mod Wfull) + (- (v / Wfull)) * Wfull) by ring.
  rewrite Z.mod_add by lia. reflexivity.
Qed.

(* ---- from(base, ..., int): n = n * base + d for every digit ---- *)
Lemma from_digits_spec base cs : 2 <= base <= 36 -> Forall (char_ok base) cs -> forall n, wf n ->
  exists r, from_digits cs base n = Ok r /\ wf r /\
    uval r = (uval n * base ^ Z.of_nat (length cs) + dval base (map cval cs)) mod Wfull.
Proof.
  intros Hb. pose proof Wfull_pos as HW. induction 1 as [|c r Hc Hr IH]; intros n Hn; cbn [from_digits].
  - exists n. split; [reflexivity|]. split; [exact Hn|]. cbn [length map]. change (dval base []) with 0.
    change (Z.of_nat 0) with 0. rewrite Z.pow_0_r, Z.mul_1_r, Z.add_0_r. pose proof (wf_range n Hn). symmetry. apply Z.mod_small. lia.
  - destruct Hc as (A & B).
    pose proof (tonumber_spec base [] [c] ltac:(lia) (or_introl eq_refl) ltac:(discriminate) ltac:(constructor; [split; auto | constructor])) as Et.
    cbn [app map sign_val] in Et. unfold dval in Et. cbn [dval_acc] in Et. rewrite Z.mul_0_l, Z.add_0_l, Z.mul_1_l in Et.
    rewrite Et by (unfold cval, maxint, two63; lia).
    destruct (frominteger_correct base ltac:(i64)) as (Wb & Ub & _).
    destruct (frominteger_correct (cval c) ltac:(unfold cval; i64)) as (Wc & Uc & _).
    destruct (mul_correct n _ Hn Wb) as (W1 & U1). destruct (add_correct _ _ W1 Wc) as (W2 & U2).
    destruct (IH _ W2) as (x & X1 & X2 & X3). exists x. split; [exact X1|]. split; [exact X2|].
    rewrite X3, U2, U1, Ub, Uc. cbn [length map]. rewrite Nat2Z.inj_succ, Z.pow_succ_r by lia.
    change (dval base (cval c :: map cval r)) with (dval_acc base (map cval r) (0 * base + cval c)).
    rewrite dval_acc_shift, map_length.
    rewrite Z.mul_mod_idemp_r, <- Z.add_mod by lia.
    rewrite Z.add_mod, Z.mul_mod_idemp_l, <- Z.add_mod by lia. f_equal; ring.
Qed.

Definition lit_sign (neg : bool) : Z := if neg then -1 else 1.

(* binary literal [-]0b<digits> *)
Theorem from_bin_correct neg cs : Forall (char_ok 2) cs ->
  exists x, bn_from_bin neg cs = Ok x /\ wf x /\ uval x = (lit_sign neg * dval 2 (map cval cs)) mod Wfull.
Proof.
  intros Hcs. unfold bn_from_bin. destruct wf_zero as (Wz & Vz).
  destruct (from_digits_spec 2 cs ltac:(lia) Hcs bint_zero Wz) as (r & A & B & C). rewrite A.
  rewrite Vz, Z.mul_0_l, Z.add_0_l in C. destruct neg; cbn [lit_sign].
  - destruct (unm_correct r B) as (U1 & U2). exists (bunm r). split; [reflexivity|]. split; [exact U1|].
    rewrite U2, C, neg_mod. f_equal; ring.
  - exists r. rewrite Z.mul_1_l. auto.
Qed.

(* hexadecimal literal [-]0x<digits> without fraction/exponent *)
Theorem from_hex_correct neg cs : cs <> [] -> Forall (char_ok 16) cs ->
  exists x, bn_from_hex neg cs = Ok x /\ wf x /\ uval x = (lit_sign neg * dval 16 (map cval cs)) mod Wfull.
Proof.
  intros Hne Hcs. unfold bn_from_hex.
  destruct (frombase_correct 16 [] cs ltac:(lia) (or_introl eq_refl) Hne Hcs) as (r & A & B & C).
  cbn [app sign_val] in A, C. rewrite A. rewrite Z.mul_1_l in C. destruct neg; cbn [lit_sign].
  - destruct (unm_correct r B) as (U1 & U2). exists (bunm r). split; [reflexivity|]. split; [exact U1|].
    rewrite U2, C, neg_mod. f_equal; ring.
  - exists r. rewrite Z.mul_1_l. auto.
Qed.

(* decimal literal [+-]<digits> *)
Theorem from_dec_correct sg cs : sign_ok sg -> cs <> [] -> Forall (char_ok 10) cs ->
  exists x, bn_from_dec (sg ++ cs) = Ok x /\ wf x /\ uval x = (sign_val sg * dval 10 (map cval cs)) mod Wfull.
Proof. intros. unfold bn_from_dec. apply frombase_correct; auto. lia. Qed.

(* ---- integers to text ---- *)
Theorem todecint_correct v : wf v ->
  exists ds, todecint v = Ok ((if sval v <? 0 then [45] else []) ++ map digit_char ds) /\ canon 10 ds (Z.abs (sval v)).
Proof.
  intros Hv. destruct (tobase_correct v 10 (Some false) Hv ltac:(lia)) as (ds & A & B). cbn zeta in *.
  exists ds. unfold todecint. unfold tobase_neg, tobase_val in *. cbn [negb andb] in *. auto.
Qed.

Definition wrapped_val (v : bint) (bits : option Z) : Z :=
  match bits with None => uval v | Some b => if b <=? 0 then 0 else uval v mod 2 ^ b end.

Lemma with_bits_spec v bits : wf v -> (forall b, bits = Some b -> in_i64 b) ->
  exists w, with_bits v bits = Ok w /\ wf w /\ uval w = wrapped_val v bits.
Proof.
  intros Hv Hb. unfold with_bits, wrapped_val. destruct bits as [b|].
  - destruct (bwrap_correct v b Hv (Hb b eq_refl)) as (r & A & B & C). rewrite A. exists r. auto.
  - exists v. auto.
Qed.

Theorem tohexint_correct v bits : wf v -> (forall b, bits = Some b -> in_i64 b) ->
  exists ds, tohexint v bits = Ok (map digit_char ds) /\ canon 16 ds (wrapped_val v bits).
Proof.
  intros Hv Hb. unfold tohexint. destruct (with_bits_spec v bits Hv Hb) as (w & A & B & C). rewrite A.
  destruct (tobase_correct w 16 (Some true) B ltac:(lia)) as (ds & D & E). cbn zeta in *.
  unfold tobase_neg, tobase_val in *. cbn [negb andb app] in *. rewrite C in E. exists ds. auto.
Qed.

Theorem tobinint_correct v bits : wf v -> (forall b, bits = Some b -> in_i64 b) ->
  exists ds, tobinint v bits = Ok (map digit_char ds) /\ canon 2 ds (wrapped_val v bits).
Proof.
  intros Hv Hb. unfold tobinint. destruct (with_bits_spec v bits Hv Hb) as (w & A & B & C). rewrite A.
  destruct (tobase_correct w 2 (Some true) B ltac:(lia)) as (ds & D & E). cbn zeta in *.
  unfold tobase_neg, tobase_val in *. cbn [negb andb app] in *. rewrite C in E. exists ds. auto.
Qed.

(* ---- compress ---- *)
Theorem compress_correct x : wf x ->
  compress x = if (sval x <=? maxint) && (minint <=? sval x) then inl (sval x) else inr x.
Proof.
  intros Hx. unfold compress.
  destruct (frominteger_correct maxint ltac:(i64)) as (Wmax & _ & Smax).
  destruct (frominteger_correct minint ltac:(i64)) as (Wmin & _ & Smin).
  rewrite (le_correct x _ Hx Wmax), (le_correct _ x Wmin Hx), Smax, Smin, (tointeger_correct x Hx).
  destruct ((sval x <=? maxint) && (minint <=? sval x)) eqn:E; [|reflexivity].
  rewrite wrap64_id by i64. reflexivity.
Qed.

Example text_example2 :
  todecint (frominteger (-255)) = Ok [45; 50; 53; 53] /\
  frombase [45; 50; 53; 53] 10 = Ok (frominteger (-255)) /\
  bn_from_hex true [70; 102] = Ok (frominteger (-255)) /\
  tohexint (frominteger (-1)) (Some 8) = Ok [102; 102].
Proof. repeat split; vm_compute; reflexivity. Qed.
