(* sudivmod, findleftbit, udivmod: unsigned division with remainder *)
From C17 Require Import Model Model2 Proofs ProofsLib ProofsArith ProofsBits ProofsConv ProofsShift ProofsMisc ProofsSudiv.
From Coq Require Import ZifyBool.
Local Open Scope Z_scope.
Ltac Zify.zify_post_hook ::= Z.div_mod_to_equations.

(* ---- findleftbit ---- *)
Lemma log2_half v : 2 <= v -> Z.log2 (v / 2) = Z.log2 v - 1.
Proof.
  intros Hv. pose proof (Z.log2_spec v ltac:(lia)) as (A & B).
  assert (1 <= Z.log2 v) by (change 1 with (Z.log2 2); apply Z.log2_le_mono; lia).
  apply Z.log2_unique; [lia|].
  replace (Z.succ (Z.log2 v)) with (Z.succ (Z.log2 v - 1) + 1) in B by lia.
  replace (Z.log2 v) with ((Z.log2 v - 1) + 1) in A at 1 by lia.
  rewrite Z.pow_add_r in A, B by lia. change (2 ^ 1) with 2 in *.
  replace (Z.log2 v - 1 + 1) with (Z.succ (Z.log2 v - 1)) by lia. lia.
Qed.

Lemma bitlen_loop_spec fuel : forall v j, 0 < v < two63 -> in_i64 (j + Z.log2 v + 1) -> in_i64 j ->
  (Z.to_nat (Z.log2 v) < fuel)%nat ->
  bitlen_loop fuel v j = Some (j + Z.log2 v + 1).
Proof.
  induction fuel as [|f IH]; intros v j Hv Hj Hj0 Hf; [lia|]. cbn [bitlen_loop].
  rewrite lshr_nonneg by (try lia; i64). change (2 ^ 1) with 2.
  pose proof (Z.log2_nonneg v).
  rewrite ladd_exact by i64.
  destruct (v / 2 =? 0) eqn:E.
  - assert (v = 1) by lia. subst v. change (Z.log2 1) with 0. f_equal. ring.
  - assert (2 <= v) by lia. pose proof (log2_half v ltac:(lia)) as Hl.
    assert (1 <= Z.log2 v) by (change 1 with (Z.log2 2); apply Z.log2_le_mono; lia).
    rewrite IH; [f_equal; lia | lia | rewrite Hl; replace (j + 1 + (Z.log2 v - 1) + 1) with (j + Z.log2 v + 1) by ring; auto | i64 | lia].
Qed.

Lemma log2_shift lo P k v : P = 2 ^ k -> 0 <= k -> 0 <= lo < P -> 0 < v -> Z.log2 (lo + P * v) = k + Z.log2 v.
Proof.
  intros EP Hk Hlo Hv. pose proof (Z.log2_spec v Hv) as (A & B). pose proof (Z.log2_nonneg v).
  assert (0 < P) by (subst P; apply Z.pow_pos_nonneg; lia).
  apply Z.log2_unique; [lia|]. replace (Z.succ (k + Z.log2 v)) with (k + Z.succ (Z.log2 v)) by lia.
  rewrite !Z.pow_add_r by lia. rewrite <- EP. nia.
Qed.

Lemma findleft_rev_spec rx : Forall limb_ok rx -> Z.of_nat (length rx) < 2 ^ 31 ->
  (uval (rev rx) = 0 -> findleft_rev rx = Err ENil) /\
  (uval (rev rx) <> 0 -> exists i, findleft_rev rx = Ok (Z.log2 (uval (rev rx)), i) /\
     (1 <= i <= length rx)%nat /\ Wd ^ Z.of_nat (i - 1) <= uval (rev rx) < Wd ^ Z.of_nat i).
Proof.
  induction rx as [|v r IH]; intros F Hlen; cbn [findleft_rev rev].
  - cbn. split; auto. congruence.
  - inversion F as [|? ? Hv Hr]; subst. cbn [length] in Hlen. rewrite uval_snoc, rev_length.
    assert (Fr : Forall limb_ok (rev r)) by (apply Forall_rev; auto).
    pose proof (uval_range _ Fr) as Rr. rewrite rev_length in Rr.
    pose proof (Wdpow_pos (length r)) as HP. set (P := Wd ^ Z.of_nat (length r)) in *. set (u := uval (rev r)) in *.
    destruct (IH Hr ltac:(lia)) as (IH0 & IH1). unfold limb_ok in Hv.
    destruct (v =? 0) eqn:E.
    + apply Z.eqb_eq in E. subst v. rewrite Z.mul_0_r, Z.add_0_r. split; [exact IH0|].
      intros Hne. destruct (IH1 Hne) as (i & A & B & C). exists i. split; [exact A|]. split; [cbn [length]; lia | exact C].
    + apply Z.eqb_neq in E. split; [intros; nia|]. intros _.
      pose proof wb_range as Hwb. pose proof (limb_lt63 v Hv) as Hv63.
      assert (Hlv : 0 <= Z.log2 v < BINT_WORDBITS).
      { split; [apply Z.log2_nonneg|]. apply Z.log2_lt_pow2; [lia|]. fold Wd. lia. }
      change (2 ^ 31) with 2147483648 in Hlen.
      rewrite (bitlen_loop_spec 64 v 0) by (try lia; i64).
      exists (S (length r)). cbn [length].
      set (n := Z.of_nat (length r)) in *.
      assert (X1 : lsub (Z.of_nat (S (length r))) 1 = n) by (rewrite Nat2Z.inj_succ; fold n; rewrite lsub_exact by i64; lia).
      rewrite X1. clear X1.
      assert (X2 : lmul n BINT_WORDBITS = n * BINT_WORDBITS) by (apply lmul_exact; unf64; nia).
      rewrite X2. clear X2.
      assert (X3 : ladd (n * BINT_WORDBITS) (0 + Z.log2 v + 1) = n * BINT_WORDBITS + Z.log2 v + 1) by (rewrite ladd_exact by (unf64; nia); ring).
      rewrite X3. clear X3.
      assert (X4 : lsub (n * BINT_WORDBITS + Z.log2 v + 1) 1 = BINT_WORDBITS * n + Z.log2 v) by (rewrite lsub_exact by (unf64; nia); ring).
      rewrite X4. clear X4.
      split.
      * f_equal. f_equal. rewrite (log2_shift u P (BINT_WORDBITS * n) v); try lia.
        subst P. unfold Wd. rewrite <- Z.pow_mul_r by lia. reflexivity.
      * split; [lia|]. replace (S (length r) - 1)%nat with (length r) by lia. rewrite Wdpow_S.
        change (Wd ^ Z.of_nat (length r)) with P. clearbody P. nia.
Qed.

Lemma findleftbit_spec x : wf x -> uval x <> 0 ->
  exists i, findleftbit x = Ok (Z.log2 (uval x), i) /\
    (1 <= i <= BINT_SIZE)%nat /\ Wd ^ Z.of_nat (i - 1) <= uval x < Wd ^ Z.of_nat i.
Proof.
  intros [L F] Hne. unfold findleftbit. pose proof size_small.
  destruct (findleft_rev_spec (rev x) ltac:(apply Forall_rev; auto) ltac:(rewrite rev_length, L; auto)) as (_ & H1).
  rewrite rev_involutive in H1. destruct (H1 Hne) as (i & A & B & C). rewrite rev_length, L in B. exists i. auto.
Qed.

(* ---- pieces of the main loop ---- *)
Lemma uval_zero_all x : Forall limb_ok x -> uval x = 0 -> x = repeat 0 (length x).
Proof.
  induction 1 as [|w r Hw Hr IH]; intros E; cbn [uval length repeat] in *; [reflexivity|].
  unfold limb_ok in Hw. pose proof (uval_nonneg r Hr). pose proof Wd_pos.
  assert (w = 0) by nia. assert (uval r = 0) by nia. subst w. f_equal. auto.
Qed.

Lemma strip_size_spec deno : Forall limb_ok deno -> forall d, (d <= length deno)%nat -> uval deno < Wd ^ Z.of_nat d ->
  let ds := strip_size deno d in
  (ds <= d)%nat /\ uval deno < Wd ^ Z.of_nat ds /\ (ds = 0%nat -> uval deno = 0).
Proof.
  intros F. induction d as [|d IH]; intros Hd Hlt; cbn [strip_size].
  - cbn zeta. split; [lia|]. split; [exact Hlt|]. intros _. change (Z.of_nat 0) with 0 in Hlt. rewrite Z.pow_0_r in Hlt.
    pose proof (uval_nonneg deno F). lia.
  - destruct (nthz deno d =? 0) eqn:E.
    + apply Z.eqb_eq in E.
      assert (Hlt' : uval deno < Wd ^ Z.of_nat d).
      { destruct (uval_firstn_mod (S d) deno F Hd) as (A & B).
        pose proof (uval_firstn_S d deno) as C. unfold nthz in E. rewrite E, Z.mul_0_r, Z.add_0_r in C.
        rewrite A, Z.mod_small in C by (pose proof (uval_nonneg deno F); lia).
        rewrite C. pose proof (uval_range _ (Forall_firstn _ d deno F)) as R.
        rewrite firstn_length in R. replace (Nat.min d (length deno)) with d in R by lia. lia. }
      destruct (IH ltac:(lia) Hlt') as (I1 & I2 & I3). cbn zeta. split; [lia|]. auto.
    + cbn zeta. split; [lia|]. split; [exact Hlt|]. discriminate.
Qed.

Lemma skipn_cons_nth {A} (i : nat) (l : list A) (d : A) : (i < length l)%nat -> skipn i l = nth i l d :: skipn (S i) l.
Proof.
  revert l; induction i as [|i IH]; intros [|a l] H; cbn [length] in H; try lia.
  - reflexivity.
  - cbn [skipn nth]. rewrite (IH l) by lia. reflexivity.
Qed.

Lemma set_bit_spec q bit : wf q -> 0 <= bit < BINT_BITS -> uval q mod 2 ^ (bit + 1) = 0 ->
  wf (set_bit q bit) /\ uval (set_bit q bit) = uval q + 2 ^ bit.
Proof.
  intros [L F] Hb Hm. unfold set_bit. destruct (count_split bit Hb) as (Eq & Hq0 & Hq & _ & _ & _).
  pose proof wb_range as Hwb.
  set (i := Z.to_nat (idiv_wb bit)) in *. unfold imod_wb.
  pose proof (Z.mod_pos_bound bit BINT_WORDBITS ltac:(lia)) as Hk. set (k := bit mod BINT_WORDBITS) in *.
  assert (Ebit : bit = BINT_WORDBITS * Z.of_nat i + k).
  { subst i. rewrite Z2Nat.id by lia. rewrite Eq. subst k. apply Z.div_mod. lia. }
  assert (El : lshl 1 k = 2 ^ k).
  { rewrite lshl_small; [ring | lia |]. rewrite Z.mul_1_l.
    assert (2 ^ k < 2 ^ 63) by (apply Z.pow_lt_mono_r; lia). assert (0 < 2 ^ k) by (apply Z.pow_pos_nonneg; lia).
    change (2 ^ 63) with two63 in *. i64. }
  rewrite El.
  (* decompose q around limb i *)
  assert (Hsplit : q = firstn i q ++ nthz q i :: skipn (S i) q).
  { unfold nthz. rewrite <- (firstn_skipn i q) at 1. f_equal.
    rewrite (skipn_cons_nth i q 0) by lia. reflexivity. }
  assert (Lf : length (firstn i q) = i) by (rewrite firstn_length; lia).
  assert (Fw : limb_ok (nthz q i)) by (apply nth_limb_ok; auto).
  set (w := nthz q i) in *. set (lo := firstn i q) in *. set (hi := skipn (S i) q) in *.
  assert (Flo : Forall limb_ok lo) by (apply Forall_firstn; auto).
  assert (Fhi : Forall limb_ok hi) by (apply Forall_skipn; auto).
  assert (Uq : uval q = uval lo + Wd ^ Z.of_nat i * (w + Wd * uval hi)).
  { rewrite Hsplit at 1. rewrite uval_app, Lf. cbn [uval]. reflexivity. }
  pose proof (uval_range lo Flo) as Rlo. rewrite Lf in Rlo.
  pose proof (Wdpow_pos i) as HP. set (P := Wd ^ Z.of_nat i) in *.
  assert (EP : P = 2 ^ (BINT_WORDBITS * Z.of_nat i)) by (subst P; unfold Wd; rewrite <- Z.pow_mul_r by lia; reflexivity).
  (* the low bits of w up to k are clear *)
  assert (Hk1 : 0 < 2 ^ (k + 1)) by (apply Z.pow_pos_nonneg; lia).
  assert (E2 : 2 ^ (bit + 1) = P * 2 ^ (k + 1)).
  { rewrite EP, <- Z.pow_add_r by lia. f_equal. lia. }
  assert (EWk : Wd = 2 ^ (k + 1) * 2 ^ (BINT_WORDBITS - (k + 1))).
  { unfold Wd. rewrite <- Z.pow_add_r by lia. f_equal. lia. }
  assert (Hwm : w mod 2 ^ (k + 1) = 0 /\ uval lo = 0).
  { rewrite E2, Uq in Hm. rewrite Z.rem_mul_r in Hm by lia.
    rewrite (Z.mul_comm P), Z.mod_add, Z.div_add in Hm by lia.
    rewrite (Z.mod_small (uval lo)), (Z.div_small (uval lo)), Z.add_0_l in Hm by lia.
    assert (0 <= (w + Wd * uval hi) mod 2 ^ (k + 1)) by (apply Z.mod_pos_bound; lia).
    assert (uval lo = 0 /\ (w + Wd * uval hi) mod 2 ^ (k + 1) = 0) as (A & B) by nia.
    split; [|exact A]. rewrite EWk in B.
    replace (w + 2 ^ (k + 1) * 2 ^ (BINT_WORDBITS - (k + 1)) * uval hi)
      with (w + (2 ^ (BINT_WORDBITS - (k + 1)) * uval hi) * 2 ^ (k + 1)) in B by ring.
    rewrite Z.mod_add in B by lia. exact B. }
  destruct Hwm as (Hwm & _).
  assert (Hp : 0 < 2 ^ k) by (apply Z.pow_pos_nonneg; lia).
  assert (E2k : 2 ^ (k + 1) = 2 * 2 ^ k) by (rewrite Z.pow_add_r by lia; change (2 ^ 1) with 2; ring).
  assert (Elor : lbor w (2 ^ k) = w + 2 ^ k).
  { pose proof (Z.div_mod w (2 ^ (k + 1)) ltac:(lia)) as Hd. rewrite Hwm, Z.add_0_r in Hd.
    unfold lbor. rewrite Hd at 1. rewrite Z.lor_comm. rewrite lor_disjoint_add by lia. lia. }
  rewrite Elor.
  assert (Hw' : limb_ok (w + 2 ^ k)).
  { unfold limb_ok in *. pose proof (Z.div_mod w (2 ^ (k + 1)) ltac:(lia)) as Hd. rewrite Hwm, Z.add_0_r in Hd.
    assert (0 < 2 ^ (BINT_WORDBITS - (k + 1))) by (apply Z.pow_pos_nonneg; lia).
    set (t := w / 2 ^ (k + 1)) in *.
    assert (t < 2 ^ (BINT_WORDBITS - (k + 1))) by nia. nia. }
  split.
  - split.
    + rewrite <- L. rewrite Hsplit at 1. rewrite !app_length. cbn [length]. reflexivity.
    + apply Forall_app; split; [exact Flo|]. constructor; auto.
  - rewrite uval_app, Lf. cbn [uval]. rewrite Uq. fold P. rewrite Ebit, Z.pow_add_r, <- EP by lia. ring.
Qed.

(* ---- the bit-serial loop ---- *)
Section Loop.
  Variables N D : Z.
  Hypothesis HD : 1 <= D.

  Definition loop_inv (n : nat) (numesize : nat) (nume deno quot : bint) (denosize : nat) : Prop :=
    wf nume /\ wf deno /\ wf quot /\
    N = uval quot * D + uval nume /\
    uval nume < D * 2 ^ Z.of_nat n /\
    uval quot mod 2 ^ Z.of_nat n = 0 /\
    Z.of_nat n <= BINT_BITS /\
    (numesize <= BINT_SIZE)%nat /\ uval nume < Wd ^ Z.of_nat numesize /\
    ((1 <= n)%nat -> uval deno = D * 2 ^ (Z.of_nat n - 1) /\
                     (1 <= denosize <= numesize)%nat /\ uval deno < Wd ^ Z.of_nat denosize).

  Lemma udiv_loop_spec n : forall numesize nume deno quot denosize,
    loop_inv n numesize nume deno quot denosize ->
    let qr := udiv_loop n numesize nume deno quot denosize in
    wf (fst qr) /\ wf (snd qr) /\ N = uval (fst qr) * D + uval (snd qr) /\ 0 <= uval (snd qr) < D.
  Proof.
    induction n as [|n IH]; intros numesize nume deno quot denosize Inv.
    - destruct Inv as (Wn & Wdn & Wq & EN & Hlt & _). cbn [udiv_loop fst snd]. cbn zeta.
      change (Z.of_nat 0) with 0 in Hlt. rewrite Z.pow_0_r in Hlt. pose proof (wf_range nume Wn).
      split; [exact Wq|]. split; [exact Wn|]. split; [exact EN|]. lia.
    - destruct Inv as (Wn & Wdn & Wq & EN & Hlt & Hqm & Hnb & Hns & Hnlt & Hd).
      destruct (Hd ltac:(lia)) as (Ed & Hds & Hdlt). clear Hd.
      replace (Z.of_nat (S n) - 1) with (Z.of_nat n) in Ed by lia.
      cbn [udiv_loop]. cbn zeta.
      replace (Nat.max numesize denosize) with numesize by lia.
      destruct Wn as [Ln Fn]. destruct Wdn as [Ld Fd].
      destruct (small_firstn nume numesize Fn ltac:(lia) Hnlt) as (An & Bn).
      destruct (small_firstn deno numesize Fd ltac:(lia)) as (Ad & Bd).
      { apply Z.lt_le_trans with (Wd ^ Z.of_nat denosize); [exact Hdlt|]. apply Z.pow_le_mono_r; [apply Wd_pos | lia]. }
      assert (Ffn : Forall limb_ok (firstn numesize nume)) by (apply Forall_firstn; auto).
      assert (Ffd : Forall limb_ok (firstn numesize deno)) by (apply Forall_firstn; auto).
      assert (Lfn : length (firstn numesize nume) = numesize) by (rewrite firstn_length; lia).
      assert (Lfd : length (firstn numesize deno) = numesize) by (rewrite firstn_length; lia).
      (* the comparison *)
      rewrite (cmp_msb_spec (rev (firstn numesize deno)) (rev (firstn numesize nume)) true)
        by (try (apply Forall_rev; auto); rewrite !rev_length; congruence).
      rewrite !rev_involutive, An, Ad.
      set (le := if uval deno =? uval nume then true else uval deno <? uval nume).
      assert (Hle : le = (uval deno <=? uval nume)) by (subst le; destruct (uval deno =? uval nume) eqn:E; lia).
      (* numerator and quotient after the conditional subtraction *)
      set (nume' := if le then sub_loop (firstn numesize nume) (firstn numesize deno) 0 ++ skipn numesize nume else nume).
      set (quot' := if le then set_bit quot (Z.of_nat n) else quot).
      pose proof (wf_range quot Wq) as Rq. pose proof (uval_nonneg nume Fn) as Rn0. pose proof (uval_nonneg deno Fd) as Rd0.
      assert (Hp : 0 < 2 ^ Z.of_nat n) by (apply Z.pow_pos_nonneg; lia).
      assert (E2 : 2 ^ Z.of_nat (S n) = 2 * 2 ^ Z.of_nat n) by (rewrite Nat2Z.inj_succ, Z.pow_succ_r by lia; reflexivity).
      assert (Hstep : wf nume' /\ wf quot' /\ N = uval quot' * D + uval nume' /\ uval nume' < D * 2 ^ Z.of_nat n /\
                      uval quot' mod 2 ^ Z.of_nat n = 0 /\ uval nume' < Wd ^ Z.of_nat numesize).
      { subst nume' quot'. destruct le.
        - assert (Hge : uval deno <= uval nume) by lia.
          destruct (sub_loop_spec (firstn numesize nume) (firstn numesize deno) 0 Ffn Ffd ltac:(congruence) ltac:(lia)) as (S1 & S2 & S3).
          rewrite An, Ad, Lfn, Z.sub_0_r in S3. rewrite Z.mod_small in S3 by lia.
          assert (Esk : skipn numesize nume = repeat 0 (length (skipn numesize nume))).
          { apply uval_zero_all; [apply Forall_skipn; auto | exact Bn]. }
          destruct (set_bit_spec quot (Z.of_nat n) Wq ltac:(lia)) as (Wq' & Vq').
          { replace (Z.of_nat n + 1) with (Z.of_nat (S n)) by lia. exact Hqm. }
          split; [|split; [exact Wq'|]].
          + split; [rewrite app_length, S2, Lfn, skipn_length; lia|].
            apply Forall_app; split; [exact S1 | apply Forall_skipn; auto].
          + rewrite uval_app, Bn, Z.mul_0_r, Z.add_0_r, S3, Vq'.
            split; [rewrite EN, Ed; ring|]. split; [rewrite E2 in Hlt; lia|]. split; [|lia].
            rewrite E2 in Hqm.
            assert (exists t, uval quot = 2 ^ Z.of_nat n * (2 * t)) as (t & Et).
            { exists (uval quot / (2 * 2 ^ Z.of_nat n)). pose proof (Z.div_mod (uval quot) (2 * 2 ^ Z.of_nat n) ltac:(lia)). lia. }
            rewrite Et. replace (2 ^ Z.of_nat n * (2 * t) + 2 ^ Z.of_nat n) with ((2 * t + 1) * 2 ^ Z.of_nat n) by ring.
            apply Z.mod_mul. lia.
        - assert (Hlt' : uval nume < uval deno) by lia.
          split; [split; auto|]. split; [exact Wq|]. split; [exact EN|]. split; [lia|]. split; [|exact Hnlt].
          rewrite E2 in Hqm.
          assert (exists t, uval quot = (2 * t) * 2 ^ Z.of_nat n) as (t & Et).
          { exists (uval quot / (2 * 2 ^ Z.of_nat n)). pose proof (Z.div_mod (uval quot) (2 * 2 ^ Z.of_nat n) ltac:(lia)). lia. }
          rewrite Et. apply Z.mod_mul. lia. }
      clearbody nume' quot'. destruct Hstep as (Wn' & Wq' & EN' & Hlt' & Hqm' & Hnlt').
      (* the denominator after the shift *)
      set (deno' := shr_small 1 (firstn denosize deno) ++ skipn denosize deno).
      destruct (small_firstn deno denosize Fd ltac:(lia) Hdlt) as (Ad' & Bd').
      pose proof wordbits_ge8 as Hw8.
      destruct (shr_small_spec 1 ltac:(lia) (firstn denosize deno) ltac:(apply Forall_firstn; auto)) as (H1 & H2 & H3).
      rewrite Ad' in H3. change (2 ^ 1) with 2 in H3.
      assert (Lfd' : length (firstn denosize deno) = denosize) by (rewrite firstn_length; lia).
      assert (Wdn' : wf deno').
      { subst deno'. split; [rewrite app_length, H2, Lfd', skipn_length; lia|].
        apply Forall_app; split; [exact H1 | apply Forall_skipn; auto]. }
      assert (Vd' : uval deno' = uval deno / 2).
      { subst deno'. rewrite uval_app, Bd', Z.mul_0_r, Z.add_0_r. exact H3. }
      assert (Hd'lt : uval deno' < Wd ^ Z.of_nat denosize).
      { rewrite Vd'. apply Z.le_lt_trans with (uval deno); [|lia]. apply Z.div_le_upper_bound; lia. }
      clearbody deno'.
      (* both continuations satisfy the invariant of n, or n = 0 and the result is immediate *)
      assert (Hfin : forall ds, (n = 0%nat \/ ((1 <= ds <= numesize)%nat /\ uval deno' < Wd ^ Z.of_nat ds)) ->
                let qr := udiv_loop n numesize nume' deno' quot' ds in
                wf (fst qr) /\ wf (snd qr) /\ N = uval (fst qr) * D + uval (snd qr) /\ 0 <= uval (snd qr) < D).
      { intros ds Hds'. apply IH. unfold loop_inv.
        split; [exact Wn'|]. split; [exact Wdn'|]. split; [exact Wq'|]. split; [exact EN'|].
        split; [exact Hlt'|]. split; [exact Hqm'|]. split; [lia|]. split; [exact Hns|]. split; [exact Hnlt'|].
        intros Hn1. destruct Hds' as [?|[Hds1 Hds2]]; [lia|]. split; [|split; [exact Hds1 | exact Hds2]].
        rewrite Vd', Ed. replace (Z.of_nat n) with (Z.succ (Z.of_nat n - 1)) at 1 by lia.
        rewrite Z.pow_succ_r by lia. replace (D * (2 * 2 ^ (Z.of_nat n - 1))) with (D * 2 ^ (Z.of_nat n - 1) * 2) by ring.
        rewrite Z.div_mul by lia. reflexivity. }
      destruct (nthz deno' (denosize - 1) =? 0) eqn:Elast.
      + destruct (strip_size_spec deno' (proj2 Wdn') denosize ltac:(destruct Wdn'; lia) Hd'lt) as (S1 & S2 & S3).
        cbn zeta in S1, S2, S3. set (ds := strip_size deno' denosize) in *.
        destruct (Nat.eqb_spec ds 0) as [E0|E0].
        * (* denominator exhausted: only possible in the last iteration *)
          assert (n = 0%nat).
          { destruct n as [|n']; [reflexivity|exfalso].
            pose proof (S3 E0) as Z0. rewrite Vd', Ed in Z0.
            replace (Z.of_nat (S n')) with (Z.succ (Z.of_nat n')) in Z0 by lia.
            rewrite Z.pow_succ_r in Z0 by lia.
            replace (D * (2 * 2 ^ Z.of_nat n')) with (D * 2 ^ Z.of_nat n' * 2) in Z0 by ring.
            rewrite Z.div_mul in Z0 by lia.
            assert (0 < 2 ^ Z.of_nat n') by (apply Z.pow_pos_nonneg; lia). nia. }
          subst n. specialize (Hfin denosize (or_introl eq_refl)). cbn [udiv_loop] in Hfin. exact Hfin.
        * apply Hfin. right. split; [lia | exact S2].
      + apply Hfin. right. split; [lia | exact Hd'lt].
  Qed.
End Loop.

(* ---- udivmod ---- *)
Lemma highzero_spec y : wf y ->
  forallb (fun w => w =? 0) (tl y) = (uval (tl y) =? 0) /\ uval y = hd 0 y + Wd * uval (tl y) /\ limb_ok (hd 0 y) /\ 0 <= uval (tl y).
Proof.
  intros [L F]. pose proof size_pos. destruct y as [|a r]; [cbn in L; lia|]. inversion F; subst. cbn [tl hd uval].
  rewrite allzero_spec by auto. pose proof (uval_nonneg r ltac:(auto)). auto.
Qed.

Definition udiv_general (x y : bint) : res (bint * bint) :=
  match findleftbit y with
  | Err e => Err e
  | Ok (denolbit, _) =>
      match findleftbit x with
      | Err e => Err e
      | Ok (numelbit, numesize) =>
          let bit := lsub numelbit denolbit in
          match bshl y bit with
          | None => Err EFuel
          | Some deno => Ok (udiv_loop (Z.to_nat (bit + 1)) numesize x deno bint_zero numesize)
          end
      end
  end.

Lemma udiv_general_spec x y : wf x -> wf y -> uval y <> 0 -> uval y <= uval x ->
  exists q r, udiv_general x y = Ok (q, r) /\ wf q /\ wf r /\
              uval x = uval q * uval y + uval r /\ 0 <= uval r < uval y.
Proof.
  intros Hx Hy Hne Hle. pose proof (wf_range x Hx) as Rx. pose proof (wf_range y Hy) as Ry.
  set (N := uval x) in *. set (D := uval y) in *.
  destruct (findleftbit_spec y Hy Hne) as (i1 & E1 & _ & _).
  destruct (findleftbit_spec x Hx ltac:(fold N; lia)) as (ns & E2 & Hns & Hnlt). fold N in E2, Hnlt. fold D in E1.
  unfold udiv_general. rewrite E1, E2. cbn zeta.
  pose proof (Z.log2_spec D ltac:(lia)) as (LD1 & LD2). pose proof (Z.log2_spec N ltac:(lia)) as (LN1 & LN2).
  pose proof (Z.log2_nonneg D) as LD0.
  assert (LDN : Z.log2 D <= Z.log2 N) by (apply Z.log2_le_mono; lia).
  assert (LNB : Z.log2 N < BINT_BITS) by (apply Z.log2_lt_pow2; [lia | exact (proj2 Rx)]).
  pose proof bits_small as Hbs. change (2 ^ 31) with 2147483648 in Hbs.
  rewrite lsub_exact by i64. set (bit := Z.log2 N - Z.log2 D).
  destruct (bshl_small y bit Hy ltac:(lia)) as (deno & Ed & Wdn & Vd). rewrite Ed.
  assert (Hpb : 0 < 2 ^ bit) by (apply Z.pow_pos_nonneg; lia).
  assert (EN1 : 2 ^ Z.succ (Z.log2 N) = 2 ^ Z.succ (Z.log2 D) * 2 ^ bit).
  { rewrite <- Z.pow_add_r by lia. f_equal. lia. }
  assert (Hsm : D * 2 ^ bit < 2 ^ Z.succ (Z.log2 N)) by (rewrite EN1; nia).
  assert (HW : 2 ^ Z.succ (Z.log2 N) <= Wfull) by (unfold Wfull; apply Z.pow_le_mono_r; lia).
  fold D in Vd. rewrite Z.mod_small in Vd by lia.
  assert (Hns2 : 2 ^ Z.succ (Z.log2 N) <= Wd ^ Z.of_nat ns).
  { pose proof wb_range. unfold Wd. rewrite <- Z.pow_mul_r by lia. apply Z.pow_le_mono_r; [lia|].
    assert (Z.log2 N < BINT_WORDBITS * Z.of_nat ns); [|lia].
    apply Z.log2_lt_pow2; [lia|]. rewrite Z.pow_mul_r by lia. exact (proj2 Hnlt). }
  destruct wf_zero as (Wz & Vz).
  pose proof (udiv_loop_spec N D ltac:(lia) (Z.to_nat (bit + 1)) ns x deno bint_zero ns) as HL.
  assert (En : Z.of_nat (Z.to_nat (bit + 1)) = bit + 1) by (apply Z2Nat.id; lia).
  destruct HL as (W1 & W2 & V1 & V2).
  { unfold loop_inv. rewrite En. split; [exact Hx|]. split; [exact Wdn|]. split; [exact Wz|].
    split; [rewrite Vz; fold N; ring|]. fold N.
    split.
    { replace (bit + 1) with (Z.succ bit) by lia. rewrite Z.pow_succ_r by lia.
      assert (Hs1 : 2 ^ Z.succ (Z.log2 D) = 2 * 2 ^ Z.log2 D) by (apply Z.pow_succ_r; lia).
      assert (Hs2 : 2 ^ Z.log2 D * 2 ^ bit <= D * 2 ^ bit) by nia.
      rewrite Hs1 in EN1. lia. }
    split; [rewrite Vz; apply Z.mod_0_l; assert (0 < 2 ^ (bit + 1)) by (apply Z.pow_pos_nonneg; lia); lia|].
    split; [lia|]. split; [lia|]. split; [exact (proj2 Hnlt)|].
    intros _. replace (bit + 1 - 1) with bit by ring. split; [exact Vd|]. split; [lia|]. lia. }
  destruct (udiv_loop (Z.to_nat (bit + 1)) ns x deno bint_zero ns) as [q r]. cbn [fst snd] in *.
  exists q, r. auto.
Qed.

Theorem udivmod_correct x y : wf x -> wf y ->
  (uval y = 0 -> udivmod x y = Err EDivZero) /\
  (uval y <> 0 -> exists q r, udivmod x y = Ok (q, r) /\ wf q /\ wf r /\
                   uval q = uval x / uval y /\ uval r = uval x mod uval y).
Proof.
  intros Hx Hy. destruct (highzero_spec y Hy) as (Hz & Uy & Hlow & Htl).
  change (udivmod x y) with
    (let ishighzero := forallb (fun w => w =? 0) (tl y) in
     let low := hd 0 y in
     if ishighzero && (low =? 0) then Err EDivZero
     else if ishighzero && (low =? 1) then Ok (x, bint_zero)
     else if ishighzero && (low <=? lsub BINT_WORDMSB 1) then
       match sudivmod x low with Some (q, rema) => Ok (q, fromuinteger rema) | None => Err EDivZero end
     else if ult x y then Ok (bint_zero, x) else udiv_general x y).
  cbn zeta. rewrite Hz.
  pose proof (wf_range x Hx) as Rx. pose proof (wf_range y Hy) as Ry. unfold limb_ok in Hlow.
  set (low := hd 0 y) in *. set (hi := uval (tl y)) in *. pose proof Wd_pos as HWd.
  destruct wordmsb_eq as (E0 & E1 & E2).
  assert (Emsb : lsub BINT_WORDMSB 1 = Wd / 2 - 1).
  { rewrite E0. apply lsub_exact. pose proof Wd_le32. i64. }
  rewrite Emsb. rewrite ult_correct by auto.
  assert (Fin : forall q r, uval x = uval q * uval y + uval r -> 0 <= uval r < uval y ->
            uval q = uval x / uval y /\ uval r = uval x mod uval y).
  { intros q r EN Hr. split.
    - apply Z.div_unique with (uval r); [lia|]. rewrite EN. ring.
    - apply Z.mod_unique with (uval q); [lia|]. rewrite EN. ring. }
  assert (Gen : uval y <> 0 -> (uval x <? uval y) = false ->
            exists q r, udiv_general x y = Ok (q, r) /\ wf q /\ wf r /\
                        uval q = uval x / uval y /\ uval r = uval x mod uval y).
  { intros Hne Hge. destruct (udiv_general_spec x y Hx Hy Hne ltac:(lia)) as (q & r & A & B & C & D1 & D2).
    exists q, r. split; [exact A|]. split; [exact B|]. split; [exact C|]. apply Fin; auto. }
  assert (Lt : uval y <> 0 -> (uval x <? uval y) = true ->
            exists q r, Ok (bint_zero, x) = Ok (q, r) /\ wf q /\ wf r /\
                        uval q = uval x / uval y /\ uval r = uval x mod uval y).
  { intros Hne Hlt. destruct wf_zero as (Wz & Vz). exists bint_zero, x. split; [reflexivity|]. split; [exact Wz|].
    split; [exact Hx|]. apply Fin; rewrite ?Vz; lia. }
  destruct (hi =? 0) eqn:Eh; cbn [andb].
  - apply Z.eqb_eq in Eh. rewrite Eh, Z.mul_0_r, Z.add_0_r in Uy.
    destruct (low =? 0) eqn:El0; [split; [reflexivity | intros; lia]|].
    split; [intros; lia|]. intros Hne.
    destruct (low =? 1) eqn:El1.
    { destruct wf_zero as (Wz & Vz). exists x, bint_zero.
      split; [reflexivity|]. split; [exact Hx|]. split; [exact Wz|]. apply Fin; rewrite ?Vz; lia. }
    destruct (low <=? Wd / 2 - 1) eqn:El2.
    { destruct (sudivmod_spec x low Hx ltac:(lia)) as (q & rm & Es & Wq & Vq & Vr). rewrite Es.
      pose proof (Z.mod_pos_bound (uval x) low ltac:(lia)) as Hm.
      assert (Hrm : in_i64 rm) by (rewrite Vr; pose proof Wd_le32; i64).
      destruct (fromuinteger_correct rm Hrm) as (Wr & Ur). rewrite u64_small in Ur by (pose proof Wd_le32; unfold two64; lia).
      exists q, (fromuinteger rm). split; [reflexivity|]. split; [exact Wq|]. split; [exact Wr|].
      rewrite Uy, Vq, Ur, Vr. auto. }
    destruct (uval x <? uval y) eqn:Eu; [apply Lt; auto | apply Gen; auto].
  - assert (Hne : uval y <> 0) by nia.
    split; [intros; lia|]. intros _.
    destruct (uval x <? uval y) eqn:Eu; [apply Lt; auto | apply Gen; auto].
Qed.

Theorem udiv_umod_correct x y : wf x -> wf y -> uval y <> 0 ->
  (exists q, udiv x y = Ok q /\ wf q /\ uval q = uval x / uval y) /\
  (exists r, umod x y = Ok r /\ wf r /\ uval r = uval x mod uval y).
Proof.
  intros Hx Hy Hne. destruct (udivmod_correct x y Hx Hy) as (_ & H). destruct (H Hne) as (q & r & E & Wq & Wr & Vq & Vr).
  unfold udiv, umod. rewrite E. split; [exists q | exists r]; auto.
Qed.

Example udivmod_example :
  udivmod (frominteger 1000) (frominteger 7) = Ok (frominteger 142, frominteger 6) /\
  udivmod bint_mininteger bint_zero = Err EDivZero /\
  exists q, udivmod bint_mininteger (bunm bint_one) = Ok (q, bint_mininteger).
Proof. split; [|split]; [vm_compute; reflexivity | vm_compute; reflexivity | eexists; vm_compute; reflexivity]. Qed.
