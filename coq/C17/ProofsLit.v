(* bn.from starting from the literal text: the lpegrex split and the integer literals *)
From C17 Require Import Model Model2 Model3 Model4 Model5 Proofs ProofsLib ProofsArith ProofsMul ProofsBits ProofsConv ProofsShift ProofsMisc
  ProofsSudiv ProofsText ProofsText2 ProofsText3 ProofsMixed.
From Coq Require Import ZifyBool.
Local Open Scope Z_scope.
Ltac Zify.zify_post_hook ::= Z.div_mod_to_equations.

(* ---- span ---- *)
Lemma span_spec p s : s = fst (span p s) ++ snd (span p s) /\ forallb p (fst (span p s)) = true /\
  match snd (span p s) with [] => True | c :: _ => p c = false end.
Proof.
  induction s as [|a r IH]; cbn [span]; [cbn [fst snd app forallb]; auto|]. destruct IH as (A & B & C).
  destruct (p a) eqn:E; cbv zeta; cbn [fst snd app forallb].
  - rewrite E. split; [f_equal; exact A | auto].
  - auto.
Qed.

Lemma span_all p ds : forallb p ds = true -> forall rest, match rest with [] => True | c :: _ => p c = false end ->
  span p (ds ++ rest) = (ds, rest).
Proof.
  induction ds as [|d r IH]; intros H rest Hr; cbn [app].
  - destruct rest as [|c r0]; [reflexivity|]. cbn [span]. rewrite Hr. reflexivity.
  - cbn [forallb] in H. apply andb_prop in H. destruct H as (Hd & Hrs). cbn [span]. rewrite Hd. cbv zeta. rewrite (IH Hrs rest Hr). reflexivity.
Qed.

(* ---- the split is a partition of the accepted text ---- *)
Lemma nonempty_spec (s : str) : nonempty s = true <-> s <> [].
Proof. destruct s; cbn; split; congruence. Qed.

Theorem split_partition isdig m1 m2 s neg int frac e : split_lit isdig m1 m2 s = Some (neg, int, frac, e) ->
  exists sg m mt et, s = sg ++ 48 :: m :: mt ++ et /\ (m = m1 \/ m = m2) /\
    ((neg = true /\ sg = [45]) \/ (neg = false /\ (sg = [43] \/ sg = []))) /\
    mant_shape isdig mt int frac /\ exp_shape et e.
Proof.
  unfold split_lit.
  assert (Hs : exists sg, s = sg ++ snd (parse_sign s) /\
             ((fst (parse_sign s) = true /\ sg = [45]) \/ (fst (parse_sign s) = false /\ (sg = [43] \/ sg = [])))).
  { unfold parse_sign. destruct s as [|c r]; [exists []; cbn; auto|].
    destruct (c =? 45) eqn:E1; [exists [45]; cbn [fst snd app]; split; [f_equal; lia | auto]|].
    destruct (c =? 43) eqn:E2; [exists [43]; cbn [fst snd app]; split; [f_equal; lia | auto]|].
    exists []. cbn [fst snd app]. auto. }
  destruct Hs as (sg & Es & Hsg). destruct (snd (parse_sign s)) as [|z [|m s2]]; try discriminate.
  destruct ((z =? 48) && ((m =? m1) || (m =? m2))) eqn:Ez; [|discriminate].
  destruct (parse_mant isdig s2) as [[[i f] s6]|] eqn:Em; [|discriminate].
  destruct (snd (parse_exp s6)) eqn:Ee; [|discriminate]. intros H. injection H as <- <- <- <-.
  (* mantissa *)
  assert (Hm : exists mt, s2 = mt ++ s6 /\ mant_shape isdig mt i f).
  { unfold parse_mant in Em. destruct (span_spec isdig s2) as (A & B & C).
    set (a := fst (span isdig s2)) in *. set (b := snd (span isdig s2)) in *.
    destruct (nonempty a) eqn:Na.
    - apply nonempty_spec in Na. destruct b as [|d s4].
      + injection Em as <- <- <-. exists a. rewrite app_nil_r in *. split; [exact A | left; auto].
      + destruct (d =? 46) eqn:Ed.
        * destruct (span_spec isdig s4) as (A2 & B2 & _). injection Em as <- <- <-.
          exists (a ++ 46 :: fst (span isdig s4)). split.
          -- rewrite A, A2 at 1. rewrite <- app_assoc. cbn [app]. repeat f_equal. lia.
          -- right. left. exists (fst (span isdig s4)). auto.
        * injection Em as <- <- <-. exists a. split; [exact A | left; auto].
    - destruct b as [|d s4]; [discriminate|]. destruct (d =? 46) eqn:Ed; [|discriminate].
      destruct (nonempty (fst (span isdig s4))) eqn:Nf; [|discriminate].
      destruct (span_spec isdig s4) as (A2 & B2 & _). injection Em as <- <- <-.
      assert (a = []) by (destruct a; [reflexivity | discriminate]).
      exists (46 :: fst (span isdig s4)). split.
      + rewrite A, H. cbn [app]. rewrite A2 at 1. f_equal. lia.
      + right. right. exists (fst (span isdig s4)). apply nonempty_spec in Nf. auto. }
  destruct Hm as (mt & Emt & Hmt).
  (* exponent *)
  assert (He : exp_shape s6 (fst (parse_exp s6))).
  { unfold parse_exp in *. destruct s6 as [|c r]; [left; auto|].
    destruct ((c =? 112) || (c =? 80)) eqn:Ep; [|cbn [snd] in Ee; discriminate].
    set (sg2 := match r with c2 :: _ => if (c2 =? 45) || (c2 =? 43) then [c2] else [] | [] => [] end) in *.
    destruct (span_spec is_digit (skipn (length sg2) r)) as (A & B & _).
    destruct (nonempty (fst (span is_digit (skipn (length sg2) r)))) eqn:Nd; [|cbn [snd] in Ee; discriminate].
    cbn [fst snd] in *. right. exists c, sg2, (fst (span is_digit (skipn (length sg2) r))).
    assert (Hr : r = sg2 ++ skipn (length sg2) r).
    { subst sg2. destruct r as [|c2 r2]; [reflexivity|]. destruct ((c2 =? 45) || (c2 =? 43)); reflexivity. }
    split; [rewrite Hr at 1; rewrite A at 1; rewrite Ee, app_nil_r; reflexivity|]. split; [lia|]. split.
    - subst sg2. destruct r as [|c2 r2]; [auto|]. destruct ((c2 =? 45) || (c2 =? 43)) eqn:X; [|auto].
      assert (c2 = 45 \/ c2 = 43) as [-> | ->] by lia; auto.
    - apply nonempty_spec in Nd. auto. }
  exists sg, m, mt, s6. split; [rewrite Es, Emt; repeat f_equal; lia|]. split; [lia|]. auto.
Qed.

(* ---- an integer literal: sign? 0 mark digits+ ---- *)
Lemma split_int isdig m1 m2 sg m ds : sign_ok sg -> (m = m1 \/ m = m2) -> ds <> [] -> forallb isdig ds = true ->
  split_lit isdig m1 m2 (sg ++ 48 :: m :: ds) = Some (match sg with [45] => true | _ => false end, ds, None, None) /\
  has_prefix m1 m2 (sg ++ 48 :: m :: ds) = true.
Proof.
  intros Hsg Hm Hne Hd.
  assert (Ez : ((48 =? 48) && ((m =? m1) || (m =? m2))) = true) by lia.
  assert (Emant : parse_mant isdig ds = Some (ds, None, [])).
  { assert (Esp : span isdig ds = (ds, [])) by (pose proof (span_all isdig ds Hd [] I) as X; rewrite app_nil_r in X; exact X).
    unfold parse_mant. rewrite Esp. cbn [fst snd]. destruct ds; [congruence | reflexivity]. }
  unfold split_lit, has_prefix.
  destruct Hsg as [->|[->| ->]]; cbn [app parse_sign fst snd Z.eqb Pos.eqb orb]; rewrite ?Ez, ?Emant; cbn [parse_exp fst snd]; auto;
    change (48 =? 48) with true in Ez; rewrite Ez; auto.
Qed.

Lemma lower_digits ds : forallb is_digit ds = true -> map to_lower ds = ds.
Proof.
  induction ds as [|d r IH]; cbn [forallb map]; [reflexivity|]. intros H. apply andb_prop in H. destruct H as (Hd & Hr).
  rewrite (IH Hr). f_equal. unfold to_lower, is_upper, is_digit in *. destruct ((65 <=? d) && (d <=? 90)) eqn:E; lia.
Qed.

(* bn.from on the text of an integer literal *)
Theorem from_text_correct sg ds : sign_ok sg -> ds <> [] ->
  (forall m, m = 98 \/ m = 66 -> forallb is_bindigit ds = true ->
     exists x, bn_from_text (sg ++ 48 :: m :: ds) = TInt x /\ wf x /\ uval x = (sign_val sg * dval 2 (map cval ds)) mod Wfull) /\
  (forall m, m = 120 \/ m = 88 -> forallb is_hexdigit ds = true ->
     exists x, bn_from_text (sg ++ 48 :: m :: ds) = TInt x /\ wf x /\ uval x = (sign_val sg * dval 16 (map cval ds)) mod Wfull) /\
  (forallb is_digit ds = true ->
     let v := dval 10 (map cval ds) in
     (sg = [] -> (v < Wfull / 2 -> exists x, bn_from_text ds = TInt x /\ wf x /\ uval x = v /\ sval x = v) /\
                 (Wfull / 2 <= v -> bn_from_text ds = TFloat)) /\
     (sg <> [] -> exists x, bn_from_text (sg ++ ds) = TInt x /\ wf x /\ uval x = (sign_val sg * v) mod Wfull)).
Proof.
  intros Hsg Hne.
  assert (Sv : sign_val sg = lit_sign (match sg with [45] => true | _ => false end)) by (destruct Hsg as [->|[->| ->]]; reflexivity).
  split; [|split].
  - intros m Hm Hd. unfold bn_from_text, bn_from_text_pol. destruct (split_int is_bindigit 98 66 sg m ds Hsg Hm Hne Hd) as (E1 & E2).
    rewrite E2. unfold split_bin. rewrite E1.
    destruct (from_bin_correct (match sg with [45] => true | _ => false end) ds) as (x & A & B & C).
    { eapply Forall_of_forallb; [apply bindigit_ok | exact Hd]. }
    rewrite A. exists x. rewrite Sv. auto.
  - intros m Hm Hd. unfold bn_from_text, bn_from_text_pol.
    assert (Eb : has_prefix 98 66 (sg ++ 48 :: m :: ds) = false).
    { unfold has_prefix. destruct Hsg as [->|[->| ->]]; cbn [app Z.eqb Pos.eqb orb]; lia. }
    rewrite Eb. destruct (split_int is_hexdigit 120 88 sg m ds Hsg Hm Hne Hd) as (E1 & E2).
    rewrite E2. unfold split_hex. rewrite E1.
    destruct (from_hex_correct (match sg with [45] => true | _ => false end) ds Hne) as (x & A & B & C).
    { eapply Forall_of_forallb; [apply hexdigit_ok | exact Hd]. }
    rewrite A. exists x. rewrite Sv. auto.
  - intros Hd. cbn zeta.
    assert (Hcs : Forall (char_ok 10) ds) by (eapply Forall_of_forallb; [apply digit_ok10 | exact Hd]).
    destruct ds as [|d0 r0] eqn:Eds; [congruence|]. rewrite <- Eds in *.
    assert (Hd0 : 48 <= d0 <= 57) by (rewrite Eds in Hd; cbn [forallb] in Hd; unfold is_digit in Hd; lia).
    (* the text of a decimal integer takes the decimal branch, and lower-casing leaves it alone *)
    assert (G : forall sg', sign_ok sg' -> bn_from_text (sg' ++ ds) =
              match bn_from_dec (sg' ++ ds) with Ok (LInt x) => TInt x | Ok LFloat => TFloat | Err _ => TMalformed end).
    { intros sg' Hs'. unfold bn_from_text, bn_from_text_pol.
      assert (El : map to_lower (sg' ++ ds) = sg' ++ ds).
      { rewrite map_app, (lower_digits ds Hd). f_equal. destruct Hs' as [->|[->| ->]]; reflexivity. }
      assert (P1 : forall m1 m2, (m1 = 98 /\ m2 = 66) \/ (m1 = 120 /\ m2 = 88) -> has_prefix m1 m2 (sg' ++ ds) = false).
      { intros m1 m2 Hm. unfold has_prefix. rewrite Eds.
        assert (X : match (d0 :: r0) with z :: m :: _ => (z =? 48) && ((m =? m1) || (m =? m2)) | _ => false end = false).
        { destruct r0 as [|d1 r1]; [reflexivity|]. rewrite Eds in Hd. cbn [forallb] in Hd. unfold is_digit in Hd. lia. }
        destruct Hs' as [->|[->| ->]]; cbn [app Z.eqb Pos.eqb orb]; try exact X.
        destruct ((d0 =? 45) || (d0 =? 43)) eqn:Y; [lia | exact X]. }
      rewrite (P1 98 66 ltac:(auto)), (P1 120 88 ltac:(auto)). cbv zeta. rewrite El.
      assert (St : (starts_with [105; 110; 102] (sg' ++ ds) || starts_with [45; 105; 110; 102] (sg' ++ ds)
                    || starts_with [110; 97; 110] (sg' ++ ds) || starts_with [45; 110; 97; 110] (sg' ++ ds)) = false).
      { rewrite Eds. destruct Hs' as [->|[->| ->]]; cbn [app starts_with];
          repeat match goal with |- context [?a =? d0] => replace (a =? d0) with false by lia end; reflexivity. }
      rewrite St.
      assert (Bd : (match sg' ++ ds with c :: r => if (c =? 45) || (c =? 43) then r else sg' ++ ds | [] => [] end) = ds).
      { rewrite Eds. destruct Hs' as [->|[->| ->]]; cbn [app Z.eqb Pos.eqb orb]; try reflexivity.
        destruct ((d0 =? 45) || (d0 =? 43)) eqn:Y; [lia | reflexivity]. }
      rewrite Bd. rewrite Eds at 1. cbn [nonempty andb]. rewrite Hd. reflexivity. }
    split.
    + intros ->. specialize (G [] (or_introl eq_refl)). cbn [app] in G.
      destruct (from_dec_unsigned ds Hne Hcs) as (U1 & U2). cbn zeta in U1, U2. split.
      * intros Hv. destruct (U1 Hv) as (x & A & B). rewrite G, A. eauto.
      * intros Hv. rewrite G, (U2 Hv). reflexivity.
    + intros Hsn. assert (Hs2 : sg = [45] \/ sg = [43]) by (destruct Hsg as [->|[->| ->]]; [congruence | auto | auto]).
      destruct (from_dec_signed sg ds Hs2 Hne Hcs) as (x & A & B & C). rewrite (G sg Hsg), A. eauto.
Qed.

Example lit_example :
  split_bin [45; 48; 98; 49; 48; 46; 49; 112; 45; 51] = Some (true, [49; 48], Some [49], Some [45; 51]) /\
  split_hex [48; 120; 46; 56] = Some (false, [48], Some [56], None) /\ split_bin [48; 98; 49; 112] = None /\
  bn_from_text [45; 48; 120; 70; 102] = TInt (frominteger (-255)) /\ bn_from_text [48; 98] = TMalformed.
Proof. split; [|split; [|split; [|split]]]; vm_compute; reflexivity. Qed.

(* ---- malformed binary / hexadecimal texts: a failed pattern match is an error, never a number ---- *)
Lemma literal_match_fact : literal_match_checked = true. Proof. reflexivity. Qed.

Lemma from_text_pol_malformed : forall s,
  (has_prefix 98 66 s = true -> split_bin s = None -> bn_from_text_pol true s = TMalformed) /\
  (has_prefix 98 66 s = false -> has_prefix 120 88 s = true -> split_hex s = None -> bn_from_text_pol true s = TMalformed).
Proof.
  intros s. split.
  - intros P E. unfold bn_from_text_pol. rewrite P, E. reflexivity.
  - intros P Q E. unfold bn_from_text_pol. rewrite P, Q, E. reflexivity.
Qed.

Lemma from_text_malformed : forall s,
  (has_prefix 98 66 s = true -> split_bin s = None -> bn_from_text s = TMalformed) /\
  (has_prefix 98 66 s = false -> has_prefix 120 88 s = true -> split_hex s = None -> bn_from_text s = TMalformed).
Proof. unfold bn_from_text. rewrite literal_match_fact. exact from_text_pol_malformed. Qed.

(* the four witnesses of the repaired defect: "0x3 ", "0xzz", "0x1p", "0b102" *)
Example malformed_witnesses :
  bn_from_text [48; 120; 51; 32] = TMalformed /\ bn_from_text [48; 120; 122; 122] = TMalformed /\
  bn_from_text [48; 120; 49; 112] = TMalformed /\ bn_from_text [48; 98; 49; 48; 50] = TMalformed.
Proof. split; [|split; [|split]]; vm_compute; reflexivity. Qed.

(* with the assertion on the second result a failed hexadecimal match is not an error in the model (the code goes on to tonumber) *)
Lemma literal_check_neg_needed : bn_from_text_pol false [48; 120; 51; 32] <> TMalformed /\ split_hex [48; 120; 51; 32] = None.
Proof. split; [vm_compute; discriminate | vm_compute; reflexivity]. Qed.
