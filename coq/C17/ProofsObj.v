(* no public function mutates its arguments; results are fresh objects unless documented *)
From C17 Require Import Model Model2 Model3 Model4 ModelObj.
From Coq Require Import Lia.
Local Open Scope Z_scope.

(* the objects of s0 are still there, unchanged, in s *)
Definition sext (s0 s : store) : Prop := firstn (length s0) s = s0.
(* p = (store, ref): old objects unchanged, the returned object is new and holds v *)
Definition fresh_res (s : store) (p : store * nat) (v : bint) : Prop :=
  sext s (fst p) /\ (length s <= snd p < length (fst p))%nat /\ oget (fst p) (snd p) = v.

Lemma sext_refl s : sext s s. Proof. unfold sext. apply firstn_all. Qed.
Lemma sext_len s0 s : sext s0 s -> (length s0 <= length s)%nat.
Proof. unfold sext. intros E. rewrite <- E at 1. rewrite firstn_length. lia. Qed.

Lemma oset_length s : forall r v, length (oset s r v) = length s.
Proof. induction s as [|h t IH]; intros [|r] v; cbn [oset length]; auto. Qed.

Lemma firstn_oset s : forall n r v, (n <= r)%nat -> firstn n (oset s r v) = firstn n s.
Proof.
  induction s as [|h t IH]; intros n r v H; [destruct r; reflexivity|].
  destruct r as [|r]; [replace n with 0%nat by lia; reflexivity|].
  destruct n as [|n]; [reflexivity|]. cbn [oset firstn]. f_equal. apply IH. lia.
Qed.

Lemma sext_set s0 s r v : sext s0 s -> (length s0 <= r)%nat -> sext s0 (oset s r v).
Proof. unfold sext. intros E H. rewrite firstn_oset by exact H. exact E. Qed.

Lemma sext_app s0 s t : sext s0 s -> sext s0 (s ++ t).
Proof.
  unfold sext. intros E. pose proof (sext_len s0 s E) as L. rewrite firstn_app.
  replace (length s0 - length s)%nat with 0%nat by lia. cbn [firstn]. rewrite app_nil_r. exact E.
Qed.

Lemma sext_trans s0 s1 s2 : sext s0 s1 -> sext s1 s2 -> sext s0 s2.
Proof.
  unfold sext. intros A B. pose proof (sext_len s0 s1 A) as L. rewrite <- B in A.
  rewrite firstn_firstn in A. replace (Nat.min (length s0) (length s1)) with (length s0) in A by lia. exact A.
Qed.

Lemma oget_app_old s t r : (r < length s)%nat -> oget (s ++ t) r = oget s r.
Proof. intros H. unfold oget. apply app_nth1. exact H. Qed.
Lemma oget_app_new s v : oget (s ++ [v]) (length s) = v.
Proof. unfold oget. rewrite app_nth2, Nat.sub_diag by lia. reflexivity. Qed.
Lemma oget_set_same s : forall r v, (r < length s)%nat -> oget (oset s r v) r = v.
Proof. unfold oget. induction s as [|h t IH]; intros [|r] v H; cbn [length] in H; try lia; cbn [oset nth]; auto. apply IH. lia. Qed.
Lemma oget_set_other s : forall r r' v, r <> r' -> oget (oset s r v) r' = oget s r'.
Proof.
  unfold oget. induction s as [|h t IH]; intros r r' v H; [destruct r; reflexivity|].
  destruct r as [|r]; destruct r' as [|r']; cbn [oset nth]; try reflexivity; try congruence.
  apply IH. congruence.
Qed.
Lemma nth_firstn' (s : store) : forall n r, (r < n)%nat -> nth r (firstn n s) bint_zero = nth r s bint_zero.
Proof.
  induction s as [|h t IH]; intros n r H; [destruct n, r; reflexivity|].
  destruct n as [|n]; [lia|]. destruct r as [|r]; [reflexivity|]. cbn [firstn nth]. apply IH. lia.
Qed.
Lemma oget_ext s0 s r : sext s0 s -> (r < length s0)%nat -> oget s r = oget s0 r.
Proof.
  unfold sext, oget. intros E H. transitivity (nth r (firstn (length s0) s) bint_zero); [|rewrite E; reflexivity].
  symmetry. apply nth_firstn'. exact H.
Qed.

(* building blocks *)
Lemma alloc_fresh s0 s v : sext s0 s -> fresh_res s0 (oalloc s v) v /\ sext s (fst (oalloc s v)).
Proof.
  intros E. pose proof (sext_len s0 s E). unfold fresh_res, oalloc. cbn [fst snd].
  split; [|apply sext_app, sext_refl]. split; [apply sext_app; exact E|]. split; [rewrite app_length; cbn; lia | apply oget_app_new].
Qed.

Lemma upd_fresh s0 s r v f : fresh_res s0 (s, r) v -> fresh_res s0 (oupd s r f) (f v).
Proof.
  unfold fresh_res, oupd. cbn [fst snd]. intros (E & R & V). split; [apply sext_set; [exact E | lia]|].
  split; [rewrite oset_length; exact R|]. rewrite oget_set_same by lia. rewrite V. reflexivity.
Qed.

Lemma set_fresh s0 s r v v' : fresh_res s0 (s, r) v -> fresh_res s0 (oset s r v', r) v'.
Proof.
  unfold fresh_res. cbn [fst snd]. intros (E & R & V). split; [apply sext_set; [exact E | lia]|].
  split; [rewrite oset_length; exact R | apply oget_set_same; lia].
Qed.

Lemma new_fresh s0 s x : sext s0 s -> fresh_res s0 (o_new s x) (oget s x).
Proof. intros E. unfold o_new. apply alloc_fresh. exact E. Qed.

Ltac pairs := repeat match goal with |- context [let (_, _) := ?p in _] => destruct p as [? ?] eqn:? end.

(* ---- one-result functions: fresh object with the value of the value-level model ---- *)
Theorem obj_unary s x :
  fresh_res s (o_new s x) (oget s x) /\
  fresh_res s (o_tobint s x true) (oget s x) /\ o_tobint s x false = (s, x) /\
  fresh_res s (o_abs s x) (babs (oget s x)) /\
  fresh_res s (o_inc s x) (binc (oget s x)) /\ fresh_res s (o_dec s x) (bdec (oget s x)) /\
  fresh_res s (o_bnot s x) (bnot (oget s x)) /\ fresh_res s (o_neg s x) (bunm (oget s x)).
Proof.
  pose proof (new_fresh s s x (sext_refl s)) as N.
  split; [exact N|]. split; [exact N|]. split; [reflexivity|].
  assert (U : forall f, fresh_res s (let (s1, c) := o_new s x in oupd s1 c f) (f (oget s x))).
  { intros f. destruct (o_new s x) as [s1 c]. apply upd_fresh. exact N. }
  split; [apply (U (fun v => if isneg v then bunm v else v))|]. split; [apply U|]. split; [apply U|].
  assert (B : fresh_res s (o_bnot s x) (bnot (oget s x))) by (apply alloc_fresh, sext_refl).
  split; [exact B|]. unfold o_neg. destruct (o_bnot s x) as [s1 y]. unfold bunm. apply upd_fresh. exact B.
Qed.

Theorem obj_binary s x y (Hx : (x < length s)%nat) (Hy : (y < length s)%nat) :
  (forall f, fresh_res s (o_bin f s x y) (f (oget s x) (oget s y))) /\
  (forall f, fresh_res s (o_bit f s x y) (f (oget s x) (oget s y))) /\
  fresh_res s (o_max s x y) (bmax (oget s x) (oget s y)) /\
  fresh_res s (o_min s x y) (bmin (oget s x) (oget s y)).
Proof.
  split; [intros f; apply alloc_fresh, sext_refl|]. split.
  - intros f. unfold o_bit. pose proof (new_fresh s s x (sext_refl s)) as N. destruct (o_new s x) as [s1 c].
    destruct N as (E & R & V). cbn [fst snd] in *.
    rewrite V, (oget_ext s s1 y E Hy). apply (set_fresh s s1 c (oget s x)). split; [exact E|]. split; [exact R | exact V].
  - split; [unfold o_max, bmax | unfold o_min, bmin].
    + destruct (blt (oget s y) (oget s x)); apply new_fresh, sext_refl.
    + destruct (blt (oget s x) (oget s y)); apply new_fresh, sext_refl.
Qed.

Lemma shift_fresh s0 s left x n v : sext s0 s -> shift_fuel 2 left (oget s x) n = Some v ->
  fresh_res s0 (o_shift left s x n) v.
Proof.
  intros E Hv. unfold o_shift. pose proof (new_fresh s0 s x E) as N. destruct (o_new s x) as [s1 c]. rewrite Hv.
  destruct (shift_guard n).
  - apply alloc_fresh. exact (proj1 N).
  - apply (set_fresh s0 s1 c (oget s x)). exact N.
Qed.

Lemma fresh_weaken s0 s p v : sext s0 s -> fresh_res s p v -> fresh_res s0 p v.
Proof.
  intros E (A & B & C). pose proof (sext_len s0 s E). split; [eapply sext_trans; eauto|]. split; [lia | exact C].
Qed.

(* shifts, bwrap: fresh; rotations: fresh unless the count is a multiple of the width, then x itself *)
Theorem obj_shift_rot s x n (Hx : (x < length s)%nat) :
  (forall left v, shift_fuel 2 left (oget s x) n = Some v -> fresh_res s (o_shift left s x n) v) /\
  (forall left, imod_bits n = 0 -> o_rot left s x n = (s, x)) /\
  (forall left a b, imod_bits n <> 0 ->
     shift_fuel 2 left (oget s x) (imod_bits n) = Some a ->
     shift_fuel 2 (negb left) (oget s x) (lsub BINT_BITS (imod_bits n)) = Some b ->
     fresh_res s (o_rot left s x n) (bor a b)).
Proof.
  split; [intros left v Hv; apply shift_fresh; [apply sext_refl | exact Hv]|]. split.
  - intros left H. unfold o_rot. rewrite H. reflexivity.
  - intros left a b H Ha Hb. unfold o_rot. destruct (imod_bits n =? 0) eqn:E; [apply Z.eqb_eq in E; congruence|].
    pose proof (shift_fresh s s left x (imod_bits n) a (sext_refl s) Ha) as A. destruct (o_shift left s x (imod_bits n)) as [s1 ra].
    destruct A as (E1 & R1 & V1). cbn [fst snd] in *.
    assert (Hb' : shift_fuel 2 (negb left) (oget s1 x) (lsub BINT_BITS (imod_bits n)) = Some b) by (rewrite (oget_ext s s1 x E1 Hx); exact Hb).
    pose proof (shift_fresh s1 s1 (negb left) x _ b (sext_refl s1) Hb') as B. destruct (o_shift (negb left) s1 x (lsub BINT_BITS (imod_bits n))) as [s2 rb].
    destruct B as (E2 & R2 & V2). cbn [fst snd] in *.
    unfold o_bit. pose proof (new_fresh s2 s2 ra (sext_refl s2)) as N. destruct (o_new s2 ra) as [s3 c]. destruct N as (E3 & R3 & V3). cbn [fst snd] in *.
    pose proof (sext_len s s1 E1). pose proof (sext_len s1 s2 E2). pose proof (sext_len s2 s3 E3).
    rewrite V3, (oget_ext s2 s3 rb E3 ltac:(lia)), V2, (oget_ext s1 s2 ra E2 ltac:(lia)), V1.
    apply (fresh_weaken s s2); [eapply sext_trans; eauto|].
    apply (set_fresh s2 s3 c (oget s2 ra)). split; [exact E3|]. split; [exact R3 | exact V3].
Qed.

Theorem obj_bwrap s x n v (Hx : (x < length s)%nat) : bwrap (oget s x) n = Some v -> fresh_res s (o_bwrap s x n) v.
Proof.
  unfold bwrap, o_bwrap. destruct (n <=? 0); [intros H; injection H as <-; apply alloc_fresh, sext_refl|].
  destruct (n <? BINT_BITS); [|intros H; injection H as <-; apply new_fresh, sext_refl].
  unfold bshl. destruct (shift_fuel 2 true bint_one n) as [sv|] eqn:Es; [|discriminate]. intros H. injection H as <-.
  destruct (alloc_fresh s s bint_one (sext_refl s)) as ((E1 & R1 & V1) & _). destruct (oalloc s bint_one) as [s1 o]. cbn [fst snd] in *.
  pose proof (shift_fresh s1 s1 true o n sv (sext_refl s1) ltac:(rewrite V1; exact Es)) as B.
  destruct (o_shift true s1 o n) as [s2 sh]. pose proof (upd_fresh s1 s2 sh sv bdec B) as C.
  destruct (oupd s2 sh bdec) as [s3 sh'] eqn:Eu. unfold oupd in Eu. injection Eu as <- <-.
  destruct C as (E3 & R3 & V3). cbn [fst snd] in *.
  pose proof (sext_len s s1 E1). pose proof (sext_len _ _ E3).
  set (s3 := oset s2 sh (bdec (oget s2 sh))) in *.
  assert (E13 : sext s s3) by (eapply sext_trans; eauto).
  unfold o_bit. pose proof (new_fresh s3 s3 x (sext_refl s3)) as N. destruct (o_new s3 x) as [s4 c]. destruct N as (E4 & R4 & V4). cbn [fst snd] in *.
  pose proof (sext_len _ _ E4).
  rewrite V4, (oget_ext s3 s4 sh E4 ltac:(lia)), V3, (oget_ext s s3 x E13 Hx).
  apply (fresh_weaken s s3); [exact E13|]. apply (set_fresh s3 s4 c (oget s3 x)). split; [exact E4|]. split; [exact R4 | exact V4].
Qed.

(* ---- division: both results are fresh, distinct objects ---- *)
Definition fresh_pair (s : store) (s' : store) (q r : nat) (qv rv : bint) : Prop :=
  sext s s' /\ (length s <= q < length s')%nat /\ (length s <= r < length s')%nat /\ q <> r /\ oget s' q = qv /\ oget s' r = rv.

Lemma set2_fresh s s2 q r qv rv : sext s s2 -> (length s <= q < length s2)%nat -> (length s <= r < length s2)%nat -> q <> r ->
  fresh_pair s (oset (oset s2 q qv) r rv) q r qv rv.
Proof.
  intros E Hq Hr Hne. unfold fresh_pair. rewrite !oset_length.
  split; [apply sext_set; [apply sext_set; [exact E | lia] | lia]|]. split; [exact Hq|]. split; [exact Hr|]. split; [exact Hne|].
  split; [rewrite oget_set_other by congruence; apply oget_set_same; lia | apply oget_set_same; rewrite oset_length; lia].
Qed.

Lemma fresh_pair_weaken s0 s s' q r qv rv : sext s0 s -> fresh_pair s s' q r qv rv -> fresh_pair s0 s' q r qv rv.
Proof.
  intros E (A & B & C & D & F). pose proof (sext_len s0 s E). split; [eapply sext_trans; eauto|]. repeat split; try lia; tauto.
Qed.

Theorem obj_udivmod s x y s' q r : o_udivmod s x y = Ok (s', (q, r)) ->
  exists qv rv, udivmod (oget s x) (oget s y) = Ok (qv, rv) /\ fresh_pair s s' q r qv rv.
Proof.
  unfold o_udivmod. destruct (udivmod (oget s x) (oget s y)) as [[qv rv]|e]; [|discriminate].
  pose proof (new_fresh s s x (sext_refl s)) as N. destruct (o_new s x) as [s1 nume]. destruct N as (E1 & R1 & _). cbn [fst snd] in *.
  destruct (alloc_fresh s1 s1 bint_zero (sext_refl s1)) as ((E2 & R2 & _) & _). destruct (oalloc s1 bint_zero) as [s2 o2]. cbn [fst snd] in *.
  pose proof (sext_len _ _ E1). pose proof (sext_len _ _ E2).
  intros Hres. exists qv, rv. split; [reflexivity|].
  assert (E12 : sext s s2) by (eapply sext_trans; eauto).
  destruct (udiv_q_in_nume (oget s y)); cbn [fst snd] in Hres; injection Hres as <- <- <-; apply set2_fresh; auto; lia.
Qed.

Lemma neg_step s x : let p := o_neg s x in sext s (fst p) /\ (length s <= snd p < length (fst p))%nat.
Proof. destruct (obj_unary s x) as (_ & _ & _ & _ & _ & _ & _ & (A & B & _)). auto. Qed.
Lemma abs_step s x : let p := o_abs s x in sext s (fst p) /\ (length s <= snd p < length (fst p))%nat.
Proof. destruct (obj_unary s x) as (_ & _ & _ & (A & B & _) & _). auto. Qed.

Theorem obj_idivmod s x y s' q r (Hx : (x < length s)%nat) (Hy : (y < length s)%nat) : o_idivmod s x y = Ok (s', (q, r)) ->
  exists qv rv, idivmod (oget s x) (oget s y) = Ok (qv, rv) /\ fresh_pair s s' q r qv rv.
Proof.
  unfold o_idivmod.
  match goal with |- context [let (_, _) := ?p in _] => remember p as p1 eqn:Ep1 end.
  assert (P1 : sext s (fst p1)) by (rewrite Ep1; destruct (isneg (oget s x)); [apply neg_step | apply sext_refl]).
  clear Ep1. destruct p1 as [s1 ix]. cbn [fst] in P1.
  match goal with |- context [let (_, _) := ?p in _] => remember p as p2 eqn:Ep2 end.
  assert (P2 : sext s1 (fst p2)) by (rewrite Ep2; destruct (isneg (oget s y)); [apply neg_step | apply sext_refl]).
  clear Ep2. destruct p2 as [s2 iy]. cbn [fst] in P2.
  destruct (o_udivmod s2 ix iy) as [[s3 [q0 r0]]|e] eqn:U; [|discriminate].
  destruct (obj_udivmod _ _ _ _ _ _ U) as (qv0 & rv0 & _ & (E3 & Rq & Rr & Hne & _)).
  destruct (idivmod (oget s x) (oget s y)) as [[qv rv]|e]; [|discriminate].
  intros Hres. injection Hres as <- <- <-. exists qv, rv. split; [reflexivity|].
  assert (E02 : sext s s2) by (eapply sext_trans; eauto).
  apply (fresh_pair_weaken s s2); [exact E02|]. apply set2_fresh; auto.
Qed.

Theorem obj_tdivmod s x y s' q r (Hx : (x < length s)%nat) (Hy : (y < length s)%nat) : o_tdivmod s x y = Ok (s', (q, r)) ->
  exists qv rv, tdivmod (oget s x) (oget s y) = Ok (qv, rv) /\ sext s s' /\
    (length s <= q < length s')%nat /\ (length s <= r < length s')%nat /\ oget s' q = qv /\ oget s' r = rv.
Proof.
  unfold o_tdivmod. destruct (tdivmod (oget s x) (oget s y)) as [[qv rv]|e]; [|discriminate].
  pose proof (abs_step s x) as A1. destruct (o_abs s x) as [s1 ax]. destruct A1 as (E1 & _). cbn [fst snd] in *.
  pose proof (abs_step s1 y) as A2. destruct (o_abs s1 y) as [s2 ay]. destruct A2 as (E2 & _). cbn [fst snd] in *.
  destruct (o_udivmod s2 ax ay) as [[s3 [q0 r0]]|e] eqn:U; [|discriminate].
  destruct (obj_udivmod _ _ _ _ _ _ U) as (qv0 & rv0 & _ & (E3 & Rq & Rr & Hne & _)).
  match goal with |- context [let (_, _) := ?p in _] => remember p as p4 eqn:Ep4 end.
  assert (P4 : sext s3 (fst p4) /\ (length s2 <= snd p4 < length (fst p4))%nat /\ (snd p4 = q0 \/ length s3 <= snd p4)%nat).
  { rewrite Ep4. destruct (xorb _ _); [destruct (neg_step s3 q0) as (A & B); pose proof (sext_len _ _ E3); split; [exact A | split; lia] | split; [apply sext_refl | split; [exact Rq | left; reflexivity]]]. }
  clear Ep4. destruct p4 as [s4 q']. cbn [fst snd] in P4. destruct P4 as (E4 & Rq' & Cq).
  match goal with |- context [let (_, _) := ?p in _] => remember p as p5 eqn:Ep5 end.
  assert (P5 : sext s4 (fst p5) /\ (length s2 <= snd p5 < length (fst p5))%nat /\ (snd p5 = r0 \/ length s4 <= snd p5)%nat).
  { rewrite Ep5. pose proof (sext_len _ _ E4). destruct (isneg (oget s x)); [destruct (neg_step s4 r0) as (A & B); pose proof (sext_len _ _ E3); split; [exact A | split; lia] | split; [apply sext_refl | split; [cbn [fst snd]; lia | left; reflexivity]]]. }
  clear Ep5. destruct p5 as [s5 r']. cbn [fst snd] in P5. destruct P5 as (E5 & Rr' & Cr).
  intros Hres. injection Hres as <- <- <-. exists qv, rv. split; [reflexivity|].
  pose proof (sext_len _ _ E1). pose proof (sext_len _ _ E2). pose proof (sext_len _ _ E5).
  assert (E05 : sext s s5) by (eapply sext_trans; [exact E1|]; eapply sext_trans; [exact E2|]; eapply sext_trans; [exact E3|]; eapply sext_trans; eauto).
  rewrite !oset_length. split; [apply sext_set; [apply sext_set; [exact E05 | lia] | lia]|].
  split; [lia|]. split; [lia|]. split; [|apply oget_set_same; rewrite oset_length; lia].
  assert (Hd : q' <> r') by lia.
  rewrite oget_set_other by congruence. apply oget_set_same. lia.
Qed.

(* ---- powers ---- *)
Theorem obj_ipow s x y s' r : o_ipow s x y = Ok (s', r) ->
  exists v, ipow (oget s x) (oget s y) = Ok v /\ fresh_res s (s', r) v.
Proof.
  unfold o_ipow. destruct (ipow (oget s x) (oget s y)) as [v|e] eqn:Ev; [|discriminate]. intros Hres. exists v. split; [reflexivity|].
  unfold ipow in Ev. destruct (biszero (oget s y)).
  - injection Hres as <- <-. injection Ev as <-. apply alloc_fresh, sext_refl.
  - destruct (bisone (oget s y)).
    + injection Hres as <- <-. injection Ev as <-. apply new_fresh, sext_refl.
    + pose proof (new_fresh s s x (sext_refl s)) as N1. destruct (o_new s x) as [s1 cx]. destruct N1 as (E1 & _).
      pose proof (new_fresh s1 s1 y (sext_refl s1)) as N2. destruct (o_new s1 y) as [s2 cy]. destruct N2 as (E2 & R2 & _). cbn [fst snd] in *.
      destruct (alloc_fresh s2 s2 bint_one (sext_refl s2)) as ((E3 & _) & _). destruct (oalloc s2 bint_one) as [s3 z]. cbn [fst snd] in *.
      injection Hres as <- <-. pose proof (sext_len _ _ E1). pose proof (sext_len _ _ E2). pose proof (sext_len _ _ E3).
      apply (fresh_weaken s (oset s3 cy bint_one)).
      * apply sext_set; [|lia]. eapply sext_trans; [exact E1|]. eapply sext_trans; eauto.
      * apply alloc_fresh, sext_refl.
Qed.

Theorem obj_upowmod s x y m s' r : o_upowmod s x y m = Ok (s', r) ->
  exists v, upowmod (oget s x) (oget s y) (oget s m) = Ok v /\ fresh_res s (s', r) v.
Proof.
  unfold o_upowmod. destruct (upowmod (oget s x) (oget s y) (oget s m)) as [v|e] eqn:Ev; [|discriminate]. intros Hres. exists v. split; [reflexivity|].
  unfold upowmod, upowmod_pol in Ev. destruct (bisone (oget s m)).
  - injection Hres as <- <-. injection Ev as <-. apply alloc_fresh, sext_refl.
  - pose proof (new_fresh s s x (sext_refl s)) as N1. destruct (o_new s x) as [s1 cx]. destruct N1 as (E1 & _).
    pose proof (new_fresh s1 s1 y (sext_refl s1)) as N2. destruct (o_new s1 y) as [s2 cy]. destruct N2 as (E2 & R2 & _). cbn [fst snd] in *.
    destruct (alloc_fresh s2 s2 bint_one (sext_refl s2)) as ((E3 & R3 & _) & _). destruct (oalloc s2 bint_one) as [s3 z]. cbn [fst snd] in *.
    injection Hres as <- <-. pose proof (sext_len _ _ E1). pose proof (sext_len _ _ E2). pose proof (sext_len _ _ E3).
    unfold fresh_res. cbn [fst snd]. rewrite !oset_length.
    split; [apply sext_set; [apply sext_set; [|lia] | lia]; eapply sext_trans; [exact E1|]; eapply sext_trans; eauto|].
    split; [lia|]. apply oget_set_same. rewrite oset_length. lia.
Qed.

(* ---- functions returning no bint: the store only grows ---- *)
Theorem obj_scalar s x :
  (forall base uo, sext s (fst (o_tobase s x base uo)) /\ snd (o_tobase s x base uo) = tobase (oget s x) base uo) /\
  (sext s (fst (o_tointeger s x)) /\ snd (o_tointeger s x) = tointeger (oget s x)) /\
  (fst (o_compress s x) = s /\
   snd (o_compress s x) = match compress (oget s x) with inl i => inl i | inr _ => inr x end).
Proof.
  split; [|split].
  - intros base uo. unfold o_tobase. pose proof (new_fresh s s x (sext_refl s)) as N. destruct (o_new s x) as [s1 c].
    destruct N as (E & R & _). cbn [fst snd] in *. split; [apply sext_set; [exact E | lia] | reflexivity].
  - unfold o_tointeger. cbn [fst snd]. split; [|reflexivity]. destruct (isneg (oget s x)); [apply neg_step | apply sext_refl].
  - unfold o_compress. destruct (compress (oget s x)); auto.
Qed.

(* the frame property in the words of the audit: whatever a public function does, every object that
   existed before the call still holds the same limbs afterwards *)
Corollary sext_frame s0 s r : sext s0 s -> (r < length s0)%nat -> oget s r = oget s0 r.
Proof. apply oget_ext. Qed.
