From C17 Require Import Model.
Require Extraction.
Require Import ExtrOcamlBasic.
Extraction "model.ml" bint_zero bint_one fromuinteger frominteger touinteger tointeger
  badd bsub bmul binc bdec bnot bunm band bor bxor beq ult ule blt ble isneg shlone shrone
  BINT_SIZE uval sval.
