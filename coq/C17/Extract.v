From C17 Require Import Model Model2 Model3 Model4 Model5 ModelObj.
Require Extraction.
Require Import ExtrOcamlBasic.
Extraction "model.ml" bint_zero bint_one fromuinteger frominteger touinteger tointeger
  badd bsub bmul binc bdec bnot bunm band bor bxor beq ult ule blt ble isneg shlone shrone
  shlwords shrwords bshl bshr bwrap brol bror
  biszero bisone bisminusone biseven bisodd bint_mininteger bint_maxinteger babs bmax bmin
  udivmod udiv umod tdivmod idivmod bidiv bmod ipow upowmod compress
  tobase frombase bn_from_bin bn_from_hex bn_from_dec tohexint tobinint todecint
  tobint bnew fromstring bint_tonumber madd msub mmul mlt mle meq btrunc bfloor bceil
  bfromle bfrombe btole btobe todecsci_int demotefloat canbeintegral
  oget oset oupd o_new o_tobint o_abs o_inc o_dec o_max o_min o_bin o_bnot o_neg o_bit o_shift o_bwrap o_rot
  o_udivmod o_idivmod o_tdivmod o_ipow o_upowmod o_tobase o_tointeger o_compress
  split_bin split_hex bn_from_text
  lua_tonumber_base lua_tostring_int lua_format_x BINT_WORDBITS
  BINT_SIZE uval sval.
