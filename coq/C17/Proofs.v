From C17 Require Import Model.
From Coq Require Import ZifyBool.
Local Open Scope Z_scope.
Ltac Zify.zify_post_hook ::= Z.div_mod_to_equations.

(* facts about the regenerated parameters that every proof relies on; they are
   re-checked whenever Gen.v changes *)
Lemma wordbits_pos : 0 < BINT_WORDBITS. Proof. reflexivity. Qed.
Lemma wordbits_half : 2 * BINT_WORDBITS <= 64. Proof. vm_compute. discriminate. Qed.
Lemma bits_multiple : BINT_BITS = BINT_WORDBITS * Z.of_nat BINT_SIZE. Proof. reflexivity. Qed.

Lemma Wd_pos : 0 < Wd.
Proof. unfold Wd. apply Z.pow_pos_nonneg; [lia | pose proof wordbits_pos; lia]. Qed.

Lemma Wd_le : Wd * Wd <= two64.
Proof.
  unfold Wd. rewrite <- Z.pow_add_r by (pose proof wordbits_pos; lia).
  change two64 with (2 ^ 64). apply Z.pow_le_mono_r; [lia|]. pose proof wordbits_half. lia.
Qed.

Lemma Wd_le32 : Wd <= 4294967296.
Proof.
  unfold Wd. change 4294967296 with (2 ^ 32). apply Z.pow_le_mono_r; [lia|]. pose proof wordbits_half. lia.
Qed.

Lemma Wd_ge2 : 2 <= Wd.
Proof.
  unfold Wd. change 2 with (2 ^ 1) at 1. apply Z.pow_le_mono_r; [lia|]. pose proof wordbits_pos. lia.
Qed.

Lemma wordmax_eq : BINT_WORDMAX = Wd - 1.
Proof.
  unfold BINT_WORDMAX. pose proof wordbits_pos. pose proof wordbits_half. pose proof Wd_le32. pose proof Wd_ge2.
  rewrite lshl_small.
  - rewrite Z.mul_1_l. fold Wd. apply lsub_exact. unfold in_i64, minint, maxint, two63, two64 in *. lia.
  - lia.
  - rewrite Z.mul_1_l. fold Wd. unfold in_i64, minint, maxint, two63, two64 in *. lia.
Qed.

Lemma Wfull_eq : Wfull = Wd ^ Z.of_nat BINT_SIZE.
Proof.
  unfold Wfull, Wd. rewrite bits_multiple. rewrite Z.pow_mul_r; [reflexivity| pose proof wordbits_pos; lia | lia].
Qed.

Lemma band_wordmax a : lband a BINT_WORDMAX = a mod Wd.
Proof. rewrite wordmax_eq. unfold Wd. apply lband_ones. pose proof wordbits_pos. lia. Qed.

Lemma shr_word a : 0 <= a -> in_i64 a -> lshr a BINT_WORDBITS = a / Wd.
Proof.
  intros. unfold Wd. apply lshr_nonneg; auto. pose proof wordbits_pos. pose proof wordbits_half. lia.
Qed.

Lemma uval_range x : Forall limb_ok x -> 0 <= uval x < Wd ^ Z.of_nat (length x).
Proof.
  induction 1 as [|w r Hw Hr IH]; cbn [uval length].
  - simpl. lia.
  - rewrite Nat2Z.inj_succ, Z.pow_succ_r by lia. unfold limb_ok in Hw. pose proof Wd_pos. nia.
Qed.

(* ---- addition ---- *)
Lemma add_loop_spec xs : forall ys c,
  Forall limb_ok xs -> Forall limb_ok ys -> length xs = length ys -> 0 <= c <= 1 ->
  Forall limb_ok (add_loop xs ys c) /\ length (add_loop xs ys c) = length xs /\
  uval (add_loop xs ys c) = (uval xs + uval ys + c) mod Wd ^ Z.of_nat (length xs).
Proof.
  induction xs as [|x xs IH]; intros ys c Hx Hy Hl Hc.
  - destruct ys; [|discriminate]. cbn [add_loop uval length]. change (Z.of_nat 0) with 0. rewrite Z.pow_0_r, Z.mod_1_r. repeat split; auto.
  - destruct ys as [|y ys]; [discriminate|].
    inversion Hx as [|? ? Hx1 Hx2]; inversion Hy as [|? ? Hy1 Hy2]; subst.
    cbn [add_loop length uval]. unfold limb_ok in Hx1, Hy1.
    pose proof Wd_le32. pose proof Wd_ge2. pose proof Wd_pos.
    assert (Hs1 : ladd x y = x + y) by (apply ladd_exact; unfold in_i64, minint, maxint, two63, two64 in *; lia).
    rewrite Hs1.
    assert (Hs2 : ladd (x + y) c = x + y + c) by (apply ladd_exact; unfold in_i64, minint, maxint, two63, two64 in *; lia).
    rewrite Hs2. rewrite band_wordmax.
    rewrite shr_word by (unfold in_i64, minint, maxint, two63, two64 in *; lia).
    assert (Hc' : 0 <= (x + y + c) / Wd <= 1).
    { split; [apply Z.div_pos; lia|]. assert ((x + y + c) / Wd < 2) by (apply Z.div_lt_upper_bound; lia). lia. }
    injection Hl as Hl.
    destruct (IH ys ((x + y + c) / Wd) Hx2 Hy2 Hl Hc') as (IH1 & IH2 & IH3).
    split; [|split].
    + constructor; [unfold limb_ok; apply Z.mod_pos_bound; lia | exact IH1].
    + rewrite IH2. reflexivity.
    + rewrite IH3. rewrite Nat2Z.inj_succ, Z.pow_succ_r by lia.
      set (P := Wd ^ Z.of_nat (length xs)).
      assert (0 < P) by (apply Z.pow_pos_nonneg; lia).
      set (ux := uval xs). set (uy := uval ys).
      replace (x + Wd * ux + (y + Wd * uy) + c) with ((x + y + c) + (ux + uy) * Wd) by ring.
      rewrite Z.rem_mul_r by lia.
      rewrite Z.mod_add by lia. rewrite Z.div_add by lia.
      replace ((x + y + c) / Wd + (ux + uy)) with (ux + uy + (x + y + c) / Wd) by ring. reflexivity.
Qed.

Theorem add_correct x y : wf x -> wf y ->
  wf (badd x y) /\ uval (badd x y) = (uval x + uval y) mod Wfull.
Proof.
  intros [Lx Fx] [Ly Fy]. unfold badd.
  destruct (add_loop_spec x y 0 Fx Fy) as (H1 & H2 & H3); [congruence | lia |].
  split; [split; [congruence | exact H1]|].
  rewrite H3, Z.add_0_r, Lx, Wfull_eq. reflexivity.
Qed.

(* ---- subtraction ---- *)
Lemma sub_loop_spec xs : forall ys b,
  Forall limb_ok xs -> Forall limb_ok ys -> length xs = length ys -> 0 <= b <= 1 ->
  Forall limb_ok (sub_loop xs ys b) /\ length (sub_loop xs ys b) = length xs /\
  uval (sub_loop xs ys b) = (uval xs - uval ys - b) mod Wd ^ Z.of_nat (length xs).
Proof.
  induction xs as [|x xs IH]; intros ys b Hx Hy Hl Hb.
  - destruct ys; [|discriminate]. cbn [sub_loop uval length]. change (Z.of_nat 0) with 0. rewrite Z.pow_0_r, Z.mod_1_r. repeat split; auto.
  - destruct ys as [|y ys]; [discriminate|].
    inversion Hx as [|? ? Hx1 Hx2]; inversion Hy as [|? ? Hy1 Hy2]; subst.
    cbn [sub_loop length uval]. unfold limb_ok in Hx1, Hy1.
    pose proof Wd_le32. pose proof Wd_ge2. pose proof Wd_pos.
    rewrite wordmax_eq.
    assert (Hs0 : ladd (Wd - 1) 1 = Wd) by (rewrite ladd_exact; [ring | unfold in_i64, minint, maxint, two63, two64 in *; nia]).
    rewrite Hs0.
    assert (Hs1 : ladd x Wd = x + Wd) by (apply ladd_exact; unfold in_i64, minint, maxint, two63, two64 in *; lia).
    rewrite Hs1.
    assert (Hs2 : lsub (x + Wd) y = x + Wd - y) by (apply lsub_exact; unfold in_i64, minint, maxint, two63, two64 in *; lia).
    rewrite Hs2.
    assert (Hs3 : lsub (x + Wd - y) b = x + Wd - y - b) by (apply lsub_exact; unfold in_i64, minint, maxint, two63, two64 in *; lia).
    rewrite Hs3. rewrite <- wordmax_eq, band_wordmax.
    rewrite shr_word by (unfold in_i64, minint, maxint, two63, two64 in *; lia).
    set (res := x + Wd - y - b).
    assert (Hq : 0 <= res / Wd <= 1).
    { subst res. split; [apply Z.div_pos; lia|]. assert ((x + Wd - y - b) / Wd < 2) by (apply Z.div_lt_upper_bound; lia). lia. }
    assert (Hbx : lbxor (res / Wd) 1 = 1 - res / Wd).
    { unfold lbxor. assert (res / Wd = 0 \/ res / Wd = 1) as [E|E] by lia; rewrite E; reflexivity. }
    rewrite Hbx.
    injection Hl as Hl.
    assert (Hb' : 0 <= 1 - res / Wd <= 1) by lia.
    destruct (IH ys (1 - res / Wd) Hx2 Hy2 Hl Hb') as (IH1 & IH2 & IH3).
    split; [|split].
    + constructor; [unfold limb_ok; apply Z.mod_pos_bound; lia | exact IH1].
    + rewrite IH2. reflexivity.
    + rewrite IH3. rewrite Nat2Z.inj_succ, Z.pow_succ_r by lia.
      set (P := Wd ^ Z.of_nat (length xs)).
      assert (0 < P) by (apply Z.pow_pos_nonneg; lia).
      set (ux := uval xs). set (uy := uval ys).
      replace (x + Wd * ux - (y + Wd * uy) - b) with (res + (ux - uy - 1) * Wd) by (subst res; ring).
      rewrite Z.rem_mul_r by lia.
      rewrite Z.mod_add by lia. rewrite Z.div_add by lia.
      replace (ux - uy - (1 - res / Wd)) with (res / Wd + (ux - uy - 1)) by ring. reflexivity.
Qed.

Theorem sub_correct x y : wf x -> wf y ->
  wf (bsub x y) /\ uval (bsub x y) = (uval x - uval y) mod Wfull.
Proof.
  intros [Lx Fx] [Ly Fy]. unfold bsub.
  destruct (sub_loop_spec x y 0 Fx Fy) as (H1 & H2 & H3); [congruence | lia |].
  split; [split; [congruence | exact H1]|].
  rewrite H3, Z.sub_0_r, Lx, Wfull_eq. reflexivity.
Qed.

(* ---- equality ---- *)
Lemma uval_inj x : forall y, Forall limb_ok x -> Forall limb_ok y -> length x = length y ->
  uval x = uval y -> x = y.
Proof.
  induction x as [|a x IH]; intros [|b y] Hx Hy Hl He; try discriminate; auto.
  inversion Hx; inversion Hy; subst. cbn [uval] in He. unfold limb_ok in *.
  pose proof Wd_pos.
  assert (Ha : a = (a + Wd * uval x) mod Wd) by (rewrite Z.mul_comm, Z.mod_add, Z.mod_small; lia).
  assert (Hb : b = (b + Wd * uval y) mod Wd) by (rewrite Z.mul_comm, Z.mod_add, Z.mod_small; lia).
  assert (a = b) by congruence. subst b. f_equal. apply IH; auto. nia.
Qed.

Lemma beq_spec x : forall y, length x = length y -> beq x y = true <-> x = y.
Proof.
  induction x as [|a x IH]; intros [|b y] Hl; try discriminate; cbn [beq].
  - tauto.
  - injection Hl as Hl. destruct (a =? b) eqn:E.
    + apply Z.eqb_eq in E. subst. rewrite IH by auto. split; congruence.
    + apply Z.eqb_neq in E. split; [discriminate | congruence].
Qed.

Theorem eq_correct x y : wf x -> wf y -> beq x y = true <-> uval x = uval y.
Proof.
  intros [Lx Fx] [Ly Fy]. rewrite beq_spec by congruence.
  split; [congruence | apply uval_inj; auto; congruence].
Qed.
