(* bint -> text: tostring/%x of the Lua VM, tobase; round trip with frombase; bn.lua wrappers *)
From C17 Require Import Model Model2 Model3 Proofs ProofsLib ProofsArith ProofsBits ProofsConv ProofsShift ProofsMisc
  ProofsSudiv ProofsText.
From Coq Require Import ZifyBool.
Local Open Scope Z_scope.
Ltac Zify.zify_post_hook ::= Z.div_mod_to_equations.

(* canonical digit lists: digits of the base, no leading zero except for the single digit 0 *)
Definition canon (base : Z) (ds : list Z) (v : Z) : Prop :=
  digits_ok base ds /\ dval base ds = v /\ ds <> [] /\ (v = 0 -> ds = [0]) /\ (v <> 0 -> hd 0 ds <> 0).

Lemma dval_snoc base ds d : dval base (ds ++ [d]) = dval base ds * base + d.
Proof. rewrite dval_app. cbn [length]. change (Z.of_nat 1) with 1. rewrite Z.pow_1_r. unfold dval at 2. cbn. ring. Qed.

Lemma digits_ok_app base a b : digits_ok base (a ++ b) <-> digits_ok base a /\ digits_ok base b.
Proof. unfold digits_ok. apply Forall_app. Qed.

Lemma hd_app_ne (a b : list Z) : a <> [] -> hd 0 (a ++ b) = hd 0 a.
Proof. destruct a; [congruence | reflexivity]. Qed.

(* ---------- the Lua VM's integer formatting ---------- *)
Lemma digits_fuel_spec base : 2 <= base -> forall fuel n acc, 0 <= n < 2 ^ (Z.of_nat fuel + 1) ->
  exists ds, digits_fuel (S fuel) base n acc = Some (ds ++ acc) /\ canon base ds n.
Proof.
  intros Hb.
  assert (One : forall n, 0 <= n < base -> canon base [n] n).
  { intros n Hn. unfold canon, digits_ok, dval. cbn [dval_acc hd].
    split; [constructor; [lia | constructor]|]. split; [ring|]. split; [discriminate|]. split; [intros ->; reflexivity | auto]. }
  induction fuel as [|f IH]; intros n acc Hn.
  - change (2 ^ (Z.of_nat 0 + 1)) with 2 in Hn. cbn [digits_fuel]. destruct (n <? base) eqn:E; [|lia].
    exists [n]. split; [reflexivity | apply One; lia].
  - cbn [digits_fuel]. destruct (n <? base) eqn:E.
    + exists [n]. split; [reflexivity | apply One; lia].
    + replace (Z.of_nat (S f) + 1) with (Z.succ (Z.of_nat f + 1)) in Hn by lia. rewrite Z.pow_succ_r in Hn by lia.
      assert (Hq : 1 <= n / base < 2 ^ (Z.of_nat f + 1)).
      { split; [apply Z.div_le_lower_bound; lia|]. apply Z.div_lt_upper_bound; [lia|]. nia. }
      destruct (IH (n / base) (n mod base :: acc) ltac:(lia)) as (ds & A & (C1 & C2 & C3 & C4 & C5)).
      cbn [digits_fuel] in A. exists (ds ++ [n mod base]). rewrite <- app_assoc. split; [exact A|].
      pose proof (Z.mod_pos_bound n base ltac:(lia)) as Hm.
      split; [apply digits_ok_app; split; [exact C1 | constructor; [lia | constructor]]|].
      split; [rewrite dval_snoc, C2; pose proof (Z.div_mod n base ltac:(lia)); lia|].
      split; [destruct ds; discriminate|]. split; [intros; lia|].
      intros _. rewrite hd_app_ne by exact C3. apply C5. lia.
Qed.

Lemma nat_digits_spec base n : 2 <= base -> 0 <= n < two64 -> exists ds, nat_digits base n = Some ds /\ canon base ds n.
Proof.
  intros Hb Hn. unfold nat_digits.
  destruct (digits_fuel_spec base Hb 63 n [] ltac:(change (2 ^ (Z.of_nat 63 + 1)) with two64; lia)) as (ds & A & C).
  change 64%nat with (S 63). rewrite A, app_nil_r. exists ds. auto.
Qed.

(* the letter table of bint.lua agrees with the VM's digits *)
Lemma letters_fact : forallb (fun d => letter (Z.of_nat d) =? digit_char (Z.of_nat d)) (seq 0 36) = true.
Proof. vm_compute. reflexivity. Qed.

Lemma letter_digit d : 0 <= d < 36 -> letter d = digit_char d.
Proof.
  intros Hd. pose proof letters_fact as X. rewrite forallb_forall in X.
  specialize (X (Z.to_nat d) ltac:(apply in_seq; lia)). rewrite Z2Nat.id in X by lia. lia.
Qed.

Lemma map_letter base ds : base <= 36 -> digits_ok base ds -> map letter ds = map digit_char ds.
Proof. intros Hb. induction 1 as [|d r Hd Hr IH]; cbn [map]; [reflexivity|]. rewrite IH, letter_digit by lia. reflexivity. Qed.

Definition digit_check (d : Z) : bool :=
  is_alnum (digit_char d) && (char_digit (digit_char d) =? d).
Lemma digit_check_all : forallb (fun d => digit_check (Z.of_nat d)) (seq 0 36) = true.
Proof. vm_compute. reflexivity. Qed.

Lemma digit_char_ok base d : base <= 36 -> 0 <= d < base -> char_ok base (digit_char d) /\ cval (digit_char d) = d.
Proof.
  intros Hb Hd. pose proof digit_check_all as X. rewrite forallb_forall in X.
  specialize (X (Z.to_nat d) ltac:(apply in_seq; lia)). rewrite Z2Nat.id in X by lia.
  unfold digit_check in X. apply andb_prop in X. destruct X as (X1 & X2). unfold char_ok, cval. split; [split; [exact X1 | lia] | lia].
Qed.

Lemma digit_chars_ok base ds : base <= 36 -> digits_ok base ds ->
  Forall (char_ok base) (map digit_char ds) /\ map cval (map digit_char ds) = ds.
Proof.
  intros Hb. induction 1 as [|d r Hd Hr (IH1 & IH2)]; cbn [map]; [split; [constructor | reflexivity]|].
  destruct (digit_char_ok base d Hb Hd) as (A & B). split; [constructor; auto | rewrite B, IH2; reflexivity].
Qed.

(* ---------- the digit loop ---------- *)
Lemma tb_digits_spec base : 2 <= base < two63 -> forall n xd xz acc, 0 <= xd < base ^ Z.of_nat n -> xd < two63 ->
  exists ds, tb_digits n base xd xz acc = Some (ds ++ acc) /\ digits_ok base ds /\ dval base ds = xd /\
    (xz = false -> length ds = n) /\
    (xz = true -> (xd = 0 -> ds = []) /\ (xd <> 0 -> ds <> [] /\ hd 0 ds <> 0)).
Proof.
  intros Hb. induction n as [|n IH]; intros xd xz acc Hxd H63; cbn [tb_digits].
  - change (base ^ Z.of_nat 0) with 1 in Hxd. assert (xd = 0) by lia. subst xd. exists [].
    split; [reflexivity|]. split; [constructor|]. split; [reflexivity|]. split; [reflexivity|]. intros _. split; [reflexivity | congruence].
  - unfold lidiv, lmod. destruct (base =? 0) eqn:E0; [lia|].
    pose proof (Z.mod_pos_bound xd base ltac:(lia)) as Hm. pose proof (Z.div_mod xd base ltac:(lia)) as Hdm.
    assert (Hq : 0 <= xd / base <= xd) by (split; [apply Z.div_pos; lia | apply Z.div_le_upper_bound; nia]).
    rewrite wrap64_id by i64.
    rewrite Nat2Z.inj_succ, Z.pow_succ_r in Hxd by lia.
    assert (Hq2 : xd / base < base ^ Z.of_nat n) by (apply Z.div_lt_upper_bound; lia).
    set (q := xd / base) in *. set (d := xd mod base) in *. clearbody q d.
    destruct (xz && (q =? 0) && (d =? 0)) eqn:Estop.
    + assert (xz = true /\ xd = 0) as (-> & ->) by (destruct xz; cbn [andb] in Estop; [split; [reflexivity | lia] | discriminate]).
      exists []. split; [reflexivity|]. split; [constructor|]. split; [reflexivity|]. split; [discriminate|].
      intros _. split; [reflexivity | congruence].
    + destruct (IH q xz (d :: acc) ltac:(lia) ltac:(lia)) as (ds & A & B & C & D1 & D2).
      exists (ds ++ [d]). rewrite <- app_assoc. split; [exact A|].
      split; [apply digits_ok_app; split; [exact B | constructor; [lia | constructor]]|].
      split; [rewrite dval_snoc, C; lia|].
      split; [intros Hf; rewrite app_length, (D1 Hf); cbn [length]; lia|].
      intros ->. destruct (D2 eq_refl) as (Z1 & Z2). cbn [andb] in Estop.
      split; [intros ->; exfalso; lia|]. intros Hne. split; [destruct ds; discriminate|].
      destruct (Z.eq_dec q 0) as [Eq0|Nq0].
      * rewrite (Z1 Eq0). cbn [app hd]. lia.
      * destruct (Z2 Nq0) as (N1 & N2). rewrite hd_app_ne by exact N1. exact N2.
Qed.

(* ---------- the chunk division: sudivmod plus the tracking of the top non-zero limb ---------- *)
Fixpoint top_nz (qs : list Z) : option nat :=
  match qs with
  | [] => None
  | q :: r => if q =? 0 then top_nz r else Some (S (length r))
  end.

Lemma sudiv_loop_length rn : forall deno carry rema qs rm,
  sudiv_loop rn deno carry rema = Some (qs, rm) -> length qs = length rn.
Proof.
  induction rn as [|w r IH]; intros deno carry rema qs rm; cbn [sudiv_loop].
  - intros E. injection E as <- <-. reflexivity.
  - destruct (lidiv (lbor carry w) deno); [|discriminate]. destruct (lmod (lbor carry w) deno); [|discriminate].
    destruct (sudiv_loop r deno (lshl z0 BINT_WORDBITS) z0) as [[qs' rm']|] eqn:E; [|discriminate].
    intros X. injection X as <- <-. cbn [length]. f_equal. eapply IH; eauto.
Qed.

Lemma tb_div_sudiv rx : forall bp carry xd xz sz,
  tb_div rx bp carry xd xz sz =
  match sudiv_loop rx bp carry xd with
  | None => None
  | Some (qs, rm) =>
      Some (qs, rm, (if xz then match top_nz qs with Some _ => false | None => true end else false),
            (if xz then match top_nz qs with Some i => i | None => sz end else sz))
  end.
Proof.
  induction rx as [|w r IH]; intros bp carry xd xz sz; cbn [tb_div sudiv_loop].
  - destruct xz; reflexivity.
  - destruct (lidiv (lbor carry w) bp) as [d|]; [|reflexivity]. destruct (lmod (lbor carry w) bp) as [m|]; [|reflexivity].
    rewrite IH. destruct (sudiv_loop r bp (lshl m BINT_WORDBITS) m) as [[qs rm]|] eqn:E; [|reflexivity].
    pose proof (sudiv_loop_length _ _ _ _ _ _ E) as L.
    destruct xz; cbn [andb top_nz].
    + destruct (d =? 0) eqn:E0; cbn [negb]; [reflexivity|]. rewrite L. reflexivity.
    + reflexivity.
Qed.

Lemma top_nz_spec qs : Forall limb_ok qs ->
  match top_nz qs with
  | None => uval (rev qs) = 0
  | Some i => (1 <= i <= length qs)%nat /\ 0 < uval (rev qs) < Wd ^ Z.of_nat i
  end.
Proof.
  induction 1 as [|q r Hq Hr IH]; cbn [top_nz rev length]; [reflexivity|].
  rewrite uval_snoc, rev_length. unfold limb_ok in Hq.
  pose proof (uval_range (rev r) ltac:(apply Forall_rev; auto)) as R. rewrite rev_length in R.
  pose proof (Wdpow_pos (length r)) as HP.
  destruct (q =? 0) eqn:E.
  - apply Z.eqb_eq in E. subst q. rewrite Z.mul_0_r, Z.add_0_r. destruct (top_nz r); [|exact IH].
    destruct IH as (A & B). split; [lia | exact B].
  - split; [lia|]. rewrite Wdpow_S. nia.
Qed.

Section Outer.
  Variables base bp : Z.
  Variable step : nat.
  Hypothesis Hbase : 2 <= base <= 36.
  Hypothesis Hbp : bp = base ^ Z.of_nat step.
  Hypothesis Hbp2 : 2 <= bp < Wd / 2.

  Lemma tb_outer_spec fuel : forall x size acc, wf x -> (1 <= size <= BINT_SIZE)%nat ->
    0 < uval x < Wd ^ Z.of_nat size -> uval x < 2 ^ Z.of_nat fuel -> digits_ok base acc ->
    exists ds, tb_outer (S fuel) x size bp step base acc = Ok ds /\ digits_ok base ds /\
      dval base ds = uval x * base ^ Z.of_nat (length acc) + dval base acc /\ ds <> [] /\ hd 0 ds <> 0.
  Proof.
    pose proof Wd_le32 as HW32.
    induction fuel as [|f IH]; intros x size acc Hx Hsz Hux Hf Hacc.
    - change (2 ^ Z.of_nat 0) with 1 in Hf. lia.
    - destruct Hx as [Lx Fx]. cbn [tb_outer]. rewrite tb_div_sudiv.
      assert (Ff : Forall limb_ok (rev (firstn size x))) by (apply Forall_rev, Forall_firstn; auto).
      destruct (sudiv_loop_spec bp ltac:(lia) (rev (firstn size x)) 0 Ff ltac:(lia)) as (qs & rm & E & Fq & Lq & V).
      rewrite Z.mul_0_l in E. rewrite E. cbn zeta in V. rewrite Z.mul_0_l, Z.add_0_l, rev_involutive in V.
      destruct (small_firstn x size Fx ltac:(lia) (proj2 Hux)) as (A1 & A2). rewrite A1 in V. destruct V as (V1 & V2).
      rewrite rev_length, firstn_length in Lq. replace (Nat.min size (length x)) with size in Lq by lia.
      pose proof (Z.mod_pos_bound (uval x) bp ltac:(lia)) as Hm. pose proof (Z.div_mod (uval x) bp ltac:(lia)) as Hdm.
      assert (Hbase63 : 2 <= base < two63) by (unfold two63; lia).
      pose proof (top_nz_spec qs Fq) as T.
      destruct (top_nz qs) as [i|] eqn:ET.
      + (* more chunks follow: exactly step digits *)
        destruct T as (Ti & Tv). rewrite V1 in Tv.
        destruct (tb_digits_spec base Hbase63 step rm false acc ltac:(rewrite <- Hbp, V2; lia) ltac:(rewrite V2; unfold two63; lia))
          as (ds1 & D1 & D2 & D3 & D4 & _).
        rewrite D1. specialize (D4 eq_refl).
        set (x' := rev qs ++ skipn size x).
        assert (Wx' : wf x').
        { subst x'. split; [rewrite app_length, rev_length, skipn_length; lia|].
          apply Forall_app; split; [apply Forall_rev; auto | apply Forall_skipn; auto]. }
        assert (Vx' : uval x' = uval x / bp).
        { subst x'. rewrite uval_app, A2, Z.mul_0_r, Z.add_0_r. exact V1. }
        destruct (IH x' i (ds1 ++ acc) Wx' ltac:(lia) ltac:(rewrite Vx'; lia)) as (ds & R1 & R2 & R3 & R4 & R5).
        { rewrite Vx'. apply Z.div_lt_upper_bound; [lia|]. rewrite Nat2Z.inj_succ, Z.pow_succ_r in Hf by lia. nia. }
        { apply digits_ok_app; auto. }
        exists ds. split; [exact R1|]. split; [exact R2|]. split; [|auto].
        rewrite R3, Vx', dval_app, D3, app_length, D4, Nat2Z.inj_add, Z.pow_add_r, <- Hbp, V2 by lia.
        rewrite Hdm at 3. ring.
      + (* last chunk: leading zeros are dropped *)
        rewrite V1 in T.
        destruct (tb_digits_spec base Hbase63 step rm true acc ltac:(rewrite <- Hbp, V2; lia) ltac:(rewrite V2; unfold two63; lia))
          as (ds1 & D1 & D2 & D3 & _ & D5).
        rewrite D1. destruct (D5 eq_refl) as (_ & D6).
        assert (Hrm : rm <> 0) by (rewrite V2; lia).
        destruct (D6 Hrm) as (N1 & N2).
        exists (ds1 ++ acc). split; [reflexivity|]. split; [apply digits_ok_app; auto|].
        split; [rewrite dval_app, D3, V2; f_equal; f_equal; lia|].
        split; [destruct ds1; [congruence | discriminate]|]. rewrite hd_app_ne by exact N1. exact N2.
  Qed.
End Outer.

(* ---------- tobase ---------- *)
Definition tobase_neg (x : bint) (unsigned : bool) : bool := negb unsigned && (sval x <? 0).
Definition tobase_val (x : bint) (unsigned : bool) : Z := if unsigned then uval x else Z.abs (sval x).

Lemma sval_nonneg_uval x : wf x -> 0 <= sval x -> uval x = sval x.
Proof.
  intros Hx H. unfold sval in *. pose proof (wf_range x Hx). destruct (uval x <? Wfull / 2); lia.
Qed.

Lemma Wd_ge256 : 256 <= Wd.
Proof. unfold Wd. change 256 with (2 ^ 8). apply Z.pow_le_mono_r; [lia | apply wordbits_ge8]. Qed.

Lemma canon_zero base : 2 <= base -> canon base [0] 0.
Proof.
  intros. unfold canon, digits_ok, dval. cbn [dval_acc hd].
  split; [constructor; [lia | constructor]|]. split; [ring|]. split; [discriminate|]. split; [reflexivity | congruence].
Qed.

Theorem tobase_correct x base uo : wf x -> 2 <= base <= 36 ->
  let unsigned := match uo with Some u => u | None => negb (base =? 10) end in
  exists ds, tobase x base uo = Ok ((if tobase_neg x unsigned then [45] else []) ++ map digit_char ds) /\
             canon base ds (tobase_val x unsigned).
Proof.
  intros Hx Hb. cbn zeta. unfold tobase.
  destruct ((2 <=? base) && (base <=? 36)) eqn:Eb; [|lia]. cbn [negb].
  set (unsigned := match uo with Some u => u | None => negb (base =? 10) end).
  pose proof (sval_bounds x Hx) as Bx. destruct Half_facts as (EH & H63). unfold two63 in H63.
  destruct (frominteger_correct maxint ltac:(i64)) as (Wmax & _ & Smax).
  destruct (frominteger_correct minint ltac:(i64)) as (Wmin & _ & Smin).
  rewrite (le_correct x _ Hx Wmax), (le_correct _ x Wmin Hx), Smax, Smin.
  rewrite (isneg_correct x Hx), (tointeger_correct x Hx).
  set (s := sval x) in *.
  set (cond := ((base =? 10) && negb unsigned) || ((base =? 16) && unsigned && negb (s <? 0))).
  set (small := cond && (s <=? maxint) && (minint <=? s)).
  destruct (small && (base =? 10)) eqn:CaseA.
  { (* tostring *)
    assert (Hs : in_i64 s /\ base = 10 /\ unsigned = false).
    { subst small cond. clearbody unsigned.
      apply andb_prop in CaseA as (C1 & C2). apply andb_prop in C1 as (C1 & C3). apply andb_prop in C1 as (C1 & C4).
      apply Z.eqb_eq in C2. subst base. change (10 =? 10) with true in C1. change (10 =? 16) with false in C1.
      cbn [andb orb] in C1. destruct unsigned; [discriminate|]. split; [i64 | auto]. }
    destruct Hs as (Hs & -> & Eu). rewrite Eu. rewrite wrap64_id by exact Hs.
    unfold lua_tostring_int, tobase_neg, tobase_val. cbn [negb andb]. fold s.
    destruct (s <? 0) eqn:En.
    - destruct (nat_digits_spec 10 (- s) ltac:(lia) ltac:(i64)) as (ds & Ed & Cd). rewrite Ed.
      exists ds. split; [reflexivity|]. rewrite Z.abs_neq by lia. exact Cd.
    - destruct (nat_digits_spec 10 s ltac:(lia) ltac:(i64)) as (ds & Ed & Cd). rewrite Ed.
      exists ds. split; [reflexivity|]. rewrite Z.abs_eq by lia. exact Cd. }
  destruct (small && unsigned) eqn:CaseB.
  { (* string.format('%x') *)
    assert (Hs : in_i64 s /\ base = 16 /\ unsigned = true /\ 0 <= s).
    { subst small cond. clearbody unsigned.
      apply andb_prop in CaseB as (C1 & C2). apply andb_prop in C1 as (C1 & C3). apply andb_prop in C1 as (C1 & C4).
      subst unsigned. cbn [negb andb orb] in C1. rewrite andb_false_r in C1. cbn [orb] in C1.
      apply andb_prop in C1 as (C1 & C5). rewrite andb_true_r in C1. apply Z.eqb_eq in C1.
      split; [i64 | split; [exact C1 | split; [reflexivity | lia]]]. }
    destruct Hs as (Hs & -> & Eu & Hs0). rewrite Eu. rewrite wrap64_id by exact Hs.
    unfold lua_format_x, tobase_neg, tobase_val. cbn [negb andb app].
    rewrite u64_small by i64. destruct (nat_digits_spec 16 s ltac:(lia) ltac:(i64)) as (ds & Ed & Cd). rewrite Ed.
    exists ds. split; [reflexivity|]. rewrite (sval_nonneg_uval x Hx Hs0). fold s. exact Cd. }
  clear CaseA CaseB small cond.
  (* the general path *)
  change (negb unsigned && (s <? 0)) with (tobase_neg x unsigned).
  set (neg := tobase_neg x unsigned).
  set (x1 := if neg then babs x else x).
  assert (X1 : wf x1 /\ uval x1 = tobase_val x unsigned).
  { subst x1 neg. unfold tobase_neg, tobase_val. fold s. destruct unsigned; cbn [negb andb]; [auto|].
    destruct (s <? 0) eqn:En.
    - destruct (absval x Hx) as (A & B). cbn zeta in *. unfold babs. rewrite (isneg_correct x Hx) in *. fold s in A, B |- *.
      rewrite En in *. auto.
    - split; [exact Hx|]. rewrite Z.abs_eq by lia. apply sval_nonneg_uval; auto. fold s. lia. }
  destruct X1 as (W1 & V1). set (V := tobase_val x unsigned) in *. clearbody x1.
  rewrite (iszero_correct x1 W1), V1.
  destruct (V =? 0) eqn:E0.
  { apply Z.eqb_eq in E0. rewrite E0. exists [0]. split; [|apply canon_zero; lia].
    (* a zero value is never negative, so no sign *)
    assert (Hneg : neg = false).
    { subst neg V. unfold tobase_neg, tobase_val in *. destruct unsigned; [reflexivity|]. cbn [negb andb]. fold s in E0 |- *.
      destruct (s <? 0) eqn:En; [lia | reflexivity]. }
    rewrite Hneg. reflexivity. }
  destruct wordmsb_eq as (M0 & M1 & M2). pose proof Wd_ge256 as H256. pose proof Wd_le32 as HW32.
  assert (Emsb : lsub BINT_WORDMSB 1 = Wd / 2 - 1) by (rewrite M0; apply lsub_exact; i64).
  rewrite Emsb. unfold lidiv. destruct (base =? 0) eqn:Ez; [lia|].
  set (limit := (Wd / 2 - 1) / base).
  assert (Hlim : 2 <= limit /\ limit * base <= Wd / 2 - 1).
  { subst limit. split; [apply Z.div_le_lower_bound; lia|].
    pose proof (Z.div_mod (Wd / 2 - 1) base ltac:(lia)). pose proof (Z.mod_pos_bound (Wd / 2 - 1) base ltac:(lia)). nia. }
  rewrite (wrap64_id limit) by i64.
  destruct (basepow_loop_spec base limit 64 ltac:(lia) ltac:(unfold maxint, two63; lia) 0%nat 1 ltac:(reflexivity) ltac:(lia))
    as (step & B1 & B2 & B3 & B4).
  { change (2 ^ Z.of_nat 64) with 18446744073709551616. lia. }
  rewrite B1.
  assert (Hbp : 2 <= base ^ Z.of_nat step < Wd / 2).
  { split; [lia|]. replace step with (S (step - 1)) by lia. rewrite Nat2Z.inj_succ, Z.pow_succ_r by lia. nia. }
  pose proof (wf_range x1 W1) as R1. pose proof bits_ge64 as Hb64.
  destruct (tb_outer_spec base (base ^ Z.of_nat step) step Hb eq_refl Hbp (Z.to_nat BINT_BITS) x1 BINT_SIZE [] W1)
    as (ds & T1 & T2 & T3 & T4 & T5).
  { pose proof size_pos. lia. }
  { rewrite <- Wfull_eq. lia. }
  { rewrite Z2Nat.id by lia. exact (proj2 R1). }
  { constructor. }
  rewrite T1. exists ds. rewrite (map_letter base ds) by (try lia; exact T2). split; [reflexivity|].
  cbn [length] in T3. change (Z.of_nat 0) with 0 in T3. rewrite Z.pow_0_r, Z.mul_1_r in T3. change (dval base []) with 0 in T3.
  rewrite Z.add_0_r, V1 in T3.
  split; [exact T2|]. split; [exact T3|]. split; [exact T4|]. split; [intros; lia | intros; exact T5].
Qed.

Theorem tobase_badbase x base uo : ~ (2 <= base <= 36) -> tobase x base uo = Err ENone.
Proof. intros H. unfold tobase. destruct ((2 <=? base) && (base <=? 36)) eqn:E; [lia | reflexivity]. Qed.

(* ---------- round trip ---------- *)
Theorem frombase_tobase x base uo : wf x -> 2 <= base <= 36 ->
  exists s, tobase x base uo = Ok s /\ frombase s base = Ok x.
Proof.
  intros Hx Hb. destruct (tobase_correct x base uo Hx Hb) as (ds & E & (C1 & C2 & C3 & C4 & C5)). cbn zeta in *.
  set (unsigned := match uo with Some u => u | None => negb (base =? 10) end) in *.
  exists ((if tobase_neg x unsigned then [45] else []) ++ map digit_char ds). split; [exact E|].
  destruct (digit_chars_ok base ds ltac:(lia) C1) as (K1 & K2).
  assert (Hne : map digit_char ds <> []) by (destruct ds; [congruence | discriminate]).
  destruct (frombase_correct base (if tobase_neg x unsigned then [45] else []) (map digit_char ds) Hb) as (r & R1 & R2 & R3); auto.
  { destruct (tobase_neg x unsigned); [right; left; reflexivity | left; reflexivity]. }
  transitivity (Ok r); [exact R1|]. f_equal. apply wf_inj; auto. rewrite R3, K2, C2.
  unfold tobase_neg, tobase_val. pose proof (wf_range x Hx). pose proof Wfull_pos.
  destruct unsigned; cbn [negb andb sign_val].
  - rewrite Z.mul_1_l. apply Z.mod_small. lia.
  - rewrite (sval_mod x Hx). destruct (sval x <? 0) eqn:En; cbn [sign_val]; f_equal; lia.
Qed.
