(* text -> bint: tonumber(s, base), frombase, the integer-literal reader of bn.lua *)
From C17 Require Import Model Model2 Model3 Proofs ProofsLib ProofsArith ProofsMul ProofsBits ProofsConv ProofsShift ProofsMisc.
From Coq Require Import ZifyBool.
Local Open Scope Z_scope.
Ltac Zify.zify_post_hook ::= Z.div_mod_to_equations.

(* ---------- value of a digit list (most significant first) ---------- *)
Fixpoint dval_acc (base : Z) (ds : list Z) (acc : Z) : Z :=
  match ds with
  | [] => acc
  | d :: r => dval_acc base r (acc * base + d)
  end.
Definition dval (base : Z) (ds : list Z) : Z := dval_acc base ds 0.

Lemma dval_acc_app base a : forall b acc, dval_acc base (a ++ b) acc = dval_acc base b (dval_acc base a acc).
Proof. induction a as [|d a IH]; intros; cbn [app dval_acc]; auto. Qed.

Lemma dval_acc_shift base ds : forall acc,
  dval_acc base ds acc = acc * base ^ Z.of_nat (length ds) + dval base ds.
Proof.
  unfold dval. induction ds as [|d r IH]; intros acc; cbn [dval_acc length].
  - change (Z.of_nat 0) with 0. rewrite Z.pow_0_r. ring.
  - rewrite IH, (IH (0 * base + d)). rewrite Nat2Z.inj_succ, Z.pow_succ_r by lia. ring.
Qed.

Lemma dval_app base a b : dval base (a ++ b) = dval base a * base ^ Z.of_nat (length b) + dval base b.
Proof. unfold dval at 1. rewrite dval_acc_app, dval_acc_shift. reflexivity. Qed.

Definition digits_ok (base : Z) (ds : list Z) : Prop := Forall (fun d => 0 <= d < base) ds.

Lemma dval_acc_mono base ds : 1 <= base -> digits_ok base ds -> forall acc, 0 <= acc -> acc <= dval_acc base ds acc.
Proof.
  intros Hb. induction 1 as [|d r Hd Hr IH]; intros acc Ha; cbn [dval_acc]; [lia|].
  apply Z.le_trans with (acc * base + d); [nia|]. apply IH. nia.
Qed.

Lemma dval_bound base ds : 1 <= base -> digits_ok base ds -> 0 <= dval base ds < base ^ Z.of_nat (length ds).
Proof.
  intros Hb. unfold dval. induction ds as [|d r IH] using rev_ind; intros H.
  - cbn. lia.
  - apply Forall_app in H. destruct H as (H1 & H2). inversion H2 as [|? ? Hd _]; subst.
    rewrite dval_acc_app. cbn [dval_acc]. rewrite app_length. cbn [length].
    replace (Z.of_nat (length r + 1)) with (Z.succ (Z.of_nat (length r))) by lia. rewrite Z.pow_succ_r by lia.
    specialize (IH H1). nia.
Qed.

(* ---------- characters ---------- *)
Definition cval (c : Z) : Z := char_digit c.
Definition char_ok (base c : Z) : Prop := is_alnum c = true /\ 0 <= char_digit c < base.

Definition alnum_check (c : Z) : bool :=
  negb (is_alnum c) ||
  (negb (c =? 45) && negb (c =? 43) && negb (is_space c) && (0 <=? char_digit c) && (char_digit c <? 36) &&
   is_alnum (to_lower c) && (char_digit (to_lower c) =? char_digit c)).

Lemma alnum_check_all : forallb alnum_check (map Z.of_nat (seq 48 75)) = true.
Proof. vm_compute. reflexivity. Qed.

Lemma alnum_cases c : is_alnum c = true ->
  c <> 45 /\ c <> 43 /\ is_space c = false /\ 0 <= char_digit c < 36 /\
  is_alnum (to_lower c) = true /\ char_digit (to_lower c) = char_digit c.
Proof.
  intros H.
  assert (R : 48 <= c <= 122) by (unfold is_alnum, is_digit, is_upper, is_lower in H; lia).
  pose proof alnum_check_all as X. rewrite forallb_forall in X.
  specialize (X c). unfold alnum_check in X. rewrite H in X. cbn [negb orb] in X.
  assert (Hin : In c (map Z.of_nat (seq 48 75))).
  { apply in_map_iff. exists (Z.to_nat c). split; [lia|]. apply in_seq. lia. }
  specialize (X Hin).
  repeat (apply andb_prop in X; destruct X as [X ?]).
  destruct (is_space c); [discriminate|].
  repeat split; try lia. assumption.
Qed.

Lemma sign_not_alnum : is_alnum 45 = false /\ is_alnum 43 = false /\ to_lower 45 = 45 /\ to_lower 43 = 43.
Proof. repeat split; reflexivity. Qed.

Lemma char_ok_lower base c : char_ok base c -> char_ok base (to_lower c) /\ cval (to_lower c) = cval c.
Proof.
  intros (A & B). destruct (alnum_cases c A) as (_ & _ & _ & _ & L1 & L2). unfold char_ok, cval. rewrite L1, L2. auto.
Qed.

Lemma chars_ok_digits base cs : Forall (char_ok base) cs -> digits_ok base (map cval cs).
Proof. induction 1 as [|c r (A & B) Hr IH]; cbn [map]; constructor; auto. Qed.

(* ---------- tonumber(s, base) on digit strings ---------- *)
Lemma str2int_digits_spec base cs : 2 <= base -> Forall (char_ok base) cs ->
  forall n, 0 <= n -> dval_acc base (map cval cs) n <= maxint ->
  str2int_digits cs base n = Some (dval_acc base (map cval cs) n, []).
Proof.
  intros Hb. induction 1 as [|c r (A & B) Hr IH]; intros n Hn Hmax; cbn [str2int_digits map dval_acc]; [reflexivity|].
  rewrite A. destruct (base <=? char_digit c) eqn:E; [lia|]. unfold cval in *.
  assert (Hd : digits_ok base (map cval r)) by (apply chars_ok_digits; auto).
  pose proof (dval_acc_mono base (map cval r) ltac:(lia) Hd (n * base + char_digit c) ltac:(nia)) as Hm.
  cbn [map dval_acc] in Hmax. unfold cval in *.
  rewrite lmul_exact by (unf64; nia). rewrite ladd_exact by (unf64; nia).
  apply IH; [nia | exact Hmax].
Qed.

Lemma skip_ws_alnum c r : is_alnum c = true -> skip_ws (c :: r) = c :: r.
Proof. intros H. destruct (alnum_cases c H) as (_ & _ & S & _). cbn [skip_ws]. rewrite S. reflexivity. Qed.

(* sg: nothing, "-" or "+" *)
Definition sign_ok (sg : str) : Prop := sg = [] \/ sg = [45] \/ sg = [43].
Definition sign_val (sg : str) : Z := match sg with [45] => -1 | _ => 1 end.

Lemma strip_sign_spec sg c r : sign_ok sg -> is_alnum c = true ->
  skip_ws (sg ++ c :: r) = sg ++ c :: r /\
  strip_sign (sg ++ c :: r) = (match sg with [45] => true | _ => false end, c :: r).
Proof.
  intros Hs Hc. destruct (alnum_cases c Hc) as (N1 & N2 & S & _).
  destruct Hs as [->|[->| ->]]; cbn [app skip_ws strip_sign].
  - rewrite S. destruct (c =? 45) eqn:E1; [lia|]. destruct (c =? 43) eqn:E2; [lia|]. auto.
  - auto.
  - auto.
Qed.

Lemma tonumber_spec base sg cs : 2 <= base -> sign_ok sg -> cs <> [] -> Forall (char_ok base) cs ->
  dval base (map cval cs) <= maxint ->
  lua_tonumber_base (sg ++ cs) base = Some (sign_val sg * dval base (map cval cs)).
Proof.
  intros Hb Hs Hne Hcs Hmax. destruct cs as [|c r]; [congruence|].
  inversion Hcs as [|? ? (A & B) Hr]; subst.
  unfold lua_tonumber_base. destruct (strip_sign_spec sg c r Hs A) as (E1 & E2). rewrite E1, E2. cbn [fst snd].
  rewrite A. rewrite (str2int_digits_spec base (c :: r) Hb Hcs 0 ltac:(lia) Hmax). cbn [skip_ws].
  fold (dval base (map cval (c :: r))).
  pose proof (dval_bound base (map cval (c :: r)) ltac:(lia) (chars_ok_digits _ _ Hcs)) as Hd.
  destruct Hs as [->|[->| ->]]; cbn [sign_val]; f_equal; try ring.
  unfold lneg. rewrite wrap64_id by i64. ring.
Qed.

(* ---------- the step computation shared by frombase (getbasestep) and tobase (basepow) ---------- *)
Lemma basepow_loop_spec base limit fuel : 2 <= base -> limit * base <= maxint ->
  forall step pow, pow = base ^ Z.of_nat step -> 1 <= pow < limit -> limit <= pow * 2 ^ Z.of_nat fuel ->
  exists step', basepow_loop fuel base limit step pow = Some (step', base ^ Z.of_nat step') /\
    (step < step')%nat /\ limit <= base ^ Z.of_nat step' /\ base ^ Z.of_nat (step' - 1) < limit.
Proof.
  intros Hb Hl. induction fuel as [|f IH]; intros step pow Ep Hp Hf.
  - change (2 ^ Z.of_nat 0) with 1 in Hf. lia.
  - cbn [basepow_loop]. rewrite lmul_exact by (unf64; nia).
    assert (Ep' : pow * base = base ^ Z.of_nat (S step)) by (rewrite Nat2Z.inj_succ, Z.pow_succ_r by lia; rewrite Ep; ring).
    destruct (limit <=? pow * base) eqn:E.
    + exists (S step). rewrite Ep'. split; [reflexivity|]. split; [lia|]. split; [lia|].
      replace (S step - 1)%nat with step by lia. lia.
    + destruct (IH (S step) (pow * base) Ep' ltac:(nia)) as (s' & A & B & C & D).
      { rewrite Nat2Z.inj_succ, Z.pow_succ_r in Hf by lia. nia. }
      exists s'. split; [exact A|]. split; [lia|]. auto.
Qed.

Lemma pow_ge1 x n : 1 <= x -> 0 <= n -> 1 <= x ^ n.
Proof. intros. rewrite <- (Z.pow_1_l n) by lia. apply Z.pow_le_mono_l. lia. Qed.

(* local function ipow(y, x, n) on Lua integers *)
Lemma lua_ipow_spec fuel : forall y x n, 1 <= y -> 1 <= x -> 1 <= n < 2 ^ Z.of_nat fuel -> y * x ^ n <= maxint ->
  lua_ipow fuel y x n = Some (y * x ^ n).
Proof.
  induction fuel as [|f IH]; intros y x n Hy Hx Hn Hmax.
  - change (2 ^ Z.of_nat 0) with 1 in Hn. lia.
  - cbn [lua_ipow]. destruct (n =? 1) eqn:E1.
    + apply Z.eqb_eq in E1. subst n. rewrite Z.pow_1_r in *. rewrite lmul_exact by (unf64; nia). reflexivity.
    + assert (Hn2 : 2 <= n) by lia.
      assert (Elb : lband n 1 = n mod 2) by (apply (lband_ones n 1); lia). rewrite Elb.
      rewrite Nat2Z.inj_succ, Z.pow_succ_r in Hn by lia.
      assert (Hxx : 1 <= x * x) by nia.
      assert (Hpn : 1 <= x ^ n) by (apply pow_ge1; lia).
      destruct (n mod 2 =? 0) eqn:E2.
      * assert (Epow : x ^ n = (x * x) ^ (n / 2)).
        { rewrite <- Z.pow_2_r, <- Z.pow_mul_r by lia. f_equal. lia. }
        assert (Hq : 1 <= (x * x) ^ (n / 2)) by (rewrite <- Epow; exact Hpn).
        assert (Hsq : x * x <= (x * x) ^ (n / 2)).
        { replace (x * x) with ((x * x) ^ 1) at 1 by apply Z.pow_1_r. apply Z.pow_le_mono_r; lia. }
        rewrite lmul_exact by (unf64; nia).
        rewrite IH; [rewrite Epow; reflexivity | lia | lia | lia | rewrite <- Epow; exact Hmax].
      * assert (Epow : x ^ n = (x * x) ^ ((n - 1) / 2) * x).
        { rewrite <- Z.pow_2_r, <- Z.pow_mul_r by lia. replace n with (Z.succ (2 * ((n - 1) / 2))) at 1 by lia.
          rewrite Z.pow_succ_r by lia. ring. }
        assert (Hq : 1 <= (x * x) ^ ((n - 1) / 2)) by (apply pow_ge1; lia).
        assert (Hsq : x * x <= (x * x) ^ ((n - 1) / 2)).
        { replace (x * x) with ((x * x) ^ 1) at 1 by apply Z.pow_1_r. apply Z.pow_le_mono_r; lia. }
        rewrite (lmul_exact x y) by (unf64; nia). rewrite lmul_exact by (unf64; nia).
        rewrite IH; [rewrite Epow; f_equal; ring | nia | lia | lia | rewrite Epow in Hmax; nia].
Qed.

(* ---------- frombase ---------- *)
Lemma fb_loop_spec base step : 2 <= base -> (1 <= step)%nat -> base ^ Z.of_nat step <= maxint -> Z.of_nat step < 2 ^ 63 ->
  forall fuel cs first n, (length cs < fuel)%nat -> Forall (char_ok base) cs -> wf n ->
  (first = true -> uval n = 0) ->
  exists r, fb_loop fuel cs first step base n = Ok r /\ wf r /\
    uval r = (uval n * base ^ Z.of_nat (length cs) + dval base (map cval cs)) mod Wfull.
Proof.
  intros Hb Hs Hmax Hs63. pose proof Wfull_pos as HW.
  induction fuel as [|f IH]; intros cs first n Hf Hcs Hn H0; [lia|].
  cbn [fb_loop]. destruct cs as [|c0 cs0] eqn:Ecs.
  { exists n. split; [reflexivity|]. split; [exact Hn|]. cbn [length map]. change (dval base []) with 0.
    change (Z.of_nat 0) with 0. rewrite Z.pow_0_r, Z.mul_1_r, Z.add_0_r. pose proof (wf_range n Hn). symmetry. apply Z.mod_small. lia. }
  rewrite <- Ecs in *. assert (Hne : cs <> []) by (rewrite Ecs; discriminate). clear Ecs c0 cs0.
  set (part := firstn step cs). set (rest := skipn step cs).
  assert (Ecs : cs = part ++ rest) by (symmetry; apply firstn_skipn).
  assert (Hpart : Forall (char_ok base) part) by (apply Forall_firstn; auto).
  assert (Hrest : Forall (char_ok base) rest) by (apply Forall_skipn; auto).
  assert (Lp : (1 <= length part <= step)%nat).
  { subst part. rewrite firstn_length. destruct cs; [congruence|]. cbn [length]. lia. }
  assert (Hpne : part <> []) by (intro E; rewrite E in Lp; cbn in Lp; lia).
  pose proof (dval_bound base (map cval part) ltac:(lia) (chars_ok_digits _ _ Hpart)) as Hd. rewrite map_length in Hd.
  assert (Hpp : base ^ Z.of_nat (length part) <= base ^ Z.of_nat step) by (apply Z.pow_le_mono_r; lia).
  pose proof (tonumber_spec base [] part Hb (or_introl eq_refl) Hpne Hpart ltac:(lia)) as Et.
  cbn [app sign_val] in Et. rewrite Z.mul_1_l in Et. rewrite Et.
  set (d := dval base (map cval part)) in *.
  assert (Ep : (if first then Some 1 else lua_ipow 64 1 base (Z.of_nat (length part))) =
               Some (if first then 1 else base ^ Z.of_nat (length part))).
  { destruct first; [reflexivity|]. rewrite lua_ipow_spec; [f_equal; ring | lia | lia | | lia].
    split; [lia|]. change (Z.of_nat 64) with 64. assert (2 ^ 63 < 2 ^ 64) by (apply Z.pow_lt_mono_r; lia). lia. }
  rewrite Ep.
  set (p := base ^ Z.of_nat (length part)) in *.
  assert (Hp1 : 1 <= p) by (subst p; apply pow_ge1; lia).
  (* n1 *)
  assert (N1 : wf (if first then n else bmul n (frominteger (if first then 1 else p))) /\
               uval (if first then n else bmul n (frominteger (if first then 1 else p))) = (uval n * p) mod Wfull).
  { destruct first.
    - split; [exact Hn|]. rewrite (H0 eq_refl). rewrite Z.mul_0_l, Z.mod_0_l; lia.
    - destruct (frominteger_correct p ltac:(i64)) as (A & B & _).
      destruct (mul_correct n _ Hn A) as (C & D). split; [exact C|]. rewrite D, B.
      rewrite Z.mul_mod_idemp_r by lia. reflexivity. }
  destruct N1 as (Wn1 & Vn1). set (n1 := if first then n else bmul n (frominteger (if first then 1 else p))) in *. clearbody n1.
  assert (N2 : wf (if d =? 0 then n1 else badd n1 (frominteger d)) /\
               uval (if d =? 0 then n1 else badd n1 (frominteger d)) = (uval n * p + d) mod Wfull).
  { destruct (d =? 0) eqn:E0.
    - apply Z.eqb_eq in E0. split; [exact Wn1|]. rewrite Vn1, E0, Z.add_0_r. reflexivity.
    - destruct (frominteger_correct d ltac:(i64)) as (A & B & _).
      destruct (add_correct n1 _ Wn1 A) as (C & D). split; [exact C|]. rewrite D, Vn1, B.
      rewrite <- Z.add_mod by lia. reflexivity. }
  destruct N2 as (Wn2 & Vn2). set (n2 := if d =? 0 then n1 else badd n1 (frominteger d)) in *. clearbody n2.
  destruct (IH rest false n2) as (r & A & B & C); auto.
  { subst rest. rewrite skipn_length. destruct cs; [congruence|]. cbn [length] in *. lia. }
  { discriminate. }
  exists r. split; [exact A|]. split; [exact B|]. rewrite C, Vn2.
  rewrite Ecs at 1 2. rewrite map_app, dval_app, app_length, map_length, Nat2Z.inj_add, Z.pow_add_r by lia.
  fold d p. rewrite Z.add_mod, Z.mul_mod_idemp_l, <- Z.add_mod by lia. f_equal. ring.
Qed.

Lemma frombase_step base : 2 <= base <= 36 ->
  exists step, lidiv maxint base = Some (maxint / base) /\
    basepow_loop 64 base (maxint / base) 0 1 = Some (step, base ^ Z.of_nat step) /\
    (1 <= step <= 64)%nat /\ base ^ Z.of_nat step <= maxint.
Proof.
  intros Hb. unfold lidiv. destruct (base =? 0) eqn:E; [lia|].
  assert (Hq : 0 <= maxint / base <= maxint) by (unfold maxint, two63; split; [apply Z.div_pos; lia | apply Z.div_le_upper_bound; lia]).
  rewrite wrap64_id by i64.
  assert (Hl : maxint / base * base <= maxint) by (pose proof (Z.div_mod maxint base ltac:(lia)); pose proof (Z.mod_pos_bound maxint base ltac:(lia)); nia).
  assert (Hl1 : 2 <= maxint / base) by (apply Z.div_le_lower_bound; unfold maxint, two63; lia).
  destruct (basepow_loop_spec base (maxint / base) 64 ltac:(lia) Hl 0%nat 1 ltac:(reflexivity) ltac:(lia)) as (s & A & B & C & D).
  { change (2 ^ Z.of_nat 64) with 18446744073709551616. unfold maxint, two63 in *. lia. }
  exists s. split; [reflexivity|]. split; [exact A|].
  assert (Hpow : base ^ Z.of_nat s <= maxint).
  { replace s with (S (s - 1)) at 1 by lia. rewrite Nat2Z.inj_succ, Z.pow_succ_r by lia. nia. }
  split; [|exact Hpow]. split; [lia|].
  (* 2^s <= base^s <= maxint < 2^64 *)
  destruct (le_lt_dec s 64) as [L|L]; [exact L|exfalso].
  assert (2 ^ 64 <= base ^ Z.of_nat s).
  { apply Z.le_trans with (2 ^ Z.of_nat s); [apply Z.pow_le_mono_r; lia | apply Z.pow_le_mono_l; lia]. }
  unfold maxint, two63 in *. change (2 ^ 64) with 18446744073709551616 in *. lia.
Qed.

Lemma split_sign_wf sg lc : sign_ok sg -> lc <> [] -> forallb is_alnum lc = true ->
  split_sign (sg ++ lc) = Some (match sg with [] => 0 | c :: _ => c end, lc).
Proof.
  intros Hsg Hlne Hall. unfold split_sign. destruct lc as [|c0 r0] eqn:El; [congruence|].
  assert (Hc0 : is_alnum c0 = true) by (cbn [forallb] in Hall; apply andb_prop in Hall; tauto).
  destruct (alnum_cases c0 Hc0) as (N1 & N2 & _).
  destruct Hsg as [->|[->| ->]]; cbn [app].
  - destruct (c0 =? 45) eqn:X1; [lia|]. destruct (c0 =? 43) eqn:X2; [lia|]. cbn [orb]. rewrite Hall. reflexivity.
  - cbn [Z.eqb Pos.eqb orb]. rewrite Hall. reflexivity.
  - cbn [Z.eqb Pos.eqb orb]. rewrite Hall. reflexivity.
Qed.

(* the documented input domain: optional sign, then one or more digits of the base - accepted with the exact value
   under either policy of the fast-path guard *)
Theorem frombase_pol_correct g base sg cs : 2 <= base <= 36 -> sign_ok sg -> cs <> [] -> Forall (char_ok base) cs ->
  exists x, frombase_pol g (sg ++ cs) base = Ok x /\ wf x /\
            uval x = (sign_val sg * dval base (map cval cs)) mod Wfull.
Proof.
  intros Hb Hsg Hne Hcs. unfold frombase_pol.
  destruct ((2 <=? base) && (base <=? 36)) eqn:E; [|lia]. cbn [negb].
  destruct (frombase_step base Hb) as (step & E1 & E2 & Hs & Hmax). rewrite E1, E2.
  pose proof Wfull_pos as HW.
  pose proof (dval_bound base (map cval cs) ltac:(lia) (chars_ok_digits _ _ Hcs)) as Hd. rewrite map_length in Hd.
  assert (Hshape : (if g then shape_ok (sg ++ cs) else true) = true).
  { destruct g; [|reflexivity]. unfold shape_ok. rewrite (split_sign_wf sg cs Hsg Hne); [reflexivity|].
    apply forallb_forall. intros c Hc. rewrite Forall_forall in Hcs. exact (proj1 (Hcs c Hc)). }
  rewrite Hshape, andb_true_r.
  destruct (Nat.ltb_spec (length (sg ++ cs)) step) as [Lt|Ge].
  - (* short string: tonumber *)
    assert (Hlen : (length cs < step)%nat) by (rewrite app_length in Lt; lia).
    assert (base ^ Z.of_nat (length cs) <= base ^ Z.of_nat step) by (apply Z.pow_le_mono_r; lia).
    rewrite (tonumber_spec base sg cs ltac:(lia) Hsg Hne Hcs ltac:(lia)).
    set (v := sign_val sg * dval base (map cval cs)).
    assert (Hv : in_i64 v).
    { subst v. destruct Hsg as [->|[->| ->]]; cbn [sign_val]; i64. }
    destruct (frominteger_correct v Hv) as (A & B & _). exists (frominteger v). auto.
  - (* chunked path *)
    assert (Elow : map to_lower (sg ++ cs) = sg ++ map to_lower cs).
    { rewrite map_app. f_equal. destruct Hsg as [->|[->| ->]]; reflexivity. }
    rewrite Elow.
    assert (Hlow : Forall (char_ok base) (map to_lower cs) /\ map cval (map to_lower cs) = map cval cs).
    { clear - Hcs. induction Hcs as [|c r Hc Hr (IH1 & IH2)]; cbn [map]; [split; [constructor | reflexivity]|].
      destruct (char_ok_lower base c Hc) as (A & B). split; [constructor; auto | rewrite B, IH2; reflexivity]. }
    destruct Hlow as (Hlow & Evals).
    set (lc := map to_lower cs) in *.
    assert (Hlne : lc <> []) by (subst lc; destruct cs; [congruence | discriminate]).
    assert (Hall : forallb is_alnum lc = true).
    { apply forallb_forall. intros c Hc. rewrite Forall_forall in Hlow. exact (proj1 (Hlow c Hc)). }
    assert (Esplit : split_sign (sg ++ lc) = Some (match sg with [] => 0 | c :: _ => c end, lc)).
    { unfold split_sign. destruct lc as [|c0 r0] eqn:El; [congruence|].
      assert (Hc0 : is_alnum c0 = true) by (cbn [forallb] in Hall; apply andb_prop in Hall; tauto).
      destruct (alnum_cases c0 Hc0) as (N1 & N2 & _).
      destruct Hsg as [->|[->| ->]]; cbn [app].
      - destruct (c0 =? 45) eqn:X1; [lia|]. destruct (c0 =? 43) eqn:X2; [lia|]. cbn [orb]. rewrite Hall. reflexivity.
      - cbn [Z.eqb Pos.eqb orb]. rewrite Hall. reflexivity.
      - cbn [Z.eqb Pos.eqb orb]. rewrite Hall. reflexivity. }
    rewrite Esplit.
    destruct wf_zero as (Wz & Vz).
    destruct (fb_loop_spec base step ltac:(lia) ltac:(lia) Hmax ltac:(change (2 ^ 63) with 9223372036854775808; lia)
                (S (length lc)) lc true bint_zero ltac:(lia) Hlow Wz (fun _ => Vz)) as (r & A & B & C).
    rewrite A. rewrite Vz, Z.mul_0_l, Z.add_0_l, Evals in C.
    destruct Hsg as [->|[->| ->]]; cbn [sign_val].
    + exists r. change (0 =? 45) with false. cbv iota. rewrite Z.mul_1_l. auto.
    + destruct (unm_correct r B) as (U1 & U2). exists (bunm r). rewrite Z.eqb_refl. split; [reflexivity|]. split; [exact U1|].
      rewrite U2, C. set (v := dval base (map cval cs)).
      rewrite (Z.div_mod v Wfull) at 2 by lia.
      replace (-1 * (Wfull * (v / Wfull) + v mod Wfull)) with (- (v mod Wfull) + (- (v / Wfull)) * Wfull) by ring.
      rewrite Z.mod_add by lia. reflexivity.
    + exists r. change (43 =? 45) with false. cbv iota. rewrite Z.mul_1_l. auto.
Qed.

Theorem frombase_correct base sg cs : 2 <= base <= 36 -> sign_ok sg -> cs <> [] -> Forall (char_ok base) cs ->
  exists x, frombase (sg ++ cs) base = Ok x /\ wf x /\
            uval x = (sign_val sg * dval base (map cval cs)) mod Wfull.
Proof. apply frombase_pol_correct. Qed.

(* invalid base: nil *)
Theorem frombase_badbase s base : ~ (2 <= base <= 36) -> frombase s base = Err ENone.
Proof. intros H. unfold frombase, frombase_pol. destruct ((2 <=? base) && (base <=? 36)) eqn:E; [lia | reflexivity]. Qed.
