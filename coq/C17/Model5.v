(* Executable model of bn.lua, part 5: bn.from starting from the literal TEXT.  The two lpegrex patterns
     bin <- ('-' $true / '+'? $false) '0' [bB] (b ('.' (b / $'0'))~? / '.' $'0' b) ([pP] {[+-]? [0-9]+})? !.
     b   <- {[01]+}                      (hex: [xX], [0-9a-fA-F])
   are small deterministic PEGs; split_lit is the total function from the text to the captures
   (neg, int, frac, exp): frac = None stands for the `false` capture of `~?`, exp = None for the missing
   optional capture.  bn_from_text follows bn.from: the prefix dispatch (v:find('^[-+]?0[bB]'), ...), the
   assert on a failed match, the integer paths of part 3 when there is neither fraction nor exponent, and the
   decimal branch (lower, inf/nan, bn.parse, the range test).  Literals with a fraction or an exponent and
   decimal texts that are not plain digit strings go to float code (property C14): TOther. *)
From C17 Require Export Model4.
Local Open Scope Z_scope.

(* longest prefix of characters satisfying p, and the rest ({[01]+} etc. are greedy and never give back) *)
Fixpoint span (p : Z -> bool) (s : str) : str * str :=
  match s with
  | c :: r => if p c then (let sr := span p r in (c :: fst sr, snd sr)) else ([], s)
  | [] => ([], [])
  end.

(* ('-' $true / '+'? $false) *)
Definition parse_sign (s : str) : bool * str :=
  match s with
  | c :: r => if c =? 45 then (true, r) else if c =? 43 then (false, r) else (false, s)
  | [] => (false, [])
  end.

(* ([pP] {[+-]? [0-9]+})?  - an optional group: when it cannot match completely nothing is consumed *)
Definition parse_exp (s : str) : option str * str :=
  match s with
  | c :: r =>
      if (c =? 112) || (c =? 80) then
        let sg := match r with c2 :: _ => if (c2 =? 45) || (c2 =? 43) then [c2] else [] | [] => [] end in
        let r1 := skipn (length sg) r in
        let ds := fst (span is_digit r1) in
        if nonempty ds then (Some (sg ++ ds), snd (span is_digit r1)) else (None, s)
      else (None, s)
  | [] => (None, [])
  end.

(* (b ('.' (b / $'0'))~? / '.' $'0' b): int, frac and the rest *)
Definition parse_mant (isdig : Z -> bool) (s : str) : option (str * option str * str) :=
  let int := fst (span isdig s) in
  let s3 := snd (span isdig s) in
  if nonempty int then
    match s3 with
    | d :: s4 =>
        if d =? 46 then
          let fr := fst (span isdig s4) in
          Some (int, Some (if nonempty fr then fr else [48]), snd (span isdig s4))
        else Some (int, None, s3)
    | [] => Some (int, None, [])
    end
  else
    match s3 with
    | d :: s4 =>
        if d =? 46 then
          let fr := fst (span isdig s4) in
          if nonempty fr then Some ([48], Some fr, snd (span isdig s4)) else None
        else None
    | [] => None
    end.

Definition split_lit (isdig : Z -> bool) (m1 m2 : Z) (s : str) : option (bool * str * option str * option str) :=
  let neg := fst (parse_sign s) in
  match snd (parse_sign s) with
  | z :: m :: s2 =>
      if (z =? 48) && ((m =? m1) || (m =? m2)) then
        match parse_mant isdig s2 with
        | None => None
        | Some (int, frac, s6) =>
            match snd (parse_exp s6) with            (* !. *)
            | [] => Some (neg, int, frac, fst (parse_exp s6))
            | _ => None
            end
        end
      else None
  | _ => None
  end.
Definition split_bin := split_lit is_bindigit 98 66.
Definition split_hex := split_lit is_hexdigit 120 88.

(* v:find('^[-+]?0[bB]') *)
Definition has_prefix (m1 m2 : Z) (s : str) : bool :=
  let s1 := match s with c :: r => if (c =? 45) || (c =? 43) then r else s | [] => [] end in
  match s1 with z :: m :: _ => (z =? 48) && ((m =? m1) || (m =? m2)) | _ => false end.

Fixpoint starts_with (p s : str) : bool :=
  match p, s with
  | [], _ => true
  | a :: p', b :: s' => (a =? b) && starts_with p' s'
  | _, [] => false
  end.

Inductive tlit := TInt (x : bint) | TFloat | TMalformed | TOther.

(* `checked` = the assertion after the pattern match tests the first capture (assert(neg ~= nil, ...), /repo d045c80) and so
   fires on every failed match.  The earlier assert(int, ...) never fired: lpeglabel returns nil, 'fail', pos on a failed match
   and the label is truthy. *)
Definition bn_from_text_pol (checked : bool) (s : str) : tlit :=
  if has_prefix 98 66 s then
    match split_bin s with
    | None => TMalformed   (* an error is raised under both policies: 'malformed binary number' when checked, otherwise arithmetic
                              on nil inside from() (tonumber('f', 2) of the label 'fail') *)
    | Some (neg, int, None, None) => match bn_from_bin neg int with Ok x => TInt x | Err _ => TMalformed end
    | Some _ => TOther                                     (* fraction / exponent: float code *)
    end
  else if has_prefix 120 88 s then
    match split_hex s with
    | None => if checked then TMalformed   (* 'malformed hexadecimal number' *)
              else TOther   (* the failure label passes assert(int) and the failure position is a truthy `frac`: the code
                               then tries tonumber(v) (which e.g. accepts trailing white space) and raises only if that fails: not modelled *)
    | Some (neg, int, None, None) => match bn_from_hex neg int with Ok x => TInt x | Err _ => TMalformed end
    | Some _ => TFloat                                     (* n + 0.0: always a float *)
    end
  else
    let v := map to_lower s in
    if starts_with [105; 110; 102] v || starts_with [45; 105; 110; 102] v
       || starts_with [110; 97; 110] v || starts_with [45; 110; 97; 110] v then TFloat
    else
      let body := match v with c :: r => if (c =? 45) || (c =? 43) then r else v | [] => [] end in
      if nonempty body && forallb is_digit body then
        match bn_from_dec v with
        | Ok (LInt x) => TInt x
        | Ok LFloat => TFloat
        | Err _ => TMalformed
        end
      else TOther                                          (* tonumber(v): a float or malformed *)
  .

Definition bn_from_text := bn_from_text_pol literal_match_checked.

(* ---- specification side: the declared shape of a binary / hexadecimal literal text and of its captures ---- *)
(* exponent part: nothing, or [pP] [+-]? [0-9]+ captured without the mark *)
Definition exp_shape (et : str) (e : option str) : Prop :=
  (e = None /\ et = []) \/
  (exists pc sg ds, et = pc :: sg ++ ds /\ (pc = 112 \/ pc = 80) /\ (sg = [] \/ sg = [45] \/ sg = [43]) /\ ds <> [] /\
                    forallb is_digit ds = true /\ e = Some (sg ++ ds)).
Definition mant_shape (isdig : Z -> bool) (mt int : str) (frac : option str) : Prop :=
  (int <> [] /\ forallb isdig int = true /\ mt = int /\ frac = None) \/
  (exists f, int <> [] /\ forallb isdig int = true /\ forallb isdig f = true /\ mt = int ++ 46 :: f /\
             frac = Some (if nonempty f then f else [48])) \/
  (exists f, f <> [] /\ forallb isdig f = true /\ mt = 46 :: f /\ int = [48] /\ frac = Some f).

(* what the determinism of the PEG needs of the digit class: the point and the exponent mark are not digits *)
Definition digit_class_ok (isdig : Z -> bool) : Prop := isdig 46 = false /\ isdig 112 = false /\ isdig 80 = false.

(* sign? "0" mark mantissa exponent, with the captures (neg, int, frac, e) *)
Definition lit_shape (isdig : Z -> bool) (m1 m2 : Z) (s : str) (neg : bool) (int : str) (frac e : option str) : Prop :=
  exists sg m mt et, s = sg ++ 48 :: m :: mt ++ et /\ (m = m1 \/ m = m2) /\
    ((neg = true /\ sg = [45]) \/ (neg = false /\ (sg = [43] \/ sg = []))) /\
    mant_shape isdig mt int frac /\ exp_shape et e.
