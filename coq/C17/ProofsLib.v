(* General lemmas shared by the C17 proofs: unsigned reading of Lua integers (u64), bit-level
   facts about limbs, structure of uval.  Everything is stated through Wd = 2^BINT_WORDBITS and
   the parameter facts of Proofs.v, so a retune of Gen.v re-proves. *)
From C17 Require Import Model Proofs.
From Coq Require Import ZifyBool.
Local Open Scope Z_scope.
Ltac Zify.zify_post_hook ::= Z.div_mod_to_equations.

Ltac unf64 := unfold in_i64, u64, wrap64, minint, maxint, two63, two64 in *.
Ltac i64 := unf64; lia.

(* ---------- more parameter facts ---------- *)
Lemma bits_ge64 : 64 <= BINT_BITS. Proof. vm_compute. discriminate. Qed.
Lemma size_pos : (0 < BINT_SIZE)%nat. Proof. vm_compute. lia. Qed.
Lemma wordbits_ge8 : 8 <= BINT_WORDBITS. Proof. vm_compute. discriminate. Qed.
Lemma bits_i64 : in_i64 (BINT_BITS + BINT_WORDBITS). Proof. vm_compute. split; discriminate. Qed.

Lemma wb_range : 0 < BINT_WORDBITS <= 32.
Proof. pose proof wordbits_pos. pose proof wordbits_half. lia. Qed.

Lemma Wd_two64 : two64 = Wd * 2 ^ (64 - BINT_WORDBITS).
Proof.
  pose proof wb_range. unfold Wd. rewrite <- Z.pow_add_r by lia.
  replace (BINT_WORDBITS + (64 - BINT_WORDBITS)) with 64 by lia. reflexivity.
Qed.

Lemma Wd_pow2 : Wd = 2 ^ BINT_WORDBITS. Proof. reflexivity. Qed.

Lemma Wfull_pos : 0 < Wfull.
Proof. unfold Wfull. apply Z.pow_pos_nonneg; [lia|]. pose proof bits_ge64. lia. Qed.

Lemma Wfull_size : Wfull = Wd ^ Z.of_nat BINT_SIZE. Proof. exact Wfull_eq. Qed.

Lemma Wdpow_pos n : 0 < Wd ^ Z.of_nat n.
Proof. apply Z.pow_pos_nonneg; [apply Wd_pos | lia]. Qed.

Lemma Wdpow_S n : Wd ^ Z.of_nat (S n) = Wd * Wd ^ Z.of_nat n.
Proof. rewrite Nat2Z.inj_succ, Z.pow_succ_r by lia. reflexivity. Qed.

Lemma Wdpow_add n m : Wd ^ Z.of_nat (n + m) = Wd ^ Z.of_nat n * Wd ^ Z.of_nat m.
Proof. rewrite Nat2Z.inj_add, Z.pow_add_r by lia. reflexivity. Qed.

Lemma limb_i64 w : limb_ok w -> in_i64 w.
Proof. unfold limb_ok. pose proof Wd_le32. i64. Qed.

Lemma limb_lt63 w : limb_ok w -> 0 <= w < two63.
Proof. unfold limb_ok. pose proof Wd_le32. i64. Qed.

(* ---------- u64 ---------- *)
Lemma u64_range a : 0 <= u64 a < two64. Proof. i64. Qed.
Lemma u64_wrap a : u64 (wrap64 a) = u64 a. Proof. apply wrap64_mod. Qed.
Lemma u64_small a : 0 <= a < two64 -> u64 a = a. Proof. i64. Qed.
Lemma i64_eq a b : in_i64 a -> in_i64 b -> u64 a = u64 b -> a = b. Proof. i64. Qed.
Lemma i64_of_u64 a : in_i64 a -> u64 a < two63 -> a = u64 a. Proof. i64. Qed.
Lemma wrap64_u64 a : wrap64 (u64 a) = wrap64 a. Proof. apply wrap64_eqm. i64. Qed.
Lemma wrap64_small a : 0 <= a < two63 -> wrap64 a = a. Proof. i64. Qed.

Lemma u64_ladd a b : u64 (ladd a b) = (u64 a + u64 b) mod two64.
Proof. unfold ladd. rewrite u64_wrap. unfold u64. rewrite <- Z.add_mod by (unfold two64; lia). reflexivity. Qed.
Lemma u64_lmul a b : u64 (lmul a b) = (u64 a * u64 b) mod two64.
Proof. unfold lmul. rewrite u64_wrap. unfold u64. rewrite <- Z.mul_mod by (unfold two64; lia). reflexivity. Qed.
Lemma u64_lsub a b : u64 (lsub a b) = (u64 a - u64 b) mod two64.
Proof. unfold lsub. rewrite u64_wrap. unfold u64. rewrite <- Zminus_mod. reflexivity. Qed.
Lemma u64_lneg a : u64 (lneg a) = (- u64 a) mod two64.
Proof.
  unfold lneg. rewrite u64_wrap. unfold u64.
  replace (- a) with (0 - a) by ring. replace (- (a mod two64)) with (0 - a mod two64) by ring.
  rewrite Zminus_mod, (Zminus_mod 0 (a mod two64)), Z.mod_mod by (unfold two64; lia). reflexivity.
Qed.

Lemma two64_ones : two64 = 2 ^ 64. Proof. reflexivity. Qed.
Lemma u64_land a : u64 a = Z.land a (Z.ones 64).
Proof. unfold u64. rewrite Z.land_ones by lia. reflexivity. Qed.

Lemma u64_lband a b : u64 (lband a b) = Z.land (u64 a) (u64 b).
Proof.
  rewrite !u64_land. unfold lband. apply Z.bits_inj; intro n. rewrite !Z.land_spec.
  destruct (Z.testbit a n), (Z.testbit b n), (Z.testbit (Z.ones 64) n); reflexivity.
Qed.
Lemma u64_lbor a b : u64 (lbor a b) = Z.lor (u64 a) (u64 b).
Proof.
  rewrite !u64_land. unfold lbor. apply Z.bits_inj; intro n. rewrite !Z.land_spec, !Z.lor_spec, !Z.land_spec.
  destruct (Z.testbit a n), (Z.testbit b n), (Z.testbit (Z.ones 64) n); reflexivity.
Qed.
Lemma u64_lbxor a b : u64 (lbxor a b) = Z.lxor (u64 a) (u64 b).
Proof.
  rewrite !u64_land. unfold lbxor. apply Z.bits_inj; intro n. rewrite !Z.land_spec, !Z.lxor_spec, !Z.land_spec.
  destruct (Z.testbit a n), (Z.testbit b n), (Z.testbit (Z.ones 64) n); reflexivity.
Qed.

(* closure of the signed 64-bit range under the bitwise operators *)
Lemma in_i64_shr63 a : in_i64 a <-> (Z.shiftr a 63 = 0 \/ Z.shiftr a 63 = -1).
Proof. rewrite Z.shiftr_div_pow2 by lia. change (2 ^ 63) with 9223372036854775808. unf64. lia. Qed.

Lemma lbor_i64 a b : in_i64 a -> in_i64 b -> in_i64 (lbor a b).
Proof.
  rewrite !in_i64_shr63. unfold lbor. rewrite Z.shiftr_lor.
  intros [Ha|Ha] [Hb|Hb]; rewrite Ha, Hb; cbn; auto.
Qed.
Lemma lband_i64 a b : in_i64 a -> in_i64 b -> in_i64 (lband a b).
Proof.
  rewrite !in_i64_shr63. unfold lband. rewrite Z.shiftr_land.
  intros [Ha|Ha] [Hb|Hb]; rewrite Ha, Hb; cbn; auto.
Qed.
Lemma lbxor_i64 a b : in_i64 a -> in_i64 b -> in_i64 (lbxor a b).
Proof.
  rewrite !in_i64_shr63. unfold lbxor. rewrite Z.shiftr_lxor.
  intros [Ha|Ha] [Hb|Hb]; rewrite Ha, Hb; cbn; auto.
Qed.
Lemma lbnot_i64 a : in_i64 a -> in_i64 (lbnot a).
Proof. unfold lbnot, Z.lnot, Z.pred. i64. Qed.

(* shifts *)
Lemma lshr_u64 a n : 0 <= n < 64 -> lshr a n = wrap64 (u64 a / 2 ^ n).
Proof.
  intros Hn. unfold lshr, lshr_pos.
  destruct (n <? 0) eqn:E1; [lia|]. destruct (64 <=? n) eqn:E2; [lia|].
  rewrite Z.shiftr_div_pow2 by lia. reflexivity.
Qed.
Lemma lshr_pos_val a n : 0 < n < 64 -> lshr a n = u64 a / 2 ^ n.
Proof.
  intros Hn. rewrite lshr_u64 by lia. apply wrap64_small.
  pose proof (u64_range a). assert (2 <= 2 ^ n) by (change 2 with (2 ^ 1) at 1; apply Z.pow_le_mono_r; lia).
  split; [apply Z.div_pos; lia|]. apply Z.div_lt_upper_bound; [lia|]. unfold two63, two64 in *. nia.
Qed.
Lemma lshr_0 a : in_i64 a -> lshr a 0 = a.
Proof. intros. rewrite lshr_u64 by lia. rewrite Z.pow_0_r, Z.div_1_r. rewrite wrap64_u64. apply wrap64_id; auto. Qed.
Lemma lshr_big a n : 64 <= n -> lshr a n = 0.
Proof. intros. unfold lshr, lshr_pos. destruct (n <? 0) eqn:E1; [lia|]. destruct (64 <=? n) eqn:E2; [reflexivity|lia]. Qed.
Lemma lshl_big a n : 64 <= n -> lshl a n = 0.
Proof. intros. unfold lshl, lshl_pos. destruct (n <? 0) eqn:E1; [lia|]. destruct (64 <=? n) eqn:E2; [reflexivity|lia]. Qed.
Lemma lshl_u64 a n : 0 <= n < 64 -> u64 (lshl a n) = (u64 a * 2 ^ n) mod two64.
Proof.
  intros Hn. unfold lshl, lshl_pos.
  destruct (n <? 0) eqn:E1; [lia|]. destruct (64 <=? n) eqn:E2; [lia|].
  rewrite u64_wrap, Z.shiftl_mul_pow2 by lia. unfold u64.
  rewrite Z.mul_mod_idemp_l by (unfold two64; lia). reflexivity.
Qed.
Lemma lshl_i64 a n : in_i64 (lshl a n).
Proof.
  unfold lshl, lshl_pos, lshr_pos. destruct (n <? 0); [destruct (64 <=? - n) | destruct (64 <=? n)];
  try apply wrap64_range; i64.
Qed.
Lemma lshr_i64 a n : in_i64 (lshr a n).
Proof.
  unfold lshr, lshl_pos, lshr_pos. destruct (n <? 0); [destruct (64 <=? - n) | destruct (64 <=? n)];
  try apply wrap64_range; i64.
Qed.

(* the limb extraction idioms on any Lua integer: x & WORDMAX and x >> WORDBITS *)
Lemma band_wordmax_u64 a : lband a BINT_WORDMAX = u64 a mod Wd.
Proof.
  rewrite band_wordmax. unfold u64. rewrite Wd_two64.
  pose proof Wd_pos. pose proof wb_range.
  assert (0 < 2 ^ (64 - BINT_WORDBITS)) by (apply Z.pow_pos_nonneg; lia).
  rewrite Z.rem_mul_r by lia. rewrite Z.mul_comm, Z.mod_add by lia. rewrite Z.mod_mod by lia. reflexivity.
Qed.
Lemma shr_word_u64 a : lshr a BINT_WORDBITS = u64 a / Wd.
Proof. pose proof wb_range. apply lshr_pos_val. lia. Qed.
Lemma shr_word_u64_lt a : 0 <= u64 a / Wd < 2 ^ (64 - BINT_WORDBITS).
Proof.
  pose proof (u64_range a). pose proof Wd_pos. pose proof wb_range.
  split; [apply Z.div_pos; lia|]. apply Z.div_lt_upper_bound; [lia|]. rewrite <- Wd_two64. lia.
Qed.

Lemma limb_mod w : limb_ok w -> w mod Wd = w.
Proof. unfold limb_ok. intros. apply Z.mod_small; lia. Qed.
Lemma mod_limb a : limb_ok (a mod Wd).
Proof. unfold limb_ok. apply Z.mod_pos_bound, Wd_pos. Qed.
Lemma limb_u64 w : limb_ok w -> u64 w = w.
Proof. intros H. apply u64_small. pose proof (limb_lt63 w H). unfold two63, two64 in *. lia. Qed.

(* ---------- bits of a + 2^k * u ---------- *)
Lemma testbit_cons k a u n : 0 <= k -> 0 <= a < 2 ^ k -> 0 <= n ->
  Z.testbit (a + 2 ^ k * u) n = if n <? k then Z.testbit a n else Z.testbit u (n - k).
Proof.
  intros Hk Ha Hn. assert (0 < 2 ^ k) by (apply Z.pow_pos_nonneg; lia).
  destruct (n <? k) eqn:E.
  - rewrite <- (Z.mod_pow2_bits_low (a + 2 ^ k * u) k n) by lia.
    rewrite Z.mul_comm, Z.mod_add, Z.mod_small by lia. reflexivity.
  - replace n with ((n - k) + k) at 1 by lia. rewrite <- Z.div_pow2_bits by lia.
    rewrite Z.mul_comm, Z.div_add, Z.div_small by lia. reflexivity.
Qed.

Lemma testbit_high k a n : 0 <= a < 2 ^ k -> k <= n -> Z.testbit a n = false.
Proof.
  intros Ha Hn. destruct (Z.eq_dec a 0) as [->|Hz]; [apply Z.testbit_0_l|].
  apply Z.bits_above_log2; [lia|]. apply Z.lt_le_trans with k; [|lia]. apply Z.log2_lt_pow2; lia.
Qed.

Lemma bitop_cons (f : Z -> Z -> Z) (g : bool -> bool -> bool) k a b u v :
  (forall x y n, Z.testbit (f x y) n = g (Z.testbit x n) (Z.testbit y n)) ->
  (forall x y, 0 <= x -> 0 <= y -> 0 <= f x y) ->
  g false false = false ->
  0 <= k -> 0 <= a < 2 ^ k -> 0 <= b < 2 ^ k ->
  0 <= f a b < 2 ^ k /\ f (a + 2 ^ k * u) (b + 2 ^ k * v) = f a b + 2 ^ k * f u v.
Proof.
  intros Hspec Hnn Hg Hk Ha Hb.
  assert (0 < 2 ^ k) by (apply Z.pow_pos_nonneg; lia).
  assert (Hr : 0 <= f a b < 2 ^ k).
  { assert (E : f a b mod 2 ^ k = f a b).
    { apply Z.bits_inj'; intros n Hn. destruct (Z_lt_le_dec n k) as [L|L].
      - apply Z.mod_pow2_bits_low; lia.
      - rewrite Z.mod_pow2_bits_high by lia. rewrite Hspec, (testbit_high k a n), (testbit_high k b n) by lia. auto. }
    rewrite <- E. apply Z.mod_pos_bound. lia. }
  split; [exact Hr|].
  apply Z.bits_inj'; intros n Hn.
  rewrite Hspec, !testbit_cons by lia.
  destruct (n <? k); rewrite Hspec; reflexivity.
Qed.

Lemma land_cons k a b u v : 0 <= k -> 0 <= a < 2 ^ k -> 0 <= b < 2 ^ k ->
  0 <= Z.land a b < 2 ^ k /\ Z.land (a + 2 ^ k * u) (b + 2 ^ k * v) = Z.land a b + 2 ^ k * Z.land u v.
Proof.
  apply (bitop_cons Z.land andb); [apply Z.land_spec | | reflexivity].
  intros x y Hx Hy. apply Z.land_nonneg. auto.
Qed.
Lemma lor_cons k a b u v : 0 <= k -> 0 <= a < 2 ^ k -> 0 <= b < 2 ^ k ->
  0 <= Z.lor a b < 2 ^ k /\ Z.lor (a + 2 ^ k * u) (b + 2 ^ k * v) = Z.lor a b + 2 ^ k * Z.lor u v.
Proof.
  apply (bitop_cons Z.lor orb); [apply Z.lor_spec | | reflexivity].
  intros x y Hx Hy. apply Z.lor_nonneg. auto.
Qed.
Lemma lxor_cons k a b u v : 0 <= k -> 0 <= a < 2 ^ k -> 0 <= b < 2 ^ k ->
  0 <= Z.lxor a b < 2 ^ k /\ Z.lxor (a + 2 ^ k * u) (b + 2 ^ k * v) = Z.lxor a b + 2 ^ k * Z.lxor u v.
Proof.
  apply (bitop_cons Z.lxor xorb); [apply Z.lxor_spec | | reflexivity].
  intros x y Hx Hy. apply Z.lxor_nonneg. tauto.
Qed.

(* disjoint bit ranges: lor is addition *)
Lemma lor_disjoint_add k a u : 0 <= k -> 0 <= a < 2 ^ k -> Z.lor a (2 ^ k * u) = a + 2 ^ k * u.
Proof.
  intros Hk Ha. apply Z.bits_inj'; intros n Hn.
  rewrite Z.lor_spec, testbit_cons by lia.
  replace (2 ^ k * u) with (0 + 2 ^ k * u) by ring.
  assert (0 < 2 ^ k) by (apply Z.pow_pos_nonneg; lia).
  rewrite testbit_cons by lia.
  destruct (n <? k) eqn:E.
  - rewrite Z.testbit_0_l, orb_false_r. reflexivity.
  - rewrite (testbit_high k a n) by lia. reflexivity.
Qed.

(* ---------- structure of uval ---------- *)
Lemma uval_app x y : uval (x ++ y) = uval x + Wd ^ Z.of_nat (length x) * uval y.
Proof.
  induction x as [|a x IH]; cbn [app uval length].
  - change (Z.of_nat 0) with 0. rewrite Z.pow_0_r. ring.
  - rewrite IH, Wdpow_S. ring.
Qed.

Lemma uval_repeat0 n : uval (repeat 0 n) = 0.
Proof. induction n; cbn [repeat uval]; [reflexivity | rewrite IHn; ring]. Qed.

Lemma Forall_repeat0 n : Forall limb_ok (repeat 0 n).
Proof. induction n; cbn [repeat]; constructor; auto. unfold limb_ok. pose proof Wd_pos. lia. Qed.

Lemma wf_zero : wf bint_zero /\ uval bint_zero = 0.
Proof.
  unfold bint_zero, wf. rewrite repeat_length, uval_repeat0. repeat split. apply Forall_repeat0.
Qed.

Lemma wf_one : wf bint_one /\ uval bint_one = 1.
Proof.
  unfold bint_one, wf. pose proof size_pos. destruct BINT_SIZE as [|n] eqn:E; [lia|].
  cbn [length uval]. rewrite repeat_length, uval_repeat0. split; [split; [reflexivity|] | ring].
  constructor; [|apply Forall_repeat0]. unfold limb_ok. pose proof Wd_ge2. lia.
Qed.

Lemma wf_range x : wf x -> 0 <= uval x < Wfull.
Proof. intros [L F]. rewrite Wfull_eq, <- L. apply uval_range; auto. Qed.

Lemma wf_length x : wf x -> length x = BINT_SIZE. Proof. intros [L _]; exact L. Qed.
Lemma wf_forall x : wf x -> Forall limb_ok x. Proof. intros [_ F]; exact F. Qed.

Lemma wf_inj x y : wf x -> wf y -> uval x = uval y -> x = y.
Proof. intros [Lx Fx] [Ly Fy]. apply uval_inj; auto. congruence. Qed.

Lemma mod_cons a M P : 0 <= a < Wd -> 0 < P -> (a + Wd * M) mod (Wd * P) = a + Wd * (M mod P).
Proof.
  intros Ha HP. pose proof Wd_pos.
  rewrite Z.rem_mul_r by lia.
  replace (a + Wd * M) with (a + M * Wd) by ring.
  rewrite Z.mod_add, Z.div_add by lia. rewrite Z.mod_small, Z.div_small by lia. rewrite Z.add_0_l. reflexivity.
Qed.

Lemma uval_firstn_skipn n x : uval x = uval (firstn n x) + Wd ^ Z.of_nat (length (firstn n x)) * uval (skipn n x).
Proof. rewrite <- uval_app, firstn_skipn. reflexivity. Qed.

Lemma Forall_firstn {A} (P : A -> Prop) n l : Forall P l -> Forall P (firstn n l).
Proof. revert n; induction l; intros [|n] H; cbn; auto. inversion H; subst. constructor; auto. Qed.
Lemma Forall_skipn {A} (P : A -> Prop) n l : Forall P l -> Forall P (skipn n l).
Proof. revert n; induction l; intros [|n] H; cbn; auto. inversion H; subst. auto. Qed.

Lemma nth_limb_ok x i : Forall limb_ok x -> limb_ok (nth i x 0).
Proof.
  intros F. destruct (lt_dec i (length x)) as [L|L].
  - rewrite Forall_forall in F. apply F, nth_In, L.
  - rewrite nth_overflow by lia. unfold limb_ok. pose proof Wd_pos. lia.
Qed.

Lemma uval_firstn_S n x : uval (firstn (S n) x) = uval (firstn n x) + Wd ^ Z.of_nat (length (firstn n x)) * nth n x 0.
Proof.
  revert x; induction n; intros [|a x]; cbn [firstn uval length nth]; try (cbn; ring).
  - change (Z.of_nat 0) with 0. rewrite Z.pow_0_r. ring.
  - specialize (IHn x). cbn [firstn] in IHn. rewrite IHn, Wdpow_S. ring.
Qed.

Lemma uval_nonneg x : Forall limb_ok x -> 0 <= uval x.
Proof. intros F. pose proof (uval_range x F). lia. Qed.
