(* frombase on strings with white space: what each of the two paths accepts, exactly *)
From C17 Require Import Model Model2 Model3 Proofs ProofsLib ProofsArith ProofsMul ProofsBits ProofsConv ProofsShift ProofsMisc ProofsText ProofsReject.
From Coq Require Import ZifyBool.
Local Open Scope Z_scope.
Ltac Zify.zify_post_hook ::= Z.div_mod_to_equations.

Definition spaces (l : str) : Prop := Forall (fun c => is_space c = true) l.
(* spaces* sign? digits+ spaces* : what tonumber(s, base) accepts *)
Definition num_shape_ws (base : Z) (s : str) : Prop :=
  exists l sg cs r, s = l ++ sg ++ cs ++ r /\ spaces l /\ spaces r /\ sign_ok sg /\ cs <> [] /\ Forall (char_ok base) cs.
(* sign? digits+ : what the chunked path accepts *)
Definition num_shape (base : Z) (s : str) : Prop :=
  exists sg cs, s = sg ++ cs /\ sign_ok sg /\ cs <> [] /\ Forall (char_ok base) cs.

Lemma space_not_alnum c : is_space c = true -> is_alnum c = false /\ c <> 45 /\ c <> 43.
Proof. unfold is_space, is_alnum, is_digit, is_upper, is_lower. lia. Qed.

Lemma skip_ws_spaces l t : spaces l -> skip_ws (l ++ t) = skip_ws t.
Proof. induction 1 as [|c l Hc Hl IH]; cbn [app skip_ws]; [reflexivity|]. rewrite Hc. exact IH. Qed.
Lemma skip_ws_all r : spaces r -> skip_ws r = [].
Proof. intros H. rewrite <- (app_nil_r r), skip_ws_spaces by exact H. reflexivity. Qed.
Lemma skip_ws_split s : exists l, s = l ++ skip_ws s /\ spaces l.
Proof.
  induction s as [|c s (l & E & H)]; [exists []; split; [reflexivity | constructor]|]. cbn [skip_ws].
  destruct (is_space c) eqn:Sc.
  - exists (c :: l). split; [cbn [app]; f_equal; exact E | constructor; auto].
  - exists []. split; [reflexivity | constructor].
Qed.
Lemma skip_ws_nil s : skip_ws s = [] -> spaces s.
Proof. intros H. destruct (skip_ws_split s) as (l & E & Hl). rewrite H, app_nil_r in E. subst. exact Hl. Qed.

(* the digit loop consumes a prefix of valid digits and stops at the first non-alphanumeric character *)
Lemma str2int_inv base : forall cs n v rest, str2int_digits cs base n = Some (v, rest) ->
  exists pre, cs = pre ++ rest /\ Forall (char_ok base) pre /\
              match rest with [] => True | c :: _ => is_alnum c = false end.
Proof.
  induction cs as [|c r IH]; intros n v rest H; cbn [str2int_digits] in H.
  - injection H as <- <-. exists []. split; [reflexivity|]. split; [constructor | exact I].
  - destruct (is_alnum c) eqn:A.
    + destruct (base <=? char_digit c) eqn:E; [discriminate|].
      destruct (IH _ _ _ H) as (pre & E1 & F & T). exists (c :: pre). split; [cbn [app]; f_equal; exact E1|].
      split; [constructor; [split; [exact A | destruct (alnum_cases c A) as (_ & _ & _ & R & _); lia] | exact F] | exact T].
    + injection H as <- <-. exists []. split; [reflexivity|]. split; [constructor | exact A].
Qed.

Lemma str2int_app base cs : 2 <= base -> Forall (char_ok base) cs ->
  forall rest n, match rest with [] => True | c :: _ => is_alnum c = false end ->
  0 <= n -> dval_acc base (map cval cs) n <= maxint ->
  str2int_digits (cs ++ rest) base n = Some (dval_acc base (map cval cs) n, rest).
Proof.
  intros Hb. induction 1 as [|c r (A & B) Hr IH]; intros rest n Hrest Hn Hmax; cbn [app map dval_acc].
  - destruct rest as [|c0 r0]; [reflexivity|]. cbn [str2int_digits]. rewrite Hrest. reflexivity.
  - cbn [str2int_digits]. rewrite A. destruct (base <=? char_digit c) eqn:E; [lia|]. unfold cval in *.
    assert (Hd : digits_ok base (map cval r)) by (apply chars_ok_digits; auto).
    pose proof (dval_acc_mono base (map cval r) ltac:(lia) Hd (n * base + char_digit c) ltac:(nia)) as Hm.
    cbn [map dval_acc] in Hmax. unfold cval in *.
    rewrite lmul_exact by (unf64; nia). rewrite ladd_exact by (unf64; nia). apply IH; auto. nia.
Qed.

(* tonumber(s, base): accepted strings, both directions *)
Lemma tonumber_ws_accept base l sg cs r : 2 <= base -> spaces l -> spaces r -> sign_ok sg -> cs <> [] -> Forall (char_ok base) cs ->
  dval base (map cval cs) <= maxint ->
  lua_tonumber_base (l ++ sg ++ cs ++ r) base = Some (sign_val sg * dval base (map cval cs)).
Proof.
  intros Hb Hl Hr Hs Hne Hcs Hmax. unfold lua_tonumber_base. rewrite skip_ws_spaces by exact Hl.
  destruct cs as [|c t]; [congruence|]. inversion Hcs as [|? ? (A & B) Ht]; subst.
  destruct (strip_sign_spec sg c (t ++ r) Hs A) as (E1 & E2). cbn [app] in *. rewrite E1, E2. cbn [fst snd]. rewrite A.
  assert (Hrest : match r with [] => True | c0 :: _ => is_alnum c0 = false end).
  { destruct r as [|c0 r0]; [exact I|]. inversion Hr; subst. apply space_not_alnum. assumption. }
  change (c :: t ++ r) with ((c :: t) ++ r).
  rewrite (str2int_app base (c :: t) ltac:(lia) Hcs r 0 Hrest ltac:(lia) Hmax). rewrite (skip_ws_all r Hr).
  fold (dval base (map cval (c :: t))).
  pose proof (dval_bound base (map cval (c :: t)) ltac:(lia) (chars_ok_digits _ _ Hcs)) as Hd.
  destruct Hs as [->|[->| ->]]; cbn [sign_val]; f_equal; try ring.
  unfold lneg. rewrite wrap64_id by i64. ring.
Qed.

Lemma tonumber_ws_inv base s v : lua_tonumber_base s base = Some v -> num_shape_ws base s.
Proof.
  unfold lua_tonumber_base. destruct (skip_ws_split s) as (l & El & Hl). set (s1 := skip_ws s) in *.
  assert (Hsg : exists sg, s1 = sg ++ snd (strip_sign s1) /\ sign_ok sg).
  { unfold strip_sign. destruct s1 as [|c r]; [exists []; split; [reflexivity | left; reflexivity]|].
    destruct (c =? 45) eqn:E1; [exists [45]; split; [cbn; f_equal; lia | right; left; reflexivity]|].
    destruct (c =? 43) eqn:E2; [exists [43]; split; [cbn; f_equal; lia | right; right; reflexivity]|].
    exists []. split; [reflexivity | left; reflexivity]. }
  destruct Hsg as (sg & Esg & Hsg). set (s2 := snd (strip_sign s1)) in *.
  destruct s2 as [|c t] eqn:E2; [discriminate|]. destruct (is_alnum c) eqn:A; [|discriminate].
  destruct (str2int_digits (c :: t) base 0) as [[n rest]|] eqn:Ed; [|discriminate].
  destruct (skip_ws rest) eqn:Er; [|discriminate]. intros _.
  destruct (str2int_inv base _ _ _ _ Ed) as (pre & Ep & Fp & _).
  exists l, sg, pre, rest. split; [rewrite El, Esg, Ep; reflexivity|]. split; [exact Hl|].
  split; [apply skip_ws_nil; exact Er|]. split; [exact Hsg|]. split; [|exact Fp].
  intros ->. cbn [app] in Ep. subst rest. cbn [skip_ws] in Er. destruct (space_not_alnum c) as (X & _).
  - destruct (is_space c) eqn:Sc; [reflexivity | discriminate].
  - congruence.
Qed.

(* ---- frombase (repaired: the fast path is guarded by ^[+-]?%w+$): both paths accept exactly sign? digits+ ---- *)
Theorem frombase_uniform base : 2 <= base <= 36 ->
  forall s, num_shape base s <-> exists x, frombase s base = Ok x.
Proof.
  intros Hb s. split.
  - intros (sg & cs & Es & Hsg & Hne & Hcs). rewrite Es.
    destruct (frombase_correct base sg cs Hb Hsg Hne Hcs) as (x & A & _). eauto.
  - intros (x & Hx). destruct (frombase_accepts base s Hb) as (_ & R).
    destruct (core_ok base s) eqn:Ec.
    + destruct (core_ok_split base s Ec) as (sg & cs & A & B & C & D). exists sg, cs. auto.
    + rewrite (R eq_refl) in Hx. discriminate Hx.
Qed.

(* in particular no string with white space is accepted, whatever its length *)
Corollary frombase_no_space base s c : 2 <= base <= 36 -> In c s -> is_space c = true -> frombase s base = Err ENone.
Proof.
  intros Hb Hin Hsp. destruct (frombase_accepts base s Hb) as (_ & R). apply R.
  destruct (core_ok base s) eqn:Ec; [exfalso | reflexivity].
  destruct (core_ok_split base s Ec) as (sg & cs & E & Hsg & _ & Hcs). subst s.
  destruct (space_not_alnum c Hsp) as (Na & N1 & N2).
  apply in_app_or in Hin. destruct Hin as [Hi|Hi].
  - destruct Hsg as [->|[->| ->]]; cbn in Hi; lia.
  - rewrite Forall_forall in Hcs. destruct (Hcs c Hi) as (A & _). congruence.
Qed.
