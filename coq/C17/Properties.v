(* Property C17: the compiler's big-number arithmetic is exact.
   This file contains only the property theorems, each closed by [exact] of a lemma of
   Proofs*.v and followed by Print Assumptions.
   wf x: BINT_SIZE limbs, each in [0, 2^BINT_WORDBITS);  uval: unsigned value;  sval: two's
   complement value;  all arithmetic is exact arithmetic reduced mod 2^BINT_BITS. *)
From C17 Require Import Model Model2 Model3 Proofs ProofsLib ProofsArith ProofsBits ProofsConv ProofsShift
  ProofsMisc ProofsDiv ProofsDiv2 ProofsPow ProofsText ProofsText2 ProofsText3.
Local Open Scope Z_scope.

Theorem C17_add_exact : forall x y, wf x -> wf y ->
  wf (badd x y) /\ uval (badd x y) = (uval x + uval y) mod 2 ^ BINT_BITS.
Proof. exact add_correct. Qed.
Print Assumptions C17_add_exact.

Theorem C17_sub_exact : forall x y, wf x -> wf y ->
  wf (bsub x y) /\ uval (bsub x y) = (uval x - uval y) mod 2 ^ BINT_BITS.
Proof. exact sub_correct. Qed.
Print Assumptions C17_sub_exact.

Theorem C17_mul_exact : forall x y, wf x -> wf y ->
  wf (bmul x y) /\ uval (bmul x y) = (uval x * uval y) mod 2 ^ BINT_BITS.
Proof. exact mul_correct. Qed.
Print Assumptions C17_mul_exact.

Theorem C17_inc_exact : forall x, wf x -> wf (binc x) /\ uval (binc x) = (uval x + 1) mod 2 ^ BINT_BITS.
Proof. exact inc_correct. Qed.
Print Assumptions C17_inc_exact.

Theorem C17_dec_exact : forall x, wf x -> wf (bdec x) /\ uval (bdec x) = (uval x - 1) mod 2 ^ BINT_BITS.
Proof. exact dec_correct. Qed.
Print Assumptions C17_dec_exact.

Theorem C17_unm_exact : forall x, wf x -> wf (bunm x) /\ uval (bunm x) = (- uval x) mod 2 ^ BINT_BITS.
Proof. exact unm_correct. Qed.
Print Assumptions C17_unm_exact.

Theorem C17_bnot_exact : forall x, wf x ->
  wf (bnot x) /\ uval (bnot x) = 2 ^ BINT_BITS - 1 - uval x /\ uval (bnot x) = Z.lnot (uval x) mod 2 ^ BINT_BITS.
Proof. exact bnot_correct. Qed.
Print Assumptions C17_bnot_exact.

Theorem C17_band_exact : forall x y, wf x -> wf y -> wf (band x y) /\ uval (band x y) = Z.land (uval x) (uval y).
Proof. exact band_correct. Qed.
Print Assumptions C17_band_exact.

Theorem C17_bor_exact : forall x y, wf x -> wf y -> wf (bor x y) /\ uval (bor x y) = Z.lor (uval x) (uval y).
Proof. exact bor_correct. Qed.
Print Assumptions C17_bor_exact.

Theorem C17_bxor_exact : forall x y, wf x -> wf y -> wf (bxor x y) /\ uval (bxor x y) = Z.lxor (uval x) (uval y).
Proof. exact bxor_correct. Qed.
Print Assumptions C17_bxor_exact.

Theorem C17_eq_exact : forall x y, wf x -> wf y -> beq x y = true <-> uval x = uval y.
Proof. exact eq_correct. Qed.
Print Assumptions C17_eq_exact.

Theorem C17_ult_exact : forall x y, wf x -> wf y -> ult x y = (uval x <? uval y).
Proof. exact ult_correct. Qed.
Print Assumptions C17_ult_exact.

Theorem C17_ule_exact : forall x y, wf x -> wf y -> ule x y = (uval x <=? uval y).
Proof. exact ule_correct. Qed.
Print Assumptions C17_ule_exact.

Theorem C17_lt_exact : forall x y, wf x -> wf y -> blt x y = (sval x <? sval y).
Proof. exact lt_correct. Qed.
Print Assumptions C17_lt_exact.

Theorem C17_le_exact : forall x y, wf x -> wf y -> ble x y = (sval x <=? sval y).
Proof. exact le_correct. Qed.
Print Assumptions C17_le_exact.

Theorem C17_isneg_exact : forall x, wf x -> isneg x = (sval x <? 0).
Proof. exact isneg_correct. Qed.
Print Assumptions C17_isneg_exact.

Theorem C17_shlone_exact : forall x, wf x -> wf (shlone x) /\ uval (shlone x) = (2 * uval x) mod 2 ^ BINT_BITS.
Proof. exact shlone_correct. Qed.
Print Assumptions C17_shlone_exact.

Theorem C17_shrone_exact : forall x, wf x -> wf (shrone x) /\ uval (shrone x) = uval x / 2.
Proof. exact shrone_correct. Qed.
Print Assumptions C17_shrone_exact.

(* shifts by ANY Lua integer count (negative = other direction, |y| >= BITS and mininteger = 0);
   Z.shiftl with a negative count is a right shift *)
Theorem C17_shl_exact : forall x y, wf x -> in_i64 y ->
  exists r, bshl x y = Some r /\ wf r /\ uval r = Z.shiftl (uval x) y mod 2 ^ BINT_BITS.
Proof. exact shl_correct. Qed.
Print Assumptions C17_shl_exact.

Theorem C17_shr_exact : forall x y, wf x -> in_i64 y ->
  exists r, bshr x y = Some r /\ wf r /\ uval r = Z.shiftr (uval x) y mod 2 ^ BINT_BITS.
Proof. exact shr_correct. Qed.
Print Assumptions C17_shr_exact.

(* conversions from and to Lua integers; u64 = unsigned reading, wrap64 = two's complement wrap *)
Theorem C17_fromuinteger_exact : forall i, in_i64 i -> wf (fromuinteger i) /\ uval (fromuinteger i) = u64 i.
Proof. exact fromuinteger_correct. Qed.
Print Assumptions C17_fromuinteger_exact.

Theorem C17_frominteger_exact : forall i, in_i64 i ->
  wf (frominteger i) /\ uval (frominteger i) = i mod 2 ^ BINT_BITS /\ sval (frominteger i) = i.
Proof. exact frominteger_correct. Qed.
Print Assumptions C17_frominteger_exact.

Theorem C17_touinteger_exact : forall x, wf x -> touinteger x = wrap64 (uval x).
Proof. exact touinteger_correct. Qed.
Print Assumptions C17_touinteger_exact.

Theorem C17_tointeger_exact : forall x, wf x -> tointeger x = wrap64 (sval x).
Proof. exact tointeger_correct. Qed.
Print Assumptions C17_tointeger_exact.

Theorem C17_integer_roundtrip : forall i, in_i64 i ->
  tointeger (frominteger i) = i /\ touinteger (fromuinteger i) = i.
Proof. exact (fun i H => conj (tointeger_frominteger i H) (touinteger_fromuinteger i H)). Qed.
Print Assumptions C17_integer_roundtrip.

Theorem C17_bint_roundtrip : forall x, wf x -> in_i64 (sval x) -> frominteger (tointeger x) = x.
Proof. exact frominteger_tointeger. Qed.
Print Assumptions C17_bint_roundtrip.

(* predicates, abs / max / min, bit-width wrapping *)
Theorem C17_iszero_exact : forall x, wf x -> biszero x = (uval x =? 0).
Proof. exact iszero_correct. Qed.
Print Assumptions C17_iszero_exact.

Theorem C17_isone_exact : forall x, wf x -> bisone x = (uval x =? 1).
Proof. exact isone_correct. Qed.
Print Assumptions C17_isone_exact.

Theorem C17_isminusone_exact : forall x, wf x ->
  bisminusone x = (uval x =? 2 ^ BINT_BITS - 1) /\ bisminusone x = (sval x =? -1).
Proof. exact isminusone_correct. Qed.
Print Assumptions C17_isminusone_exact.

Theorem C17_parity_exact : forall x, wf x -> biseven x = (uval x mod 2 =? 0) /\ bisodd x = (uval x mod 2 =? 1).
Proof. exact iseven_correct. Qed.
Print Assumptions C17_parity_exact.

Theorem C17_limits_exact :
  (wf bint_mininteger /\ uval bint_mininteger = 2 ^ BINT_BITS / 2 /\ sval bint_mininteger = - (2 ^ BINT_BITS / 2)) /\
  (wf bint_maxinteger /\ uval bint_maxinteger = 2 ^ BINT_BITS / 2 - 1).
Proof. exact (conj mininteger_correct maxinteger_correct). Qed.
Print Assumptions C17_limits_exact.

Theorem C17_abs_exact : forall x, wf x -> wf (babs x) /\ uval (babs x) = Z.abs (sval x) mod 2 ^ BINT_BITS.
Proof. exact abs_correct. Qed.
Print Assumptions C17_abs_exact.

Theorem C17_max_exact : forall x y, wf x -> wf y ->
  wf (bmax x y) /\ sval (bmax x y) = Z.max (sval x) (sval y) /\ (bmax x y = x \/ bmax x y = y).
Proof. exact max_correct. Qed.
Print Assumptions C17_max_exact.

Theorem C17_min_exact : forall x y, wf x -> wf y ->
  wf (bmin x y) /\ sval (bmin x y) = Z.min (sval x) (sval y) /\ (bmin x y = x \/ bmin x y = y).
Proof. exact min_correct. Qed.
Print Assumptions C17_min_exact.

Theorem C17_bwrap_exact : forall x y, wf x -> in_i64 y ->
  exists r, bwrap x y = Some r /\ wf r /\ uval r = if y <=? 0 then 0 else uval x mod 2 ^ y.
Proof. exact bwrap_correct. Qed.
Print Assumptions C17_bwrap_exact.

(* rotations: a rotation (count reduced mod BITS) only for |y| <= BITS; beyond, and for
   mininteger, the unchanged code is not a rotation (known finding, replayed every run) *)
Theorem C17_brol_partial : forall x y, wf x -> - BINT_BITS <= y <= BINT_BITS ->
  exists r, brol x y = Some r /\ wf r /\ uval r = rotl (uval x) y.
Proof. exact brol_partial. Qed.
Print Assumptions C17_brol_partial.

Theorem C17_bror_partial : forall x y, wf x -> - BINT_BITS <= y <= BINT_BITS ->
  exists r, bror x y = Some r /\ wf r /\ uval r = rotl (uval x) (- y).
Proof. exact bror_partial. Qed.
Print Assumptions C17_bror_partial.

Theorem C17_brol_refuted : ~ (forall x y, wf x -> in_i64 y ->
  exists r, brol x y = Some r /\ wf r /\ uval r = rotl (uval x) y).
Proof. exact brol_exact_refuted. Qed.
Print Assumptions C17_brol_refuted.

Theorem C17_bror_refuted : ~ (forall x y, wf x -> in_i64 y ->
  exists r, bror x y = Some r /\ wf r /\ uval r = rotl (uval x) (- y)).
Proof. exact bror_exact_refuted. Qed.
Print Assumptions C17_bror_refuted.

(* division *)
Theorem C17_udivmod_exact : forall x y, wf x -> wf y ->
  (uval y = 0 -> udivmod x y = Err EDivZero) /\
  (uval y <> 0 -> exists q r, udivmod x y = Ok (q, r) /\ wf q /\ wf r /\
                   uval q = uval x / uval y /\ uval r = uval x mod uval y).
Proof. exact udivmod_correct. Qed.
Print Assumptions C17_udivmod_exact.

Theorem C17_tdivmod_exact : forall x y, wf x -> wf y ->
  let sx := sval x in let sy := sval y in
  (sx = - (2 ^ BINT_BITS / 2) /\ sy = -1 -> tdivmod x y = Err EDivOverflow) /\
  (~ (sx = - (2 ^ BINT_BITS / 2) /\ sy = -1) -> sy = 0 -> tdivmod x y = Err EDivZero) /\
  (~ (sx = - (2 ^ BINT_BITS / 2) /\ sy = -1) -> sy <> 0 ->
     exists q r, tdivmod x y = Ok (q, r) /\ wf q /\ wf r /\ sval q = Z.quot sx sy /\ sval r = Z.rem sx sy).
Proof. exact tdivmod_correct. Qed.
Print Assumptions C17_tdivmod_exact.

(* floor division: idivmod, x // y (bidiv) and x % y (bmod) *)
Theorem C17_idivmod_exact : forall x y, wf x -> wf y ->
  let sx := sval x in let sy := sval y in
  (sy = 0 -> idivmod x y = Err EDivZero /\ bidiv x y = Err EDivZero /\ bmod x y = Err EDivZero) /\
  (sy <> 0 -> exists q r, idivmod x y = Ok (q, r) /\ bidiv x y = Ok q /\ bmod x y = Ok r /\ wf q /\ wf r /\
     uval q = (sx / sy) mod 2 ^ BINT_BITS /\ sval r = sx mod sy /\
     (~ (sx = - (2 ^ BINT_BITS / 2) /\ sy = -1) -> sval q = sx / sy)).
Proof. exact idivmod_correct. Qed.
Print Assumptions C17_idivmod_exact.

(* powers *)
Theorem C17_ipow_exact : forall x y, wf x -> wf y ->
  exists r, ipow x y = Ok r /\ wf r /\ uval r = (uval x ^ uval y) mod 2 ^ BINT_BITS.
Proof. exact ipow_correct. Qed.
Print Assumptions C17_ipow_exact.

Theorem C17_upowmod_partial : forall x y m, wf x -> wf y -> wf m ->
  (uval m = 0 -> upowmod x y m = Err EDivZero) /\
  (uval m <> 0 -> uval m * uval m <= 2 ^ BINT_BITS ->
     exists r, upowmod x y m = Ok r /\ wf r /\ uval r = (uval x ^ uval y) mod uval m).
Proof. exact upowmod_partial. Qed.
Print Assumptions C17_upowmod_partial.

Theorem C17_upowmod_refuted : ~ (forall x y m, wf x -> wf y -> wf m -> uval m <> 0 ->
  exists r, upowmod x y m = Ok r /\ wf r /\ uval r = (uval x ^ uval y) mod uval m).
Proof. exact upowmod_exact_refuted. Qed.
Print Assumptions C17_upowmod_refuted.

(* ---- text.  Strings are lists of byte codes.  dval base ds = value of the digit list ds;
   canon base ds v: ds are digits of the base, their value is v, no leading zero (single 0 for v = 0);
   char_ok base c: c is alphanumeric with digit value cval c < base; sign_ok: "", "-" or "+". ---- *)
Theorem C17_tobase_exact : forall x base uo, wf x -> 2 <= base <= 36 ->
  let unsigned := match uo with Some u => u | None => negb (base =? 10) end in
  exists ds, tobase x base uo = Ok ((if negb unsigned && (sval x <? 0) then [45] else []) ++ map digit_char ds) /\
             canon base ds (if unsigned then uval x else Z.abs (sval x)).
Proof. exact tobase_correct. Qed.
Print Assumptions C17_tobase_exact.

Theorem C17_frombase_exact : forall base sg cs, 2 <= base <= 36 -> sign_ok sg -> cs <> [] -> Forall (char_ok base) cs ->
  exists x, frombase (sg ++ cs) base = Ok x /\ wf x /\
            uval x = (sign_val sg * dval base (map cval cs)) mod 2 ^ BINT_BITS.
Proof. exact frombase_correct. Qed.
Print Assumptions C17_frombase_exact.

Theorem C17_text_badbase : forall x s base uo, ~ (2 <= base <= 36) ->
  tobase x base uo = Err ENone /\ frombase s base = Err ENone.
Proof. exact (fun x s base uo H => conj (tobase_badbase x base uo H) (frombase_badbase s base H)). Qed.
Print Assumptions C17_text_badbase.

(* for all bases 2..36 and every signedness flag: reading back what tobase wrote gives the same bint *)
Theorem C17_text_roundtrip : forall x base uo, wf x -> 2 <= base <= 36 ->
  exists s, tobase x base uo = Ok s /\ frombase s base = Ok x.
Proof. exact frombase_tobase. Qed.
Print Assumptions C17_text_roundtrip.

(* bn.lua: integer literals in bases 2 / 16 / 10 *)
Theorem C17_literal_bin_exact : forall neg cs, Forall (char_ok 2) cs ->
  exists x, bn_from_bin neg cs = Ok x /\ wf x /\ uval x = ((if neg then -1 else 1) * dval 2 (map cval cs)) mod 2 ^ BINT_BITS.
Proof. exact from_bin_correct. Qed.
Print Assumptions C17_literal_bin_exact.

Theorem C17_literal_hex_exact : forall neg cs, cs <> [] -> Forall (char_ok 16) cs ->
  exists x, bn_from_hex neg cs = Ok x /\ wf x /\ uval x = ((if neg then -1 else 1) * dval 16 (map cval cs)) mod 2 ^ BINT_BITS.
Proof. exact from_hex_correct. Qed.
Print Assumptions C17_literal_hex_exact.

Theorem C17_literal_dec_exact : forall sg cs, sign_ok sg -> cs <> [] -> Forall (char_ok 10) cs ->
  exists x, bn_from_dec (sg ++ cs) = Ok x /\ wf x /\ uval x = (sign_val sg * dval 10 (map cval cs)) mod 2 ^ BINT_BITS.
Proof. exact from_dec_correct. Qed.
Print Assumptions C17_literal_dec_exact.

(* bn.lua: todecint / tohexint / tobinint (bits = nil or a Lua integer: wrap to that many bits first) *)
Theorem C17_todecint_exact : forall v, wf v ->
  exists ds, todecint v = Ok ((if sval v <? 0 then [45] else []) ++ map digit_char ds) /\ canon 10 ds (Z.abs (sval v)).
Proof. exact todecint_correct. Qed.
Print Assumptions C17_todecint_exact.

Theorem C17_tohexint_exact : forall v bits, wf v -> (forall b, bits = Some b -> in_i64 b) ->
  exists ds, tohexint v bits = Ok (map digit_char ds) /\
    canon 16 ds (match bits with None => uval v | Some b => if b <=? 0 then 0 else uval v mod 2 ^ b end).
Proof. exact tohexint_correct. Qed.
Print Assumptions C17_tohexint_exact.

Theorem C17_tobinint_exact : forall v bits, wf v -> (forall b, bits = Some b -> in_i64 b) ->
  exists ds, tobinint v bits = Ok (map digit_char ds) /\
    canon 2 ds (match bits with None => uval v | Some b => if b <=? 0 then 0 else uval v mod 2 ^ b end).
Proof. exact tobinint_correct. Qed.
Print Assumptions C17_tobinint_exact.

Theorem C17_compress_exact : forall x, wf x ->
  compress x = if (sval x <=? maxint) && (minint <=? sval x) then inl (sval x) else inr x.
Proof. exact compress_correct. Qed.
Print Assumptions C17_compress_exact.
