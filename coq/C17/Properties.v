(* Property C17: the compiler's big-number arithmetic is exact.
   This file contains only the property theorems, each closed by [exact] of a lemma of
   Proofs.v and followed by Print Assumptions. *)
From C17 Require Import Model Proofs.
Local Open Scope Z_scope.

Theorem C17_add_exact : forall x y, wf x -> wf y ->
  wf (badd x y) /\ uval (badd x y) = (uval x + uval y) mod 2 ^ BINT_BITS.
Proof. exact add_correct. Qed.
Print Assumptions C17_add_exact.

Theorem C17_sub_exact : forall x y, wf x -> wf y ->
  wf (bsub x y) /\ uval (bsub x y) = (uval x - uval y) mod 2 ^ BINT_BITS.
Proof. exact sub_correct. Qed.
Print Assumptions C17_sub_exact.

Theorem C17_eq_exact : forall x y, wf x -> wf y -> beq x y = true <-> uval x = uval y.
Proof. exact eq_correct. Qed.
Print Assumptions C17_eq_exact.
