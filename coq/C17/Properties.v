(* Property C17: the compiler's big-number arithmetic is exact.
   This file contains only the property theorems, each closed by [exact] of lemmas of
   Proofs*.v and followed by Print Assumptions (related operations are grouped in one theorem:
   every Print Assumptions walks the whole proof term, grouping keeps the quick check fast).
   wf x: BINT_SIZE limbs, each in [0, 2^BINT_WORDBITS);  uval: unsigned value;  sval: two's
   complement value;  all arithmetic is exact arithmetic reduced mod 2^BINT_BITS.
   Lua integers: in_i64, wrap64 (two's complement wrap), u64 (unsigned reading). *)
From C17 Require Import Model Model2 Model3 Proofs ProofsLib ProofsArith ProofsMul ProofsBits ProofsConv ProofsShift
  ProofsMisc ProofsSudiv ProofsDiv ProofsSigned ProofsDiv2 ProofsDiv3 ProofsPow ProofsText ProofsText2 ProofsText3
  ProofsMixed ProofsBytes ProofsReject ProofsObj ProofsSpace ProofsLit ProofsLit2.
From C17 Require Import Model4 Model5 ModelObj.
Local Open Scope Z_scope.

(* ---- ring operations ---- *)
Theorem C17_add_exact : forall x y, wf x -> wf y ->
  wf (badd x y) /\ uval (badd x y) = (uval x + uval y) mod 2 ^ BINT_BITS.
Proof. exact add_correct. Qed.
Print Assumptions C17_add_exact.

Theorem C17_sub_exact : forall x y, wf x -> wf y ->
  wf (bsub x y) /\ uval (bsub x y) = (uval x - uval y) mod 2 ^ BINT_BITS.
Proof. exact sub_correct. Qed.
Print Assumptions C17_sub_exact.

Theorem C17_mul_exact : forall x y, wf x -> wf y ->
  wf (bmul x y) /\ uval (bmul x y) = (uval x * uval y) mod 2 ^ BINT_BITS.
Proof. exact mul_correct. Qed.
Print Assumptions C17_mul_exact.

Theorem C17_inc_dec_unm_exact : forall x, wf x ->
  (wf (binc x) /\ uval (binc x) = (uval x + 1) mod 2 ^ BINT_BITS) /\
  (wf (bdec x) /\ uval (bdec x) = (uval x - 1) mod 2 ^ BINT_BITS) /\
  (wf (bunm x) /\ uval (bunm x) = (- uval x) mod 2 ^ BINT_BITS).
Proof. exact (fun x H => conj (inc_correct x H) (conj (dec_correct x H) (unm_correct x H))). Qed.
Print Assumptions C17_inc_dec_unm_exact.

(* ---- bitwise ---- *)
Theorem C17_bitwise_exact : forall x y, wf x -> wf y ->
  (wf (band x y) /\ uval (band x y) = Z.land (uval x) (uval y)) /\
  (wf (bor x y) /\ uval (bor x y) = Z.lor (uval x) (uval y)) /\
  (wf (bxor x y) /\ uval (bxor x y) = Z.lxor (uval x) (uval y)) /\
  (wf (bnot x) /\ uval (bnot x) = 2 ^ BINT_BITS - 1 - uval x /\ uval (bnot x) = Z.lnot (uval x) mod 2 ^ BINT_BITS).
Proof.
  exact (fun x y Hx Hy => conj (band_correct x y Hx Hy) (conj (bor_correct x y Hx Hy)
                         (conj (bxor_correct x y Hx Hy) (bnot_correct x Hx)))).
Qed.
Print Assumptions C17_bitwise_exact.

(* ---- comparisons and sign ---- *)
Theorem C17_compare_exact : forall x y, wf x -> wf y ->
  (beq x y = true <-> uval x = uval y) /\
  ult x y = (uval x <? uval y) /\ ule x y = (uval x <=? uval y) /\
  blt x y = (sval x <? sval y) /\ ble x y = (sval x <=? sval y) /\
  isneg x = (sval x <? 0).
Proof.
  exact (fun x y Hx Hy => conj (eq_correct x y Hx Hy) (conj (ult_correct x y Hx Hy) (conj (ule_correct x y Hx Hy)
                         (conj (lt_correct x y Hx Hy) (conj (le_correct x y Hx Hy) (isneg_correct x Hx)))))).
Qed.
Print Assumptions C17_compare_exact.

(* ---- shifts ---- *)
Theorem C17_shift_one_exact : forall x, wf x ->
  (wf (shlone x) /\ uval (shlone x) = (2 * uval x) mod 2 ^ BINT_BITS) /\
  (wf (shrone x) /\ uval (shrone x) = uval x / 2).
Proof. exact (fun x H => conj (shlone_correct x H) (shrone_correct x H)). Qed.
Print Assumptions C17_shift_one_exact.

(* shifts by ANY Lua integer count (negative = other direction, |y| >= BITS and mininteger = 0);
   Z.shiftl with a negative count is a right shift *)
Theorem C17_shl_exact : forall x y, wf x -> in_i64 y ->
  exists r, bshl x y = Some r /\ wf r /\ uval r = Z.shiftl (uval x) y mod 2 ^ BINT_BITS.
Proof. exact shl_correct. Qed.
Print Assumptions C17_shl_exact.

Theorem C17_shr_exact : forall x y, wf x -> in_i64 y ->
  exists r, bshr x y = Some r /\ wf r /\ uval r = Z.shiftr (uval x) y mod 2 ^ BINT_BITS.
Proof. exact shr_correct. Qed.
Print Assumptions C17_shr_exact.

Theorem C17_bwrap_exact : forall x y, wf x -> in_i64 y ->
  exists r, bwrap x y = Some r /\ wf r /\ uval r = if y <=? 0 then 0 else uval x mod 2 ^ y.
Proof. exact bwrap_correct. Qed.
Print Assumptions C17_bwrap_exact.

(* rotations by ANY Lua integer count: rotl u k rotates the BITS-bit value u to the left by k mod BITS
   (a negative count rotates to the right); as repaired in /repo by
   "fix: bint rotations reduce the count modulo the bit width" *)
Theorem C17_rotate_exact : forall x y, wf x -> in_i64 y ->
  (exists r, brol x y = Some r /\ wf r /\ uval r = rotl (uval x) y) /\
  (exists r, bror x y = Some r /\ wf r /\ uval r = rotl (uval x) (- y)).
Proof. exact (fun x y Hx Hy => conj (brol_correct x y Hx Hy) (bror_correct x y Hx Hy)). Qed.
Print Assumptions C17_rotate_exact.

(* the reduction of the count is needed: the same code with the scraped policy rot_reduces_count = false (branching on
   the sign of the count, the code before the repair) is not a rotation.  C17_rotate_exact is proved from the fact
   rot_reduces_count = true, so a revert breaks it. *)
Theorem C17_rotate_reduction_needed :
  ~ (forall x y, wf x -> in_i64 y -> exists r, brol_pol false x y = Some r /\ wf r /\ uval r = rotl (uval x) y) /\
  ~ (forall x y, wf x -> in_i64 y -> exists r, bror_pol false x y = Some r /\ wf r /\ uval r = rotl (uval x) (- y)).
Proof. exact rot_reduction_needed. Qed.
Print Assumptions C17_rotate_reduction_needed.

(* ---- conversions from and to Lua integers ---- *)
Theorem C17_integer_conv_exact :
  (forall i, in_i64 i -> wf (fromuinteger i) /\ uval (fromuinteger i) = u64 i) /\
  (forall i, in_i64 i -> wf (frominteger i) /\ uval (frominteger i) = i mod 2 ^ BINT_BITS /\ sval (frominteger i) = i) /\
  (forall x, wf x -> touinteger x = wrap64 (uval x)) /\
  (forall x, wf x -> tointeger x = wrap64 (sval x)).
Proof. exact (conj fromuinteger_correct (conj frominteger_correct (conj touinteger_correct tointeger_correct))). Qed.
Print Assumptions C17_integer_conv_exact.

Theorem C17_integer_roundtrip :
  (forall i, in_i64 i -> tointeger (frominteger i) = i /\ touinteger (fromuinteger i) = i) /\
  (forall x, wf x -> in_i64 (sval x) -> frominteger (tointeger x) = x) /\
  (forall x, wf x -> compress x = if (sval x <=? maxint) && (minint <=? sval x) then inl (sval x) else inr x).
Proof.
  exact (conj (fun i H => conj (tointeger_frominteger i H) (touinteger_fromuinteger i H))
              (conj frominteger_tointeger compress_correct)).
Qed.
Print Assumptions C17_integer_roundtrip.

(* ---- predicates, limits, abs / max / min ---- *)
Theorem C17_predicates_exact : forall x, wf x ->
  biszero x = (uval x =? 0) /\ bisone x = (uval x =? 1) /\
  (bisminusone x = (uval x =? 2 ^ BINT_BITS - 1) /\ bisminusone x = (sval x =? -1)) /\
  (biseven x = (uval x mod 2 =? 0) /\ bisodd x = (uval x mod 2 =? 1)).
Proof.
  exact (fun x H => conj (iszero_correct x H) (conj (isone_correct x H) (conj (isminusone_correct x H) (iseven_correct x H)))).
Qed.
Print Assumptions C17_predicates_exact.

Theorem C17_limits_exact :
  (wf bint_mininteger /\ uval bint_mininteger = 2 ^ BINT_BITS / 2 /\ sval bint_mininteger = - (2 ^ BINT_BITS / 2)) /\
  (wf bint_maxinteger /\ uval bint_maxinteger = 2 ^ BINT_BITS / 2 - 1).
Proof. exact (conj mininteger_correct maxinteger_correct). Qed.
Print Assumptions C17_limits_exact.

Theorem C17_abs_max_min_exact : forall x y, wf x -> wf y ->
  (wf (babs x) /\ uval (babs x) = Z.abs (sval x) mod 2 ^ BINT_BITS) /\
  (wf (bmax x y) /\ sval (bmax x y) = Z.max (sval x) (sval y) /\ (bmax x y = x \/ bmax x y = y)) /\
  (wf (bmin x y) /\ sval (bmin x y) = Z.min (sval x) (sval y) /\ (bmin x y = x \/ bmin x y = y)).
Proof. exact (fun x y Hx Hy => conj (abs_correct x Hx) (conj (max_correct x y Hx Hy) (min_correct x y Hx Hy))). Qed.
Print Assumptions C17_abs_max_min_exact.

(* ---- division ---- *)
Theorem C17_udivmod_exact : forall x y, wf x -> wf y ->
  (uval y = 0 -> udivmod x y = Err EDivZero) /\
  (uval y <> 0 -> exists q r, udivmod x y = Ok (q, r) /\ wf q /\ wf r /\
                   uval q = uval x / uval y /\ uval r = uval x mod uval y).
Proof. exact udivmod_correct. Qed.
Print Assumptions C17_udivmod_exact.

Theorem C17_tdivmod_exact : forall x y, wf x -> wf y ->
  let sx := sval x in let sy := sval y in
  (sx = - (2 ^ BINT_BITS / 2) /\ sy = -1 -> tdivmod x y = Err EDivOverflow) /\
  (~ (sx = - (2 ^ BINT_BITS / 2) /\ sy = -1) -> sy = 0 -> tdivmod x y = Err EDivZero) /\
  (~ (sx = - (2 ^ BINT_BITS / 2) /\ sy = -1) -> sy <> 0 ->
     exists q r, tdivmod x y = Ok (q, r) /\ wf q /\ wf r /\ sval q = Z.quot sx sy /\ sval r = Z.rem sx sy).
Proof. exact tdivmod_correct. Qed.
Print Assumptions C17_tdivmod_exact.

(* floor division: idivmod, x // y (bidiv) and x % y (bmod) *)
Theorem C17_idivmod_exact : forall x y, wf x -> wf y ->
  let sx := sval x in let sy := sval y in
  (sy = 0 -> idivmod x y = Err EDivZero /\ bidiv x y = Err EDivZero /\ bmod x y = Err EDivZero) /\
  (sy <> 0 -> exists q r, idivmod x y = Ok (q, r) /\ bidiv x y = Ok q /\ bmod x y = Ok r /\ wf q /\ wf r /\
     uval q = (sx / sy) mod 2 ^ BINT_BITS /\ sval r = sx mod sy /\
     (~ (sx = - (2 ^ BINT_BITS / 2) /\ sy = -1) -> sval q = sx / sy)).
Proof. exact idivmod_correct. Qed.
Print Assumptions C17_idivmod_exact.

(* ---- powers ----
   NOTE: as bint.ipow documents, the exponent is read as an UNSIGNED number (uval y): a negative exponent is a
   huge positive one, not a reciprocal.  The corollary below is the reading "powers of mathematical integers"
   for the exponents where the two agree (0 <= sval y). *)
Theorem C17_ipow_exact : forall x y, wf x -> wf y ->
  exists r, ipow x y = Ok r /\ wf r /\ uval r = (uval x ^ uval y) mod 2 ^ BINT_BITS.
Proof. exact ipow_correct. Qed.
Print Assumptions C17_ipow_exact.

Theorem C17_ipow_signed : forall x y, wf x -> wf y -> 0 <= sval y ->
  exists r, ipow x y = Ok r /\ wf r /\ uval r = (sval x ^ sval y) mod 2 ^ BINT_BITS.
Proof. exact ipow_signed. Qed.
Print Assumptions C17_ipow_signed.

(* modular power, exact for every modulus (as repaired in /repo by "fix: bint.upowmod is exact for every modulus":
   products are formed modulo m by double-and-add, nothing wraps); base and exponent are read unsigned *)
Theorem C17_upowmod_exact : forall x y m, wf x -> wf y -> wf m ->
  (uval m = 0 -> upowmod x y m = Err EDivZero) /\
  (uval m <> 0 -> exists r, upowmod x y m = Ok r /\ wf r /\ uval r = (uval x ^ uval y) mod uval m).
Proof. exact upowmod_correct. Qed.
Print Assumptions C17_upowmod_exact.

(* the modular products are needed: with the scraped policy upowmod_mulmod = false (bint_umod(a * b, m), the code
   before the repair) the statement is false.  C17_upowmod_exact is proved from the fact upowmod_mulmod = true. *)
Theorem C17_upowmod_mulmod_needed : ~ (forall x y m, wf x -> wf y -> wf m -> uval m <> 0 ->
  exists r, upowmod_pol false x y m = Ok r /\ wf r /\ uval r = (uval x ^ uval y) mod uval m).
Proof. exact upowmod_mulmod_needed. Qed.
Print Assumptions C17_upowmod_mulmod_needed.

(* ---- text.  Strings are lists of byte codes.  dval base ds = value of the digit list ds;
   canon base ds v: ds are digits of the base, their value is v, no leading zero (single 0 for v = 0);
   char_ok base c: c is alphanumeric with digit value cval c < base; sign_ok: "", "-" or "+". ---- *)
Theorem C17_tobase_exact : forall x base uo, wf x -> 2 <= base <= 36 ->
  let unsigned := match uo with Some u => u | None => negb (base =? 10) end in
  exists ds, tobase x base uo = Ok ((if negb unsigned && (sval x <? 0) then [45] else []) ++ map digit_char ds) /\
             canon base ds (if unsigned then uval x else Z.abs (sval x)).
Proof. exact tobase_correct. Qed.
Print Assumptions C17_tobase_exact.

Theorem C17_frombase_exact : forall base sg cs, 2 <= base <= 36 -> sign_ok sg -> cs <> [] -> Forall (char_ok base) cs ->
  exists x, frombase (sg ++ cs) base = Ok x /\ wf x /\
            uval x = (sign_val sg * dval base (map cval cs)) mod 2 ^ BINT_BITS.
Proof. exact frombase_correct. Qed.
Print Assumptions C17_frombase_exact.

(* exactly which strings frombase accepts, for EVERY string: core_ok = optional sign then one or more alphanumeric digits
   below the base; everything else - white space anywhere, a digit at or above the base, an inner sign, an empty digit
   part, any other character - is nil, on the short (tonumber) path and on the chunked path alike.  Proved from the
   scraped fact frombase_short_guarded = true (the fast path is taken only for ^[+-]?%w+$, /repo 4105672). *)
Theorem C17_frombase_accepts : forall base s, 2 <= base <= 36 ->
  (core_ok base s = true ->
     exists sg cs x, s = sg ++ cs /\ sign_ok sg /\ cs <> [] /\ Forall (char_ok base) cs /\
       frombase s base = Ok x /\ wf x /\ uval x = (sign_val sg * dval base (map cval cs)) mod 2 ^ BINT_BITS) /\
  (core_ok base s = false -> frombase s base = Err ENone).
Proof. exact frombase_accepts. Qed.
Print Assumptions C17_frombase_accepts.

(* the guard is needed: the same code with frombase_short_guarded = false (every short string goes to tonumber, the code
   before the repair) accepts " 1" *)
Theorem C17_frombase_guard_needed :
  ~ (forall base s, 2 <= base <= 36 -> core_ok base s = false -> frombase_pol false s base = Err ENone).
Proof. exact frombase_guard_needed. Qed.
Print Assumptions C17_frombase_guard_needed.

Theorem C17_text_badbase : forall x s base uo, ~ (2 <= base <= 36) ->
  tobase x base uo = Err ENone /\ frombase s base = Err ENone.
Proof. exact (fun x s base uo H => conj (tobase_badbase x base uo H) (frombase_badbase s base H)). Qed.
Print Assumptions C17_text_badbase.

(* for all bases 2..36 and every signedness flag: reading back what tobase wrote gives the same bint *)
Theorem C17_text_roundtrip : forall x base uo, wf x -> 2 <= base <= 36 ->
  exists s, tobase x base uo = Ok s /\ frombase s base = Ok x.
Proof. exact frombase_tobase. Qed.
Print Assumptions C17_text_roundtrip.

(* bn.lua: integer literals [-]0b<digits>, [-]0x<digits>, decimal digits.
   Decimal (as repaired in /repo by "fix: decimal integer literals that do not fit the compiler's big numbers are
   read as floats"): the reader keeps the parsed big number n only if todecint(n) equals the digits read with
   leading zeros removed (Model3.bn_from_dec mirrors that test); the theorem characterises the test exactly:
   below 2^(BITS-1) the literal is an exact integer (no reduction mod 2^BITS happens), from there on it is read
   as a float (LFloat; the float value is C14's concern).  A string with an explicit sign is not subject to the
   test (the compiler's lexer never produces one) and is reduced mod 2^BITS. *)
Theorem C17_literal_exact :
  (forall neg cs, Forall (char_ok 2) cs ->
     exists x, bn_from_bin neg cs = Ok x /\ wf x /\ uval x = ((if neg then -1 else 1) * dval 2 (map cval cs)) mod 2 ^ BINT_BITS) /\
  (forall neg cs, cs <> [] -> Forall (char_ok 16) cs ->
     exists x, bn_from_hex neg cs = Ok x /\ wf x /\ uval x = ((if neg then -1 else 1) * dval 16 (map cval cs)) mod 2 ^ BINT_BITS) /\
  (forall cs, cs <> [] -> Forall (char_ok 10) cs ->
     let v := dval 10 (map cval cs) in
     (v < 2 ^ BINT_BITS / 2 -> exists x, bn_from_dec cs = Ok (LInt x) /\ wf x /\ uval x = v /\ sval x = v) /\
     (2 ^ BINT_BITS / 2 <= v -> bn_from_dec cs = Ok LFloat)) /\
  (forall sg cs, sg = [45] \/ sg = [43] -> cs <> [] -> Forall (char_ok 10) cs ->
     exists x, bn_from_dec (sg ++ cs) = Ok (LInt x) /\ wf x /\ uval x = (sign_val sg * dval 10 (map cval cs)) mod 2 ^ BINT_BITS).
Proof. exact (conj from_bin_correct (conj from_hex_correct (conj from_dec_unsigned from_dec_signed))). Qed.
Print Assumptions C17_literal_exact.

(* the range test of the decimal reader is needed: with the scraped policy dec_literal_checked = false (the reader
   before the repair) the decimal digits of 2^BITS are read as the integer 0.  The decimal clause of
   C17_literal_exact is proved from the fact dec_literal_checked = true. *)
Theorem C17_literal_check_needed : ~ (forall cs, cs <> [] -> Forall (char_ok 10) cs ->
  let v := dval 10 (map cval cs) in
  (v < 2 ^ BINT_BITS / 2 -> exists x, bn_from_dec_pol false cs = Ok (LInt x) /\ wf x /\ uval x = v /\ sval x = v) /\
  (2 ^ BINT_BITS / 2 <= v -> bn_from_dec_pol false cs = Ok LFloat)).
Proof. exact dec_check_needed. Qed.
Print Assumptions C17_literal_check_needed.

(* bn.lua: todecint / tohexint / tobinint (bits = nil or a Lua integer: wrap to that many bits first) *)
Theorem C17_intstring_exact : forall v bits, wf v -> (forall b, bits = Some b -> in_i64 b) ->
  let w := match bits with None => uval v | Some b => if b <=? 0 then 0 else uval v mod 2 ^ b end in
  (exists ds, todecint v = Ok ((if sval v <? 0 then [45] else []) ++ map digit_char ds) /\ canon 10 ds (Z.abs (sval v))) /\
  (exists ds, tohexint v bits = Ok (map digit_char ds) /\ canon 16 ds w) /\
  (exists ds, tobinint v bits = Ok (map digit_char ds) /\ canon 2 ds w).
Proof.
  exact (fun v bits Hv Hb => conj (todecint_correct v Hv) (conj (tohexint_correct v bits Hv Hb) (tobinint_correct v bits Hv Hb))).
Qed.
Print Assumptions C17_intstring_exact.

(* ---- how the compiler calls the library: Lua integers, floats (FFin m e = the double m * 2^e),
   strings and bints mixed.  lval_int v: the integer the library reads v as - a Lua integer, a float with an
   integral value inside the Lua integer range (float_int), a bint (its signed value); None for floats with a
   fraction or beyond that range, inf, nan. ---- *)
Theorem C17_tobint_exact :
  (forall v z, wf_lval v -> lval_int v = Some z ->
     exists x, tobint v = Some x /\ wf x /\ sval x = z /\ uval x = z mod 2 ^ BINT_BITS) /\
  (forall v, not_string v -> lval_int v = None -> tobint v = None) /\
  (forall v, wf_lval v -> not_string v ->
     match lval_int v with
     | Some z => exists x, bnew v = COk x /\ wf x /\ sval x = z
     | None => bnew v = CAssert
     end).
Proof. exact (conj tobint_int (conj tobint_none bnew_correct)). Qed.
Print Assumptions C17_tobint_exact.

(* strings handed to bint.new / tobint: decimal, 0x.., 0b.. with optional sign *)
Theorem C17_fromstring_exact : forall sg cs, sign_ok sg -> cs <> [] ->
  (forallb is_digit cs = true ->
     exists x, fromstring (sg ++ cs) = Ok x /\ wf x /\ uval x = (sign_val sg * dval 10 (map cval cs)) mod 2 ^ BINT_BITS) /\
  (forall p, p = 120 \/ p = 88 -> forallb is_hexdigit cs = true ->
     exists x, fromstring (sg ++ 48 :: p :: cs) = Ok x /\ wf x /\ uval x = (sign_val sg * dval 16 (map cval cs)) mod 2 ^ BINT_BITS) /\
  (forall p, p = 98 \/ p = 66 -> forallb is_bindigit cs = true ->
     exists x, fromstring (sg ++ 48 :: p :: cs) = Ok x /\ wf x /\ uval x = (sign_val sg * dval 2 (map cval cs)) mod 2 ^ BINT_BITS).
Proof. exact fromstring_correct. Qed.
Print Assumptions C17_fromstring_exact.

(* add / sub / mul / lt / le / eq on any mix of arguments that denote integers are the exact operations on
   those integers; otherwise no big-number arithmetic happens (the operands go to the VM as plain numbers) *)
Theorem C17_mixed_exact : forall a b,
  (forall za zb, wf_lval a -> wf_lval b -> lval_int a = Some za -> lval_int b = Some zb ->
     (exists r, madd a b = MBint r /\ wf r /\ uval r = (za + zb) mod 2 ^ BINT_BITS) /\
     (exists r, msub a b = MBint r /\ wf r /\ uval r = (za - zb) mod 2 ^ BINT_BITS) /\
     (exists r, mmul a b = MBint r /\ wf r /\ uval r = (za * zb) mod 2 ^ BINT_BITS) /\
     mlt a b = Some (za <? zb) /\ mle a b = Some (za <=? zb) /\ meq a b = (za =? zb)) /\
  (not_string a -> not_string b -> lval_int a = None \/ lval_int b = None ->
     madd a b = MFallback (lval_tonumber a) (lval_tonumber b) /\
     msub a b = MFallback (lval_tonumber a) (lval_tonumber b) /\
     mmul a b = MFallback (lval_tonumber a) (lval_tonumber b)).
Proof. exact (fun a b => conj (mixed_exact a b) (mixed_fallback a b)). Qed.
Print Assumptions C17_mixed_exact.

(* bint.tonumber: the exact Lua integer when it fits, otherwise the nearest double (ties to even, rne53) of
   the signed value; rne53 is exact up to 53 significant bits and off by at most half a unit in the last place *)
Theorem C17_tonumber_exact :
  (forall x, wf x -> bint_tonumber x = if in_i64b (sval x) then NInt (sval x) else NFlt (FFin (rne53 (sval x)) 0)) /\
  (forall v, let L := Z.log2 (Z.abs v) + 1 in
     (L <= 53 -> rne53 v = v) /\
     (53 < L -> exists q, rne53 v = Z.sgn v * (q * 2 ^ (L - 53)) /\ 2 ^ 52 <= q <= 2 ^ 53 /\
                2 * Z.abs (rne53 v - v) <= 2 ^ (L - 53))).
Proof. exact (conj tonumber_correct rne53_spec). Qed.
Print Assumptions C17_tonumber_exact.

(* trunc / floor / ceil of a float: the mathematical rounding of m * 2^e when it fits a Lua integer, else nil
   (trunc) or the assert of bint.new (floor, ceil) *)
Theorem C17_trunc_floor_ceil_exact : forall m e,
  btrunc (LNum (NFlt (FFin m e))) = (if in_i64b (fl_trunc m e) then Some (frominteger (fl_trunc m e)) else None) /\
  bfloor (LNum (NFlt (FFin m e))) = (if in_i64b (fl_floor m e) then COk (frominteger (fl_floor m e)) else CAssert) /\
  bceil (LNum (NFlt (FFin m e))) = (if in_i64b (fl_ceil m e) then COk (frominteger (fl_ceil m e)) else CAssert) /\
  (e < 0 -> let d := 2 ^ (- e) in
     fl_floor m e * d <= m < (fl_floor m e + 1) * d /\ (fl_ceil m e - 1) * d < m <= fl_ceil m e * d /\
     fl_trunc m e = (if m <? 0 then fl_ceil m e else fl_floor m e)).
Proof.
  exact (fun m e => conj (trunc_correct (LNum (NFlt (FFin m e))))
                    (conj (proj1 (floor_ceil_correct m e)) (conj (proj1 (proj2 (floor_ceil_correct m e))) (fl_round_spec m e)))).
Qed.
Print Assumptions C17_trunc_floor_ceil_exact.

(* byte buffers: fromle reads the first BYTES bytes little-endian (missing ones are zero), tole/tobe write the
   value, with or without trimming, and both round trips give the same bint back *)
Theorem C17_bytes_exact :
  (forall bs, Forall byte_ok bs -> wf (bfromle bs) /\ uval (bfromle bs) = le_bytes_val (firstn BINT_BYTES bs)) /\
  (forall bs, Forall byte_ok bs -> (length bs <= BINT_BYTES)%nat -> wf (bfrombe bs) /\ uval (bfrombe bs) = le_bytes_val (rev bs)) /\
  (forall x trim, wf x ->
     Forall byte_ok (btole x trim) /\ le_bytes_val (btole x trim) = uval x /\
     (trim = false -> length (btole x trim) = BINT_BYTES) /\ bfromle (btole x trim) = x) /\
  (forall x trim, wf x -> bfrombe (btobe x trim) = x /\ (trim = false -> btobe x trim = rev (btole x false))).
Proof. exact (conj fromle_correct (conj frombe_correct (conj tole_correct tobe_correct))). Qed.
Print Assumptions C17_bytes_exact.

(* bn.todecsci on a bint: the signed decimal digits, ".0" appended when forcefract *)
Theorem C17_todecsci_exact : forall v forcefract, wf v ->
  exists ds, todecsci_int v forcefract =
             Ok (((if sval v <? 0 then [45] else []) ++ map digit_char ds) ++ (if forcefract then [46; 48] else [])) /\
             canon 10 ds (Z.abs (sval v)).
Proof. exact todecsci_int_correct. Qed.
Print Assumptions C17_todecsci_exact.

(* ---- objects: bints are mutable tables.  ModelObj.v writes every public function as the allocations and
   in-place updates the Lua code performs (s: the heap of bint objects, references are indices).
   sext s s': every object of s is still in s' with the same limbs;  fresh_res s (s', r) v: sext s s', the
   returned object r did not exist in s, and it holds v.  So: no public function changes an operand, and
   results never alias operands - except tobint/parse without clone, compress of a value that does not fit
   a Lua integer, and brol/bror with a count that is a multiple of the width, which return x itself. ---- *)
Theorem C17_objects_unary : forall s x,
  fresh_res s (o_new s x) (oget s x) /\
  fresh_res s (o_tobint s x true) (oget s x) /\ o_tobint s x false = (s, x) /\
  fresh_res s (o_abs s x) (babs (oget s x)) /\
  fresh_res s (o_inc s x) (binc (oget s x)) /\ fresh_res s (o_dec s x) (bdec (oget s x)) /\
  fresh_res s (o_bnot s x) (bnot (oget s x)) /\ fresh_res s (o_neg s x) (bunm (oget s x)).
Proof. exact obj_unary. Qed.
Print Assumptions C17_objects_unary.

Theorem C17_objects_binary : forall s x y, (x < length s)%nat -> (y < length s)%nat ->
  (forall f, fresh_res s (o_bin f s x y) (f (oget s x) (oget s y))) /\
  (forall f, fresh_res s (o_bit f s x y) (f (oget s x) (oget s y))) /\
  fresh_res s (o_max s x y) (bmax (oget s x) (oget s y)) /\
  fresh_res s (o_min s x y) (bmin (oget s x) (oget s y)).
Proof. exact obj_binary. Qed.
Print Assumptions C17_objects_binary.

Theorem C17_objects_shift_rotate : forall s x n, (x < length s)%nat ->
  (forall left v, shift_fuel 2 left (oget s x) n = Some v -> fresh_res s (o_shift left s x n) v) /\
  (forall v, bwrap (oget s x) n = Some v -> fresh_res s (o_bwrap s x n) v) /\
  (forall left, imod_bits n = 0 -> o_rot left s x n = (s, x)) /\
  (forall left a b, imod_bits n <> 0 ->
     shift_fuel 2 left (oget s x) (imod_bits n) = Some a ->
     shift_fuel 2 (negb left) (oget s x) (lsub BINT_BITS (imod_bits n)) = Some b ->
     fresh_res s (o_rot left s x n) (bor a b)).
Proof.
  exact (fun s x n H => conj (proj1 (obj_shift_rot s x n H)) (conj (fun v => obj_bwrap s x n v H) (proj2 (obj_shift_rot s x n H)))).
Qed.
Print Assumptions C17_objects_shift_rotate.

Theorem C17_objects_division : forall s x y s' q r, (x < length s)%nat -> (y < length s)%nat ->
  (o_udivmod s x y = Ok (s', (q, r)) ->
     exists qv rv, udivmod (oget s x) (oget s y) = Ok (qv, rv) /\ fresh_pair s s' q r qv rv) /\
  (o_idivmod s x y = Ok (s', (q, r)) ->
     exists qv rv, idivmod (oget s x) (oget s y) = Ok (qv, rv) /\ fresh_pair s s' q r qv rv) /\
  (o_tdivmod s x y = Ok (s', (q, r)) ->
     exists qv rv, tdivmod (oget s x) (oget s y) = Ok (qv, rv) /\ sext s s' /\
       (length s <= q < length s')%nat /\ (length s <= r < length s')%nat /\ oget s' q = qv /\ oget s' r = rv).
Proof.
  exact (fun s x y s' q r Hx Hy => conj (obj_udivmod s x y s' q r) (conj (obj_idivmod s x y s' q r Hx Hy) (obj_tdivmod s x y s' q r Hx Hy))).
Qed.
Print Assumptions C17_objects_division.

Theorem C17_objects_pow_scalar : forall s x y m,
  (forall s' r, o_ipow s x y = Ok (s', r) -> exists v, ipow (oget s x) (oget s y) = Ok v /\ fresh_res s (s', r) v) /\
  (forall s' r, o_upowmod s x y m = Ok (s', r) ->
     exists v, upowmod (oget s x) (oget s y) (oget s m) = Ok v /\ fresh_res s (s', r) v) /\
  (forall base uo, sext s (fst (o_tobase s x base uo)) /\ snd (o_tobase s x base uo) = tobase (oget s x) base uo) /\
  (sext s (fst (o_tointeger s x)) /\ snd (o_tointeger s x) = tointeger (oget s x)) /\
  (fst (o_compress s x) = s /\
   snd (o_compress s x) = match compress (oget s x) with inl i => inl i | inr _ => inr x end).
Proof.
  exact (fun s x y m => conj (obj_ipow s x y) (conj (obj_upowmod s x y m) (obj_scalar s x))).
Qed.
Print Assumptions C17_objects_pow_scalar.

(* ---- frombase, accepted set as a shape: optional sign followed by digits of the base, and nothing else; in
   particular a string containing white space is nil whatever its length ---- *)
Theorem C17_frombase_uniform : forall base, 2 <= base <= 36 ->
  (forall s, (exists sg cs, s = sg ++ cs /\ sign_ok sg /\ cs <> [] /\ Forall (char_ok base) cs) <-> exists x, frombase s base = Ok x) /\
  (forall s c, In c s -> is_space c = true -> frombase s base = Err ENone).
Proof. exact (fun base H => conj (frombase_uniform base H) (fun s c => frombase_no_space base s c H)). Qed.
Print Assumptions C17_frombase_uniform.

(* ---- bn.from from the literal TEXT.  split_lit is the total function of the two lpegrex patterns (binpatt,
   hexpatt) from the text to the captures (neg, int, frac, exp); it is corresponded against the real patterns. ---- *)
(* an accepted text is partitioned by the captures: sign, "0", the base mark, the mantissa (int, int "." frac, or
   "." frac with int = "0"; an empty fraction after the point is captured as "0"), the exponent part *)
Theorem C17_literal_split_partition : forall isdig m1 m2 s neg int frac e,
  split_lit isdig m1 m2 s = Some (neg, int, frac, e) ->
  exists sg m mt et, s = sg ++ 48 :: m :: mt ++ et /\ (m = m1 \/ m = m2) /\
    ((neg = true /\ sg = [45]) \/ (neg = false /\ (sg = [43] \/ sg = []))) /\
    mant_shape isdig mt int frac /\ exp_shape et e.
Proof. exact split_partition. Qed.
Print Assumptions C17_literal_split_partition.

(* ... and conversely every text of that shape is accepted with exactly these captures (the point and the exponent
   marks must not be digits of the class: then the greedy, non-backtracking reading is the only one) *)
Theorem C17_literal_split_complete : forall isdig m1 m2 sg m mt et neg int frac e,
  isdig 46 = false /\ isdig 112 = false /\ isdig 80 = false ->
  (m = m1 \/ m = m2) ->
  ((neg = true /\ sg = [45]) \/ (neg = false /\ (sg = [43] \/ sg = []))) ->
  mant_shape isdig mt int frac -> exp_shape et e ->
  split_lit isdig m1 m2 (sg ++ 48 :: m :: mt ++ et) = Some (neg, int, frac, e).
Proof. exact split_complete. Qed.
Print Assumptions C17_literal_split_complete.

(* the two patterns of bn.lua: accepted with captures (neg, int, frac, e) iff the text has that reading; refused iff it has none *)
Theorem C17_literal_split_exact : forall s,
  (forall neg int frac e,
    (split_bin s = Some (neg, int, frac, e) <-> lit_shape is_bindigit 98 66 s neg int frac e) /\
    (split_hex s = Some (neg, int, frac, e) <-> lit_shape is_hexdigit 120 88 s neg int frac e)) /\
  (split_bin s = None <-> forall neg int frac e, ~ lit_shape is_bindigit 98 66 s neg int frac e) /\
  (split_hex s = None <-> forall neg int frac e, ~ lit_shape is_hexdigit 120 88 s neg int frac e).
Proof. exact split_exact. Qed.
Print Assumptions C17_literal_split_exact.

(* integer literals, from the text: [+-]0b<bits>, [+-]0x<hex digits>, decimal digits *)
Theorem C17_literal_text_exact : forall sg ds, sign_ok sg -> ds <> [] ->
  (forall m, m = 98 \/ m = 66 -> forallb is_bindigit ds = true ->
     exists x, bn_from_text (sg ++ 48 :: m :: ds) = TInt x /\ wf x /\ uval x = (sign_val sg * dval 2 (map cval ds)) mod 2 ^ BINT_BITS) /\
  (forall m, m = 120 \/ m = 88 -> forallb is_hexdigit ds = true ->
     exists x, bn_from_text (sg ++ 48 :: m :: ds) = TInt x /\ wf x /\ uval x = (sign_val sg * dval 16 (map cval ds)) mod 2 ^ BINT_BITS) /\
  (forallb is_digit ds = true ->
     let v := dval 10 (map cval ds) in
     (sg = [] -> (v < 2 ^ BINT_BITS / 2 -> exists x, bn_from_text ds = TInt x /\ wf x /\ uval x = v /\ sval x = v) /\
                 (2 ^ BINT_BITS / 2 <= v -> bn_from_text ds = TFloat)) /\
     (sg <> [] -> exists x, bn_from_text (sg ++ ds) = TInt x /\ wf x /\ uval x = (sign_val sg * v) mod 2 ^ BINT_BITS)).
Proof. exact from_text_correct. Qed.
Print Assumptions C17_literal_text_exact.

(* a text with a binary / hexadecimal prefix that the literal pattern does not match is an error ('malformed ... number').
   By itself this is the model's branch read off (definitional); which texts those are is C17_literal_split_exact, and
   C17_literal_malformed_shape puts the two together. *)
Theorem C17_literal_malformed_exact : forall s,
  (has_prefix 98 66 s = true -> split_bin s = None -> bn_from_text s = TMalformed) /\
  (has_prefix 98 66 s = false -> has_prefix 120 88 s = true -> split_hex s = None -> bn_from_text s = TMalformed).
Proof. exact from_text_malformed. Qed.
Print Assumptions C17_literal_malformed_exact.

Theorem C17_literal_malformed_shape : forall s,
  (has_prefix 98 66 s = true -> (forall neg int frac e, ~ lit_shape is_bindigit 98 66 s neg int frac e) -> bn_from_text s = TMalformed) /\
  (has_prefix 98 66 s = false -> has_prefix 120 88 s = true ->
     (forall neg int frac e, ~ lit_shape is_hexdigit 120 88 s neg int frac e) -> bn_from_text s = TMalformed).
Proof. exact from_text_malformed_shape. Qed.
Print Assumptions C17_literal_malformed_shape.

(* Tripwire only.  Under the other policy (assertion on the second result, lpeglabel's truthy failure label) the model does
   not claim an error for the refused text "0x3 ": it answers TOther, "not modelled" (the code went on to tonumber(v) and
   returned 3.0, which the correspondence run observes after a revert: implementation 'float', oracle 'raises').  One
   instance; the content is that C17_literal_malformed_exact/_shape are false for bn_from_text_pol false. *)
Theorem C17_literal_match_check_needed :
  bn_from_text_pol false [48; 120; 51; 32] <> TMalformed /\ split_hex [48; 120; 51; 32] = None.
Proof. exact literal_check_neg_needed. Qed.
Print Assumptions C17_literal_match_check_needed.
