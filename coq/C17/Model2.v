(* Executable model of bint.lua, part 2: predicates, abs/max/min, bwrap, rotations, the division
   family, ipow/upowmod.  Same conventions as Model.v.  Lua run-time errors are values of [berr]:
   EDivZero ("attempt to divide by zero" asserts and the VM's n//0), EDivOverflow (tdivmod's
   assert), ENil (arithmetic on nil: findleftbit of zero), EFuel (fuel of a modelled loop ran
   out; proved unreachable), ENone (not an error: the function returns nil, e.g. invalid base or
   malformed digit string). *)
From C17 Require Export Model.
Local Open Scope Z_scope.

Inductive berr := EDivZero | EDivOverflow | ENil | EFuel | ENone.
Inductive res (A : Type) := Ok (a : A) | Err (e : berr).
Arguments Ok {A} a.
Arguments Err {A} e.

Definition biszero (x : bint) : bool := forallb (fun w => w =? 0) x.
Definition bisone (x : bint) : bool :=
  match x with [] => false | a :: r => (a =? 1) && forallb (fun w => w =? 0) r end.
Definition bisminusone (x : bint) : bool := forallb (fun w => w =? BINT_WORDMAX) x.
Definition biseven (x : bint) : bool := lband (hd 0 x) 1 =? 0.
Definition bisodd (x : bint) : bool := lband (hd 0 x) 1 =? 1.

Definition bint_mininteger : bint := repeat 0 (BINT_SIZE - 1) ++ [BINT_WORDMSB].
Definition bint_maxinteger : bint := repeat BINT_WORDMAX (BINT_SIZE - 1) ++ [lbxor BINT_WORDMAX BINT_WORDMSB].

Definition babs (x : bint) : bint := if isneg x then bunm x else x.
(* bint_new(ix > iy and ix or iy): ix > iy is __lt(iy, ix) *)
Definition bmax (x y : bint) : bint := if blt y x then x else y.
Definition bmin (x y : bint) : bint := if blt x y then x else y.

(* bwrap(x, y): y <= 0 -> 0; y < BITS -> x & ((1 << y) - 1); else x *)
Definition bwrap (x : bint) (y : Z) : option bint :=
  if y <=? 0 then Some bint_zero
  else if y <? BINT_BITS then
    match bshl bint_one y with Some s => Some (band x (bdec s)) | None => None end
  else Some x.

(* brol / bror (as repaired in /repo: "fix: bint rotations reduce the count modulo the bit width"):
     y = y % BINT_BITS; if y ~= 0 then return (x << y) | (x >> (BINT_BITS - y)) end; return x
   BINT_BITS is a non-zero constant, so the Lua floor modulo never raises (lmod y BINT_BITS = Some (y mod BINT_BITS)). *)
Definition bor_opt (a b : option bint) : option bint :=
  match a, b with Some u, Some v => Some (bor u v) | _, _ => None end.
Definition imod_bits (y : Z) : Z := y mod BINT_BITS.
Definition brol_pos (x : bint) (y : Z) : option bint := bor_opt (bshl x y) (bshr x (lsub BINT_BITS y)).
Definition bror_pos (x : bint) (y : Z) : option bint := bor_opt (bshr x y) (bshl x (lsub BINT_BITS y)).
(* the policy is scraped (Gen.rot_reduces_count): true = the repaired code above, false = the code before the
   repair, which branched on the sign of the count:
     if y > 0 then return (x << y) | (x >> (BITS - y))
     elseif y < 0 then if y ~= mininteger then return x:bror(-y) else <results discarded> end end; return x *)
Definition brol_pol (reduce : bool) (x : bint) (y : Z) : option bint :=
  if reduce then (let y1 := imod_bits y in if y1 =? 0 then Some x else brol_pos x y1)
  else if 0 <? y then brol_pos x y
  else if y <? 0 then (if y =? minint then Some x else bror_pos x (lneg y))
  else Some x.
Definition bror_pol (reduce : bool) (x : bint) (y : Z) : option bint :=
  if reduce then (let y1 := imod_bits y in if y1 =? 0 then Some x else bror_pos x y1)
  else if 0 <? y then bror_pos x y
  else if y <? 0 then (if y =? minint then Some x else brol_pos x (lneg y))
  else Some x.
Definition brol := brol_pol rot_reduces_count.
Definition bror := bror_pol rot_reduces_count.

(* ---- sudivmod: divide by one word, limbs from the most significant ---- *)
Fixpoint sudiv_loop (rn : list Z) (deno carry rema : Z) : option (list Z * Z) :=
  match rn with
  | [] => Some ([], rema)
  | w :: r =>
      let c := lbor carry w in
      match lidiv c deno, lmod c deno with
      | Some q, Some m =>
          match sudiv_loop r deno (lshl m BINT_WORDBITS) m with
          | Some (qs, rm) => Some (q :: qs, rm)
          | None => None
          end
      | _, _ => None
      end
  end.
Definition sudivmod (nume : bint) (deno : Z) : option (bint * Z) :=
  match sudiv_loop (rev nume) deno 0 0 with
  | Some (qs, rm) => Some (rev qs, rm)
  | None => None
  end.

(* ---- findleftbit ---- *)
Fixpoint bitlen_loop (fuel : nat) (v j : Z) : option Z :=
  match fuel with
  | O => None
  | S f => let v' := lshr v 1 in let j' := ladd j 1 in
           if v' =? 0 then Some j' else bitlen_loop f v' j'
  end.
(* rx: limbs from the most significant; the index of the head is its length *)
Fixpoint findleft_rev (rx : list Z) : res (Z * nat) :=
  match rx with
  | [] => Err ENil
  | v :: r =>
      let i := S (length r) in
      if v =? 0 then findleft_rev r
      else match bitlen_loop 64 v 0 with
           | None => Err EFuel
           | Some j => Ok (lsub (ladd (lmul (lsub (Z.of_nat i) 1) BINT_WORDBITS) j) 1, i)
           end
  end.
Definition findleftbit (x : bint) : res (Z * nat) := findleft_rev (rev x).

(* ---- udivmod main loop ---- *)
Fixpoint strip_size (deno : bint) (d : nat) : nat :=
  match d with
  | O => O
  | S d' => if nthz deno d' =? 0 then strip_size deno d' else d
  end.

(* quot[bit // W + 1] |= 1 << (bit % W) *)
Definition set_bit (q : bint) (bit : Z) : bint :=
  let i := Z.to_nat (idiv_wb bit) in
  firstn i q ++ lbor (nthz q i) (lshl 1 (imod_wb bit)) :: skipn (S i) q.

(* n = bit + 1 iterations remain; returns (quot, nume) *)
Fixpoint udiv_loop (n : nat) (numesize : nat) (nume deno quot : bint) (denosize : nat) : bint * bint :=
  match n with
  | O => (quot, nume)
  | S n' =>
      let bit := Z.of_nat n' in
      let size := Nat.max numesize denosize in
      (* le: deno[1..size] <= nume[1..size], compared from the top *)
      let le := cmp_msb (rev (firstn size deno)) (rev (firstn size nume)) true in
      let nume' := if le then sub_loop (firstn size nume) (firstn size deno) 0 ++ skipn size nume else nume in
      let quot' := if le then set_bit quot bit else quot in
      (* shift the live part of the denominator right by one bit *)
      let deno' := shr_small 1 (firstn denosize deno) ++ skipn denosize deno in
      let lastw := nthz deno' (denosize - 1) in
      if lastw =? 0 then
        let ds := strip_size deno' denosize in
        if (ds =? 0)%nat then (quot', nume') else udiv_loop n' numesize nume' deno' quot' ds
      else udiv_loop n' numesize nume' deno' quot' denosize
  end.

Definition udivmod (x y : bint) : res (bint * bint) :=
  let ishighzero := forallb (fun w => w =? 0) (tl y) in
  let low := hd 0 y in
  if ishighzero && (low =? 0) then Err EDivZero
  else if ishighzero && (low =? 1) then Ok (x, bint_zero)
  else if ishighzero && (low <=? lsub BINT_WORDMSB 1) then
    match sudivmod x low with
    | Some (q, rema) => Ok (q, fromuinteger rema)
    | None => Err EDivZero
    end
  else if ult x y then Ok (bint_zero, x)
  else
    match findleftbit y with
    | Err e => Err e
    | Ok (denolbit, _) =>
        match findleftbit x with
        | Err e => Err e
        | Ok (numelbit, numesize) =>
            let bit := lsub numelbit denolbit in
            match bshl y bit with
            | None => Err EFuel
            | Some deno => Ok (udiv_loop (Z.to_nat (bit + 1)) numesize x deno bint_zero numesize)
            end
        end
    end.

Definition udiv (x y : bint) : res bint := match udivmod x y with Ok (q, _) => Ok q | Err e => Err e end.
Definition umod (x y : bint) : res bint := match udivmod x y with Ok (_, r) => Ok r | Err e => Err e end.

(* ---- tdivmod: truncating; asserts no overflow, then divides the absolute values ---- *)
Definition tdivmod (x y : bint) : res (bint * bint) :=
  if beq x bint_mininteger && bisminusone y then Err EDivOverflow
  else match udivmod (babs x) (babs y) with
       | Err e => Err e
       | Ok (q, r) =>
           Ok (if xorb (isneg x) (isneg y) then bunm q else q, if isneg x then bunm r else r)
       end.

(* ---- idivmod: floor ---- *)
Definition idivmod (x y : bint) : res (bint * bint) :=
  let nn := isneg x in
  let dn := isneg y in
  match udivmod (if nn then bunm x else x) (if dn then bunm y else y) with
  | Err e => Err e
  | Ok (q, r) =>
      if negb (Bool.eqb nn dn) then
        let q1 := bunm q in
        if negb (biszero r) then
          Ok (bdec q1,
              if nn && negb dn then badd (bunm r) y
              else if dn && negb nn then badd r y else r)
        else Ok (q1, r)
      else if nn then Ok (q, bunm r) else Ok (q, r)
  end.

(* __idiv: the same quotient; the remainder is returned unadjusted (second result, unused by //) *)
Definition bidiv (x y : bint) : res bint :=
  let nn := isneg x in
  let dn := isneg y in
  match udivmod (if nn then bunm x else x) (if dn then bunm y else y) with
  | Err e => Err e
  | Ok (q, r) =>
      if negb (Bool.eqb nn dn) then
        let q1 := bunm q in
        if negb (biszero r) then Ok (bdec q1) else Ok q1
      else Ok q
  end.
Definition bmod (x y : bint) : res bint := match idivmod x y with Ok (_, r) => Ok r | Err e => Err e end.

(* ---- ipow: square and multiply, until y:isone() ---- *)
Fixpoint ipow_loop (fuel : nat) (x y z : bint) : res bint :=
  match fuel with
  | O => Err EFuel
  | S f =>
      let x' := bmul x x in
      let y' := if biseven y then shrone y else shrone (bdec y) in
      let z' := if biseven y then z else bmul x z in
      if bisone y' then Ok (bmul x' z') else ipow_loop f x' y' z'
  end.
Definition ipow (x y : bint) : res bint :=
  if biszero y then Ok bint_one
  else if bisone y then Ok x
  else ipow_loop (S (Z.to_nat BINT_BITS)) x y bint_one.

(* ---- upowmod (as repaired in /repo: "fix: bint.upowmod is exact for every modulus") ---- *)
(* local uaddmod(a, b, m): (a + b) mod m for unsigned a, b < m; no intermediate exceeds m *)
Definition uaddmod (a b m : bint) : bint :=
  let mb := bsub m b in
  if ult a mb then badd a b else bsub a mb.
(* (b[(i // WORDBITS) + 1] >> (i % WORDBITS)) & 1 == 1 *)
Definition test_bit (b : bint) (i : Z) : bool :=
  lband (lshr (nthz b (Z.to_nat (idiv_wb i))) (imod_wb i)) 1 =? 1.
(* local umulmod(a, b, m): for i=BINT_BITS-1,0,-1: r = 2r mod m; if bit i of b then r = r + a mod m *)
Fixpoint umulmod_loop (n : nat) (a b m r : bint) : bint :=
  match n with
  | O => r
  | S n' =>
      let r1 := uaddmod r r m in
      let r2 := if test_bit b (Z.of_nat n') then uaddmod r1 a m else r1 in
      umulmod_loop n' a b m r2
  end.
Definition umulmod (a b m : bint) : bint := umulmod_loop (Z.to_nat BINT_BITS) a b m bint_zero.

(* the policy is scraped (Gen.upowmod_mulmod): true = products through umulmod (repaired code), false = the code
   before the repair: bint_umod(a * b, m), the product formed in BITS bits first *)
Definition mulmod_pol (mulmod : bool) (a b m : bint) : res bint :=
  if mulmod then Ok (umulmod a b m) else umod (bmul a b) m.
Fixpoint upowmod_loop (mulmod : bool) (fuel : nat) (x y z m : bint) : res bint :=
  match fuel with
  | O => Err EFuel
  | S f =>
      if biszero y then Ok z
      else
        match (if bisodd y then mulmod_pol mulmod z x m else Ok z) with
        | Err e => Err e
        | Ok z' =>
            match mulmod_pol mulmod x x m with
            | Err e => Err e
            | Ok x' => upowmod_loop mulmod f x' (shrone y) z' m
            end
        end
  end.
Definition upowmod_pol (mulmod : bool) (x y m : bint) : res bint :=
  if bisone m then Ok bint_zero
  else match umod x m with
       | Err e => Err e
       | Ok x' => upowmod_loop mulmod (S (Z.to_nat BINT_BITS)) x' y bint_one m
       end.
Definition upowmod := upowmod_pol upowmod_mulmod.

(* bn.compress: to a Lua integer when it fits *)
Definition compress (x : bint) : Z + bint :=
  if ble x (frominteger maxint) && ble (frominteger minint) x then inl (tointeger x) else inr x.
