(* Executable model of lualib/nelua/thirdparty/bint.lua as instantiated by utils/bn.lua
   (bint(160), 32-bit words).  A bint is a little-endian list of BINT_SIZE limbs.
   Each function mirrors the Lua function of the same name, loop for loop; every Lua
   integer operation goes through Base.LuaInt (wrap-around explicit). *)
From Base Require Export LuaInt.
From C17 Require Export Gen.
Local Open Scope Z_scope.

Definition BINT_BITS : Z := bint_bits.
Definition BINT_WORDBITS : Z := word_bits.
Definition BINT_SIZE : nat := Z.to_nat (BINT_BITS / BINT_WORDBITS).
Definition BINT_WORDMAX : Z := lsub (lshl 1 BINT_WORDBITS) 1.
Definition BINT_WORDMSB : Z := lshl 1 (lsub BINT_WORDBITS 1).

Definition bint := list Z.

Definition bint_zero : bint := repeat 0 BINT_SIZE.
Definition bint_one : bint := match BINT_SIZE with O => [] | S n => 1 :: repeat 0 n end.

(* for i=1,BINT_SIZE do n[i] = x & WORDMAX; x = x >> WORDBITS end *)
Fixpoint split_words (n : nat) (x : Z) : bint :=
  match n with
  | O => []
  | S n' => lband x BINT_WORDMAX :: split_words n' (lshr x BINT_WORDBITS)
  end.

Definition fromuinteger (x : Z) : bint :=
  if x =? 1 then bint_one else if x =? 0 then bint_zero else split_words BINT_SIZE x.

(* _inc: stops at the first limb that does not wrap *)
Fixpoint binc (x : bint) : bint :=
  match x with
  | [] => []
  | tmp :: r => let v := lband (ladd tmp 1) BINT_WORDMAX in
                if llt tmp v then v :: r else v :: binc r
  end.

Fixpoint bdec (x : bint) : bint :=
  match x with
  | [] => []
  | tmp :: r => let v := lband (lsub tmp 1) BINT_WORDMAX in
                if lle v tmp then v :: r else v :: bdec r
  end.

Definition bnot (x : bint) : bint := map (fun w => lband (lbnot w) BINT_WORDMAX) x.
Definition bunm (x : bint) : bint := binc (bnot x).

(* math.abs on a Lua integer wraps for mininteger *)
Definition labs (x : Z) : Z := if x <? 0 then lneg x else x.

Definition frominteger (x : Z) : bint :=
  if x =? 1 then bint_one else if x =? 0 then bint_zero else
  if x <? 0 then bunm (split_words BINT_SIZE (labs x)) else split_words BINT_SIZE x.

(* n = n | (x[i] << (WORDBITS*(i-1))) *)
Fixpoint join_words (x : bint) (i : Z) (n : Z) : Z :=
  match x with
  | [] => n
  | w :: r => join_words r (i + 1) (lbor n (lshl w (lmul BINT_WORDBITS i)))
  end.

Definition touinteger (x : bint) : Z := join_words x 0 0.

Definition isneg (x : bint) : bool := negb (lband (last x 0) BINT_WORDMSB =? 0).

Definition tointeger (x : bint) : Z :=
  if isneg x then lneg (join_words (bunm x) 0 0) else join_words x 0 0.

Fixpoint add_loop (xs ys : bint) (carry : Z) : bint :=
  match xs, ys with
  | x :: xs', y :: ys' =>
      let tmp := ladd (ladd x y) carry in
      lband tmp BINT_WORDMAX :: add_loop xs' ys' (lshr tmp BINT_WORDBITS)
  | _, _ => []
  end.
Definition badd (x y : bint) : bint := add_loop x y 0.

Fixpoint sub_loop (xs ys : bint) (borrow : Z) : bint :=
  match xs, ys with
  | x :: xs', y :: ys' =>
      let res := lsub (lsub (ladd x (ladd BINT_WORDMAX 1)) y) borrow in
      lband res BINT_WORDMAX :: sub_loop xs' ys' (lbxor (lshr res BINT_WORDBITS) 1)
  | _, _ => []
  end.
Definition bsub (x y : bint) : bint := sub_loop x y 0.

Definition band (x y : bint) : bint := map (fun p => lband (fst p) (snd p)) (combine x y).
Definition bor (x y : bint) : bint := map (fun p => lbor (fst p) (snd p)) (combine x y).
Definition bxor (x y : bint) : bint := map (fun p => lbxor (fst p) (snd p)) (combine x y).

Fixpoint beq (x y : bint) : bool :=
  match x, y with
  | a :: x', b :: y' => if a =? b then beq x' y' else false
  | _, _ => true
  end.

(* for i=BINT_SIZE,1,-1: compare from the most significant limb; lists given reversed *)
Fixpoint cmp_msb (rx ry : bint) (dflt : bool) : bool :=
  match rx, ry with
  | a :: rx', b :: ry' => if a =? b then cmp_msb rx' ry' dflt else llt a b
  | _, _ => dflt
  end.
Definition ult (x y : bint) : bool := cmp_msb (rev x) (rev y) false.
Definition ule (x y : bint) : bool := cmp_msb (rev x) (rev y) true.
Definition blt (x y : bint) : bool :=
  let xn := isneg x in let yn := isneg y in
  if Bool.eqb xn yn then cmp_msb (rev x) (rev y) false else xn && negb yn.
Definition ble (x y : bint) : bool :=
  let xn := isneg x in let yn := isneg y in
  if Bool.eqb xn yn then cmp_msb (rev x) (rev y) true else xn && negb yn.

(* __mul: window [s,e] of limbs where either operand is non-zero, schoolbook product
   truncated at BINT_SIZE limbs; a = ix[i]*iy[j] may exceed 2^63 and go negative, the
   following & and logical >> still extract the right bits. *)
Fixpoint mul_addk (z : bint) (a carry : Z) : bint :=
  (* for k=..,BINT_SIZE over the tail z *)
  match z with
  | [] => []
  | zk :: r => let tmp := ladd (ladd zk (lband a BINT_WORDMAX)) carry in
               lband tmp BINT_WORDMAX :: mul_addk r (lshr a BINT_WORDBITS) (lshr tmp BINT_WORDBITS)
  end.

Definition mul_acc (z : bint) (off : nat) (a : Z) : bint :=
  if a =? 0 then z else firstn off z ++ mul_addk (skipn off z) a 0.

Definition nthz (l : bint) (i : nat) : Z := nth i l 0.

(* indices are 1-based as in Lua *)
Definition mul_window (x y : bint) : nat * nat :=
  fold_left (fun se i =>
               if negb (nthz x (i - 1) =? 0) || negb (nthz y (i - 1) =? 0)
               then (Nat.min (fst se) i, Nat.max (snd se) i) else se)
            (seq 1 BINT_SIZE) (S BINT_SIZE, O).

Definition bmul (x y : bint) : bint :=
  let '(s, e) := mul_window x y in
  fold_left (fun z i =>
    fold_left (fun z j => mul_acc z (i + j - 2) (lmul (nthz x (i - 1)) (nthz y (j - 1))))
              (seq s (S (Nat.min (S BINT_SIZE - i) e) - s)) z)
    (seq s (S e - s)) bint_zero.

(* _shlone and the bit loop of __shl are the same loop (y = 1 resp. 0 < y < WORDBITS):
     for i=SIZE,2,-1: x[i] = ((x[i] << y) | (x[i-1] >> (WORDBITS-y))) & WORDMAX;  x[1] = (x[1] << y) & WORDMAX
   descending, so x[i-1] is still the old limb: [prev] carries it along the little-endian list. *)
Fixpoint shl_loop (y : Z) (prev : Z) (x : bint) : bint :=
  match x with
  | [] => []
  | a :: r => lband (lbor (lshl a y) (lshr prev (lsub BINT_WORDBITS y))) BINT_WORDMAX :: shl_loop y a r
  end.
Definition shl_small (y : Z) (x : bint) : bint :=
  match x with
  | [] => []
  | a :: r => lband (lshl a y) BINT_WORDMAX :: shl_loop y a r
  end.
Definition shlone (x : bint) : bint := shl_small 1 x.

(* _shrone / bit loop of __shr: ascending, x[i+1] is still the old limb; the last limb is x[SIZE] >> y *)
Fixpoint shr_small (y : Z) (x : bint) : bint :=
  match x with
  | [] => []
  | [a] => [lshr a y]
  | a :: ((b :: _) as r) =>
      lband (lbor (lshr a y) (lshl b (lsub BINT_WORDBITS y))) BINT_WORDMAX :: shr_small y r
  end.
Definition shrone (x : bint) : bint := shr_small 1 x.

(* _shlwords(n): limbs move up by n, the low n limbs become 0 (n >= SIZE leaves n zero limbs,
   the Lua table then has extra indices; only called with n < SIZE) *)
Definition shlwords (x : bint) (n : nat) : bint := repeat 0 n ++ firstn (BINT_SIZE - n) x.
Definition shrwords (x : bint) (n : nat) : bint :=
  if (n <? BINT_SIZE)%nat then skipn n x ++ repeat 0 n else repeat 0 BINT_SIZE.

(* y // BINT_WORDBITS and y % BINT_WORDBITS: BINT_WORDBITS is a non-zero constant
   (Proofs.wordbits_pos), so the Lua operators never raise; see ProofsBits.idiv_wb_lidiv *)
Definition idiv_wb (y : Z) : Z := wrap64 (y / BINT_WORDBITS).
Definition imod_wb (y : Z) : Z := y mod BINT_WORDBITS.

(* body of __shl after the guards: 0 <= y < BITS *)
Definition shl_pos (x : bint) (y : Z) : bint :=
  let nvals := idiv_wb y in
  let x1 := if nvals =? 0 then x else shlwords x (Z.to_nat nvals) in
  let y1 := if nvals =? 0 then y else lsub y (lmul nvals BINT_WORDBITS) in
  if y1 =? 0 then x1 else shl_small y1 x1.
Definition shr_pos (x : bint) (y : Z) : bint :=
  let nvals := idiv_wb y in
  let x1 := if nvals =? 0 then x else shrwords x (Z.to_nat nvals) in
  let y1 := if nvals =? 0 then y else lsub y (lmul nvals BINT_WORDBITS) in
  if y1 =? 0 then x1 else shr_small y1 x1.

(* if y == math_mininteger or math_abs(y) >= BINT_BITS then return bint_zero() *)
Definition shift_guard (y : Z) : bool := (y =? minint) || (BINT_BITS <=? labs y).

(* __shl and __shr call each other for negative counts (x >> -y); the recursion is at most one
   level deep, fuel 2 is given and None is the (unreachable) exhaustion value *)
Fixpoint shift_fuel (fuel : nat) (left : bool) (x : bint) (y : Z) : option bint :=
  match fuel with
  | O => None
  | S f =>
      if shift_guard y then Some bint_zero
      else if y <? 0 then shift_fuel f (negb left) x (lneg y)
      else Some (if left then shl_pos x y else shr_pos x y)
  end.
Definition bshl (x : bint) (y : Z) : option bint := shift_fuel 2 true x y.
Definition bshr (x : bint) (y : Z) : option bint := shift_fuel 2 false x y.

(* ---------- specification side ---------- *)
Definition Wd : Z := 2 ^ BINT_WORDBITS.
Definition limb_ok (w : Z) : Prop := 0 <= w < Wd.
Definition wf (x : bint) : Prop := length x = BINT_SIZE /\ Forall limb_ok x.
Fixpoint uval (x : bint) : Z :=
  match x with [] => 0 | w :: r => w + Wd * uval r end.
Definition Wfull : Z := 2 ^ BINT_BITS.
Definition sval (x : bint) : Z :=
  let u := uval x in if u <? Wfull / 2 then u else u - Wfull.
