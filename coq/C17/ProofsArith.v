(* _inc, _dec, _bnot, _unm *)
From C17 Require Import Model Proofs ProofsLib.
From Coq Require Import ZifyBool.
Local Open Scope Z_scope.
Ltac Zify.zify_post_hook ::= Z.div_mod_to_equations.

(* ---- _inc ---- *)
Lemma binc_spec x : Forall limb_ok x ->
  Forall limb_ok (binc x) /\ length (binc x) = length x /\
  uval (binc x) = (uval x + 1) mod Wd ^ Z.of_nat (length x).
Proof.
  induction 1 as [|w r Hw Hr IH]; cbn [binc length uval].
  - change (Z.of_nat 0) with 0. rewrite Z.pow_0_r, Z.mod_1_r. auto.
  - pose proof Wd_le32. pose proof Wd_ge2. pose proof (Wdpow_pos (length r)) as HP.
    pose proof (uval_range r Hr) as Hur. unfold limb_ok in Hw.
    rewrite ladd_exact by i64. rewrite band_wordmax. rewrite Wdpow_S.
    destruct IH as (I1 & I2 & I3).
    unfold llt. destruct (w <? (w + 1) mod Wd) eqn:E.
    + assert (w + 1 < Wd).
      { destruct (Z.eq_dec (w + 1) Wd) as [E1|]; [|lia]. rewrite E1, Z.mod_same in E by lia. lia. }
      rewrite Z.mod_small by lia.
      split; [constructor; [unfold limb_ok; lia | exact Hr]|]. split; [reflexivity|].
      cbn [uval]. replace (w + Wd * uval r + 1) with ((w + 1) + Wd * uval r) by ring.
      rewrite mod_cons by lia. rewrite (Z.mod_small (uval r)) by lia. reflexivity.
    + assert (w + 1 = Wd).
      { destruct (Z.eq_dec (w + 1) Wd) as [E1|]; [lia|]. rewrite Z.mod_small in E by lia. lia. }
      replace ((w + 1) mod Wd) with 0 by (rewrite H1, Z.mod_same; lia).
      split; [constructor; [unfold limb_ok; lia | exact I1]|]. split; [cbn [length]; congruence|].
      cbn [uval]. rewrite I3.
      replace (w + Wd * uval r + 1) with (0 + Wd * (uval r + 1)) by lia.
      rewrite mod_cons by lia. reflexivity.
Qed.

Theorem inc_correct x : wf x -> wf (binc x) /\ uval (binc x) = (uval x + 1) mod Wfull.
Proof.
  intros [L F]. destruct (binc_spec x F) as (H1 & H2 & H3).
  split; [split; [congruence | exact H1]|]. rewrite H3, L, Wfull_eq. reflexivity.
Qed.

(* ---- _dec ---- *)
Lemma bdec_spec x : Forall limb_ok x ->
  Forall limb_ok (bdec x) /\ length (bdec x) = length x /\
  uval (bdec x) = (uval x - 1) mod Wd ^ Z.of_nat (length x).
Proof.
  induction 1 as [|w r Hw Hr IH]; cbn [bdec length uval].
  - change (Z.of_nat 0) with 0. rewrite Z.pow_0_r, Z.mod_1_r. auto.
  - pose proof Wd_le32. pose proof Wd_ge2. pose proof (Wdpow_pos (length r)) as HP.
    pose proof (uval_range r Hr) as Hur. unfold limb_ok in Hw.
    rewrite lsub_exact by i64. rewrite band_wordmax. rewrite Wdpow_S.
    destruct IH as (I1 & I2 & I3).
    unfold lle. destruct ((w - 1) mod Wd <=? w) eqn:E.
    + assert (1 <= w).
      { destruct (Z.eq_dec w 0) as [E1|]; [|lia]. subst w.
        replace ((0 - 1) mod Wd) with (Wd - 1) in E; [lia|].
        replace (0 - 1) with (Wd - 1 + (-1) * Wd) by ring. rewrite Z.mod_add, Z.mod_small by lia. reflexivity. }
      rewrite Z.mod_small by lia.
      split; [constructor; [unfold limb_ok; lia | exact Hr]|]. split; [reflexivity|].
      cbn [uval]. replace (w + Wd * uval r - 1) with ((w - 1) + Wd * uval r) by ring.
      rewrite mod_cons by lia. rewrite (Z.mod_small (uval r)) by lia. reflexivity.
    + assert (w = 0).
      { destruct (Z.eq_dec w 0) as [E1|]; [lia|]. rewrite Z.mod_small in E by lia. lia. }
      subst w.
      replace ((0 - 1) mod Wd) with (Wd - 1)
        by (replace (0 - 1) with (Wd - 1 + (-1) * Wd) by ring; rewrite Z.mod_add, Z.mod_small by lia; reflexivity).
      split; [constructor; [unfold limb_ok; lia | exact I1]|]. split; [cbn [length]; congruence|].
      cbn [uval]. rewrite I3.
      replace (0 + Wd * uval r - 1) with ((Wd - 1) + Wd * (uval r - 1)) by ring.
      rewrite mod_cons by lia. reflexivity.
Qed.

Theorem dec_correct x : wf x -> wf (bdec x) /\ uval (bdec x) = (uval x - 1) mod Wfull.
Proof.
  intros [L F]. destruct (bdec_spec x F) as (H1 & H2 & H3).
  split; [split; [congruence | exact H1]|]. rewrite H3, L, Wfull_eq. reflexivity.
Qed.

(* ---- _bnot ---- *)
Lemma bnot_limb w : limb_ok w -> lband (lbnot w) BINT_WORDMAX = Wd - 1 - w.
Proof.
  intros Hw. unfold limb_ok in Hw. rewrite band_wordmax. unfold lbnot, Z.lnot, Z.pred.
  replace (- w + -1) with ((Wd - 1 - w) + (-1) * Wd) by ring.
  pose proof Wd_pos. rewrite Z.mod_add, Z.mod_small by lia. reflexivity.
Qed.

Lemma bnot_spec x : Forall limb_ok x ->
  Forall limb_ok (bnot x) /\ length (bnot x) = length x /\
  uval (bnot x) = Wd ^ Z.of_nat (length x) - 1 - uval x.
Proof.
  unfold bnot. induction 1 as [|w r Hw Hr IH]; cbn [map length uval].
  - change (Z.of_nat 0) with 0. rewrite Z.pow_0_r. auto.
  - destruct IH as (I1 & I2 & I3). rewrite bnot_limb by auto. unfold limb_ok in Hw.
    split; [constructor; [unfold limb_ok; lia | exact I1]|]. split; [congruence|].
    rewrite I3, Wdpow_S. ring.
Qed.

Theorem bnot_correct x : wf x ->
  wf (bnot x) /\ uval (bnot x) = Wfull - 1 - uval x /\ uval (bnot x) = Z.lnot (uval x) mod Wfull.
Proof.
  intros [L F]. destruct (bnot_spec x F) as (H1 & H2 & H3).
  split; [split; [congruence | exact H1]|]. rewrite H3, L, <- Wfull_eq. split; [reflexivity|].
  pose proof (wf_range x (conj L F)). unfold Z.lnot, Z.pred.
  replace (- uval x + -1) with ((Wfull - 1 - uval x) + (-1) * Wfull) by ring.
  rewrite Z.mod_add, Z.mod_small by lia. reflexivity.
Qed.

(* ---- _unm ---- *)
Theorem unm_correct x : wf x -> wf (bunm x) /\ uval (bunm x) = (- uval x) mod Wfull.
Proof.
  intros Hx. unfold bunm. destruct (bnot_correct x Hx) as (W1 & V1 & _).
  destruct (inc_correct (bnot x) W1) as (W2 & V2). split; [exact W2|].
  rewrite V2, V1. pose proof Wfull_pos.
  replace (Wfull - 1 - uval x + 1) with (- uval x + 1 * Wfull) by ring.
  rewrite Z.mod_add by lia. reflexivity.
Qed.

