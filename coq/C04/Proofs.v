From Base Require Import CInt.
From C04 Require Import Gen Model Tactics ProofsNarrow.
Local Open Scope Z_scope.

(* ================================================================ tie to the generated C (T) *)

Definition table_matches {A} (gen : A -> option cfun) (tbl : list (A * cfun)) : bool :=
  forallb (fun '(k, f) => match gen k with Some g => cfun_eqb g f && cfun_ok f | None => false end) tbl.

Lemma table_matches_spec {A} (gen : A -> option cfun) tbl :
  table_matches gen tbl = true -> forall k f, In (k, f) tbl -> gen k = Some f /\ cfun_ok f = true.
Proof.
  unfold table_matches. rewrite forallb_forall. intros H k f Hin. specialize (H _ Hin). cbn in H.
  destruct (gen k) as [g|]; [|discriminate]. apply andb_prop in H. destruct H as [H1 H2].
  apply cfun_eqb_eq in H1. subst. auto.
Qed.

Lemma narrow_table_ok : table_matches (fun '(s, d) => narrow_fn s d) narrow_table = true.
Proof. vm_compute. reflexivity. Qed.
Lemma bounds_table_ok : table_matches (fun t => Some (bounds_fn t)) bounds_table = true.
Proof. vm_compute. reflexivity. Qed.
Lemma idiv_table_ok : table_matches (fun t => Some (idiv_fn t true)) idiv_table = true.
Proof. vm_compute. reflexivity. Qed.
Lemma imod_table_ok : table_matches (fun t => Some (imod_fn t true)) imod_table = true.
Proof. vm_compute. reflexivity. Qed.
Lemma deref_ok : cfun_eqb deref_fn deref_emitted && cfun_ok deref_emitted = true.
Proof. vm_compute. reflexivity. Qed.

(* every type occurring in the tables is one of the eight well-formed types *)
Lemma tables_wf :
  forallb (fun '(s, d, _) => wf_ityb s && wf_ityb d) narrow_table &&
  forallb (fun '(t, _) => wf_ityb t) bounds_table &&
  forallb (fun '(t, _) => wf_ityb t && sgn t) idiv_table &&
  forallb (fun '(t, _) => wf_ityb t && sgn t) imod_table = true.
Proof. vm_compute. reflexivity. Qed.

(* the compiler's own is_type_inrange agrees with the model on every pair it was asked about *)
Lemma inrange_table_ok :
  forallb (fun '(d, s, b) => Bool.eqb (type_inrange d s) b && wf_ityb d && wf_ityb s) inrange_table = true.
Proof. vm_compute. reflexivity. Qed.

(* a narrow helper is emitted for a pair exactly when the model says a check is needed
   (the driver converts every pair at a checked site) *)
Lemma narrow_emitted_iff_needed :
  forallb (fun '(d, s, b) =>
    Bool.eqb (existsb (fun '(s', d', _) => ity_eqb s s' && ity_eqb d d') narrow_table) (negb b)) inrange_table = true.
Proof. vm_compute. reflexivity. Qed.

Fixpoint sites_eqb (a b : list (Z * Z * Z * Z)) : bool :=
  match a, b with
  | [], [] => true
  | (v, o, f, u) :: a', (v', o', f', u') :: b' =>
      (v =? v') && (o =? o') && (f =? f') && (u =? u') && sites_eqb a' b'
  | _, _ => false
  end.
Lemma sites_eqb_eq a : forall b, sites_eqb a b = true -> a = b.
Proof.
  induction a as [|[[[v o] f] u] a IH]; intros [|[[[v' o'] f'] u'] b]; cbn; try discriminate; [reflexivity|].
  intros H. repeat (apply andb_prop in H; let H' := fresh in destruct H as [H H']).
  f_equal; [|auto]. repeat f_equal; apply Z.eqb_eq; assumption.
Qed.
Lemma conv_sites_ok : conv_sites = expected_sites.
Proof. apply sites_eqb_eq. vm_compute. reflexivity. Qed.

Lemma guards_ok :
  cexpr_eqb guard_span_at (lib_guard SpanAt) && cexpr_eqb guard_vector_at (lib_guard VecAt) &&
  cexpr_eqb guard_vector_insert (lib_guard VecInsert) && cexpr_eqb guard_vector_remove (lib_guard VecRemove) &&
  cexpr_eqb guard_vector_pop (lib_guard VecPop) && cexpr_eqb guard_sequence_at (lib_guard SeqAt) &&
  cexpr_eqb guard_sequence_insert (lib_guard SeqInsert) && cexpr_eqb guard_sequence_remove (lib_guard SeqRemove) &&
  cexpr_eqb guard_sequence_pop (lib_guard SeqPop) && cexpr_eqb guard_string_at (lib_guard StrAt) &&
  match lib_pre SeqAt with Some p => cexpr_eqb guard_sequence_at_pre p | None => false end = true.
Proof. vm_compute. reflexivity. Qed.

(* ================================================================ bounds, deref *)

Lemma bounds_fn_correct m t i len : wf_ity t -> in_range t i -> in_range USIZE len ->
  ccall m (bounds_fn t) [i; len] = if (0 <=? i) && (i <? len) then Oval i else Opanic MSG_BOUNDS.
Proof.
  intros Ht Hi Hl. apply in_rangeb_spec in Hi. apply in_rangeb_spec in Hl.
  unfold USIZE, USIZE_BITS in *. ity_cases t Ht; clear Ht; destruct m.
  all: csolve.
  all: cfinish.
Qed.

Lemma deref_fn_correct m p : in_range U64 p ->
  ccall m deref_fn [p] = if p =? 0 then Opanic MSG_DEREF else Oval p.
Proof.
  intros Hp. apply in_rangeb_spec in Hp. destruct m. all: csolve. all: cfinish.
Qed.

(* ================================================================ checked // and % *)

Ltac Zify.zify_post_hook ::= Z.to_euclidean_division_equations.

Lemma floor_from_trunc a b : b <> 0 ->
  a / b = if Z.quot a b * b =? a then Z.quot a b
          else Z.quot a b - (if Bool.eqb (a <? 0) (b <? 0) then 0 else 1).
Proof.
  intros Hb. destruct (Z.quot a b * b =? a) eqn:E; destruct (a <? 0) eqn:Ea; destruct (b <? 0) eqn:Eb;
    cbn [Bool.eqb]; nia.
Qed.

Lemma quot_bounds a b : b <> 0 ->
  Z.abs (Z.quot a b) <= Z.abs a /\ Z.abs (Z.quot a b * b) <= Z.abs a.
Proof.
  intros Hb.
  assert (E : Z.abs (Z.quot a b) = Z.abs a / Z.abs b).
  { rewrite <- Z.quot_abs by exact Hb. apply Z.quot_div_nonneg; lia. }
  rewrite Z.abs_mul, E.
  pose proof (Z.mul_div_le (Z.abs a) (Z.abs b) ltac:(lia)).
  split; [|lia].
  apply Z.div_le_upper_bound; nia.
Qed.

(* apart from b = -1 a truncated quotient never exceeds max(a, |a|/2): it stays in range *)
Lemma quot_upper a b : b <> 0 -> b <> -1 -> Z.quot a b <= Z.max a (Z.abs a / 2).
Proof.
  intros Hb Hb1.
  assert (E : Z.abs (Z.quot a b) = Z.abs a / Z.abs b).
  { rewrite <- Z.quot_abs by exact Hb. apply Z.quot_div_nonneg; lia. }
  destruct (Z.eq_dec b 1) as [-> | Hb2]; [rewrite Z.quot_1_r; lia|].
  assert (Z.abs a / Z.abs b <= Z.abs a / 2) by (apply Z.div_le_compat_l; lia).
  lia.
Qed.

(* sign of a xor: negative iff exactly one operand is negative *)
Lemma lxor_neg a b : (Z.lxor a b <? 0) = negb (Bool.eqb (a <? 0) (b <? 0)).
Proof.
  pose proof (Z.lxor_nonneg a b) as H.
  destruct (Z.lxor a b <? 0) eqn:E, (a <? 0) eqn:Ea, (b <? 0) eqn:Eb; cbn; try reflexivity; exfalso; lia.
Qed.

(* floor modulo from the truncated remainder, as nelua_imod_ computes it *)
Lemma mod_from_rem a b : b <> 0 ->
  a mod b = if negb (Z.rem a b =? 0) && (Z.lxor a b <? 0) then Z.rem a b + b else Z.rem a b.
Proof.
  intros Hb. rewrite lxor_neg.
  pose proof (Z.rem_bound_abs a b Hb) as B. pose proof (Z.rem_sign_mul a b Hb) as S.
  pose proof (Z.quot_rem' a b) as Q.
  assert (HR3 : a = 0 -> Z.rem a b = 0) by (intros ->; apply Z.rem_0_l; exact Hb).
  set (R := Z.rem a b) in *. set (q := Z.quot a b) in *. clearbody R q.
  assert (HR1 : a < 0 -> R <= 0) by (intros; nia).
  assert (HR2 : 0 < a -> 0 <= R) by (intros; nia).
  clear S.
  destruct (R =? 0) eqn:E; destruct (a <? 0) eqn:Ea; destruct (b <? 0) eqn:Eb;
    cbn [Bool.eqb negb andb]; symmetry;
    first [ apply Z.mod_unique with (q := q); lia
          | apply Z.mod_unique with (q := q - 1); lia ].
Qed.

(* x lies in [-2^n, 2^n) iff its bits from n upwards are all equal *)
Lemma range_shiftr n x : 0 <= n -> (- 2 ^ n <= x < 2 ^ n <-> (Z.shiftr x n = 0 \/ Z.shiftr x n = -1)).
Proof.
  intros Hn. rewrite Z.shiftr_div_pow2 by lia.
  assert (HP : 0 < 2 ^ n) by (apply Z.pow_pos_nonneg; lia).
  generalize dependent (2 ^ n). intros P HP. split; intros H; nia.
Qed.

Lemma lxor_range n a b : 0 <= n -> - 2 ^ n <= a < 2 ^ n -> - 2 ^ n <= b < 2 ^ n ->
  - 2 ^ n <= Z.lxor a b < 2 ^ n.
Proof.
  intros Hn Ha Hb. apply range_shiftr in Ha, Hb; try exact Hn. apply range_shiftr; [exact Hn|].
  rewrite Z.shiftr_lxor. destruct Ha as [-> | ->], Hb as [-> | ->]; cbn; auto.
Qed.

Lemma lxor_range_signed t a b : wf_ity t -> sgn t = true -> in_range t a -> in_range t b ->
  in_range t (Z.lxor a b).
Proof.
  intros Ht Hs. ity_cases t Ht; try discriminate Hs; clear Hs.
  - pose proof (lxor_range 7 a b ltac:(lia)). ity_norm. change (2 ^ 7) with 128 in *. lia.
  - pose proof (lxor_range 15 a b ltac:(lia)). ity_norm. change (2 ^ 15) with 32768 in *. lia.
  - pose proof (lxor_range 31 a b ltac:(lia)). ity_norm. change (2 ^ 31) with 2147483648 in *. lia.
  - pose proof (lxor_range 63 a b ltac:(lia)). ity_norm. change (2 ^ 63) with 9223372036854775808 in *. lia.
Qed.

Ltac Zify.zify_post_hook ::= Z.div_mod_to_equations.

Lemma rem_bounds a b : b <> 0 -> Z.abs (Z.rem a b) < Z.abs b /\ Z.abs (Z.rem a b) <= Z.abs a.
Proof.
  intros Hb. split; [apply Z.rem_bound_abs; exact Hb|].
  rewrite <- Z.rem_abs by exact Hb. apply Z.rem_le; lia.
Qed.

(* q*b lies between 0 and a *)
Lemma quot_mul_between a b : b <> 0 ->
  (0 <= Z.quot a b * b <= a) \/ (a <= Z.quot a b * b <= 0).
Proof.
  intros Hb. pose proof (rem_bounds a b Hb) as [_ R2]. pose proof (Z.rem_sign_mul a b Hb) as S.
  pose proof (Z.quot_rem' a b) as Q. rewrite (Z.mul_comm b) in Q.
  set (R := Z.rem a b) in *. set (p := Z.quot a b * b) in *. clearbody R p.
  assert (a < 0 -> R <= 0) by (intros; nia). assert (0 < a -> 0 <= R) by (intros; nia). lia.
Qed.

Ltac range_facts T :=
  expose_ranges; unfold T in *; expose_ranges; lia.

(* nelua_assert_idiv_<T> in Gnu mode: "division by zero" iff b = 0, Lua floor division
   (wrapped into T, which only matters for min // -1) otherwise *)
Lemma idiv_fn_correct t a b : wf_ity t -> sgn t = true -> in_range t a -> in_range t b ->
  ccall Gnu (idiv_fn t true) [a; b] = if b =? 0 then Opanic MSG_DIVZERO else Oval (wrap t (a / b)).
Proof.
  intros Ht Hs Ha Hb. apply in_rangeb_spec in Ha. apply in_rangeb_spec in Hb.
  destruct (b =? 0) eqn:B0.
  { ity_cases t Ht; try discriminate Hs; clear Hs. all: csolve. all: cfinish. }
  destruct (b =? -1) eqn:B1.
  { assert (b = -1) as -> by lia. replace (a / -1) with (- a) by (apply Z.div_unique_exact; lia).
    ity_cases t Ht; try discriminate Hs; clear Hs. all: csolve. all: cfinish. }
  rewrite (floor_from_trunc a b) by lia.
  pose proof (quot_bounds a b ltac:(lia)) as [Q1 Q2].
  pose proof (quot_upper a b ltac:(lia) ltac:(lia)) as Q3.
  pose proof (quot_mul_between a b ltac:(lia)) as Q4.
  ity_cases t Ht; try discriminate Hs; clear Hs.
  - assert (in_rangeb I8 (Z.quot a b) = true) by range_facts I8.
    assert (in_rangeb I32 (Z.quot a b) = true) by (unfold I32; range_facts I8).
    assert (in_rangeb I32 (Z.quot a b * b) = true) by (unfold I32; range_facts I8).
    csolve. all: cfinish.
  - assert (in_rangeb I16 (Z.quot a b) = true) by range_facts I16.
    assert (in_rangeb I32 (Z.quot a b) = true) by (unfold I32; range_facts I16).
    assert (in_rangeb I32 (Z.quot a b * b) = true) by (unfold I32; range_facts I16).
    csolve. all: cfinish.
  - assert (in_rangeb I32 (Z.quot a b) = true) by range_facts I32.
    assert (in_rangeb I32 (Z.quot a b * b) = true) by range_facts I32.
    csolve. all: cfinish.
  - assert (in_rangeb I64 (Z.quot a b) = true) by range_facts I64.
    assert (in_rangeb I64 (Z.quot a b * b) = true) by range_facts I64.
    csolve. all: cfinish.
Qed.

(* nelua_assert_imod_<T>: "division by zero" iff b = 0, Lua's floor modulo otherwise *)
Lemma imod_fn_correct t a b : wf_ity t -> sgn t = true -> in_range t a -> in_range t b ->
  ccall Gnu (imod_fn t true) [a; b] = if b =? 0 then Opanic MSG_DIVZERO else Oval (a mod b).
Proof.
  intros Ht Hs Ha Hb.
  pose proof (lxor_range_signed t a b Ht Hs Ha Hb) as Hx. apply in_rangeb_spec in Hx.
  apply in_rangeb_spec in Ha. apply in_rangeb_spec in Hb.
  destruct (b =? 0) eqn:B0.
  { ity_cases t Ht; try discriminate Hs; clear Hs. all: csolve. all: cfinish. }
  destruct (b =? -1) eqn:B1.
  { assert (b = -1) as -> by lia. replace (a mod -1) with 0 by (apply Z.mod_unique with (q := - a); lia).
    ity_cases t Ht; try discriminate Hs; clear Hs. all: csolve. all: cfinish. }
  pose proof (mod_from_rem a b ltac:(lia)) as M.
  assert (Hm : in_rangeb t (a mod b) = true).
  { clear M Hx. ity_cases t Ht; try discriminate Hs; unfold I8, I16, I32, I64 in *; expose_ranges; lia. }
  assert (Hrb : negb (Z.rem a b =? 0) && (Z.lxor a b <? 0) = true -> in_rangeb t (Z.rem a b + b) = true).
  { intros C. rewrite M, C in Hm. exact Hm. }
  rewrite M. clear M Hm.
  pose proof (rem_bounds a b ltac:(lia)) as [R1 R2].
  ity_cases t Ht; try discriminate Hs; clear Hs.
  - assert (in_rangeb I8 (Z.rem a b) = true) by range_facts I8.
    assert (in_rangeb I32 (Z.rem a b) = true) by (unfold I32; range_facts I8).
    assert (in_rangeb I32 (Z.lxor a b) = true) by (unfold I32; range_facts I8).
    csolve. all: cfinish.
  - assert (in_rangeb I16 (Z.rem a b) = true) by range_facts I16.
    assert (in_rangeb I32 (Z.rem a b) = true) by (unfold I32; range_facts I16).
    assert (in_rangeb I32 (Z.lxor a b) = true) by (unfold I32; range_facts I16).
    csolve. all: cfinish.
  - assert (in_rangeb I32 (Z.rem a b) = true) by range_facts I32.
    csolve. all: cfinish.
  - assert (in_rangeb I64 (Z.rem a b) = true) by range_facts I64.
    csolve. all: cfinish.
Qed.

(* ================================================================ the needs-check decision *)

Lemma no_check_sound d s : wf_ity d -> wf_ity s ->
  (needs_check d s = false <-> forall x, in_range s x -> in_range d x).
Proof.
  intros Hd Hs. unfold needs_check, type_inrange. split.
  - intros H x Hx. apply negb_false_iff in H. apply andb_prop in H. destruct H as [H1 H2].
    apply in_rangeb_spec in H1, H2. unfold in_range in *. lia.
  - intros H. apply negb_false_iff. apply andb_true_intro. split; apply in_rangeb_spec; apply H.
    + pose proof (tmin_le_tmax s Hs). unfold in_range. lia.
    + pose proof (tmin_le_tmax s Hs). unfold in_range. lia.
Qed.

(* implicit conversion in a checked build: exact *)
Lemma implicit_conv_correct m s d x : wf_ity s -> wf_ity d -> in_range s x ->
  implicit_conv m s d x = if in_rangeb d x then Oval x else Opanic MSG_NARROW.
Proof.
  intros Hs Hd Hx. unfold implicit_conv. destruct (needs_check d s) eqn:N.
  - destruct (narrow_fn_defined s d Hs Hd N) as [f Hf]. rewrite Hf.
    apply narrow_fn_correct with (s := s); assumption.
  - pose proof (proj1 (no_check_sound d s Hd Hs) N x Hx) as Hdx.
    unfold c_cast. rewrite c_conv_inrange by assumption.
    apply in_rangeb_spec in Hdx. rewrite Hdx. reflexivity.
Qed.

(* explicit casts never trap and wrap (gcc/clang semantics) *)
Lemma cast_wraps d x : wf_ity d -> explicit_cast Gnu d x = Oval (wrap d x).
Proof. intros Hd. unfold explicit_cast, c_cast. rewrite c_conv_gnu by exact Hd. reflexivity. Qed.

(* under ISO C alone the cast is defined only towards unsigned types or for representable values *)
Lemma cast_iso d x : wf_ity d ->
  explicit_cast Wrapv d x = if negb (sgn d) || in_rangeb d x then Oval (wrap d x) else Oub.
Proof.
  intros Hd. unfold explicit_cast, c_cast, c_conv. destruct (sgn d) eqn:S; cbn [is_gnu negb orb].
  - destruct (in_rangeb d x) eqn:R; [|reflexivity].
    apply in_rangeb_spec in R. rewrite wrap_id by assumption. reflexivity.
  - rewrite wrap_unsigned by exact S. reflexivity.
Qed.

(* ================================================================ conversion sites *)

Definition all_sites : list site :=
  [SArg; SDecl; SDeclStatic; SDeclUnpack; SAssign; SMAssign; SMUnpack; SRet1; SRet2; SRetDefer;
   SArrInit; SRecInit; SRecArrInit; SFor; SCast].

Lemma all_sites_complete st : In st all_sites.
Proof. destruct st; cbn; tauto. Qed.

(* the rule of add_converted_val applied to the flags of one call *)
Definition call_checked (f u : Z) : bool :=
  negb (flag_true f || (negb check_rule_ignores_untypedinit && flag_true u)).

(* full strength, over the call sites scraped from cgenerator.lua on this run: every
   add_converted_val call except the explicit cast (visitors.Call#1) performs the checked
   conversion *)
Definition all_conversion_calls_checked : Prop :=
  forall v o f u, In (v, o, f, u) conv_sites -> (v, o) <> (3, 1) -> call_checked f u = true.

Lemma conv_calls_all_checked : all_conversion_calls_checked.
Proof.
  assert (H : forallb (fun '(v, o, f, u) => ((v =? 3) && (o =? 1)) || call_checked f u) conv_sites = true)
    by (vm_compute; reflexivity).
  rewrite forallb_forall in H. intros v o f u Hin Hne. specialize (H _ Hin). cbn in H.
  apply orb_prop in H. destruct H as [H | H]; [|exact H].
  apply andb_prop in H. destruct H as [H1 H2]. apply Z.eqb_eq in H1, H2. subst. contradiction.
Qed.

(* the explicit cast is the one unchecked call *)
Lemma cast_call_unchecked : exists f u, In (3, 1, f, u) conv_sites /\ call_checked f u = false.
Proof. exists 1, 2. split; [vm_compute; tauto | reflexivity]. Qed.

(* the named sites the driver exercises (a view of the same table) *)
Definition all_implicit_sites_checked : Prop :=
  forall st, site_implicit st = true -> site_checked st = true.

Lemma sites_all_checked : all_implicit_sites_checked.
Proof. intros st H. destruct st; try discriminate H; vm_compute; reflexivity. Qed.

Lemma site_checked_iff st : site_checked st = site_implicit st.
Proof. destruct st; vm_compute; reflexivity. Qed.

Lemma convert_at_correct m st s d x : wf_ity s -> wf_ity d -> in_range s x -> site_checked st = true ->
  convert_at m st s d x = if in_rangeb d x then Oval x else Opanic MSG_NARROW.
Proof. intros Hs Hd Hx C. unfold convert_at. rewrite C. apply implicit_conv_correct; assumption. Qed.

Lemma convert_at_implicit m st s d x : wf_ity s -> wf_ity d -> in_range s x -> site_implicit st = true ->
  convert_at m st s d x = if in_rangeb d x then Oval x else Opanic MSG_NARROW.
Proof. intros Hs Hd Hx Hi. apply convert_at_correct; try assumption. apply sites_all_checked; exact Hi. Qed.

Lemma convert_at_unchecked st s d x : wf_ity d -> site_checked st = false ->
  convert_at Gnu st s d x = Oval (wrap d x).
Proof. intros Hd C. unfold convert_at. rewrite C. apply cast_wraps; exact Hd. Qed.

(* ================================================================ array indexing *)

Lemma array_index_correct m t len i : wf_ity t -> in_range t i -> in_range USIZE len ->
  array_index m t len i = if (0 <=? i) && (i <? len) then Oval i else Opanic MSG_BOUNDS.
Proof. intros. unfold array_index. apply bounds_fn_correct; assumption. Qed.

(* ================================================================ library guards *)

(* when the accessor is allowed to proceed, in exact integers *)
Definition lib_valid (op : libop) (pos size impl : Z) : bool :=
  match op with
  | SpanAt | VecAt | VecRemove => pos <? size
  | VecInsert => pos <=? size
  | VecPop => 0 <? size
  | SeqAt => pos <=? size + 1
  | SeqInsert => (0 <? pos) && (pos <=? size + 1)
  | SeqRemove => negb (impl =? 0) && (0 <? pos) && (pos <=? size)
  | SeqPop => negb (impl =? 0) && (0 <? size)
  | StrAt => (1 <=? pos) && (pos <=? size)
  end.

Lemma lib_passes_correct m op pos size impl :
  in_range USIZE pos -> in_range USIZE size -> in_range U64 impl -> size + 1 <= tmax USIZE ->
  lib_passes m op pos size impl = Some (lib_valid op pos size impl).
Proof.
  intros Hp Hs Hi Hs1. apply in_rangeb_spec in Hp, Hs, Hi.
  unfold USIZE, USIZE_BITS in *.
  destruct op; destruct m.
  all: csolve.
  all: cfinish.
Qed.

Lemma site_arg_checked : site_checked SArg = true.
Proof. vm_compute. reflexivity. Qed.

(* an accessor called with an index i of any integer type: stopped with "narrow casting ..."
   when i is negative, with the library message when the position is invalid, and let through
   otherwise *)
Lemma lib_access_correct m op idx i size impl :
  wf_ity idx -> in_range idx i -> in_range USIZE size -> in_range U64 impl -> size + 1 <= tmax USIZE ->
  lib_access m op idx i size impl =
    if i <? 0 then Opanic MSG_NARROW
    else if lib_valid op i size impl then Oval 0 else Opanic MSG_LIB.
Proof.
  intros Hw Hi Hs Him Hs1. unfold lib_access.
  assert (Hu : wf_ity USIZE) by reflexivity.
  rewrite (convert_at_correct m SArg idx USIZE i Hw Hu Hi site_arg_checked).
  assert (R : in_rangeb USIZE i = negb (i <? 0)).
  { unfold USIZE, USIZE_BITS. revert Hi. ity_cases idx Hw; ity_norm; lia. }
  rewrite R. destruct (i <? 0) eqn:N; cbn [negb]; [reflexivity|].
  rewrite lib_passes_correct; try assumption.
  - destruct (lib_valid op i size impl); reflexivity.
  - apply in_rangeb_spec. rewrite R. reflexivity.
Qed.

(* ---------------------------------------------------------------- `///` and `%%%` *)

(* what the property asks of truncating division of signed integers in a checked build *)
Definition tdiv_check_full : Prop := forall t a b, wf_ity t -> sgn t = true -> in_range t a -> in_range t b ->
  ccall Gnu (tdiv_fn t) [a; b] = (if b =? 0 then Opanic MSG_DIVZERO else Oval (wrap t (Z.quot a b))) /\
  ccall Gnu (tmod_fn t) [a; b] = (if b =? 0 then Opanic MSG_DIVZERO else Oval (Z.rem a b)).

(* false: the emitted plain C operators are undefined for b = 0 (no diagnostic: the process dies
   with SIGFPE) and for min / -1 on 32 and 64 bit operands *)
Lemma tdiv_check_refuted : ~ tdiv_check_full.
Proof.
  intros H. destruct (H I32 7 0) as [H1 _]; try reflexivity; try (vm_compute; split; congruence).
  vm_compute in H1. discriminate.
Qed.

Lemma tdiv_undefined_witnesses :
  run_tdiv I32 7 0 = Oub /\ run_tmod I32 7 0 = Oub /\
  run_tdiv I64 (-9223372036854775808) (-1) = Oub /\ run_tmod I64 (-9223372036854775808) (-1) = Oub /\
  run_tdiv I32 (-2147483648) (-1) = Oub /\ run_tdiv I8 (-128) (-1) = Oval (-128).
Proof. repeat split. Qed.

(* the strongest true restriction: a non-zero divisor, and not min / -1 on a type as wide as int *)
Lemma tdiv_check_partial t a b : wf_ity t -> sgn t = true -> in_range t a -> in_range t b ->
  b <> 0 -> (bits t < 32 \/ ~ (a = tmin t /\ b = -1)) ->
  ccall Gnu (tdiv_fn t) [a; b] = Oval (wrap t (Z.quot a b)) /\
  ccall Gnu (tmod_fn t) [a; b] = Oval (wrap t (Z.rem a b)).
Proof.
  intros Ht Hs Ha Hb Hb0 Hm. apply in_rangeb_spec in Ha, Hb.
  assert (B0 : (b =? 0) = false) by lia.
  ity_cases t Ht; try discriminate Hs; clear Hs; split.
  all: try (assert (B1 : (a =? -2147483648) && (b =? -1) = false) by (unfold I32 in *; cbn [bits] in Hm; expose_ranges; lia)).
  all: try (assert (B2 : (a =? -9223372036854775808) && (b =? -1) = false) by (unfold I64 in *; cbn [bits] in Hm; expose_ranges; lia)).
  all: csolve.
  all: cfinish.
Qed.

(* ---------------------------------------------------------------- non-vacuity examples *)
Example ex_narrow_fires : ccall Gnu (mkcfun [I64] U8 (Sseq (Sif (Elor (Ebin Olt (Evar 0) (Elit I32 0)) (Ebin Ogt (Evar 0) (Elit I32 255))) (Spanic 2) Sskip) (Sret (Ecast U8 (Evar 0))))) [300] = Opanic 2.
Proof. reflexivity. Qed.
Example ex_narrow_fn : narrow_fn I64 U8 = Some (mkcfun [I64] U8 (Sseq (Sif (Elor (Ebin Olt (Evar 0) (Elit I32 0)) (Ebin Ogt (Evar 0) (Elit I32 255))) (Spanic 2) Sskip) (Sret (Ecast U8 (Evar 0))))).
Proof. reflexivity. Qed.
Example ex_narrow_passes : implicit_conv Gnu I64 U8 255 = Oval 255. Proof. reflexivity. Qed.
Example ex_needs : needs_check U8 I64 = true /\ needs_check I64 U8 = false /\ needs_check I64 U64 = true.
Proof. repeat split. Qed.
Example ex_bounds : array_index Gnu I8 5 (-1) = Opanic MSG_BOUNDS /\ array_index Gnu I8 5 4 = Oval 4.
Proof. split; reflexivity. Qed.
Example ex_idiv : run_idiv I8 (-128) (-1) = Oval (-128) /\ run_idiv I8 7 0 = Opanic MSG_DIVZERO /\ run_idiv I8 (-7) 2 = Oval (-4).
Proof. repeat split. Qed.
Example ex_imod : run_imod I64 (-7) 2 = Oval 1 /\ run_imod I64 7 (-2) = Oval (-1).
Proof. repeat split. Qed.
Example ex_lib : lib_access Gnu SeqRemove I8 0 5 1 = Opanic MSG_LIB /\ lib_access Gnu VecAt I8 (-1) 5 1 = Opanic MSG_NARROW
  /\ lib_access Gnu SeqAt U8 6 5 1 = Oval 0.
Proof. repeat split. Qed.
Example ex_sites : site_checked SRet1 = true /\ site_checked SRetDefer = true /\ site_checked SArrInit = true /\ site_checked SCast = false.
Proof. repeat split. Qed.

(* ---------------------------------------------------------------- the tie, as one statement *)
Lemma helpers_tie :
  (forall s d f, In (s, d, f) narrow_table -> narrow_fn s d = Some f /\ cfun_ok f = true) /\
  (forall t f, In (t, f) bounds_table -> Some (bounds_fn t) = Some f /\ cfun_ok f = true) /\
  (forall t f, In (t, f) idiv_table -> Some (idiv_fn t true) = Some f /\ cfun_ok f = true) /\
  (forall t f, In (t, f) imod_table -> Some (imod_fn t true) = Some f /\ cfun_ok f = true) /\
  deref_fn = deref_emitted /\
  (forall d s b, In (d, s, b) inrange_table -> needs_check d s = negb b) /\
  conv_sites = expected_sites /\
  (* a narrow helper is emitted exactly for the pairs the compiler says need one, and the tables
     are not empty (the driver converts every pair of its ten types, indexes with every type) *)
  (forallb (fun '(d, s, b) =>
     Bool.eqb (existsb (fun '(s', d', _) => ity_eqb s s' && ity_eqb d d') narrow_table) (negb b)) inrange_table = true /\
   (50 <= Z.of_nat (length narrow_table) /\ 8 <= Z.of_nat (length bounds_table) /\
    4 <= Z.of_nat (length idiv_table) /\ 4 <= Z.of_nat (length imod_table) /\ 64 <= Z.of_nat (length inrange_table))) /\
  (guard_span_at = lib_guard SpanAt /\ guard_vector_at = lib_guard VecAt /\
   guard_vector_insert = lib_guard VecInsert /\ guard_vector_remove = lib_guard VecRemove /\
   guard_vector_pop = lib_guard VecPop /\ guard_sequence_at = lib_guard SeqAt /\
   guard_sequence_insert = lib_guard SeqInsert /\ guard_sequence_remove = lib_guard SeqRemove /\
   guard_sequence_pop = lib_guard SeqPop /\ guard_string_at = lib_guard StrAt /\
   Some guard_sequence_at_pre = lib_pre SeqAt).
Proof.
  split; [|split; [|split; [|split; [|split; [|split; [|split; [|split]]]]]]].
  - intros s d f H. exact (table_matches_spec (fun '(s, d) => narrow_fn s d) narrow_table narrow_table_ok (s, d) f H).
  - intros t f H. exact (table_matches_spec _ _ bounds_table_ok t f H).
  - intros t f H. exact (table_matches_spec _ _ idiv_table_ok t f H).
  - intros t f H. exact (table_matches_spec _ _ imod_table_ok t f H).
  - pose proof deref_ok as H. apply andb_prop in H. destruct H as [H _]. apply cfun_eqb_eq. exact H.
  - intros d s b H. pose proof inrange_table_ok as T. rewrite forallb_forall in T. specialize (T _ H). cbn in T.
    apply andb_prop in T. destruct T as [T _]. apply andb_prop in T. destruct T as [T _].
    apply Bool.eqb_prop in T. unfold needs_check. rewrite T. reflexivity.
  - exact conv_sites_ok.
  - split; [exact narrow_emitted_iff_needed | vm_compute; repeat split; congruence].
  - repeat split; apply cexpr_eqb_eq || (cbn [lib_pre]; f_equal; apply cexpr_eqb_eq); vm_compute; reflexivity.
Qed.
