From Base Require Import CInt.
From C04 Require Import Gen Model Tactics ProofsNarrow ProofsDiv.
Local Open Scope Z_scope.

(* ================================================================ tie to the generated C (T) *)

Definition table_matches {A} (gen : A -> option cfun) (tbl : list (A * cfun)) : bool :=
  forallb (fun '(k, f) => match gen k with Some g => cfun_eqb g f && cfun_ok f | None => false end) tbl.

Lemma table_matches_spec {A} (gen : A -> option cfun) tbl :
  table_matches gen tbl = true -> forall k f, In (k, f) tbl -> gen k = Some f /\ cfun_ok f = true.
Proof.
  unfold table_matches. rewrite forallb_forall. intros H k f Hin. specialize (H _ Hin). cbn in H.
  destruct (gen k) as [g|]; [|discriminate]. apply andb_prop in H. destruct H as [H1 H2].
  apply cfun_eqb_eq in H1. subst. auto.
Qed.

Lemma narrow_table_ok : table_matches (fun '(s, d) => narrow_fn s d) narrow_table = true.
Proof. vm_compute. reflexivity. Qed.
Lemma bounds_table_ok : table_matches (fun t => Some (bounds_fn t)) bounds_table = true.
Proof. vm_compute. reflexivity. Qed.
Lemma idiv_table_ok : table_matches (fun t => Some (idiv_fn t true)) idiv_table = true.
Proof. vm_compute. reflexivity. Qed.
Lemma imod_table_ok : table_matches (fun t => Some (imod_fn t true)) imod_table = true.
Proof. vm_compute. reflexivity. Qed.
Lemma deref_ok : cfun_eqb deref_fn deref_emitted && cfun_ok deref_emitted = true.
Proof. vm_compute. reflexivity. Qed.

(* every type occurring in the tables is one of the eight well-formed types *)
Lemma tables_wf :
  forallb (fun '(s, d, _) => wf_ityb s && wf_ityb d) narrow_table &&
  forallb (fun '(t, _) => wf_ityb t) bounds_table &&
  forallb (fun '(t, _) => wf_ityb t && sgn t) idiv_table &&
  forallb (fun '(t, _) => wf_ityb t && sgn t) imod_table = true.
Proof. vm_compute. reflexivity. Qed.

(* the compiler's own is_type_inrange agrees with the model on every pair it was asked about *)
Lemma inrange_table_ok :
  forallb (fun '(d, s, b) => Bool.eqb (type_inrange d s) b && wf_ityb d && wf_ityb s) inrange_table = true.
Proof. vm_compute. reflexivity. Qed.

(* a narrow helper is emitted for a pair exactly when the model says a check is needed
   (the driver converts every pair at a checked site) *)
Lemma narrow_emitted_iff_needed :
  forallb (fun '(d, s, b) =>
    Bool.eqb (existsb (fun '(s', d', _) => ity_eqb s s' && ity_eqb d d') narrow_table) (negb b)) inrange_table = true.
Proof. vm_compute. reflexivity. Qed.

Fixpoint sites_eqb (a b : list (Z * Z * Z * Z)) : bool :=
  match a, b with
  | [], [] => true
  | (v, o, f, u) :: a', (v', o', f', u') :: b' =>
      (v =? v') && (o =? o') && (f =? f') && (u =? u') && sites_eqb a' b'
  | _, _ => false
  end.
Lemma sites_eqb_eq a : forall b, sites_eqb a b = true -> a = b.
Proof.
  induction a as [|[[[v o] f] u] a IH]; intros [|[[[v' o'] f'] u'] b]; cbn; try discriminate; [reflexivity|].
  intros H. repeat (apply andb_prop in H; let H' := fresh in destruct H as [H H']).
  f_equal; [|auto]. repeat f_equal; apply Z.eqb_eq; assumption.
Qed.
Lemma conv_sites_ok : conv_sites = expected_sites.
Proof. apply sites_eqb_eq. vm_compute. reflexivity. Qed.

Lemma guards_ok :
  cexpr_eqb guard_span_at (lib_guard SpanAt) && cexpr_eqb guard_vector_at (lib_guard VecAt) &&
  cexpr_eqb guard_vector_insert (lib_guard VecInsert) && cexpr_eqb guard_vector_remove (lib_guard VecRemove) &&
  cexpr_eqb guard_vector_pop (lib_guard VecPop) && cexpr_eqb guard_sequence_at (lib_guard SeqAt) &&
  cexpr_eqb guard_sequence_insert (lib_guard SeqInsert) && cexpr_eqb guard_sequence_remove (lib_guard SeqRemove) &&
  cexpr_eqb guard_sequence_pop (lib_guard SeqPop) && cexpr_eqb guard_string_at (lib_guard StrAt) &&
  match lib_pre SeqAt with Some p => cexpr_eqb guard_sequence_at_pre p | None => false end = true.
Proof. vm_compute. reflexivity. Qed.

(* ================================================================ bounds, deref *)

Lemma bounds_fn_correct m t i len : wf_ity t -> in_range t i -> in_range USIZE len ->
  ccall m (bounds_fn t) [i; len] = if (0 <=? i) && (i <? len) then Oval i else Opanic MSG_BOUNDS.
Proof.
  intros Ht Hi Hl. apply in_rangeb_spec in Hi. apply in_rangeb_spec in Hl.
  unfold USIZE, USIZE_BITS in *. ity_cases t Ht; clear Ht; destruct m.
  all: csolve.
  all: cfinish.
Qed.

Lemma deref_fn_correct m p : in_range U64 p ->
  ccall m deref_fn [p] = if p =? 0 then Opanic MSG_DEREF else Oval p.
Proof.
  intros Hp. apply in_rangeb_spec in Hp. destruct m. all: csolve. all: cfinish.
Qed.

(* ================================================================ the needs-check decision *)

Lemma no_check_sound d s : wf_ity d -> wf_ity s ->
  (needs_check d s = false <-> forall x, in_range s x -> in_range d x).
Proof.
  intros Hd Hs. unfold needs_check, type_inrange. split.
  - intros H x Hx. apply negb_false_iff in H. apply andb_prop in H. destruct H as [H1 H2].
    apply in_rangeb_spec in H1, H2. unfold in_range in *. lia.
  - intros H. apply negb_false_iff. apply andb_true_intro. split; apply in_rangeb_spec; apply H.
    + pose proof (tmin_le_tmax s Hs). unfold in_range. lia.
    + pose proof (tmin_le_tmax s Hs). unfold in_range. lia.
Qed.

(* implicit conversion in a checked build: exact *)
Lemma implicit_conv_correct m s d x : wf_ity s -> wf_ity d -> in_range s x ->
  implicit_conv m s d x = if in_rangeb d x then Oval x else Opanic MSG_NARROW.
Proof.
  intros Hs Hd Hx. unfold implicit_conv. destruct (needs_check d s) eqn:N.
  - destruct (narrow_fn_defined s d Hs Hd N) as [f Hf]. rewrite Hf.
    apply narrow_fn_correct with (s := s); assumption.
  - pose proof (proj1 (no_check_sound d s Hd Hs) N x Hx) as Hdx.
    unfold c_cast. rewrite c_conv_inrange by assumption.
    apply in_rangeb_spec in Hdx. rewrite Hdx. reflexivity.
Qed.

(* explicit casts never trap and wrap (gcc/clang semantics) *)
Lemma cast_wraps d x : wf_ity d -> explicit_cast Gnu d x = Oval (wrap d x).
Proof. intros Hd. unfold explicit_cast, c_cast. rewrite c_conv_gnu by exact Hd. reflexivity. Qed.

(* under ISO C alone the cast is defined only towards unsigned types or for representable values *)
Lemma cast_iso d x : wf_ity d ->
  explicit_cast Wrapv d x = if negb (sgn d) || in_rangeb d x then Oval (wrap d x) else Oub.
Proof.
  intros Hd. unfold explicit_cast, c_cast, c_conv. destruct (sgn d) eqn:S; cbn [is_gnu negb orb].
  - destruct (in_rangeb d x) eqn:R; [|reflexivity].
    apply in_rangeb_spec in R. rewrite wrap_id by assumption. reflexivity.
  - rewrite wrap_unsigned by exact S. reflexivity.
Qed.

(* ================================================================ conversion sites *)

Definition all_sites : list site :=
  [SArg; SDecl; SDeclStatic; SDeclUnpack; SAssign; SMAssign; SMUnpack; SRet1; SRet2; SRetDefer;
   SArrInit; SRecInit; SRecArrInit; SFor; SCast].

Lemma all_sites_complete st : In st all_sites.
Proof. destruct st; cbn; tauto. Qed.

(* the rule of add_converted_val applied to the flags of one call *)
Definition call_checked (f u : Z) : bool :=
  negb (flag_true f || (negb check_rule_ignores_untypedinit && flag_true u)).

(* full strength, over the call sites scraped from cgenerator.lua on this run: every
   add_converted_val call except the explicit cast (visitors.Call#1) performs the checked
   conversion *)
Definition all_conversion_calls_checked : Prop :=
  forall v o f u, In (v, o, f, u) conv_sites -> (v, o) <> (3, 1) -> call_checked f u = true.

Lemma conv_calls_all_checked : all_conversion_calls_checked.
Proof.
  assert (H : forallb (fun '(v, o, f, u) => ((v =? 3) && (o =? 1)) || call_checked f u) conv_sites = true)
    by (vm_compute; reflexivity).
  rewrite forallb_forall in H. intros v o f u Hin Hne. specialize (H _ Hin). cbn in H.
  apply orb_prop in H. destruct H as [H | H]; [|exact H].
  apply andb_prop in H. destruct H as [H1 H2]. apply Z.eqb_eq in H1, H2. subst. contradiction.
Qed.

(* the explicit cast is the one unchecked call *)
Lemma cast_call_unchecked : exists f u, In (3, 1, f, u) conv_sites /\ call_checked f u = false.
Proof. exists 1, 2. split; [vm_compute; tauto | reflexivity]. Qed.

(* the named sites the driver exercises (a view of the same table) *)
Definition all_implicit_sites_checked : Prop :=
  forall st, site_implicit st = true -> site_checked st = true.

Lemma sites_all_checked : all_implicit_sites_checked.
Proof. intros st H. destruct st; try discriminate H; vm_compute; reflexivity. Qed.

Lemma site_checked_iff st : site_checked st = site_implicit st.
Proof. destruct st; vm_compute; reflexivity. Qed.

Lemma convert_at_correct m st s d x : wf_ity s -> wf_ity d -> in_range s x -> site_checked st = true ->
  convert_at m st s d x = if in_rangeb d x then Oval x else Opanic MSG_NARROW.
Proof. intros Hs Hd Hx C. unfold convert_at. rewrite C. apply implicit_conv_correct; assumption. Qed.

Lemma convert_at_implicit m st s d x : wf_ity s -> wf_ity d -> in_range s x -> site_implicit st = true ->
  convert_at m st s d x = if in_rangeb d x then Oval x else Opanic MSG_NARROW.
Proof. intros Hs Hd Hx Hi. apply convert_at_correct; try assumption. apply sites_all_checked; exact Hi. Qed.

Lemma convert_at_unchecked st s d x : wf_ity d -> site_checked st = false ->
  convert_at Gnu st s d x = Oval (wrap d x).
Proof. intros Hd C. unfold convert_at. rewrite C. apply cast_wraps; exact Hd. Qed.

(* ================================================================ array indexing *)

Lemma array_index_correct m t len i : wf_ity t -> in_range t i -> in_range USIZE len ->
  array_index m t len i = if (0 <=? i) && (i <? len) then Oval i else Opanic MSG_BOUNDS.
Proof. intros. unfold array_index. apply bounds_fn_correct; assumption. Qed.

(* ================================================================ library guards *)

(* when the accessor is allowed to proceed, in exact integers *)
Definition lib_valid (op : libop) (pos size impl : Z) : bool :=
  match op with
  | SpanAt | VecAt | VecRemove => pos <? size
  | VecInsert => pos <=? size
  | VecPop => 0 <? size
  | SeqAt => pos <=? size + 1
  | SeqInsert => (0 <? pos) && (pos <=? size + 1)
  | SeqRemove => negb (impl =? 0) && (0 <? pos) && (pos <=? size)
  | SeqPop => negb (impl =? 0) && (0 <? size)
  | StrAt => (1 <=? pos) && (pos <=? size)
  end.

Lemma lib_passes_correct m op pos size impl :
  in_range USIZE pos -> in_range USIZE size -> in_range U64 impl -> size + 1 <= tmax USIZE ->
  lib_passes m op pos size impl = Some (lib_valid op pos size impl).
Proof.
  intros Hp Hs Hi Hs1. apply in_rangeb_spec in Hp, Hs, Hi.
  unfold USIZE, USIZE_BITS in *.
  destruct op; destruct m.
  all: csolve.
  all: cfinish.
Qed.

Lemma site_arg_checked : site_checked SArg = true.
Proof. vm_compute. reflexivity. Qed.

(* an accessor called with an index i of any integer type: stopped with "narrow casting ..."
   when i is negative, with the library message when the position is invalid, and let through
   otherwise *)
Lemma lib_access_correct m op idx i size impl :
  wf_ity idx -> in_range idx i -> in_range USIZE size -> in_range U64 impl -> size + 1 <= tmax USIZE ->
  lib_access m op idx i size impl =
    if i <? 0 then Opanic MSG_NARROW
    else if lib_valid op i size impl then Oval 0 else Opanic MSG_LIB.
Proof.
  intros Hw Hi Hs Him Hs1. unfold lib_access.
  assert (Hu : wf_ity USIZE) by reflexivity.
  rewrite (convert_at_correct m SArg idx USIZE i Hw Hu Hi site_arg_checked).
  assert (R : in_rangeb USIZE i = negb (i <? 0)).
  { unfold USIZE, USIZE_BITS. revert Hi. ity_cases idx Hw; ity_norm; lia. }
  rewrite R. destruct (i <? 0) eqn:N; cbn [negb]; [reflexivity|].
  rewrite lib_passes_correct; try assumption.
  - destruct (lib_valid op i size impl); reflexivity.
  - apply in_rangeb_spec. rewrite R. reflexivity.
Qed.

(* ---------------------------------------------------------------- `///` and `%%%` *)

(* what the property asks of truncating division of signed integers in a checked build *)
Definition tdiv_check_full : Prop := forall t a b, wf_ity t -> sgn t = true -> in_range t a -> in_range t b ->
  ccall Gnu (tdiv_fn t) [a; b] = (if b =? 0 then Opanic MSG_DIVZERO else Oval (wrap t (Z.quot a b))) /\
  ccall Gnu (tmod_fn t) [a; b] = (if b =? 0 then Opanic MSG_DIVZERO else Oval (Z.rem a b)).

(* false: the emitted plain C operators are undefined for b = 0 (no diagnostic: the process dies
   with SIGFPE) and for min / -1 on 32 and 64 bit operands *)
Lemma tdiv_check_refuted : ~ tdiv_check_full.
Proof.
  intros H. destruct (H I32 7 0) as [H1 _]; try reflexivity; try (vm_compute; split; congruence).
  vm_compute in H1. discriminate.
Qed.

Lemma tdiv_undefined_witnesses :
  run_tdiv I32 7 0 = Oub /\ run_tmod I32 7 0 = Oub /\
  run_tdiv I64 (-9223372036854775808) (-1) = Oub /\ run_tmod I64 (-9223372036854775808) (-1) = Oub /\
  run_tdiv I32 (-2147483648) (-1) = Oub /\ run_tdiv I8 (-128) (-1) = Oval (-128).
Proof. repeat split. Qed.

(* the strongest true restriction: a non-zero divisor, and not min / -1 on a type as wide as int *)
Lemma tdiv_check_partial t a b : wf_ity t -> sgn t = true -> in_range t a -> in_range t b ->
  b <> 0 -> (bits t < 32 \/ ~ (a = tmin t /\ b = -1)) ->
  ccall Gnu (tdiv_fn t) [a; b] = Oval (wrap t (Z.quot a b)) /\
  ccall Gnu (tmod_fn t) [a; b] = Oval (wrap t (Z.rem a b)).
Proof.
  intros Ht Hs Ha Hb Hb0 Hm. apply in_rangeb_spec in Ha, Hb.
  assert (B0 : (b =? 0) = false) by lia.
  ity_cases t Ht; try discriminate Hs; clear Hs; split.
  all: try (assert (B1 : (a =? -2147483648) && (b =? -1) = false) by (unfold I32 in *; cbn [bits] in Hm; expose_ranges; lia)).
  all: try (assert (B2 : (a =? -9223372036854775808) && (b =? -1) = false) by (unfold I64 in *; cbn [bits] in Hm; expose_ranges; lia)).
  all: csolve.
  all: cfinish.
Qed.

(* ---------------------------------------------------------------- non-vacuity examples *)
Example ex_narrow_fires : ccall Gnu (mkcfun [I64] U8 (Sseq (Sif (Elor (Ebin Olt (Evar 0) (Elit I32 0)) (Ebin Ogt (Evar 0) (Elit I32 255))) (Spanic 2) Sskip) (Sret (Ecast U8 (Evar 0))))) [300] = Opanic 2.
Proof. reflexivity. Qed.
Example ex_narrow_fn : narrow_fn I64 U8 = Some (mkcfun [I64] U8 (Sseq (Sif (Elor (Ebin Olt (Evar 0) (Elit I32 0)) (Ebin Ogt (Evar 0) (Elit I32 255))) (Spanic 2) Sskip) (Sret (Ecast U8 (Evar 0))))).
Proof. reflexivity. Qed.
Example ex_narrow_passes : implicit_conv Gnu I64 U8 255 = Oval 255. Proof. reflexivity. Qed.
Example ex_needs : needs_check U8 I64 = true /\ needs_check I64 U8 = false /\ needs_check I64 U64 = true.
Proof. repeat split. Qed.
Example ex_bounds : array_index Gnu I8 5 (-1) = Opanic MSG_BOUNDS /\ array_index Gnu I8 5 4 = Oval 4.
Proof. split; reflexivity. Qed.
Example ex_idiv : run_idiv I8 (-128) (-1) = Oval (-128) /\ run_idiv I8 7 0 = Opanic MSG_DIVZERO /\ run_idiv I8 (-7) 2 = Oval (-4).
Proof. repeat split. Qed.
Example ex_imod : run_imod I64 (-7) 2 = Oval 1 /\ run_imod I64 7 (-2) = Oval (-1).
Proof. repeat split. Qed.
Example ex_lib : lib_access Gnu SeqRemove I8 0 5 1 = Opanic MSG_LIB /\ lib_access Gnu VecAt I8 (-1) 5 1 = Opanic MSG_NARROW
  /\ lib_access Gnu SeqAt U8 6 5 1 = Oval 0.
Proof. repeat split. Qed.
Example ex_sites : site_checked SRet1 = true /\ site_checked SRetDefer = true /\ site_checked SArrInit = true /\ site_checked SCast = false.
Proof. repeat split. Qed.

(* ---------------------------------------------------------------- the tie, as one statement *)
Lemma helpers_tie :
  (forall s d f, In (s, d, f) narrow_table -> narrow_fn s d = Some f /\ cfun_ok f = true) /\
  (forall t f, In (t, f) bounds_table -> Some (bounds_fn t) = Some f /\ cfun_ok f = true) /\
  (forall t f, In (t, f) idiv_table -> Some (idiv_fn t true) = Some f /\ cfun_ok f = true) /\
  (forall t f, In (t, f) imod_table -> Some (imod_fn t true) = Some f /\ cfun_ok f = true) /\
  deref_fn = deref_emitted /\
  (forall d s b, In (d, s, b) inrange_table -> needs_check d s = negb b) /\
  conv_sites = expected_sites /\
  (* a narrow helper is emitted exactly for the pairs the compiler says need one, and the tables
     are not empty (the driver converts every pair of its ten types, indexes with every type) *)
  (forallb (fun '(d, s, b) =>
     Bool.eqb (existsb (fun '(s', d', _) => ity_eqb s s' && ity_eqb d d') narrow_table) (negb b)) inrange_table = true /\
   (50 <= Z.of_nat (length narrow_table) /\ 8 <= Z.of_nat (length bounds_table) /\
    4 <= Z.of_nat (length idiv_table) /\ 4 <= Z.of_nat (length imod_table) /\ 64 <= Z.of_nat (length inrange_table))) /\
  (guard_span_at = lib_guard SpanAt /\ guard_vector_at = lib_guard VecAt /\
   guard_vector_insert = lib_guard VecInsert /\ guard_vector_remove = lib_guard VecRemove /\
   guard_vector_pop = lib_guard VecPop /\ guard_sequence_at = lib_guard SeqAt /\
   guard_sequence_insert = lib_guard SeqInsert /\ guard_sequence_remove = lib_guard SeqRemove /\
   guard_sequence_pop = lib_guard SeqPop /\ guard_string_at = lib_guard StrAt /\
   Some guard_sequence_at_pre = lib_pre SeqAt).
Proof.
  split; [|split; [|split; [|split; [|split; [|split; [|split; [|split]]]]]]].
  - intros s d f H. exact (table_matches_spec (fun '(s, d) => narrow_fn s d) narrow_table narrow_table_ok (s, d) f H).
  - intros t f H. exact (table_matches_spec _ _ bounds_table_ok t f H).
  - intros t f H. exact (table_matches_spec _ _ idiv_table_ok t f H).
  - intros t f H. exact (table_matches_spec _ _ imod_table_ok t f H).
  - pose proof deref_ok as H. apply andb_prop in H. destruct H as [H _]. apply cfun_eqb_eq. exact H.
  - intros d s b H. pose proof inrange_table_ok as T. rewrite forallb_forall in T. specialize (T _ H). cbn in T.
    apply andb_prop in T. destruct T as [T _]. apply andb_prop in T. destruct T as [T _].
    apply Bool.eqb_prop in T. unfold needs_check. rewrite T. reflexivity.
  - exact conv_sites_ok.
  - split; [exact narrow_emitted_iff_needed | vm_compute; repeat split; congruence].
  - repeat split; apply cexpr_eqb_eq || (cbn [lib_pre]; f_equal; apply cexpr_eqb_eq); vm_compute; reflexivity.
Qed.
