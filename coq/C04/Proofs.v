From Base Require Import CInt.
From C04 Require Import Gen Model.
Local Open Scope Z_scope.
