From C04 Require Import Model.
From Base Require Import CInt.
Require Extraction.
Require Import ExtrOcamlBasic.
Extraction "model.ml" run_narrow run_cast run_bounds run_idiv run_imod run_tdiv run_tmod run_tdivm run_tmodm run_deref run_lib string_byte
  mkity needs_check.
