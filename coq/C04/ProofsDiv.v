(* checked `//` and `%` helpers (split from Proofs.v to keep every file short) *)
From Base Require Import CInt.
From C04 Require Import Gen Model Tactics.
Local Open Scope Z_scope.

(* ================================================================ checked // and % *)

Ltac Zify.zify_post_hook ::= Z.to_euclidean_division_equations.

Lemma floor_from_trunc a b : b <> 0 ->
  a / b = if Z.quot a b * b =? a then Z.quot a b
          else Z.quot a b - (if Bool.eqb (a <? 0) (b <? 0) then 0 else 1).
Proof.
  intros Hb. destruct (Z.quot a b * b =? a) eqn:E; destruct (a <? 0) eqn:Ea; destruct (b <? 0) eqn:Eb;
    cbn [Bool.eqb]; nia.
Qed.

Lemma quot_bounds a b : b <> 0 ->
  Z.abs (Z.quot a b) <= Z.abs a /\ Z.abs (Z.quot a b * b) <= Z.abs a.
Proof.
  intros Hb.
  assert (E : Z.abs (Z.quot a b) = Z.abs a / Z.abs b).
  { rewrite <- Z.quot_abs by exact Hb. apply Z.quot_div_nonneg; lia. }
  rewrite Z.abs_mul, E.
  pose proof (Z.mul_div_le (Z.abs a) (Z.abs b) ltac:(lia)).
  split; [|lia].
  apply Z.div_le_upper_bound; nia.
Qed.

(* apart from b = -1 a truncated quotient never exceeds max(a, |a|/2): it stays in range *)
Lemma quot_upper a b : b <> 0 -> b <> -1 -> Z.quot a b <= Z.max a (Z.abs a / 2).
Proof.
  intros Hb Hb1.
  assert (E : Z.abs (Z.quot a b) = Z.abs a / Z.abs b).
  { rewrite <- Z.quot_abs by exact Hb. apply Z.quot_div_nonneg; lia. }
  destruct (Z.eq_dec b 1) as [-> | Hb2]; [rewrite Z.quot_1_r; lia|].
  assert (Z.abs a / Z.abs b <= Z.abs a / 2) by (apply Z.div_le_compat_l; lia).
  lia.
Qed.

(* sign of a xor: negative iff exactly one operand is negative *)
Lemma lxor_neg a b : (Z.lxor a b <? 0) = negb (Bool.eqb (a <? 0) (b <? 0)).
Proof.
  pose proof (Z.lxor_nonneg a b) as H.
  destruct (Z.lxor a b <? 0) eqn:E, (a <? 0) eqn:Ea, (b <? 0) eqn:Eb; cbn; try reflexivity; exfalso; lia.
Qed.

(* floor modulo from the truncated remainder, as nelua_imod_ computes it *)
Lemma mod_from_rem a b : b <> 0 ->
  a mod b = if negb (Z.rem a b =? 0) && (Z.lxor a b <? 0) then Z.rem a b + b else Z.rem a b.
Proof.
  intros Hb. rewrite lxor_neg.
  pose proof (Z.rem_bound_abs a b Hb) as B. pose proof (Z.rem_sign_mul a b Hb) as S.
  pose proof (Z.quot_rem' a b) as Q.
  assert (HR3 : a = 0 -> Z.rem a b = 0) by (intros ->; apply Z.rem_0_l; exact Hb).
  set (R := Z.rem a b) in *. set (q := Z.quot a b) in *. clearbody R q.
  assert (HR1 : a < 0 -> R <= 0) by (intros; nia).
  assert (HR2 : 0 < a -> 0 <= R) by (intros; nia).
  clear S.
  destruct (R =? 0) eqn:E; destruct (a <? 0) eqn:Ea; destruct (b <? 0) eqn:Eb;
    cbn [Bool.eqb negb andb]; symmetry;
    first [ apply Z.mod_unique with (q := q); lia
          | apply Z.mod_unique with (q := q - 1); lia ].
Qed.

(* x lies in [-2^n, 2^n) iff its bits from n upwards are all equal *)
Lemma range_shiftr n x : 0 <= n -> (- 2 ^ n <= x < 2 ^ n <-> (Z.shiftr x n = 0 \/ Z.shiftr x n = -1)).
Proof.
  intros Hn. rewrite Z.shiftr_div_pow2 by lia.
  assert (HP : 0 < 2 ^ n) by (apply Z.pow_pos_nonneg; lia).
  generalize dependent (2 ^ n). intros P HP. split; intros H; nia.
Qed.

Lemma lxor_range n a b : 0 <= n -> - 2 ^ n <= a < 2 ^ n -> - 2 ^ n <= b < 2 ^ n ->
  - 2 ^ n <= Z.lxor a b < 2 ^ n.
Proof.
  intros Hn Ha Hb. apply range_shiftr in Ha, Hb; try exact Hn. apply range_shiftr; [exact Hn|].
  rewrite Z.shiftr_lxor. destruct Ha as [-> | ->], Hb as [-> | ->]; cbn; auto.
Qed.

Lemma lxor_range_signed t a b : wf_ity t -> sgn t = true -> in_range t a -> in_range t b ->
  in_range t (Z.lxor a b).
Proof.
  intros Ht Hs. ity_cases t Ht; try discriminate Hs; clear Hs.
  - pose proof (lxor_range 7 a b ltac:(lia)). ity_norm. change (2 ^ 7) with 128 in *. lia.
  - pose proof (lxor_range 15 a b ltac:(lia)). ity_norm. change (2 ^ 15) with 32768 in *. lia.
  - pose proof (lxor_range 31 a b ltac:(lia)). ity_norm. change (2 ^ 31) with 2147483648 in *. lia.
  - pose proof (lxor_range 63 a b ltac:(lia)). ity_norm. change (2 ^ 63) with 9223372036854775808 in *. lia.
Qed.

Ltac Zify.zify_post_hook ::= Z.div_mod_to_equations.

Lemma rem_bounds a b : b <> 0 -> Z.abs (Z.rem a b) < Z.abs b /\ Z.abs (Z.rem a b) <= Z.abs a.
Proof.
  intros Hb. split; [apply Z.rem_bound_abs; exact Hb|].
  rewrite <- Z.rem_abs by exact Hb. apply Z.rem_le; lia.
Qed.

(* q*b lies between 0 and a *)
Lemma quot_mul_between a b : b <> 0 ->
  (0 <= Z.quot a b * b <= a) \/ (a <= Z.quot a b * b <= 0).
Proof.
  intros Hb. pose proof (rem_bounds a b Hb) as [_ R2]. pose proof (Z.rem_sign_mul a b Hb) as S.
  pose proof (Z.quot_rem' a b) as Q. rewrite (Z.mul_comm b) in Q.
  set (R := Z.rem a b) in *. set (p := Z.quot a b * b) in *. clearbody R p.
  assert (a < 0 -> R <= 0) by (intros; nia). assert (0 < a -> 0 <= R) by (intros; nia). lia.
Qed.

Ltac range_facts T :=
  expose_ranges; unfold T in *; expose_ranges; lia.

(* nelua_assert_idiv_<T> in Gnu mode: "division by zero" iff b = 0, Lua floor division
   (wrapped into T, which only matters for min // -1) otherwise *)
Lemma idiv_fn_correct t a b : wf_ity t -> sgn t = true -> in_range t a -> in_range t b ->
  ccall Gnu (idiv_fn t true) [a; b] = if b =? 0 then Opanic MSG_DIVZERO else Oval (wrap t (a / b)).
Proof.
  intros Ht Hs Ha Hb. apply in_rangeb_spec in Ha. apply in_rangeb_spec in Hb.
  destruct (b =? 0) eqn:B0.
  { ity_cases t Ht; try discriminate Hs; clear Hs. all: csolve. all: cfinish. }
  destruct (b =? -1) eqn:B1.
  { assert (b = -1) as -> by lia. replace (a / -1) with (- a) by (apply Z.div_unique_exact; lia).
    ity_cases t Ht; try discriminate Hs; clear Hs. all: csolve. all: cfinish. }
  rewrite (floor_from_trunc a b) by lia.
  pose proof (quot_bounds a b ltac:(lia)) as [Q1 Q2].
  pose proof (quot_upper a b ltac:(lia) ltac:(lia)) as Q3.
  pose proof (quot_mul_between a b ltac:(lia)) as Q4.
  ity_cases t Ht; try discriminate Hs; clear Hs.
  - assert (in_rangeb I8 (Z.quot a b) = true) by range_facts I8.
    assert (in_rangeb I32 (Z.quot a b) = true) by (unfold I32; range_facts I8).
    assert (in_rangeb I32 (Z.quot a b * b) = true) by (unfold I32; range_facts I8).
    csolve. all: cfinish.
  - assert (in_rangeb I16 (Z.quot a b) = true) by range_facts I16.
    assert (in_rangeb I32 (Z.quot a b) = true) by (unfold I32; range_facts I16).
    assert (in_rangeb I32 (Z.quot a b * b) = true) by (unfold I32; range_facts I16).
    csolve. all: cfinish.
  - assert (in_rangeb I32 (Z.quot a b) = true) by range_facts I32.
    assert (in_rangeb I32 (Z.quot a b * b) = true) by range_facts I32.
    csolve. all: cfinish.
  - assert (in_rangeb I64 (Z.quot a b) = true) by range_facts I64.
    assert (in_rangeb I64 (Z.quot a b * b) = true) by range_facts I64.
    csolve. all: cfinish.
Qed.

(* nelua_assert_imod_<T>: "division by zero" iff b = 0, Lua's floor modulo otherwise *)
Lemma imod_fn_correct t a b : wf_ity t -> sgn t = true -> in_range t a -> in_range t b ->
  ccall Gnu (imod_fn t true) [a; b] = if b =? 0 then Opanic MSG_DIVZERO else Oval (a mod b).
Proof.
  intros Ht Hs Ha Hb.
  pose proof (lxor_range_signed t a b Ht Hs Ha Hb) as Hx. apply in_rangeb_spec in Hx.
  apply in_rangeb_spec in Ha. apply in_rangeb_spec in Hb.
  destruct (b =? 0) eqn:B0.
  { ity_cases t Ht; try discriminate Hs; clear Hs. all: csolve. all: cfinish. }
  destruct (b =? -1) eqn:B1.
  { assert (b = -1) as -> by lia. replace (a mod -1) with 0 by (apply Z.mod_unique with (q := - a); lia).
    ity_cases t Ht; try discriminate Hs; clear Hs. all: csolve. all: cfinish. }
  pose proof (mod_from_rem a b ltac:(lia)) as M.
  assert (Hm : in_rangeb t (a mod b) = true).
  { clear M Hx. ity_cases t Ht; try discriminate Hs; unfold I8, I16, I32, I64 in *; expose_ranges; lia. }
  assert (Hrb : negb (Z.rem a b =? 0) && (Z.lxor a b <? 0) = true -> in_rangeb t (Z.rem a b + b) = true).
  { intros C. rewrite M, C in Hm. exact Hm. }
  rewrite M. clear M Hm.
  pose proof (rem_bounds a b ltac:(lia)) as [R1 R2].
  ity_cases t Ht; try discriminate Hs; clear Hs.
  - assert (in_rangeb I8 (Z.rem a b) = true) by range_facts I8.
    assert (in_rangeb I32 (Z.rem a b) = true) by (unfold I32; range_facts I8).
    assert (in_rangeb I32 (Z.lxor a b) = true) by (unfold I32; range_facts I8).
    csolve. all: cfinish.
  - assert (in_rangeb I16 (Z.rem a b) = true) by range_facts I16.
    assert (in_rangeb I32 (Z.rem a b) = true) by (unfold I32; range_facts I16).
    assert (in_rangeb I32 (Z.lxor a b) = true) by (unfold I32; range_facts I16).
    csolve. all: cfinish.
  - assert (in_rangeb I32 (Z.rem a b) = true) by range_facts I32.
    csolve. all: cfinish.
  - assert (in_rangeb I64 (Z.rem a b) = true) by range_facts I64.
    csolve. all: cfinish.
Qed.

