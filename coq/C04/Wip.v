From Base Require Import CInt.
From C04 Require Import Gen Model Tactics ProofsNarrow Proofs.
Local Open Scope Z_scope.

(* ================================================================ the needs-check decision *)

Lemma no_check_sound d s : wf_ity d -> wf_ity s ->
  (needs_check d s = false <-> forall x, in_range s x -> in_range d x).
Proof.
  intros Hd Hs. unfold needs_check, type_inrange. split.
  - intros H x Hx. apply negb_false_iff in H. apply andb_prop in H. destruct H as [H1 H2].
    apply in_rangeb_spec in H1, H2. unfold in_range in *. lia.
  - intros H. apply negb_false_iff. apply andb_true_intro. split; apply in_rangeb_spec; apply H.
    + pose proof (tmin_le_tmax s Hs). unfold in_range. lia.
    + pose proof (tmin_le_tmax s Hs). unfold in_range. lia.
Qed.

(* implicit conversion in a checked build: exact *)
Lemma implicit_conv_correct m s d x : wf_ity s -> wf_ity d -> in_range s x ->
  implicit_conv m s d x = if in_rangeb d x then Oval x else Opanic MSG_NARROW.
Proof.
  intros Hs Hd Hx. unfold implicit_conv. destruct (needs_check d s) eqn:N.
  - destruct (narrow_fn_defined s d Hs Hd N) as [f Hf]. rewrite Hf.
    apply narrow_fn_correct with (s := s); assumption.
  - pose proof (proj1 (no_check_sound d s Hd Hs) N x Hx) as Hdx.
    unfold c_cast. rewrite c_conv_inrange by assumption.
    apply in_rangeb_spec in Hdx. rewrite Hdx. reflexivity.
Qed.

(* explicit casts never trap and wrap (gcc/clang semantics) *)
Lemma cast_wraps d x : wf_ity d -> explicit_cast Gnu d x = Oval (wrap d x).
Proof. intros Hd. unfold explicit_cast, c_cast. rewrite c_conv_gnu by exact Hd. reflexivity. Qed.

(* under ISO C alone the cast is defined only towards unsigned types or for representable values *)
Lemma cast_iso d x : wf_ity d ->
  explicit_cast Wrapv d x = if negb (sgn d) || in_rangeb d x then Oval (wrap d x) else Oub.
Proof.
  intros Hd. unfold explicit_cast, c_cast, c_conv. destruct (sgn d) eqn:S; cbn [is_gnu negb orb].
  - destruct (in_rangeb d x) eqn:R; [|reflexivity].
    apply in_rangeb_spec in R. rewrite wrap_id by assumption. reflexivity.
  - rewrite wrap_unsigned by exact S. reflexivity.
Qed.

(* ================================================================ conversion sites *)

Definition all_sites : list site :=
  [SArg; SDecl; SAssign; SRet1; SRet2; SRetDefer; SArrInit; SRecInit; SRecArrInit; SFor; SCast].

Lemma all_sites_complete st : In st all_sites.
Proof. destruct st; cbn; tauto. Qed.

(* full strength: every implicit conversion site is checked *)
Definition all_implicit_sites_checked : Prop :=
  forall st, site_implicit st = true -> site_checked st = true.

Lemma sites_refuted : ~ all_implicit_sites_checked.
Proof. intros H. specialize (H SRet1 eq_refl). vm_compute in H. discriminate. Qed.

Definition unchecked_today (st : site) : bool :=
  match st with SRet1 | SArrInit | SRecInit | SRecArrInit => true | _ => false end.

Lemma sites_partial st : site_implicit st = true -> site_checked st = negb (unchecked_today st).
Proof. destruct st; vm_compute; congruence. Qed.

Lemma convert_at_correct m st s d x : wf_ity s -> wf_ity d -> in_range s x -> site_checked st = true ->
  convert_at m st s d x = if in_rangeb d x then Oval x else Opanic MSG_NARROW.
Proof. intros Hs Hd Hx C. unfold convert_at. rewrite C. apply implicit_conv_correct; assumption. Qed.

Lemma convert_at_unchecked st s d x : wf_ity d -> site_checked st = false ->
  convert_at Gnu st s d x = Oval (wrap d x).
Proof. intros Hd C. unfold convert_at. rewrite C. apply cast_wraps; exact Hd. Qed.

(* ================================================================ array indexing *)

Lemma array_index_correct m t len i : wf_ity t -> in_range t i -> in_range USIZE len ->
  array_index m t len i = if (0 <=? i) && (i <? len) then Oval i else Opanic MSG_BOUNDS.
Proof. intros. unfold array_index. apply bounds_fn_correct; assumption. Qed.

(* ================================================================ library guards *)

(* when the accessor is allowed to proceed, in exact integers *)
Definition lib_valid (op : libop) (pos size impl : Z) : bool :=
  match op with
  | SpanAt | VecAt | VecRemove => pos <? size
  | VecInsert => pos <=? size
  | VecPop => 0 <? size
  | SeqAt => pos <=? size + 1
  | SeqInsert => (0 <? pos) && (pos <=? size + 1)
  | SeqRemove => negb (impl =? 0) && (0 <? pos) && (pos <=? size)
  | SeqPop => negb (impl =? 0) && (0 <? size)
  | StrAt => (1 <=? pos) && (pos <=? size)
  end.

Lemma lib_passes_correct m op pos size impl :
  in_range USIZE pos -> in_range USIZE size -> in_range U64 impl -> size + 1 <= tmax USIZE ->
  lib_passes m op pos size impl = Some (lib_valid op pos size impl).
Proof.
  intros Hp Hs Hi Hs1. apply in_rangeb_spec in Hp, Hs, Hi.
  unfold USIZE, USIZE_BITS in *.
  destruct op; destruct m.
  all: csolve.
  all: cfinish.
Qed.
