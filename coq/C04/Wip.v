From Base Require Import CInt.
From C04 Require Import Gen Model Tactics ProofsNarrow ProofsA.
Local Open Scope Z_scope.
(* nelua_assert_imod_<T>: "division by zero" iff b = 0, Lua's floor modulo otherwise *)
Lemma imod_fn_correct t a b : wf_ity t -> sgn t = true -> in_range t a -> in_range t b ->
  ccall Gnu (imod_fn t true) [a; b] = if b =? 0 then Opanic MSG_DIVZERO else Oval (a mod b).
Proof.
  intros Ht Hs Ha Hb.
  pose proof (lxor_range_signed t a b Ht Hs Ha Hb) as Hx. apply in_rangeb_spec in Hx.
  apply in_rangeb_spec in Ha. apply in_rangeb_spec in Hb.
  destruct (b =? 0) eqn:B0.
  { ity_cases t Ht; try discriminate Hs; clear Hs. all: csolve. all: cfinish. }
  destruct (b =? -1) eqn:B1.
  { assert (b = -1) as -> by lia. replace (a mod -1) with 0 by (apply Z.mod_unique with (q := - a); lia).
    ity_cases t Ht; try discriminate Hs; clear Hs. all: csolve. all: cfinish. }
  rewrite (mod_from_rem a b) by lia.
  pose proof (rem_bounds a b ltac:(lia)) as [R1 R2].
  ity_cases t Ht; try discriminate Hs; clear Hs.
  - assert (in_rangeb I8 (Z.rem a b) = true) by range_facts I8.
    assert (in_rangeb I32 (Z.rem a b) = true) by (unfold I32; range_facts I8).
    assert (in_rangeb I32 (Z.lxor a b) = true) by (unfold I32; range_facts I8).
    csolve. all: repeat (split_one; zblack; eval_closed; bool_simpl; drop_wraps). all: try cleaf. Show.
Abort.
