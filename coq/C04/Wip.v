From Base Require Import CInt.
From C04 Require Import Gen Model Tactics.
Local Open Scope Z_scope.

Ltac Zify.zify_post_hook ::= Z.to_euclidean_division_equations.

Lemma floor_from_trunc a b : b <> 0 ->
  a / b = if Z.quot a b * b =? a then Z.quot a b
          else Z.quot a b - (if Bool.eqb (a <? 0) (b <? 0) then 0 else 1).
Proof.
  intros Hb. destruct (Z.quot a b * b =? a) eqn:E; destruct (a <? 0) eqn:Ea; destruct (b <? 0) eqn:Eb;
    cbn [Bool.eqb]; nia.
Qed.

Lemma quot_bounds a b : b <> 0 ->
  Z.abs (Z.quot a b) <= Z.abs a /\ Z.abs (Z.quot a b * b) <= Z.abs a.
Proof.
  intros Hb.
  assert (E : Z.abs (Z.quot a b) = Z.abs a / Z.abs b).
  { rewrite <- Z.quot_abs by exact Hb. apply Z.quot_div_nonneg; lia. }
  rewrite Z.abs_mul, E.
  pose proof (Z.mul_div_le (Z.abs a) (Z.abs b) ltac:(lia)).
  split; [|lia].
  apply Z.div_le_upper_bound; nia.
Qed.

Lemma idiv_I8 a b : in_range I8 a -> in_range I8 b ->
  ccall Gnu (idiv_fn I8 true) [a; b] = if b =? 0 then Opanic MSG_DIVZERO else Oval (wrap I8 (a / b)).
Proof.
  intros Ha Hb. apply in_rangeb_spec in Ha. apply in_rangeb_spec in Hb.
  destruct (b =? 0) eqn:B0; [csolve; cfinish|].
  destruct (b =? -1) eqn:B1; [csolve; cfinish|].
  rewrite (floor_from_trunc a b) by lia.
  pose proof (quot_bounds a b ltac:(lia)) as [Q1 Q2].
  assert (Hq : in_rangeb I8 (Z.quot a b) = true) by (expose_ranges; unfold I8 in *; expose_ranges; lia).
  assert (Hq32 : in_rangeb I32 (Z.quot a b) = true) by (expose_ranges; unfold I8, I32 in *; expose_ranges; lia).
  assert (Hqb : in_rangeb I32 (Z.quot a b * b) = true) by (expose_ranges; unfold I8, I32 in *; expose_ranges; lia).
  Time csolve. Show.
Abort.
