From Base Require Import CInt.
From C04 Require Import Gen Model Tactics ProofsNarrow ProofsHead.
Local Open Scope Z_scope.
(* ================================================================ the needs-check decision *)

Lemma no_check_sound d s : wf_ity d -> wf_ity s ->
  (needs_check d s = false <-> forall x, in_range s x -> in_range d x).
Proof.
  intros Hd Hs. unfold needs_check, type_inrange. split.
  - intros H x Hx. apply negb_false_iff in H. apply andb_prop in H. destruct H as [H1 H2].
    apply in_rangeb_spec in H1, H2. unfold in_range in *. lia.
  - intros H. apply negb_false_iff. apply andb_true_intro. split; apply in_rangeb_spec; apply H.
    + pose proof (tmin_le_tmax s Hs). unfold in_range. lia.
    + pose proof (tmin_le_tmax s Hs). unfold in_range. lia.
Qed.

(* implicit conversion in a checked build: exact *)
Lemma implicit_conv_correct m s d x : wf_ity s -> wf_ity d -> in_range s x ->
  implicit_conv m s d x = if in_rangeb d x then Oval x else Opanic MSG_NARROW.
Proof.
  intros Hs Hd Hx. unfold implicit_conv. destruct (needs_check d s) eqn:N.
  - destruct (narrow_fn_defined s d Hs Hd N) as [f Hf]. rewrite Hf.
    apply narrow_fn_correct with (s := s); assumption.
  - pose proof (proj1 (no_check_sound d s Hd Hs) N x Hx) as Hdx.
    unfold c_cast. rewrite c_conv_inrange by assumption.
    apply in_rangeb_spec in Hdx. rewrite Hdx. reflexivity.
Qed.

(* explicit casts never trap and wrap (gcc/clang semantics) *)
Lemma cast_wraps d x : wf_ity d -> explicit_cast Gnu d x = Oval (wrap d x).
Proof. intros Hd. unfold explicit_cast, c_cast. rewrite c_conv_gnu by exact Hd. reflexivity. Qed.

(* under ISO C alone the cast is defined only towards unsigned types or for representable values *)
Lemma cast_iso d x : wf_ity d ->
  explicit_cast Wrapv d x = if negb (sgn d) || in_rangeb d x then Oval (wrap d x) else Oub.
Proof.
  intros Hd. unfold explicit_cast, c_cast, c_conv. destruct (sgn d) eqn:S; cbn [is_gnu negb orb].
  - destruct (in_rangeb d x) eqn:R; [|reflexivity].
    apply in_rangeb_spec in R. rewrite wrap_id by assumption. reflexivity.
  - rewrite wrap_unsigned by exact S. reflexivity.
Qed.

(* ================================================================ conversion sites *)

Definition all_sites : list site :=
  [SArg; SDecl; SAssign; SRet1; SRet2; SRetDefer; SArrInit; SRecInit; SRecArrInit; SFor; SCast].

Lemma all_sites_complete st : In st all_sites.
Proof. destruct st; cbn; tauto. Qed.

(* full strength: every implicit conversion site is checked *)
Definition all_implicit_sites_checked : Prop :=
  forall st, site_implicit st = true -> site_checked st = true.

Lemma sites_refuted : ~ all_implicit_sites_checked.
Proof. intros H. specialize (H SRet1 eq_refl). vm_compute in H. discriminate. Qed.

Definition unchecked_today (st : site) : bool :=
  match st with SRet1 | SArrInit | SRecInit | SRecArrInit => true | _ => false end.

Lemma sites_partial st : site_implicit st = true -> site_checked st = negb (unchecked_today st).
Proof. destruct st; vm_compute; congruence. Qed.

Lemma convert_at_correct m st s d x : wf_ity s -> wf_ity d -> in_range s x -> site_checked st = true ->
  convert_at m st s d x = if in_rangeb d x then Oval x else Opanic MSG_NARROW.
Proof. intros Hs Hd Hx C. unfold convert_at. rewrite C. apply implicit_conv_correct; assumption. Qed.

Lemma convert_at_unchecked st s d x : wf_ity d -> site_checked st = false ->
  convert_at Gnu st s d x = Oval (wrap d x).
Proof. intros Hd C. unfold convert_at. rewrite C. apply cast_wraps; exact Hd. Qed.

(* ================================================================ array indexing *)

Lemma array_index_correct m t len i : wf_ity t -> in_range t i -> in_range USIZE len ->
  array_index m t len i = if (0 <=? i) && (i <? len) then Oval i else Opanic MSG_BOUNDS.
Proof. intros. unfold array_index. apply bounds_fn_correct; assumption. Qed.

(* ================================================================ library guards *)

(* when the accessor is allowed to proceed, in exact integers *)
Definition lib_valid (op : libop) (pos size impl : Z) : bool :=
  match op with
  | SpanAt | VecAt | VecRemove => pos <? size
  | VecInsert => pos <=? size
  | VecPop => 0 <? size
  | SeqAt => pos <=? size + 1
  | SeqInsert => (0 <? pos) && (pos <=? size + 1)
  | SeqRemove => negb (impl =? 0) && (0 <? pos) && (pos <=? size)
  | SeqPop => negb (impl =? 0) && (0 <? size)
  | StrAt => (1 <=? pos) && (pos <=? size)
  end.

Lemma lib_passes_correct m op pos size impl :
  in_range USIZE pos -> in_range USIZE size -> in_range U64 impl -> size + 1 <= tmax USIZE ->
  lib_passes m op pos size impl = Some (lib_valid op pos size impl).
Proof.
  intros Hp Hs Hi Hs1. apply in_rangeb_spec in Hp, Hs, Hi.
  unfold USIZE, USIZE_BITS in *.
  destruct op; destruct m.
  all: csolve.
  all: cfinish.
Qed.

Lemma site_arg_checked : site_checked SArg = true.
Proof. vm_compute. reflexivity. Qed.

(* an accessor called with an index i of any integer type: stopped with "narrow casting ..."
   when i is negative, with the library message when the position is invalid, and let through
   otherwise *)
Lemma lib_access_correct m op idx i size impl :
  wf_ity idx -> in_range idx i -> in_range USIZE size -> in_range U64 impl -> size + 1 <= tmax USIZE ->
  lib_access m op idx i size impl =
    if i <? 0 then Opanic MSG_NARROW
    else if lib_valid op i size impl then Oval 0 else Opanic MSG_LIB.
Proof.
  intros Hw Hi Hs Him Hs1. unfold lib_access.
  assert (Hu : wf_ity USIZE) by reflexivity.
  rewrite (convert_at_correct m SArg idx USIZE i Hw Hu Hi site_arg_checked).
  assert (R : in_rangeb USIZE i = negb (i <? 0)).
  { unfold USIZE, USIZE_BITS. revert Hi. ity_cases idx Hw; ity_norm; lia. }
  rewrite R. destruct (i <? 0) eqn:N; cbn [negb]; [reflexivity|].
  rewrite lib_passes_correct; try assumption.
  - destruct (lib_valid op i size impl); reflexivity.
  - apply in_rangeb_spec. rewrite R, N. reflexivity.
Qed.

(* ---------------------------------------------------------------- non-vacuity examples *)
Example ex_narrow_fires : ccall Gnu (mkcfun [I64] U8 (Sseq (Sif (Elor (Ebin Olt (Evar 0) (Elit I32 0)) (Ebin Ogt (Evar 0) (Elit I32 255))) (Spanic 2) Sskip) (Sret (Ecast U8 (Evar 0))))) [300] = Opanic 2.
Proof. reflexivity. Qed.
Example ex_narrow_fn : narrow_fn I64 U8 = Some (mkcfun [I64] U8 (Sseq (Sif (Elor (Ebin Olt (Evar 0) (Elit I32 0)) (Ebin Ogt (Evar 0) (Elit I32 255))) (Spanic 2) Sskip) (Sret (Ecast U8 (Evar 0))))).
Proof. reflexivity. Qed.
Example ex_narrow_passes : implicit_conv Gnu I64 U8 255 = Oval 255. Proof. reflexivity. Qed.
Example ex_needs : needs_check U8 I64 = true /\ needs_check I64 U8 = false /\ needs_check I64 U64 = true.
Proof. repeat split. Qed.
Example ex_bounds : array_index Gnu I8 5 (-1) = Opanic MSG_BOUNDS /\ array_index Gnu I8 5 4 = Oval 4.
Proof. split; reflexivity. Qed.
Example ex_idiv : run_idiv I8 (-128) (-1) = Oval (-128) /\ run_idiv I8 7 0 = Opanic MSG_DIVZERO /\ run_idiv I8 (-7) 2 = Oval (-4).
Proof. repeat split. Qed.
Example ex_imod : run_imod I64 (-7) 2 = Oval 1 /\ run_imod I64 7 (-2) = Oval (-1).
Proof. repeat split. Qed.
Example ex_lib : lib_access Gnu SeqRemove I8 0 5 1 = Opanic MSG_LIB /\ lib_access Gnu VecAt I8 (-1) 5 1 = Opanic MSG_NARROW
  /\ lib_access Gnu SeqAt U8 6 5 1 = Oval 0.
Proof. repeat split. Qed.
Example ex_sites : site_checked SRet1 = false /\ site_checked SRetDefer = true /\ site_checked SArrInit = false.
Proof. repeat split. Qed.

(* ---------------------------------------------------------------- the tie, as one statement *)
Lemma helpers_tie :
  (forall s d f, In (s, d, f) narrow_table -> narrow_fn s d = Some f /\ cfun_ok f = true) /\
  (forall t f, In (t, f) bounds_table -> Some (bounds_fn t) = Some f /\ cfun_ok f = true) /\
  (forall t f, In (t, f) idiv_table -> Some (idiv_fn t true) = Some f /\ cfun_ok f = true) /\
  (forall t f, In (t, f) imod_table -> Some (imod_fn t true) = Some f /\ cfun_ok f = true) /\
  deref_fn = deref_emitted /\
  (forall d s b, In (d, s, b) inrange_table -> needs_check d s = negb b) /\
  conv_sites = expected_sites /\
  (guard_span_at = lib_guard SpanAt /\ guard_vector_at = lib_guard VecAt /\
   guard_vector_insert = lib_guard VecInsert /\ guard_vector_remove = lib_guard VecRemove /\
   guard_vector_pop = lib_guard VecPop /\ guard_sequence_at = lib_guard SeqAt /\
   guard_sequence_insert = lib_guard SeqInsert /\ guard_sequence_remove = lib_guard SeqRemove /\
   guard_sequence_pop = lib_guard SeqPop /\ guard_string_at = lib_guard StrAt /\
   Some guard_sequence_at_pre = lib_pre SeqAt).
Proof.
  split; [|split; [|split; [|split; [|split; [|split; [|split]]]]]].
  - intros s d f H. exact (table_matches_spec (fun '(s, d) => narrow_fn s d) narrow_table narrow_table_ok (s, d) f H).
  - intros t f H. exact (table_matches_spec _ _ bounds_table_ok t f H).
  - intros t f H. exact (table_matches_spec _ _ idiv_table_ok t f H).
  - intros t f H. exact (table_matches_spec _ _ imod_table_ok t f H).
  - pose proof deref_ok as H. apply andb_prop in H. destruct H as [H _]. apply cfun_eqb_eq. exact H.
  - intros d s b H. pose proof inrange_table_ok as T. rewrite forallb_forall in T. specialize (T _ H). cbn in T.
    apply andb_prop in T. destruct T as [T _]. apply andb_prop in T. destruct T as [T _].
    apply Bool.eqb_prop in T. unfold needs_check. rewrite T. reflexivity.
  - exact conv_sites_ok.
  - repeat split; try (apply cexpr_eqb_eq; vm_compute; reflexivity).
    cbn [lib_pre]. f_equal. apply cexpr_eqb_eq. vm_compute. reflexivity.
Qed.
