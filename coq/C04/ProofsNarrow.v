(* nelua_assert_narrow_<S>_<D>: fires exactly on the values of S that D cannot represent, and
   returns the value unchanged otherwise - for every pair of well-formed types the generator
   accepts, every value of S, in every C mode (even strict ISO: no step of the helper depends
   on implementation-defined behaviour). *)
From Base Require Import CInt.
From C04 Require Import Gen Model Tactics.
Local Open Scope Z_scope.

Lemma narrow_fn_correct m s d f x : wf_ity s -> wf_ity d -> narrow_fn s d = Some f -> in_range s x ->
  ccall m f [x] = if in_rangeb d x then Oval x else Opanic MSG_NARROW.
Proof.
  intros Hs Hd Hf Hx. apply in_rangeb_spec in Hx.
  ity_cases s Hs; ity_cases d Hd; vm_compute in Hf; try discriminate Hf;
    injection Hf as <-; clear Hs Hd; destruct m.
  all: csolve.
  all: cfinish.
Qed.

(* the generator is defined wherever a check is needed *)
Lemma narrow_fn_defined s d : wf_ity s -> wf_ity d -> needs_check d s = true ->
  exists f, narrow_fn s d = Some f.
Proof.
  intros Hs Hd. ity_cases s Hs; ity_cases d Hd; vm_compute; intros H; try discriminate H; eexists; reflexivity.
Qed.
