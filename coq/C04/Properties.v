From Base Require Import CInt.
From C04 Require Import Gen Model Proofs.
Local Open Scope Z_scope.
