(* Property C04: run-time safety checks fire exactly when an operation is invalid.
   Only the property theorems, each closed by [exact] of a lemma of Proofs*.v and followed by
   Print Assumptions.  The model (Model.v) generates the C helpers as Base.CInt mini-C terms;
   C04_helpers_are_the_emitted_ones ties them to the C the real compiler generated on this run. *)
From Base Require Import CInt.
From C04 Require Import Gen Model ProofsNarrow ProofsDiv Proofs.
Local Open Scope Z_scope.

(* (T) every helper found in the generated C is, term for term, the one the model generates,
   every literal in it is in the range of its C type; the compiler's is_type_inrange table is
   the model's; a narrow helper is emitted exactly for the pairs that need one (forallb over the
   compiler's table) and the tables are not empty; the flags of the
   add_converted_val call sites and the library guards are the ones the model assumes *)
Theorem C04_helpers_are_the_emitted_ones :
  (forall s d f, In (s, d, f) narrow_table -> narrow_fn s d = Some f /\ cfun_ok f = true) /\
  (forall t f, In (t, f) bounds_table -> Some (bounds_fn t) = Some f /\ cfun_ok f = true) /\
  (forall t f, In (t, f) idiv_table -> Some (idiv_fn t true) = Some f /\ cfun_ok f = true) /\
  (forall t f, In (t, f) imod_table -> Some (imod_fn t true) = Some f /\ cfun_ok f = true) /\
  deref_fn = deref_emitted /\
  (forall d s b, In (d, s, b) inrange_table -> needs_check d s = negb b) /\
  conv_sites = expected_sites /\
  (forallb (fun '(d, s, b) =>
     Bool.eqb (existsb (fun '(s', d', _) => ity_eqb s s' && ity_eqb d d') narrow_table) (negb b)) inrange_table = true /\
   (50 <= Z.of_nat (length narrow_table) /\ 8 <= Z.of_nat (length bounds_table) /\
    4 <= Z.of_nat (length idiv_table) /\ 4 <= Z.of_nat (length imod_table) /\ 64 <= Z.of_nat (length inrange_table))) /\
  (guard_span_at = lib_guard SpanAt /\ guard_vector_at = lib_guard VecAt /\
   guard_vector_insert = lib_guard VecInsert /\ guard_vector_remove = lib_guard VecRemove /\
   guard_vector_pop = lib_guard VecPop /\ guard_sequence_at = lib_guard SeqAt /\
   guard_sequence_insert = lib_guard SeqInsert /\ guard_sequence_remove = lib_guard SeqRemove /\
   guard_sequence_pop = lib_guard SeqPop /\ guard_string_at = lib_guard StrAt /\
   Some guard_sequence_at_pre = lib_pre SeqAt).
Proof. exact helpers_tie. Qed.
Print Assumptions C04_helpers_are_the_emitted_ones.

(* narrow_fires_iff (+ value preserved): for every pair of integer types and every value of the
   source type, in every C mode, the emitted helper stops with "narrow casting" iff the
   destination cannot represent the value, and returns the value unchanged otherwise *)
Theorem C04_narrow_fires_iff : forall m s d f x,
  wf_ity s -> wf_ity d -> narrow_fn s d = Some f -> in_range s x ->
  ccall m f [x] = if in_rangeb d x then Oval x else Opanic MSG_NARROW.
Proof. exact narrow_fn_correct. Qed.
Print Assumptions C04_narrow_fires_iff.

(* no_check_sound (and complete): the compiler omits the check exactly when every value of the
   source type is representable in the destination *)
Theorem C04_no_check_sound : forall d s, wf_ity d -> wf_ity s ->
  (needs_check d s = false <-> forall x, in_range s x -> in_range d x).
Proof. exact no_check_sound. Qed.
Print Assumptions C04_no_check_sound.

(* every add_converted_val call of cgenerator.lua (the list is scraped on each run), except the
   explicit cast, performs the checked conversion.  (That every implicit conversion goes through
   add_converted_val is supported by a scrape - add_typed_val has that single caller - and by the
   driver's site streams, not by a theorem.) *)
Theorem C04_all_conversion_calls_checked :
  forall v o f u, In (v, o, f, u) conv_sites -> (v, o) <> (3, 1) -> call_checked f u = true.
Proof. exact conv_calls_all_checked. Qed.
Print Assumptions C04_all_conversion_calls_checked.

(* the same fact for the named sites the forking driver exercises *)
Theorem C04_all_sites_checked : forall st, site_implicit st = true -> site_checked st = true.
Proof. exact sites_all_checked. Qed.
Print Assumptions C04_all_sites_checked.

(* hence an implicit conversion, at any site, is exact: value kept or program stopped *)
Theorem C04_implicit_conversion_exact : forall m st s d x,
  wf_ity s -> wf_ity d -> in_range s x -> site_implicit st = true ->
  convert_at m st s d x = if in_rangeb d x then Oval x else Opanic MSG_NARROW.
Proof. exact convert_at_implicit. Qed.
Print Assumptions C04_implicit_conversion_exact.

(* bounds_fires_iff: for every index type, every index value, every length below 2^64 *)
Theorem C04_bounds_fires_iff : forall m t len i, wf_ity t -> in_range t i -> in_range USIZE len ->
  array_index m t len i = if (0 <=? i) && (i <? len) then Oval i else Opanic MSG_BOUNDS.
Proof. exact array_index_correct. Qed.
Print Assumptions C04_bounds_fires_iff.

Theorem C04_deref_fires_iff : forall m p, in_range U64 p ->
  ccall m deref_fn [p] = if p =? 0 then Opanic MSG_DEREF else Oval p.
Proof. exact deref_fn_correct. Qed.
Print Assumptions C04_deref_fires_iff.

(* idiv_check_iff: "division by zero" iff b = 0; otherwise Lua's floor division / modulo
   (gcc/clang semantics: the b = -1 shortcut relies on modular conversion to the signed type) *)
Theorem C04_idiv_check_iff : forall t a b, wf_ity t -> sgn t = true -> in_range t a -> in_range t b ->
  ccall Gnu (idiv_fn t true) [a; b] = if b =? 0 then Opanic MSG_DIVZERO else Oval (wrap t (a / b)).
Proof. exact idiv_fn_correct. Qed.
Print Assumptions C04_idiv_check_iff.

Theorem C04_imod_check_iff : forall t a b, wf_ity t -> sgn t = true -> in_range t a -> in_range t b ->
  ccall Gnu (imod_fn t true) [a; b] = if b =? 0 then Opanic MSG_DIVZERO else Oval (a mod b).
Proof. exact imod_fn_correct. Qed.
Print Assumptions C04_imod_check_iff.

(* `///` and `%%%` of signed integers: the full statement (tdiv_check_full: "division by zero"
   diagnostic iff b = 0, the truncated quotient / remainder otherwise) is FALSE of the emitted code *)
Theorem C04_tdiv_check_refuted : ~ tdiv_check_full.
Proof. exact tdiv_check_refuted. Qed.
Print Assumptions C04_tdiv_check_refuted.

(* ... what does hold: defined and exact for a non-zero divisor other than min / -1 on int32/int64 *)
Theorem C04_tdiv_check_partial : forall t a b, wf_ity t -> sgn t = true -> in_range t a -> in_range t b ->
  b <> 0 -> (bits t < 32 \/ ~ (a = tmin t /\ b = -1)) ->
  ccall Gnu (tdiv_fn t) [a; b] = Oval (wrap t (Z.quot a b)) /\
  ccall Gnu (tmod_fn t) [a; b] = Oval (wrap t (Z.rem a b)).
Proof. exact tdiv_check_partial. Qed.
Print Assumptions C04_tdiv_check_partial.

(* cast_wraps: explicit casts never trap; in gnu mode they are total and modular *)
Theorem C04_cast_wraps : forall d x, wf_ity d -> explicit_cast Gnu d x = Oval (wrap d x).
Proof. exact cast_wraps. Qed.
Print Assumptions C04_cast_wraps.

(* lib_guard_iff: span/vector/sequence/string accessors called with an index of any integer
   type stop the program iff the position is invalid (exact integers), for every size < 2^64 - 1 *)
Theorem C04_lib_guard_iff : forall m op idx i size impl,
  wf_ity idx -> in_range idx i -> in_range USIZE size -> in_range U64 impl -> size + 1 <= tmax USIZE ->
  lib_access m op idx i size impl =
    if i <? 0 then Opanic MSG_NARROW
    else if lib_valid op i size impl then Oval 0 else Opanic MSG_LIB.
Proof. exact lib_access_correct. Qed.
Print Assumptions C04_lib_guard_iff.
