(* Reads one case per line, prints the verdict of the extracted model:
     V <hex>   value        P <code>  stopped by a check (message code)     UB  undefined in Gnu mode
   case lines (numbers are hex text, '-' prefix for negatives; types as <bits> <0|1 signed>):
     narrow <site> <sb> <ss> <db> <ds> <x>      site = arg decl assign ret1 ret2 retdefer arrinit recinit for
     cast <db> <ds> <x>
     bounds <tb> <ts> <len> <i>
     idiv|imod <tb> <ts> <a> <b>
     deref <p>
     lib <op> <tb> <ts> <i> <size> <impl>       op = span_at vec_at vec_insert vec_remove vec_pop seq_at ...
     strbyte <i> <size>
     needs <db> <ds> <sb> <ss>                  prints B true|false *)
open Model
open Zutil

let ity b s = { bits = z_of_int (int_of_string b); sgn = (s = "1") }

let site_of = function
  | "arg" -> SArg | "decl" -> SDecl | "assign" -> SAssign
  | "massign2" | "massign3" | "mswap" | "mfield" -> SMAssign | "munpack" -> SMUnpack | "mdeclunpack" -> SDeclUnpack | "ret1" -> SRet1 | "ret2" -> SRet2
  | "retdefer" -> SRetDefer | "arrinit" -> SArrInit | "recinit" -> SRecInit | "recarrinit" -> SRecArrInit
  | "for" -> SFor | "cast" -> SCast | s -> failwith ("site " ^ s)

let op_of = function
  | "span_at" -> SpanAt | "vec_at" -> VecAt | "vec_insert" -> VecInsert | "vec_remove" -> VecRemove
  | "vec_pop" -> VecPop | "seq_at" -> SeqAt | "seq_insert" -> SeqInsert | "seq_remove" -> SeqRemove
  | "seq_pop" -> SeqPop | "str_at" -> StrAt | s -> failwith ("op " ^ s)

let show = function
  | Oval v -> "V " ^ hex_of_z v
  | Opanic c -> "P " ^ hex_of_z c
  | Oub -> "UB"

let () =
  iter_lines (fun line ->
    let out =
      try
        (match split_ws line with
         | [] -> ""
         | ["narrow"; st; sb; ss; db; ds; x] -> show (run_narrow (site_of st) (ity sb ss) (ity db ds) (z_of_hex x))
         | ["cast"; db; ds; x] -> show (run_cast (ity db ds) (z_of_hex x))
         | ["bounds"; tb; ts; len; i] -> show (run_bounds (ity tb ts) (z_of_hex len) (z_of_hex i))
         | ["idiv"; tb; ts; a; b] -> show (run_idiv (ity tb ts) (z_of_hex a) (z_of_hex b))
         | ["imod"; tb; ts; a; b] -> show (run_imod (ity tb ts) (z_of_hex a) (z_of_hex b))
         | ["tdiv"; tb; ts; a; b] -> show (run_tdiv (ity tb ts) (z_of_hex a) (z_of_hex b))
         | ["tmod"; tb; ts; a; b] -> show (run_tmod (ity tb ts) (z_of_hex a) (z_of_hex b))
         | ["tdivm"; sb; ss; ub; us; tb; ts; a; b] -> show (run_tdivm (ity sb ss) (ity ub us) (ity tb ts) (z_of_hex a) (z_of_hex b))
         | ["tmodm"; sb; ss; ub; us; tb; ts; a; b] -> show (run_tmodm (ity sb ss) (ity ub us) (ity tb ts) (z_of_hex a) (z_of_hex b))
         | ["deref"; p] -> show (run_deref (z_of_hex p))
         | ["lib"; op; tb; ts; i; size; impl] ->
             show (run_lib (op_of op) (ity tb ts) (z_of_hex i) (z_of_hex size) (z_of_hex impl))
         | ["strbyte"; i; size] -> show (string_byte (z_of_hex i) (z_of_hex size))
         | ["needs"; db; ds; sb; ss] -> if needs_check (ity db ds) (ity sb ss) then "B true" else "B false"
         | _ -> "?bad-case")
      with e -> "!exn " ^ Printexc.to_string e
    in
    print_string out; print_newline ())
