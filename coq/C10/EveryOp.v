(* One frame theorem for every command; C10_alloc_safe / C10_realloc_grow_safe split. *)
From C10 Require Import Model Proofs Safety Defects Frame Finalize Exit Garbage AllocSafe Abort OpFrame ReallocSafe.
Local Open Scope Z_scope.

(* ================= one frame theorem for every command ================= *)
Definition op_stk (o : op) : list Z :=
  match o with
  | OAlloc _ _ _ _ _ _ stk => stk
  | ORealloc _ _ _ stk => stk
  | OCollect stk => stk
  | OStep stk => stk
  | _ => []
  end.
(* the block a command is addressed to *)
Definition op_touches (o : op) (a : Z) : Prop :=
  match o with
  | OStore p _ _ => a = p
  | ODealloc p => a = p
  | OUnregister p => a = p
  | ORealloc p _ _ _ => a = p
  | _ => False
  end.
(* a realloc that moves the block (covered by C10_sweep_safe on the intermediate state only) *)
Definition op_moves (o : op) : bool :=
  match o with ORealloc p q _ _ => negb (q =? p) && negb (q =? 0) | _ => false end.

Lemma unchanged_safe (g g' : gc) a it : items g' = items g -> log g' = log g -> lookup a (items g) = Some it ->
  lookup a (items g') = Some it /\ (forall e, In e (log g') -> ev_addr e = a -> In e (log g)).
Proof. intros E1 E2 L. rewrite E1, E2. auto. Qed.

Lemma every_op_safe_state o g a it : Inv g -> wl_ok (items g) -> op_moves o = false ->
  reach (items g) (mark_seeds (op_stk o) g) a -> lookup a (items g) = Some it -> ~ op_touches o a ->
  lookup a (items (apply_op o g)) = Some it /\
  (forall e, In e (log (apply_op o g)) -> ev_addr e = a -> In e (log g)).
Proof.
  intros I WLK NM R L NT.
  destruct (err g) eqn:EG; [unfold apply_op; rewrite EG; auto|].
  destruct o; cbn [op_stk op_touches op_moves] in *.
  - (* alloc *)
    destruct ((0 <? size) && (size <? two64) && fresh ptr g && (0 <=? fk) && (fk <=? 3)) eqn:PRE.
    + destruct (alloc_safe_state stk ptr size leaf extern fk tag g a it I EG PRE R L) as (A & B & _). auto.
    + unfold apply_op. rewrite EG, PRE. now apply unchanged_safe.
  - apply (frame_no_cycle (OStore ptr i w) ptr g a eq_refl) in NT. destruct NT as [A B]. rewrite A. auto.
  - unfold apply_op. rewrite EG. destruct (lookup ptr (roots g)) as [[? ?]|]; [|now apply unchanged_safe].
    destruct (_ && _); now apply unchanged_safe.
  - (* realloc that does not move *)
    destruct (Z.eqb_spec newptr 0) as [Z0|NZ0].
    { subst newptr. unfold apply_op. rewrite EG. destruct (lookup ptr (items g)); [|now apply unchanged_safe].
      match goal with |- context [if ?c then gc_realloc _ _ _ _ _ else _] => destruct c end; [|now apply unchanged_safe].
      unfold gc_realloc. rewrite Z.eqb_refl. now apply unchanged_safe. }
    assert (E : newptr = ptr).
    { destruct (Z.eqb_spec newptr ptr); auto. destruct (Z.eqb_spec newptr 0); [contradiction|]. cbn in NM. discriminate. }
    subst newptr. clear NM.
    destruct (lookup ptr (items g)) as [itp|] eqn:Lp; [|unfold apply_op; rewrite EG, Lp; now apply unchanged_safe].
    destruct (Z_lt_dec 0 ptr) as [PP|PP]; [|unfold apply_op; rewrite EG, Lp;
      replace (0 <? ptr) with false by lia; cbn [andb]; now apply unchanged_safe].
    destruct (Z_lt_dec 0 newsize) as [NP|NP]; [|unfold apply_op; rewrite EG, Lp;
      replace (0 <? newsize) with false by lia; rewrite andb_false_r; cbn [andb]; now apply unchanged_safe].
    destruct (Z_lt_dec newsize two64) as [NT2|NT2]; [|unfold apply_op; rewrite EG, Lp;
      replace (newsize <? two64) with false by lia; rewrite andb_false_r; cbn [andb]; now apply unchanged_safe].
    destruct (Z_lt_dec (isize itp) newsize) as [GR|SH].
    + destruct (realloc_grow_safe_state stk ptr newsize g itp a it I WLK EG Lp PP NP (conj GR NT2) R L NT) as (A & B & _). auto.
    + unfold apply_op. rewrite EG, Lp.
      match goal with |- context [if ?c then gc_realloc _ _ _ _ _ else _] => destruct c end; [|now apply unchanged_safe].
      unfold gc_realloc. assert (P0 : (ptr =? 0) = false) by lia. rewrite P0. unfold reregister. rewrite P0.
      assert (NZ : (newsize <=? 0) = false) by lia. rewrite NZ. cbn [orb]. rewrite Z.eqb_refl, Lp.
      assert (G1 : (isize itp <? newsize) = false) by lia. rewrite G1.
      destruct (newsize <? isize itp); cbn [items log set_items set_membytes];
        (split; [rewrite lookup_update_other; auto | auto]).
  - apply (frame_no_cycle (ODealloc ptr) ptr g a eq_refl) in NT. destruct NT as [A B]. rewrite A. auto.
  - apply (frame_no_cycle (OUnregister ptr) ptr g a eq_refl) in NT. destruct NT as [A B]. rewrite A. auto.
  - (* regroot *)
    unfold apply_op. rewrite EG. destruct (_ && _); [|now apply unchanged_safe].
    unfold register. destruct (ptr =? 0); [auto|]. destruct (size <=? 0); [now apply unchanged_safe|].
    assert (RB : hasflag (bit ROOT_BIT) ROOT_BIT = true).
    { unfold hasflag, bit. pose proof ROOT_nonneg. rewrite Z.shiftl_1_l, Z.pow2_bits_eqb by lia. apply Z.eqb_refl. }
    rewrite RB. cbn [negb]. rewrite Z.eqb_refl. cbn [negb]. now apply unchanged_safe.
  - (* collect *)
    unfold apply_op. rewrite EG. apply collect_safe; auto. apply I. apply quiet'_quiet, I.
  - (* step *)
    unfold apply_op. rewrite EG. unfold step. destruct (step_due g); [|auto].
    apply collect_safe; auto. apply I. apply quiet'_quiet, I.
  - unfold apply_op. rewrite EG. destruct (_ && _); now apply unchanged_safe.
  - unfold apply_op. rewrite EG. now apply unchanged_safe.
  - unfold apply_op. rewrite EG. now apply unchanged_safe.
Qed.

(* every command of every history, except a realloc that moves its block, leaves every block
   that is reachable (from the roots and the stack words the command supplies) and is not the
   block the command is addressed to exactly as it was, and logs nothing about it *)
Lemma every_op_safe h o a it : op_moves o = false ->
  reach (items (run h gc_init)) (mark_seeds (op_stk o) (run h gc_init)) a ->
  lookup a (items (run h gc_init)) = Some it -> ~ op_touches o a ->
  lookup a (items (apply_op o (run h gc_init))) = Some it /\
  (forall e, In e (log (apply_op o (run h gc_init))) -> ev_addr e = a -> In e (log (run h gc_init))).
Proof.
  apply every_op_safe_state.
  - apply (Inv_run h gc_init Inv_init).
  - apply wl_run; [apply Inv_init | intros x v L; discriminate].
Qed.

(* C10_alloc_safe / C10_realloc_grow_safe split into what is proved about the collector and what
   merely restates the modelling assumption "the pointer being (re)registered sits in a scanned
   stack slot or register while GC:register / GC:reregister runs" (the model passes ptr :: stk) *)
Lemma alloc_safe_others h stk ptr size leaf extern fk tag a it :
  err (run h gc_init) = None ->
  ((0 <? size) && (size <? two64) && fresh ptr (run h gc_init) && (0 <=? fk) && (fk <=? 3)) = true ->
  reach (items (run h gc_init)) (mark_seeds stk (run h gc_init)) a -> lookup a (items (run h gc_init)) = Some it ->
  lookup a (items (apply_op (OAlloc ptr size leaf extern fk tag stk) (run h gc_init))) = Some it /\
  (forall e, In e (log (apply_op (OAlloc ptr size leaf extern fk tag stk) (run h gc_init))) -> ev_addr e = a ->
     In e (log (run h gc_init))).
Proof. intros E P R L. destruct (alloc_safe h stk ptr size leaf extern fk tag a it E P R L) as (A & B & _). auto. Qed.

Lemma alloc_fresh_survives_if_scanned h stk ptr size leaf extern fk tag :
  err (run h gc_init) = None ->
  ((0 <? size) && (size <? two64) && fresh ptr (run h gc_init) && (0 <=? fk) && (fk <=? 3)) = true ->
  exists itn, lookup ptr (items (apply_op (OAlloc ptr size leaf extern fk tag stk) (run h gc_init))) = Some itn /\
     isize itn = size /\ iwords itn = repeat 0 (nwords size).
Proof.
  intros E P. set (g := run h gc_init) in *.
  assert (I : Inv g) by apply (Inv_run h gc_init Inv_init).
  unfold apply_op. rewrite E, P.
  repeat (apply andb_prop in P; destruct P as [P ?]).
  match goal with H : fresh ptr g = true |- _ => unfold fresh in H; repeat (apply andb_prop in H; destruct H as [H ?]) end.
  assert (P0 : (ptr =? 0) = false) by lia. assert (S0 : (size =? 0) = false) by lia.
  assert (LN : lookup ptr (items g) = None) by (destruct (lookup ptr (items g)); [discriminate | reflexivity]).
  unfold gc_alloc. rewrite S0, P0. unfold register. rewrite P0. assert (SZ : (size <=? 0) = false) by lia. rewrite SZ.
  rewrite user_flags_no_root. cbn [negb].
  assert (LN' : lookup ptr (items (if fk =? 0 then g else set_nextfid (nextfid g + 1) g)) = None) by (destruct (fk =? 0); exact LN).
  rewrite LN'.
  match goal with |- context [if running ?G then step _ ?G else ?G] => set (G0 := G) end.
  assert (I0 : Inv G0).
  { subst G0. apply Inv_reg_mid; [destruct (fk =? 0); auto; destruct I as [W Q]; split; [now apply WF_set_nextfid | exact Q]
                                 | exact LN' | apply reg_flags_unmarked, user_flags_unmarked]. }
  assert (Lp : exists itn, lookup ptr (items G0) = Some itn /\ isize itn = size /\ iwords itn = repeat 0 (nwords size)).
  { subst G0. cbn [items set_membytes set_masks set_items lookup]. rewrite Z.eqb_refl. eexists. split; [reflexivity|]. split; reflexivity. }
  destruct (running G0); [|exact Lp]. unfold step. destruct (step_due G0); [|exact Lp].
  destruct Lp as (itn & Ln & Sn & Wn).
  assert (Rp : reach (items G0) (mark_seeds (ptr :: stk) G0) ptr).
  { eapply (reach_seed _ _ (ptr :: stk)); [now left | now left | eapply lookup_In_keys; eauto]. }
  destruct (collect_safe (ptr :: stk) G0 ptr itn (proj1 I0) (quiet'_quiet _ (proj2 I0)) Rp Ln) as [K _].
  exists itn. auto.
Qed.

Lemma realloc_grow_safe_others h stk p n itp a it :
  err (run h gc_init) = None ->
  lookup p (items (run h gc_init)) = Some itp -> 0 < p -> 0 < n -> isize itp < n < two64 ->
  reach (items (run h gc_init)) (mark_seeds stk (run h gc_init)) a ->
  lookup a (items (run h gc_init)) = Some it -> a <> p ->
  lookup a (items (apply_op (ORealloc p p n stk) (run h gc_init))) = Some it /\
  (forall e, In e (log (apply_op (ORealloc p p n stk) (run h gc_init))) -> ev_addr e = a -> In e (log (run h gc_init))).
Proof. intros. destruct (realloc_grow_safe h stk p n itp a it) as (A & B & _); auto. Qed.
