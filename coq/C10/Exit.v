(* Exactly once by normal exit: when no assert fired nothing is lost ([tot] preserved exactly by
   every collector function), GC:destroy leaves nothing registered. *)
From C10 Require Import Model Proofs Safety Defects Frame Finalize.
Local Open Scope Z_scope.

(* ================= exactly once by normal exit ================= *)
(* when no assert fired, no finalizer registration is lost: [tot] is preserved exactly *)
Definition ex_tot (g g' : gc) : Prop :=
  err g' = None -> err g = None /\ nextfid g' = nextfid g /\ forall k, tot g' k = tot g k.

Lemma ex_tot_refl g : ex_tot g g. Proof. intros E. auto. Qed.
Lemma ex_tot_trans a b c : ex_tot a b -> ex_tot b c -> ex_tot a c.
Proof.
  intros H1 H2 E. destruct (H2 E) as (E1 & N1 & T1). destruct (H1 E1) as (E0 & N0 & T0).
  split; auto. split; [congruence|]. intros k. rewrite T1. auto.
Qed.

Lemma err_set_err e g : err (set_err e g) <> None.
Proof. unfold set_err. cbn. destruct (err g); discriminate. Qed.
Lemma ex_tot_set_err e g : ex_tot g (set_err e g).
Proof. intros E. exfalso. eapply err_set_err; eauto. Qed.

(* finalizers attached to items always carry the FINALIZE flag *)
Definition FF (its : list (Z * item)) : Prop :=
  forall a it, lookup a its = Some it -> ifin it <> None -> hasflag (iflags it) FINALIZE_BIT = true.

Lemma FF_shrink its its' : shrink its its' -> FF its -> FF its'.
Proof.
  intros S H a it' L N. destruct (S a it' L) as (it & L0 & (_ & _ & _ & C4 & C5)).
  rewrite C4. { apply (H a it L0). destruct C5 as [C5|C5]; congruence. }
  intros E. symmetry in E. now apply MARK_not_FINALIZE in E.
Qed.

Definition cb_ex (cb : fin -> Z -> gc -> gc) : Prop :=
  forall f p g, NoDup (keys (items g)) -> err (cb f p g) = None ->
    err g = None /\ nextfid (cb f p g) = nextfid g /\ forall k, tot (cb f p g) k = tot g k + fc (Some f) k.

Lemma ex_unregister cb fz p g : cb_ex cb -> NoDup (keys (items g)) -> ex_tot g (unregister cb fz p g).
Proof.
  intros Hcb ND. unfold unregister. destruct (p =? 0); [apply ex_tot_refl|].
  destruct (lookup p (items g)) as [it|] eqn:L.
  - set (g1 := set_finq _ _).
    assert (ND1 : NoDup (keys (items g1))) by (subst g1; cbn [items set_finq set_membytes set_items]; now apply NoDup_keys_remove).
    assert (T1 : forall k, tot g1 k = tot g k - fc (ifin it) k).
    { intros k. subst g1. unfold tot. cbn [items log dropped set_finq set_membytes set_items]. rewrite (fcnt_remove p it) by auto. lia. }
    destruct (ifin it) as [f|] eqn:F.
    + destruct fz.
      * intros E. destruct (Hcb f p g1 ND1 E) as (E1 & N1 & A). split; [exact E1|]. split; [exact N1|].
        intros k. rewrite A, T1. lia.
      * intros E. split; [exact E|]. split; [reflexivity|]. intros k. unfold tot. cbn [items log dropped set_dropped].
        rewrite dcnt_cons. specialize (T1 k). unfold tot in T1. cbn [fc] in T1. lia.
    + intros E. split; [exact E|]. split; [reflexivity|]. intros k. rewrite T1. cbn [fc]. lia.
  - destruct (lookup p (roots g)); [|apply ex_tot_set_err]. intros E. split; [exact E|]. split; reflexivity.
Qed.

Lemma ex_call_fin n : cb_ex (call_fin n).
Proof.
  induction n as [|n IH]; intros f p g ND; cbn [call_fin].
  - intros E. exfalso. eapply err_set_err; eauto.
  - set (g0 := add_log (EvFin (fid f) (ftag f) p) g).
    assert (ND0 : NoDup (keys (items g0))) by exact ND.
    destruct (fkind f =? 2).
    + intros E. destruct (ex_unregister (call_fin n) false p g0 IH ND0 E) as (E0 & N0 & A).
      split; [exact E0|]. split; [exact N0|]. intros k. rewrite tot_add_log_free by reflexivity. rewrite A. subst g0. apply tot_add_log_fin.
    + destruct (fkind f =? 3).
      * intros E. destruct (ex_unregister (call_fin n) true p g0 IH ND0 E) as (E0 & N0 & A).
        split; [exact E0|]. split; [exact N0|]. intros k. rewrite tot_add_log_free by reflexivity. rewrite A. subst g0. apply tot_add_log_fin.
      * intros E. split; [exact E|]. split; [reflexivity|]. intros k. subst g0. apply tot_add_log_fin.
Qed.

Lemma ex_sweep2 k0 : forall i g, NoDup (keys (items g)) -> ex_tot g (sweep2 k0 i g).
Proof.
  induction k0 as [|k0 IH]; intros i g ND; cbn [sweep2]; [apply ex_tot_refl|].
  set (g' := match nth_error (finq g) i with Some (Some ptr) => _ | _ => g end).
  assert (H : ex_tot g g' /\ NoDup (keys (items g'))).
  { subst g'. destruct (nth_error (finq g) i) as [[ptr|]|]; try (split; [apply ex_tot_refl | auto]).
    destruct (lookup ptr (items g)) as [it|] eqn:L; try (split; [apply ex_tot_refl | auto]).
    destruct (ifin it) as [f|] eqn:F; try (split; [apply ex_tot_refl | auto]).
    set (g1 := set_items (update ptr (clear_fin it) (items g)) g).
    assert (ND1 : NoDup (keys (items g1))) by (subst g1; cbn [items set_items]; rewrite keys_update; auto).
    split; [|apply (tot_call_fin FIN_FUEL f ptr g1 ND1)].
    intros E. destruct (ex_call_fin FIN_FUEL f ptr g1 ND1 E) as (E1 & N1 & A). split; [exact E1|]. split; [exact N1|].
    intros k. unfold run_fin. rewrite A. subst g1. unfold tot. cbn [items log dropped set_items].
    rewrite (fcnt_update ptr it) by auto. rewrite F. cbn [clear_fin ifin fc]. lia. }
  destruct H as [T ND']. eapply ex_tot_trans; [exact T | apply IH; exact ND'].
Qed.

(* entries of the finalize queue are stable or become nil while finalizers run *)
Definition qstable (g g' : gc) : Prop :=
  length (finq g') = length (finq g) /\
  forall j x, nth_error (finq g') j = Some (Some x) -> nth_error (finq g) j = Some (Some x).
Lemma qstable_refl g : qstable g g. Proof. split; auto. Qed.
Lemma qstable_trans a b c : qstable a b -> qstable b c -> qstable a c.
Proof. intros [A1 A2] [B1 B2]. split; [congruence | auto]. Qed.

Lemma replace_first_stable p q : length (finq_replace_first p None q) = length q /\
  forall j x, nth_error (finq_replace_first p None q) j = Some (Some x) -> nth_error q j = Some (Some x).
Proof.
  induction q as [|[y|] r [IH1 IH2]]; cbn [finq_replace_first]; [split; auto| |].
  - destruct (y =? p).
    + split; [reflexivity|]. intros [|j] x; cbn; [discriminate | auto].
    + split; [cbn; lia|]. intros [|j] x; cbn; auto.
  - split; [cbn; lia|]. intros [|j] x; cbn; auto.
Qed.

Definition cb_qs (cb : fin -> Z -> gc -> gc) : Prop := forall f p g, qstable g (cb f p g).

Lemma qs_unregister cb fz p g : cb_qs cb -> qstable g (unregister cb fz p g).
Proof.
  intros Hcb. unfold unregister. destruct (p =? 0); [apply qstable_refl|].
  destruct (lookup p (items g)) as [it|].
  - set (g1 := set_finq _ _).
    assert (Q1 : qstable g g1) by (subst g1; unfold qstable; cbn [finq set_finq]; apply replace_first_stable).
    destruct (ifin it); auto. destruct fz; auto. eapply qstable_trans; eauto.
  - destruct (lookup p (roots g)); split; auto.
Qed.
Lemma qs_call_fin n : cb_qs (call_fin n).
Proof.
  induction n as [|n IH]; intros f p g; cbn [call_fin]; [split; auto|].
  destruct (fkind f =? 2); [|destruct (fkind f =? 3)]; try (split; auto; fail).
  - exact (qs_unregister (call_fin n) false p (add_log _ g) IH).
  - exact (qs_unregister (call_fin n) true p (add_log _ g) IH).
Qed.

(* after the second loop of GC_sweep every item still named by the queue has no finalizer left *)
Definition qdone (i : nat) (g : gc) : Prop :=
  forall j p it, (j < i)%nat -> nth_error (finq g) j = Some (Some p) -> lookup p (items g) = Some it -> ifin it = None.

Lemma shrink_fin_none its its' p it' : shrink its its' -> lookup p its' = Some it' ->
  (forall it, lookup p its = Some it -> ifin it = None) -> ifin it' = None.
Proof.
  intros S L H. destruct (S p it' L) as (it & L0 & (_ & _ & _ & _ & C5)).
  destruct C5 as [C5|C5]; auto. rewrite C5. eauto.
Qed.

Lemma sweep2_done k0 : forall i g, qdone i g ->
  qdone (i + k0) (sweep2 k0 i g) /\ qstable g (sweep2 k0 i g).
Proof.
  induction k0 as [|k0 IH]; intros i g D; cbn [sweep2].
  - rewrite Nat.add_0_r. split; [exact D | apply qstable_refl].
  - set (g' := match nth_error (finq g) i with Some (Some ptr) => _ | _ => g end).
    assert (H : shrink (items g) (items g') /\ qstable g g' /\
                (forall p it', nth_error (finq g) i = Some (Some p) -> lookup p (items g') = Some it' -> ifin it' = None)).
    { subst g'. destruct (nth_error (finq g) i) as [[ptr|]|] eqn:N;
        try (split; [apply shrink_refl | split; [apply qstable_refl | intros; discriminate]]).
      destruct (lookup ptr (items g)) as [it|] eqn:L.
      - destruct (ifin it) as [f|] eqn:F.
        + set (g1 := set_items (update ptr (clear_fin it) (items g)) g).
          assert (S1 : shrink (items g) (items g1)) by (subst g1; cbn [items set_items]; eapply shrink_update; eauto; apply core_eq_clear_fin).
          split; [eapply shrink_trans; [exact S1 | apply shrink_call_fin]|].
          split; [apply (qs_call_fin FIN_FUEL f ptr g1)|].
          intros p it' E L'. inversion E; subst p.
          eapply (shrink_fin_none (items g1)); [apply shrink_call_fin | exact L' |].
          intros it1 L1. subst g1. cbn [items set_items] in L1.
          rewrite lookup_update_same in L1 by (eapply lookup_In_keys; eauto). inversion L1. reflexivity.
        + split; [apply shrink_refl|]. split; [apply qstable_refl|]. intros p it' E L'. inversion E; subst p. congruence.
      - split; [apply shrink_refl|]. split; [apply qstable_refl|]. intros p it' E L'. inversion E; subst p. congruence. }
    destruct H as (SH & QS & Hi).
    assert (D' : qdone (S i) g').
    { intros j p it' Hj N' L'. destruct QS as [_ QS2]. pose proof (QS2 j p N') as N0.
      destruct (Nat.eq_dec j i) as [->|NE].
      - eapply Hi; eauto.
      - eapply (shrink_fin_none (items g)); eauto. intros it0 L0. eapply D; eauto. lia. }
    destruct (IH (S i) g' D') as [D2 Q2]. split.
    + replace (i + S k0)%nat with (S i + k0)%nat by lia. exact D2.
    + eapply qstable_trans; eauto.
Qed.

(* third loop: items removed there have no finalizer left, nothing is lost *)
Lemma ex_sweep3 q : forall g,
  (forall p it, In (Some p) q -> lookup p (items g) = Some it -> ifin it = None) ->
  NoDup (keys (items g)) ->
  err (sweep3 q g) = err g /\ nextfid (sweep3 q g) = nextfid g /\ forall k, tot (sweep3 q g) k = tot g k.
Proof.
  induction q as [|[p|] r IH]; intros g H ND; cbn [sweep3]; auto.
  - destruct (lookup p (items g)) as [it|] eqn:L.
    + assert (Fn : ifin it = None) by (eapply H; eauto; now left).
      set (g1 := set_membytes (wsub (membytes g) (isize it)) (set_items (remove p (items g)) g)).
      assert (T1 : forall k, tot g1 k = tot g k).
      { intros k. subst g1. unfold tot. cbn [items log dropped set_membytes set_items].
        rewrite (fcnt_remove p it) by auto. rewrite Fn. cbn [fc]. lia. }
      assert (H1 : forall p0 it0, In (Some p0) r -> lookup p0 (items g1) = Some it0 -> ifin it0 = None).
      { intros p0 it0 I L0. subst g1. cbn [items set_membytes set_items] in L0.
        destruct (Z.eq_dec p0 p) as [->|NE]; [rewrite lookup_remove_same in L0; discriminate|].
        rewrite lookup_remove_other in L0 by auto. eapply H; eauto. now right. }
      assert (ND1 : NoDup (keys (items g1))) by (subst g1; cbn [items set_membytes set_items]; now apply NoDup_keys_remove).
      destruct (hasflag (iflags it) EXTERN_BIT).
      * destruct (IH g1 H1 ND1) as (A & B & C). split; [exact A|]. split; [exact B|]. intros k. rewrite C. apply T1.
      * destruct (IH (add_log (EvFree p) g1) H1 ND1) as (A & B & C). split; [exact A|]. split; [exact B|].
        intros k. rewrite C. rewrite tot_add_log_free by reflexivity. apply T1.
    + apply IH; auto. intros p0 it0 I. apply H. now right.
  - apply IH; auto. intros p0 it0 I. apply H. now right.
Qed.

Lemma fcnt_sweep_keep_exact its k : FF its -> NoDup (keys its) -> fcnt (flat_map sweep_keep its) k = fcnt its k.
Proof.
  induction its as [|[p v] r IH]; intros F ND; cbn [flat_map]; [reflexivity|].
  change (keys ((p, v) :: r)) with (p :: keys r) in ND. inversion ND; subst.
  assert (Fr : FF r).
  { intros a it L. apply (F a it). cbn [lookup]. destruct (Z.eqb_spec p a); auto. subst.
    exfalso. apply H1. eapply lookup_In_keys; eauto. }
  rewrite fcnt_app, fcnt_cons, IH by auto. unfold sweep_keep at 1. cbn [fst snd].
  assert (E0 : fcnt [] k = 0) by reflexivity.
  destruct (marked v); [rewrite fcnt_cons, E0; cbn [clr_mark ifin]; lia|].
  destruct (hasflag (iflags v) FINALIZE_BIT) eqn:Fl; [rewrite fcnt_cons, E0; lia|].
  rewrite E0. destruct (ifin v) eqn:Fv; [|cbn [fc]; lia].
  exfalso. assert (X : hasflag (iflags v) FINALIZE_BIT = true); [|congruence].
  apply (F p v); [cbn [lookup]; now rewrite Z.eqb_refl | congruence].
Qed.

Lemma In_nth_error_lt {A} (l : list A) x : In x l -> exists j, (j < length l)%nat /\ nth_error l j = Some x.
Proof.
  intros I. destruct (In_nth_error _ _ I) as [j E]. exists j. split; auto.
  apply nth_error_Some. congruence.
Qed.

Lemma ex_sweep g : NoDup (keys (items g)) -> FF (items g) -> finq g = [] -> ex_tot g (sweep g).
Proof.
  intros ND F FQ. unfold sweep. pose proof (sweep1_spec (items g) (membytes g)) as S1.
  destruct (sweep1 (items g) (membytes g)) as [[[kept q] freed] mem]. destruct S1 as (K & _).
  set (g0 := fold_left (fun g p => add_log (EvFree p) g) freed g).
  set (g1 := set_finq (finq g ++ map Some q) _).
  assert (E1 : err g1 = err g).
  { subst g1 g0. cbn [err set_finq set_membytes set_items]. clear. generalize g. induction freed; cbn; auto. intros g0. now rewrite IHfreed. }
  assert (N1 : nextfid g1 = nextfid g) by (subst g1; cbn [nextfid set_finq set_membytes set_items]; apply nextfid_fold_free).
  assert (T1 : forall k, tot g1 k = tot g k).
  { intros k. subst g1. unfold tot. cbn [items log dropped set_finq set_membytes set_items].
    pose proof (tot_fold_free freed g k) as TF. unfold tot in TF. fold g0 in TF.
    assert (H0 : items g0 = items g) by apply items_fold_free. rewrite H0 in TF.
    subst kept. rewrite fcnt_sweep_keep_exact by auto. lia. }
  assert (ND1 : NoDup (keys (items g1))) by (subst g1; cbn [items set_finq set_membytes set_items]; subst kept; now apply sweep_keep_nodup).
  pose proof (ex_sweep2 (length (finq g1)) 0 g1 ND1) as X2.
  assert (D0 : qdone 0 g1) by (intros j p it Hj; lia).
  destruct (sweep2_done (length (finq g1)) 0 g1 D0) as [D2 Q2].
  set (g2 := sweep2 (length (finq g1)) 0 g1) in *.
  destruct (tot_sweep2 (length (finq g1)) 0 g1 ND1) as [_ ND2]. fold g2 in ND2.
  assert (H3 : forall p it, In (Some p) (finq g2) -> lookup p (items g2) = Some it -> ifin it = None).
  { intros p it I L. destruct (In_nth_error_lt _ _ I) as (j & Hj & Nj). eapply D2; eauto.
    destruct Q2 as [QL _]. cbn [Nat.add]. lia. }
  destruct (ex_sweep3 (finq g2) g2 H3 ND2) as (E3 & N3 & T3).
  intros E. cbn [err set_finq] in E. rewrite E3 in E. destruct (X2 E) as (E1' & N2 & T2).
  split; [congruence|]. split.
  - cbn [nextfid set_finq]. rewrite N3. fold g2 in N2. congruence.
  - intros k. change (tot (set_finq [] (sweep3 (finq g2) g2)) k) with (tot (sweep3 (finq g2) g2) k).
    rewrite T3. fold g2 in T2. rewrite T2. apply T1.
Qed.

Lemma FF_mext its its' : mext its its' -> FF its -> FF its'.
Proof. intros X. apply FF_shrink. now apply shrink_mext. Qed.

Lemma ex_collect stk g : Inv g -> FF (items g) -> ex_tot g (collect stk g).
Proof.
  intros [W Q] F. unfold collect. destruct (collecting g || (membytes g =? 0)); [apply ex_tot_refl|].
  destruct (mark stk (set_collecting true g)) as [its|] eqn:M; [|intros E; exfalso; eapply err_set_err; eauto].
  assert (X : mext (items g) its) by (apply (mark_mext stk (set_collecting true g)); auto; now apply WF_set_collecting).
  assert (ND' : NoDup (keys its)) by (eapply mext_nodup; eauto; apply W).
  pose proof (ex_sweep (set_items its (set_collecting true g)) ND' (FF_mext _ _ X F) (proj1 (proj2 Q))) as XS.
  intros E. cbn [err set_collecting set_lastmembytes] in E. destruct (XS E) as (E0 & N0 & T0).
  split; [exact E0|]. split; [exact N0|]. intros k.
  change (tot (set_collecting false (set_lastmembytes (membytes (sweep (set_items its (set_collecting true g)))) (sweep (set_items its (set_collecting true g))))) k)
    with (tot (sweep (set_items its (set_collecting true g))) k).
  rewrite T0. unfold tot. cbn [items log dropped set_items set_collecting].
  rewrite (mark_fcnt stk (set_collecting true g) its k); auto. apply W.
Qed.

Lemma ex_step stk g : Inv g -> FF (items g) -> ex_tot g (step stk g).
Proof. intros I F. unfold step. destruct (step_due g); [now apply ex_collect | apply ex_tot_refl]. Qed.

(* completeness: while no assert fired every serial number handed out is accounted for *)
Definition CI (g : gc) : Prop := err g = None -> forall k, 0 <= k < nextfid g -> 1 <= tot g k.

Lemma CI_ex g g' : ex_tot g g' -> CI g -> CI g'.
Proof. intros X C E k Hk. destruct (X E) as (E0 & N0 & T0). rewrite T0. apply C; auto. congruence. Qed.
Lemma CI_set_err e g : CI (set_err e g).
Proof. intros E. exfalso. eapply err_set_err; eauto. Qed.

Definition Full (g : gc) : Prop := Inv g /\ FDI g /\ FF (items g) /\ CI g.

Lemma FF_cons p it its : lookup p its = None -> FF its ->
  (ifin it <> None -> hasflag (iflags it) FINALIZE_BIT = true) -> FF ((p, it) :: its).
Proof.
  intros L F H a v. cbn [lookup]. destruct (Z.eqb_spec p a).
  - intros E. inversion E; subst. exact H.
  - apply F.
Qed.

Lemma Inv_reg_mid p size fl f ws decl g : Inv g -> lookup p (items g) = None -> hasflag fl MARK_BIT = false ->
  Inv (set_membytes (wadd (membytes g) size) (set_masks (Z.lor (ormask g) p) (Z.land (andmask g) p)
        (set_items ((p, mkItem fl size f ws decl) :: items g) g))).
Proof.
  intros [W Q] L M. split; [now apply WF_reg_mid|]. destruct Q as (A & B & C). repeat split; auto.
  cbn [items set_membytes set_masks set_items]. intros x [<-|I]; auto.
Qed.

Lemma Full_register stk p size flags f ws decl g :
  (p =? 0) = false -> hasflag flags MARK_BIT = false ->
  Inv g -> FDI g -> FF (items g) ->
  (forall k, tot g k + fc f k <= 1 /\ (1 <= fc f k -> 0 <= k < nextfid g)) ->
  (err g = None -> forall k, 0 <= k < nextfid g -> 1 <= tot g k + fc f k) ->
  Full (register stk p size flags f ws decl g).
Proof.
  intros P0 Mf I D F HF HC.
  split; [now apply Inv_register|]. split; [apply FDI_register; auto; apply I|].
  unfold register. rewrite P0. destruct (size <=? 0); [split; [exact F | apply CI_set_err]|].
  destruct (negb (hasflag flags ROOT_BIT)).
  - destruct (lookup p (items g)) eqn:L; [split; [exact F | apply CI_set_err]|].
    match goal with |- FF (items (if _ then step _ ?G else ?G)) /\ _ => set (G0 := G) end.
    assert (I0 : Inv G0) by (apply Inv_reg_mid; auto; now apply reg_flags_unmarked).
    assert (F0 : FF (items G0)).
    { subst G0. cbn [items set_membytes set_masks set_items]. apply FF_cons; auto. cbn [ifin iflags].
      intros N. unfold reg_flags. destruct f; [|congruence]. apply hasflag_setflag_same, FINALIZE_nonneg. }
    assert (C0 : CI G0).
    { intros E k Hk. change (nextfid G0) with (nextfid g) in Hk. specialize (HC E k Hk).
      assert (T : tot G0 k = tot g k + fc f k).
      { subst G0. unfold tot. cbn [items log dropped set_membytes set_masks set_items]. rewrite fcnt_cons. cbn [ifin]. lia. }
      lia. }
    destruct (running G0).
    + split.
      * eapply FF_shrink; [apply shrink_step; apply I0 | exact F0].
      * eapply CI_ex; [apply ex_step; auto | exact C0].
    + split; auto.
  - destruct (negb (flags =? bit ROOT_BIT)); [split; [exact F | apply CI_set_err]|].
    destruct f; [split; [exact F | apply CI_set_err]|].
    split; [exact F|]. intros E k Hk. specialize (HC E k Hk). cbn [fc] in HC.
    change (tot (set_roots ((p, (size, ws)) :: remove p (roots g)) g) k) with (tot g k). lia.
Qed.

Lemma FF_update p it it' its : lookup p its = Some it -> FF its ->
  (ifin it' <> None -> hasflag (iflags it') FINALIZE_BIT = true) -> FF (update p it' its).
Proof.
  intros L F H a v La. destruct (Z.eq_dec a p) as [->|N].
  - rewrite lookup_update_same in La by (eapply lookup_In_keys; eauto). inversion La; subst. exact H.
  - rewrite lookup_update_other in La by auto. exact (F a v La).
Qed.

Lemma CI_same g g' : err g' = err g -> nextfid g' = nextfid g -> (forall k, tot g' k = tot g k) -> CI g -> CI g'.
Proof. intros E N T C. apply (CI_ex g); auto. intros E'. split; [congruence|]. split; auto. Qed.

Lemma Full_unregister fz p g : Full g -> Full (unregister run_fin fz p g).
Proof.
  intros (I & D & F & C). split; [now apply Inv_unregister|]. split; [apply FDI_unregister; auto; apply I|]. split.
  - eapply FF_shrink; [|exact F]. apply shrink_unregister, shrink_call_fin.
  - eapply CI_ex; [|exact C]. apply ex_unregister; [apply ex_call_fin | apply I].
Qed.

Lemma Inv_resize_mid p it n m g : Inv g -> lookup p (items g) = Some it ->
  m = (sum_sizes (items g) - isize it + n) mod two64 ->
  Inv (set_membytes m (set_items (update p (resize_item n it) (items g)) g)).
Proof.
  intros [W Q] L ->. split.
  - destruct W as [A B C]. constructor; cbn -[keys sum_sizes two64 Z.land Z.lor wsub wadd].
    + rewrite keys_update. auto.
    + erewrite sum_sizes_update by eauto. reflexivity.
    + intros a. rewrite keys_update. auto.
  - destruct Q as (A & B & C). repeat split; auto. cbn [items set_membytes set_items].
    apply unmarked_update; auto. rewrite resize_marked. apply (A (p, it)). now apply lookup_In.
Qed.

Ltac bad := split; [auto|split; [auto|split; [assumption | apply CI_set_err]]].

Lemma Full_apply_op o g : Full g -> Full (apply_op o g).
Proof.
  intros FU. pose proof FU as (I & D & F & C).
  pose proof (Inv_apply_op o g I) as I'. pose proof (FDI_apply_op o g (proj1 I) D) as D'.
  pose proof (wf_nodup _ (proj1 I)) as ND.
  unfold apply_op in *. destruct (err g) eqn:EG; [exact FU|]. destruct o.
  - (* alloc *)
    destruct (_ && _); [|bad].
    unfold gc_alloc in *. destruct (size =? 0); [exact FU|]. destruct (ptr =? 0) eqn:P0; [exact FU|].
    destruct (fk =? 0).
    + apply Full_register; auto.
      * apply user_flags_unmarked.
      * intros k. cbn [fc]. destruct D as [N H]. destruct (H k). split; lia.
      * intros E k Hk. cbn [fc]. specialize (C E k Hk). lia.
    + set (g1 := set_nextfid (nextfid g + 1) g).
      assert (T1 : forall k, tot g1 k = tot g k) by reflexivity.
      destruct D as [N H].
      assert (Z0 : tot g (nextfid g) = 0).
      { pose proof (tot_nonneg g (nextfid g)). destruct (H (nextfid g)) as [_ H2].
        destruct (Z.eq_dec (tot g (nextfid g)) 0); auto. assert (X : 1 <= tot g (nextfid g)) by lia. specialize (H2 X). lia. }
      apply Full_register; auto.
      * apply user_flags_unmarked.
      * destruct I as [W Q]. split; [now apply WF_set_nextfid | exact Q].
      * split; [cbn; lia|]. intros k. destruct (H k) as [H1 H2]. rewrite T1. split; auto. intros X. cbn [nextfid set_nextfid g1]. specialize (H2 X). lia.
      * intros k. rewrite T1. cbn [fc fid nextfid set_nextfid g1]. destruct (H k) as [H1 H2].
        destruct (Z.eqb_spec (nextfid g) k); [subst k; split; lia | split; lia].
      * intros E k Hk. rewrite T1. cbn [fc fid nextfid set_nextfid g1] in *.
        destruct (Z.eqb_spec (nextfid g) k); [subst k; lia|]. assert (1 <= tot g k) by (apply C; auto; lia). lia.
  - (* store *)
    destruct (lookup ptr (items g)) as [it|] eqn:L; [|bad].
    destruct (_ && _); [|bad].
    split; [auto|split; [auto|split]].
    + cbn [items set_items]. eapply FF_update; eauto. cbn [store_item ifin iflags]. apply (F ptr it L).
    + apply (CI_same g); auto. intros k. unfold tot. cbn [items log dropped set_items].
      rewrite (fcnt_update ptr it) by auto. cbn [store_item ifin]. lia.
  - (* rootstore *)
    destruct (lookup ptr (roots g)) as [[? ?]|]; [|bad].
    destruct (_ && _); [|bad].
    split; [auto|split; [auto|split; [exact F|]]]. apply (CI_same g); auto.
  - (* realloc *)
    destruct (lookup ptr (items g)) as [it|] eqn:L; [|bad].
    destruct (_ && _); [|bad].
    unfold gc_realloc in *. destruct (newptr =? 0) eqn:P0; [exact FU|]. unfold reregister in *.
    destruct ((ptr =? 0) || (newptr =? 0) || (newsize <=? 0)); [bad|].
    destruct (newptr =? ptr).
    + rewrite L in *.
      assert (FU1 : FF (update ptr (resize_item newsize it) (items g)))
        by (eapply FF_update; eauto; cbn [resize_item ifin iflags]; apply (F ptr it L)).
      assert (TU : forall m k, tot (set_membytes m (set_items (update ptr (resize_item newsize it) (items g)) g)) k = tot g k).
      { intros m k. unfold tot. cbn [items log dropped set_items set_membytes].
        rewrite (fcnt_update ptr it) by auto. cbn [resize_item ifin]. lia. }
      split; [auto|split; [auto|]].
      destruct (isize it <? newsize) eqn:GROW.
      * match goal with |- FF (items (if _ then step _ ?G else ?G)) /\ _ => set (G0 := G) in * end.
        assert (C0 : CI G0) by (apply (CI_same g); auto; intros k; apply TU).
        assert (I0 : Inv G0).
        { apply Inv_resize_mid; auto. cbn [membytes set_items]. destruct I as [[A B CC] Q]. rewrite B, wadd_mod. f_equal. lia. }
        destruct (running G0).
        -- split; [eapply FF_shrink; [apply shrink_step; apply I0 | exact FU1]|].
           eapply CI_ex; [apply ex_step; auto | exact C0].
        -- split; auto.
      * destruct (newsize <? isize it).
        -- split; [exact FU1|]. apply (CI_same g); auto.
        -- split; [exact FU1|]. apply (CI_same g); auto. intros k. unfold tot. cbn [items log dropped set_items].
           rewrite (fcnt_update ptr it) by auto. cbn [resize_item ifin]. lia.
    + rewrite L in *. set (g1 := set_finq _ _) in *.
      assert (T1 : forall k, tot g1 k = tot g k - fc (ifin it) k).
      { intros k. subst g1. unfold tot. cbn [items log dropped set_finq set_membytes set_items]. rewrite (fcnt_remove ptr it) by auto. lia. }
      assert (FL : fc (ifin it) = fun k => fc (ifin it) k) by reflexivity.
      assert (LE : forall k, fc (ifin it) k <= fcnt (items g) k).
      { intros k. pose proof (fcnt_remove ptr it (items g) k ND L). pose proof (fcnt_nonneg (remove ptr (items g)) k). lia. }
      apply Full_register; auto.
      * destruct I as [W Q]. apply (proj1 Q (ptr, it)). now apply lookup_In.
      * destruct I as [W Q]. split.
        -- apply WF_set_finq. now apply WF_remove_item.
        -- destruct Q as (A & B & CC). repeat split; auto.
           ++ subst g1. cbn [items set_finq set_membytes set_items]. now apply unmarked_remove.
           ++ subst g1. cbn [finq set_finq]. rewrite B. reflexivity.
      * destruct D as [N H]. split; [exact N|]. intros k. rewrite T1. destruct (H k) as [H1 H2].
        pose proof (fc_nonneg (ifin it) k). split; [lia|]. intros X. apply H2. lia.
      * subst g1. cbn [items set_finq set_membytes set_items]. eapply FF_shrink; [apply shrink_remove | exact F].
      * intros k. rewrite T1. destruct D as [N H]. destruct (H k) as [H1 H2]. split; [lia|].
        intros X. apply H2. specialize (LE k). pose proof (lcnt_nonneg (log g) k). pose proof (dcnt_nonneg (dropped g) k). unfold tot. lia.
      * intros E k Hk. rewrite T1. assert (1 <= tot g k) by (apply C; auto). lia.
  - (* dealloc *)
    destruct (lookup ptr (items g)); [|bad]. destruct (dealloc_ok _); [|bad]. unfold gc_dealloc in *.
    pose proof (Full_unregister true ptr g FU) as (I1 & D1 & F1 & C1).
    destruct (ptr =? 0); [split; auto|].
    split; [auto|split; [auto|split; [exact F1|]]].
    apply (CI_same (unregister run_fin true ptr g)); auto.
  - (* unregister *)
    destruct (lookup ptr (items g)); [|bad]. now apply Full_unregister.
  - (* regroot *)
    destruct (0 <? size) eqn:SZ; cbn [andb]; [|bad]. destruct (fresh ptr g) eqn:FR; [|bad].
    apply Full_register; auto.
    + destruct (Z.eqb_spec ptr 0) as [->|]; auto; try (unfold fresh in FR; cbn in FR; discriminate).
    + intros k. cbn [fc]. destruct D as [N H]. destruct (H k). split; lia.
    + intros E k Hk. cbn [fc]. specialize (C E k Hk). lia.
  - (* collect *)
    split; [auto|split; [auto|split]].
    + eapply FF_shrink; [apply shrink_collect; apply I | exact F].
    + eapply CI_ex; [apply ex_collect; auto | exact C].
  - (* step *)
    split; [auto|split; [auto|split]].
    + eapply FF_shrink; [apply shrink_step; apply I | exact F].
    + eapply CI_ex; [apply ex_step; auto | exact C].
  - destruct (_ && _); [|bad]. split; [auto|split; [auto|split; [exact F|]]]. apply (CI_same g); auto.
  - split; [auto|split; [auto|split; [exact F|]]]. apply (CI_same g); auto.
  - split; [auto|split; [auto|split; [exact F|]]]. apply (CI_same g); auto.
Qed.

Lemma Full_init : Full gc_init.
Proof.
  split; [apply Inv_init|]. split; [apply FDI_init|]. split.
  - intros a it L. discriminate.
  - intros E k Hk. cbn in Hk. lia.
Qed.

Lemma Full_run h : forall g, Full g -> Full (run h g).
Proof. induction h as [|o r IH]; intros g FU; cbn [run fold_left]; auto. apply IH. now apply Full_apply_op. Qed.

(* ---------- GC:destroy leaves nothing registered ---------- *)
Definition qcovers (g : gc) : Prop := forall p, In p (keys (items g)) -> In (Some p) (finq g).

Lemma replace_first_other p q x : In (Some x) q -> x <> p -> In (Some x) (finq_replace_first p None q).
Proof.
  induction q as [|[y|] r IH]; cbn [finq_replace_first]; auto.
  - intros [E|I] N.
    + inversion E; subst. destruct (Z.eqb_spec x p); [contradiction | now left].
    + destruct (y =? p); right; auto.
  - intros [E|I] N; [discriminate | right; auto].
Qed.

Definition cb_qc (cb : fin -> Z -> gc -> gc) : Prop := forall f p g, qcovers g -> qcovers (cb f p g).

Lemma qc_unregister cb fz p g : cb_qc cb -> qcovers g -> qcovers (unregister cb fz p g).
Proof.
  intros Hcb Q. unfold unregister. destruct (p =? 0); auto.
  destruct (lookup p (items g)) as [it|].
  - set (g1 := set_finq _ _).
    assert (Q1 : qcovers g1).
    { subst g1. intros x I. cbn [items finq set_finq set_membytes set_items] in *.
      apply keys_remove_incl in I. destruct I as [I N]. apply replace_first_other; auto. }
    destruct (ifin it); auto. destruct fz; auto.
  - destruct (lookup p (roots g)); auto.
Qed.
Lemma qc_call_fin n : cb_qc (call_fin n).
Proof.
  induction n as [|n IH]; intros f p g Q; cbn [call_fin]; auto.
  destruct (fkind f =? 2); [|destruct (fkind f =? 3)]; auto.
  - exact (qc_unregister (call_fin n) false p (add_log _ g) IH Q).
  - exact (qc_unregister (call_fin n) true p (add_log _ g) IH Q).
Qed.
Lemma qc_sweep2 k0 : forall i g, qcovers g -> qcovers (sweep2 k0 i g).
Proof.
  induction k0 as [|k0 IH]; intros i g Q; cbn [sweep2]; auto. apply IH.
  destruct (nth_error (finq g) i) as [[ptr|]|]; auto.
  destruct (lookup ptr (items g)) as [it|]; auto. destruct (ifin it) as [f|]; auto.
  apply qc_call_fin. intros x I. cbn [items finq set_items] in *. rewrite keys_update in I. auto.
Qed.

Lemma sweep3_keys q : forall g p, In p (keys (items (sweep3 q g))) -> In p (keys (items g)) /\ ~ In (Some p) q.
Proof.
  induction q as [|[x|] r IH]; intros g p; cbn [sweep3].
  - intros I. split; auto.
  - destruct (lookup x (items g)) as [it|] eqn:L.
    + intros I. assert (H : In p (keys (remove x (items g))) /\ ~ In (Some p) r).
      { destruct (hasflag (iflags it) EXTERN_BIT); apply IH in I; exact I. }
      destruct H as [H1 H2]. apply keys_remove_incl in H1. destruct H1 as [H1 N]. split; auto.
      intros [E|E]; [inversion E; congruence | auto].
    + intros I. apply IH in I. destruct I as [I1 I2]. split; auto. intros [E|E]; auto.
      inversion E; subst. apply lookup_None_keys in L. auto.
  - intros I. apply IH in I. destruct I as [I1 I2]. split; auto. intros [E|E]; [discriminate | auto].
Qed.

Lemma keep_keys_unmarked its : (forall p, In p its -> marked (snd p) = false) ->
  keys (flat_map sweep_keep its) = flat_map sweep_queue its.
Proof.
  induction its as [|[p v] r IH]; intros U; cbn [flat_map]; [reflexivity|].
  unfold keys in *. rewrite map_app, IH by (intros x I; apply U; now right).
  f_equal. unfold sweep_keep, sweep_queue. cbn [fst snd].
  assert (M : marked v = false) by (apply (U (p, v)); now left). rewrite M.
  destruct (hasflag (iflags v) FINALIZE_BIT); reflexivity.
Qed.

Lemma sweep_all_unmarked_empty g : unmarked_in (items g) -> finq g = [] -> items (sweep g) = [].
Proof.
  intros U FQ. unfold sweep. pose proof (sweep1_spec (items g) (membytes g)) as S1.
  destruct (sweep1 (items g) (membytes g)) as [[[kept q] freed] mem]. destruct S1 as (K & Q & _).
  set (g1 := set_finq (finq g ++ map Some q) _).
  assert (Q1 : qcovers g1).
  { subst g1. intros p I. cbn [items finq set_finq set_membytes set_items] in *. rewrite FQ. cbn [app].
    subst kept q. rewrite keep_keys_unmarked in I by exact U. now apply in_map. }
  pose proof (qc_sweep2 (length (finq g1)) 0 g1 Q1) as Q2.
  set (g2 := sweep2 (length (finq g1)) 0 g1) in *.
  cbn [items set_finq].
  destruct (items (sweep3 (finq g2) g2)) as [|[p v] r] eqn:E; auto.
  exfalso. destruct (sweep3_keys (finq g2) g2 p) as [I N].
  { rewrite E. now left. }
  apply N. apply Q2. exact I.
Qed.

(* the modelled finalizers register nothing, so the first sweep of GC:destroy leaves nothing and
   the loop stops there *)
Lemma destroy_loop_one n g : unmarked_in (items g) -> finq g = [] -> destroy_loop (S n) g = sweep g.
Proof. intros U F. cbn [destroy_loop]. now rewrite (sweep_all_unmarked_empty g U F). Qed.

(* by normal exit (no assert fired) every finalizer registration has been called exactly once,
   or was dropped exactly once by an explicit gc:unregister(ptr): never both, never neither *)
Lemma finalize_exactly_once_at_exit h k :
  let g := destroy (run h gc_init) in
  err g = None -> 0 <= k < nextfid g -> lcnt (log g) k + dcnt (dropped g) k = 1.
Proof.
  intros g E Hk. subst g.
  pose proof (Full_run h gc_init Full_init) as (I & D & F & C).
  set (g0 := run h gc_init) in *.
  unfold destroy in *.
  set (g1 := set_collecting true g0) in *.
  assert (DL : destroy_loop DESTROY_SWEEPS g1 = sweep g1).
  { pose proof destroy_resweeps as DR. destruct DESTROY_SWEEPS as [|n]; [lia|]. apply destroy_loop_one; apply I. }
  rewrite DL in *.
  assert (X : ex_tot g1 (sweep g1)).
  { apply ex_sweep; [apply I | exact F | apply I]. }
  cbn [err set_items set_roots set_collecting] in E.
  destruct (X E) as (E0 & N0 & T0).
  assert (EM : items (sweep g1) = []) by (apply sweep_all_unmarked_empty; apply I).
  cbn [nextfid set_items set_roots set_collecting] in Hk. rewrite N0 in Hk.
  cbn [log dropped set_items set_roots set_collecting].
  specialize (T0 k). unfold tot in T0 at 1. rewrite EM in T0. change (fcnt [] k) with 0 in T0.
  assert (T1 : tot g1 k = tot g0 k) by reflexivity.
  assert (GE : 1 <= tot g0 k) by (apply C; auto).
  destruct D as [_ H]. destruct (H k) as [LE _]. lia.
Qed.

Example exit_nonvacuous :
  let g := destroy (run [OAlloc 4096 32 false false 1 7 []; OAlloc 8192 16 false false 3 8 []; OCollect []] gc_init) in
  err g = None /\ nextfid g = 2 /\ fin_ids (log g) = [0; 1].
Proof. vm_compute. repeat split. Qed.
