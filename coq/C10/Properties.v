(* Property C10: the GC never reclaims reachable memory and finalizes each object exactly once.
   Only the property theorems, each closed by [exact] of a lemma of Proofs*.v and followed by
   Print Assumptions.  [run h gc_init] is the collector state after an arbitrary history [h] of
   mutator commands (Model.op) from GC:init. *)
From C10 Require Import Model Proofs Safety Defects Frame Finalize Exit Garbage AllocSafe Abort OpFrame ReallocSafe EveryOp CoStack Needed.
Local Open Scope Z_scope.

(* the tracked byte count always equals the sum of the registered sizes (as usize) *)
Theorem C10_membytes_exact : forall h,
  membytes (run h gc_init) = sum_sizes (items (run h gc_init)) mod two64.
Proof. exact membytes_exact. Qed.
Print Assumptions C10_membytes_exact.

(* every registered address passes the address filter of GC_markptrs, forever *)
Theorem C10_mask_sound : forall h a it,
  In (a, it) (items (run h gc_init)) ->
  passes (ormask (run h gc_init)) (andmask (run h gc_init)) a = true.
Proof. exact mask_sound. Qed.
Print Assumptions C10_mask_sound.

(* a pointer is registered at most once *)
Theorem C10_registered_once : forall h, NoDup (keys (items (run h gc_init))).
Proof. exact registered_once. Qed.
Print Assumptions C10_registered_once.

(* the mark phase terminates within its fuel (length of the seed list + number of unmarked
   items) and marks every item reachable from the stack words / root regions through the words
   of non-LEAF items by base addresses *)
Theorem C10_mark_complete : forall h stk,
  exists its', mark stk (run h gc_init) = Some its' /\
    mext (items (run h gc_init)) its' /\
    forall a, reach (items (run h gc_init)) (mark_seeds stk (run h gc_init)) a -> is_marked its' a.
Proof. exact mark_complete_run. Qed.
Print Assumptions C10_mark_complete.

(* a collection cycle started in any state a history can produce keeps every reachable item
   registered with exactly the same flags, size, finalizer and contents, and neither frees nor
   finalizes it (no log entry about its address is added) *)
Theorem C10_sweep_safe : forall h stk a it,
  reach (items (run h gc_init)) (mark_seeds stk (run h gc_init)) a ->
  lookup a (items (run h gc_init)) = Some it ->
  lookup a (items (collect stk (run h gc_init))) = Some it /\
  (forall e, In e (log (collect stk (run h gc_init))) -> ev_addr e = a -> In e (log (run h gc_init))).
Proof. exact collect_safe_run. Qed.
Print Assumptions C10_sweep_safe.

(* between commands no item carries a stale mark, the finalize queue is empty and no cycle is open *)
Theorem C10_quiescent : forall h,
  (forall a it, In (a, it) (items (run h gc_init)) -> marked it = false) /\
  finq (run h gc_init) = [] /\ collecting (run h gc_init) = false.
Proof. exact quiescent_run. Qed.
Print Assumptions C10_quiescent.

(* every finalizer registration (serial numbers [fid] are handed out once per registration) is
   called at most once over any history, however the calls arise (sweep, explicit dealloc, a
   finalizer deallocating or unregistering its own block) ... *)
Theorem C10_finalize_at_most_once : forall h, NoDup (fin_ids (log (run h gc_init))).
Proof. exact finalize_at_most_once. Qed.
Print Assumptions C10_finalize_at_most_once.

(* ... and also across GC:destroy at program exit *)
Theorem C10_finalize_at_most_once_at_exit : forall h, NoDup (fin_ids (log (destroy (run h gc_init)))).
Proof. exact finalize_at_most_once_exit. Qed.
Print Assumptions C10_finalize_at_most_once_at_exit.

(* [destroy] is the bounded sweep loop of GC:destroy (2edb035); the modelled finalizers register
   nothing, so it stops after its first sweep.  Finalizers that allocate are outside the model:
   that part of the repair is tied by the replayed exit witness only.
   By normal exit (GC:destroy after any history, no assert fired) every finalizer registration
   [k] has been called exactly once, or was dropped exactly once by an explicit
   gc:unregister(ptr) of the program: never both, never neither.
   [lcnt (log g) k] = number of calls of finalizer k, [dcnt (dropped g) k] = number of times it
   was dropped. *)
Theorem C10_finalize_exactly_once_or_unregistered_at_exit : forall h k,
  err (destroy (run h gc_init)) = None ->
  0 <= k < nextfid (destroy (run h gc_init)) ->
  lcnt (log (destroy (run h gc_init))) k + dcnt (dropped (destroy (run h gc_init))) k = 1.
Proof. exact finalize_exactly_once_at_exit. Qed.
Print Assumptions C10_finalize_exactly_once_or_unregistered_at_exit.

(* garbage does not accumulate: after a collection cycle run in any state a history can produce
   (tracked bytes non-zero, otherwise GC:collect returns at once) every block that is still
   registered is reachable from the root regions and the stack words of that cycle through
   non-LEAF blocks; unreachable blocks, with or without finalizer, are gone after ONE cycle *)
Theorem C10_no_unbounded_garbage : forall h stk p,
  membytes (run h gc_init) <> 0 ->
  In p (keys (items (collect stk (run h gc_init)))) ->
  reach (items (run h gc_init)) (mark_seeds stk (run h gc_init)) p.
Proof. exact no_garbage_after_collect. Qed.
Print Assumptions C10_no_unbounded_garbage.

(* collection triggered at an allocation point: whatever the pause and the history, an allocation
   (which may run a full cycle from inside GC:register) keeps every block reachable from the
   roots and the stack words untouched, unfreed and unfinalized *)
Theorem C10_alloc_safe : forall h stk ptr size leaf extern fk tag a it,
  err (run h gc_init) = None ->
  ((0 <? size) && (size <? two64) && fresh ptr (run h gc_init) && (0 <=? fk) && (fk <=? 3)) = true ->
  reach (items (run h gc_init)) (mark_seeds stk (run h gc_init)) a -> lookup a (items (run h gc_init)) = Some it ->
  lookup a (items (apply_op (OAlloc ptr size leaf extern fk tag stk) (run h gc_init))) = Some it /\
  (forall e, In e (log (apply_op (OAlloc ptr size leaf extern fk tag stk) (run h gc_init))) -> ev_addr e = a ->
     In e (log (run h gc_init))).
Proof. exact alloc_safe_others. Qed.
Print Assumptions C10_alloc_safe.

(* ASSUMPTION made visible, not a fact about the code: the model hands the fresh pointer to the
   cycle as a stack word (gc_alloc calls register with ptr :: stk: "the pointer returned by the
   system allocator sits in a scanned register/stack slot while GC:register runs"); GIVEN that,
   the fresh block survives the cycle its own registration triggers *)
Theorem C10_alloc_fresh_survives_if_scanned : forall h stk ptr size leaf extern fk tag,
  err (run h gc_init) = None ->
  ((0 <? size) && (size <? two64) && fresh ptr (run h gc_init) && (0 <=? fk) && (fk <=? 3)) = true ->
  exists itn, lookup ptr (items (apply_op (OAlloc ptr size leaf extern fk tag stk) (run h gc_init))) = Some itn /\
     isize itn = size /\ iwords itn = repeat 0 (nwords size).
Proof. exact alloc_fresh_survives_if_scanned. Qed.
Print Assumptions C10_alloc_fresh_survives_if_scanned.

(* what must not change: a store into a block, an explicit dealloc or an explicit unregister
   (with whatever finalizer they run) leave every OTHER registered block exactly as it was and
   log nothing about it *)
Theorem C10_explicit_ops_frame : forall o p g a, op_target o = Some p -> a <> p ->
  lookup a (items (apply_op o g)) = lookup a (items g) /\
  (forall e, In e (log (apply_op o g)) -> ev_addr e = a -> In e (log g)).
Proof. exact frame_no_cycle. Qed.
Print Assumptions C10_explicit_ops_frame.

(* collection triggered from inside a realloc that grows a block in place (GC:reregister ->
   GC:step): every other reachable block is kept untouched, unfreed, unfinalized.  (That the grown
   block itself survives rests on the same assumption as above: the model scans p :: stk.) *)
Theorem C10_realloc_grow_safe : forall h stk p n itp a it,
  err (run h gc_init) = None ->
  lookup p (items (run h gc_init)) = Some itp -> 0 < p -> 0 < n -> isize itp < n < two64 ->
  reach (items (run h gc_init)) (mark_seeds stk (run h gc_init)) a ->
  lookup a (items (run h gc_init)) = Some it -> a <> p ->
  lookup a (items (apply_op (ORealloc p p n stk) (run h gc_init))) = Some it /\
  (forall e, In e (log (apply_op (ORealloc p p n stk) (run h gc_init))) -> ev_addr e = a -> In e (log (run h gc_init))).
Proof. exact realloc_grow_safe_others. Qed.
Print Assumptions C10_realloc_grow_safe.

(* ---- full-strength statements that were refuted before the repairs in /repo ---- *)
(* (fe9bb7e FINALIZE no longer shares the ROOT bit; 9c3dee4 the scanner decides by the current
   size, LEAF is never forced at registration) *)

(* the LEAF flag is sound over every history: the collector treats a block as pointer-free only
   if the user declared it so or it is smaller than a pointer *)
Theorem C10_leaf_flag_sound : forall h a it,
  In (a, it) (items (run h gc_init)) -> hasflag (iflags it) LEAF_BIT = true ->
  idecl it = true \/ isize it < WORD_SIZE.
Proof. exact leaf_flag_sound. Qed.
Print Assumptions C10_leaf_flag_sound.

(* over every history a collection keeps every block that is reachable in the sense of the
   property (through every block that can hold a pointer and was not declared pointer-free):
   same flags, size, finalizer, contents; neither freed nor finalized *)
Theorem C10_reachable_kept : forall h stk a it,
  treach (items (run h gc_init)) (mark_seeds stk (run h gc_init)) a ->
  lookup a (items (run h gc_init)) = Some it ->
  lookup a (items (collect stk (run h gc_init))) = Some it /\
  (forall e, In e (log (collect stk (run h gc_init))) -> ev_addr e = a -> In e (log (run h gc_init))).
Proof. exact reachable_kept. Qed.
Print Assumptions C10_reachable_kept.

(* a history that respects the allocator's contract (fresh addresses, registered pointers, no
   explicit dealloc of a block whose finalizer releases the block itself) never trips an assert
   of the collector and never exhausts the model's fuel *)
Theorem C10_no_abort : forall h,
  err (run h gc_init) = None \/ err (run h gc_init) = Some ErrPrecond.
Proof. exact no_abort. Qed.
Print Assumptions C10_no_abort.

(* the tie facts the proofs above rest on, re-proved from the scraped source on every run *)
Theorem C10_repaired_code_facts :
  FINALIZE_BIT <> ROOT_BIT /\ AUTO_LEAF_ON_REGISTER = false /\ SCAN_SIZE_TEST = true /\ RESIZE_BEFORE_STEP = true /\
  (2 <= DESTROY_SWEEPS)%nat /\ STACKTOP_RESET_BEFORE_ERROR_RETURN = true /\ CORO_REGISTERED_WITH_CORO_SIZE = true.
Proof. exact (conj FINALIZE_not_ROOT (conj auto_leaf_off (conj scan_size_test_on (conj resize_before_step (conj destroy_resweeps (conj stacktop_reset coro_registered_whole)))))). Qed.
Print Assumptions C10_repaired_code_facts.

(* ONE frame theorem for every command of every history (all twelve commands; the only exception
   is a realloc that MOVES its block): every block that is reachable from the roots and the stack
   words the command supplies, and is not the block the command is addressed to, is afterwards
   registered with exactly the same flags, size, finalizer and contents, and nothing is logged
   about it - whether or not the command runs a collection cycle *)
Theorem C10_every_op_safe : forall h o a it, op_moves o = false ->
  reach (items (run h gc_init)) (mark_seeds (op_stk o) (run h gc_init)) a ->
  lookup a (items (run h gc_init)) = Some it -> ~ op_touches o a ->
  lookup a (items (apply_op o (run h gc_init))) = Some it /\
  (forall e, In e (log (apply_op o (run h gc_init))) -> ev_addr e = a -> In e (log (run h gc_init))).
Proof. exact every_op_safe. Qed.
Print Assumptions C10_every_op_safe.

(* ---- the stack clause: "reachable from ... the stack and registers of the main program or of a
   suspended coroutine" ---- *)
(* [crun h cinit]: any history of mutator commands (by the main program or a coroutine), main
   program calls/returns (CPush/CPop), coroutine.resume by whoever runs - accepted or REFUSED -
   and yields/returns (CBack).  [stacktop] mirrors gc.stacktop as coroutine.resume sets it. *)

(* gc.stacktop is zero whenever the main program runs (also after any refused resume), and names
   the whole main stack whenever a coroutine runs *)
Theorem C10_stacktop_discipline : forall h,
  (chain (crun h cinit) = [] -> stacktop (crun h cinit) = None) /\
  (chain (crun h cinit) <> [] -> stacktop (crun h cinit) = Some (length (mstack (crun h cinit)))).
Proof. exact stacktop_discipline. Qed.
Print Assumptions C10_stacktop_discipline.

(* a block referenced from ANY frame of the main stack (however deep; whether the main program
   or a coroutine is running) or from the registers survives every command that can run a
   cycle, untouched, unfreed, unfinalized *)
Theorem C10_main_stack_kept : forall h o regs a it,
  has_stk o = true -> op_moves o = false -> ~ op_touches o a ->
  In a (regs ++ mstack (crun h cinit)) -> lookup a (items (cg (crun h cinit))) = Some it ->
  lookup a (items (cg (capply (CMut o regs) (crun h cinit)))) = Some it /\
  (forall e, In e (log (cg (capply (CMut o regs) (crun h cinit)))) -> ev_addr e = a -> In e (log (cg (crun h cinit)))).
Proof. exact main_stack_kept. Qed.
Print Assumptions C10_main_stack_kept.

(* the stack of a suspended or running coroutine lies inside the coroutine object, a registered
   scannable block (coroutine.create registers it with its full size): whatever is referenced
   from that memory survives every cycle as long as the coroutine object itself is reachable
   (from a main-stack frame, the registers, a root region or another reachable block) *)
Theorem C10_coroutine_stack_kept : forall h o regs c itc b itb,
  has_stk o = true -> op_moves o = false -> ~ op_touches o b ->
  reach (items (cg (crun h cinit))) (mark_seeds (scanned (crun h cinit) regs) (cg (crun h cinit))) c ->
  lookup c (items (cg (crun h cinit))) = Some itc -> noscan itc = false -> In b (iwords itc) ->
  lookup b (items (cg (crun h cinit))) = Some itb ->
  lookup b (items (cg (capply (CMut o regs) (crun h cinit)))) = Some itb /\
  (forall e, In e (log (cg (capply (CMut o regs) (crun h cinit)))) -> ev_addr e = b -> In e (log (cg (crun h cinit)))).
Proof. exact coroutine_stack_kept. Qed.
Print Assumptions C10_coroutine_stack_kept.

(* companion of C10_stacktop_discipline: the placement of gc:setstacktop(0) BEFORE the error return
   of coroutine.resume (scraped flag) is what the discipline rests on; with the other placement a
   refused resume from the main program leaves the stack top stale and a later main-stack word
   is outside every scan *)
Theorem C10_stacktop_reset_needed :
  exists h w, let cs := crun_gen false h cinit in
    chain cs = [] /\ stacktop cs <> None /\ In w (mstack cs) /\ ~ In w (scanned cs []).
Proof. exact stacktop_reset_needed. Qed.
Print Assumptions C10_stacktop_reset_needed.

(* ---- companions of the scraped repair flags: each main statement is false under the other policy ---- *)
(* [reg_flags] is [reg_flags_gen AUTO_LEAF_ON_REGISTER FINALIZE_BIT] (reg_flags_is_gen, by computation) *)

(* LEAF rule (9c3dee4): with LEAF forced at registration, a 4-byte block grown to 64 bytes carries
   LEAF undeclared - the statement of C10_leaf_flag_sound fails for it *)
Theorem C10_leaf_rule_needed :
  let it := resize_item 64 (mkItem (reg_flags_gen true FINALIZE_BIT 0 4 None) 4 None [0] false) in
  hasflag (iflags it) LEAF_BIT = true /\ ~ (idecl it = true \/ isize it < WORD_SIZE).
Proof. exact leaf_rule_needed. Qed.
Print Assumptions C10_leaf_rule_needed.

(* FINALIZE <> ROOT (fe9bb7e): [register_branch_gen ROOT_BIT] is the branch GC:register takes
   (register_branch_is_gen); when the finalize flag is the ROOT bit, re-registering a block with a
   finalizer trips the assert C10_no_abort excludes; with the scraped bits it does not *)
Theorem C10_finalize_bit_needed :
  let f := mkFin 0 0 1 in
  register_branch_gen ROOT_BIT (reg_flags_gen false ROOT_BIT 0 32 (Some f)) (Some f) = Some ErrRootWithFinalizer /\
  register_branch_gen ROOT_BIT (reg_flags_gen false FINALIZE_BIT 0 32 (Some f)) (Some f) = None.
Proof. exact finalize_bit_needed. Qed.
Print Assumptions C10_finalize_bit_needed.

(* GC:destroy (2edb035): [destroy] is [destroy_gen DESTROY_SWEEPS]; inside the model (finalizers
   register nothing) only "at least one sweep" can be shown to be needed: with none the exit
   theorem fails.  That ONE sweep is not enough is outside the model (replayed exit witness). *)
Theorem C10_destroy_sweep_needed :
  let g := destroy_gen 0 (run [OAlloc 4096 32 false false 1 7 []] gc_init) in
  err g = None /\ nextfid g = 1 /\ lcnt (log g) 0 + dcnt (dropped g) 0 = 0.
Proof. exact destroy_sweep_needed. Qed.
Print Assumptions C10_destroy_sweep_needed.
