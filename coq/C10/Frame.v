(* The collector only removes items or clears marks/finalizers ([shrink]); soundness of the LEAF
   flag along histories that never grow a sub-pointer-size block. *)
From C10 Require Import Model Proofs Safety Defects.
Local Open Scope Z_scope.

(* ================= the collector only removes items, clears marks and finalizers ================= *)
Definition core_eq (it it' : item) : Prop :=
  isize it' = isize it /\ iwords it' = iwords it /\ idecl it' = idecl it /\
  (forall k, k <> MARK_BIT -> hasflag (iflags it') k = hasflag (iflags it) k) /\
  (ifin it' = ifin it \/ ifin it' = None).

Lemma core_eq_refl it : core_eq it it.
Proof. repeat split; auto. Qed.
Lemma core_eq_trans a b c : core_eq a b -> core_eq b c -> core_eq a c.
Proof.
  intros (A1 & A2 & A3 & A4 & A5) (B1 & B2 & B3 & B4 & B5). repeat split; try congruence.
  - intros k N. rewrite B4, A4; auto.
  - destruct B5 as [B5|B5]; [rewrite B5; auto | auto].
Qed.
Lemma core_eq_set_mark it : core_eq it (set_mark it).
Proof.
  repeat split; auto. intros k N. unfold set_mark. cbn [iflags].
  apply hasflag_setflag_other; [apply MARK_nonneg | auto].
Qed.
Lemma core_eq_clr_mark it : core_eq it (clr_mark it).
Proof.
  repeat split; auto. intros k N. unfold clr_mark. cbn [iflags].
  apply hasflag_clrflag_other; [apply MARK_nonneg | auto].
Qed.
Lemma core_eq_clear_fin it : core_eq it (clear_fin it).
Proof. repeat split; auto. Qed.

Definition shrink (its its' : list (Z * item)) : Prop :=
  forall x it', lookup x its' = Some it' -> exists it, lookup x its = Some it /\ core_eq it it'.

Lemma shrink_refl its : shrink its its.
Proof. intros x it L. exists it. split; auto. apply core_eq_refl. Qed.
Lemma shrink_trans a b c : shrink a b -> shrink b c -> shrink a c.
Proof.
  intros H1 H2 x it L. destruct (H2 x it L) as (it1 & L1 & C1). destruct (H1 x it1 L1) as (it0 & L0 & C0).
  exists it0. split; auto. eapply core_eq_trans; eauto.
Qed.
Lemma shrink_remove p its : shrink its (remove p its).
Proof.
  intros x it L. destruct (Z.eq_dec x p) as [->|N].
  - rewrite lookup_remove_same in L. discriminate.
  - rewrite lookup_remove_other in L by auto. exists it. split; auto. apply core_eq_refl.
Qed.
Lemma shrink_update p it it' its : lookup p its = Some it -> core_eq it it' -> shrink its (update p it' its).
Proof.
  intros L C x v Lx. destruct (Z.eq_dec x p) as [->|N].
  - rewrite lookup_update_same in Lx by (eapply lookup_In_keys; eauto). inversion Lx; subst. eauto.
  - rewrite lookup_update_other in Lx by auto. exists v. split; auto. apply core_eq_refl.
Qed.

Lemma shrink_mext its its' : mext its its' -> shrink its its'.
Proof.
  intros X x it' L. destruct (mext_lookup_back _ _ _ _ X L) as (it & L0 & [->|[_ ->]]).
  - exists it. split; auto. apply core_eq_refl.
  - exists it. split; auto. apply core_eq_set_mark.
Qed.

Lemma lookup_flat_map_keep its x it' : NoDup (keys its) -> lookup x (flat_map sweep_keep its) = Some it' ->
  exists it, lookup x its = Some it /\ (it' = it \/ it' = clr_mark it).
Proof.
  induction its as [|[p v] r IH]; cbn [flat_map lookup]; [discriminate|].
  intros ND. change (keys ((p, v) :: r)) with (p :: keys r) in ND. inversion ND; subst.
  unfold sweep_keep at 1. cbn [fst snd].
  destruct (marked v); [|destruct (hasflag (iflags v) FINALIZE_BIT)]; cbn [app lookup];
    destruct (Z.eqb_spec p x); intros L; try (inversion L; subst; eauto; fail); auto.
  subst. exfalso. apply H1. apply sweep_keep_keys. eapply lookup_In_keys; eauto.
Qed.

Lemma shrink_sweep_keep its : NoDup (keys its) -> shrink its (flat_map sweep_keep its).
Proof.
  intros ND x it' L. destruct (lookup_flat_map_keep _ _ _ ND L) as (it & L0 & [-> | ->]);
    exists it; split; auto; [apply core_eq_refl | apply core_eq_clr_mark].
Qed.

Definition cb_shrink (cb : fin -> Z -> gc -> gc) : Prop := forall f p g, shrink (items g) (items (cb f p g)).

Lemma shrink_unregister cb fz p g : cb_shrink cb -> shrink (items g) (items (unregister cb fz p g)).
Proof.
  intros Hcb. unfold unregister. destruct (p =? 0); [apply shrink_refl|].
  destruct (lookup p (items g)) as [it|].
  - set (g1 := set_finq _ _).
    assert (S1 : shrink (items g) (items g1)) by (subst g1; cbn; apply shrink_remove).
    destruct (ifin it); auto. destruct fz; auto. eapply shrink_trans; eauto.
  - destruct (lookup p (roots g)); apply shrink_refl.
Qed.

Lemma shrink_call_fin n : cb_shrink (call_fin n).
Proof.
  induction n as [|n IH]; intros f p g; cbn [call_fin]; [apply shrink_refl|].
  destruct (fkind f =? 2); [|destruct (fkind f =? 3)]; try apply shrink_refl.
  - exact (shrink_unregister (call_fin n) false p (add_log _ g) IH).
  - exact (shrink_unregister (call_fin n) true p (add_log _ g) IH).
Qed.

Lemma shrink_sweep2 k : forall i g, shrink (items g) (items (sweep2 k i g)).
Proof.
  induction k as [|k IH]; intros i g; cbn [sweep2]; [apply shrink_refl|].
  eapply shrink_trans; [|apply IH].
  destruct (nth_error (finq g) i) as [[ptr|]|]; try apply shrink_refl.
  destruct (lookup ptr (items g)) as [it|] eqn:L; try apply shrink_refl.
  destruct (ifin it) as [f|]; try apply shrink_refl.
  eapply shrink_trans; [|apply shrink_call_fin]. cbn. eapply shrink_update; eauto. apply core_eq_clear_fin.
Qed.

Lemma shrink_sweep3 q : forall g, shrink (items g) (items (sweep3 q g)).
Proof.
  induction q as [|[p|] r IH]; intros g; cbn [sweep3]; try apply shrink_refl; auto.
  destruct (lookup p (items g)) as [it|]; auto.
  eapply shrink_trans; [|apply IH].
  destruct (hasflag (iflags it) EXTERN_BIT); cbn; apply shrink_remove.
Qed.

Lemma shrink_sweep g : NoDup (keys (items g)) -> shrink (items g) (items (sweep g)).
Proof.
  intros ND. unfold sweep. pose proof (sweep1_spec (items g) (membytes g)) as S1.
  destruct (sweep1 (items g) (membytes g)) as [[[kept q] freed] mem]. destruct S1 as (K & _).
  cbn. eapply shrink_trans; [|apply shrink_sweep3]. eapply shrink_trans; [|apply shrink_sweep2].
  cbn. subst kept. now apply shrink_sweep_keep.
Qed.

Lemma mark_loop_mext fuel o a : forall pend its its',
  NoDup (keys its) -> (forall k, In k (keys its) -> passes o a k = true) ->
  mark_loop fuel o a pend its = Some its' -> mext its its'.
Proof.
  induction fuel as [|f IH]; intros pend its its' ND PS; destruct pend as [|r rest]; cbn [mark_loop];
    try discriminate; try (intros E; inversion E; subst; apply mext_refl).
  destruct (scan_words o a r its rest) as [its1 pend1] eqn:S. intros E.
  destruct (scan_words_spec _ _ _ _ _ _ _ ND PS S) as (X & _).
  eapply mext_trans; [exact X|]. eapply IH; eauto.
  - eapply mext_nodup; eauto.
  - intros k. destruct X as [EK _]. rewrite EK. auto.
Qed.

Lemma mark_mext stk g its : WF g -> mark stk g = Some its -> mext (items g) its.
Proof.
  intros W M. unfold mark in M. eapply mark_loop_mext; eauto. apply W. intros k I. now apply WF_passes.
Qed.

Lemma shrink_collect stk g : WF g -> shrink (items g) (items (collect stk g)).
Proof.
  intros W. unfold collect. destruct (collecting g || (membytes g =? 0)); [apply shrink_refl|].
  destruct (mark stk (set_collecting true g)) as [its|] eqn:M; [|apply shrink_refl].
  assert (X : mext (items g) its) by (apply (mark_mext stk (set_collecting true g)); auto; now apply WF_set_collecting).
  cbn. eapply shrink_trans; [apply shrink_mext; exact X|].
  apply (shrink_sweep (set_items its (set_collecting true g))). cbn. eapply mext_nodup; eauto. apply W.
Qed.

Lemma shrink_step stk g : WF g -> shrink (items g) (items (step stk g)).
Proof. intros W. unfold step. destruct (step_due g); [now apply shrink_collect | apply shrink_refl]. Qed.

(* ---------- leaf_ok along histories that never grow a small block ---------- *)
Definition leaf_ok_its (its : list (Z * item)) : Prop :=
  forall a it, lookup a its = Some it -> hasflag (iflags it) LEAF_BIT = true ->
    idecl it = true \/ isize it < WORD_SIZE.

Lemma leaf_ok_its_iff g : NoDup (keys (items g)) -> (leaf_ok g <-> leaf_ok_its (items g)).
Proof.
  intros ND. split; intros H a it.
  - intros L. apply (H a it). now apply lookup_In.
  - intros I. apply (H a it). now apply In_lookup_nodup.
Qed.

Lemma leaf_ok_shrink its its' : shrink its its' -> leaf_ok_its its -> leaf_ok_its its'.
Proof.
  intros S H a it' L F. destruct (S a it' L) as (it & L0 & (C1 & C2 & C3 & C4 & C5)).
  rewrite C1, C3. apply (H a it L0). rewrite <- C4; auto. intros E. symmetry in E. now apply MARK_not_LEAF in E.
Qed.

(* a command is leaf-safe in a state when it is not a realloc that grows a block smaller than a
   pointer to the size of a pointer or more (the only way the flag goes stale) *)
Definition op_leaf_safe (o : op) (g : gc) : bool :=
  match o with
  | ORealloc p _ n _ =>
      match lookup p (items g) with
      | Some it => (WORD_SIZE <=? isize it) || (n <? WORD_SIZE) || idecl it
      | None => true
      end
  | _ => true
  end.

Fixpoint hist_leaf_safe (h : list op) (g : gc) : bool :=
  match h with
  | [] => true
  | o :: r => op_leaf_safe o g && hist_leaf_safe r (apply_op o g)
  end.

Lemma leaf_ok_register stk p size flags f ws decl g :
  WF g -> leaf_ok_its (items g) ->
  (hasflag flags LEAF_BIT = true -> decl = true \/ size < WORD_SIZE) ->
  leaf_ok_its (items (register stk p size flags f ws decl g)).
Proof.
  intros W H HF. unfold register. destruct (p =? 0); auto. destruct (size <=? 0); auto.
  destruct (negb (hasflag flags ROOT_BIT)).
  - destruct (lookup p (items g)) eqn:L; auto.
    match goal with |- leaf_ok_its (items (if _ then step _ ?G else ?G)) => assert (H1 : leaf_ok_its (items G) /\ WF G) end.
    { split; [|now apply WF_reg_mid]. cbn. intros a it. cbn [lookup]. destruct (Z.eqb_spec p a).
      - intros E. inversion E; subst. cbn [iflags idecl isize].
        pose proof LEAF_nonneg. pose proof FINALIZE_nonneg.
        intros F. assert (F1 : hasflag (if size <? WORD_SIZE then setflag flags LEAF_BIT else flags) LEAF_BIT = true).
        { destruct f; auto. rewrite hasflag_setflag_other in F; auto. apply LEAF_not_FINALIZE. }
        destruct (size <? WORD_SIZE) eqn:C; [right; lia | auto].
      - apply H. }
    destruct H1 as [H1 W1]. destruct (running _); auto.
    eapply leaf_ok_shrink; [apply shrink_step; exact W1 | exact H1].
  - destruct (negb (flags =? bit ROOT_BIT)); auto. destruct f; auto.
Qed.

Lemma leaf_ok_unregister fz p g : leaf_ok_its (items g) -> leaf_ok_its (items (unregister run_fin fz p g)).
Proof. intros H. eapply leaf_ok_shrink; [|exact H]. apply shrink_unregister. apply shrink_call_fin. Qed.

Lemma leaf_ok_update p it it' its : lookup p its = Some it -> leaf_ok_its its ->
  (hasflag (iflags it') LEAF_BIT = true -> idecl it' = true \/ isize it' < WORD_SIZE) ->
  leaf_ok_its (update p it' its).
Proof.
  intros L H H' a v La. destruct (Z.eq_dec a p) as [->|N].
  - rewrite lookup_update_same in La by (eapply lookup_In_keys; eauto). inversion La; subst. auto.
  - rewrite lookup_update_other in La by auto. exact (H a v La).
Qed.

Lemma leaf_ok_remove p its : leaf_ok_its its -> leaf_ok_its (remove p its).
Proof. intros H. eapply leaf_ok_shrink; [apply shrink_remove | exact H]. Qed.

Lemma leaf_ok_apply_op o g : Inv g -> leaf_ok_its (items g) -> op_leaf_safe o g = true ->
  leaf_ok_its (items (apply_op o g)).
Proof.
  intros [W Q] H SAFE. unfold apply_op. destruct (err g); auto. destruct o; cbn [op_leaf_safe] in SAFE.
  - destruct (_ && _); auto. unfold gc_alloc. destruct (size =? 0); auto. destruct (ptr =? 0); auto.
    apply leaf_ok_register; auto.
    + destruct (fk =? 0); auto. now apply WF_set_nextfid.
    + destruct (fk =? 0); auto.
    + unfold user_flags, hasflag. rewrite Z.lor_spec. pose proof LEAF_nonneg. pose proof EXTERN_nonneg.
      destruct leaf; auto. intros F. exfalso. cbn [orb] in F. rewrite Z.bits_0 in F. cbn [orb] in F.
      destruct extern; [|rewrite Z.bits_0 in F; discriminate].
      unfold bit in F. rewrite Z.shiftl_1_l, Z.pow2_bits_eqb in F by lia.
      apply Z.eqb_eq in F. revert F. vm_compute. discriminate.
  - destruct (lookup ptr (items g)) as [it|] eqn:L; auto. destruct (_ && _); auto. cbn.
    eapply leaf_ok_update; eauto. cbn [store_item iflags idecl isize]. apply (H ptr it L).
  - destruct (lookup ptr (roots g)) as [[? ?]|]; auto. destruct (_ && _); auto.
  - destruct (lookup ptr (items g)) as [it|] eqn:L; auto. destruct (_ && _); auto. unfold gc_realloc.
    destruct (newptr =? 0); auto. unfold reregister.
    destruct ((ptr =? 0) || (newptr =? 0) || (newsize <=? 0)); auto.
    assert (HN : hasflag (iflags it) LEAF_BIT = true -> idecl it = true \/ newsize < WORD_SIZE).
    { intros F. destruct (H ptr it L F) as [D|S]; auto.
      destruct (idecl it); auto. rewrite orb_false_r in SAFE. apply orb_prop in SAFE. destruct SAFE as [S1|S1]; lia. }
    destruct (newptr =? ptr).
    + rewrite L.
      assert (U : leaf_ok_its (update ptr (resize_item newsize it) (items g)))
        by (eapply leaf_ok_update; eauto).
      destruct (isize it <? newsize).
      * match goal with |- leaf_ok_its (items (if _ then step _ ?G else ?G)) => assert (WG : WF G) end.
        { destruct W as [A B C]. constructor; cbn -[keys sum_sizes two64 Z.land Z.lor wsub wadd].
          - rewrite keys_update. auto.
          - erewrite sum_sizes_update by eauto. rewrite B, wadd_mod. f_equal. cbn [isize resize_item]. lia.
          - intros a. rewrite keys_update. auto. }
        destruct (running _); auto. eapply leaf_ok_shrink; [apply shrink_step; exact WG | exact U].
      * destruct (newsize <? isize it); auto.
    + rewrite L. apply leaf_ok_register.
      * apply WF_set_finq. now apply WF_remove_item.
      * cbn. now apply leaf_ok_remove.
      * exact HN.
  - destruct (lookup ptr (items g)); auto. unfold gc_dealloc.
    pose proof (leaf_ok_unregister true ptr g H). destruct (ptr =? 0); auto.
  - destruct (lookup ptr (items g)); auto. now apply leaf_ok_unregister.
  - destruct (_ && _); auto. apply leaf_ok_register; auto.
    all: intros F; exfalso; unfold hasflag, bit in F; pose proof ROOT_nonneg;
      rewrite Z.shiftl_1_l, Z.pow2_bits_eqb in F by lia; apply Z.eqb_eq in F; symmetry in F; now apply LEAF_not_ROOT in F.
  - eapply leaf_ok_shrink; [now apply shrink_collect | auto].
  - eapply leaf_ok_shrink; [now apply shrink_step | auto].
  - destruct (_ && _); auto.
  - auto.
  - auto.
Qed.

Lemma leaf_ok_run h : forall g, Inv g -> leaf_ok_its (items g) -> hist_leaf_safe h g = true ->
  leaf_ok_its (items (run h g)).
Proof.
  induction h as [|o r IH]; intros g I H S; cbn [run fold_left]; auto.
  cbn [hist_leaf_safe] in S. apply andb_prop in S. destruct S as [S1 S2].
  apply IH; auto. { now apply Inv_apply_op. } now apply leaf_ok_apply_op.
Qed.

(* strongest true restriction of leaf_flag_sound: every history in which no realloc grows a block
   smaller than a pointer (not declared pointer-free) to pointer size or more *)
Lemma leaf_flag_sound_partial h : hist_leaf_safe h gc_init = true -> leaf_ok (run h gc_init).
Proof.
  intros S. apply leaf_ok_its_iff; [apply registered_once|].
  apply leaf_ok_run; auto. { apply Inv_init. } intros a it L. discriminate.
Qed.

Example leaf_safe_nonvacuous :
  hist_leaf_safe [OAlloc 4096 64 false false 1 7 []; ORealloc 4096 4096 128 []; OCollect []] gc_init = true.
Proof. vm_compute. reflexivity. Qed.

Lemma reachable_kept_leafsafe h stk a it :
  hist_leaf_safe h gc_init = true ->
  treach (items (run h gc_init)) (mark_seeds stk (run h gc_init)) a ->
  lookup a (items (run h gc_init)) = Some it ->
  lookup a (items (collect stk (run h gc_init))) = Some it /\
  (forall e, In e (log (collect stk (run h gc_init))) -> ev_addr e = a -> In e (log (run h gc_init))).
Proof. intros S. apply reachable_kept_partial. now apply leaf_flag_sound_partial. Qed.
