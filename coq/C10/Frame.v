(* The collector only removes items or clears marks/finalizers ([shrink]); soundness of the LEAF
   flag along histories that never grow a sub-pointer-size block. *)
From C10 Require Import Model Proofs Safety Defects.
Local Open Scope Z_scope.

(* ================= the collector only removes items, clears marks and finalizers ================= *)
Definition core_eq (it it' : item) : Prop :=
  isize it' = isize it /\ iwords it' = iwords it /\ idecl it' = idecl it /\
  (forall k, k <> MARK_BIT -> hasflag (iflags it') k = hasflag (iflags it) k) /\
  (ifin it' = ifin it \/ ifin it' = None).

Lemma core_eq_refl it : core_eq it it.
Proof. repeat split; auto. Qed.
Lemma core_eq_trans a b c : core_eq a b -> core_eq b c -> core_eq a c.
Proof.
  intros (A1 & A2 & A3 & A4 & A5) (B1 & B2 & B3 & B4 & B5). repeat split; try congruence.
  - intros k N. rewrite B4, A4; auto.
  - destruct B5 as [B5|B5]; [rewrite B5; auto | auto].
Qed.
Lemma core_eq_set_mark it : core_eq it (set_mark it).
Proof.
  repeat split; auto. intros k N. unfold set_mark. cbn [iflags].
  apply hasflag_setflag_other; [apply MARK_nonneg | auto].
Qed.
Lemma core_eq_clr_mark it : core_eq it (clr_mark it).
Proof.
  repeat split; auto. intros k N. unfold clr_mark. cbn [iflags].
  apply hasflag_clrflag_other; [apply MARK_nonneg | auto].
Qed.
Lemma core_eq_clear_fin it : core_eq it (clear_fin it).
Proof. repeat split; auto. Qed.

Definition shrink (its its' : list (Z * item)) : Prop :=
  forall x it', lookup x its' = Some it' -> exists it, lookup x its = Some it /\ core_eq it it'.

Lemma shrink_refl its : shrink its its.
Proof. intros x it L. exists it. split; auto. apply core_eq_refl. Qed.
Lemma shrink_trans a b c : shrink a b -> shrink b c -> shrink a c.
Proof.
  intros H1 H2 x it L. destruct (H2 x it L) as (it1 & L1 & C1). destruct (H1 x it1 L1) as (it0 & L0 & C0).
  exists it0. split; auto. eapply core_eq_trans; eauto.
Qed.
Lemma shrink_remove p its : shrink its (remove p its).
Proof.
  intros x it L. destruct (Z.eq_dec x p) as [->|N].
  - rewrite lookup_remove_same in L. discriminate.
  - rewrite lookup_remove_other in L by auto. exists it. split; auto. apply core_eq_refl.
Qed.
Lemma shrink_update p it it' its : lookup p its = Some it -> core_eq it it' -> shrink its (update p it' its).
Proof.
  intros L C x v Lx. destruct (Z.eq_dec x p) as [->|N].
  - rewrite lookup_update_same in Lx by (eapply lookup_In_keys; eauto). inversion Lx; subst. eauto.
  - rewrite lookup_update_other in Lx by auto. exists v. split; auto. apply core_eq_refl.
Qed.

Lemma shrink_mext its its' : mext its its' -> shrink its its'.
Proof.
  intros X x it' L. destruct (mext_lookup_back _ _ _ _ X L) as (it & L0 & [->|[_ ->]]).
  - exists it. split; auto. apply core_eq_refl.
  - exists it. split; auto. apply core_eq_set_mark.
Qed.

Lemma lookup_flat_map_keep its x it' : NoDup (keys its) -> lookup x (flat_map sweep_keep its) = Some it' ->
  exists it, lookup x its = Some it /\ (it' = it \/ it' = clr_mark it).
Proof.
  induction its as [|[p v] r IH]; cbn [flat_map lookup]; [discriminate|].
  intros ND. change (keys ((p, v) :: r)) with (p :: keys r) in ND. inversion ND; subst.
  unfold sweep_keep at 1. cbn [fst snd].
  destruct (marked v); [|destruct (hasflag (iflags v) FINALIZE_BIT)]; cbn [app lookup];
    destruct (Z.eqb_spec p x); intros L; try (inversion L; subst; eauto; fail); auto.
  subst. exfalso. apply H1. apply sweep_keep_keys. eapply lookup_In_keys; eauto.
Qed.

Lemma shrink_sweep_keep its : NoDup (keys its) -> shrink its (flat_map sweep_keep its).
Proof.
  intros ND x it' L. destruct (lookup_flat_map_keep _ _ _ ND L) as (it & L0 & [-> | ->]);
    exists it; split; auto; [apply core_eq_refl | apply core_eq_clr_mark].
Qed.

Definition cb_shrink (cb : fin -> Z -> gc -> gc) : Prop := forall f p g, shrink (items g) (items (cb f p g)).

Lemma shrink_unregister cb fz p g : cb_shrink cb -> shrink (items g) (items (unregister cb fz p g)).
Proof.
  intros Hcb. unfold unregister. destruct (p =? 0); [apply shrink_refl|].
  destruct (lookup p (items g)) as [it|].
  - set (g1 := set_finq _ _).
    assert (S1 : shrink (items g) (items g1)) by (subst g1; cbn; apply shrink_remove).
    destruct (ifin it); auto. destruct fz; auto. eapply shrink_trans; eauto.
  - destruct (lookup p (roots g)); apply shrink_refl.
Qed.

Lemma shrink_call_fin n : cb_shrink (call_fin n).
Proof.
  induction n as [|n IH]; intros f p g; cbn [call_fin]; [apply shrink_refl|].
  destruct (fkind f =? 2); [|destruct (fkind f =? 3)]; try apply shrink_refl.
  - exact (shrink_unregister (call_fin n) false p (add_log _ g) IH).
  - exact (shrink_unregister (call_fin n) true p (add_log _ g) IH).
Qed.

Lemma shrink_sweep2 k : forall i g, shrink (items g) (items (sweep2 k i g)).
Proof.
  induction k as [|k IH]; intros i g; cbn [sweep2]; [apply shrink_refl|].
  eapply shrink_trans; [|apply IH].
  destruct (nth_error (finq g) i) as [[ptr|]|]; try apply shrink_refl.
  destruct (lookup ptr (items g)) as [it|] eqn:L; try apply shrink_refl.
  destruct (ifin it) as [f|]; try apply shrink_refl.
  eapply shrink_trans; [|apply shrink_call_fin]. cbn. eapply shrink_update; eauto. apply core_eq_clear_fin.
Qed.

Lemma shrink_sweep3 q : forall g, shrink (items g) (items (sweep3 q g)).
Proof.
  induction q as [|[p|] r IH]; intros g; cbn [sweep3]; try apply shrink_refl; auto.
  destruct (lookup p (items g)) as [it|]; auto.
  eapply shrink_trans; [|apply IH].
  destruct (hasflag (iflags it) EXTERN_BIT); cbn; apply shrink_remove.
Qed.

Lemma shrink_sweep g : NoDup (keys (items g)) -> shrink (items g) (items (sweep g)).
Proof.
  intros ND. unfold sweep. pose proof (sweep1_spec (items g) (membytes g)) as S1.
  destruct (sweep1 (items g) (membytes g)) as [[[kept q] freed] mem]. destruct S1 as (K & _).
  cbn. eapply shrink_trans; [|apply shrink_sweep3]. eapply shrink_trans; [|apply shrink_sweep2].
  cbn. subst kept. now apply shrink_sweep_keep.
Qed.

Lemma mark_loop_mext fuel o a : forall pend its its',
  NoDup (keys its) -> (forall k, In k (keys its) -> passes o a k = true) ->
  mark_loop fuel o a pend its = Some its' -> mext its its'.
Proof.
  induction fuel as [|f IH]; intros pend its its' ND PS; destruct pend as [|r rest]; cbn [mark_loop];
    try discriminate; try (intros E; inversion E; subst; apply mext_refl).
  destruct (scan_words o a r its rest) as [its1 pend1] eqn:S. intros E.
  destruct (scan_words_spec _ _ _ _ _ _ _ ND PS S) as (X & _).
  eapply mext_trans; [exact X|]. eapply IH; eauto.
  - eapply mext_nodup; eauto.
  - intros k. destruct X as [EK _]. rewrite EK. auto.
Qed.

Lemma mark_mext stk g its : WF g -> mark stk g = Some its -> mext (items g) its.
Proof.
  intros W M. unfold mark in M. eapply mark_loop_mext; eauto. apply W. intros k I. now apply WF_passes.
Qed.

Lemma shrink_collect stk g : WF g -> shrink (items g) (items (collect stk g)).
Proof.
  intros W. unfold collect. destruct (collecting g || (membytes g =? 0)); [apply shrink_refl|].
  destruct (mark stk (set_collecting true g)) as [its|] eqn:M; [|apply shrink_refl].
  assert (X : mext (items g) its) by (apply (mark_mext stk (set_collecting true g)); auto; now apply WF_set_collecting).
  cbn. eapply shrink_trans; [apply shrink_mext; exact X|].
  apply (shrink_sweep (set_items its (set_collecting true g))). cbn. eapply mext_nodup; eauto. apply W.
Qed.

Lemma shrink_step stk g : WF g -> shrink (items g) (items (step stk g)).
Proof. intros W. unfold step. destruct (step_due g); [now apply shrink_collect | apply shrink_refl]. Qed.

(* ---------- the LEAF flag is only ever set by the user ---------- *)
Definition leaf_decl (its : list (Z * item)) : Prop :=
  forall a it, lookup a its = Some it -> hasflag (iflags it) LEAF_BIT = true -> idecl it = true.

Lemma leaf_decl_shrink its its' : shrink its its' -> leaf_decl its -> leaf_decl its'.
Proof.
  intros S H a it' L F. destruct (S a it' L) as (it & L0 & (C1 & C2 & C3 & C4 & C5)).
  rewrite C3. apply (H a it L0). rewrite <- C4; auto. intros E. symmetry in E. now apply MARK_not_LEAF in E.
Qed.

Lemma reg_flags_leaf flags size f : hasflag (reg_flags flags size f) LEAF_BIT = hasflag flags LEAF_BIT.
Proof.
  unfold reg_flags. rewrite auto_leaf_off. cbn [andb]. destruct f; auto.
  apply hasflag_setflag_other; [apply FINALIZE_nonneg | apply LEAF_not_FINALIZE].
Qed.

Lemma leaf_decl_register stk p size flags f ws decl g :
  WF g -> leaf_decl (items g) -> (hasflag flags LEAF_BIT = true -> decl = true) ->
  leaf_decl (items (register stk p size flags f ws decl g)).
Proof.
  intros W H HF. unfold register. destruct (p =? 0); auto. destruct (size <=? 0); auto.
  destruct (negb (hasflag flags ROOT_BIT)).
  - destruct (lookup p (items g)) eqn:L; auto.
    match goal with |- leaf_decl (items (if _ then step _ ?G else ?G)) => assert (H1 : leaf_decl (items G) /\ WF G) end.
    { split; [|now apply WF_reg_mid]. cbn [items set_membytes set_masks set_items]. intros a it. cbn [lookup].
      destruct (Z.eqb_spec p a).
      - intros E. inversion E; subst. cbn [iflags idecl]. rewrite reg_flags_leaf. exact HF.
      - apply H. }
    destruct H1 as [H1 W1]. destruct (running _); auto.
    eapply leaf_decl_shrink; [apply shrink_step; exact W1 | exact H1].
  - destruct (negb (flags =? bit ROOT_BIT)); auto. destruct f; auto.
Qed.

Lemma leaf_decl_update p it it' its : lookup p its = Some it -> leaf_decl its ->
  (hasflag (iflags it') LEAF_BIT = true -> idecl it' = true) -> leaf_decl (update p it' its).
Proof.
  intros L H H' a v La. destruct (Z.eq_dec a p) as [->|N].
  - rewrite lookup_update_same in La by (eapply lookup_In_keys; eauto). inversion La; subst. auto.
  - rewrite lookup_update_other in La by auto. exact (H a v La).
Qed.

Lemma user_flags_leaf leaf extern : hasflag (user_flags leaf extern) LEAF_BIT = leaf.
Proof.
  unfold user_flags, hasflag. rewrite Z.lor_spec. pose proof LEAF_nonneg. pose proof EXTERN_nonneg.
  assert (B : forall k, 0 <= k -> Z.testbit (bit k) LEAF_BIT = (k =? LEAF_BIT)).
  { intros k Hk. unfold bit. rewrite Z.shiftl_1_l, Z.pow2_bits_eqb by lia. reflexivity. }
  destruct leaf, extern; rewrite ?B, ?Z.bits_0 by lia; rewrite ?Z.eqb_refl; auto; vm_compute; reflexivity.
Qed.

Lemma leaf_decl_apply_op o g : Inv g -> leaf_decl (items g) -> leaf_decl (items (apply_op o g)).
Proof.
  intros [W Q] H. unfold apply_op. destruct (err g); auto. destruct o.
  - destruct (_ && _); auto. unfold gc_alloc. destruct (size =? 0); auto. destruct (ptr =? 0); auto.
    apply leaf_decl_register; auto.
    + destruct (fk =? 0); auto. now apply WF_set_nextfid.
    + destruct (fk =? 0); auto.
    + rewrite user_flags_leaf. auto.
  - destruct (lookup ptr (items g)) as [it|] eqn:L; auto. destruct (_ && _); auto. cbn [items set_items].
    eapply leaf_decl_update; eauto. cbn [store_item iflags idecl]. apply (H ptr it L).
  - destruct (lookup ptr (roots g)) as [[? ?]|]; auto. destruct (_ && _); auto.
  - destruct (lookup ptr (items g)) as [it|] eqn:L; auto. destruct (_ && _); auto. unfold gc_realloc.
    destruct (newptr =? 0); auto. unfold reregister.
    destruct ((ptr =? 0) || (newptr =? 0) || (newsize <=? 0)); auto.
    destruct (newptr =? ptr).
    + rewrite L.
      assert (U : leaf_decl (update ptr (resize_item newsize it) (items g)))
        by (eapply leaf_decl_update; eauto; cbn [resize_item iflags idecl]; apply (H ptr it L)).
      destruct (isize it <? newsize).
      * match goal with |- leaf_decl (items (if _ then step _ ?G else ?G)) => assert (WG : WF G) end.
        { destruct W as [A B C]. constructor; cbn -[keys sum_sizes two64 Z.land Z.lor wsub wadd].
          - rewrite keys_update. auto.
          - erewrite sum_sizes_update by eauto. rewrite B, wadd_mod. f_equal. cbn [isize resize_item]. lia.
          - intros a. rewrite keys_update. auto. }
        destruct (running _); auto. eapply leaf_decl_shrink; [apply shrink_step; exact WG | exact U].
      * destruct (newsize <? isize it); auto.
    + rewrite L. apply leaf_decl_register.
      * apply WF_set_finq. now apply WF_remove_item.
      * cbn [items set_finq set_membytes set_items]. eapply leaf_decl_shrink; [apply shrink_remove | exact H].
      * apply (H ptr it L).
  - destruct (lookup ptr (items g)); auto. destruct (dealloc_ok _); auto. unfold gc_dealloc.
    assert (leaf_decl (items (unregister run_fin true ptr g)))
      by (eapply leaf_decl_shrink; [apply shrink_unregister, shrink_call_fin | exact H]).
    destruct (ptr =? 0); auto.
  - destruct (lookup ptr (items g)); auto. eapply leaf_decl_shrink; [apply shrink_unregister, shrink_call_fin | exact H].
  - destruct (_ && _); auto. apply leaf_decl_register; auto.
    all: intros F; exfalso; unfold hasflag, bit in F; pose proof ROOT_nonneg;
      rewrite Z.shiftl_1_l, Z.pow2_bits_eqb in F by lia; apply Z.eqb_eq in F; symmetry in F; now apply LEAF_not_ROOT in F.
  - eapply leaf_decl_shrink; [now apply shrink_collect | auto].
  - eapply leaf_decl_shrink; [now apply shrink_step | auto].
  - destruct (_ && _); auto.
  - auto.
  - auto.
Qed.

Lemma leaf_decl_run h : forall g, Inv g -> leaf_decl (items g) -> leaf_decl (items (run h g)).
Proof.
  induction h as [|o r IH]; intros g I H; cbn [run fold_left]; auto.
  apply IH; [now apply Inv_apply_op | now apply leaf_decl_apply_op].
Qed.

(* the LEAF flag is sound over every history *)
Lemma leaf_flag_sound : leaf_flag_sound_full.
Proof.
  intros h a it I F. left.
  apply (leaf_decl_run h gc_init Inv_init (fun _ _ L => ltac:(discriminate)) a it); auto.
  apply In_lookup_nodup; auto. apply registered_once.
Qed.

(* hence a collection keeps every truly reachable block, over every history *)
Lemma reachable_kept : reachable_kept_full.
Proof. intros h stk a it. apply reachable_kept_of_leaf_ok. apply leaf_flag_sound. Qed.
