(* The stack clause: main-program stack with gc.stacktop, coroutine stacks as registered items. *)
From C10 Require Import Model Proofs Safety Defects Frame Finalize Exit Garbage AllocSafe Abort OpFrame ReallocSafe EveryOp.
Local Open Scope Z_scope.

(* ================= stacks: the main program and coroutines ================= *)
(* What GC_scanstack sees, as far as the collector's own state decides it.  The main stack is a
   list of words, shallow end first; gc.stacktop (set by coroutine.resume through
   gc:setstacktop() when the MAIN program resumes a coroutine, reset by gc:setstacktop(0) when
   control is back) limits the scan to the words that existed at that resume: None = scan down to
   the current frame.  A coroutine's own stack is not a scan range of its own: it lies inside the
   coroutine object, which is an ordinary registered item (coroutine.create registers it with
   its full size), scanned iff it is marked. *)
Record cstate := mkC {
  cg : gc;
  mstack : list Z;          (* words of the main program's stack, shallow end first *)
  stacktop : option nat;    (* gc.stacktop: Some k = only the k shallowest words are scanned *)
  chain : list Z            (* coroutines being run, innermost first; [] = the main program runs *)
}.
Definition cinit : cstate := mkC gc_init [] None [].

(* the words a cycle scans: registers / current frame (history supplied) and the main stack *)
Definition scanned (cs : cstate) (regs : list Z) : list Z :=
  regs ++ match stacktop cs with None => mstack cs | Some k => firstn k (mstack cs) end.

Definition with_stk (o : op) (stk : list Z) : op :=
  match o with
  | OAlloc p s l e f t _ => OAlloc p s l e f t stk
  | ORealloc p q n _ => ORealloc p q n stk
  | OCollect _ => OCollect stk
  | OStep _ => OStep stk
  | o => o
  end.
Definition has_stk (o : op) : bool :=
  match o with OAlloc _ _ _ _ _ _ _ | ORealloc _ _ _ _ | OCollect _ | OStep _ => true | _ => false end.

Inductive cop :=
| CMut (o : op) (regs : list Z)   (* a mutator command, by whoever runs; its cycle scans [scanned] *)
| CPush (ws : list Z)             (* the main program calls deeper: new words on its stack *)
| CPop (n : nat)                  (* ... and returns *)
| CResume (c : Z) (ok : bool)     (* coroutine.resume(c) by whoever runs; ok = minicoro.resume accepted it *)
| CBack.                          (* the running coroutine yields or returns *)

Definition set_cg g cs := mkC g (mstack cs) (stacktop cs) (chain cs).

Definition capply_gen (reset_before_error_return : bool) (o : cop) (cs : cstate) : cstate :=
  match o with
  | CMut o regs => set_cg (apply_op (with_stk o (scanned cs regs)) (cg cs)) cs
  | CPush ws => match chain cs with
                | [] => mkC (cg cs) (mstack cs ++ ws) (stacktop cs) []
                | _ :: _ => cs                 (* the main stack is frozen while a coroutine runs *)
                end
  | CPop n => match chain cs with
              | [] => mkC (cg cs) (firstn (length (mstack cs) - n) (mstack cs)) (stacktop cs) []
              | _ :: _ => cs
              end
  | CResume c ok =>
      match chain cs with
      | [] =>      (* ismain: gc:setstacktop() ; minicoro.resume ; [on return] gc:setstacktop(0) *)
          if ok then mkC (cg cs) (mstack cs) (Some (length (mstack cs))) [c]
          else if reset_before_error_return then mkC (cg cs) (mstack cs) None []
          else mkC (cg cs) (mstack cs) (Some (length (mstack cs))) []
      | r => if ok then mkC (cg cs) (mstack cs) (stacktop cs) (c :: r) else cs
      end
  | CBack =>
      match chain cs with
      | [] => cs
      | [_] => mkC (cg cs) (mstack cs) None []          (* back in main: gc:setstacktop(0) *)
      | _ :: r => mkC (cg cs) (mstack cs) (stacktop cs) r
      end
  end.
(* the code as it is: coroutine.resume resets gc.stacktop before its error return iff the scrape says so *)
Definition capply := capply_gen STACKTOP_RESET_BEFORE_ERROR_RETURN.
Definition crun_gen (b : bool) (h : list cop) (cs : cstate) : cstate := fold_left (fun cs o => capply_gen b o cs) h cs.
Definition crun (h : list cop) (cs : cstate) : cstate := fold_left (fun cs o => capply o cs) h cs.

Lemma stacktop_reset : STACKTOP_RESET_BEFORE_ERROR_RETURN = true. Proof. reflexivity. Qed.
(* coroutine.create registers the whole coroutine block (desc.coro_size: header, storage AND stack).
   A tripwire only: no theorem depends on it; that the coroutine's frames are words of its item is a
   PREMISE of coroutine_stack_kept ([In b (iwords itc)]), observed by the coroutine stream *)
Lemma coro_registered_whole : CORO_REGISTERED_WITH_CORO_SIZE = true. Proof. reflexivity. Qed.

(* gc.stacktop is zero whenever the main program runs, and names the whole main stack whenever a
   coroutine runs; the collector state stays in its invariant *)
Definition cinv (cs : cstate) : Prop :=
  (chain cs = [] -> stacktop cs = None) /\
  (chain cs <> [] -> stacktop cs = Some (length (mstack cs))) /\
  Inv (cg cs) /\ wl_ok (items (cg cs)).

Lemma cinv_init : cinv cinit.
Proof.
  split; [auto|]. split; [intros H; exfalso; now apply H|]. split; [apply Inv_init|]. intros a it L. discriminate.
Qed.

Lemma cinv_capply o cs : cinv cs -> cinv (capply o cs).
Proof.
  intros (A & B & I & W). unfold capply. destruct o; cbn [capply_gen].
  - split; [exact A|]. split; [exact B|]. split; [now apply Inv_apply_op | now apply wl_apply_op].
  - destruct (chain cs) eqn:E; [|split; [rewrite E; exact A|]; split; [rewrite E; exact B|]; split; assumption].
    split; [cbn; auto|]. split; [cbn; congruence|]. split; assumption.
  - destruct (chain cs) eqn:E; [|split; [rewrite E; exact A|]; split; [rewrite E; exact B|]; split; assumption].
    split; [cbn; auto|]. split; [cbn; congruence|]. split; assumption.
  - destruct (chain cs) eqn:E.
    + destruct ok.
      * split; [cbn; congruence|]. split; [cbn; auto|]. split; assumption.
      * rewrite stacktop_reset. split; [cbn; auto|]. split; [cbn; congruence|]. split; assumption.
    + destruct ok.
      * split; [cbn; congruence|]. split; [cbn; intros _; apply B; congruence|]. split; assumption.
      * split; [rewrite E; exact A|]. split; [rewrite E; exact B|]. split; assumption.
  - destruct (chain cs) as [|c [|c2 r]] eqn:E.
    + split; [rewrite E; exact A|]. split; [rewrite E; exact B|]. split; assumption.
    + split; [cbn; auto|]. split; [cbn; congruence|]. split; assumption.
    + split; [cbn; congruence|]. split; [cbn; intros _; apply B; congruence|]. split; assumption.
Qed.

Lemma cinv_crun h : forall cs, cinv cs -> cinv (crun h cs).
Proof. induction h; cbn; auto. intros cs I. apply IHh. now apply cinv_capply. Qed.

(* every cycle scans the whole main stack, whoever runs *)
Lemma scanned_covers_main cs regs w : cinv cs -> In w (mstack cs) -> In w (scanned cs regs).
Proof.
  intros (A & B & _) I. unfold scanned. apply in_or_app. right.
  destruct (chain cs) eqn:E.
  - rewrite A; auto.
  - rewrite B by congruence. now rewrite firstn_all.
Qed.

Lemma op_stk_with_stk o s : has_stk o = true -> op_stk (with_stk o s) = s.
Proof. destruct o; cbn; auto; discriminate. Qed.
Lemma op_moves_with_stk o s : op_moves (with_stk o s) = op_moves o.
Proof. destruct o; reflexivity. Qed.
Lemma op_touches_with_stk o s a : op_touches (with_stk o s) a <-> op_touches o a.
Proof. destruct o; cbn; tauto. Qed.

(* the stack clause for the main program: a block referenced from ANY frame of the main stack
   (however deep, whether the main program or a coroutine is running, after any number of
   successful or refused resumes) or from the registers survives every cycle-running command *)
Lemma main_stack_kept h o regs a it : let cs := crun h cinit in
  has_stk o = true -> op_moves o = false -> ~ op_touches o a ->
  In a (regs ++ mstack cs) -> lookup a (items (cg cs)) = Some it ->
  lookup a (items (cg (capply (CMut o regs) cs))) = Some it /\
  (forall e, In e (log (cg (capply (CMut o regs) cs))) -> ev_addr e = a -> In e (log (cg cs))).
Proof.
  intros cs HS NM NT IA L. pose proof (cinv_crun h cinit cinv_init) as CI. fold cs in CI.
  destruct CI as (A & B & I & W). unfold capply. cbn [capply_gen cg set_cg].
  apply every_op_safe_state; auto.
  - now rewrite op_moves_with_stk.
  - rewrite op_stk_with_stk by auto.
    apply (reach_seed _ _ (scanned cs regs) a).
    + unfold mark_seeds. now left.
    + apply in_app_or in IA. destruct IA as [IA|IA].
      * unfold scanned. apply in_or_app. now left.
      * apply scanned_covers_main; auto. split; [exact A|]. split; [exact B|]. split; assumption.
    + eapply lookup_In_keys; eauto.
  - now rewrite op_touches_with_stk.
Qed.

(* the stack clause for coroutines: the stack of a suspended (or running) coroutine lies in the
   coroutine object, a registered block; whatever is referenced from it survives every cycle as
   long as the coroutine object itself is referenced from a main-stack frame, the registers, a
   root region or another reachable block *)
Lemma coroutine_stack_kept h o regs c itc b itb : let cs := crun h cinit in
  has_stk o = true -> op_moves o = false -> ~ op_touches o b ->
  reach (items (cg cs)) (mark_seeds (scanned cs regs) (cg cs)) c ->
  lookup c (items (cg cs)) = Some itc -> noscan itc = false -> In b (iwords itc) ->
  lookup b (items (cg cs)) = Some itb ->
  lookup b (items (cg (capply (CMut o regs) cs))) = Some itb /\
  (forall e, In e (log (cg (capply (CMut o regs) cs))) -> ev_addr e = b -> In e (log (cg cs))).
Proof.
  intros cs HS NM NT R Lc NS Ib Lb. pose proof (cinv_crun h cinit cinv_init) as CI. fold cs in CI.
  destruct CI as (A & B & I & W). unfold capply. cbn [capply_gen cg set_cg].
  apply every_op_safe_state; auto.
  - now rewrite op_moves_with_stk.
  - rewrite op_stk_with_stk by auto. eapply reach_step; eauto. eapply lookup_In_keys; eauto.
  - now rewrite op_touches_with_stk.
Qed.

Example costack_nonvacuous :
  let cs := crun [CMut (ORegRoot 256 64) []; CMut OStop []; CPush [1; 2];
                  CMut (OAlloc 4096 64 false false 2 0 []) [];      (* a coroutine object *)
                  CMut (OAlloc 8192 32 false false 1 1 []) [];      (* a block only its stack refers to *)
                  CMut (OStore 4096 3 8192) []; CPush [4096];       (* the handle lives in a main frame *)
                  CResume 4096 true; CBack; CResume 5 false; CPush [9; 9]] cinit in
  keys (items (cg (capply (CMut (OCollect []) []) cs))) = [8192; 4096] /\ stacktop cs = None.
Proof. vm_compute. split; reflexivity. Qed.

Lemma stacktop_discipline h : let cs := crun h cinit in
  (chain cs = [] -> stacktop cs = None) /\ (chain cs <> [] -> stacktop cs = Some (length (mstack cs))).
Proof. destruct (cinv_crun h cinit cinv_init) as (A & B & _). auto. Qed.

(* the reset before the error return is needed: under the other placement (return first, as in the
   seeded change C10-B) a refused resume from the main program leaves gc.stacktop stale, the
   discipline fails and a word pushed on the main stack afterwards is not scanned *)
Lemma stacktop_reset_needed :
  exists h w, let cs := crun_gen false h cinit in
    chain cs = [] /\ stacktop cs <> None /\ In w (mstack cs) /\ ~ In w (scanned cs []).
Proof.
  exists [CResume 7 false; CPush [4096]], 4096. vm_compute.
  split; [reflexivity|]. split; [discriminate|]. split; [now left | intros []].
Qed.
