(* Mark soundness and: whatever is still registered after a cycle is reachable. *)
From C10 Require Import Model Proofs Safety Defects Frame Finalize Exit.
Local Open Scope Z_scope.

(* ================= garbage does not survive a cycle ================= *)
(* mark soundness: only reachable items get marked *)
Lemma reach_mext_back its its' seeds a : mext its its' -> reach its' seeds a -> reach its seeds a.
Proof.
  intros X R. destruct X as [EK HX]. induction R as [r a Ir Ia K | a b it' R IH L F Ib K].
  - eapply reach_seed; eauto. now rewrite <- EK.
  - destruct (mext_lookup_back its its' a it' (conj EK HX) L) as (it & L0 & RR).
    eapply (reach_step _ _ a b it); eauto.
    + destruct RR as [->|[_ ->]]; auto. now rewrite leaf_set_mark in F.
    + destruct RR as [->|[_ ->]]; auto.
    + now rewrite <- EK.
Qed.
Lemma reach_mext_fwd its its' seeds a : mext its its' -> reach its seeds a -> reach its' seeds a.
Proof.
  intros X R. destruct X as [EK HX]. induction R as [r a Ir Ia K | a b it R IH L F Ib K].
  - eapply reach_seed; eauto. now rewrite EK.
  - destruct (HX a it L) as (it' & L' & RR).
    eapply (reach_step _ _ a b it'); eauto.
    + destruct RR as [->|[_ ->]]; auto. now rewrite leaf_set_mark.
    + destruct RR as [->|[_ ->]]; auto.
    + now rewrite EK.
Qed.

Definition good (its : list (Z * item)) (seeds : list (list Z)) (r : list Z) : Prop :=
  forall w, In w r -> In w (keys its) -> reach its seeds w.
Definition snd_inv (seeds : list (list Z)) (its : list (Z * item)) (pend : list (list Z)) : Prop :=
  (forall a, is_marked its a -> reach its seeds a) /\ (forall r, In r pend -> good its seeds r).

Lemma good_mext its its' seeds r : mext its its' -> good its seeds r -> good its' seeds r.
Proof. intros X G w I K. eapply reach_mext_fwd; eauto. apply G; auto. destruct X as [EK _]. now rewrite <- EK. Qed.

Lemma scan_words_sound seeds o a ws : forall its pend its' pend',
  NoDup (keys its) -> good its seeds ws -> snd_inv seeds its pend ->
  scan_words o a ws its pend = (its', pend') -> snd_inv seeds its' pend'.
Proof.
  induction ws as [|w r IH]; intros its pend its' pend' ND G SI; cbn [scan_words].
  - intros E. inversion E; subst. exact SI.
  - assert (Gr : good its seeds r) by (intros x I; apply G; now right).
    destruct (passes o a w); [|now apply IH].
    destruct (lookup w its) as [it|] eqn:L; [|now apply IH].
    destruct (marked it) eqn:Mk; [now apply IH|].
    pose proof (mext_update w it its ND L Mk) as X1.
    assert (ND1 : NoDup (keys (update w (set_mark it) its))) by (rewrite keys_update; auto).
    assert (Rw : reach its seeds w) by (apply G; [now left | eapply lookup_In_keys; eauto]).
    assert (SI1 : snd_inv seeds (update w (set_mark it) its) pend).
    { destruct SI as [S1 S2]. split.
      - intros x (itx & Lx & Mx). eapply reach_mext_fwd; eauto.
        destruct (Z.eq_dec x w) as [->|N]; auto.
        rewrite lookup_update_other in Lx by auto. apply S1. exists itx. auto.
      - intros r0 I. eapply good_mext; eauto. }
    assert (Gr1 : good (update w (set_mark it) its) seeds r) by (eapply good_mext; eauto).
    destruct (noscan it) eqn:Lf.
    + now apply IH.
    + apply IH; auto. destruct SI1 as [S1 S2]. split; auto.
      intros r0 [<-|I]; auto.
      intros x Ix Kx. eapply reach_mext_fwd; eauto.
      eapply (reach_step _ _ w x it); eauto. now rewrite keys_update in Kx.
Qed.

Lemma mark_loop_sound seeds fuel o a : forall pend its its',
  NoDup (keys its) -> snd_inv seeds its pend ->
  mark_loop fuel o a pend its = Some its' -> forall x, is_marked its' x -> reach its' seeds x.
Proof.
  induction fuel as [|f IH]; intros pend its its' ND SI; destruct pend as [|r rest]; cbn [mark_loop];
    try discriminate; try (intros E; inversion E; subst; apply SI).
  destruct (scan_words o a r its rest) as [its1 pend1] eqn:S. intros E.
  assert (SI' : snd_inv seeds its rest) by (destruct SI as [S1 S2]; split; auto; intros r0 I; apply S2; now right).
  assert (G : good its seeds r) by (apply SI; now left).
  pose proof (scan_words_sound seeds _ _ _ _ _ _ _ ND G SI' S) as SI1.
  pose proof (scan_words_shape _ _ _ _ _ _ _ ND S) as SH.
  assert (ND1 : NoDup (keys its1)) by (rewrite keys_shape, SH, <- keys_shape; auto).
  eapply IH; eauto.
Qed.

Lemma mark_sound stk g its' : WF g -> all_unmarked (items g) -> mark stk g = Some its' ->
  forall x, is_marked its' x -> reach (items g) (mark_seeds stk g) x.
Proof.
  intros W U M x Mx. pose proof (mark_mext stk g its' W M) as X.
  eapply reach_mext_back; eauto. unfold mark in M.
  eapply (mark_loop_sound (mark_seeds stk g)); eauto; [apply W|].
  split.
  - intros a (it & L & Mk). rewrite (U a it L) in Mk. discriminate.
  - intros r I w Iw K. eapply reach_seed; eauto.
Qed.

(* every item is either in [M] or still named by the finalize queue *)
Definition qcoversM (M : Z -> Prop) (g : gc) : Prop :=
  forall p, In p (keys (items g)) -> M p \/ In (Some p) (finq g).
Definition cb_qcM (M : Z -> Prop) (cb : fin -> Z -> gc -> gc) : Prop :=
  forall f p g, qcoversM M g -> qcoversM M (cb f p g).

Lemma qcM_unregister M cb fz p g : cb_qcM M cb -> qcoversM M g -> qcoversM M (unregister cb fz p g).
Proof.
  intros Hcb Q. unfold unregister. destruct (p =? 0); auto.
  destruct (lookup p (items g)) as [it|].
  - set (g1 := set_finq _ _).
    assert (Q1 : qcoversM M g1).
    { subst g1. intros x I. cbn [items finq set_finq set_membytes set_items] in *.
      apply keys_remove_incl in I. destruct I as [I N]. destruct (Q x I) as [H|H]; auto.
      right. apply replace_first_other; auto. }
    destruct (ifin it); auto. destruct fz; auto.
  - destruct (lookup p (roots g)); auto.
Qed.
Lemma qcM_call_fin M n : cb_qcM M (call_fin n).
Proof.
  induction n as [|n IH]; intros f p g Q; cbn [call_fin]; auto.
  destruct (fkind f =? 2); [|destruct (fkind f =? 3)]; auto.
  - exact (qcM_unregister M (call_fin n) false p (add_log _ g) IH Q).
  - exact (qcM_unregister M (call_fin n) true p (add_log _ g) IH Q).
Qed.
Lemma qcM_sweep2 M k0 : forall i g, qcoversM M g -> qcoversM M (sweep2 k0 i g).
Proof.
  induction k0 as [|k0 IH]; intros i g Q; cbn [sweep2]; auto. apply IH.
  destruct (nth_error (finq g) i) as [[ptr|]|]; auto.
  destruct (lookup ptr (items g)) as [it|]; auto. destruct (ifin it) as [f|]; auto.
  apply qcM_call_fin. intros x I. cbn [items finq set_items] in *. rewrite keys_update in I. auto.
Qed.

Lemma keep_keys_cases its p : NoDup (keys its) -> In p (keys (flat_map sweep_keep its)) ->
  is_marked its p \/ In p (flat_map sweep_queue its).
Proof.
  induction its as [|[k v] r IH]; cbn [flat_map]; [intros _ []|].
  intros ND. change (keys ((k, v) :: r)) with (k :: keys r) in ND. inversion ND as [|? ? NI NDr]; subst.
  unfold keys in *. rewrite map_app, in_app_iff. intros [H|H].
  - unfold sweep_keep in H. cbn [fst snd] in H. destruct (marked v) eqn:Mk.
    + destruct H as [<-|[]]. left. exists v. cbn [lookup]. rewrite Z.eqb_refl. auto.
    + destruct (hasflag (iflags v) FINALIZE_BIT) eqn:Fl; [|destruct H]. destruct H as [<-|[]].
      right. apply in_or_app. left. unfold sweep_queue. cbn [fst snd]. rewrite Mk, Fl. now left.
  - destruct (IH NDr H) as [(it & L & Mk)|Q].
    + left. exists it. split; auto. cbn [lookup]. destruct (Z.eqb_spec k p); auto. subst.
      exfalso. apply NI. eapply (lookup_In_keys p r it); eauto.
    + right. apply in_or_app. now right.
Qed.

(* after a cycle everything still registered was marked, i.e. reachable *)
Lemma sweep_only_marked g p : NoDup (keys (items g)) -> finq g = [] ->
  In p (keys (items (sweep g))) -> is_marked (items g) p.
Proof.
  intros ND FQ I. unfold sweep in I. pose proof (sweep1_spec (items g) (membytes g)) as S1.
  destruct (sweep1 (items g) (membytes g)) as [[[kept q] freed] mem]. destruct S1 as (K & Q & _).
  set (g1 := set_finq (finq g ++ map Some q) _) in *.
  assert (Q1 : qcoversM (is_marked (items g)) g1).
  { subst g1. intros x Ix. cbn [items finq set_finq set_membytes set_items] in *. rewrite FQ. cbn [app].
    subst kept q. destruct (keep_keys_cases _ _ ND Ix) as [H|H]; auto. right. now apply in_map. }
  pose proof (qcM_sweep2 _ (length (finq g1)) 0 g1 Q1) as Q2.
  set (g2 := sweep2 (length (finq g1)) 0 g1) in *.
  cbn [items set_finq] in I. destruct (sweep3_keys (finq g2) g2 p I) as [I2 N].
  destruct (Q2 p I2) as [H|H]; [exact H | contradiction].
Qed.

Lemma collect_no_garbage stk g p : Inv g -> membytes g <> 0 ->
  In p (keys (items (collect stk g))) -> reach (items g) (mark_seeds stk g) p.
Proof.
  intros [W Q] MB I. unfold collect in I. destruct Q as (U & FQ & CF). rewrite CF in I. cbn [orb] in I.
  destruct (Z.eqb_spec (membytes g) 0); [contradiction|].
  destruct (mark_complete stk (set_collecting true g)) as (its & E & X & _).
  { now apply WF_set_collecting. } { now apply unmarked_in_all. }
  rewrite E in I. cbn [items set_collecting set_lastmembytes] in I.
  assert (ND' : NoDup (keys its)) by (eapply mext_nodup; eauto; apply W).
  pose proof (sweep_only_marked (set_items its (set_collecting true g)) p ND' FQ I) as Mk.
  apply (mark_sound stk (set_collecting true g) its); auto.
  - now apply WF_set_collecting.
  - now apply unmarked_in_all.
Qed.

(* over all histories: whatever is still registered after an explicit cycle is reachable from
   the roots and the stack words of that cycle; nothing else can pile up *)
Lemma no_garbage_after_collect h stk p : membytes (run h gc_init) <> 0 ->
  In p (keys (items (collect stk (run h gc_init)))) ->
  reach (items (run h gc_init)) (mark_seeds stk (run h gc_init)) p.
Proof. intros MB I. apply collect_no_garbage; auto. apply (Inv_run h gc_init Inv_init). Qed.

Example no_garbage_nonvacuous :
  let h := [ORegRoot 256 64; OStop; OAlloc 4096 32 false false 1 0 []; OAlloc 8192 32 false false 0 0 [];
            ORootStore 256 0 4096] in
  membytes (run h gc_init) <> 0 /\ keys (items (collect [] (run h gc_init))) = [4096].
Proof. vm_compute. split; [discriminate | reflexivity]. Qed.

(* the hypotheses of C10_sweep_safe are satisfiable: a block held by a root region, pointing to a second one *)
Example sweep_safe_nonvacuous :
  let h := [ORegRoot 256 64; OStop; OAlloc 4096 32 false false 1 0 []; OAlloc 8192 32 false false 0 0 [];
            OStore 4096 1 8192; ORootStore 256 0 4096] in
  reach (items (run h gc_init)) (mark_seeds [] (run h gc_init)) 8192 /\
  keys (items (collect [] (run h gc_init))) = [8192; 4096].
Proof.
  cbn zeta. split; [|vm_compute; reflexivity].
  set (g := run _ gc_init).
  assert (E : exists itA itB rw, items g = [(8192, itB); (4096, itA)] /\ roots g = [(256, (64, rw))] /\
     In 4096 rw /\ noscan itA = false /\ In 8192 (iwords itA)).
  { do 3 eexists. subst g. vm_compute. repeat split; auto 10. }
  destruct E as (itA & itB & rw & EI & ER & IR & LA & WA).
  apply (reach_step _ _ 4096 8192 itA).
  - apply (reach_seed _ _ rw 4096); [unfold mark_seeds; rewrite ER; cbn; auto | exact IR | rewrite EI; cbn; auto].
  - rewrite EI. reflexivity.
  - exact LA.
  - exact WA.
  - rewrite EI. cbn. auto.
Qed.
