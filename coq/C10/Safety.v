(* Mark phase completeness, sweep locality, and the invariant "no stale marks / empty finalize
   queue between commands" over all histories. *)
From C10 Require Import Model Proofs.
Local Open Scope Z_scope.

(* ================= mark phase ================= *)
Definition is_marked (its : list (Z * item)) (w : Z) : Prop :=
  exists it, lookup w its = Some it /\ marked it = true.

(* [its'] is [its] with some unmarked items marked *)
Definition mext (its its' : list (Z * item)) : Prop :=
  keys its' = keys its /\
  forall a it, lookup a its = Some it ->
    exists it', lookup a its' = Some it' /\ (it' = it \/ (marked it = false /\ it' = set_mark it)).

Lemma mext_refl its : mext its its.
Proof. split; auto. intros a it L. exists it. auto. Qed.

Lemma mext_trans a b c : mext a b -> mext b c -> mext a c.
Proof.
  intros [K1 H1] [K2 H2]. split; [congruence|].
  intros x it L. destruct (H1 x it L) as (it1 & L1 & R1). destruct (H2 x it1 L1) as (it2 & L2 & R2).
  exists it2. split; auto. destruct R1 as [->|[U ->]]; auto.
  destruct R2 as [->|[U2 _]]; auto. rewrite marked_set_mark in U2. discriminate.
Qed.

Lemma mext_update w it its : NoDup (keys its) -> lookup w its = Some it -> marked it = false ->
  mext its (update w (set_mark it) its).
Proof.
  intros ND L U. split; [apply keys_update|].
  intros a it0 L0. destruct (Z.eq_dec a w) as [->|N].
  - rewrite L in L0. inversion L0; subst. exists (set_mark it0). split; auto.
    apply lookup_update_same. eapply lookup_In_keys; eauto.
  - exists it0. split; auto. rewrite lookup_update_other; auto.
Qed.

Lemma mext_nodup its its' : mext its its' -> NoDup (keys its) -> NoDup (keys its').
Proof. intros [K _] ND. now rewrite K. Qed.

Lemma is_marked_mext its its' w : mext its its' -> is_marked its w -> is_marked its' w.
Proof.
  intros [_ H] (it & L & M). destruct (H w it L) as (it' & L' & [->|[U _]]).
  - exists it. auto.
  - congruence.
Qed.

Lemma mext_lookup_back its its' a it' : mext its its' -> lookup a its' = Some it' ->
  exists it, lookup a its = Some it /\ (it' = it \/ (marked it = false /\ it' = set_mark it)).
Proof.
  intros [K H] L'. destruct (lookup a its) as [it|] eqn:L.
  - destruct (H a it L) as (it2 & L2 & R). rewrite L' in L2. inversion L2; subst. exists it. auto.
  - exfalso. apply lookup_None_keys in L. apply L. rewrite <- K. eapply lookup_In_keys; eauto.
Qed.

Lemma leaf_set_mark it : noscan (set_mark it) = noscan it.
Proof.
  unfold noscan, set_mark. cbn [iflags isize]. f_equal. apply hasflag_setflag_other; [apply MARK_nonneg|].
  intros E. apply MARK_not_LEAF. auto.
Qed.

Lemma count_unmarked_cons p it r :
  count_unmarked ((p, it) :: r) = ((if marked it then 0 else 1) + count_unmarked r)%nat.
Proof. unfold count_unmarked. cbn [filter snd]. destruct (marked it); reflexivity. Qed.

Lemma count_unmarked_update w it its : NoDup (keys its) -> lookup w its = Some it -> marked it = false ->
  S (count_unmarked (update w (set_mark it) its)) = count_unmarked its.
Proof.
  induction its as [|[k v] r IH]; cbn [lookup update]; [discriminate|].
  intros ND. inversion ND; subst. destruct (Z.eqb_spec k w); intros L U.
  - inversion L; subst. rewrite update_notin by auto. rewrite !count_unmarked_cons.
    rewrite marked_set_mark, U. reflexivity.
  - rewrite !count_unmarked_cons. rewrite <- (IH H2 L U). lia.
Qed.

Lemma scan_words_spec o a ws : forall its pend its' pend',
  NoDup (keys its) ->
  (forall k, In k (keys its) -> passes o a k = true) ->
  scan_words o a ws its pend = (its', pend') ->
  mext its its' /\
  (forall w, In w ws -> In w (keys its) -> is_marked its' w) /\
  (exists new, pend' = new ++ pend /\
     forall x it', lookup x its' = Some it' -> marked it' = true ->
       noscan it' = false -> is_marked its x \/ In (iwords it') new) /\
  (length pend' + count_unmarked its' <= length pend + count_unmarked its)%nat.
Proof.
  induction ws as [|w r IH]; intros its pend its' pend' ND PS; cbn [scan_words].
  - intros E. inversion E; subst. split; [apply mext_refl|]. split; [intros ? []|]. split; [|lia].
    exists []. split; auto. intros x it' L M _. left. exists it'. auto.
  - destruct (passes o a w) eqn:Pw.
    + destruct (lookup w its) as [it|] eqn:L.
      * destruct (marked it) eqn:Mk.
        -- intros E. destruct (IH _ _ _ _ ND PS E) as (X & Y & Z0 & F). split; auto. split; auto.
           intros w' [<-|I] K; auto. apply (is_marked_mext its); auto. exists it. auto.
        -- pose proof (mext_update w it its ND L Mk) as X1.
           assert (ND1 : NoDup (keys (update w (set_mark it) its))) by (rewrite keys_update; auto).
           assert (PS1 : forall k, In k (keys (update w (set_mark it) its)) -> passes o a k = true)
             by (intros k; rewrite keys_update; auto).
           assert (Lw : lookup w (update w (set_mark it) its) = Some (set_mark it))
             by (apply lookup_update_same; eapply lookup_In_keys; eauto).
           pose proof (count_unmarked_update w it its ND L Mk) as CU.
           destruct (noscan it) eqn:Lf; intros E;
             destruct (IH _ _ _ _ ND1 PS1 E) as (X & Y & (new & Pn & Z0) & F).
           ++ split; [eapply mext_trans; eauto|]. split; [|split].
              ** intros w' [<-|I] K.
                 --- apply (is_marked_mext _ _ _ X). exists (set_mark it). split; auto. apply marked_set_mark.
                 --- apply Y; auto. rewrite keys_update. auto.
              ** exists new. split; auto. intros x it' Lx Mx Fx.
                 destruct (Z0 x it' Lx Mx Fx) as [(it1 & L1 & M1)|]; auto.
                 destruct (Z.eq_dec x w) as [->|N].
                 --- exfalso. rewrite Lw in L1. inversion L1; subst.
                     destruct X as [_ HX]. destruct (HX w (set_mark it) Lw) as (it2 & L2 & R2).
                     rewrite Lx in L2. inversion L2; subst.
                     destruct R2 as [->|[U2 _]]; [|rewrite marked_set_mark in U2; discriminate].
                     rewrite leaf_set_mark in Fx. congruence.
                 --- left. exists it1. rewrite lookup_update_other in L1; auto.
              ** lia.
           ++ split; [eapply mext_trans; eauto|]. split; [|split].
              ** intros w' [<-|I] K.
                 --- apply (is_marked_mext _ _ _ X). exists (set_mark it). split; auto. apply marked_set_mark.
                 --- apply Y; auto. rewrite keys_update. auto.
              ** exists (new ++ [iwords it]). split; [rewrite <- app_assoc; exact Pn|].
                 intros x it' Lx Mx Fx.
                 destruct (Z0 x it' Lx Mx Fx) as [(it1 & L1 & M1)|I]; [|right; apply in_or_app; auto].
                 destruct (Z.eq_dec x w) as [->|N].
                 --- right. apply in_or_app. right. left.
                     destruct X as [_ HX]. destruct (HX w (set_mark it) Lw) as (it2 & L2 & R2).
                     rewrite Lx in L2. inversion L2; subst.
                     destruct R2 as [->|[U2 _]]; [reflexivity|rewrite marked_set_mark in U2; discriminate].
                 --- left. exists it1. rewrite lookup_update_other in L1; auto.
              ** cbn [length] in F. lia.
      * intros E. destruct (IH _ _ _ _ ND PS E) as (X & Y & Z0 & F). split; auto. split; auto.
        intros w' [<-|I] K; auto. exfalso. apply lookup_None_keys in L. auto.
    + intros E. destruct (IH _ _ _ _ ND PS E) as (X & Y & Z0 & F). split; auto. split; auto.
      intros w' [<-|I] K; auto. rewrite PS in Pw by auto. discriminate.
Qed.

Definition closed (its : list (Z * item)) (ws : list Z) : Prop :=
  forall w, In w ws -> In w (keys its) -> is_marked its w.

Lemma closed_mext its its' ws : mext its its' -> closed its ws -> closed its' ws.
Proof.
  intros X C w I K. apply (is_marked_mext its); auto. apply C; auto. destruct X as [E _]. now rewrite <- E.
Qed.

Definition J (seeds : list (list Z)) (its : list (Z * item)) (pend : list (list Z)) : Prop :=
  (forall r, In r seeds -> In r pend \/ closed its r) /\
  (forall x it, lookup x its = Some it -> marked it = true -> noscan it = false ->
     In (iwords it) pend \/ closed its (iwords it)).

Lemma mark_loop_spec seeds fuel o a : forall pend its its',
  NoDup (keys its) -> (forall k, In k (keys its) -> passes o a k = true) ->
  J seeds its pend ->
  mark_loop fuel o a pend its = Some its' ->
  mext its its' /\ J seeds its' [].
Proof.
  induction fuel as [|f IH]; intros pend its its' ND PS HJ; destruct pend as [|r rest]; cbn [mark_loop];
    try discriminate; try (intros E; inversion E; subst; split; [apply mext_refl | exact HJ]).
  destruct (scan_words o a r its rest) as [its1 pend1] eqn:S. intros E.
  destruct (scan_words_spec _ _ _ _ _ _ _ ND PS S) as (X & Y & (new & Pn & Z0) & _).
  assert (C1 : closed its1 r) by (intros w I K; apply Y; auto; destruct X as [EK _]; now rewrite <- EK).
  assert (J1 : J seeds its1 pend1).
  { destruct HJ as [JS JI]. subst pend1. split.
    - intros r0 I. destruct (JS r0 I) as [[<-|I2]|C]; auto.
      + left. apply in_or_app. auto.
      + right. eapply closed_mext; eauto.
    - intros x it1 L1 M1 F1. destruct (Z0 x it1 L1 M1 F1) as [(it0 & L0 & M0)|I].
      + destruct X as [EK HX]. destruct (HX x it0 L0) as (it' & L' & R). rewrite L1 in L'. inversion L'; subst it'.
        destruct R as [->|[U _]]; [|congruence].
        destruct (JI x it0 L0 M0 F1) as [[<-|I2]|C]; auto.
        * left. apply in_or_app. auto.
        * right. eapply closed_mext; eauto. split; auto.
      + left. apply in_or_app. auto. }
  assert (ND1 := mext_nodup _ _ X ND).
  assert (PS1 : forall k, In k (keys its1) -> passes o a k = true).
  { intros k. destruct X as [EK _]. rewrite EK. auto. }
  destruct (IH _ _ _ ND1 PS1 J1 E) as [X2 J2]. split; auto. eapply mext_trans; eauto.
Qed.

Lemma mark_loop_total o a fuel : forall pend its,
  (length pend + count_unmarked its <= fuel)%nat ->
  NoDup (keys its) -> (forall k, In k (keys its) -> passes o a k = true) ->
  exists its', mark_loop fuel o a pend its = Some its'.
Proof.
  induction fuel as [|f IH]; intros pend its Hf ND PS; destruct pend as [|r rest]; cbn [mark_loop];
    try (eexists; reflexivity).
  - cbn [length] in Hf. lia.
  - destruct (scan_words o a r its rest) as [its1 pend1] eqn:S.
    destruct (scan_words_spec _ _ _ _ _ _ _ ND PS S) as (X & _ & _ & F).
    apply IH.
    + cbn [length] in Hf. lia.
    + eapply mext_nodup; eauto.
    + intros k. destruct X as [EK _]. rewrite EK. auto.
Qed.

(* reachability as the code sees it: from the seed ranges (stack, root regions), through the
   words of registered items that do not carry the LEAF flag, by base addresses *)
Inductive reach (its : list (Z * item)) (seeds : list (list Z)) : Z -> Prop :=
| reach_seed r a : In r seeds -> In a r -> In a (keys its) -> reach its seeds a
| reach_step a b it : reach its seeds a -> lookup a its = Some it ->
    noscan it = false -> In b (iwords it) -> In b (keys its) -> reach its seeds b.

Lemma reach_marked its0 its' seeds a : mext its0 its' -> J seeds its' [] ->
  reach its0 seeds a -> is_marked its' a.
Proof.
  intros X [JS JI] R. induction R as [r a Ir Ia K | a b it R IH L F Ib K].
  - destruct (JS r Ir) as [[]|C]. apply C; auto. destruct X as [EK _]. now rewrite EK.
  - destruct IH as (it' & L' & M').
    destruct X as [EK HX]. destruct (HX a it L) as (it2 & L2 & R2). rewrite L' in L2. inversion L2; subst it2.
    assert (W : iwords it' = iwords it) by (destruct R2 as [->|[_ ->]]; reflexivity).
    assert (F' : noscan it' = false).
    { destruct R2 as [->|[_ ->]]; auto. now rewrite leaf_set_mark. }
    destruct (JI a it' L' M' F') as [[]|C]. apply C; [rewrite W; auto | now rewrite EK].
Qed.

Definition all_unmarked (its : list (Z * item)) : Prop :=
  forall a it, lookup a its = Some it -> marked it = false.

Lemma WF_passes g k : WF g -> In k (keys (items g)) -> passes (ormask g) (andmask g) k = true.
Proof. intros [_ _ C] I. destruct (C k I). now apply passes_between. Qed.

(* the mark phase terminates within its fuel and marks every reachable item *)
Lemma mark_complete stk g : WF g -> all_unmarked (items g) ->
  exists its', mark stk g = Some its' /\ mext (items g) its' /\
    forall a, reach (items g) (mark_seeds stk g) a -> is_marked its' a.
Proof.
  intros W U. unfold mark.
  destruct (mark_loop_total (ormask g) (andmask g) (length (mark_seeds stk g) + count_unmarked (items g))
              (mark_seeds stk g) (items g)) as [its' E]; [lia | apply W | intros; now apply WF_passes |].
  exists its'. split; auto.
  assert (J0 : J (mark_seeds stk g) (items g) (mark_seeds stk g)).
  { split; [auto|]. intros x it L M. rewrite (U x it L) in M. discriminate. }
  destruct (mark_loop_spec _ _ _ _ _ _ _ (wf_nodup _ W) (fun k I => WF_passes g k W I) J0 E) as [X JF].
  split; auto. intros a R. eapply reach_marked; eauto.
Qed.

(* ================= sweep touches only unmarked items ================= *)
Definition ev_addr (e : event) : Z :=
  match e with EvFin _ _ a => a | EvFree a => a | EvExtFree a => a end.

(* between [g] and [g'] only addresses in [S] were touched *)
Definition only (S : Z -> Prop) (g g' : gc) : Prop :=
  (forall x, ~ S x -> lookup x (items g') = lookup x (items g)) /\
  (forall e, In e (log g') -> In e (log g) \/ S (ev_addr e)) /\
  (forall x, In (Some x) (finq g') -> In (Some x) (finq g)).

Lemma only_refl S g : only S g g.
Proof. repeat split; auto. Qed.
Lemma only_trans S a b c : only S a b -> only S b c -> only S a c.
Proof.
  intros (A1 & A2 & A3) (B1 & B2 & B3). repeat split.
  - intros x N. rewrite B1, A1; auto.
  - intros e I. destruct (B2 e I) as [I2|]; auto.
  - auto.
Qed.
Lemma only_weaken (S T : Z -> Prop) a b : (forall x, S x -> T x) -> only S a b -> only T a b.
Proof.
  intros H (A1 & A2 & A3). repeat split; auto.
  intros e I. destruct (A2 e I); auto.
Qed.

Lemma only_set_err S e g : only S g (set_err e g). Proof. repeat split; auto. Qed.
Lemma only_set_dropped S d g : only S g (set_dropped d g). Proof. repeat split; auto. Qed.
Lemma only_set_roots S d g : only S g (set_roots d g). Proof. repeat split; auto. Qed.
Lemma only_add_log (S : Z -> Prop) e g : S (ev_addr e) -> only S g (add_log e g).
Proof. intros H. repeat split; auto. intros e' [<-|I]; auto. Qed.

Lemma finq_replace_first_None_sub p q x : In (Some x) (finq_replace_first p None q) -> In (Some x) q.
Proof.
  induction q as [|[y|] r IH]; cbn [finq_replace_first]; auto.
  - destruct (y =? p).
    + intros [E|I]; [discriminate | now right].
    + intros [E|I]; [now left | right; auto].
  - intros [E|I]; [discriminate | right; auto].
Qed.

Definition cb_only (cb : fin -> Z -> gc -> gc) : Prop :=
  forall (S : Z -> Prop) f p g, S p -> only S g (cb f p g).

Lemma only_unregister cb fz (S : Z -> Prop) p g : cb_only cb -> S p -> only S g (unregister cb fz p g).
Proof.
  intros Hcb Sp. unfold unregister. destruct (p =? 0); [apply only_refl|].
  destruct (lookup p (items g)) as [it|] eqn:L.
  - match goal with |- context [ifin it] => idtac end.
    set (g1 := set_finq _ _).
    assert (O1 : only S g g1).
    { subst g1. repeat split; cbn.
      - intros x N. apply lookup_remove_other. intros ->. auto.
      - auto.
      - intros x. apply finq_replace_first_None_sub. }
    destruct (ifin it) as [f|]; auto. destruct fz.
    + eapply only_trans; eauto.
    + eapply only_trans; eauto. apply only_set_dropped.
  - destruct (lookup p (roots g)); [apply only_set_roots | apply only_set_err].
Qed.

Lemma only_call_fin n : cb_only (call_fin n).
Proof.
  induction n as [|n IH]; intros S f p g Sp; cbn [call_fin].
  - apply only_set_err.
  - assert (O1 : only S g (add_log (EvFin (fid f) (ftag f) p) g)) by (apply only_add_log; auto).
    destruct (fkind f =? 2).
    + eapply only_trans; [exact O1|]. eapply only_trans; [apply only_unregister; eauto|]. apply only_add_log. auto.
    + destruct (fkind f =? 3); auto.
      eapply only_trans; [exact O1|]. eapply only_trans; [apply only_unregister; eauto|]. apply only_add_log. auto.
Qed.

Lemma only_sweep2 (S : Z -> Prop) k : forall i g,
  (forall x, In (Some x) (finq g) -> S x) -> only S g (sweep2 k i g).
Proof.
  induction k as [|k IH]; intros i g HS; cbn [sweep2]; [apply only_refl|].
  set (g' := match nth_error (finq g) i with Some (Some ptr) => _ | _ => g end).
  assert (O1 : only S g g').
  { subst g'. destruct (nth_error (finq g) i) as [[ptr|]|] eqn:N; try apply only_refl.
    assert (Sp : S ptr) by (apply HS; eapply nth_error_In; eauto).
    destruct (lookup ptr (items g)) as [it|] eqn:L; try apply only_refl.
    destruct (ifin it) as [f|]; try apply only_refl.
    eapply only_trans; [|apply only_call_fin; exact Sp].
    repeat split; cbn; auto. intros x Nx. apply lookup_update_other. intros ->. auto. }
  eapply only_trans; [exact O1|]. apply IH. intros x I. apply HS. apply O1. exact I.
Qed.

Lemma only_sweep3 (S : Z -> Prop) q : forall g, (forall x, In (Some x) q -> S x) -> only S g (sweep3 q g).
Proof.
  induction q as [|[p|] r IH]; intros g HS; cbn [sweep3]; [apply only_refl| |].
  - assert (Sp : S p) by (apply HS; now left).
    assert (HS' : forall x, In (Some x) r -> S x) by (intros; apply HS; now right).
    destruct (lookup p (items g)) as [it|] eqn:L; [|now apply IH].
    eapply only_trans; [|apply IH; exact HS'].
    assert (O1 : only S g (set_membytes (wsub (membytes g) (isize it)) (set_items (remove p (items g)) g))).
    { repeat split; cbn; auto. intros x N. apply lookup_remove_other. intros ->. auto. }
    destruct (hasflag (iflags it) EXTERN_BIT); auto.
    eapply only_trans; [exact O1|]. apply only_add_log. auto.
  - apply IH. intros x I. apply HS. now right.
Qed.

(* what the first loop of GC_sweep keeps, queues and frees *)
Lemma sweep_queue_unmarked its x : In x (flat_map sweep_queue its) ->
  exists it, In (x, it) its /\ marked it = false.
Proof.
  induction its as [|[p it] r IH]; cbn [flat_map]; [intros []|]. rewrite in_app_iff. intros [H|H].
  - unfold sweep_queue in H. cbn [fst snd] in H. destruct (marked it) eqn:M; [destruct H|].
    destruct (hasflag (iflags it) FINALIZE_BIT); [|destruct H]. destruct H as [<-|[]].
    exists it. split; auto. now left.
  - destruct (IH H) as (it' & I & M). exists it'. split; auto. now right.
Qed.
Lemma sweep_free_unmarked its x : In x (flat_map sweep_free its) ->
  exists it, In (x, it) its /\ marked it = false.
Proof.
  induction its as [|[p it] r IH]; cbn [flat_map]; [intros []|]. rewrite in_app_iff. intros [H|H].
  - unfold sweep_free in H. cbn [fst snd] in H. destruct (marked it) eqn:M; [destruct H|].
    destruct (hasflag (iflags it) FINALIZE_BIT); [destruct H|].
    destruct (hasflag (iflags it) EXTERN_BIT); [destruct H|]. destruct H as [<-|[]].
    exists it. split; auto. now left.
  - destruct (IH H) as (it' & I & M). exists it'. split; auto. now right.
Qed.
Lemma sweep_keep_lookup_marked its a it : lookup a its = Some it -> marked it = true ->
  lookup a (flat_map sweep_keep its) = Some (clr_mark it).
Proof.
  induction its as [|[p v] r IH]; cbn [lookup flat_map]; [discriminate|].
  destruct (Z.eqb_spec p a); intros L M.
  - inversion L; subst. unfold sweep_keep. cbn [fst snd]. rewrite M. cbn [app lookup]. now rewrite Z.eqb_refl.
  - unfold sweep_keep at 1. cbn [fst snd].
    destruct (marked v); [|destruct (hasflag (iflags v) FINALIZE_BIT)]; cbn [app lookup];
      try (destruct (Z.eqb_spec p a); [lia|]); auto.
Qed.

Lemma clr_set_mark it : marked it = false -> clr_mark (set_mark it) = it.
Proof.
  intros M. destruct it as [f s fi w d]. unfold clr_mark, set_mark. cbn [iflags isize ifin iwords idecl]. f_equal.
  unfold marked in M. cbn [iflags] in M.
  apply Z.bits_inj'. intros n Hn. unfold clrflag, setflag, bit, hasflag in *.
  change (Z.ldiff (Z.lor f (Z.shiftl 1 MARK_BIT)) (Z.shiftl 1 MARK_BIT)) with (Z.clearbit (Z.setbit f MARK_BIT) MARK_BIT).
  pose proof MARK_nonneg. rewrite Z.clearbit_eqb, Z.setbit_eqb by lia.
  destruct (Z.eqb_spec MARK_BIT n); [subst; rewrite M; reflexivity|]. cbn. now rewrite andb_true_r.
Qed.

Lemma sweep_keep_unmarked its p : In p (flat_map sweep_keep its) -> marked (snd p) = false.
Proof.
  induction its as [|[k v] r IH]; cbn [flat_map]; [intros []|]. rewrite in_app_iff. intros [H|H]; auto.
  unfold sweep_keep in H. cbn [fst snd] in H. destruct (marked v) eqn:M.
  - destruct H as [<-|[]]. apply marked_clr_mark.
  - destruct (hasflag (iflags v) FINALIZE_BIT); [|destruct H]. destruct H as [<-|[]]. exact M.
Qed.

Lemma fold_log_only (S : Z -> Prop) l : forall g, (forall p, In p l -> S p) ->
  only S g (fold_left (fun g p => add_log (EvFree p) g) l g) /\
  items (fold_left (fun g p => add_log (EvFree p) g) l g) = items g /\
  membytes (fold_left (fun g p => add_log (EvFree p) g) l g) = membytes g /\
  finq (fold_left (fun g p => add_log (EvFree p) g) l g) = finq g.
Proof.
  induction l as [|p r IH]; intros g HS; cbn [fold_left]; [repeat split; auto|].
  destruct (IH (add_log (EvFree p) g)) as (O & I & M & F); [intros; apply HS; now right|].
  split; [|auto]. eapply only_trans; [|exact O]. apply only_add_log. apply HS. now left.
Qed.

(* a marked item survives the sweep with its mark cleared and nothing is logged about it *)
Lemma sweep_marked_safe g a it : NoDup (keys (items g)) -> finq g = [] ->
  lookup a (items g) = Some it -> marked it = true ->
  lookup a (items (sweep g)) = Some (clr_mark it) /\
  forall e, In e (log (sweep g)) -> ev_addr e = a -> In e (log g).
Proof.
  intros ND FQ L M. unfold sweep.
  pose proof (sweep1_spec (items g) (membytes g)) as S1.
  destruct (sweep1 (items g) (membytes g)) as [[[kept q] freed] mem].
  destruct S1 as (K & Q & F & _ & _).
  set (S := fun x => x <> a).
  assert (Sq : forall x, In x q -> S x).
  { intros x I. subst q. destruct (sweep_queue_unmarked _ _ I) as (it' & I' & U). intros ->.
    rewrite (In_lookup_nodup _ _ _ ND I') in L. congruence. }
  assert (Sf : forall x, In x freed -> S x).
  { intros x I. subst freed. destruct (sweep_free_unmarked _ _ I) as (it' & I' & U). intros ->.
    rewrite (In_lookup_nodup _ _ _ ND I') in L. congruence. }
  destruct (fold_log_only S freed g Sf) as (O0 & I0 & M0 & F0).
  set (g0 := fold_left (fun g p => add_log (EvFree p) g) freed g) in *.
  set (g1 := set_finq (finq g ++ map Some q) (set_membytes mem (set_items kept g0))).
  assert (Q1 : forall x, In (Some x) (finq g1) -> S x).
  { subst g1. cbn. rewrite FQ. cbn. intros x I. apply in_map_iff in I. destruct I as (y & E & I). inversion E; subst. auto. }
  assert (L1 : lookup a (items g1) = Some (clr_mark it)).
  { subst g1. cbn. subst kept. now apply sweep_keep_lookup_marked. }
  assert (Lg1 : log g1 = log g0) by reflexivity.
  pose proof (only_sweep2 S (length (finq g1)) 0 g1 Q1) as O2.
  set (g2 := sweep2 (length (finq g1)) 0 g1) in *.
  assert (Q2 : forall x, In (Some x) (finq g2) -> S x) by (intros x I; apply Q1; apply O2; auto).
  pose proof (only_sweep3 S (finq g2) g2 Q2) as O3.
  set (g3 := sweep3 (finq g2) g2) in *.
  assert (Na : ~ S a) by (unfold S; tauto).
  split.
  - cbn. destruct O3 as (A3 & _ & _). destruct O2 as (A2 & _ & _). rewrite A3, A2; auto.
  - cbn. intros e I E.
    destruct O3 as (_ & B3 & _). destruct (B3 e I) as [I2|X]; [|rewrite E in X; tauto].
    destruct O2 as (_ & B2 & _). destruct (B2 e I2) as [I1|X]; [|rewrite E in X; tauto].
    rewrite Lg1 in I1. destruct O0 as (_ & B0 & _). destruct (B0 e I1) as [|X]; [auto|rewrite E in X; tauto].
Qed.

Definition quiet (g : gc) : Prop :=
  all_unmarked (items g) /\ finq g = [] /\ collecting g = false.

(* GC:collect frees or finalizes no reachable item and leaves it exactly as it was *)
Lemma collect_safe stk g a it : WF g -> quiet g ->
  reach (items g) (mark_seeds stk g) a -> lookup a (items g) = Some it ->
  lookup a (items (collect stk g)) = Some it /\
  (forall e, In e (log (collect stk g)) -> ev_addr e = a -> In e (log g)).
Proof.
  intros W (U & FQ & CF) R L. unfold collect. rewrite CF. cbn [orb].
  destruct (membytes g =? 0); [split; auto|].
  set (gc1 := set_collecting true g).
  assert (W1 : WF gc1) by now apply WF_set_collecting.
  destruct (mark_complete stk gc1 W1 U) as (its' & E & X & MK). rewrite E.
  destruct (MK a R) as (it' & L' & M').
  destruct X as [EK HX]. destruct (HX a it L) as (it2 & L2 & R2). cbn in L'. rewrite L' in L2. inversion L2; subst it2.
  destruct R2 as [->|[U2 ->]]; [rewrite (U a it L) in M'; discriminate|].
  assert (ND' : NoDup (keys its')) by (rewrite EK; apply W).
  destruct (sweep_marked_safe (set_items its' gc1) a (set_mark it) ND' FQ L' M') as [LS ES].
  rewrite (clr_set_mark it U2) in LS.
  split; [exact LS | exact ES].
Qed.

(* ================= no stale marks, empty finalize queue between commands ================= *)
Definition unmarked_in (its : list (Z * item)) : Prop := forall p, In p its -> marked (snd p) = false.

Lemma unmarked_in_all its : unmarked_in its -> all_unmarked its.
Proof. intros H a it L. apply (H (a, it)). now apply lookup_In. Qed.

Definition quiet' (g : gc) : Prop := unmarked_in (items g) /\ finq g = [] /\ collecting g = false.
Lemma quiet'_quiet g : quiet' g -> quiet g.
Proof. intros (A & B & C). split; [now apply unmarked_in_all | auto]. Qed.

Lemma unmarked_remove p its : unmarked_in its -> unmarked_in (remove p its).
Proof. intros H x I. apply In_remove in I. apply H. tauto. Qed.
Lemma unmarked_update p it its : unmarked_in its -> marked it = false -> unmarked_in (update p it its).
Proof. intros H M x I. apply In_update in I. destruct I as [[-> _]|[I _]]; auto. Qed.

(* helper invariant for the sweep loops: items unmarked, whatever the queue *)
Definition cb_unm (cb : fin -> Z -> gc -> gc) : Prop :=
  forall f p g, unmarked_in (items g) -> unmarked_in (items (cb f p g)) /\ collecting (cb f p g) = collecting g /\
                (finq g = [] -> finq (cb f p g) = []).

Lemma unm_unregister cb fz p g : cb_unm cb -> unmarked_in (items g) ->
  unmarked_in (items (unregister cb fz p g)) /\ collecting (unregister cb fz p g) = collecting g /\
  (finq g = [] -> finq (unregister cb fz p g) = []).
Proof.
  intros Hcb U. unfold unregister. destruct (p =? 0); [auto|].
  destruct (lookup p (items g)) as [it|].
  - set (g1 := set_finq _ _).
    assert (U1 : unmarked_in (items g1)) by (subst g1; cbn; now apply unmarked_remove).
    assert (F1 : finq g = [] -> finq g1 = []) by (subst g1; cbn; intros ->; reflexivity).
    assert (C1 : collecting g1 = collecting g) by reflexivity.
    destruct (ifin it) as [f|]; [|auto]. destruct fz.
    + destruct (Hcb f p g1 U1) as (A & B & C). split; [exact A|]. split; [congruence | auto].
    + cbn. auto.
  - destruct (lookup p (roots g)); cbn; auto.
Qed.

Lemma unm_call_fin n : cb_unm (call_fin n).
Proof.
  induction n as [|n IH]; intros f p g U; cbn [call_fin]; [cbn; auto|].
  set (g0 := add_log _ g).
  assert (U0 : unmarked_in (items g0)) by exact U.
  destruct (fkind f =? 2).
  - destruct (unm_unregister (call_fin n) false p g0 IH U0) as (A & B & C). cbn. auto.
  - destruct (fkind f =? 3); [|cbn; auto].
    destruct (unm_unregister (call_fin n) true p g0 IH U0) as (A & B & C). cbn. auto.
Qed.

Lemma clear_fin_marked it : marked (clear_fin it) = marked it.
Proof. reflexivity. Qed.

Lemma unm_sweep2 k : forall i g, unmarked_in (items g) ->
  unmarked_in (items (sweep2 k i g)) /\ collecting (sweep2 k i g) = collecting g.
Proof.
  induction k as [|k IH]; intros i g U; cbn [sweep2]; [auto|].
  set (g' := match nth_error (finq g) i with Some (Some ptr) => _ | _ => g end).
  assert (H : unmarked_in (items g') /\ collecting g' = collecting g).
  { subst g'. destruct (nth_error (finq g) i) as [[ptr|]|]; auto.
    destruct (lookup ptr (items g)) as [it|] eqn:L; auto. destruct (ifin it) as [f|]; auto.
    destruct (unm_call_fin FIN_FUEL f ptr (set_items (update ptr (clear_fin it) (items g)) g)) as (A & B & _).
    - cbn. apply unmarked_update; auto. rewrite clear_fin_marked. apply (U (ptr, it)). now apply lookup_In.
    - unfold run_fin. split; auto. }
  destruct H as [U' C']. destruct (IH (S i) g' U') as [A B]. split; auto. congruence.
Qed.

Lemma unm_sweep3 q : forall g, unmarked_in (items g) ->
  unmarked_in (items (sweep3 q g)) /\ collecting (sweep3 q g) = collecting g.
Proof.
  induction q as [|[p|] r IH]; intros g U; cbn [sweep3]; auto.
  destruct (lookup p (items g)) as [it|]; auto.
  destruct (hasflag (iflags it) EXTERN_BIT).
  - destruct (IH (set_membytes (wsub (membytes g) (isize it)) (set_items (remove p (items g)) g))) as [A B]; auto.
    cbn. now apply unmarked_remove.
  - destruct (IH (add_log (EvFree p) (set_membytes (wsub (membytes g) (isize it)) (set_items (remove p (items g)) g)))) as [A B]; auto.
    cbn. now apply unmarked_remove.
Qed.

Lemma sweep_quiet g : unmarked_in (items (sweep g)) /\ finq (sweep g) = [] /\ collecting (sweep g) = collecting g.
Proof.
  unfold sweep. pose proof (sweep1_spec (items g) (membytes g)) as S1.
  destruct (sweep1 (items g) (membytes g)) as [[[kept q] freed] mem]. destruct S1 as (K & _).
  set (g0 := fold_left _ freed g).
  assert (C0 : collecting g0 = collecting g).
  { subst g0. generalize g. induction freed; cbn; auto. intros g1. rewrite IHfreed. reflexivity. }
  set (g1 := set_finq (finq g ++ map Some q) _).
  assert (U1 : unmarked_in (items g1)).
  { subst g1. cbn. subst kept. intros p I. eapply sweep_keep_unmarked; eauto. }
  destruct (unm_sweep2 (length (finq g1)) 0 g1 U1) as [U2 C2].
  destruct (unm_sweep3 (finq (sweep2 (length (finq g1)) 0 g1)) _ U2) as [U3 C3].
  split; [exact U3|]. split; [reflexivity|].
  change (collecting (sweep3 (finq (sweep2 (length (finq g1)) 0 g1)) (sweep2 (length (finq g1)) 0 g1)) = collecting g).
  rewrite C3, C2. exact C0.
Qed.

Definition Inv (g : gc) : Prop := WF g /\ quiet' g.

Lemma Inv_collect stk g : Inv g -> Inv (collect stk g).
Proof.
  intros [W Q]. split; [now apply WF_collect|].
  unfold collect. destruct (collecting g || (membytes g =? 0)); auto.
  destruct (mark_complete stk (set_collecting true g)) as (its & E & _).
  { now apply WF_set_collecting. } { apply unmarked_in_all, Q. }
  rewrite E. destruct (sweep_quiet (set_items its (set_collecting true g))) as (A & B & C).
  repeat split; cbn; auto.
Qed.

Lemma Inv_step stk g : Inv g -> Inv (step stk g).
Proof. intros I. unfold step. destruct (step_due g); auto. now apply Inv_collect. Qed.

Lemma quiet_set_err e g : quiet' g -> quiet' (set_err e g). Proof. auto. Qed.

Lemma WF_reg_mid p size fl f ws decl g : WF g -> lookup p (items g) = None ->
  WF (set_membytes (wadd (membytes g) size) (set_masks (Z.lor (ormask g) p) (Z.land (andmask g) p)
        (set_items ((p, mkItem fl size f ws decl) :: items g) g))).
Proof.
  intros [A B C] L. constructor; cbn -[keys sum_sizes two64 Z.land Z.lor wsub wadd].
  - constructor; auto. now apply lookup_None_keys.
  - rewrite B, wadd_mod, sum_sizes_cons. cbn [isize]. f_equal. lia.
  - intros a [E|H].
    + subst. split; [apply land_lor_new | apply land_land_new].
    + destruct (C a H). split; [now apply land_lor_keep | now apply land_land_keep].
Qed.

Lemma reg_flags_unmarked flags size (f : option fin) : hasflag flags MARK_BIT = false ->
  hasflag (reg_flags flags size f) MARK_BIT = false.
Proof.
  intros Mf. pose proof MARK_nonneg. pose proof LEAF_nonneg. pose proof FINALIZE_nonneg. unfold reg_flags.
  assert (M1 : hasflag (if AUTO_LEAF_ON_REGISTER && (size <? WORD_SIZE) then setflag flags LEAF_BIT else flags) MARK_BIT = false).
  { destruct (AUTO_LEAF_ON_REGISTER && (size <? WORD_SIZE)); auto. rewrite hasflag_setflag_other; auto. apply MARK_not_LEAF. }
  destruct f; auto. rewrite hasflag_setflag_other; auto. apply MARK_not_FINALIZE.
Qed.

Lemma Inv_register stk p size flags f ws decl g : hasflag flags MARK_BIT = false ->
  Inv g -> Inv (register stk p size flags f ws decl g).
Proof.
  intros Mf [W Q]. split; [now apply WF_register|].
  unfold register. destruct (p =? 0); auto. destruct (size <=? 0); auto.
  destruct (negb (hasflag flags ROOT_BIT)).
  - destruct (lookup p (items g)) eqn:L; auto.
    match goal with |- quiet' (if _ then step _ ?G else ?G) => assert (I1 : Inv G) end.
    { split; [now apply WF_reg_mid|]. destruct Q as (A & B & C). repeat split; auto.
      cbn. intros x [<-|I]; auto. cbn [snd]. unfold marked. cbn [iflags].
      now apply reg_flags_unmarked. }
    destruct (running _); [apply Inv_step; exact I1 | apply I1].
  - destruct (negb (flags =? bit ROOT_BIT)); auto. destruct f; auto.
Qed.

Lemma resize_marked n it : marked (resize_item n it) = marked it. Proof. reflexivity. Qed.
Lemma store_marked i w it : marked (store_item i w it) = marked it. Proof. reflexivity. Qed.

Lemma finq_replace_nil p v : finq_replace_first p v [] = []. Proof. reflexivity. Qed.

Lemma Inv_reregister stk p q n g : Inv g -> Inv (reregister stk p q n g).
Proof.
  intros [W Q]. split; [now apply WF_reregister|]. pose proof (WF_reregister stk p q n g W) as WR.
  unfold reregister in *. destruct ((p =? 0) || (q =? 0) || (n <=? 0)); auto.
  destruct (q =? p).
  - destruct (lookup p (items g)) as [it|] eqn:L.
    + assert (U1 : unmarked_in (update p (resize_item n it) (items g))).
      { apply unmarked_update; [apply Q|]. rewrite resize_marked. apply (proj1 Q (p, it)). now apply lookup_In. }
      destruct (isize it <? n).
      * match goal with |- quiet' (if _ then step _ ?G else ?G) => assert (Q1 : quiet' G) end.
        { destruct Q as (A & B & C). repeat split; auto. }
        destruct (running _); auto. apply Inv_step. split; auto.
        destruct W as [A B C]. constructor; cbn -[keys sum_sizes two64 Z.land Z.lor wsub wadd].
        -- rewrite keys_update. auto.
        -- erewrite sum_sizes_update by eauto. rewrite B, wadd_mod. f_equal. cbn [isize resize_item]. lia.
        -- intros a. rewrite keys_update. auto.
      * destruct Q as (A & B & C). destruct (n <? isize it); repeat split; auto.
    + destruct (lookup p (roots g)) as [[? ?]|]; auto.
  - destruct (lookup p (items g)) as [it|] eqn:L.
    + apply Inv_register.
      * apply (proj1 Q (p, it)). now apply lookup_In.
      * split.
        -- apply WF_set_finq. now apply WF_remove_item.
        -- destruct Q as (A & B & C). repeat split; cbn; auto.
           ++ now apply unmarked_remove.
           ++ rewrite B. reflexivity.
    + destruct (lookup p (roots g)) as [[? ?]|]; auto.
Qed.

Lemma user_flags_unmarked l e : hasflag (user_flags l e) MARK_BIT = false.
Proof.
  unfold user_flags, hasflag. rewrite Z.lor_spec. pose proof LEAF_nonneg. pose proof EXTERN_nonneg.
  pose proof MARK_nonneg.
  assert (B : forall k, 0 <= k -> k <> MARK_BIT -> Z.testbit (bit k) MARK_BIT = false).
  { intros k Hk N. unfold bit. rewrite Z.shiftl_1_l, Z.pow2_bits_eqb by lia. destruct (Z.eqb_spec k MARK_BIT); auto. lia. }
  destruct l, e; rewrite ?B, ?Z.bits_0; auto; intros E; symmetry in E;
    first [now apply MARK_not_LEAF in E | now apply MARK_not_EXTERN in E].
Qed.

Lemma Inv_unregister fz p g : Inv g -> Inv (unregister run_fin fz p g).
Proof.
  intros [W Q]. split; [apply WF_unregister; auto; apply WF_run_fin|].
  destruct Q as (A & B & C).
  destruct (unm_unregister run_fin fz p g (unm_call_fin FIN_FUEL) A) as (A' & C' & B').
  repeat split; auto. congruence.
Qed.

Lemma Inv_add_log e g : Inv g -> Inv (add_log e g).
Proof. intros [W Q]. split; [now apply WF_add_log | exact Q]. Qed.
Lemma Inv_set_err e g : Inv g -> Inv (set_err e g).
Proof. intros [W Q]. split; [now apply WF_set_err | exact Q]. Qed.

Lemma root_bit_unmarked : hasflag (bit ROOT_BIT) MARK_BIT = false.
Proof.
  unfold hasflag, bit. pose proof ROOT_nonneg. rewrite Z.shiftl_1_l, Z.pow2_bits_eqb by lia.
  destruct (Z.eqb_spec ROOT_BIT MARK_BIT); auto. symmetry in e. now apply MARK_not_ROOT in e.
Qed.

Lemma Inv_apply_op o g : Inv g -> Inv (apply_op o g).
Proof.
  intros I. unfold apply_op. destruct (err g); auto. destruct o.
  - destruct (_ && _); [|now apply Inv_set_err]. unfold gc_alloc.
    destruct (size =? 0); auto. destruct (ptr =? 0); auto. apply Inv_register; [apply user_flags_unmarked|].
    destruct (fk =? 0); auto. destruct I as [W Q]. split; [now apply WF_set_nextfid | exact Q].
  - destruct (lookup ptr (items g)) as [it|] eqn:L; [|now apply Inv_set_err].
    destruct (_ && _); [|now apply Inv_set_err]. destruct I as [W Q]. split.
    + eapply WF_update_same_size; eauto.
    + destruct Q as (A & B & C). repeat split; auto. cbn. apply unmarked_update; auto.
      rewrite store_marked. apply (A (ptr, it)). now apply lookup_In.
  - destruct (lookup ptr (roots g)) as [[? ?]|]; [|now apply Inv_set_err].
    destruct (_ && _); [|now apply Inv_set_err]. destruct I as [W Q]. split; [now apply WF_set_roots | exact Q].
  - destruct (lookup ptr (items g)); [|now apply Inv_set_err].
    destruct (_ && _); [|now apply Inv_set_err]. unfold gc_realloc.
    destruct (newptr =? 0); auto. now apply Inv_reregister.
  - destruct (lookup ptr (items g)); [|now apply Inv_set_err].
    destruct (dealloc_ok _); [|now apply Inv_set_err]. unfold gc_dealloc.
    pose proof (Inv_unregister true ptr g I). destruct (ptr =? 0); auto. now apply Inv_add_log.
  - destruct (lookup ptr (items g)); [|now apply Inv_set_err]. now apply Inv_unregister.
  - destruct (_ && _); [|now apply Inv_set_err]. apply Inv_register; [apply root_bit_unmarked | exact I].
  - now apply Inv_collect.
  - now apply Inv_step.
  - destruct (_ && _); [|now apply Inv_set_err]. destruct I as [W Q]. split; [now apply WF_set_pause | exact Q].
  - destruct I as [W Q]. split; [now apply WF_set_running | exact Q].
  - destruct I as [W Q]. split; [now apply WF_set_running | exact Q].
Qed.

Lemma Inv_init : Inv gc_init.
Proof. split; [apply WF_init|]. repeat split; auto. intros p []. Qed.

Lemma Inv_run h : forall g, Inv g -> Inv (run h g).
Proof. induction h; cbn; auto. intros g I. apply IHh. now apply Inv_apply_op. Qed.

(* the collector never runs out of marking fuel *)
Lemma mark_never_out_of_fuel h stk : exists its, mark stk (run h gc_init) = Some its.
Proof.
  destruct (Inv_run h gc_init Inv_init) as [W Q].
  destruct (mark_complete stk _ W (unmarked_in_all _ (proj1 Q))) as (its & E & _). eauto.
Qed.

(* sweep_safe over all histories *)
Lemma collect_safe_run h stk a it : let g := run h gc_init in
  reach (items g) (mark_seeds stk g) a -> lookup a (items g) = Some it ->
  lookup a (items (collect stk g)) = Some it /\
  (forall e, In e (log (collect stk g)) -> ev_addr e = a -> In e (log g)).
Proof.
  intros g R L. destruct (Inv_run h gc_init Inv_init) as [W Q].
  apply collect_safe; auto. now apply quiet'_quiet.
Qed.

Lemma mark_complete_run h stk :
  exists its', mark stk (run h gc_init) = Some its' /\
    mext (items (run h gc_init)) its' /\
    forall a, reach (items (run h gc_init)) (mark_seeds stk (run h gc_init)) a -> is_marked its' a.
Proof.
  destruct (Inv_run h gc_init Inv_init) as [W Q].
  apply mark_complete; auto. apply unmarked_in_all, Q.
Qed.

Lemma quiescent_run h :
  (forall a it, In (a, it) (items (run h gc_init)) -> marked it = false) /\
  finq (run h gc_init) = [] /\ collecting (run h gc_init) = false.
Proof.
  destruct (Inv_run h gc_init Inv_init) as [W (A & B & C)]. split; auto.
  intros a it I. apply (A (a, it) I).
Qed.
