(* Lemmas about the model of gc.nelua: finite-map facts, flag bits, the state invariant kept by
   every operation (tracked bytes, address masks, no stale marks, finalizer serial numbers). *)
From C10 Require Import Model.
Local Open Scope Z_scope.

(* ---------- facts about the scraped constants (re-proved on every run) ---------- *)
Lemma MARK_nonneg : 0 <= MARK_BIT. Proof. vm_compute. discriminate. Qed.
Lemma LEAF_nonneg : 0 <= LEAF_BIT. Proof. vm_compute. discriminate. Qed.
Lemma FINALIZE_nonneg : 0 <= FINALIZE_BIT. Proof. vm_compute. discriminate. Qed.
Lemma EXTERN_nonneg : 0 <= EXTERN_BIT. Proof. vm_compute. discriminate. Qed.
Lemma ROOT_nonneg : 0 <= ROOT_BIT. Proof. vm_compute. discriminate. Qed.
Lemma MARK_not_LEAF : MARK_BIT <> LEAF_BIT. Proof. vm_compute. discriminate. Qed.
Lemma MARK_not_FINALIZE : MARK_BIT <> FINALIZE_BIT. Proof. vm_compute. discriminate. Qed.
Lemma MARK_not_EXTERN : MARK_BIT <> EXTERN_BIT. Proof. vm_compute. discriminate. Qed.
Lemma MARK_not_ROOT : MARK_BIT <> ROOT_BIT. Proof. vm_compute. discriminate. Qed.
Lemma LEAF_not_FINALIZE : LEAF_BIT <> FINALIZE_BIT. Proof. vm_compute. discriminate. Qed.
Lemma LEAF_not_ROOT : LEAF_BIT <> ROOT_BIT. Proof. vm_compute. discriminate. Qed.
Lemma FINALIZE_not_ROOT : FINALIZE_BIT <> ROOT_BIT. Proof. vm_compute. discriminate. Qed.
Lemma FINALIZE_not_EXTERN : FINALIZE_BIT <> EXTERN_BIT. Proof. vm_compute. discriminate. Qed.
(* the repaired code: LEAF is never forced at registration, the scanner tests the current size,
   GC:reregister writes the new size before it may run a cycle (the model does the same) *)
Lemma auto_leaf_off : AUTO_LEAF_ON_REGISTER = false. Proof. reflexivity. Qed.
Lemma scan_size_test_on : SCAN_SIZE_TEST = true. Proof. reflexivity. Qed.
Lemma resize_before_step : RESIZE_BEFORE_STEP = true. Proof. reflexivity. Qed.
(* GC:destroy sweeps again while finalizers keep registering blocks (2edb035) *)
Lemma destroy_resweeps : (2 <= DESTROY_SWEEPS)%nat. Proof. vm_compute. repeat constructor. Qed.
Lemma WORD_SIZE_pos : 0 < WORD_SIZE. Proof. vm_compute. reflexivity. Qed.

(* ---------- flags ---------- *)
Lemma hasflag_setflag_same f k : 0 <= k -> hasflag (setflag f k) k = true.
Proof.
  intros. unfold hasflag, setflag, bit. change (Z.lor f (Z.shiftl 1 k)) with (Z.setbit f k).
  rewrite Z.setbit_eqb by lia. rewrite Z.eqb_refl. reflexivity.
Qed.
Lemma hasflag_setflag_other f k j : 0 <= k -> j <> k -> hasflag (setflag f k) j = hasflag f j.
Proof.
  intros. unfold hasflag, setflag, bit. change (Z.lor f (Z.shiftl 1 k)) with (Z.setbit f k).
  rewrite Z.setbit_eqb by lia. destruct (Z.eqb_spec k j); [lia | reflexivity].
Qed.
Lemma hasflag_clrflag_same f k : 0 <= k -> hasflag (clrflag f k) k = false.
Proof.
  intros. unfold hasflag, clrflag, bit. change (Z.ldiff f (Z.shiftl 1 k)) with (Z.clearbit f k).
  rewrite Z.clearbit_eqb by lia. rewrite Z.eqb_refl. apply andb_false_r.
Qed.
Lemma hasflag_clrflag_other f k j : 0 <= k -> j <> k -> hasflag (clrflag f k) j = hasflag f j.
Proof.
  intros. unfold hasflag, clrflag, bit. change (Z.ldiff f (Z.shiftl 1 k)) with (Z.clearbit f k).
  rewrite Z.clearbit_eqb by lia. destruct (Z.eqb_spec k j); [lia | apply andb_true_r].
Qed.

Lemma marked_set_mark it : marked (set_mark it) = true.
Proof. apply hasflag_setflag_same, MARK_nonneg. Qed.
Lemma marked_clr_mark it : marked (clr_mark it) = false.
Proof. apply hasflag_clrflag_same, MARK_nonneg. Qed.

(* ---------- association lists ---------- *)
Section Assoc.
Context {A : Type}.
Implicit Types (l : list (Z * A)) (k : Z) (v : A).

Lemma lookup_In k l v : lookup k l = Some v -> In (k, v) l.
Proof.
  induction l as [|[k' v'] r IH]; cbn; [discriminate|].
  destruct (Z.eqb_spec k' k); intros H.
  - inversion H; subst. now left.
  - right. auto.
Qed.
Lemma lookup_In_keys k l v : lookup k l = Some v -> In k (keys l).
Proof. intros H. apply lookup_In in H. change k with (fst (k, v)). now apply in_map. Qed.
Lemma lookup_None_keys k l : lookup k l = None <-> ~ In k (keys l).
Proof.
  induction l as [|[k' v'] r IH]; cbn; [tauto|].
  destruct (Z.eqb_spec k' k); split; intros H; try discriminate.
  - exfalso. apply H. now left.
  - intros [E|E]; [congruence | now apply IH in E].
  - apply IH. tauto.
Qed.
Lemma In_lookup_nodup k v l : NoDup (keys l) -> In (k, v) l -> lookup k l = Some v.
Proof.
  induction l as [|[k' v'] r IH]; cbn; [tauto|].
  intros ND [E|E].
  - inversion E; subst. now rewrite Z.eqb_refl.
  - inversion ND; subst. destruct (Z.eqb_spec k' k).
    + subst. exfalso. apply H1. change k with (fst (k, v)). now apply in_map.
    + auto.
Qed.
Lemma keys_remove_incl k l x : In x (keys (remove k l)) -> In x (keys l) /\ x <> k.
Proof.
  induction l as [|[k' v'] r IH]; cbn; [tauto|].
  destruct (Z.eqb_spec k' k); cbn.
  - intros H. apply IH in H. tauto.
  - intros [E|E]; [subst; tauto|]. apply IH in E. tauto.
Qed.
Lemma keys_remove_in k l x : In x (keys l) -> x <> k -> In x (keys (remove k l)).
Proof.
  induction l as [|[k' v'] r IH]; cbn; [tauto|].
  destruct (Z.eqb_spec k' k); cbn; intros [E|E] N; subst; try tauto; auto.
Qed.
Lemma In_remove k l p : In p (remove k l) -> In p l /\ fst p <> k.
Proof.
  induction l as [|[k' v'] r IH]; cbn; [tauto|].
  destruct (Z.eqb_spec k' k); cbn.
  - intros H. apply IH in H. tauto.
  - intros [E|E]; [subst; cbn; tauto|]. apply IH in E. tauto.
Qed.
Lemma In_remove_in k l p : In p l -> fst p <> k -> In p (remove k l).
Proof.
  induction l as [|[k' v'] r IH]; cbn; [tauto|].
  destruct (Z.eqb_spec k' k); cbn; intros [E|E] N; subst; cbn in *; try tauto; auto.
Qed.
Lemma NoDup_keys_remove k l : NoDup (keys l) -> NoDup (keys (remove k l)).
Proof.
  induction l as [|[k' v'] r IH]; cbn; [auto|].
  intros ND. inversion ND; subst. destruct (Z.eqb_spec k' k); cbn; auto.
  constructor; auto. intros H. apply keys_remove_incl in H. tauto.
Qed.
Lemma lookup_remove_same k l : lookup k (remove k l) = None.
Proof.
  apply lookup_None_keys. intros H. apply keys_remove_incl in H. tauto.
Qed.
Lemma lookup_remove_other k j l : j <> k -> lookup j (remove k l) = lookup j l.
Proof.
  intros N. induction l as [|[k' v'] r IH]; cbn; [auto|].
  destruct (Z.eqb_spec k' k); cbn.
  - destruct (Z.eqb_spec k' j); [lia | auto].
  - destruct (Z.eqb_spec k' j); auto.
Qed.
Lemma keys_update k v l : keys (update k v l) = keys l.
Proof.
  unfold keys. induction l as [|[k' v'] r IH]; cbn; [auto|].
  destruct (Z.eqb_spec k' k); cbn; now rewrite IH.
Qed.
Lemma lookup_update_same k v l : In k (keys l) -> lookup k (update k v l) = Some v.
Proof.
  induction l as [|[k' v'] r IH]; cbn; [tauto|].
  destruct (Z.eqb_spec k' k); cbn.
  - subst. now rewrite Z.eqb_refl.
  - intros [E|E]; [lia|]. destruct (Z.eqb_spec k' k); [lia | auto].
Qed.
Lemma lookup_update_other k j v l : j <> k -> lookup j (update k v l) = lookup j l.
Proof.
  intros N. induction l as [|[k' v'] r IH]; cbn; [auto|].
  destruct (Z.eqb_spec k' k); cbn.
  - subst. destruct (Z.eqb_spec k j); [lia | auto].
  - destruct (Z.eqb_spec k' j); auto.
Qed.
Lemma In_update k v l p : In p (update k v l) -> (p = (k, v) /\ In k (keys l)) \/ (In p l /\ fst p <> k).
Proof.
  induction l as [|[k' v'] r IH]; cbn; [tauto|].
  destruct (Z.eqb_spec k' k); cbn.
  - subst. intros [E|E]; [left; split; auto|]. apply IH in E. tauto.
  - intros [E|E]; [subst; cbn; right; tauto|]. apply IH in E. tauto.
Qed.
End Assoc.

(* ---------- bit masks ---------- *)
Lemma land_lor_keep a o p : Z.land a o = a -> Z.land a (Z.lor o p) = a.
Proof.
  intros H. apply Z.bits_inj'. intros n Hn. rewrite Z.land_spec, Z.lor_spec.
  assert (Hb := f_equal (fun x => Z.testbit x n) H). cbn in Hb. rewrite Z.land_spec in Hb.
  destruct (Z.testbit a n), (Z.testbit o n), (Z.testbit p n); cbn in *; congruence.
Qed.
Lemma land_lor_new o p : Z.land p (Z.lor o p) = p.
Proof.
  apply Z.bits_inj'. intros n Hn. rewrite Z.land_spec, Z.lor_spec.
  destruct (Z.testbit p n), (Z.testbit o n); reflexivity.
Qed.
Lemma land_land_keep a m p : Z.land a m = m -> Z.land a (Z.land m p) = Z.land m p.
Proof.
  intros H. apply Z.bits_inj'. intros n Hn. rewrite !Z.land_spec.
  assert (Hb := f_equal (fun x => Z.testbit x n) H). cbn in Hb. rewrite Z.land_spec in Hb.
  destruct (Z.testbit a n), (Z.testbit m n), (Z.testbit p n); cbn in *; congruence.
Qed.
Lemma land_land_new m p : Z.land p (Z.land m p) = Z.land m p.
Proof.
  apply Z.bits_inj'. intros n Hn. rewrite !Z.land_spec.
  destruct (Z.testbit p n), (Z.testbit m n); reflexivity.
Qed.

(* the address filter of GC_markptrs accepts every address whose bits lie between the masks *)
Lemma passes_between o a w : Z.land w o = w -> Z.land w a = a -> passes o a w = true.
Proof.
  intros H1 H2. unfold passes. apply Z.eqb_eq. apply Z.bits_inj'. intros n Hn.
  rewrite Z.land_spec, Z.lor_spec, Z.lnot_spec by lia.
  assert (Hb1 := f_equal (fun x => Z.testbit x n) H1). assert (Hb2 := f_equal (fun x => Z.testbit x n) H2).
  cbn in Hb1, Hb2. rewrite Z.land_spec in Hb1, Hb2.
  destruct (Z.testbit w n), (Z.testbit o n), (Z.testbit a n); cbn in *; congruence.
Qed.

(* ---------- sums of sizes ---------- *)
Lemma sum_sizes_cons k v l : sum_sizes ((k, v) :: l) = isize v + sum_sizes l.
Proof. reflexivity. Qed.
Lemma remove_notin {A} k (r : list (Z * A)) : ~ In k (keys r) -> remove k r = r.
Proof.
  induction r as [|[k2 v2] r IH]; cbn [remove]; auto. intros H1.
  destruct (Z.eqb_spec k2 k). { subst. exfalso. apply H1. now left. }
  f_equal. apply IH. intros H. apply H1. now right.
Qed.
Lemma update_notin {A} k (v : A) (r : list (Z * A)) : ~ In k (keys r) -> update k v r = r.
Proof.
  induction r as [|[k2 v2] r IH]; cbn [update]; auto. intros H1.
  destruct (Z.eqb_spec k2 k). { subst. exfalso. apply H1. now left. }
  f_equal. apply IH. intros H. apply H1. now right.
Qed.
Lemma sum_sizes_remove k it l : NoDup (keys l) -> lookup k l = Some it ->
  sum_sizes (remove k l) = sum_sizes l - isize it.
Proof.
  induction l as [|[k' v'] r IH]; cbn [lookup remove]; [discriminate|].
  intros ND. inversion ND; subst. destruct (Z.eqb_spec k' k); intros L.
  - inversion L; subst. rewrite remove_notin by auto. rewrite sum_sizes_cons. lia.
  - rewrite !sum_sizes_cons. rewrite IH by auto. lia.
Qed.
Lemma sum_sizes_update k it it' l : NoDup (keys l) -> lookup k l = Some it ->
  sum_sizes (update k it' l) = sum_sizes l - isize it + isize it'.
Proof.
  induction l as [|[k' v'] r IH]; cbn [lookup update]; [discriminate|].
  intros ND. inversion ND; subst. destruct (Z.eqb_spec k' k); intros L.
  - inversion L; subst. rewrite update_notin by auto. rewrite !sum_sizes_cons. lia.
  - rewrite !sum_sizes_cons. rewrite IH by auto. lia.
Qed.

Lemma wsub_mod s x : wsub (s mod two64) x = (s - x) mod two64.
Proof. unfold wsub. apply Zminus_mod_idemp_l. Qed.
Lemma wadd_mod s x : wadd (s mod two64) x = (s + x) mod two64.
Proof. unfold wadd. apply Zplus_mod_idemp_l. Qed.

(* ---------- the structural invariant ---------- *)
Record WF (g : gc) : Prop := mkWF {
  wf_nodup : NoDup (keys (items g));
  wf_mem : membytes g = sum_sizes (items g) mod two64;
  wf_mask : forall a, In a (keys (items g)) ->
            Z.land a (ormask g) = a /\ Z.land a (andmask g) = andmask g
}.

Lemma WF_set_err e g : WF g -> WF (set_err e g).
Proof. intros [A B C]. constructor; auto. Qed.
Lemma WF_add_log e g : WF g -> WF (add_log e g).
Proof. intros [A B C]. constructor; auto. Qed.
Lemma WF_set_finq q g : WF g -> WF (set_finq q g).
Proof. intros [A B C]. constructor; auto. Qed.
Lemma WF_set_dropped q g : WF g -> WF (set_dropped q g).
Proof. intros [A B C]. constructor; auto. Qed.
Lemma WF_set_roots q g : WF g -> WF (set_roots q g).
Proof. intros [A B C]. constructor; auto. Qed.
Lemma WF_set_collecting q g : WF g -> WF (set_collecting q g).
Proof. intros [A B C]. constructor; auto. Qed.
Lemma WF_set_running q g : WF g -> WF (set_running q g).
Proof. intros [A B C]. constructor; auto. Qed.
Lemma WF_set_pause q g : WF g -> WF (set_pause q g).
Proof. intros [A B C]. constructor; auto. Qed.
Lemma WF_set_nextfid q g : WF g -> WF (set_nextfid q g).
Proof. intros [A B C]. constructor; auto. Qed.
Lemma WF_set_lastmembytes q g : WF g -> WF (set_lastmembytes q g).
Proof. intros [A B C]. constructor; auto. Qed.

(* removing a registered item and subtracting its size *)
Lemma WF_remove_item p it g : WF g -> lookup p (items g) = Some it ->
  WF (set_membytes (wsub (membytes g) (isize it)) (set_items (remove p (items g)) g)).
Proof.
  intros [A B C] L. constructor; cbn -[keys sum_sizes two64 Z.land Z.lor wsub wadd].
  - now apply NoDup_keys_remove.
  - rewrite B, wsub_mod. f_equal. symmetry. now apply sum_sizes_remove.
  - intros a H. apply keys_remove_incl in H. apply C. tauto.
Qed.

Definition cb_WF (cb : fin -> Z -> gc -> gc) : Prop := forall f p g, WF g -> WF (cb f p g).

Lemma WF_unregister cb fz p g : cb_WF cb -> WF g -> WF (unregister cb fz p g).
Proof.
  intros Hcb W. unfold unregister. destruct (p =? 0); auto.
  destruct (lookup p (items g)) as [it|] eqn:L.
  - pose proof (WF_remove_item p it g W L) as W1.
    apply (WF_set_finq (finq_replace_first p None (finq g))) in W1.
    destruct (ifin it); auto. destruct fz; auto. now apply WF_set_dropped.
  - destruct (lookup p (roots g)); [now apply WF_set_roots | now apply WF_set_err].
Qed.

Lemma WF_call_fin n : cb_WF (call_fin n).
Proof.
  induction n as [|n IH]; intros f p g W; cbn [call_fin].
  - now apply WF_set_err.
  - destruct (fkind f =? 2).
    + apply WF_add_log, WF_unregister; auto. now apply WF_add_log.
    + destruct (fkind f =? 3).
      * apply WF_add_log, WF_unregister; auto. now apply WF_add_log.
      * now apply WF_add_log.
Qed.
Lemma WF_run_fin : cb_WF run_fin.
Proof. apply WF_call_fin. Qed.

(* ---------- marking only touches flags ---------- *)
Definition shape (its : list (Z * item)) : list (Z * Z) := map (fun p => (fst p, isize (snd p))) its.

Lemma keys_shape its : keys its = map fst (shape its).
Proof. unfold keys, shape. rewrite map_map. reflexivity. Qed.
Lemma sum_sizes_shape its : sum_sizes its = fold_right (fun p acc => snd p + acc) 0 (shape its).
Proof. induction its as [|[k v] r IH]; cbn; [reflexivity|]. unfold sum_sizes in IH. rewrite IH. reflexivity. Qed.

Lemma shape_update k it it' l : NoDup (keys l) -> lookup k l = Some it -> isize it' = isize it ->
  shape (update k it' l) = shape l.
Proof.
  induction l as [|[k' v'] r IH]; cbn [lookup update]; [discriminate|].
  intros ND. inversion ND; subst. destruct (Z.eqb_spec k' k); intros L E.
  - inversion L; subst. rewrite update_notin by auto. cbn. now rewrite E.
  - cbn. f_equal. now apply IH.
Qed.

Lemma WF_shape its g : shape its = shape (items g) -> WF g -> WF (set_items its g).
Proof.
  intros E [A B C]. constructor; cbn -[keys sum_sizes two64 Z.land Z.lor wsub wadd].
  - rewrite keys_shape, E, <- keys_shape. auto.
  - rewrite B, !sum_sizes_shape, E. reflexivity.
  - intros a. rewrite keys_shape, E, <- keys_shape. auto.
Qed.

Lemma scan_words_shape o a ws : forall its pend its' pend',
  NoDup (keys its) -> scan_words o a ws its pend = (its', pend') -> shape its' = shape its.
Proof.
  induction ws as [|w r IH]; intros its pend its' pend' ND; cbn [scan_words].
  - intros E. inversion E. reflexivity.
  - destruct (passes o a w); [|now apply IH].
    destruct (lookup w its) as [it|] eqn:L; [|now apply IH].
    destruct (marked it); [now apply IH|].
    assert (S : shape (update w (set_mark it) its) = shape its) by (eapply shape_update; eauto).
    assert (ND' : NoDup (keys (update w (set_mark it) its))) by (rewrite keys_update; auto).
    destruct (noscan it); intros E; apply IH in E; auto; congruence.
Qed.

Lemma mark_loop_shape fuel o a : forall pend its its',
  NoDup (keys its) -> mark_loop fuel o a pend its = Some its' -> shape its' = shape its.
Proof.
  induction fuel as [|f IH]; intros pend its its' ND; destruct pend as [|r rest]; cbn [mark_loop];
    try (intros E; inversion E; reflexivity); try discriminate.
  destruct (scan_words o a r its rest) as [its1 pend1] eqn:S. intros E.
  pose proof (scan_words_shape _ _ _ _ _ _ _ ND S) as S1.
  apply IH in E. { congruence. }
  rewrite keys_shape, S1, <- keys_shape. auto.
Qed.

Lemma mark_shape stk g its : NoDup (keys (items g)) -> mark stk g = Some its -> shape its = shape (items g).
Proof. unfold mark. intros ND E. eapply mark_loop_shape; eauto. Qed.

(* ---------- sweep ---------- *)
Definition sweep_keep (p : Z * item) : list (Z * item) :=
  if marked (snd p) then [(fst p, clr_mark (snd p))]
  else if hasflag (iflags (snd p)) FINALIZE_BIT then [p] else [].
Definition sweep_queue (p : Z * item) : list Z :=
  if marked (snd p) then [] else if hasflag (iflags (snd p)) FINALIZE_BIT then [fst p] else [].
Definition sweep_free (p : Z * item) : list Z :=
  if marked (snd p) then [] else if hasflag (iflags (snd p)) FINALIZE_BIT then []
  else if hasflag (iflags (snd p)) EXTERN_BIT then [] else [fst p].
Definition sweep_dropped_size (p : Z * item) : Z :=
  if marked (snd p) then 0 else if hasflag (iflags (snd p)) FINALIZE_BIT then 0 else isize (snd p).

Lemma sweep1_spec its mem :
  let '(kept, q, freed, mem') := sweep1 its mem in
  kept = flat_map sweep_keep its /\ q = flat_map sweep_queue its /\ freed = flat_map sweep_free its /\
  mem' mod two64 = (mem - fold_right (fun p acc => sweep_dropped_size p + acc) 0 its) mod two64 /\
  (0 <= mem < two64 -> 0 <= mem' < two64).
Proof.
  induction its as [|[p it] r IH]; cbn [sweep1].
  - cbn. repeat split; try lia. f_equal. lia.
  - destruct (sweep1 r mem) as [[[kept q] freed] mem1]. destruct IH as (K & Q & F & M & R).
    cbn [flat_map fold_right].
    unfold sweep_keep at 1, sweep_queue at 1, sweep_free at 1, sweep_dropped_size at 1. cbn [fst snd].
    assert (Z0 : forall x, (mem - (0 + x)) mod two64 = (mem - x) mod two64) by (intros; f_equal; lia).
    destruct (marked it).
    + subst. split; [reflexivity|]. split; [reflexivity|]. split; [reflexivity|]. split; [|exact R].
      rewrite Z0. exact M.
    + destruct (hasflag (iflags it) FINALIZE_BIT).
      * subst. split; [reflexivity|]. split; [reflexivity|]. split; [reflexivity|]. split; [|exact R].
        rewrite Z0. exact M.
      * subst. split; [reflexivity|]. split; [reflexivity|]. split; [|split].
        -- destruct (hasflag (iflags it) EXTERN_BIT); reflexivity.
        -- unfold wsub. rewrite Z.mod_mod by (unfold two64; lia). rewrite Zminus_mod, M, <- Zminus_mod. f_equal. lia.
        -- intros _. unfold wsub. apply Z.mod_pos_bound. unfold two64. lia.
Qed.

Lemma sum_sizes_app a b : sum_sizes (a ++ b) = sum_sizes a + sum_sizes b.
Proof.
  induction a as [|[k v] r IH]; [reflexivity|].
  change (((k, v) :: r) ++ b) with ((k, v) :: (r ++ b)). rewrite !sum_sizes_cons, IH. lia.
Qed.

Lemma sweep_keep_sum its :
  sum_sizes (flat_map sweep_keep its) = sum_sizes its - fold_right (fun p acc => sweep_dropped_size p + acc) 0 its.
Proof.
  induction its as [|[p it] r IH]; cbn [flat_map fold_right]; [reflexivity|].
  rewrite sum_sizes_app, IH, sum_sizes_cons. unfold sweep_keep, sweep_dropped_size. cbn [fst snd].
  destruct (marked it); [cbn; lia|]. destruct (hasflag (iflags it) FINALIZE_BIT); cbn; lia.
Qed.

Lemma sweep_keep_keys its x : In x (keys (flat_map sweep_keep its)) -> In x (keys its).
Proof.
  induction its as [|[p it] r IH]; cbn [flat_map]; [auto|].
  unfold keys in *. rewrite map_app, in_app_iff. cbn [map fst].
  intros [H|H]; [|right; auto]. left. unfold sweep_keep in H. cbn [fst snd] in H.
  destruct (marked it); [cbn in H; tauto|]. destruct (hasflag (iflags it) FINALIZE_BIT); cbn in H; tauto.
Qed.

Lemma sweep_keep_nodup its : NoDup (keys its) -> NoDup (keys (flat_map sweep_keep its)).
Proof.
  induction its as [|[p it] r IH]; cbn [flat_map]; [auto|].
  intros ND. change (keys ((p, it) :: r)) with (p :: keys r) in ND. inversion ND; subst.
  assert (N : ~ In p (keys (flat_map sweep_keep r))) by (intros H; apply sweep_keep_keys in H; auto).
  unfold sweep_keep at 1. cbn [fst snd].
  destruct (marked it); [cbn; constructor; auto|].
  destruct (hasflag (iflags it) FINALIZE_BIT); cbn; [constructor; auto | auto].
Qed.

Lemma WF_sweep1 g kept q freed mem : WF g -> sweep1 (items g) (membytes g) = (kept, q, freed, mem) ->
  WF (set_membytes mem (set_items kept g)).
Proof.
  intros [A B C] E. pose proof (sweep1_spec (items g) (membytes g)) as S. rewrite E in S.
  destruct S as (K & _ & _ & M & R). subst kept. constructor; cbn -[keys sum_sizes two64 Z.land Z.lor wsub wadd].
  - now apply sweep_keep_nodup.
  - rewrite sweep_keep_sum. rewrite <- (Z.mod_small mem two64).
    + rewrite M, B. rewrite Zminus_mod_idemp_l. reflexivity.
    + apply R. rewrite B. apply Z.mod_pos_bound. unfold two64. lia.
  - intros a H. apply sweep_keep_keys in H. auto.
Qed.

Lemma WF_fold_log (f : Z -> event) l g : WF g -> WF (fold_left (fun g p => add_log (f p) g) l g).
Proof. revert g. induction l; cbn; auto. intros g W. apply IHl. now apply WF_add_log. Qed.

Lemma WF_update_same_size p it it' g : WF g -> lookup p (items g) = Some it -> isize it' = isize it ->
  WF (set_items (update p it' (items g)) g).
Proof.
  intros W L E. apply WF_shape; auto. eapply shape_update; eauto. apply W.
Qed.

Lemma WF_sweep2 k : forall i g, WF g -> WF (sweep2 k i g).
Proof.
  induction k as [|k IH]; intros i g W; cbn [sweep2]; auto.
  apply IH. destruct (nth_error (finq g) i) as [[ptr|]|]; auto.
  destruct (lookup ptr (items g)) as [it|] eqn:L; auto.
  destruct (ifin it); auto. apply WF_run_fin. eapply WF_update_same_size; eauto.
Qed.

Lemma WF_sweep3 q : forall g, WF g -> WF (sweep3 q g).
Proof.
  induction q as [|[ptr|] r IH]; intros g W; cbn [sweep3]; auto.
  destruct (lookup ptr (items g)) as [it|] eqn:L; auto.
  apply IH. pose proof (WF_remove_item ptr it g W L).
  destruct (hasflag (iflags it) EXTERN_BIT); auto. now apply WF_add_log.
Qed.

Lemma WF_sweep g : WF g -> WF (sweep g).
Proof.
  intros W. unfold sweep. destruct (sweep1 (items g) (membytes g)) as [[[kept q] freed] mem] eqn:E.
  apply WF_set_finq, WF_sweep3, WF_sweep2, WF_set_finq.
  pose proof (WF_fold_log EvFree freed g W) as W1.
  assert (E1 : sweep1 (items (fold_left (fun g p => add_log (EvFree p) g) freed g))
                      (membytes (fold_left (fun g p => add_log (EvFree p) g) freed g)) = (kept, q, freed, mem)).
  { assert (H : forall l g0, items (fold_left (fun g p => add_log (EvFree p) g) l g0) = items g0 /\
                             membytes (fold_left (fun g p => add_log (EvFree p) g) l g0) = membytes g0).
    { induction l; cbn; auto. intros g0. destruct (IHl (add_log (EvFree a) g0)). cbn in *. auto. }
    destruct (H freed g) as [-> ->]. exact E. }
  exact (WF_sweep1 _ _ _ _ _ W1 E1).
Qed.

Lemma WF_collect stk g : WF g -> WF (collect stk g).
Proof.
  intros W. unfold collect. destruct (collecting g || (membytes g =? 0)); auto.
  destruct (mark stk (set_collecting true g)) as [its|] eqn:M.
  - apply WF_set_collecting, WF_set_lastmembytes, WF_sweep. apply WF_shape.
    + eapply mark_shape; eauto. apply W.
    + now apply WF_set_collecting.
  - now apply WF_set_err, WF_set_collecting.
Qed.

Lemma WF_step stk g : WF g -> WF (step stk g).
Proof. intros W. unfold step. destruct (step_due g); auto. now apply WF_collect. Qed.

Lemma WF_register stk p size flags f ws decl g : WF g -> WF (register stk p size flags f ws decl g).
Proof.
  intros W. unfold register. destruct (p =? 0); auto. destruct (size <=? 0); [now apply WF_set_err|].
  destruct (negb (hasflag flags ROOT_BIT)).
  - destruct (lookup p (items g)) eqn:L; [now apply WF_set_err|].
    match goal with |- WF (if _ then step _ ?G else ?G) => assert (W1 : WF G) end.
    { destruct W as [A B C]. constructor; cbn -[keys sum_sizes two64 Z.land Z.lor wsub wadd].
      - constructor; auto. now apply lookup_None_keys.
      - rewrite B, wadd_mod, sum_sizes_cons. cbn [isize]. f_equal. lia.
      - intros a [E|H].
        + subst. split; [apply land_lor_new | apply land_land_new].
        + destruct (C a H). split; [now apply land_lor_keep | now apply land_land_keep]. }
    destruct (running _); auto. now apply WF_step.
  - destruct (negb (flags =? bit ROOT_BIT)); [now apply WF_set_err|].
    destruct f; [now apply WF_set_err | now apply WF_set_roots].
Qed.

Lemma WF_reregister stk p q n g : WF g -> WF (reregister stk p q n g).
Proof.
  intros W. unfold reregister. destruct ((p =? 0) || (q =? 0) || (n <=? 0)); [now apply WF_set_err|].
  destruct (q =? p).
  - destruct (lookup p (items g)) as [it|] eqn:L.
    + assert (W1 : forall m, m = (sum_sizes (items g) - isize it + n) mod two64 ->
                  WF (set_membytes m (set_items (update p (resize_item n it) (items g)) g))).
      { intros m ->. destruct W as [A B C]. constructor; cbn -[keys sum_sizes two64 Z.land Z.lor wsub wadd].
        - rewrite keys_update. auto.
        - erewrite sum_sizes_update by eauto. reflexivity.
        - intros a. rewrite keys_update. auto. }
      destruct (isize it <? n) eqn:C1.
      * match goal with |- WF (if _ then step _ ?G else ?G) => assert (W2 : WF G) end.
        { apply W1. cbn. destruct W as [A B C]. rewrite B, wadd_mod. f_equal. lia. }
        destruct (running _); auto. now apply WF_step.
      * destruct (n <? isize it) eqn:C2.
        -- apply W1. cbn. destruct W as [A B C]. rewrite B, wsub_mod. f_equal. lia.
        -- assert (n = isize it) by lia. destruct W as [A B C]. constructor; cbn -[keys sum_sizes two64 Z.land Z.lor wsub wadd].
           ++ rewrite keys_update. auto.
           ++ erewrite sum_sizes_update by eauto. rewrite B. f_equal. cbn. lia.
           ++ intros a. rewrite keys_update. auto.
    + destruct (lookup p (roots g)) as [[? ?]|]; [now apply WF_set_roots | now apply WF_set_err].
  - destruct (lookup p (items g)) as [it|] eqn:L.
    + apply WF_register, WF_set_finq. now apply WF_remove_item.
    + destruct (lookup p (roots g)) as [[? ?]|]; [now apply WF_set_roots | now apply WF_set_err].
Qed.

Lemma WF_apply_op o g : WF g -> WF (apply_op o g).
Proof.
  intros W. unfold apply_op. destruct (err g); auto. destruct o.
  - destruct (_ && _); [|now apply WF_set_err]. unfold gc_alloc.
    destruct (size =? 0); auto. destruct (ptr =? 0); auto. apply WF_register.
    destruct (fk =? 0); auto. now apply WF_set_nextfid.
  - destruct (lookup ptr (items g)) as [it|] eqn:L; [|now apply WF_set_err].
    destruct (_ && _); [|now apply WF_set_err]. eapply WF_update_same_size; eauto.
  - destruct (lookup ptr (roots g)) as [[? ?]|]; [|now apply WF_set_err].
    destruct (_ && _); [now apply WF_set_roots | now apply WF_set_err].
  - destruct (lookup ptr (items g)); [|now apply WF_set_err].
    destruct (_ && _); [|now apply WF_set_err]. unfold gc_realloc.
    destruct (newptr =? 0); auto. now apply WF_reregister.
  - destruct (lookup ptr (items g)); [|now apply WF_set_err].
    destruct (dealloc_ok _); [|now apply WF_set_err]. unfold gc_dealloc.
    assert (WF (unregister run_fin true ptr g)) by (apply WF_unregister; auto; apply WF_run_fin).
    destruct (ptr =? 0); auto. now apply WF_add_log.
  - destruct (lookup ptr (items g)); [|now apply WF_set_err]. apply WF_unregister; auto. apply WF_run_fin.
  - destruct (_ && _); [now apply WF_register | now apply WF_set_err].
  - now apply WF_collect.
  - now apply WF_step.
  - destruct (_ && _); [now apply WF_set_pause | now apply WF_set_err].
  - now apply WF_set_running.
  - now apply WF_set_running.
Qed.

Lemma WF_init : WF gc_init.
Proof. constructor; cbn; [constructor | reflexivity | tauto]. Qed.

Lemma WF_run h : forall g, WF g -> WF (run h g).
Proof. induction h; cbn; auto. intros g W. apply IHh. now apply WF_apply_op. Qed.

(* ---------- first property-level corollaries ---------- *)
Lemma membytes_exact h : membytes (run h gc_init) = sum_sizes (items (run h gc_init)) mod two64.
Proof. apply (WF_run h gc_init WF_init). Qed.

Lemma mask_sound h a it : In (a, it) (items (run h gc_init)) ->
  passes (ormask (run h gc_init)) (andmask (run h gc_init)) a = true.
Proof.
  intros H. destruct (WF_run h gc_init WF_init) as [_ _ C].
  destruct (C a) as [H1 H2]. { change a with (fst (a, it)). now apply in_map. }
  now apply passes_between.
Qed.

Lemma registered_once h : NoDup (keys (items (run h gc_init))).
Proof. apply (WF_run h gc_init WF_init). Qed.
