(* Runs the extracted model of the collector on a stream of histories.
   Input lines (numbers in hex, no prefix):
     reset
     alloc <ptr> <size> <leaf01> <extern01> <fkind> <tag> [; live a b c ...]
     store <ptr> <i> <word>
     rootstore <rootptr> <i> <word>
     realloc <ptr> <newptr> <newsize> [; live ...]
     dealloc <ptr>
     unregister <ptr>
     regroot <ptr> <size>
     collect [; live ...]
     step [; live ...]
     setpause <p> | stop | restart
     destroy
   For commands that can run a collection cycle the real collector's registered set after the
   command may be given ("; live ..."): addresses it kept that the model run with an empty
   stack would have collected are then supplied to the model as the stack words of that command
   (the real scan of stack and registers is conservative; the model takes the stack from the
   history).  Output, one line per command:
     mem=<h> last=<h> n=<d> or=<h> and=<h> err=<name> xs=<d> live=<sorted addrs> ev=<events> *)
open Model
open Zutil

let err_name = function
  | None -> "none"
  | Some ErrSizeZero -> "size-zero" | Some ErrRegisterTwice -> "register-twice"
  | Some ErrRootFlags -> "root-flags" | Some ErrRootWithFinalizer -> "root-with-finalizer"
  | Some ErrInvalidUnregister -> "invalid-unregister" | Some ErrInvalidReregister -> "invalid-reregister"
  | Some ErrCollectorCheck -> "collector-check"
  | Some ErrPrecond -> "precond" | Some OutOfFuel -> "out-of-fuel"

let ev_str = function
  | EvFin (id, tag, a) -> "F" ^ hex_of_z tag
  | EvFree a -> "X" ^ hex_of_z a
  | EvExtFree a -> "E" ^ hex_of_z a

let rec take n l = if n <= 0 then [] else match l with [] -> [] | x :: r -> x :: take (n - 1) r

let () =
  let g = ref gc_init in
  let loglen = ref 0 in
  iter_lines (fun line ->
    let line = String.trim line in
    if line = "" then () else begin
    let cmd, live =
      match String.index_opt line ';' with
      | None -> line, None
      | Some i ->
        let rest = split_ws (String.sub line (i + 1) (String.length line - i - 1)) in
        String.sub line 0 i, (match rest with "live" :: l -> Some l | _ -> None) in
    let w = Array.of_list (split_ws cmd) in
    let z i = z_of_hex w.(i) in
    let b i = w.(i) <> "0" in
    let mk (stk : z list) : op option =
      match w.(0) with
      | "alloc" -> Some (OAlloc (z 1, z 2, b 3, b 4, z 5, z 6, stk))
      | "store" -> Some (OStore (z 1, nat_of_int (int_of_string ("0x" ^ w.(2))), z 3))
      | "rootstore" -> Some (ORootStore (z 1, nat_of_int (int_of_string ("0x" ^ w.(2))), z 3))
      | "realloc" -> Some (ORealloc (z 1, z 2, z 3, stk))
      | "dealloc" -> Some (ODealloc (z 1))
      | "unregister" -> Some (OUnregister (z 1))
      | "regroot" -> Some (ORegRoot (z 1, z 2))
      | "collect" -> Some (OCollect stk)
      | "step" -> Some (OStep stk)
      | "setpause" -> Some (OSetPause (z 1))
      | "stop" -> Some OStop
      | "restart" -> Some ORestart
      | _ -> None in
    let xs = ref 0 in
    (try
      (match w.(0) with
       | "reset" -> g := gc_init; loglen := 0
       | "destroy" -> g := destroy !g
       | _ ->
         (match mk [] with
          | None -> failwith ("unknown command " ^ w.(0))
          | Some o0 ->
            let g0 = apply_op o0 !g in
            (match live with
             | None -> g := g0
             | Some real ->
               let have = List.map hex_of_z (keys g0.items) in
               let before = List.map hex_of_z (keys !g.items) in
               let extras = List.filter (fun a -> (not (List.mem a have)) && List.mem a before) real in
               if extras = [] then g := g0
               else begin
                 xs := List.length extras;
                 match mk (List.map z_of_hex extras) with
                 | Some o1 -> g := apply_op o1 !g
                 | None -> g := g0
               end)))
    with e -> print_string ("!exn " ^ Printexc.to_string e ^ " "));
    let s = !g in
    let n = List.length s.log in
    let evs = List.rev (take (n - !loglen) s.log) in
    loglen := n;
    let live = List.sort compare (List.map hex_of_z (keys s.items)) in
    Printf.printf "mem=%s last=%s n=%d or=%s and=%s err=%s xs=%d live=%s ev=%s\n"
      (hex_of_z s.membytes) (hex_of_z s.lastmembytes) (List.length s.items)
      (hex_of_z s.ormask) (hex_of_z s.andmask) (err_name s.err) !xs
      (String.concat "," live) (String.concat "," (List.map ev_str evs))
    end)
