(* Finalizers run at most once: serial numbers of finalizer registrations are counted over the
   items, the call log and the explicitly dropped list; no collector function raises a count. *)
From C10 Require Import Model Proofs Safety Defects Frame.
Local Open Scope Z_scope.

(* ================= finalizers run at most once ================= *)
(* how many times the serial number [k] occurs among the finalizers still attached to items, in
   the log of finalizer calls, and among the finalizers dropped by gc:unregister(ptr) *)
Definition fc (f : option fin) (k : Z) : Z :=
  match f with Some f => if fid f =? k then 1 else 0 | None => 0 end.
Definition fcnt (its : list (Z * item)) (k : Z) : Z :=
  fold_right (fun p acc => fc (ifin (snd p)) k + acc) 0 its.
Definition ec (e : event) (k : Z) : Z :=
  match e with EvFin id _ _ => if id =? k then 1 else 0 | _ => 0 end.
Definition lcnt (l : list event) (k : Z) : Z := fold_right (fun e acc => ec e k + acc) 0 l.
Definition dcnt (l : list Z) (k : Z) : Z := fold_right (fun d acc => (if d =? k then 1 else 0) + acc) 0 l.
Definition tot (g : gc) (k : Z) : Z := fcnt (items g) k + lcnt (log g) k + dcnt (dropped g) k.

Lemma fc_nonneg f k : 0 <= fc f k <= 1.
Proof. unfold fc. destruct f as [f|]; [destruct (fid f =? k)|]; lia. Qed.
Lemma fcnt_nonneg its k : 0 <= fcnt its k.
Proof. induction its as [|[p v] r IH]; cbn; [lia|]. pose proof (fc_nonneg (ifin v) k). unfold fcnt in IH. lia. Qed.
Lemma ec_nonneg e k : 0 <= ec e k.
Proof. destruct e; cbn; try lia. destruct (id =? k); lia. Qed.
Lemma lcnt_nonneg l k : 0 <= lcnt l k.
Proof. induction l as [|e r IH]; cbn; [lia|]. pose proof (ec_nonneg e k). unfold lcnt in IH. lia. Qed.
Lemma dcnt_nonneg l k : 0 <= dcnt l k.
Proof. induction l as [|e r IH]; cbn; [lia|]. unfold dcnt in IH. destruct (e =? k); lia. Qed.

Lemma lcnt_cons e l k : lcnt (e :: l) k = ec e k + lcnt l k.
Proof. reflexivity. Qed.
Lemma dcnt_cons d l k : dcnt (d :: l) k = (if d =? k then 1 else 0) + dcnt l k.
Proof. reflexivity. Qed.
Lemma fcnt_cons p v r k : fcnt ((p, v) :: r) k = fc (ifin v) k + fcnt r k.
Proof. reflexivity. Qed.
Lemma fcnt_app a b k : fcnt (a ++ b) k = fcnt a k + fcnt b k.
Proof.
  induction a as [|[p v] r IH]; [reflexivity|].
  change (((p, v) :: r) ++ b) with ((p, v) :: (r ++ b)). rewrite !fcnt_cons, IH. lia.
Qed.
Lemma fcnt_remove p it its k : NoDup (keys its) -> lookup p its = Some it ->
  fcnt (remove p its) k = fcnt its k - fc (ifin it) k.
Proof.
  induction its as [|[k' v'] r IH]; cbn [lookup remove]; [discriminate|].
  intros ND. inversion ND; subst. destruct (Z.eqb_spec k' p); intros L.
  - inversion L; subst. rewrite remove_notin by auto. rewrite fcnt_cons. lia.
  - rewrite !fcnt_cons. rewrite IH by auto. lia.
Qed.
Lemma fcnt_update p it it' its k : NoDup (keys its) -> lookup p its = Some it ->
  fcnt (update p it' its) k = fcnt its k - fc (ifin it) k + fc (ifin it') k.
Proof.
  induction its as [|[k' v'] r IH]; cbn [lookup update]; [discriminate|].
  intros ND. inversion ND; subst. destruct (Z.eqb_spec k' p); intros L.
  - inversion L; subst. rewrite update_notin by auto. rewrite !fcnt_cons. lia.
  - rewrite !fcnt_cons. rewrite IH by auto. lia.
Qed.
Lemma fcnt_remove_le p its k : fcnt (remove p its) k <= fcnt its k.
Proof.
  induction its as [|[k' v'] r IH]; cbn [remove]; [lia|].
  destruct (k' =? p); rewrite ?fcnt_cons; pose proof (fc_nonneg (ifin v') k); lia.
Qed.

(* marking leaves the finalizers alone *)
Definition fshape (its : list (Z * item)) : list (Z * option fin) := map (fun p => (fst p, ifin (snd p))) its.
Lemma fcnt_fshape its k : fcnt its k = fold_right (fun p acc => fc (snd p) k + acc) 0 (fshape its).
Proof. induction its as [|[p v] r IH]; cbn; [reflexivity|]. unfold fcnt in IH. rewrite IH. reflexivity. Qed.
Lemma fshape_update k it it' l : NoDup (keys l) -> lookup k l = Some it -> ifin it' = ifin it ->
  fshape (update k it' l) = fshape l.
Proof.
  induction l as [|[k' v'] r IH]; cbn [lookup update]; [discriminate|].
  intros ND. inversion ND; subst. destruct (Z.eqb_spec k' k); intros L E.
  - inversion L; subst. rewrite update_notin by auto. cbn. now rewrite E.
  - cbn. f_equal. now apply IH.
Qed.
Lemma scan_words_fshape o a ws : forall its pend its' pend',
  NoDup (keys its) -> scan_words o a ws its pend = (its', pend') -> fshape its' = fshape its.
Proof.
  induction ws as [|w r IH]; intros its pend its' pend' ND; cbn [scan_words].
  - intros E. inversion E. reflexivity.
  - destruct (passes o a w); [|now apply IH].
    destruct (lookup w its) as [it|] eqn:L; [|now apply IH].
    destruct (marked it); [now apply IH|].
    assert (S : fshape (update w (set_mark it) its) = fshape its) by (eapply fshape_update; eauto).
    assert (ND' : NoDup (keys (update w (set_mark it) its))) by (rewrite keys_update; auto).
    destruct (noscan it); intros E; apply IH in E; auto; congruence.
Qed.
Lemma mark_loop_fshape fuel o a : forall pend its its',
  NoDup (keys its) -> mark_loop fuel o a pend its = Some its' -> fshape its' = fshape its.
Proof.
  induction fuel as [|f IH]; intros pend its its' ND; destruct pend as [|r rest]; cbn [mark_loop];
    try (intros E; inversion E; reflexivity); try discriminate.
  destruct (scan_words o a r its rest) as [its1 pend1] eqn:S. intros E.
  pose proof (scan_words_fshape _ _ _ _ _ _ _ ND S) as S1.
  pose proof (scan_words_shape _ _ _ _ _ _ _ ND S) as S2.
  apply IH in E. { congruence. }
  rewrite keys_shape, S2, <- keys_shape. auto.
Qed.
Lemma mark_fcnt stk g its k : NoDup (keys (items g)) -> mark stk g = Some its -> fcnt its k = fcnt (items g) k.
Proof. unfold mark. intros ND E. rewrite !fcnt_fshape. erewrite mark_loop_fshape; eauto. Qed.

Lemma fcnt_sweep_keep its k : fcnt (flat_map sweep_keep its) k <= fcnt its k.
Proof.
  induction its as [|[p v] r IH]; cbn [flat_map]; [lia|].
  rewrite fcnt_app, fcnt_cons. unfold sweep_keep at 1. cbn [fst snd]. pose proof (fc_nonneg (ifin v) k).
  assert (E0 : fcnt [] k = 0) by reflexivity.
  destruct (marked v); [rewrite fcnt_cons, E0; cbn [clr_mark ifin]; lia|].
  destruct (hasflag (iflags v) FINALIZE_BIT); rewrite ?fcnt_cons, E0; lia.
Qed.

(* ---------- every collector function can only lower [tot] ---------- *)
Definition le_tot (g g' : gc) : Prop := (forall k, tot g' k <= tot g k) /\ nextfid g' = nextfid g.
Lemma le_tot_refl g : le_tot g g. Proof. split; auto. intros; lia. Qed.
Lemma le_tot_trans a b c : le_tot a b -> le_tot b c -> le_tot a c.
Proof. intros [A1 A2] [B1 B2]. split; [|congruence]. intros k. specialize (A1 k). specialize (B1 k). lia. Qed.

(* the call of finalizer [f] adds at most its own serial number *)
Definition cb_tot (cb : fin -> Z -> gc -> gc) : Prop :=
  forall f p g, NoDup (keys (items g)) ->
    (forall k, tot (cb f p g) k <= tot g k + fc (Some f) k) /\ nextfid (cb f p g) = nextfid g /\
    NoDup (keys (items (cb f p g))).

Lemma tot_unregister cb fz p g : cb_tot cb -> NoDup (keys (items g)) ->
  le_tot g (unregister cb fz p g) /\ NoDup (keys (items (unregister cb fz p g))).
Proof.
  intros Hcb ND. unfold unregister. destruct (p =? 0); [split; [apply le_tot_refl | auto]|].
  destruct (lookup p (items g)) as [it|] eqn:L.
  - set (g1 := set_finq _ _).
    assert (ND1 : NoDup (keys (items g1))) by (subst g1; cbn; now apply NoDup_keys_remove).
    assert (T1 : forall k, tot g1 k = tot g k - fc (ifin it) k).
    { intros k. subst g1. unfold tot. cbn [items log dropped set_finq set_membytes set_items]. rewrite (fcnt_remove p it) by auto. lia. }
    destruct (ifin it) as [f|] eqn:F.
    + destruct fz.
      * destruct (Hcb f p g1 ND1) as (A & B & C). split; auto. split; [|exact B].
        intros k. specialize (A k). rewrite T1 in A. lia.
      * split; auto. split; [|reflexivity]. intros k. unfold tot in *. cbn [items log dropped set_dropped].
        specialize (T1 k). unfold tot in T1. rewrite dcnt_cons. cbn [fc] in T1. lia.
    + split; auto. split; [|reflexivity]. intros k. rewrite T1. cbn. lia.
  - destruct (lookup p (roots g)); (split; [split; [intros; unfold tot; cbn [items log dropped set_roots set_err]; lia | reflexivity] | auto]).
Qed.

Lemma tot_add_log_fin f p g k : tot (add_log (EvFin (fid f) (ftag f) p) g) k = tot g k + fc (Some f) k.
Proof. unfold tot. cbn [items log dropped add_log]. rewrite lcnt_cons. cbn [ec fc]. lia. Qed.
Lemma tot_add_log_free e g k : ec e k = 0 -> tot (add_log e g) k = tot g k.
Proof. intros E. unfold tot. cbn [items log dropped add_log]. rewrite lcnt_cons. lia. Qed.

Lemma tot_call_fin n : cb_tot (call_fin n).
Proof.
  induction n as [|n IH]; intros f p g ND; cbn [call_fin].
  - split; [|auto]. intros k. pose proof (fc_nonneg (Some f) k). unfold tot. cbn [items log dropped set_err]. lia.
  - set (g0 := add_log (EvFin (fid f) (ftag f) p) g).
    assert (ND0 : NoDup (keys (items g0))) by exact ND.
    destruct (fkind f =? 2).
    + destruct (tot_unregister (call_fin n) false p g0 IH ND0) as [[A B] C]. split; [|split; auto].
      intros k. rewrite tot_add_log_free by reflexivity. specialize (A k). subst g0. rewrite tot_add_log_fin in A. lia.
    + destruct (fkind f =? 3).
      * destruct (tot_unregister (call_fin n) true p g0 IH ND0) as [[A B] C]. split; [|split; auto].
        intros k. rewrite tot_add_log_free by reflexivity. specialize (A k). subst g0. rewrite tot_add_log_fin in A. lia.
      * split; [|auto]. intros k. subst g0. rewrite tot_add_log_fin. lia.
Qed.

Lemma tot_sweep2 k0 : forall i g, NoDup (keys (items g)) ->
  le_tot g (sweep2 k0 i g) /\ NoDup (keys (items (sweep2 k0 i g))).
Proof.
  induction k0 as [|k0 IH]; intros i g ND; cbn [sweep2]; [split; [apply le_tot_refl | auto]|].
  set (g' := match nth_error (finq g) i with Some (Some ptr) => _ | _ => g end).
  assert (H : le_tot g g' /\ NoDup (keys (items g'))).
  { subst g'. destruct (nth_error (finq g) i) as [[ptr|]|]; try (split; [apply le_tot_refl | auto]).
    destruct (lookup ptr (items g)) as [it|] eqn:L; try (split; [apply le_tot_refl | auto]).
    destruct (ifin it) as [f|] eqn:F; try (split; [apply le_tot_refl | auto]).
    set (g1 := set_items (update ptr (clear_fin it) (items g)) g).
    assert (ND1 : NoDup (keys (items g1))) by (subst g1; cbn [items set_items]; rewrite keys_update; auto).
    destruct (tot_call_fin FIN_FUEL f ptr g1 ND1) as (A & B & C). split; [|exact C]. split; [|exact B].
    intros k. specialize (A k). unfold run_fin.
    assert (T1 : tot g1 k = tot g k - fc (Some f) k).
    { subst g1. unfold tot. cbn [items log dropped set_items]. rewrite (fcnt_update ptr it) by auto. rewrite F. cbn [clear_fin ifin fc]. lia. }
    lia. }
  destruct H as [T ND']. destruct (IH (S i) g' ND') as [T2 ND2]. split; auto. eapply le_tot_trans; eauto.
Qed.

Lemma tot_sweep3 q : forall g, le_tot g (sweep3 q g).
Proof.
  induction q as [|[p|] r IH]; intros g; cbn [sweep3]; try apply le_tot_refl; auto.
  destruct (lookup p (items g)) as [it|]; auto.
  eapply le_tot_trans; [|apply IH].
  destruct (hasflag (iflags it) EXTERN_BIT); split; auto; intros k;
    [|rewrite tot_add_log_free by reflexivity]; unfold tot; cbn [items log dropped set_membytes set_items];
    pose proof (fcnt_remove_le p (items g) k); lia.
Qed.

Lemma tot_fold_free l : forall g k, tot (fold_left (fun g p => add_log (EvFree p) g) l g) k = tot g k.
Proof. induction l as [|p r IH]; intros g k; cbn [fold_left]; auto. rewrite IH. now apply tot_add_log_free. Qed.
Lemma nextfid_fold_free l : forall g, nextfid (fold_left (fun g p => add_log (EvFree p) g) l g) = nextfid g.
Proof. induction l as [|p r IH]; intros g; cbn [fold_left]; auto. rewrite IH. reflexivity. Qed.
Lemma items_fold_free l : forall g, items (fold_left (fun g p => add_log (EvFree p) g) l g) = items g.
Proof. induction l as [|p r IH]; intros g; cbn [fold_left]; auto. rewrite IH. reflexivity. Qed.

Lemma tot_sweep g : NoDup (keys (items g)) -> le_tot g (sweep g).
Proof.
  intros ND. unfold sweep. pose proof (sweep1_spec (items g) (membytes g)) as S1.
  destruct (sweep1 (items g) (membytes g)) as [[[kept q] freed] mem]. destruct S1 as (K & _).
  set (g0 := fold_left (fun g p => add_log (EvFree p) g) freed g).
  set (g1 := set_finq (finq g ++ map Some q) _).
  assert (T1 : le_tot g g1).
  { split.
    - intros k. subst g1. unfold tot. cbn [items log dropped set_finq set_membytes set_items].
      pose proof (tot_fold_free freed g k) as TF. unfold tot in TF. fold g0 in TF.
      subst kept. pose proof (fcnt_sweep_keep (items g) k).
      assert (H0 : items g0 = items g) by apply items_fold_free. rewrite H0 in TF. lia.
    - subst g1. cbn. apply nextfid_fold_free. }
  assert (ND1 : NoDup (keys (items g1))) by (subst g1; cbn; subst kept; now apply sweep_keep_nodup).
  destruct (tot_sweep2 (length (finq g1)) 0 g1 ND1) as [T2 ND2].
  pose proof (tot_sweep3 (finq (sweep2 (length (finq g1)) 0 g1)) (sweep2 (length (finq g1)) 0 g1)) as T3.
  eapply le_tot_trans; [exact T1|]. eapply le_tot_trans; [exact T2|].
  eapply le_tot_trans; [exact T3|]. split; [intros k; unfold tot; cbn [items log dropped set_finq]; lia | reflexivity].
Qed.

Lemma tot_collect stk g : NoDup (keys (items g)) -> le_tot g (collect stk g).
Proof.
  intros ND. unfold collect. destruct (collecting g || (membytes g =? 0)); [apply le_tot_refl|].
  destruct (mark stk (set_collecting true g)) as [its|] eqn:M; [|split; [intros k; unfold tot; cbn [items log dropped set_err set_collecting]; lia | reflexivity]].
  assert (SH : shape its = shape (items g)) by (eapply (mark_shape stk (set_collecting true g)); eauto).
  assert (ND' : NoDup (keys its)) by (rewrite keys_shape, SH, <- keys_shape; auto).
  pose proof (tot_sweep (set_items its (set_collecting true g)) ND') as [A B].
  split; [|exact B]. intros k. specialize (A k). 
  assert (E : tot (set_items its (set_collecting true g)) k = tot g k).
  { unfold tot. cbn [items log dropped set_items set_collecting]. rewrite (mark_fcnt stk (set_collecting true g) its k); auto. }
  assert (E2 : forall x, tot (set_collecting false (set_lastmembytes (membytes x) x)) k = tot x k) by reflexivity.
  rewrite E2. lia.
Qed.

Lemma tot_step stk g : NoDup (keys (items g)) -> le_tot g (step stk g).
Proof. intros ND. unfold step. destruct (step_due g); [now apply tot_collect | apply le_tot_refl]. Qed.

(* ---------- the invariant over histories ---------- *)
Definition FDI (g : gc) : Prop :=
  0 <= nextfid g /\ forall k, tot g k <= 1 /\ (1 <= tot g k -> 0 <= k < nextfid g).

Lemma FDI_le_tot g g' : le_tot g g' -> FDI g -> FDI g'.
Proof.
  intros [A B] [N H]. split; [congruence|]. intros k. destruct (H k) as [H1 H2]. specialize (A k).
  split; [lia|]. intros T. rewrite B. apply H2. lia.
Qed.

Lemma tot_nonneg g k : 0 <= tot g k.
Proof. unfold tot. pose proof (fcnt_nonneg (items g) k). pose proof (lcnt_nonneg (log g) k). pose proof (dcnt_nonneg (dropped g) k). lia. Qed.

Lemma FDI_register stk p size flags f ws decl g : NoDup (keys (items g)) -> FDI g ->
  (forall k, tot g k + fc f k <= 1 /\ (1 <= fc f k -> 0 <= k < nextfid g)) ->
  FDI (register stk p size flags f ws decl g).
Proof.
  intros ND I HF. unfold register. destruct (p =? 0); auto. destruct (size <=? 0); auto.
  destruct (negb (hasflag flags ROOT_BIT)).
  - destruct (lookup p (items g)) eqn:L; auto.
    match goal with |- FDI (if _ then step _ ?G else ?G) => set (G0 := G) end.
    assert (I1 : FDI G0).
    { destruct I as [N H]. split; [exact N|]. intros k. destruct (H k) as [H1 H2]. destruct (HF k) as [F1 F2].
      assert (T : tot G0 k = tot g k + fc f k).
      { subst G0. unfold tot. cbn [items log dropped set_membytes set_masks set_items]. rewrite fcnt_cons. cbn [ifin]. lia. }
      rewrite T. split; [lia|]. intros X. change (nextfid G0) with (nextfid g).
      pose proof (fc_nonneg f k). destruct (Z.eq_dec (fc f k) 0); [apply H2; lia | apply F2; lia]. }
    assert (ND1 : NoDup (keys (items G0))).
    { subst G0. cbn [items set_membytes set_masks set_items]. change (keys ((p, ?x) :: items g)) with (p :: keys (items g)).
      constructor; auto. now apply lookup_None_keys. }
    destruct (running _); auto. eapply FDI_le_tot; [apply tot_step; exact ND1 | exact I1].
  - destruct (negb (flags =? bit ROOT_BIT)); auto. destruct f; auto.
Qed.

Lemma FDI_unregister fz p g : NoDup (keys (items g)) -> FDI g -> FDI (unregister run_fin fz p g).
Proof.
  intros ND I. eapply FDI_le_tot; [|exact I]. apply tot_unregister; auto. apply tot_call_fin.
Qed.

Lemma FDI_apply_op o g : WF g -> FDI g -> FDI (apply_op o g).
Proof.
  intros W I. pose proof (wf_nodup _ W) as ND. unfold apply_op. destruct (err g); auto. destruct o.
  - destruct (_ && _); auto. unfold gc_alloc. destruct (size =? 0); auto. destruct (ptr =? 0); auto.
    destruct (fk =? 0).
    + apply FDI_register; auto. intros k. cbn [fc]. destruct I as [N H]. destruct (H k). split; lia.
    + apply FDI_register; auto.
      * destruct I as [N H]. split; [cbn; lia|]. intros k. destruct (H k) as [H1 H2].
        change (tot (set_nextfid (nextfid g + 1) g) k) with (tot g k). split; auto. intros X. cbn. specialize (H2 X). lia.
      * intros k. change (tot (set_nextfid (nextfid g + 1) g) k) with (tot g k). cbn [fc fid nextfid set_nextfid].
        destruct I as [N H]. destruct (H k) as [H1 H2]. destruct (Z.eqb_spec (nextfid g) k).
        -- subst k. pose proof (tot_nonneg g (nextfid g)).
           assert (tot g (nextfid g) = 0) by (destruct (Z.eq_dec (tot g (nextfid g)) 0); auto; assert (1 <= tot g (nextfid g)) by lia; specialize (H2 H3); lia).
           split; lia.
        -- split; lia.
  - destruct (lookup ptr (items g)) as [it|] eqn:L; auto. destruct (_ && _); auto.
    eapply FDI_le_tot; [|exact I]. split; [|reflexivity]. intros k. unfold tot. cbn [items log dropped set_items].
    rewrite (fcnt_update ptr it) by auto. cbn [store_item ifin]. lia.
  - destruct (lookup ptr (roots g)) as [[? ?]|]; auto. destruct (_ && _); auto.
  - destruct (lookup ptr (items g)) as [it|] eqn:L; auto. destruct (_ && _); auto. unfold gc_realloc.
    destruct (newptr =? 0); auto. unfold reregister.
    destruct ((ptr =? 0) || (newptr =? 0) || (newsize <=? 0)); auto.
    destruct (newptr =? ptr).
    + rewrite L.
      assert (E : forall m, le_tot g (set_membytes m (set_items (update ptr (resize_item newsize it) (items g)) g))).
      { intros m. split; [|reflexivity]. intros k. unfold tot. cbn [items log dropped set_items set_membytes].
        rewrite (fcnt_update ptr it) by auto. cbn [resize_item ifin]. lia. }
      destruct (isize it <? newsize).
      * match goal with |- FDI (if _ then step _ ?G else ?G) => assert (I1 : FDI G /\ NoDup (keys (items G))) end.
        { split; [eapply FDI_le_tot; [apply E | exact I]|]. cbn [items set_items set_membytes]. rewrite keys_update. auto. }
        destruct I1 as [I1 ND1]. destruct (running _); auto. eapply FDI_le_tot; [apply tot_step; exact ND1 | exact I1].
      * destruct (newsize <? isize it); [eapply FDI_le_tot; [apply E | exact I]|].
        eapply FDI_le_tot; [|exact I]. split; [|reflexivity]. intros k. unfold tot. cbn [items log dropped set_items].
        rewrite (fcnt_update ptr it) by auto. cbn [resize_item ifin]. lia.
    + rewrite L. set (g1 := set_finq _ _).
      assert (T1 : forall k, tot g1 k = tot g k - fc (ifin it) k).
      { intros k. subst g1. unfold tot. cbn [items log dropped set_finq set_membytes set_items]. rewrite (fcnt_remove ptr it) by auto. lia. }
      apply FDI_register.
      * subst g1. cbn [items set_finq set_membytes set_items]. now apply NoDup_keys_remove.
      * destruct I as [N H]. split; [exact N|]. intros k. rewrite T1. destruct (H k) as [H1 H2].
        pose proof (fc_nonneg (ifin it) k). split; [lia|]. intros X. apply H2. lia.
      * intros k. rewrite T1. destruct I as [N H]. destruct (H k) as [H1 H2]. split; [lia|].
        intros X. apply H2. pose proof (fcnt_nonneg (items g) k). 
        assert (fc (ifin it) k <= fcnt (items g) k).
        { pose proof (fcnt_remove ptr it (items g) k ND L). pose proof (fcnt_nonneg (remove ptr (items g)) k). lia. }
        pose proof (lcnt_nonneg (log g) k). pose proof (dcnt_nonneg (dropped g) k). unfold tot. lia.
  - destruct (lookup ptr (items g)); auto. destruct (dealloc_ok _); auto. unfold gc_dealloc.
    pose proof (FDI_unregister true ptr g ND I) as I1. destruct (ptr =? 0); auto.
  - destruct (lookup ptr (items g)); auto. now apply FDI_unregister.
  - destruct (_ && _); auto. apply FDI_register; auto. intros k. cbn [fc]. destruct I as [N H]. destruct (H k). split; lia.
  - eapply FDI_le_tot; [now apply tot_collect | auto].
  - eapply FDI_le_tot; [now apply tot_step | auto].
  - destruct (_ && _); auto.
  - auto.
  - auto.
Qed.

Lemma FDI_init : FDI gc_init.
Proof. split; [cbn; lia|]. intros k. unfold tot. cbn. lia. Qed.

Lemma FDI_run h : forall g, WF g -> FDI g -> FDI (run h g).
Proof.
  induction h as [|o r IH]; intros g W I; cbn [run fold_left]; auto.
  apply IH; [now apply WF_apply_op | now apply FDI_apply_op].
Qed.

Lemma lcnt_In l k : In k (fin_ids l) -> 1 <= lcnt l k.
Proof.
  induction l as [|e r IH]; cbn [fin_ids flat_map]; [intros []|]. rewrite in_app_iff, lcnt_cons.
  pose proof (ec_nonneg e k). pose proof (lcnt_nonneg r k). intros [H1|H1].
  - destruct e; cbn in H1; try tauto. destruct H1 as [->|[]]. cbn [ec]. rewrite Z.eqb_refl. lia.
  - specialize (IH H1). lia.
Qed.

Lemma lcnt_NoDup l : (forall k, lcnt l k <= 1) -> NoDup (fin_ids l).
Proof.
  induction l as [|e r IH]; intros H; cbn [fin_ids flat_map]; [constructor|].
  assert (Hr : forall k, lcnt r k <= 1).
  { intros k. specialize (H k). rewrite lcnt_cons in H. pose proof (ec_nonneg e k). lia. }
  destruct e; cbn [app]; auto. constructor; auto.
  intros I. apply lcnt_In in I. specialize (H id). rewrite lcnt_cons in H. cbn [ec] in H. rewrite Z.eqb_refl in H. lia.
Qed.

Lemma FDI_fin_NoDup g : FDI g -> NoDup (fin_ids (log g)).
Proof.
  intros [N H]. apply lcnt_NoDup. intros k. destruct (H k) as [H1 _]. unfold tot in H1.
  pose proof (fcnt_nonneg (items g) k). pose proof (dcnt_nonneg (dropped g) k). lia.
Qed.

(* every finalizer registration is run at most once, over any history, including program exit *)
Lemma finalize_at_most_once h : NoDup (fin_ids (log (run h gc_init))).
Proof. apply FDI_fin_NoDup, FDI_run; [apply WF_init | apply FDI_init]. Qed.

Lemma tot_destroy_loop n : forall g, WF g -> le_tot g (destroy_loop n g) /\ WF (destroy_loop n g).
Proof.
  induction n as [|n IH]; intros g W; cbn [destroy_loop]; [split; [apply le_tot_refl | auto]|].
  pose proof (tot_sweep g (wf_nodup _ W)) as T. pose proof (WF_sweep g W) as W1.
  destruct (items (sweep g)) eqn:E; [split; auto|].
  destruct (IH (sweep g) W1) as [T2 W2]. split; auto. eapply le_tot_trans; eauto.
Qed.

Lemma finalize_at_most_once_exit h : NoDup (fin_ids (log (destroy (run h gc_init)))).
Proof.
  apply FDI_fin_NoDup. pose proof (FDI_run h gc_init WF_init FDI_init) as I.
  pose proof (WF_run h gc_init WF_init) as W.
  unfold destroy.
  destruct (tot_destroy_loop DESTROY_SWEEPS (set_collecting true (run h gc_init))) as [L _].
  { now apply WF_set_collecting. }
  eapply FDI_le_tot; [|exact I]. destruct L as [A B]. split; [|exact B].
  intros k. specialize (A k). unfold tot in *. cbn [items log dropped set_items set_roots set_collecting] in *.
  pose proof (fcnt_nonneg (items (destroy_loop DESTROY_SWEEPS (set_collecting true (run h gc_init)))) k).
  change (fcnt [] k) with 0. lia.
Qed.
