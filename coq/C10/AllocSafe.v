(* The collection cycle an allocation can trigger (GC:register -> GC:step) is safe too. *)
From C10 Require Import Model Proofs Safety Defects Frame Finalize Exit Garbage.
Local Open Scope Z_scope.

(* ================= the collection triggered inside an allocation ================= *)
Lemma reach_cons_fresh its seeds seeds' p itp a :
  lookup p its = None -> (forall r x, In r seeds -> In x r -> exists r', In r' seeds' /\ In x r') ->
  reach its seeds a -> reach ((p, itp) :: its) seeds' a.
Proof.
  intros Fr SS R. induction R as [r a Ir Ia K | a b it R IH L F Ib K].
  - destruct (SS r a Ir Ia) as (r' & I1 & I2). eapply reach_seed; eauto. right. exact K.
  - eapply (reach_step _ _ a b it); eauto.
    + cbn [lookup]. destruct (Z.eqb_spec p a); auto. subst. rewrite Fr in L. discriminate.
    + right. exact K.
Qed.

Lemma alloc_safe_state stk ptr size leaf extern fk tag g a it :
  Inv g -> err g = None ->
  ((0 <? size) && (size <? two64) && fresh ptr g && (0 <=? fk) && (fk <=? 3)) = true ->
  reach (items g) (mark_seeds stk g) a -> lookup a (items g) = Some it ->
  let g' := apply_op (OAlloc ptr size leaf extern fk tag stk) g in
  lookup a (items g') = Some it /\
  (forall e, In e (log g') -> ev_addr e = a -> In e (log g)) /\
  (exists itn, lookup ptr (items g') = Some itn /\ isize itn = size /\ iwords itn = repeat 0 (nwords size)).
Proof.
  intros I EG PRE R L. cbn zeta. unfold apply_op. rewrite EG, PRE.
  repeat (apply andb_prop in PRE; destruct PRE as [PRE ?]).
  assert (FR : fresh ptr g = true) by assumption.
  unfold fresh in FR. repeat (apply andb_prop in FR; destruct FR as [FR ?]).
  assert (P0 : (ptr =? 0) = false) by lia. assert (S0 : (size =? 0) = false) by lia.
  assert (LN : lookup ptr (items g) = None) by (destruct (lookup ptr (items g)); [discriminate | reflexivity]).
  unfold gc_alloc. rewrite S0, P0.
  set (f := if fk =? 0 then None else Some (mkFin (nextfid g) tag fk)).
  set (g1 := if fk =? 0 then g else set_nextfid (nextfid g + 1) g).
  assert (I1 : Inv g1) by (subst g1; destruct (fk =? 0); auto; destruct I as [W Q]; split; [now apply WF_set_nextfid | exact Q]).
  assert (E1 : items g1 = items g /\ roots g1 = roots g /\ log g1 = log g) by (subst g1; destruct (fk =? 0); auto).
  destruct E1 as (EI & ER & EL).
  unfold register. rewrite P0. assert (SZ : (size <=? 0) = false) by lia. rewrite SZ.
  assert (RF : hasflag (user_flags leaf extern) ROOT_BIT = false).
  { unfold user_flags, hasflag. rewrite Z.lor_spec. pose proof LEAF_nonneg. pose proof EXTERN_nonneg.
    assert (B : forall k, 0 <= k -> k <> ROOT_BIT -> Z.testbit (bit k) ROOT_BIT = false).
    { intros k Hk N. unfold bit. rewrite Z.shiftl_1_l, Z.pow2_bits_eqb by lia. destruct (Z.eqb_spec k ROOT_BIT); auto. lia. }
    destruct leaf, extern; rewrite ?B, ?Z.bits_0; auto; try (intros E; symmetry in E; now apply LEAF_not_ROOT in E);
      vm_compute; discriminate. }
  rewrite RF. cbn [negb]. rewrite EI, LN.
  match goal with |- context [if running ?G then step _ ?G else ?G] => set (G0 := G) end.
  assert (I0 : Inv G0).
  { subst G0. rewrite <- EI. apply Inv_reg_mid; auto; [rewrite EI; auto|]. apply reg_flags_unmarked, user_flags_unmarked. }
  assert (La : lookup a (items G0) = Some it).
  { subst G0. cbn [items set_membytes set_masks set_items lookup]. destruct (Z.eqb_spec ptr a); auto. subst. congruence. }
  assert (Lp : exists itn, lookup ptr (items G0) = Some itn /\ isize itn = size /\ iwords itn = repeat 0 (nwords size)).
  { subst G0. cbn [items set_membytes set_masks set_items lookup]. rewrite Z.eqb_refl. eexists. split; [reflexivity|]. split; reflexivity. }
  assert (LG : log G0 = log g) by (subst G0; cbn; auto).
  destruct (running G0); [|rewrite LG; split; [exact La | split; auto]].
  unfold step. destruct (step_due G0); [|rewrite LG; split; [exact La | split; auto]].
  assert (Ra : reach (items G0) (mark_seeds (ptr :: stk) G0) a).
  { subst G0. cbn [items set_membytes set_masks set_items].
    apply (reach_cons_fresh (items g) (mark_seeds stk g)); [exact LN | | exact R].
    unfold mark_seeds. cbn [roots set_membytes set_masks set_items]. rewrite ER.
    intros r x [<-|Ir] Ix.
    - exists (ptr :: stk). split; [now left | now right].
    - exists r. split; [now right | exact Ix]. }
  assert (Rp : reach (items G0) (mark_seeds (ptr :: stk) G0) ptr).
  { eapply (reach_seed _ _ (ptr :: stk)); [now left | now left|]. destruct Lp as (itn & Ln & _). eapply lookup_In_keys; eauto. }
  destruct Lp as (itn & Ln & Sn & Wn).
  destruct (collect_safe (ptr :: stk) G0 a it (proj1 I0) (quiet'_quiet _ (proj2 I0)) Ra La) as [K1 K2].
  destruct (collect_safe (ptr :: stk) G0 ptr itn (proj1 I0) (quiet'_quiet _ (proj2 I0)) Rp Ln) as [K3 _].
  split; [exact K1|]. split; [|exists itn; auto].
  intros e Ie Ee. rewrite <- LG. auto.
Qed.

Lemma alloc_safe h stk ptr size leaf extern fk tag a it :
  err (run h gc_init) = None ->
  ((0 <? size) && (size <? two64) && fresh ptr (run h gc_init) && (0 <=? fk) && (fk <=? 3)) = true ->
  reach (items (run h gc_init)) (mark_seeds stk (run h gc_init)) a -> lookup a (items (run h gc_init)) = Some it ->
  lookup a (items (apply_op (OAlloc ptr size leaf extern fk tag stk) (run h gc_init))) = Some it /\
  (forall e, In e (log (apply_op (OAlloc ptr size leaf extern fk tag stk) (run h gc_init))) -> ev_addr e = a ->
     In e (log (run h gc_init))) /\
  (exists itn, lookup ptr (items (apply_op (OAlloc ptr size leaf extern fk tag stk) (run h gc_init))) = Some itn /\
     isize itn = size /\ iwords itn = repeat 0 (nwords size)).
Proof. intros E P R L. apply alloc_safe_state; auto. apply (Inv_run h gc_init Inv_init). Qed.
