(* Items have exactly the words of their size; the cycle an in-place growing realloc can trigger. *)
From C10 Require Import Model Proofs Safety Defects Frame Finalize Exit Garbage AllocSafe Abort OpFrame.
Local Open Scope Z_scope.

(* ================= the collection triggered inside an in-place growing realloc ================= *)
(* every registered item has exactly the words of its size *)
Definition wl_ok (its : list (Z * item)) : Prop :=
  forall a it, lookup a its = Some it -> length (iwords it) = nwords (isize it).

Lemma wl_shrink its its' : shrink its its' -> wl_ok its -> wl_ok its'.
Proof.
  intros S H a it' L. destruct (S a it' L) as (it & L0 & (C1 & C2 & _)). rewrite C1, C2. eauto.
Qed.

Lemma resize_words_length n ws : length (resize_words n ws) = n.
Proof.
  unfold resize_words. rewrite firstn_length, app_length, repeat_length. lia.
Qed.

Lemma set_nth_length i w l : length (set_nth i w l) = length l.
Proof. revert i. induction l as [|x r IH]; intros [|i]; cbn; auto. Qed.

Lemma wl_update p it it' its : lookup p its = Some it -> wl_ok its ->
  length (iwords it') = nwords (isize it') -> wl_ok (update p it' its).
Proof.
  intros L H H' a v La. destruct (Z.eq_dec a p) as [->|N].
  - rewrite lookup_update_same in La by (eapply lookup_In_keys; eauto). inversion La; subst. auto.
  - rewrite lookup_update_other in La by auto. exact (H a v La).
Qed.

Lemma wl_register stk p size flags f ws decl g : WF g -> wl_ok (items g) -> length ws = nwords size ->
  wl_ok (items (register stk p size flags f ws decl g)).
Proof.
  intros W H HW. unfold register. destruct (p =? 0); auto. destruct (size <=? 0); auto.
  destruct (negb (hasflag flags ROOT_BIT)).
  - destruct (lookup p (items g)) eqn:L; auto.
    match goal with |- wl_ok (items (if _ then step _ ?G else ?G)) => assert (H1 : wl_ok (items G) /\ WF G) end.
    { split; [|now apply WF_reg_mid]. cbn [items set_membytes set_masks set_items]. intros a it. cbn [lookup].
      destruct (Z.eqb_spec p a); [intros E; inversion E; subst; exact HW | apply H]. }
    destruct H1 as [H1 W1]. destruct (running _); auto.
    eapply wl_shrink; [apply shrink_step; exact W1 | exact H1].
  - destruct (negb (flags =? bit ROOT_BIT)); auto. destruct f; auto.
Qed.

Lemma wl_apply_op o g : Inv g -> wl_ok (items g) -> wl_ok (items (apply_op o g)).
Proof.
  intros [W Q] H. unfold apply_op. destruct (err g); auto. destruct o.
  - destruct (_ && _); auto. unfold gc_alloc. destruct (size =? 0); auto. destruct (ptr =? 0); auto.
    apply wl_register; auto.
    + destruct (fk =? 0); auto. now apply WF_set_nextfid.
    + destruct (fk =? 0); auto.
    + apply repeat_length.
  - destruct (lookup ptr (items g)) as [it|] eqn:L; auto. destruct (_ && _); auto. cbn [items set_items].
    eapply wl_update; eauto. cbn [store_item iwords isize]. rewrite set_nth_length. eauto.
  - destruct (lookup ptr (roots g)) as [[? ?]|]; auto. destruct (_ && _); auto.
  - destruct (lookup ptr (items g)) as [it|] eqn:L; auto. destruct (_ && _); auto. unfold gc_realloc.
    destruct (newptr =? 0); auto. unfold reregister.
    destruct ((ptr =? 0) || (newptr =? 0) || (newsize <=? 0)); auto.
    destruct (newptr =? ptr).
    + rewrite L.
      assert (U : wl_ok (update ptr (resize_item newsize it) (items g))).
      { eapply wl_update; eauto. cbn [resize_item iwords isize]. apply resize_words_length. }
      destruct (isize it <? newsize).
      * match goal with |- wl_ok (items (if _ then step _ ?G else ?G)) => assert (WG : WF G) end.
        { destruct W as [A B C]. constructor; cbn -[keys sum_sizes two64 Z.land Z.lor wsub wadd].
          - rewrite keys_update. auto.
          - erewrite sum_sizes_update by eauto. rewrite B, wadd_mod. f_equal. cbn [isize resize_item]. lia.
          - intros a. rewrite keys_update. auto. }
        destruct (running _); auto. eapply wl_shrink; [apply shrink_step; exact WG | exact U].
      * destruct (newsize <? isize it); auto.
    + rewrite L. apply wl_register.
      * apply WF_set_finq. now apply WF_remove_item.
      * cbn [items set_finq set_membytes set_items]. eapply wl_shrink; [apply shrink_remove | exact H].
      * apply resize_words_length.
  - destruct (lookup ptr (items g)); auto. destruct (dealloc_ok _); auto. unfold gc_dealloc.
    assert (wl_ok (items (unregister run_fin true ptr g))) by (eapply wl_shrink; [apply shrink_unregister, shrink_call_fin | exact H]).
    destruct (ptr =? 0); auto.
  - destruct (lookup ptr (items g)); auto. eapply wl_shrink; [apply shrink_unregister, shrink_call_fin | exact H].
  - destruct (_ && _); auto. apply wl_register; auto. apply repeat_length.
  - eapply wl_shrink; [now apply shrink_collect | auto].
  - eapply wl_shrink; [now apply shrink_step | auto].
  - destruct (_ && _); auto.
  - auto.
  - auto.
Qed.

Lemma wl_run h : forall g, Inv g -> wl_ok (items g) -> wl_ok (items (run h g)).
Proof.
  induction h as [|o r IH]; intros g I H; cbn [run fold_left]; auto.
  apply IH; [now apply Inv_apply_op | now apply wl_apply_op].
Qed.

Lemma nwords_mono a b : a <= b -> (nwords a <= nwords b)%nat.
Proof.
  intros H. unfold nwords.
  assert ((a + (WORD_SIZE - 1)) / WORD_SIZE <= (b + (WORD_SIZE - 1)) / WORD_SIZE)
    by (apply Z.div_le_mono; [apply WORD_SIZE_pos | lia]).
  lia.
Qed.

Lemma In_resize_grow n ws w : (length ws <= n)%nat -> In w ws -> In w (resize_words n ws).
Proof.
  intros Hn I. unfold resize_words. rewrite firstn_app.
  rewrite firstn_all2 by exact Hn. apply in_or_app. now left.
Qed.

(* growing an item in place keeps every path *)
Lemma reach_grow its seeds p it n a : lookup p its = Some it -> (length (iwords it) <= nwords n)%nat ->
  isize it <= n ->
  reach its seeds a -> reach (update p (resize_item n it) its) seeds a.
Proof.
  intros L Hn Hs R. induction R as [r a Ir Ia K | a b it0 R IH L0 F Ib K].
  - eapply reach_seed; eauto. now rewrite keys_update.
  - destruct (Z.eq_dec a p) as [->|N].
    + rewrite L in L0. inversion L0; subst it0.
      eapply (reach_step _ _ p b (resize_item n it)); eauto.
      * apply lookup_update_same. eapply lookup_In_keys; eauto.
      * unfold noscan in *. cbn [resize_item iflags isize]. apply orb_false_iff in F. destruct F as [F1 F2].
        rewrite F1. cbn [orb]. destruct SCAN_SIZE_TEST; auto. cbn [andb] in *. lia.
      * cbn [resize_item iwords]. now apply In_resize_grow.
      * now rewrite keys_update.
    + eapply (reach_step _ _ a b it0); eauto.
      * now rewrite lookup_update_other.
      * now rewrite keys_update.
Qed.

Lemma reach_seeds_mono its seeds seeds' a :
  (forall r x, In r seeds -> In x r -> exists r', In r' seeds' /\ In x r') ->
  reach its seeds a -> reach its seeds' a.
Proof.
  intros SS R. induction R as [r a Ir Ia K | a b it R IH L F Ib K].
  - destruct (SS r a Ir Ia) as (r' & I1 & I2). eapply reach_seed; eauto.
  - eapply reach_step; eauto.
Qed.

Lemma realloc_grow_safe_state stk p n g itp a it :
  Inv g -> wl_ok (items g) -> err g = None ->
  lookup p (items g) = Some itp -> 0 < p -> 0 < n -> isize itp < n < two64 ->
  reach (items g) (mark_seeds stk g) a -> lookup a (items g) = Some it -> a <> p ->
  let g' := apply_op (ORealloc p p n stk) g in
  lookup a (items g') = Some it /\
  (forall e, In e (log g') -> ev_addr e = a -> In e (log g)) /\
  lookup p (items g') = Some (resize_item n itp).
Proof.
  intros I WLK EG Lp P0 N0 Hn R La Nap. cbn zeta. unfold apply_op. rewrite EG, Lp.
  assert (PRE : ((0 <? p) && (0 <? n) && (n <? two64) && negb (n =? isize itp) && ((p =? p) || (p =? 0) || fresh p g)) = true).
  { rewrite Z.eqb_refl. cbn [orb]. rewrite andb_true_r. apply andb_true_intro. split; [repeat (apply andb_true_intro; split); lia|].
    apply negb_true_iff. lia. }
  rewrite PRE. unfold gc_realloc.
  assert (P0' : (p =? 0) = false) by lia. rewrite P0'. unfold reregister. rewrite P0'.
  assert (NZ : (n <=? 0) = false) by lia. rewrite NZ. cbn [orb]. rewrite Z.eqb_refl, Lp.
  assert (GR : (isize itp <? n) = true) by lia. rewrite GR.
  match goal with |- context [if running ?G then step _ ?G else ?G] => set (G0 := G) end.
  assert (I0 : Inv G0).
  { apply Inv_resize_mid; auto. cbn [membytes set_items]. destruct I as [[A B CC] Q]. rewrite B, wadd_mod. f_equal. lia. }
  assert (La0 : lookup a (items G0) = Some it).
  { subst G0. cbn [items set_membytes set_items]. now rewrite lookup_update_other. }
  assert (Lp0 : lookup p (items G0) = Some (resize_item n itp)).
  { subst G0. cbn [items set_membytes set_items]. apply lookup_update_same. eapply lookup_In_keys; eauto. }
  assert (LG : log G0 = log g) by reflexivity.
  destruct (running G0); [|rewrite LG; split; [exact La0 | split; auto]].
  unfold step. destruct (step_due G0); [|rewrite LG; split; [exact La0 | split; auto]].
  assert (HL : (length (iwords itp) <= nwords n)%nat).
  { rewrite (WLK p itp Lp). apply nwords_mono. lia. }
  assert (Ra : reach (items G0) (mark_seeds (p :: stk) G0) a).
  { subst G0. cbn [items set_membytes set_items]. apply reach_grow; auto; [lia|].
    eapply reach_seeds_mono; [|exact R]. unfold mark_seeds. cbn [roots set_membytes set_items].
    intros r x [<-|Ir] Ix.
    - exists (p :: stk). split; [now left | now right].
    - exists r. split; [now right | exact Ix]. }
  assert (Rp : reach (items G0) (mark_seeds (p :: stk) G0) p).
  { eapply (reach_seed _ _ (p :: stk)); [now left | now left | eapply lookup_In_keys; eauto]. }
  destruct (collect_safe (p :: stk) G0 a it (proj1 I0) (quiet'_quiet _ (proj2 I0)) Ra La0) as [K1 K2].
  destruct (collect_safe (p :: stk) G0 p _ (proj1 I0) (quiet'_quiet _ (proj2 I0)) Rp Lp0) as [K3 _].
  split; [exact K1|]. split; [|exact K3]. intros e Ie Ee. rewrite <- LG. auto.
Qed.

Lemma realloc_grow_safe h stk p n itp a it :
  err (run h gc_init) = None ->
  lookup p (items (run h gc_init)) = Some itp -> 0 < p -> 0 < n -> isize itp < n < two64 ->
  reach (items (run h gc_init)) (mark_seeds stk (run h gc_init)) a ->
  lookup a (items (run h gc_init)) = Some it -> a <> p ->
  lookup a (items (apply_op (ORealloc p p n stk) (run h gc_init))) = Some it /\
  (forall e, In e (log (apply_op (ORealloc p p n stk) (run h gc_init))) -> ev_addr e = a -> In e (log (run h gc_init))) /\
  lookup p (items (apply_op (ORealloc p p n stk) (run h gc_init))) = Some (resize_item n itp).
Proof.
  intros E Lp P0 N0 Hn R La N. apply realloc_grow_safe_state; auto.
  - apply (Inv_run h gc_init Inv_init).
  - apply wl_run; [apply Inv_init | intros x v L; discriminate].
Qed.
