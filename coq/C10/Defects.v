(* Known defects of the unchanged tree: full-strength statements, refutations by witness, and
   the strongest restrictions that hold. *)
From C10 Require Import Model Proofs Safety.
Local Open Scope Z_scope.

(* ================= the LEAF flag ================= *)
(* full-strength statement: the collector treats an allocation as pointer-free only if the user
   said so or if it is too small to hold a pointer *)
Definition leaf_ok (g : gc) : Prop :=
  forall a it, In (a, it) (items g) -> hasflag (iflags it) LEAF_BIT = true ->
    idecl it = true \/ isize it < WORD_SIZE.
Definition leaf_flag_sound_full : Prop := forall h, leaf_ok (run h gc_init).

Definition leaf_witness : list op :=
  [OAlloc 4096 4 false false 0 0 []; ORealloc 4096 4096 64 []].

Lemma leaf_flag_sound_refuted : ~ leaf_flag_sound_full.
Proof.
  intros H. specialize (H leaf_witness).
  assert (E : exists it, items (run leaf_witness gc_init) = [(4096, it)] /\
                         hasflag (iflags it) LEAF_BIT = true /\ idecl it = false /\ isize it = 64).
  { eexists. vm_compute. repeat split. }
  destruct E as (it & EI & F & D & S).
  destruct (H 4096 it) as [X|X]; auto.
  - rewrite EI. now left.
  - congruence.
  - rewrite S in X. vm_compute in X. discriminate.
Qed.

(* reachability as the property means it: through every allocation that can hold a pointer and
   was not declared pointer-free by the user *)
Inductive treach (its : list (Z * item)) (seeds : list (list Z)) : Z -> Prop :=
| treach_seed r a : In r seeds -> In a r -> In a (keys its) -> treach its seeds a
| treach_step a b it : treach its seeds a -> lookup a its = Some it ->
    idecl it = false -> WORD_SIZE <= isize it -> In b (iwords it) -> In b (keys its) -> treach its seeds b.

Definition reachable_kept_full : Prop := forall h stk a it,
  treach (items (run h gc_init)) (mark_seeds stk (run h gc_init)) a ->
  lookup a (items (run h gc_init)) = Some it ->
  lookup a (items (collect stk (run h gc_init))) = Some it.

(* alloc(4); realloc to 64 in place; a second block stored in it; the first block held by a
   root region; collect: the second block is gone *)
Definition kept_witness : list op :=
  [ORegRoot 256 64; OStop;
   OAlloc 4096 4 false false 0 0 []; ORealloc 4096 4096 64 [];
   OAlloc 8192 32 false false 0 0 []; OStore 4096 1 8192; ORootStore 256 0 4096].

Lemma reachable_kept_refuted : ~ reachable_kept_full.
Proof.
  intros H.
  assert (E : exists itA itB rw, items (run kept_witness gc_init) = [(8192, itB); (4096, itA)] /\
     roots (run kept_witness gc_init) = [(256, (64, rw))] /\ In 4096 rw /\
     idecl itA = false /\ isize itA = 64 /\ In 8192 (iwords itA)).
  { do 3 eexists. vm_compute. repeat split; auto 10. }
  destruct E as (itA & itB & rw & EI & ER & IR & DA & SA & WA).
  specialize (H kept_witness [] 8192 itB).
  assert (C : lookup 8192 (items (collect [] (run kept_witness gc_init))) = None) by (vm_compute; reflexivity).
  rewrite C in H. 
  assert (X : None = Some itB); [|discriminate]. apply H.
  - apply (treach_step _ _ 4096 8192 itA).
    + apply (treach_seed _ _ rw 4096).
      * unfold mark_seeds. rewrite ER. cbn. auto.
      * exact IR.
      * rewrite EI. cbn. auto.
    + rewrite EI. reflexivity.
    + exact DA.
    + rewrite SA. vm_compute. discriminate.
    + exact WA.
    + rewrite EI. cbn. auto.
  - rewrite EI. reflexivity.
Qed.

Lemma treach_reach g seeds a : NoDup (keys (items g)) -> leaf_ok g ->
  treach (items g) seeds a -> reach (items g) seeds a.
Proof.
  intros ND LO T. induction T as [r a Ir Ia K | a b it T IH L D S Ib K].
  - eapply reach_seed; eauto.
  - eapply reach_step; eauto.
    destruct (hasflag (iflags it) LEAF_BIT) eqn:F; auto.
    destruct (LO a it (lookup_In _ _ _ L) F); [congruence | lia].
Qed.

(* strongest true restriction: in every state where the LEAF flags are sound, a collection
   keeps everything that is truly reachable, untouched *)
Lemma reachable_kept_partial h stk a it : leaf_ok (run h gc_init) ->
  treach (items (run h gc_init)) (mark_seeds stk (run h gc_init)) a ->
  lookup a (items (run h gc_init)) = Some it ->
  lookup a (items (collect stk (run h gc_init))) = Some it /\
  (forall e, In e (log (collect stk (run h gc_init))) -> ev_addr e = a -> In e (log (run h gc_init))).
Proof.
  intros LO T L. apply collect_safe_run; auto.
  apply treach_reach; auto. apply registered_once.
Qed.

(* ================= FINALIZE and ROOT share a bit ================= *)
(* full-strength statement: a history that respects the allocator's contract never aborts *)
Definition no_abort_full : Prop := forall h,
  err (run h gc_init) = None \/ err (run h gc_init) = Some ErrPrecond.

Definition finroot_witness : list op :=
  [OAlloc 4096 32 false false 1 0 []; ORealloc 4096 8192 2000 []].

Lemma no_abort_refuted : ~ no_abort_full.
Proof.
  intros H. destruct (H finroot_witness) as [E|E]; vm_compute in E; discriminate.
Qed.
