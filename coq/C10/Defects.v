(* Full-strength statements that were false before the repairs fe9bb7e / 9c3dee4 (LEAF flag kept
   by GC:reregister, FINALIZE = ROOT); the former counterexamples are kept as regression Examples. *)
From C10 Require Import Model Proofs Safety.
Local Open Scope Z_scope.

(* ================= the LEAF flag ================= *)
(* full-strength statement: the collector treats an allocation as pointer-free only if the user
   said so or if it is too small to hold a pointer *)
Definition leaf_ok (g : gc) : Prop :=
  forall a it, In (a, it) (items g) -> hasflag (iflags it) LEAF_BIT = true ->
    idecl it = true \/ isize it < WORD_SIZE.
Definition leaf_flag_sound_full : Prop := forall h, leaf_ok (run h gc_init).

Definition leaf_witness : list op :=
  [OAlloc 4096 4 false false 0 0 []; ORealloc 4096 4096 64 []].

(* the former counterexample (alloc(4); realloc to 64): the grown block no longer carries LEAF *)
Example leaf_witness_sound :
  exists it, items (run leaf_witness gc_init) = [(4096, it)] /\ hasflag (iflags it) LEAF_BIT = false /\ isize it = 64.
Proof. eexists. vm_compute. repeat split. Qed.

(* reachability as the property means it: through every allocation that can hold a pointer and
   was not declared pointer-free by the user *)
Inductive treach (its : list (Z * item)) (seeds : list (list Z)) : Z -> Prop :=
| treach_seed r a : In r seeds -> In a r -> In a (keys its) -> treach its seeds a
| treach_step a b it : treach its seeds a -> lookup a its = Some it ->
    idecl it = false -> WORD_SIZE <= isize it -> In b (iwords it) -> In b (keys its) -> treach its seeds b.

Definition reachable_kept_full : Prop := forall h stk a it,
  treach (items (run h gc_init)) (mark_seeds stk (run h gc_init)) a ->
  lookup a (items (run h gc_init)) = Some it ->
  lookup a (items (collect stk (run h gc_init))) = Some it /\
  (forall e, In e (log (collect stk (run h gc_init))) -> ev_addr e = a -> In e (log (run h gc_init))).

(* alloc(4); realloc to 64 in place; a second block stored in it; the first block held by a
   root region; collect: the second block is gone *)
Definition kept_witness : list op :=
  [ORegRoot 256 64; OStop;
   OAlloc 4096 4 false false 0 0 []; ORealloc 4096 4096 64 [];
   OAlloc 8192 32 false false 0 0 []; OStore 4096 1 8192; ORootStore 256 0 4096].

Example kept_witness_kept :
  keys (items (collect [] (run kept_witness gc_init))) = [8192; 4096].
Proof. vm_compute. reflexivity. Qed.

Lemma treach_reach g seeds a : NoDup (keys (items g)) -> leaf_ok g ->
  treach (items g) seeds a -> reach (items g) seeds a.
Proof.
  intros ND LO T. induction T as [r a Ir Ia K | a b it T IH L D S Ib K].
  - eapply reach_seed; eauto.
  - eapply reach_step; eauto.
    unfold noscan. destruct (hasflag (iflags it) LEAF_BIT) eqn:F.
    + destruct (LO a it (lookup_In _ _ _ L) F); [congruence | lia].
    + cbn [orb]. destruct SCAN_SIZE_TEST; auto. cbn [andb]. lia.
Qed.

(* in every state where the LEAF flags are sound a collection keeps everything that is truly
   reachable, untouched (used with leaf_flag_sound to prove reachable_kept_full) *)
Lemma reachable_kept_of_leaf_ok h stk a it : leaf_ok (run h gc_init) ->
  treach (items (run h gc_init)) (mark_seeds stk (run h gc_init)) a ->
  lookup a (items (run h gc_init)) = Some it ->
  lookup a (items (collect stk (run h gc_init))) = Some it /\
  (forall e, In e (log (collect stk (run h gc_init))) -> ev_addr e = a -> In e (log (run h gc_init))).
Proof.
  intros LO T L. apply collect_safe_run; auto.
  apply treach_reach; auto. apply registered_once.
Qed.

(* ================= FINALIZE and ROOT share a bit ================= *)
(* full-strength statement: a history that respects the allocator's contract never aborts *)
Definition no_abort_full : Prop := forall h,
  err (run h gc_init) = None \/ err (run h gc_init) = Some ErrPrecond.

Definition finroot_witness : list op :=
  [OAlloc 4096 32 false false 1 0 []; ORealloc 4096 8192 2000 []].

Example finroot_witness_runs :
  err (run finroot_witness gc_init) = None /\ keys (items (run finroot_witness gc_init)) = [8192].
Proof. vm_compute. split; reflexivity. Qed.
