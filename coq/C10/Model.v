(* Executable model of the collector in lib/allocators/gc.nelua (GC record, GCAllocator).
   One Gallina function per Nelua function, in the order of the source.  The heap below the
   collector is abstract: addresses are integers chosen by the history (what malloc/realloc
   returned), the contents of an allocation are its list of 8-byte words, the words a
   conservative scan of stack + registers would see are supplied by the history ([stk]).

   Flags are kept as the integer bit mask the code uses (bit numbers scraped into Gen.v), so
   collisions between flag bits are part of the model.

   Ghost state (never read by the modelled code): [idecl] (the user declared the allocation
   pointer free), [fid] (serial number of a finalizer registration), [log], [dropped]. *)
From Coq Require Export ZArith List Bool Lia.
From C10 Require Export Gen.
Export ListNotations.
Local Open Scope Z_scope.

(* ---------- flags : usize bit masks ---------- *)
Definition bit (k : Z) : Z := Z.shiftl 1 k.
Definition hasflag (flags k : Z) : bool := Z.testbit flags k.      (* flags & (1<<k) ~= 0 *)
Definition setflag (flags k : Z) : Z := Z.lor flags (bit k).       (* flags | (1<<k) *)
Definition clrflag (flags k : Z) : Z := Z.ldiff flags (bit k).     (* flags & ~(1<<k) *)

Definition two64 : Z := 18446744073709551616.
Definition wadd (a b : Z) : Z := (a + b) mod two64.                (* usize arithmetic *)
Definition wsub (a b : Z) : Z := (a - b) mod two64.
Definition wmul (a b : Z) : Z := (a * b) mod two64.

(* ---------- state ---------- *)
Record fin := mkFin { fid : Z; ftag : Z; fkind : Z }.
(* fkind 1: the finalizer only observes; 2: it calls gc:unregister(self) and frees the block
   itself (what coroutine_gc does); 3: it calls gc_allocator:dealloc(self) *)

Record item := mkItem {
  iflags : Z;            (* GCItem.flags *)
  isize : Z;             (* GCItem.size *)
  ifin : option fin;     (* GCItem.finalizer (+userdata) *)
  iwords : list Z;       (* contents, as the scanner reads them: one entry per 8 bytes *)
  idecl : bool           (* ghost: allocated with the LEAF flag by the user *)
}.

Inductive event :=
| EvFin (id tag addr : Z)     (* a finalizer was called *)
| EvFree (addr : Z)           (* general_allocator:dealloc(addr) *)
| EvExtFree (addr : Z).       (* the finalizer released the block itself *)

Inductive error :=
| ErrSizeZero | ErrRegisterTwice | ErrRootFlags | ErrRootWithFinalizer
| ErrInvalidUnregister | ErrInvalidReregister | ErrCollectorCheck | ErrPrecond | OutOfFuel.
(* ErrCollectorCheck: a check(...) of the collector itself failed; ErrPrecond: the HISTORY broke the
   allocator's / mutator's contract (never raised by the modelled collector code) *)

Record gc := mkGC {
  items : list (Z * item);               (* gc.items *)
  roots : list (Z * (Z * list Z));       (* gc.rootitems: addr -> size, plus the region's words *)
  membytes : Z;
  lastmembytes : Z;
  ormask : Z;
  andmask : Z;
  finq : list (option Z);                (* gc.finalizeitems, nilptr = None *)
  collecting : bool;
  running : bool;
  pause : Z;
  nextfid : Z;                           (* ghost *)
  dropped : list Z;                      (* ghost: finalizers unregistered without being run *)
  log : list event;                      (* ghost, newest first *)
  err : option error                     (* Some = the program aborted in an assert *)
}.

Definition set_items v g := mkGC v (roots g) (membytes g) (lastmembytes g) (ormask g) (andmask g) (finq g) (collecting g) (running g) (pause g) (nextfid g) (dropped g) (log g) (err g).
Definition set_roots v g := mkGC (items g) v (membytes g) (lastmembytes g) (ormask g) (andmask g) (finq g) (collecting g) (running g) (pause g) (nextfid g) (dropped g) (log g) (err g).
Definition set_membytes v g := mkGC (items g) (roots g) v (lastmembytes g) (ormask g) (andmask g) (finq g) (collecting g) (running g) (pause g) (nextfid g) (dropped g) (log g) (err g).
Definition set_lastmembytes v g := mkGC (items g) (roots g) (membytes g) v (ormask g) (andmask g) (finq g) (collecting g) (running g) (pause g) (nextfid g) (dropped g) (log g) (err g).
Definition set_masks o a g := mkGC (items g) (roots g) (membytes g) (lastmembytes g) o a (finq g) (collecting g) (running g) (pause g) (nextfid g) (dropped g) (log g) (err g).
Definition set_finq v g := mkGC (items g) (roots g) (membytes g) (lastmembytes g) (ormask g) (andmask g) v (collecting g) (running g) (pause g) (nextfid g) (dropped g) (log g) (err g).
Definition set_collecting v g := mkGC (items g) (roots g) (membytes g) (lastmembytes g) (ormask g) (andmask g) (finq g) v (running g) (pause g) (nextfid g) (dropped g) (log g) (err g).
Definition set_running v g := mkGC (items g) (roots g) (membytes g) (lastmembytes g) (ormask g) (andmask g) (finq g) (collecting g) v (pause g) (nextfid g) (dropped g) (log g) (err g).
Definition set_pause v g := mkGC (items g) (roots g) (membytes g) (lastmembytes g) (ormask g) (andmask g) (finq g) (collecting g) (running g) v (nextfid g) (dropped g) (log g) (err g).
Definition set_nextfid v g := mkGC (items g) (roots g) (membytes g) (lastmembytes g) (ormask g) (andmask g) (finq g) (collecting g) (running g) (pause g) v (dropped g) (log g) (err g).
Definition set_dropped v g := mkGC (items g) (roots g) (membytes g) (lastmembytes g) (ormask g) (andmask g) (finq g) (collecting g) (running g) (pause g) (nextfid g) v (log g) (err g).
Definition add_log e g := mkGC (items g) (roots g) (membytes g) (lastmembytes g) (ormask g) (andmask g) (finq g) (collecting g) (running g) (pause g) (nextfid g) (dropped g) (e :: log g) (err g).
(* the first failed assert wins: the program is gone after it *)
Definition set_err e g := mkGC (items g) (roots g) (membytes g) (lastmembytes g) (ormask g) (andmask g) (finq g) (collecting g) (running g) (pause g) (nextfid g) (dropped g) (log g)
  (match err g with Some x => Some x | None => Some e end).

(* ---------- association lists standing for the two hash maps ---------- *)
Fixpoint lookup {A} (k : Z) (l : list (Z * A)) : option A :=
  match l with
  | [] => None
  | (k', v) :: r => if k' =? k then Some v else lookup k r
  end.
Fixpoint remove {A} (k : Z) (l : list (Z * A)) : list (Z * A) :=
  match l with
  | [] => []
  | (k', v) :: r => if k' =? k then remove k r else (k', v) :: remove k r
  end.
Fixpoint update {A} (k : Z) (v : A) (l : list (Z * A)) : list (Z * A) :=
  match l with
  | [] => []
  | (k', v') :: r => if k' =? k then (k', v) :: update k v r else (k', v') :: update k v r
  end.
Definition keys {A} (l : list (Z * A)) : list Z := map fst l.

(* number of words the scanner reads for an allocation of [size] bytes:
   for memaddr = low, < high, #@pointer *)
Definition nwords (size : Z) : nat := Z.to_nat ((size + (WORD_SIZE - 1)) / WORD_SIZE).
Definition resize_words (n : nat) (ws : list Z) : list Z := firstn n (ws ++ repeat 0 n).

(* self.finalizeitems[i] == ptr  -> := v ; break *)
Fixpoint finq_replace_first (ptr : Z) (v : option Z) (q : list (option Z)) : list (option Z) :=
  match q with
  | [] => []
  | Some p :: r => if p =? ptr then v :: r else Some p :: finq_replace_first ptr v r
  | None :: r => None :: finq_replace_first ptr v r
  end.

(* ---------- GC:unregister ---------- *)
(* [cb] stands for the call "item.finalizer(ptr, item.userdata)" *)
Definition unregister (cb : fin -> Z -> gc -> gc) (finalize : bool) (ptr : Z) (g : gc) : gc :=
  if ptr =? 0 then g else
  match lookup ptr (items g) with
  | Some it =>                                   (* removed usual item *)
      let g1 := set_finq (finq_replace_first ptr None (finq g))
                  (set_membytes (wsub (membytes g) (isize it))
                     (set_items (remove ptr (items g)) g)) in
      match ifin it with
      | Some f => if finalize then cb f ptr g1
                  else set_dropped (fid f :: dropped g1) g1
      | None => g1
      end
  | None =>                                      (* can only be a root item *)
      match lookup ptr (roots g) with
      | Some _ => set_roots (remove ptr (roots g)) g
      | None => set_err ErrInvalidUnregister g   (* assert(oldsize ~= 0, 'invalid unregister pointer') *)
      end
  end.

(* a finalizer body, as far as the collector can see it *)
Fixpoint call_fin (n : nat) (f : fin) (ptr : Z) (g : gc) : gc :=
  match n with
  | O => set_err OutOfFuel g
  | S n' =>
      let g := add_log (EvFin (fid f) (ftag f) ptr) g in
      if fkind f =? 2 then
        add_log (EvExtFree ptr) (unregister (call_fin n') false ptr g)
      else if fkind f =? 3 then                  (* GCAllocator:dealloc(ptr) *)
        add_log (EvFree ptr) (unregister (call_fin n') true ptr g)
      else g
  end.
Definition FIN_FUEL : nat := 3.
Definition run_fin := call_fin FIN_FUEL.

(* ---------- GC_markptrs / GC_mark ---------- *)
(* (addr & addrtestmask) == addrandmask  with addrtestmask = ~addrormask | addrandmask *)
Definition passes (o a w : Z) : bool := Z.land w (Z.lor (Z.lnot o) a) =? a.

Definition marked (it : item) : bool := hasflag (iflags it) MARK_BIT.
Definition set_mark (it : item) : item :=
  mkItem (setflag (iflags it) MARK_BIT) (isize it) (ifin it) (iwords it) (idecl it).
Definition clr_mark (it : item) : item :=
  mkItem (clrflag (iflags it) MARK_BIT) (isize it) (ifin it) (iwords it) (idecl it).

(* "if not hasflag(item.flags, GCFlags.LEAF) and item.size >= #@usize then push the range":
   [noscan] is the negation of that test (the size test is there iff SCAN_SIZE_TEST) *)
Definition noscan (it : item) : bool :=
  hasflag (iflags it) LEAF_BIT || (SCAN_SIZE_TEST && (isize it <? WORD_SIZE)).

(* the inner for loop over one scan range; newly found ranges are pushed on [pend] *)
Fixpoint scan_words (o a : Z) (ws : list Z) (its : list (Z * item)) (pend : list (list Z))
  : list (Z * item) * list (list Z) :=
  match ws with
  | [] => (its, pend)
  | w :: r =>
      if passes o a w then
        match lookup w its with
        | Some it =>
            if marked it then scan_words o a r its pend
            else
              let its' := update w (set_mark it) its in
              if noscan it then scan_words o a r its' pend
              else scan_words o a r its' (iwords it :: pend)
        | None => scan_words o a r its pend
        end
      else scan_words o a r its pend
  end.

(* while self.scanranges.size > 0 *)
Fixpoint mark_loop (fuel : nat) (o a : Z) (pend : list (list Z)) (its : list (Z * item))
  : option (list (Z * item)) :=
  match pend with
  | [] => Some its
  | r :: rest =>
      match fuel with
      | O => None
      | S f => let '(its', pend') := scan_words o a r its rest in mark_loop f o a pend' its'
      end
  end.

Definition count_unmarked (its : list (Z * item)) : nat :=
  length (filter (fun p => negb (marked (snd p))) its).

Definition mark_seeds (stk : list Z) (g : gc) : list (list Z) :=
  stk :: map (fun r => snd (snd r)) (roots g).

Definition mark (stk : list Z) (g : gc) : option (list (Z * item)) :=
  let pend := mark_seeds stk g in
  mark_loop (length pend + count_unmarked (items g)) (ormask g) (andmask g) pend (items g).

(* ---------- GC_sweep ---------- *)
(* first loop: for ptr, item in mpairs(self.items) *)
Fixpoint sweep1 (its : list (Z * item)) (mem : Z) : list (Z * item) * list Z * list Z * Z :=
  (* kept items, pointers queued for finalization, pointers freed, membytes *)
  match its with
  | [] => ([], [], [], mem)
  | (p, it) :: r =>
      let '(kept, q, freed, mem') := sweep1 r mem in
      if marked it then ((p, clr_mark it) :: kept, q, freed, mem')
      else if hasflag (iflags it) FINALIZE_BIT then ((p, it) :: kept, p :: q, freed, mem')
      else (kept, q, if hasflag (iflags it) EXTERN_BIT then freed else p :: freed, wsub mem' (isize it))
  end.

Definition clear_fin (it : item) : item :=
  mkItem (iflags it) (isize it) None (iwords it) (idecl it).

(* second loop: call finalizers; the vector can be edited by the finalizers, so it is indexed *)
Fixpoint sweep2 (k : nat) (i : nat) (g : gc) : gc :=
  match k with
  | O => g
  | S k' =>
      let g' :=
        match nth_error (finq g) i with
        | Some (Some ptr) =>
            match lookup ptr (items g) with
            | Some it =>
                match ifin it with
                | Some f => run_fin f ptr (set_items (update ptr (clear_fin it) (items g)) g)
                | None => g
                end
            | None => g
            end
        | _ => g
        end in
      sweep2 k' (S i) g'
  end.

(* third loop: deallocate items marked to be finalized *)
Fixpoint sweep3 (q : list (option Z)) (g : gc) : gc :=
  match q with
  | [] => g
  | None :: r => sweep3 r g
  | Some ptr :: r =>
      match lookup ptr (items g) with
      | Some it =>
          let g1 := set_membytes (wsub (membytes g) (isize it)) (set_items (remove ptr (items g)) g) in
          sweep3 r (if hasflag (iflags it) EXTERN_BIT then g1 else add_log (EvFree ptr) g1)
      | None => sweep3 r g
      end
  end.

Definition sweep (g : gc) : gc :=
  let '(kept, q, freed, mem) := sweep1 (items g) (membytes g) in
  let g1 := set_finq (finq g ++ map Some q)
              (set_membytes mem (set_items kept
                 (fold_left (fun g p => add_log (EvFree p) g) freed g))) in
  let g2 := sweep2 (length (finq g1)) 0 g1 in
  let g3 := sweep3 (finq g2) g2 in
  set_finq [] g3.

(* ---------- GC:collect / GC:step ---------- *)
Definition collect (stk : list Z) (g : gc) : gc :=
  if collecting g || (membytes g =? 0) then g else
  let g := set_collecting true g in
  match mark stk g with
  | None => set_err OutOfFuel g
  | Some its =>
      let g := sweep (set_items its g) in          (* GC_rehash has no abstract effect *)
      set_collecting false (set_lastmembytes (membytes g) g)
  end.

Definition step_due (g : gc) : bool :=
  negb (collecting g) && (wmul (lastmembytes g) (pause g) <=? wmul (membytes g) PAUSE_SCALE).
Definition step (stk : list Z) (g : gc) : gc := if step_due g then collect stk g else g.

(* ---------- GC:register ---------- *)
(* flags of a usual item: LEAF forced for blocks smaller than a pointer iff the code still does
   that at registration (AUTO_LEAF_ON_REGISTER), FINALIZE iff a finalizer is given *)
Definition reg_flags (flags size : Z) (f : option fin) : Z :=
  let fl := if AUTO_LEAF_ON_REGISTER && (size <? WORD_SIZE) then setflag flags LEAF_BIT else flags in
  match f with Some _ => setflag fl FINALIZE_BIT | None => fl end.

Definition register (stk : list Z) (ptr size flags : Z) (f : option fin) (ws : list Z) (decl : bool)
  (g : gc) : gc :=
  if ptr =? 0 then g else
  if size <=? 0 then set_err ErrSizeZero g else
  if negb (hasflag flags ROOT_BIT) then
    let flags := reg_flags flags size f in
    match lookup ptr (items g) with
    | Some _ => set_err ErrRegisterTwice g
    | None =>
        let g := set_membytes (wadd (membytes g) size)
                   (set_masks (Z.lor (ormask g) ptr) (Z.land (andmask g) ptr)
                      (set_items ((ptr, mkItem flags size f ws decl) :: items g) g)) in
        if running g then step stk g else g
    end
  else
    if negb (flags =? bit ROOT_BIT) then set_err ErrRootFlags g
    else match f with
         | Some _ => set_err ErrRootWithFinalizer g
         | None => set_roots ((ptr, (size, ws)) :: remove ptr (roots g)) g
         end.

(* ---------- GC:reregister ---------- *)
Definition resize_item (newsize : Z) (it : item) : item :=
  mkItem (iflags it) newsize (ifin it) (resize_words (nwords newsize) (iwords it)) (idecl it).

Definition reregister (stk : list Z) (oldptr newptr newsize : Z) (g : gc) : gc :=
  if (oldptr =? 0) || (newptr =? 0) || (newsize <=? 0) then set_err ErrCollectorCheck g else
  if newptr =? oldptr then
    match lookup oldptr (items g) with
    | Some it =>
        let oldsize := isize it in
        let g := set_items (update oldptr (resize_item newsize it) (items g)) g in
        if oldsize <? newsize then
          let g := set_membytes (wadd (membytes g) (newsize - oldsize)) g in
          if running g then step stk g else g
        else if newsize <? oldsize then set_membytes (wsub (membytes g) (oldsize - newsize)) g
        else g
    | None =>
        match lookup oldptr (roots g) with
        | Some (_, ws) => set_roots ((newptr, (newsize, resize_words (nwords newsize) ws)) :: remove oldptr (roots g)) g
        | None => set_err ErrInvalidReregister g
        end
    end
  else
    match lookup oldptr (items g) with
    | Some it =>
        let g := set_finq (finq_replace_first oldptr (Some newptr) (finq g))
                   (set_membytes (wsub (membytes g) (isize it))
                      (set_items (remove oldptr (items g)) g)) in
        register stk newptr newsize (iflags it) (ifin it)
                 (resize_words (nwords newsize) (iwords it)) (idecl it) g
    | None =>
        match lookup oldptr (roots g) with
        | Some (_, ws) => set_roots ((newptr, (newsize, resize_words (nwords newsize) ws)) :: remove newptr (remove oldptr (roots g))) g
        | None => set_err ErrInvalidReregister g
        end
    end.

(* ---------- GC:init / GC:destroy ---------- *)
Definition gc_init : gc :=
  mkGC [] [] 0 0 0 (two64 - 1) [] false true DEFAULT_PAUSE 0 [] [] None.

(* for i=1,DESTROY_SWEEPS do GC_sweep(self); if #self.items == 0 then break end end *)
Fixpoint destroy_loop (n : nat) (g : gc) : gc :=
  match n with
  | O => g
  | S n' => let g' := sweep g in
            match items g' with [] => g' | _ :: _ => destroy_loop n' g' end
  end.

Definition destroy (g : gc) : gc :=
  let g := set_collecting false (destroy_loop DESTROY_SWEEPS (set_collecting true g)) in
  (* items:destroy() ... $self = {} : whatever is still registered is dropped unseen *)
  set_items [] (set_roots [] g).

(* ---------- GCAllocator ---------- *)
Definition user_flags (leaf extern : bool) : Z :=
  Z.lor (if leaf then bit LEAF_BIT else 0) (if extern then bit EXTERN_BIT else 0).

(* alloc0(size, flags, finalizer, userdata): [ptr] is what the system allocator returned *)
Definition gc_alloc (stk : list Z) (ptr size : Z) (leaf extern : bool) (fk : Z) (tag : Z) (g : gc) : gc :=
  if size =? 0 then g else
  if ptr =? 0 then g else
  let f := if fk =? 0 then None else Some (mkFin (nextfid g) tag fk) in
  let g := if fk =? 0 then g else set_nextfid (nextfid g + 1) g in
  (* the fresh pointer is live in the allocator's frame while the collector may run *)
  register (ptr :: stk) ptr size (user_flags leaf extern) f (repeat 0 (nwords size)) leaf g.

Definition gc_dealloc (ptr : Z) (g : gc) : gc :=
  let g := unregister run_fin true ptr g in
  if ptr =? 0 then g else add_log (EvFree ptr) g.

(* realloc(ptr, newsize, oldsize) for ptr ~= nil, newsize ~= 0, newsize ~= oldsize;
   [newptr] is what the system realloc returned (0 = failure) *)
Definition gc_realloc (stk : list Z) (ptr newptr newsize : Z) (g : gc) : gc :=
  if newptr =? 0 then g else reregister (newptr :: stk) ptr newptr newsize g.

(* ---------- the mutator: histories ---------- *)
Inductive op :=
| OAlloc (ptr size : Z) (leaf extern : bool) (fk tag : Z) (stk : list Z)
| OStore (ptr : Z) (i : nat) (w : Z)           (* word i of a registered allocation := w *)
| ORootStore (ptr : Z) (i : nat) (w : Z)       (* word i of a root region := w *)
| ORealloc (ptr newptr newsize : Z) (stk : list Z)
| ODealloc (ptr : Z)
| OUnregister (ptr : Z)                        (* gc:unregister(ptr) *)
| ORegRoot (ptr size : Z)
| OCollect (stk : list Z)
| OStep (stk : list Z)
| OSetPause (p : Z)
| OStop
| ORestart.

Fixpoint set_nth (i : nat) (w : Z) (l : list Z) : list Z :=
  match l, i with
  | [], _ => []
  | _ :: r, O => w :: r
  | x :: r, S i' => x :: set_nth i' w r
  end.

Definition store_item (i : nat) (w : Z) (it : item) : item :=
  mkItem (iflags it) (isize it) (ifin it) (set_nth i w (iwords it)) (idecl it).

(* what the allocator underneath guarantees / what a correct mutator respects; a history that
   violates it is stopped with ErrPrecond *)
Definition fresh (ptr : Z) (g : gc) : bool :=
  (0 <? ptr) && (ptr <? two64) &&
  match lookup ptr (items g) with Some _ => false | None => true end &&
  match lookup ptr (roots g) with Some _ => false | None => true end.

(* an explicit dealloc of a block whose finalizer releases the block itself is a double free of
   the mutator, not a history the property speaks about *)
Definition dealloc_ok (it : item) : bool :=
  match ifin it with Some f => negb ((fkind f =? 2) || (fkind f =? 3)) | None => true end.

Definition apply_op (o : op) (g : gc) : gc :=
  match err g with
  | Some _ => g
  | None =>
    match o with
    | OAlloc ptr size leaf extern fk tag stk =>
        if (0 <? size) && (size <? two64) && fresh ptr g && (0 <=? fk) && (fk <=? 3)
        then gc_alloc stk ptr size leaf extern fk tag g else set_err ErrPrecond g
    | OStore ptr i w =>
        match lookup ptr (items g) with
        | Some it => if (0 <=? w) && (w <? two64) then set_items (update ptr (store_item i w it) (items g)) g
                     else set_err ErrPrecond g
        | None => set_err ErrPrecond g
        end
    | ORootStore ptr i w =>
        match lookup ptr (roots g) with
        | Some (sz, ws) => if (0 <=? w) && (w <? two64) then set_roots (update ptr (sz, set_nth i w ws) (roots g)) g
                           else set_err ErrPrecond g
        | None => set_err ErrPrecond g
        end
    | ORealloc ptr newptr newsize stk =>
        match lookup ptr (items g) with
        | Some it =>
            if (0 <? ptr) && (0 <? newsize) && (newsize <? two64) && negb (newsize =? isize it) &&
               ((newptr =? ptr) || (newptr =? 0) || fresh newptr g)
            then gc_realloc stk ptr newptr newsize g else set_err ErrPrecond g
        | None => set_err ErrPrecond g
        end
    | ODealloc ptr =>
        match lookup ptr (items g) with
        | Some it => if dealloc_ok it then gc_dealloc ptr g else set_err ErrPrecond g
        | None => set_err ErrPrecond g
        end
    | OUnregister ptr =>
        match lookup ptr (items g) with
        | Some _ => unregister run_fin false ptr g
        | None => set_err ErrPrecond g
        end
    | ORegRoot ptr size =>
        if (0 <? size) && fresh ptr g
        then register [] ptr size (bit ROOT_BIT) None (repeat 0 (nwords size)) false g
        else set_err ErrPrecond g
    | OCollect stk => collect stk g
    | OStep stk => step stk g
    | OSetPause p => if (0 <=? p) && (p <? two64) then set_pause p g else set_err ErrPrecond g
    | OStop => set_running false g
    | ORestart => set_running true g
    end
  end.

Definition run (h : list op) (g : gc) : gc := fold_left (fun g o => apply_op o g) h g.

(* ---------- observations used by the driver ---------- *)
Definition sum_sizes (its : list (Z * item)) : Z := fold_right (fun p acc => isize (snd p) + acc) 0 its.
Definition fin_ids (l : list event) : list Z :=
  flat_map (fun e => match e with EvFin id _ _ => [id] | _ => [] end) l.
