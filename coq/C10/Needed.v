(* Policy-parametric versions of the decisions that rest on scraped repair flags, and witnesses
   that the corresponding main statements fail under the other policy. *)
From C10 Require Import Model Proofs Safety Defects Frame Finalize Exit Abort.
Local Open Scope Z_scope.

(* ---------- the LEAF rule (9c3dee4) and the FINALIZE bit (fe9bb7e) ---------- *)
Definition reg_flags_gen (auto_leaf : bool) (finbit : Z) (flags size : Z) (f : option fin) : Z :=
  let fl := if auto_leaf && (size <? WORD_SIZE) then setflag flags LEAF_BIT else flags in
  match f with Some _ => setflag fl finbit | None => fl end.

Lemma reg_flags_is_gen flags size f :
  reg_flags flags size f = reg_flags_gen AUTO_LEAF_ON_REGISTER FINALIZE_BIT flags size f.
Proof. reflexivity. Qed.

(* under the old policy (LEAF forced at registration for size < 8, kept by GC:reregister's resize)
   an item grown to 64 bytes carries LEAF although nobody declared it pointer-free: the statement
   of C10_leaf_flag_sound fails for it *)
Lemma leaf_rule_needed :
  let it := resize_item 64 (mkItem (reg_flags_gen true FINALIZE_BIT 0 4 None) 4 None [0] false) in
  hasflag (iflags it) LEAF_BIT = true /\ ~ (idecl it = true \/ isize it < WORD_SIZE).
Proof. vm_compute. split; [reflexivity|]. intros [H|H]; discriminate. Qed.

(* the branch GC:register takes for given flags: None = usual item *)
Definition register_branch_gen (rootbit : Z) (flags : Z) (f : option fin) : option error :=
  if negb (hasflag flags rootbit) then None
  else if negb (flags =? bit rootbit) then Some ErrRootFlags
  else match f with Some _ => Some ErrRootWithFinalizer | None => None end.

Lemma register_branch_is_gen stk p size flags f ws decl g e :
  (p =? 0) = false -> (size <=? 0) = false -> err g = None ->
  register_branch_gen ROOT_BIT flags f = Some e ->
  err (register stk p size flags f ws decl g) = Some e.
Proof.
  intros P S E. unfold register_branch_gen, register. rewrite P, S.
  destruct (negb (hasflag flags ROOT_BIT)); [discriminate|].
  destruct (negb (flags =? bit ROOT_BIT)); [intros H; inversion H; subst; unfold set_err; cbn; now rewrite E|].
  destruct f; [intros H; inversion H; subst; unfold set_err; cbn; now rewrite E | discriminate].
Qed.

(* when FINALIZE shares the ROOT bit (the old value 17) re-registering a moved block that has a
   finalizer takes the root branch and trips the assert: C10_no_abort fails; with the scraped bits
   the same flags take the usual branch *)
Lemma finalize_bit_needed :
  let f := mkFin 0 0 1 in
  register_branch_gen ROOT_BIT (reg_flags_gen false ROOT_BIT 0 32 (Some f)) (Some f) = Some ErrRootWithFinalizer /\
  register_branch_gen ROOT_BIT (reg_flags_gen false FINALIZE_BIT 0 32 (Some f)) (Some f) = None.
Proof. vm_compute. split; reflexivity. Qed.

(* ---------- GC:destroy's sweep (2edb035) ---------- *)
Definition destroy_gen (sweeps : nat) (g : gc) : gc :=
  let g := set_collecting false (destroy_loop sweeps (set_collecting true g)) in
  set_items [] (set_roots [] g).
Lemma destroy_is_gen g : destroy g = destroy_gen DESTROY_SWEEPS g.
Proof. reflexivity. Qed.

(* the model's finalizers register nothing, so inside the model only "at least one sweep" is
   needed: with none the exit theorem fails (the need for MORE than one sweep - finalizers that
   allocate - is outside the model and tied by the replayed exit witness) *)
Lemma destroy_sweep_needed :
  let g := destroy_gen 0 (run [OAlloc 4096 32 false false 1 7 []] gc_init) in
  err g = None /\ nextfid g = 1 /\ lcnt (log g) 0 + dcnt (dropped g) 0 = 0.
Proof. vm_compute. repeat split. Qed.
