From C10 Require Import Model.
Require Extraction.
Require Import ExtrOcamlBasic.
Extraction "model.ml" gc_init apply_op run destroy sum_sizes fin_ids lookup marked hasflag
  MARK_BIT FINALIZE_BIT ROOT_BIT LEAF_BIT EXTERN_BIT WORD_SIZE keys nwords.
