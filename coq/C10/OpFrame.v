(* Frame property of the commands that do not run a collection cycle. *)
From C10 Require Import Model Proofs Safety Defects Frame Finalize Exit Garbage AllocSafe Abort.
Local Open Scope Z_scope.

(* ================= commands that do not run a cycle touch only their own block ================= *)
Definition op_target (o : op) : option Z :=
  match o with
  | OStore p _ _ => Some p
  | ODealloc p => Some p
  | OUnregister p => Some p
  | _ => None
  end.

Lemma frame_no_cycle o p g a : op_target o = Some p -> a <> p ->
  lookup a (items (apply_op o g)) = lookup a (items g) /\
  (forall e, In e (log (apply_op o g)) -> ev_addr e = a -> In e (log g)).
Proof.
  intros T N. unfold apply_op. destruct (err g); [auto|].
  destruct o; cbn [op_target] in T; try discriminate; inversion T; subst p.
  - destruct (lookup ptr (items g)) as [it|]; [|auto]. destruct (_ && _); [|auto].
    cbn [items log set_items]. split; auto. now apply lookup_update_other.
  - destruct (lookup ptr (items g)) as [it|]; [|auto]. destruct (dealloc_ok it); [|auto]. unfold gc_dealloc.
    pose proof (only_unregister run_fin true (fun x => x = ptr) ptr g (only_call_fin FIN_FUEL) eq_refl) as (A & B & _).
    destruct (ptr =? 0).
    + split; [apply A; auto|]. intros e I E. destruct (B e I) as [|X]; auto. congruence.
    + cbn [items log add_log]. split; [apply A; auto|]. intros e [<-|I] E; [cbn in E; congruence|].
      destruct (B e I) as [|X]; auto. congruence.
  - destruct (lookup ptr (items g)) as [it|]; [|auto].
    pose proof (only_unregister run_fin false (fun x => x = ptr) ptr g (only_call_fin FIN_FUEL) eq_refl) as (A & B & _).
    split; [apply A; auto|]. intros e I E. destruct (B e I) as [|X]; auto. congruence.
Qed.
