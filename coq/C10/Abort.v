(* Which histories can trip an assert of the collector. *)
From C10 Require Import Model Proofs Safety Defects Frame Finalize Exit Garbage.
Local Open Scope Z_scope.

(* ================= which histories can trip an assert ================= *)
Lemma err_unregister_found cb fz p it g : lookup p (items g) = Some it -> (ifin it = None \/ fz = false) ->
  err (unregister cb fz p g) = err g.
Proof.
  intros L H. unfold unregister. destruct (p =? 0); auto. rewrite L.
  destruct (ifin it) as [f|]; auto. destruct H as [H|H]; [discriminate|]. subst. reflexivity.
Qed.

Lemma err_call_fin_self n f p it g : lookup p (items g) = Some it -> ifin it = None ->
  err (call_fin (S n) f p g) = err g.
Proof.
  intros L F. cbn [call_fin]. destruct (fkind f =? 2); [|destruct (fkind f =? 3)]; auto.
  - cbn [err add_log]. erewrite err_unregister_found; eauto.
  - cbn [err add_log]. erewrite err_unregister_found; eauto.
Qed.

Lemma err_sweep2 k0 : forall i g, err (sweep2 k0 i g) = err g.
Proof.
  induction k0 as [|k0 IH]; intros i g; cbn [sweep2]; auto. rewrite IH.
  destruct (nth_error (finq g) i) as [[ptr|]|]; auto.
  destruct (lookup ptr (items g)) as [it|] eqn:L; auto. destruct (ifin it) as [f|]; auto.
  unfold run_fin, FIN_FUEL. erewrite err_call_fin_self; [reflexivity| |].
  - cbn [items set_items]. apply lookup_update_same. eapply lookup_In_keys; eauto.
  - reflexivity.
Qed.
Lemma err_sweep3 q : forall g, err (sweep3 q g) = err g.
Proof.
  induction q as [|[p|] r IH]; intros g; cbn [sweep3]; auto.
  destruct (lookup p (items g)) as [it|]; auto. rewrite IH. destruct (hasflag (iflags it) EXTERN_BIT); reflexivity.
Qed.
Lemma err_fold_free l : forall g, err (fold_left (fun g p => add_log (EvFree p) g) l g) = err g.
Proof. induction l; cbn; auto. intros g. now rewrite IHl. Qed.
Lemma err_sweep g : err (sweep g) = err g.
Proof.
  unfold sweep. destruct (sweep1 (items g) (membytes g)) as [[[kept q] freed] mem].
  cbn [err set_finq]. rewrite err_sweep3, err_sweep2. cbn [err set_finq set_membytes set_items]. apply err_fold_free.
Qed.
Lemma err_collect stk g : Inv g -> err (collect stk g) = err g.
Proof.
  intros [W Q]. unfold collect. destruct (collecting g || (membytes g =? 0)); auto.
  destruct (mark_complete stk (set_collecting true g)) as (its & E & _).
  { now apply WF_set_collecting. } { apply unmarked_in_all, Q. }
  rewrite E. cbn [err set_collecting set_lastmembytes]. now rewrite err_sweep.
Qed.
Lemma err_step stk g : Inv g -> err (step stk g) = err g.
Proof. intros I. unfold step. destruct (step_due g); auto. now apply err_collect. Qed.

Lemma err_register stk p size flags f ws decl g : Inv g -> hasflag flags MARK_BIT = false ->
  0 < size -> hasflag flags ROOT_BIT = false -> lookup p (items g) = None ->
  err (register stk p size flags f ws decl g) = err g.
Proof.
  intros I Mf SZ RF L. unfold register. destruct (p =? 0); auto.
  assert (S0 : (size <=? 0) = false) by lia. rewrite S0, RF, L. cbn [negb].
  match goal with |- err (if _ then step _ ?G else ?G) = _ => set (G0 := G) end.
  assert (I0 : Inv G0) by (apply Inv_reg_mid; auto; now apply reg_flags_unmarked).
  destruct (running G0); [rewrite err_step by auto|]; reflexivity.
Qed.

Definition op_abort_safe (o : op) (g : gc) : bool :=
  match o with
  | ORealloc p q _ _ =>
      (q =? p) || match lookup p (items g) with Some it => negb (hasflag (iflags it) ROOT_BIT) | None => true end
  | ODealloc p =>
      match lookup p (items g) with
      | Some it => match ifin it with Some f => negb ((fkind f =? 2) || (fkind f =? 3)) | None => true end
      | None => true
      end
  | _ => true
  end.
Fixpoint hist_abort_safe (h : list op) (g : gc) : bool :=
  match h with [] => true | o :: r => op_abort_safe o g && hist_abort_safe r (apply_op o g) end.

Definition benign (e : option error) : Prop := e = None \/ e = Some ErrPrecond.

Lemma user_flags_no_root l e : hasflag (user_flags l e) ROOT_BIT = false.
Proof.
  unfold user_flags, hasflag. rewrite Z.lor_spec. pose proof LEAF_nonneg. pose proof EXTERN_nonneg.
  assert (B : forall k, 0 <= k -> k <> ROOT_BIT -> Z.testbit (bit k) ROOT_BIT = false).
  { intros k Hk N. unfold bit. rewrite Z.shiftl_1_l, Z.pow2_bits_eqb by lia. destruct (Z.eqb_spec k ROOT_BIT); auto. lia. }
  destruct l, e; rewrite ?B, ?Z.bits_0; auto; try (intros E; symmetry in E; now apply LEAF_not_ROOT in E);
    vm_compute; discriminate.
Qed.

Lemma benign_set_precond g : err g = None -> benign (err (set_err ErrPrecond g)).
Proof. intros E. right. unfold set_err. cbn. now rewrite E. Qed.

Lemma benign_apply_op o g : Inv g -> err g = None -> op_abort_safe o g = true -> benign (err (apply_op o g)).
Proof.
  intros I EG SAFE. unfold apply_op. rewrite EG. destruct o; cbn [op_abort_safe] in SAFE.
  - destruct (_ && _) eqn:PRE; [|now apply benign_set_precond].
    repeat (apply andb_prop in PRE; destruct PRE as [PRE ?]).
    match goal with H : fresh ptr g = true |- _ => unfold fresh in H; repeat (apply andb_prop in H; destruct H as [H ?]) end.
    unfold gc_alloc. destruct (size =? 0); [now left|]. destruct (ptr =? 0); [now left|].
    left. rewrite err_register; auto.
    + destruct (fk =? 0); auto.
    + destruct (fk =? 0); auto. destruct I as [W Q]. split; [now apply WF_set_nextfid | exact Q].
    + apply user_flags_unmarked.
    + lia.
    + apply user_flags_no_root.
    + destruct (fk =? 0); cbn [items set_nextfid]; destruct (lookup ptr (items g)); auto; discriminate.
  - destruct (lookup ptr (items g)); [|now apply benign_set_precond].
    destruct (_ && _); [now left | now apply benign_set_precond].
  - destruct (lookup ptr (roots g)) as [[? ?]|]; [|now apply benign_set_precond].
    destruct (_ && _); [now left | now apply benign_set_precond].
  - destruct (lookup ptr (items g)) as [it|] eqn:L; [|now apply benign_set_precond].
    destruct (_ && _) eqn:PRE; [|now apply benign_set_precond].
    unfold gc_realloc. destruct (newptr =? 0) eqn:N0; [now left|]. unfold reregister. rewrite N0.
    destruct ((ptr =? 0) || false || (newsize <=? 0)); [now apply benign_set_precond|].
    apply andb_prop in PRE. destruct PRE as [PRE FRq]. repeat (apply andb_prop in PRE; destruct PRE as [PRE ?]).
    destruct (newptr =? ptr) eqn:SAME.
    + rewrite L. left. destruct (isize it <? newsize).
      * match goal with |- err (if _ then step _ ?G else ?G) = _ => set (G0 := G) end.
        assert (I0 : Inv G0).
        { apply Inv_resize_mid; auto. cbn [membytes set_items]. destruct I as [[A B CC] Q]. rewrite B, wadd_mod. f_equal. lia. }
        destruct (running G0); [rewrite err_step by auto|]; exact EG.
      * destruct (newsize <? isize it); exact EG.
    + rewrite L. left. cbn [orb] in SAFE, FRq. apply negb_true_iff in SAFE.
      unfold fresh in FRq. repeat (apply andb_prop in FRq; destruct FRq as [FRq ?]).
      rewrite err_register; auto.
      * destruct I as [W Q]. split.
        -- apply WF_set_finq. now apply WF_remove_item.
        -- destruct Q as (A & B & CC). repeat split; auto.
           ++ cbn [items set_finq set_membytes set_items]. now apply unmarked_remove.
           ++ cbn [finq set_finq]. rewrite B. reflexivity.
      * destruct I as [W Q]. apply (proj1 Q (ptr, it)). now apply lookup_In.
      * lia.
      * cbn [items set_finq set_membytes set_items]. rewrite lookup_remove_other by lia.
        destruct (lookup newptr (items g)); auto; discriminate.
  - destruct (lookup ptr (items g)) as [it|] eqn:L; [|now apply benign_set_precond].
    left. unfold gc_dealloc.
    assert (E : err (unregister run_fin true ptr g) = None).
    { unfold unregister. destruct (ptr =? 0); auto. rewrite L.
      destruct (ifin it) as [f|] eqn:F; auto.
      unfold run_fin, FIN_FUEL. cbn [call_fin].
      apply negb_true_iff in SAFE. apply orb_false_iff in SAFE. destruct SAFE as [S2 S3]. rewrite S2, S3. exact EG. }
    destruct (ptr =? 0); auto.
  - destruct (lookup ptr (items g)) as [it|] eqn:L; [|now apply benign_set_precond].
    left. erewrite err_unregister_found; eauto.
  - destruct (0 <? size) eqn:SZ; cbn [andb]; [|now apply benign_set_precond].
    destruct (fresh ptr g) eqn:FR; [|now apply benign_set_precond]. left.
    unfold register. destruct (ptr =? 0); auto. assert (S0 : (size <=? 0) = false) by lia. rewrite S0.
    assert (RB : hasflag (bit ROOT_BIT) ROOT_BIT = true).
    { unfold hasflag, bit. pose proof ROOT_nonneg. rewrite Z.shiftl_1_l, Z.pow2_bits_eqb by lia. apply Z.eqb_refl. }
    rewrite RB. cbn [negb]. rewrite Z.eqb_refl. cbn [negb]. exact EG.
  - left. now rewrite err_collect.
  - left. now rewrite err_step.
  - destruct (_ && _); [now left | now apply benign_set_precond].
  - now left.
  - now left.
Qed.

(* strongest true restriction of no_abort: histories that never move a block whose flags carry
   the ROOT (= FINALIZE) bit and never explicitly deallocate a block whose finalizer releases the
   block itself never trip an assert of the collector *)
Lemma no_abort_partial h : hist_abort_safe h gc_init = true ->
  err (run h gc_init) = None \/ err (run h gc_init) = Some ErrPrecond.
Proof.
  assert (G : forall h g, Inv g -> benign (err g) -> hist_abort_safe h g = true -> benign (err (run h g))).
  { induction h0 as [|o r IH]; intros g I B S; cbn [run fold_left]; auto.
    cbn [hist_abort_safe] in S. apply andb_prop in S. destruct S as [S1 S2].
    apply IH; auto. { now apply Inv_apply_op. }
    destruct B as [B|B]; [now apply benign_apply_op|].
    unfold apply_op. rewrite B. now right. }
  intros S. apply (G h gc_init); auto. { apply Inv_init. } now left.
Qed.

Example abort_safe_nonvacuous :
  hist_abort_safe [OAlloc 4096 32 false false 1 0 []; ORealloc 4096 4096 64 []; OAlloc 8192 16 false false 0 0 [];
                   ORealloc 8192 12288 64 []; OCollect []] gc_init = true.
Proof. vm_compute. reflexivity. Qed.
