(* Which histories can trip an assert of the collector. *)
From C10 Require Import Model Proofs Safety Defects Frame Finalize Exit Garbage.
Local Open Scope Z_scope.

(* ================= which histories can trip an assert ================= *)
Lemma err_unregister_found cb fz p it g : lookup p (items g) = Some it -> (ifin it = None \/ fz = false) ->
  err (unregister cb fz p g) = err g.
Proof.
  intros L H. unfold unregister. destruct (p =? 0); auto. rewrite L.
  destruct (ifin it) as [f|]; auto. destruct H as [H|H]; [discriminate|]. subst. reflexivity.
Qed.

Lemma err_call_fin_self n f p it g : lookup p (items g) = Some it -> ifin it = None ->
  err (call_fin (S n) f p g) = err g.
Proof.
  intros L F. cbn [call_fin]. destruct (fkind f =? 2); [|destruct (fkind f =? 3)]; auto.
  - cbn [err add_log]. erewrite err_unregister_found; eauto.
  - cbn [err add_log]. erewrite err_unregister_found; eauto.
Qed.

Lemma err_sweep2 k0 : forall i g, err (sweep2 k0 i g) = err g.
Proof.
  induction k0 as [|k0 IH]; intros i g; cbn [sweep2]; auto. rewrite IH.
  destruct (nth_error (finq g) i) as [[ptr|]|]; auto.
  destruct (lookup ptr (items g)) as [it|] eqn:L; auto. destruct (ifin it) as [f|]; auto.
  unfold run_fin, FIN_FUEL. erewrite err_call_fin_self; [reflexivity| |].
  - cbn [items set_items]. apply lookup_update_same. eapply lookup_In_keys; eauto.
  - reflexivity.
Qed.
Lemma err_sweep3 q : forall g, err (sweep3 q g) = err g.
Proof.
  induction q as [|[p|] r IH]; intros g; cbn [sweep3]; auto.
  destruct (lookup p (items g)) as [it|]; auto. rewrite IH. destruct (hasflag (iflags it) EXTERN_BIT); reflexivity.
Qed.
Lemma err_fold_free l : forall g, err (fold_left (fun g p => add_log (EvFree p) g) l g) = err g.
Proof. induction l; cbn; auto. intros g. now rewrite IHl. Qed.
Lemma err_sweep g : err (sweep g) = err g.
Proof.
  unfold sweep. destruct (sweep1 (items g) (membytes g)) as [[[kept q] freed] mem].
  cbn [err set_finq]. rewrite err_sweep3, err_sweep2. cbn [err set_finq set_membytes set_items]. apply err_fold_free.
Qed.
Lemma err_collect stk g : Inv g -> err (collect stk g) = err g.
Proof.
  intros [W Q]. unfold collect. destruct (collecting g || (membytes g =? 0)); auto.
  destruct (mark_complete stk (set_collecting true g)) as (its & E & _).
  { now apply WF_set_collecting. } { apply unmarked_in_all, Q. }
  rewrite E. cbn [err set_collecting set_lastmembytes]. now rewrite err_sweep.
Qed.
Lemma err_step stk g : Inv g -> err (step stk g) = err g.
Proof. intros I. unfold step. destruct (step_due g); auto. now apply err_collect. Qed.

Lemma err_register stk p size flags f ws decl g : Inv g -> hasflag flags MARK_BIT = false ->
  0 < size -> hasflag flags ROOT_BIT = false -> lookup p (items g) = None ->
  err (register stk p size flags f ws decl g) = err g.
Proof.
  intros I Mf SZ RF L. unfold register. destruct (p =? 0); auto.
  assert (S0 : (size <=? 0) = false) by lia. rewrite S0, RF, L. cbn [negb].
  match goal with |- err (if _ then step _ ?G else ?G) = _ => set (G0 := G) end.
  assert (I0 : Inv G0) by (apply Inv_reg_mid; auto; now apply reg_flags_unmarked).
  destruct (running G0); [rewrite err_step by auto|]; reflexivity.
Qed.

(* no usual item ever carries the ROOT bit (true since FINALIZE no longer shares it) *)
Definition no_root (its : list (Z * item)) : Prop :=
  forall a it, lookup a its = Some it -> hasflag (iflags it) ROOT_BIT = false.

Lemma no_root_shrink its its' : shrink its its' -> no_root its -> no_root its'.
Proof.
  intros S H a it' L. destruct (S a it' L) as (it & L0 & (_ & _ & _ & C4 & _)).
  rewrite C4. { exact (H a it L0). } intros E. symmetry in E. now apply MARK_not_ROOT in E.
Qed.

Lemma reg_flags_root flags size f : hasflag (reg_flags flags size f) ROOT_BIT = hasflag flags ROOT_BIT.
Proof.
  unfold reg_flags. pose proof LEAF_nonneg. pose proof FINALIZE_nonneg.
  assert (R1 : hasflag (if AUTO_LEAF_ON_REGISTER && (size <? WORD_SIZE) then setflag flags LEAF_BIT else flags) ROOT_BIT
               = hasflag flags ROOT_BIT).
  { destruct (AUTO_LEAF_ON_REGISTER && (size <? WORD_SIZE)); auto. apply hasflag_setflag_other; auto.
    intros E. symmetry in E. now apply LEAF_not_ROOT in E. }
  destruct f; auto. rewrite hasflag_setflag_other; auto. intros E. symmetry in E. now apply FINALIZE_not_ROOT in E.
Qed.

Lemma no_root_register stk p size flags f ws decl g : WF g -> no_root (items g) ->
  no_root (items (register stk p size flags f ws decl g)).
Proof.
  intros W H. unfold register. destruct (p =? 0); auto. destruct (size <=? 0); auto.
  destruct (negb (hasflag flags ROOT_BIT)) eqn:RF.
  - destruct (lookup p (items g)) eqn:L; auto.
    match goal with |- no_root (items (if _ then step _ ?G else ?G)) => assert (H1 : no_root (items G) /\ WF G) end.
    { split; [|now apply WF_reg_mid]. cbn [items set_membytes set_masks set_items]. intros a it. cbn [lookup].
      destruct (Z.eqb_spec p a).
      - intros E. inversion E; subst. cbn [iflags]. rewrite reg_flags_root. now apply negb_true_iff in RF.
      - apply H. }
    destruct H1 as [H1 W1]. destruct (running _); auto.
    eapply no_root_shrink; [apply shrink_step; exact W1 | exact H1].
  - destruct (negb (flags =? bit ROOT_BIT)); auto. destruct f; auto.
Qed.

Lemma no_root_update p it it' its : lookup p its = Some it -> no_root its ->
  hasflag (iflags it') ROOT_BIT = false -> no_root (update p it' its).
Proof.
  intros L H H' a v La. destruct (Z.eq_dec a p) as [->|N].
  - rewrite lookup_update_same in La by (eapply lookup_In_keys; eauto). inversion La; subst. auto.
  - rewrite lookup_update_other in La by auto. exact (H a v La).
Qed.

Lemma no_root_apply_op o g : Inv g -> no_root (items g) -> no_root (items (apply_op o g)).
Proof.
  intros [W Q] H. unfold apply_op. destruct (err g); auto. destruct o.
  - destruct (_ && _); auto. unfold gc_alloc. destruct (size =? 0); auto. destruct (ptr =? 0); auto.
    apply no_root_register; auto. { destruct (fk =? 0); auto. now apply WF_set_nextfid. } destruct (fk =? 0); auto.
  - destruct (lookup ptr (items g)) as [it|] eqn:L; auto. destruct (_ && _); auto. cbn [items set_items].
    eapply no_root_update; eauto. cbn [store_item iflags]. apply (H ptr it L).
  - destruct (lookup ptr (roots g)) as [[? ?]|]; auto. destruct (_ && _); auto.
  - destruct (lookup ptr (items g)) as [it|] eqn:L; auto. destruct (_ && _); auto. unfold gc_realloc.
    destruct (newptr =? 0); auto. unfold reregister.
    destruct ((ptr =? 0) || (newptr =? 0) || (newsize <=? 0)); auto.
    destruct (newptr =? ptr).
    + rewrite L.
      assert (U : no_root (update ptr (resize_item newsize it) (items g)))
        by (eapply no_root_update; eauto; cbn [resize_item iflags]; apply (H ptr it L)).
      destruct (isize it <? newsize).
      * match goal with |- no_root (items (if _ then step _ ?G else ?G)) => assert (IG : Inv G) end.
        { apply Inv_resize_mid; [split; auto | auto |]. cbn [membytes set_items]. destruct W as [A B CC]. rewrite B, wadd_mod. f_equal. lia. }
        destruct (running _); auto. eapply no_root_shrink; [apply shrink_step; apply IG | exact U].
      * destruct (newsize <? isize it); auto.
    + rewrite L. apply no_root_register.
      * apply WF_set_finq. now apply WF_remove_item.
      * cbn [items set_finq set_membytes set_items]. eapply no_root_shrink; [apply shrink_remove | exact H].
  - destruct (lookup ptr (items g)); auto. destruct (dealloc_ok _); auto. unfold gc_dealloc.
    assert (no_root (items (unregister run_fin true ptr g)))
      by (eapply no_root_shrink; [apply shrink_unregister, shrink_call_fin | exact H]).
    destruct (ptr =? 0); auto.
  - destruct (lookup ptr (items g)); auto. eapply no_root_shrink; [apply shrink_unregister, shrink_call_fin | exact H].
  - destruct (_ && _); auto. now apply no_root_register.
  - eapply no_root_shrink; [now apply shrink_collect | auto].
  - eapply no_root_shrink; [now apply shrink_step | auto].
  - destruct (_ && _); auto.
  - auto.
  - auto.
Qed.

Definition benign (e : option error) : Prop := e = None \/ e = Some ErrPrecond.

Lemma user_flags_no_root l e : hasflag (user_flags l e) ROOT_BIT = false.
Proof.
  unfold user_flags, hasflag. rewrite Z.lor_spec. pose proof LEAF_nonneg. pose proof EXTERN_nonneg.
  assert (B : forall k, 0 <= k -> k <> ROOT_BIT -> Z.testbit (bit k) ROOT_BIT = false).
  { intros k Hk N. unfold bit. rewrite Z.shiftl_1_l, Z.pow2_bits_eqb by lia. destruct (Z.eqb_spec k ROOT_BIT); auto. lia. }
  destruct l, e; rewrite ?B, ?Z.bits_0; auto; try (intros E; symmetry in E; now apply LEAF_not_ROOT in E);
    vm_compute; discriminate.
Qed.

Lemma benign_set_precond g : err g = None -> benign (err (set_err ErrPrecond g)).
Proof. intros E. right. unfold set_err. cbn. now rewrite E. Qed.

Lemma benign_apply_op o g : Inv g -> no_root (items g) -> err g = None -> benign (err (apply_op o g)).
Proof.
  intros I NR EG. unfold apply_op. rewrite EG. destruct o.
  - destruct (_ && _) eqn:PRE; [|now apply benign_set_precond].
    repeat (apply andb_prop in PRE; destruct PRE as [PRE ?]).
    match goal with H : fresh ptr g = true |- _ => unfold fresh in H; repeat (apply andb_prop in H; destruct H as [H ?]) end.
    unfold gc_alloc. destruct (size =? 0); [now left|]. destruct (ptr =? 0); [now left|].
    left. rewrite err_register; auto.
    + destruct (fk =? 0); auto.
    + destruct (fk =? 0); auto. destruct I as [W Q]. split; [now apply WF_set_nextfid | exact Q].
    + apply user_flags_unmarked.
    + lia.
    + apply user_flags_no_root.
    + destruct (fk =? 0); cbn [items set_nextfid]; destruct (lookup ptr (items g)); auto; discriminate.
  - destruct (lookup ptr (items g)); [|now apply benign_set_precond].
    destruct (_ && _); [now left | now apply benign_set_precond].
  - destruct (lookup ptr (roots g)) as [[? ?]|]; [|now apply benign_set_precond].
    destruct (_ && _); [now left | now apply benign_set_precond].
  - destruct (lookup ptr (items g)) as [it|] eqn:L; [|now apply benign_set_precond].
    destruct (_ && _) eqn:PRE; [|now apply benign_set_precond].
    unfold gc_realloc. destruct (newptr =? 0) eqn:N0; [now left|]. unfold reregister. rewrite N0.
    apply andb_prop in PRE. destruct PRE as [PRE FRq]. repeat (apply andb_prop in PRE; destruct PRE as [PRE ?]).
    (* the collector's own check(oldptr ~= nilptr and newptr ~= nilptr and newsize > 0) cannot fail *)
    assert (CK : ((ptr =? 0) || false || (newsize <=? 0)) = false) by (apply orb_false_iff; split; [apply orb_false_iff; split; auto; lia | lia]).
    rewrite CK.
    destruct (newptr =? ptr) eqn:SAME.
    + rewrite L. left. destruct (isize it <? newsize).
      * match goal with |- err (if _ then step _ ?G else ?G) = _ => set (G0 := G) end.
        assert (I0 : Inv G0).
        { apply Inv_resize_mid; auto. cbn [membytes set_items]. destruct I as [[A B CC] Q]. rewrite B, wadd_mod. f_equal. lia. }
        destruct (running G0); [rewrite err_step by auto|]; exact EG.
      * destruct (newsize <? isize it); exact EG.
    + rewrite L. left. cbn [orb] in FRq. pose proof (NR ptr it L) as SAFE.
      unfold fresh in FRq. repeat (apply andb_prop in FRq; destruct FRq as [FRq ?]).
      rewrite err_register; auto.
      * destruct I as [W Q]. split.
        -- apply WF_set_finq. now apply WF_remove_item.
        -- destruct Q as (A & B & CC). repeat split; auto.
           ++ cbn [items set_finq set_membytes set_items]. now apply unmarked_remove.
           ++ cbn [finq set_finq]. rewrite B. reflexivity.
      * destruct I as [W Q]. apply (proj1 Q (ptr, it)). now apply lookup_In.
      * lia.
      * cbn [items set_finq set_membytes set_items]. rewrite lookup_remove_other by lia.
        destruct (lookup newptr (items g)); auto; discriminate.
  - destruct (lookup ptr (items g)) as [it|] eqn:L; [|now apply benign_set_precond].
    destruct (dealloc_ok it) eqn:SAFE; [|now apply benign_set_precond]. unfold dealloc_ok in SAFE.
    left. unfold gc_dealloc.
    assert (E : err (unregister run_fin true ptr g) = None).
    { unfold unregister. destruct (ptr =? 0); auto. rewrite L.
      destruct (ifin it) as [f|] eqn:F; auto.
      unfold run_fin, FIN_FUEL. cbn [call_fin].
      apply negb_true_iff in SAFE. apply orb_false_iff in SAFE. destruct SAFE as [S2 S3]. rewrite S2, S3. exact EG. }
    destruct (ptr =? 0); auto.
  - destruct (lookup ptr (items g)) as [it|] eqn:L; [|now apply benign_set_precond].
    left. erewrite err_unregister_found; eauto.
  - destruct (0 <? size) eqn:SZ; cbn [andb]; [|now apply benign_set_precond].
    destruct (fresh ptr g) eqn:FR; [|now apply benign_set_precond]. left.
    unfold register. destruct (ptr =? 0); auto. assert (S0 : (size <=? 0) = false) by lia. rewrite S0.
    assert (RB : hasflag (bit ROOT_BIT) ROOT_BIT = true).
    { unfold hasflag, bit. pose proof ROOT_nonneg. rewrite Z.shiftl_1_l, Z.pow2_bits_eqb by lia. apply Z.eqb_refl. }
    rewrite RB. cbn [negb]. rewrite Z.eqb_refl. cbn [negb]. exact EG.
  - left. now rewrite err_collect.
  - left. now rewrite err_step.
  - destruct (_ && _); [now left | now apply benign_set_precond].
  - now left.
  - now left.
Qed.

(* a history that respects the allocator's contract never trips an assert of the collector and
   never exhausts the model's fuel: the only error it can end in is a violated precondition of
   the history itself *)
Lemma no_abort : no_abort_full.
Proof.
  assert (G : forall h g, Inv g -> no_root (items g) -> benign (err g) -> benign (err (run h g))).
  { induction h as [|o r IH]; intros g I NR B; cbn [run fold_left]; auto.
    apply IH; [now apply Inv_apply_op | now apply no_root_apply_op |].
    destruct B as [B|B]; [now apply benign_apply_op|].
    unfold apply_op. rewrite B. now right. }
  intros h. apply (G h gc_init); [apply Inv_init | intros a it L; discriminate | now left].
Qed.
