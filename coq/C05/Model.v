(* C05 - programs that break a static rule are rejected at compile time.

   Executable model, no proofs.
   * mini-AST [stmt/block/cases]; every statement of a block carries the id (= source line) the
     pretty-printer gives it;
   * [rule_ok]    : the rules as the property states them, written declaratively over lexical
                    information (in a loop of the same function?, declared?, which function declared it?,
                    which label does the goto bind to and which defers lie in between?);
   * [offenders]  : the analyzer's devices as they are in analyzer.lua / scope.lua / symbol.lua:
                    scope chain with is_loop / is_function flags and get_up_scope_of_any_kind,
                    switchcase_index, scope.fallthrough, symbols looked up through the chain,
                    Symbol:is_directly_accesible_from_scope (identity of the up-function scope),
                    Scope:find_label stopping at function scopes, the has_defer flag that persists
                    over the two resolution passes, IntegralType:is_inrange, visitor_Array_KeyIndex.
                    It lists every statement at which the analyzer raises; [analyzer_ok p] = no offender. *)
From Coq Require Import List Bool Arith ZArith.
From C05 Require Import Gen.
Import ListNotations.
Local Open Scope Z_scope.

Inductive qual := QVar | QConst | QComptime.

Inductive stmt :=
| Local (x:nat) (q:qual)               (* local x <q> = 0 *)
| Assign (x:nat)                       (* x = 1 *)
| Use (x:nat)                          (* sink(x) *)
| AssignF (x:nat)                      (* #[x]# = 1 : the Id node carries a forced symbol (aster.value of a Symbol) *)
| UseF (x:nat)                         (* sink(#[x]#) *)
| Func (f:nat) (ps:list nat) (b:block) (* local function f(ps) b end *)
| FuncAssign (x:nat) (b:block)         (* function x() b end : defines a function over the EXISTING variable x
                                          (a function-pointer variable): an assignment to x *)
| Call (f:nat) (n:nat)                 (* f(1,..,n) *)
| Do (b:block)
| If (t e:block)
| While (b:block)
| Repeat (b:block)
| For (b:block)
| Switch (cs:cases) (els:bool) (d:block)   (* d is the else block when els = true *)
| Break | Continue | Fallthrough
| Label (l:nat) | Goto (l:nat)
| Defer (b:block)
| ConstIndex (len k:Z)                 (* local a: [len]integer; sink(a[k]) *)
| ConstConv (t:nat) (v:Z) (viaconcept:bool)  (* the constant v converted to <type t> (declaration, assignment, return,
                                           field, argument ...); viaconcept: it is the argument of a parameter typed by a
                                           concept (overload / facultative / user concept) that suggests <type t> *)
| ConstFrac (t:nat)                    (* a fractional constant converted to <type t> *)
with block := BNil | BCons (id:nat) (s:stmt) (b:block)
with cases := CNil | CCons (cid v:nat) (b:block) (cs:cases).   (* case v then b, printed on line cid *)

Inductive kind :=
| KBreak | KContinue | KFall | KLabelDup | KGotoNoLabel | KGotoDefer
| KUndeclared | KUpvalue | KConstAssign | KArity | KNotCallable | KRange | KIndex | KDupCase.

Definition errs := list (nat * kind).

Fixpoint ncases (cs:cases) : nat := match cs with CNil => O | CCons _ _ _ r => S (ncases r) end.
Definition is_bnil (b:block) : bool := match b with BNil => true | _ => false end.

(* ================================================================== A. break / continue / fallthrough *)

(* ---- rule: break/continue inside a loop of the same function and of the same defer block; fallthrough is the very last statement
        of a case block that is followed by another case block or by the else block *)
Fixpoint rflow_stmt (inloop:bool) (s:stmt) {struct s} : bool :=
  match s with
  | Break | Continue => inloop
  | Fallthrough => false
  | Func _ _ b | FuncAssign _ b => rflow_block false false b
  | Do b => rflow_block inloop false b
  | If t e => rflow_block inloop false t && rflow_block inloop false e
  | While b | Repeat b | For b => rflow_block true false b
  | Switch cs els d => rflow_cases inloop els cs && rflow_block inloop false d
  | Defer b => rflow_block false false b       (* break/continue may not leave a defer block *)
  | _ => true
  end
with rflow_block (inloop ftok:bool) (b:block) {struct b} : bool :=
  match b with
  | BNil => true
  | BCons _ s rest =>
    match s with
    | Fallthrough => ftok && is_bnil rest
    | _ => rflow_stmt inloop s && rflow_block inloop ftok rest
    end
  end
with rflow_cases (inloop els:bool) (cs:cases) {struct cs} : bool :=
  match cs with
  | CNil => true
  | CCons _ _ b rest =>
    rflow_block inloop (match rest with CNil => els | _ => true end) b && rflow_cases inloop els rest
  end.

(* ---- analyzer: scope chain *)
Record fscope := mkf { fl : bool; ff : bool; fdb : bool (* is_deferblock *); fcase : option (nat * nat * bool) }.
(* fcase = Some (switchcase_index as a case number, number of cases, has else) on a case block scope *)

Definition plain_scope := mkf false false false None.
Definition loop_scope := mkf true false false None.
Definition func_scope := mkf false true false None.
Definition defer_scope := mkf false false true None.

(* Scope:get_up_scope_of_any_kind('is_loop','is_function') *)
Fixpoint up_loop_or_func (ch:list fscope) : option fscope :=
  match ch with
  | [] => None
  | s :: r => if fl s || ff s then Some s else up_loop_or_func r
  end.

Definition loop_found (ch:list fscope) : bool :=
  match up_loop_or_func ch with Some s => fl s | None => false end.

(* check_jump_out_of_defer(context, node, what, 'is_loop'): walking up, a defer block is met before the loop
   (or function) scope *)
Fixpoint jump_out_of_defer (ch:list fscope) : bool :=
  match ch with
  | [] => false
  | s :: r => if fl s || ff s then false else if fdb s then true else jump_out_of_defer r
  end.

Definition break_ok_pol (pol:bool) (ch:list fscope) : bool :=
  negb (pol && jump_out_of_defer ch) && loop_found ch.
Definition break_ok (ch:list fscope) : bool := break_ok_pol gen_break_continue_check_defer_block ch.

(* the case number the analyzer records in casescope.switchcase_index for the c-th case block
   (1-based); analyzer.lua writes the constant scraped into Gen.v *)
Definition recorded_case_pol (pol:bool) (c:nat) : nat := if pol then c else 1%nat.
Definition recorded_case (c:nat) : nat := recorded_case_pol gen_switchcase_index_is_loop_var c.

Definition fall_errs (ch:list fscope) (id:nat) (seen:bool) (last:bool) : errs :=
  match ch with
  | {| fcase := Some (c, n, els) |} :: _ =>
    (if (Nat.ltb c n) || els then [] else [(id, KFall)]) ++      (* must be followed by another switch block *)
    (if seen then [(id, KFall)] else []) ++                       (* at most once per case block *)
    (if negb seen && negb last then [(id, KFall)] else [])        (* must be the very last statement *)
  | _ => [(id, KFall)]                                            (* not inside a switch case block *)
  end.

Fixpoint aflow_stmt (ch:list fscope) (id:nat) (s:stmt) {struct s} : errs :=
  match s with
  | Break => if break_ok ch then [] else [(id, KBreak)]
  | Continue => if break_ok ch then [] else [(id, KContinue)]
  | Fallthrough => [(id, KFall)]       (* never reached: blocks handle fallthrough themselves *)
  | Func _ _ b | FuncAssign _ b => aflow_block (plain_scope :: func_scope :: ch) false b
  | Do b => aflow_block (plain_scope :: ch) false b
  | If t e => aflow_block (plain_scope :: ch) false t ++ aflow_block (plain_scope :: ch) false e
  | While b | Repeat b | For b => aflow_block (plain_scope :: loop_scope :: ch) false b
  | Switch cs els d =>
    aflow_cases (plain_scope :: ch) (ncases cs) els 1%nat cs ++
    aflow_block (plain_scope :: plain_scope :: ch) false d      (* d = BNil when there is no else *)
  | Defer b => aflow_block (defer_scope :: ch) false b
  | _ => []
  end
with aflow_block (ch:list fscope) (seen:bool) (b:block) {struct b} : errs :=
  match b with
  | BNil => []
  | BCons id s rest =>
    match s with
    | Fallthrough => fall_errs ch id seen (is_bnil rest) ++ aflow_block ch true rest
    | _ => aflow_stmt ch id s ++ aflow_block ch seen rest
    end
  end
with aflow_cases (ch:list fscope) (n:nat) (els:bool) (c:nat) (cs:cases) {struct cs} : errs :=
  match cs with
  | CNil => []
  | CCons _ _ b rest =>
    aflow_block (mkf false false false (Some (recorded_case c, n, els)) :: ch) false b ++
    aflow_cases ch n els (S c) rest
  end.

(* ================================================================== B. names: const, undeclared, upvalue, arity *)
Record sym := mksym { sq : qual; sar : option nat (* Some arity: a function *); sfd : nat }.
(* sfd identifies the function scope enclosing the declaration: scopes nest along a path, so the
   number of function scopes from the root identifies get_up_function_scope() *)

Definition env := list (nat * sym).

Fixpoint lookup (x:nat) (e:env) : option sym :=
  match e with
  | [] => None
  | (y, s) :: r => if Nat.eqb x y then Some s else lookup x r
  end.

(* ---- rule, stated on its own terms (no symbol records, no depth counters): every declaration in scope is
        either a function of some arity or a variable with its qualifier and its OWNER, the path of names of
        the functions enclosing the declaration (innermost first).
        - a variable may be read where its owner is the current function path, or anywhere when it is comptime;
        - it may be assigned only if it is a plain variable owned by the current function;
        - functions may be called from anywhere, with at most as many arguments as parameters. *)
Inductive decl := DVar (q:qual) (owner:list nat) | DFun (arity:nat).
Definition renv := list (nat * decl).

Fixpoint rlookup (x:nat) (e:renv) : option decl :=
  match e with
  | [] => None
  | (y, d) :: r => if Nat.eqb x y then Some d else rlookup x r
  end.

Fixpoint path_eqb (a b:list nat) : bool :=
  match a, b with
  | [], [] => true
  | x :: r, y :: r' => Nat.eqb x y && path_eqb r r'
  | _, _ => false
  end.

Definition use_ok (fp:list nat) (d:decl) : bool :=
  match d with
  | DFun _ => true
  | DVar QComptime _ => true
  | DVar _ o => path_eqb o fp
  end.

Definition assign_ok (fp:list nat) (d:decl) : bool :=
  match d with
  | DVar QVar o => path_eqb o fp
  | _ => false
  end.

(* `function x() ... end` over an existing name: assigns to a plain variable of the same function, or defines /
   redefines a declared function (the compiler's design: the redefined function is promoted to a variable).
   DFun carries no owner: a redefinition reached from a NESTED function is outside the region the streams
   generate and is judged by the rule table only (see UNPROVED in checks/C05.py) *)
Definition funcassign_ok (fp:list nat) (d:decl) : bool :=
  match d with
  | DFun _ => true
  | _ => assign_ok fp d
  end.

Definition call_ok (n:nat) (d:decl) : bool :=
  match d with DFun a => Nat.leb n a | DVar _ _ => false end.

Definition rparams (fp:list nat) (ps:list nat) (e:renv) : renv :=
  fold_left (fun acc p => (p, DVar QVar fp) :: acc) ps e.

Fixpoint rname_stmt (fp:list nat) (e:renv) (s:stmt) {struct s} : bool :=
  match s with
  | Assign x | AssignF x => match rlookup x e with Some d => assign_ok fp d | None => false end
  | Use x | UseF x => match rlookup x e with Some d => use_ok fp d | None => false end
  | Call f n => match rlookup f e with Some d => call_ok n d | None => false end
  | Func f ps b => rname_block (f :: fp) (rparams (f :: fp) ps ((f, DFun (length ps)) :: e)) b
  | FuncAssign x b =>        (* an assignment to x; the body is a new function *)
    match rlookup x e with Some d => funcassign_ok fp d | None => false end && rname_block (x :: fp) e b
  | Do b | While b | Repeat b | For b | Defer b => rname_block fp e b
  | If t el => rname_block fp e t && rname_block fp e el
  | Switch cs _ d => rname_cases fp e cs && rname_block fp e d
  | _ => true
  end
with rname_block (fp:list nat) (e:renv) (b:block) {struct b} : bool :=
  match b with
  | BNil => true
  | BCons _ s rest =>
    rname_stmt fp e s &&
    match s with
    | Local x q => rname_block fp ((x, DVar q fp) :: e) rest
    | Func f ps _ => rname_block fp ((f, DFun (length ps)) :: e) rest
    | _ => rname_block fp e rest
    end
  end
with rname_cases (fp:list nat) (e:renv) (cs:cases) {struct cs} : bool :=
  match cs with
  | CNil => true
  | CCons _ _ b rest => rname_block fp e b && rname_cases fp e rest
  end.

(* analyzer: scope chain, each scope with its own symbol table and is_function flag *)
Record nscope := mkn { nfun : bool; nsyms : list (nat * sym) }.

Fixpoint chain_lookup (x:nat) (ch:list nscope) : option sym :=
  match ch with
  | [] => None
  | s :: r => match lookup x (nsyms s) with Some y => Some y | None => chain_lookup x r end
  end.

(* identity of scope:get_up_function_scope() along the chain *)
Definition up_fun_id (ch:list nscope) : nat := length (filter nfun ch).

Definition declare (x:nat) (y:sym) (ch:list nscope) : list nscope :=
  match ch with
  | [] => []
  | s :: r => mkn (nfun s) ((x, y) :: nsyms s) :: r
  end.

(* Symbol:is_directly_accesible_from_scope *)
Definition accessible (ch:list nscope) (y:sym) : bool :=
  match sar y, sq y with
  | Some _, _ => true
  | None, QComptime => true
  | None, _ => Nat.eqb (sfd y) (up_fun_id ch)
  end.

Definition id_errs (ch:list nscope) (id x:nat) : errs * option sym :=
  match chain_lookup x ch with
  | None => ([(id, KUndeclared)], None)
  | Some y => (if accessible ch y then [] else [(id, KUpvalue)], Some y)
  end.

(* visitors.Id with attr.forcesymbol (Id nodes built by aster.value for a Symbol interpolated by the
   preprocessor): no name lookup - the interpolation already produced the symbol, or nil for an unknown
   name - then the SAME accessibility check, which stands after the lookup branch (scraped) *)
Definition forced_errs_pol (pol:bool) (ch:list nscope) (id x:nat) : errs * option sym :=
  match chain_lookup x ch with
  | None => ([(id, KUndeclared)], None)
  | Some y => (if pol then (if accessible ch y then [] else [(id, KUpvalue)]) else [], Some y)
  end.
Definition forced_errs := forced_errs_pol gen_upvalue_check_covers_forced_symbols.

Definition const_errs (id:nat) (oy:option sym) : errs :=
  match oy with
  | Some y => match sar y, sq y with None, QVar => [] | _, _ => [(id, KConstAssign)] end
  | None => []
  end.

(* visitors.FuncDef without local/global over an existing name (1fc2b5c): a const / comptime VARIABLE is refused;
   a declared or forward declared FUNCTION symbol (varsym.funcdeclared / varsym.forwarddecl) is exempt - the
   function is defined, or redefined ("promoted to variable"), by design *)
Definition funcdef_errs_pol (pol:bool) (id:nat) (oy:option sym) : errs :=
  match oy with
  | Some y => match sar y with
              | Some _ => []
              | None => if pol then const_errs id oy else []
              end
  | None => []
  end.
Definition funcdef_errs := funcdef_errs_pol gen_funcdef_checks_const.

Fixpoint aname_stmt (ch:list nscope) (id:nat) (s:stmt) {struct s} : errs :=
  match s with
  | AssignF x => let (e1, oy) := forced_errs ch id x in e1 ++ const_errs id oy
  | UseF x => fst (forced_errs ch id x)
  | Assign x =>
    let (e1, oy) := id_errs ch id x in
    e1 ++ match oy with
          | Some y => match sar y, sq y with None, QVar => [] | _, _ => [(id, KConstAssign)] end
          | None => []
          end
  | Use x => fst (id_errs ch id x)
  | Call f n =>
    match chain_lookup f ch with
    | None => [(id, KUndeclared)]
    | Some y => match sar y with
                | Some a => if Nat.leb n a then [] else [(id, KArity)]
                | None => [(id, KNotCallable)]
                end
    end
  | FuncAssign x b =>
    (* visitor_FuncDef_variable traverses the name (visitors.Id), then visitors.FuncDef refuses a const /
       comptime variable (1fc2b5c, scraped), then the body is analysed in a new function scope *)
    let (e1, oy) := id_errs ch id x in
    e1 ++ funcdef_errs id oy ++
    aname_block (mkn false [] :: mkn true [] :: ch) b
  | Func f ps b =>
    let ch1 := declare f (mksym QVar (Some (length ps)) (up_fun_id ch)) ch in
    let fs := mkn true [] in
    let fid := up_fun_id (fs :: ch1) in
    aname_block (mkn false [] :: mkn true (fold_left (fun acc p => (p, mksym QVar None fid) :: acc) ps []) :: ch1) b
  | Do b | Defer b => aname_block (mkn false [] :: ch) b
  | While b | Repeat b | For b => aname_block (mkn false [] :: mkn false [] :: ch) b
  | If t el => aname_block (mkn false [] :: ch) t ++ aname_block (mkn false [] :: ch) el
  | Switch cs _ d => aname_cases (mkn false [] :: ch) cs ++ aname_block (mkn false [] :: mkn false [] :: ch) d
  | _ => []
  end
with aname_block (ch:list nscope) (b:block) {struct b} : errs :=
  match b with
  | BNil => []
  | BCons id s rest =>
    aname_stmt ch id s ++
    match s with
    | Local x q => aname_block (declare x (mksym q None (up_fun_id ch)) ch) rest
    | Func f ps _ => aname_block (declare f (mksym QVar (Some (length ps)) (up_fun_id ch)) ch) rest
    | _ => aname_block ch rest
    end
  end
with aname_cases (ch:list nscope) (cs:cases) {struct cs} : errs :=
  match cs with
  | CNil => []
  | CCons _ _ b rest => aname_block (mkn false [] :: ch) b ++ aname_cases ch rest
  end.

(* ================================================================== C. labels, goto, defer *)
Inductive marker := MLabel (l:nat) | MDefer.

Fixpoint has_label (l:nat) (ms:list marker) : bool :=
  match ms with
  | [] => false
  | MLabel k :: r => Nat.eqb l k || has_label l r
  | MDefer :: r => has_label l r
  end.

Fixpoint has_mdefer (ms:list marker) : bool :=
  match ms with [] => false | MDefer :: _ => true | _ :: r => has_mdefer r end.

(* markers of the statements directly in a block, in order *)
Fixpoint markers (b:block) : list marker :=
  match b with
  | BNil => []
  | BCons _ (Label l) r => MLabel l :: markers r
  | BCons _ (Defer _) r => MDefer :: markers r
  | BCons _ _ r => markers r
  end.

(* a defer strictly before the first occurrence of label l (scanning away from the goto) *)
Fixpoint defer_before_label (l:nat) (ms:list marker) : bool :=
  match ms with
  | [] => false
  | MLabel k :: r => if Nat.eqb l k then false else defer_before_label l r
  | MDefer :: _ => true
  end.

(* one enclosing block of the current statement (within the current function):
   [seen] markers of the statements before it (nearest first), [rest] markers of those after it,
   [isdefer] the block is the body of a defer *)
Record lframe := mkl { seen : list marker; rest : list marker; isdefer : bool }.

(* ---- rule.  The goto binds to label l of the nearest enclosing block that already declared it,
        else of the nearest enclosing block that declares it later.  Leaving a block in which a defer
        has already been executed, or jumping over a defer of the target block (forwards: it would
        run although never registered; backwards: registered twice), is forbidden. *)
Fixpoint rgoto_back (l:nat) (fs:list lframe) : option bool :=
  match fs with
  | [] => None
  | f :: r =>
    if has_label l (seen f) then Some (negb (defer_before_label l (seen f)))
    else match rgoto_back l r with
         | Some ok => Some (ok && negb (has_mdefer (seen f)))
         | None => None
         end
  end.

Fixpoint rgoto_fwd (l:nat) (fs:list lframe) : option bool :=
  match fs with
  | [] => None
  | f :: r =>
    if has_label l (rest f) then Some (negb (defer_before_label l (rest f)))
    else match rgoto_fwd l r with
         | Some ok => Some (ok && negb (has_mdefer (seen f)))
         | None => None
         end
  end.

Definition rgoto (l:nat) (fs:list lframe) : bool :=
  match rgoto_back l fs with
  | Some ok => ok
  | None => match rgoto_fwd l fs with Some ok => ok | None => false end
  end.

(* a label may not repeat a label already declared in an enclosing block of the same function *)
Definition rlabel (l:nat) (fs:list lframe) : bool := negb (existsb (fun f => has_label l (seen f)) fs).

Fixpoint rlab_stmt (fs:list lframe) (s:stmt) {struct s} : bool :=
  match s with
  | Label l => rlabel l fs
  | Goto l => rgoto l fs
  | Func _ _ b | FuncAssign _ b => rlab_block [] [] false b
  | Do b | While b | Repeat b | For b => rlab_block fs [] false b
  | If t e => rlab_block fs [] false t && rlab_block fs [] false e
  | Switch cs _ d => rlab_cases fs cs && rlab_block fs [] false d
  | Defer b => rlab_block fs [] true b
  | _ => true
  end
with rlab_block (fs:list lframe) (sn:list marker) (isd:bool) (b:block) {struct b} : bool :=
  match b with
  | BNil => true
  | BCons _ s r =>
    rlab_stmt (mkl sn (markers r) isd :: fs) s &&
    rlab_block fs (match s with Label l => MLabel l :: sn | Defer _ => MDefer :: sn | _ => sn end) isd r
  end
with rlab_cases (fs:list lframe) (cs:cases) {struct cs} : bool :=
  match cs with
  | CNil => true
  | CCons _ _ b r => rlab_block fs [] false b && rlab_cases fs r
  end.

(* ---- analyzer.  Pass 1 sees the labels and has_defer flags set so far; a goto whose label is not
        found delays the resolution of the function and is checked again in pass 2, when every
        label of the function is known and all has_defer flags of pass 1 are still set. *)
Definition hd_sofar (f:lframe) : bool := has_mdefer (seen f).
(* blocknode.scope.has_defer is set after the deferred block was traversed *)
Definition hd_final (f:lframe) : bool := has_mdefer (seen f) || has_mdefer (rest f) || isdefer f.
Definition lbl_final (l:nat) (f:lframe) : bool := has_label l (seen f) || has_label l (rest f).

(* Scope:find_label + the has_defer walk of visitors.Goto *)
Fixpoint find_and_check (has:lframe -> bool) (hd:lframe -> bool) (fs:list lframe) : option bool :=
  match fs with
  | [] => None
  | f :: r =>
    if has f then Some (negb (hd f))
    else match find_and_check has hd r with
         | Some ok => Some (ok && negb (hd f))
         | None => None
         end
  end.

Definition agoto_mix (id l:nat) (fs:list lframe) : errs :=
  match find_and_check (fun f => has_label l (seen f)) hd_sofar fs with
  | Some true => []
  | Some false => [(id, KGotoDefer)]
  | None =>
    match find_and_check (lbl_final l) hd_final fs with
    | Some true => []
    | Some false => [(id, KGotoDefer)]
    | None => [(id, KGotoNoLabel)]
    end
  end.

(* the is_deferblock test of the same walk (330205b): a scope strictly inside the label's scope is a defer block *)
Fixpoint walk_meets_deferblock (has:lframe -> bool) (fs:list lframe) : option bool :=
  match fs with
  | [] => None
  | f :: r =>
    if has f then Some false
    else match walk_meets_deferblock has r with Some b => Some (b || isdefer f) | None => None end
  end.

Definition goto_out_of_deferblock (l:nat) (fs:list lframe) : bool :=
  match walk_meets_deferblock (fun f => has_label l (seen f)) fs with
  | Some b => b
  | None => match walk_meets_deferblock (lbl_final l) fs with Some b => b | None => false end
  end.

Definition agoto_pol (pol:bool) (id l:nat) (fs:list lframe) : errs :=
  agoto_mix id l fs ++
  (if pol && goto_out_of_deferblock l fs then [(id, KGotoDefer)] else []).
Definition agoto := agoto_pol gen_goto_checks_defer_block.

(* Scope:find_label: walk the enclosing chain (up to the function scope), first scope that has the label *)
Fixpoint find_label (l:nat) (fs:list lframe) : option lframe :=
  match fs with
  | [] => None
  | f :: r => if has_label l (seen f) then Some f else find_label l r
  end.

Definition alabel (id l:nat) (fs:list lframe) : errs :=
  match find_label l fs with Some _ => [(id, KLabelDup)] | None => [] end.

Fixpoint alab_stmt (fs:list lframe) (id:nat) (s:stmt) {struct s} : errs :=
  match s with
  | Label l => alabel id l fs
  | Goto l => agoto id l fs
  | Func _ _ b | FuncAssign _ b => alab_block [] [] false b
  | Do b | While b | Repeat b | For b => alab_block fs [] false b
  | If t e => alab_block fs [] false t ++ alab_block fs [] false e
  | Switch cs _ d => alab_cases fs cs ++ alab_block fs [] false d
  | Defer b => alab_block fs [] true b
  | _ => []
  end
with alab_block (fs:list lframe) (sn:list marker) (isd:bool) (b:block) {struct b} : errs :=
  match b with
  | BNil => []
  | BCons id s r =>
    alab_stmt (mkl sn (markers r) isd :: fs) id s ++
    alab_block fs (match s with Label l => MLabel l :: sn | Defer _ => MDefer :: sn | _ => sn end) isd r
  end
with alab_cases (fs:list lframe) (cs:cases) {struct cs} : errs :=
  match cs with
  | CNil => []
  | CCons _ _ b r => alab_block fs [] false b ++ alab_cases fs r
  end.

(* ---- the rules at full strength (what the property says), beyond [rlab_*]:
   (1) a label is not repeated ANYWHERE in one function (DESIGN: "labels unique per function"), whereas
       [rlabel] - Lua 5.4's rule and the analyzer's - only forbids repeating a label that is visible
       (declared earlier in an enclosing block);
   (2) a goto never leaves a defer block (the binding rule is the one of [rgoto]) - 3b70c42 made this an
       error for return/break/continue/in, goto is the remaining exit kind *)
Fixpoint flabels_stmt (s:stmt) {struct s} : list nat :=
  match s with
  | Label l => [l]
  | Func _ _ _ | FuncAssign _ _ => []                    (* another function *)
  | Do b | While b | Repeat b | For b | Defer b => flabels_block b
  | If t e => flabels_block t ++ flabels_block e
  | Switch cs _ d => flabels_cases cs ++ flabels_block d
  | _ => []
  end
with flabels_block (b:block) {struct b} : list nat :=
  match b with BNil => [] | BCons _ s r => flabels_stmt s ++ flabels_block r end
with flabels_cases (cs:cases) {struct cs} : list nat :=
  match cs with CNil => [] | CCons _ _ b r => flabels_block b ++ flabels_cases r end.

Fixpoint nodupn (l:list nat) : bool :=
  match l with [] => true | x :: r => negb (existsb (Nat.eqb x) r) && nodupn r end.

Fixpoint runiq_stmt (s:stmt) {struct s} : bool :=
  match s with
  | Func _ _ b | FuncAssign _ b => nodupn (flabels_block b) && runiq_block b
  | Do b | While b | Repeat b | For b | Defer b => runiq_block b
  | If t e => runiq_block t && runiq_block e
  | Switch cs _ d => runiq_cases cs && runiq_block d
  | _ => true
  end
with runiq_block (b:block) {struct b} : bool :=
  match b with BNil => true | BCons _ s r => runiq_stmt s && runiq_block r end
with runiq_cases (cs:cases) {struct cs} : bool :=
  match cs with CNil => true | CCons _ _ b r => runiq_block b && runiq_cases r end.

(* the frames strictly inside the frame the goto binds to (same binding rule as rgoto): none is a defer body *)
Fixpoint leaves_defer_back (l:nat) (fs:list lframe) : option bool :=
  match fs with
  | [] => None
  | f :: r =>
    if has_label l (seen f) then Some false
    else match leaves_defer_back l r with Some b => Some (b || isdefer f) | None => None end
  end.

Fixpoint leaves_defer_fwd (l:nat) (fs:list lframe) : option bool :=
  match fs with
  | [] => None
  | f :: r =>
    if has_label l (rest f) then Some false
    else match leaves_defer_fwd l r with Some b => Some (b || isdefer f) | None => None end
  end.

Definition goto_leaves_defer (l:nat) (fs:list lframe) : bool :=
  match leaves_defer_back l fs with
  | Some b => b
  | None => match leaves_defer_fwd l fs with Some b => b | None => false end
  end.

Fixpoint rgd_stmt (fs:list lframe) (s:stmt) {struct s} : bool :=
  match s with
  | Goto l => negb (goto_leaves_defer l fs)
  | Func _ _ b | FuncAssign _ b => rgd_block [] [] false b
  | Do b | While b | Repeat b | For b => rgd_block fs [] false b
  | If t e => rgd_block fs [] false t && rgd_block fs [] false e
  | Switch cs _ d => rgd_cases fs cs && rgd_block fs [] false d
  | Defer b => rgd_block fs [] true b
  | _ => true
  end
with rgd_block (fs:list lframe) (sn:list marker) (isd:bool) (b:block) {struct b} : bool :=
  match b with
  | BNil => true
  | BCons _ s r =>
    rgd_stmt (mkl sn (markers r) isd :: fs) s &&
    rgd_block fs (match s with Label l => MLabel l :: sn | Defer _ => MDefer :: sn | _ => sn end) isd r
  end
with rgd_cases (fs:list lframe) (cs:cases) {struct cs} : bool :=
  match cs with
  | CNil => true
  | CCons _ _ b r => rgd_block fs [] false b && rgd_cases fs r
  end.

(* ================================================================== D. constants *)
Definition type_info (t:nat) : option (Z * bool) := nth_error gen_int_types t.   (* (bits, signed) *)

(* rule: the value is representable in the type / the index addresses an element *)
Definition fits (bits:Z) (signed:bool) (v:Z) : bool :=
  if signed then (- 2 ^ (bits - 1) <=? v) && (v <? 2 ^ (bits - 1)) else (0 <=? v) && (v <? 2 ^ bits).

Definition index_ok (len k:Z) : bool := (0 <=? k) && ((len =? 0) || (k <? len)).

(* analyzer: IntegralType min / max as types.lua computes them, is_inrange; visitor_Array_KeyIndex *)
Definition ty_min (bits:Z) (signed:bool) : Z := if signed then (- Z.shiftl 1 bits) / 2 else 0.
Definition ty_max (bits:Z) (signed:bool) : Z := if signed then Z.shiftl 1 bits / 2 - 1 else Z.shiftl 1 bits - 1.
Definition is_inrange (bits:Z) (signed:bool) (v:Z) : bool := (ty_min bits signed <=? v) && (v <=? ty_max bits signed).

Fixpoint rconst_stmt (s:stmt) {struct s} : bool :=
  match s with
  | ConstIndex len k => index_ok len k
  | ConstConv t v _ => match type_info t with Some (b, sg) => fits b sg v | None => false end
  | ConstFrac _ => false               (* a fractional value is representable in no integral type *)
  | Func _ _ b | FuncAssign _ b | Do b | While b | Repeat b | For b | Defer b => rconst_block b
  | If t e => rconst_block t && rconst_block e
  | Switch cs _ d => rconst_cases cs && rconst_block d
  | _ => true
  end
with rconst_block (b:block) {struct b} : bool :=
  match b with BNil => true | BCons _ s r => rconst_stmt s && rconst_block r end
with rconst_cases (cs:cases) {struct cs} : bool :=
  match cs with CNil => true | CCons _ _ b r => rconst_block b && rconst_cases r end.

Definition conv_errs_pol (pol:bool) (id t:nat) (v:Z) (viaconcept:bool) : errs :=
  if viaconcept && negb pol then []
  else match type_info t with
       | Some (b, sg) => if is_inrange b sg v then [] else [(id, KRange)]
       | None => [(id, KRange)]
       end.

Fixpoint aconst_stmt (id:nat) (s:stmt) {struct s} : errs :=
  match s with
  | ConstIndex len k =>
    if k <? 0 then [(id, KIndex)]
    else if negb (len =? 0) && (len <=? k) then [(id, KIndex)] else []
  | ConstConv t v viaconcept =>
    (* visitor_Call converts an argument twice: against the declared parameter type (a concept only suggests
       a concrete type, by TYPE) and then against the suggested type - the value check of a constant happens
       only in that second conversion, which must be unconditional (scraped) *)
    conv_errs_pol gen_call_rechecks_suggested_type id t v viaconcept
  | ConstFrac _ => [(id, KRange)]
  | Func _ _ b | FuncAssign _ b | Do b | While b | Repeat b | For b | Defer b => aconst_block b
  | If t e => aconst_block t ++ aconst_block e
  | Switch cs _ d => aconst_cases cs ++ aconst_block d
  | _ => []
  end
with aconst_block (b:block) {struct b} : errs :=
  match b with BNil => [] | BCons id s r => aconst_stmt id s ++ aconst_block r end
with aconst_cases (cs:cases) {struct cs} : errs :=
  match cs with CNil => [] | CCons _ _ b r => aconst_block b ++ aconst_cases r end.

(* ================================================================== E. switch case values *)
Fixpoint case_values (cs:cases) : list nat :=
  match cs with CNil => [] | CCons _ v _ r => v :: case_values r end.

(* rule: the case values of one switch are pairwise different *)
Fixpoint nodupb (l:list nat) : bool :=
  match l with [] => true | x :: r => negb (existsb (Nat.eqb x) r) && nodupb r end.

Fixpoint rsw_stmt (s:stmt) {struct s} : bool :=
  match s with
  | Switch cs _ d => nodupb (case_values cs) && rsw_cases cs && rsw_block d
  | Func _ _ b | FuncAssign _ b | Do b | While b | Repeat b | For b | Defer b => rsw_block b
  | If t e => rsw_block t && rsw_block e
  | _ => true
  end
with rsw_block (b:block) {struct b} : bool :=
  match b with BNil => true | BCons _ s r => rsw_stmt s && rsw_block r end
with rsw_cases (cs:cases) {struct cs} : bool :=
  match cs with CNil => true | CCons _ _ b r => rsw_block b && rsw_cases r end.

(* analyzer (visitors.Switch): the table `casevalues` of the values seen so far in this switch *)
Fixpoint dup_errs (seen:list nat) (cs:cases) : errs :=
  match cs with
  | CNil => []
  | CCons cid v _ r => (if existsb (Nat.eqb v) seen then [(cid, KDupCase)] else []) ++ dup_errs (v :: seen) r
  end.

Fixpoint asw_stmt (s:stmt) {struct s} : errs :=
  match s with
  | Switch cs _ d => dup_errs [] cs ++ asw_cases cs ++ asw_block d
  | Func _ _ b | FuncAssign _ b | Do b | While b | Repeat b | For b | Defer b => asw_block b
  | If t e => asw_block t ++ asw_block e
  | _ => []
  end
with asw_block (b:block) {struct b} : errs :=
  match b with BNil => [] | BCons _ s r => asw_stmt s ++ asw_block r end
with asw_cases (cs:cases) {struct cs} : errs :=
  match cs with CNil => [] | CCons _ _ b r => asw_block b ++ asw_cases r end.

(* ================================================================== whole program = body of a function *)
Definition rule_flow (p:block) : bool := rflow_block false false p.
Definition rule_names (p:block) : bool := rname_block [] [] p.
Definition rule_labels (p:block) : bool := rlab_block [] [] false p.
Definition rule_consts (p:block) : bool := rconst_block p.
Definition rule_switch (p:block) : bool := rsw_block p.
Definition rule_labels_unique (p:block) : bool := nodupn (flabels_block p) && runiq_block p.
Definition rule_goto_stays_in_defer (p:block) : bool := rgd_block [] [] false p.
Definition rule_labels_full (p:block) : bool := rule_labels p && rule_labels_unique p && rule_goto_stays_in_defer p.

Definition rule_ok (p:block) : bool :=
  rule_flow p && rule_names p && rule_labels p && rule_goto_stays_in_defer p && rule_consts p && rule_switch p.

Definition off_flow (p:block) : errs := aflow_block [plain_scope; func_scope] false p.
Definition off_names (p:block) : errs := aname_block [mkn false []; mkn true []] p.
Definition off_labels (p:block) : errs := alab_block [] [] false p.
Definition off_consts (p:block) : errs := aconst_block p.
Definition rule_ok_full (p:block) : bool :=
  rule_flow p && rule_names p && rule_labels_full p && rule_consts p && rule_switch p.
Definition off_switch (p:block) : errs := asw_block p.
Definition offenders (p:block) : errs := off_flow p ++ off_names p ++ off_labels p ++ off_consts p ++ off_switch p.

Definition analyzer_ok (p:block) : bool := match offenders p with [] => true | _ => false end.

(* the property at full strength (labels unique per function): refuted, see Properties.v *)
Definition analyzer_sound_full : Prop := forall p, analyzer_ok p = true -> rule_ok_full p = true.
