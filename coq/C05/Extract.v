From Coq Require Import ZArith NArith.
From C05 Require Import Model.
Require Extraction.
Require Import ExtrOcamlBasic.
Extraction "model.ml" offenders analyzer_ok rule_ok rule_flow rule_names rule_labels rule_consts rule_switch off_switch rule_ok_full rule_labels_unique rule_goto_stays_in_defer
  off_flow off_names off_labels off_consts Z.of_nat N.of_nat.
