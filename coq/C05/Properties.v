(* Property C05: programs that break a static rule are rejected at compile time.
   Only the property theorems, each closed by [exact] of a lemma of Proofs.v.
   [rule_ok] is the declarative statement of the rules, [analyzer_ok p] = the model of the analyzer's
   devices raises nowhere in p.  Programs are of arbitrary size and nesting depth. *)
From Coq Require Import List ZArith.
From C05 Require Import Gen Model Proofs.
Import ListNotations.
Local Open Scope Z_scope.

(* FULL STRENGTH ([rule_ok_full] demands labels unique per function) is FALSE for the unchanged analyzer:
   `do ::l:: end ::l::` is accepted (Lua 5.4's label rule) *)
Theorem C05_analyzer_sound_refuted : ~ analyzer_sound_full.
Proof. exact analyzer_sound_refuted. Qed.
Print Assumptions C05_analyzer_sound_refuted.

(* the strongest true restriction: every rule, with `no label repeats a VISIBLE label` (Lua 5.4's rule) in place
   of `unique per function`; gotos: no goto crosses an executed / skipped defer nor leaves a defer block *)
Theorem C05_analyzer_sound_partial : forall p, analyzer_ok p = true -> rule_ok p = true.
Proof. exact analyzer_sound_partial. Qed.
Print Assumptions C05_analyzer_sound_partial.

(* `do ::l:: end ::l::` : a label repeated in one function is accepted when the first one is not visible *)
Theorem C05_labels_unique_per_function_refuted : ~ (forall p, off_labels p = [] -> rule_labels_unique p = true).
Proof. exact labels_unique_refuted. Qed.
Print Assumptions C05_labels_unique_per_function_refuted.

Theorem C05_flow_sound : forall p, off_flow p = [] -> rule_flow p = true.
Proof. exact flow_sound_thm. Qed.
Print Assumptions C05_flow_sound.

(* per rule family, unconditional *)
Theorem C05_names_sound : forall p, off_names p = [] -> rule_names p = true.
Proof. exact names_sound_thm. Qed.
Print Assumptions C05_names_sound.

(* goto / defer at full strength; labels: the visible-label rule *)
Theorem C05_labels_goto_defer_sound : forall p, off_labels p = [] -> rule_labels p = true /\ rule_goto_stays_in_defer p = true.
Proof. exact labels_sound_thm. Qed.
Print Assumptions C05_labels_goto_defer_sound.

Theorem C05_switch_case_values_sound : forall p, off_switch p = [] -> rule_switch p = true.
Proof. exact switch_sound_thm. Qed.
Print Assumptions C05_switch_case_values_sound.

Theorem C05_consts_sound : forall p, off_consts p = [] -> rule_consts p = true.
Proof. exact consts_sound_thm. Qed.
Print Assumptions C05_consts_sound.

(* completeness of the control-flow checks: a rule-abiding placement of break/continue/fallthrough is never rejected *)
Theorem C05_analyzer_complete_flow : forall p, rule_flow p = true -> off_flow p = [].
Proof. exact flow_complete_thm. Qed.
Print Assumptions C05_analyzer_complete_flow.

(* IntegralType:is_inrange (min/max as types.lua computes them) is exactly representability *)
Theorem C05_inrange_is_representability : forall bits sg v, 0 < bits -> is_inrange bits sg v = fits bits sg v.
Proof. exact inrange_fits. Qed.
Print Assumptions C05_inrange_is_representability.

(* completeness of the name checks (declared / upvalue / const assignment / arity): rule-abiding uses are never rejected *)
Theorem C05_analyzer_complete_names : forall p, rule_names p = true -> off_names p = [].
Proof. exact names_complete_thm. Qed.
Print Assumptions C05_analyzer_complete_names.

(* the six scraped checks are needed: with a check switched off the pinned decision function lets through a concrete
   input that it refuses with the check on (and that the rule refuses) *)
Theorem C05_scraped_checks_needed : checks_needed.
Proof. exact checks_needed_thm. Qed.
Print Assumptions C05_scraped_checks_needed.
