(* C05 driver.  One program per line (whitespace separated tokens):
     block := "(" (id stmt)* ")"
     stmt  := L x q | A x | U x | AF x | UF x | F f np p1..pnp block | FA x block | C f n | O block | I block block | W block | P block
            | R block | S els "[" (line value block)* "]" block | B | N | T | J l | G l | D block | X len k | V t v viaconcept | VF t
   (q: 0 var 1 const 2 comptime; len,k,v: signed hex).
   Output: <offenders id:kind ...> TAB <rule_ok flow names labels consts as 0/1> *)
open Model
open Zutil

exception Parse of string

let parse (toks : string array) : block =
  let pos = ref 0 in
  let peek () = if !pos < Array.length toks then toks.(!pos) else raise (Parse "eof") in
  let next () = let t = peek () in incr pos; t in
  let num () = nat_of_int (int_of_string (next ())) in
  let rec block () : block =
    (match next () with "(" -> () | t -> raise (Parse ("expected ( got " ^ t)));
    let rec stmts () : block =
      if peek () = ")" then (incr pos; BNil)
      else let id = num () in let s = stmt () in let r = stmts () in BCons (id, s, r)
    in
    stmts ()
  and stmt () : stmt =
    match next () with
    | "L" -> let x = num () in
      let q = (match next () with "0" -> QVar | "1" -> QConst | _ -> QComptime) in Local (x, q)
    | "A" -> Assign (num ())
    | "U" -> Use (num ())
    | "AF" -> AssignF (num ())
    | "UF" -> UseF (num ())
    | "F" -> let f = num () in let np = int_of_string (next ()) in
      let rec ps i = if i = 0 then [] else let p = num () in p :: ps (i - 1) in
      let p = ps np in let b = block () in Func (f, p, b)
    | "FA" -> let x = num () in let b = block () in FuncAssign (x, b)
    | "C" -> let f = num () in let n = num () in Call (f, n)
    | "O" -> Do (block ())
    | "I" -> let t = block () in let e = block () in If (t, e)
    | "W" -> While (block ())
    | "P" -> Repeat (block ())
    | "R" -> For (block ())
    | "S" -> let els = next () = "1" in
      (match next () with "[" -> () | t -> raise (Parse ("expected [ got " ^ t)));
      let rec cs () : cases = if peek () = "]" then (incr pos; CNil) else let cid = num () in let v = num () in let b = block () in let r = cs () in CCons (cid, v, b, r) in
      let c = cs () in let d = block () in Switch (c, els, d)
    | "B" -> Break
    | "N" -> Continue
    | "T" -> Fallthrough
    | "J" -> Label (num ())
    | "G" -> Goto (num ())
    | "D" -> Defer (block ())
    | "X" -> let l = z_of_hex (next ()) in let k = z_of_hex (next ()) in ConstIndex (l, k)
    | "V" -> let t = num () in let v = z_of_hex (next ()) in let vc = next () = "1" in ConstConv (t, v, vc)
    | "VF" -> ConstFrac (num ())
    | t -> raise (Parse ("bad statement token " ^ t))
  in
  block ()

let kind_str = function
  | KBreak -> "break" | KContinue -> "continue" | KFall -> "fallthrough" | KLabelDup -> "labeldup"
  | KGotoNoLabel -> "gotonolabel" | KGotoDefer -> "gotodefer" | KUndeclared -> "undeclared"
  | KUpvalue -> "upvalue" | KConstAssign -> "constassign" | KArity -> "arity" | KNotCallable -> "notcallable"
  | KRange -> "range" | KIndex -> "index" | KDupCase -> "dupcase"

let b2s b = if b then "1" else "0"

let () =
  iter_lines (fun line ->
    if String.length line > 0 && line.[0] <> '#' then begin
      let out =
        try
          let p = parse (Array.of_list (split_ws line)) in
          let offs = offenders p in
          String.concat " " (List.map (fun (id, k) -> string_of_int (int_of_nat id) ^ ":" ^ kind_str k) offs)
          ^ "\t" ^ String.concat " " (List.map b2s [rule_ok p; rule_flow p; rule_names p; rule_labels p; rule_consts p; rule_switch p; rule_ok_full p; rule_labels_unique p; rule_goto_stays_in_defer p])
        with
        | Parse m -> "!parse " ^ m
        | e -> "!exn " ^ Printexc.to_string e
      in
      print_string out; print_newline ()
    end)
