(* C05 proofs. *)
From Coq Require Import List Bool Arith ZArith Lia.
From C05 Require Import Gen Model.
Import ListNotations.
Local Open Scope list_scope.

Scheme stmt_mind := Induction for stmt Sort Prop
  with block_mind := Induction for block Sort Prop
  with cases_mind := Induction for cases Sort Prop.
Combined Scheme sbc_mutind from stmt_mind, block_mind, cases_mind.

Lemma app_nil_inv : forall (A:Type) (a b:list A), a ++ b = [] -> a = [] /\ b = [].
Proof. intros A a b H. destruct a; [auto | discriminate]. Qed.

(* ================================================================== D. constants *)
Local Open Scope Z_scope.
Lemma gen_types_positive : forallb (fun p => 0 <? fst p) gen_int_types = true.
Proof. vm_compute. reflexivity. Qed.

Lemma type_info_pos : forall t b sg, type_info t = Some (b, sg) -> 0 < b.
Proof.
  intros t b sg H. unfold type_info in H. apply nth_error_In in H.
  pose proof (proj1 (forallb_forall _ _) gen_types_positive _ H) as Hp. simpl in Hp. lia.
Qed.

Lemma inrange_fits : forall bits sg v, 0 < bits -> is_inrange bits sg v = fits bits sg v.
Proof.
  intros bits sg v Hb. unfold is_inrange, fits, ty_min, ty_max.
  rewrite !Z.shiftl_1_l.
  assert (H2 : 2 ^ bits = 2 * 2 ^ (bits - 1)).
  { replace bits with (Z.succ (bits - 1)) at 1 by lia. rewrite Z.pow_succ_r by lia. reflexivity. }
  destruct sg.
  - replace (- 2 ^ bits) with ((- 2 ^ (bits - 1)) * 2) by lia.
    rewrite Z.div_mul by lia.
    replace (2 ^ bits / 2) with (2 ^ (bits - 1)).
    2:{ rewrite H2. rewrite Z.mul_comm. rewrite Z.div_mul by lia. reflexivity. }
    destruct (- 2 ^ (bits - 1) <=? v); simpl; [|reflexivity].
    destruct (v <=? 2 ^ (bits - 1) - 1) eqn:E1, (v <? 2 ^ (bits - 1)) eqn:E2; try reflexivity; lia.
  - destruct (0 <=? v); simpl; [|reflexivity].
    destruct (v <=? 2 ^ bits - 1) eqn:E1, (v <? 2 ^ bits) eqn:E2; try reflexivity; lia.
Qed.

(* (T) visitor_Call converts the argument against the type suggested by a concept unconditionally *)
Lemma gen_call_rechecked : gen_call_rechecks_suggested_type = true.
Proof. reflexivity. Qed.

Lemma consts_sound :
  (forall s, forall id, aconst_stmt id s = [] -> rconst_stmt s = true) /\
  (forall b, aconst_block b = [] -> rconst_block b = true) /\
  (forall cs, aconst_cases cs = [] -> rconst_cases cs = true).
Proof.
  apply sbc_mutind; try (intros; reflexivity); try (intros; simpl in *; auto; fail).
  - (* If *) intros t IHt e IHe id H. simpl in *. apply app_nil_inv in H as [H1 H2]. rewrite IHt, IHe; auto.
  - (* Switch *) intros cs IHc els d IHd id H. simpl in *. apply app_nil_inv in H as [H1 H2]. rewrite IHc, IHd; auto.
  - (* ConstIndex *) intros len k id H. simpl in *. unfold index_ok.
    destruct (k <? 0) eqn:E1; [discriminate|].
    destruct (len =? 0) eqn:E2; simpl in *.
    + apply andb_true_iff. split; [lia | reflexivity].
    + destruct (len <=? k) eqn:E3; [discriminate|].
      apply andb_true_iff. split; lia.
  - (* ConstConv *) intros t v vc id H. cbn [aconst_stmt rconst_stmt] in *. unfold conv_errs_pol in H. rewrite gen_call_rechecked in H.
    cbn [negb] in H. rewrite andb_false_r in H.
    destruct (type_info t) as [[b sg]|] eqn:E; [|discriminate].
    rewrite <- inrange_fits by (eapply type_info_pos; eauto).
    destruct (is_inrange b sg v); [reflexivity | discriminate].
  - (* ConstFrac *) intros t id H. simpl in H. discriminate.
  - (* BCons *) intros id s IHs r IHr H. simpl in *. apply app_nil_inv in H as [H1 H2]. rewrite (IHs id), IHr; auto.
  - (* CCons *) intros cid cv b IHb r IHr H. simpl in *. apply app_nil_inv in H as [H1 H2]. rewrite IHb, IHr; auto.
Qed.
Local Close Scope Z_scope.

(* ================================================================== C. labels / goto / defer *)
Lemma no_mdefer_no_dbl : forall l ms, has_mdefer ms = false -> defer_before_label l ms = false.
Proof.
  induction ms as [|m r IH]; intro H; simpl in *; [reflexivity|].
  destruct m; [|discriminate]. destruct (Nat.eqb l l0); auto.
Qed.

Lemma back_some : forall l fs,
  find_and_check (fun f => has_label l (seen f)) hd_sofar fs = Some true -> rgoto_back l fs = Some true.
Proof.
  induction fs as [|f r IH]; intro H; simpl in *; [discriminate|].
  destruct (has_label l (seen f)).
  - injection H as H1. unfold hd_sofar in H1. apply negb_true_iff in H1.
    rewrite (no_mdefer_no_dbl l _ H1). reflexivity.
  - destruct (find_and_check _ hd_sofar r) as [ok|]; [|discriminate].
    injection H as H1. apply andb_true_iff in H1 as [Hok Hd]. subst ok.
    rewrite (IH eq_refl). unfold hd_sofar in Hd. rewrite Hd. reflexivity.
Qed.

Lemma back_none : forall l fs,
  find_and_check (fun f => has_label l (seen f)) hd_sofar fs = None ->
  rgoto_back l fs = None /\ Forall (fun f => has_label l (seen f) = false) fs.
Proof.
  induction fs as [|f r IH]; intro H; simpl in *; [split; [reflexivity | constructor]|].
  destruct (has_label l (seen f)) eqn:E; [discriminate|].
  destruct (find_and_check _ hd_sofar r) as [ok|]; [discriminate|].
  destruct (IH eq_refl) as [H1 H2]. rewrite H1. split; [reflexivity | constructor; assumption].
Qed.

Lemma fwd_some : forall l fs,
  Forall (fun f => has_label l (seen f) = false) fs ->
  find_and_check (lbl_final l) hd_final fs = Some true -> rgoto_fwd l fs = Some true.
Proof.
  induction fs as [|f r IH]; intros Hs H; simpl in *; [discriminate|].
  inversion Hs as [|? ? Hf Hr]; subst.
  unfold lbl_final in H at 1. rewrite Hf in H. simpl in H.
  destruct (has_label l (rest f)).
  - injection H as H1. apply negb_true_iff in H1. unfold hd_final in H1.
    apply orb_false_iff in H1 as [H1 _]. apply orb_false_iff in H1 as [_ H1].
    rewrite (no_mdefer_no_dbl l _ H1). reflexivity.
  - destruct (find_and_check (lbl_final l) hd_final r) as [ok|]; [|discriminate].
    injection H as H1. apply andb_true_iff in H1 as [Hok Hd]. subst ok.
    rewrite (IH Hr eq_refl). apply negb_true_iff in Hd. unfold hd_final in Hd.
    apply orb_false_iff in Hd as [Hd _]. apply orb_false_iff in Hd as [Hd _]. rewrite Hd. reflexivity.
Qed.

Lemma goto_sound : forall id l fs, agoto id l fs = [] -> rgoto l fs = true.
Proof.
  intros id l fs H. unfold agoto, agoto_pol in H. apply app_nil_inv in H as [H _]. unfold agoto_mix in H. unfold rgoto.
  destruct (find_and_check (fun f => has_label l (seen f)) hd_sofar fs) as [[|]|] eqn:E1.
  - rewrite (back_some l fs E1). reflexivity.
  - discriminate.
  - destruct (back_none l fs E1) as [Hb Hs]. rewrite Hb.
    destruct (find_and_check (lbl_final l) hd_final fs) as [[|]|] eqn:E2; try discriminate.
    rewrite (fwd_some l fs Hs E2). reflexivity.
Qed.

(* (T) visitors.Goto refuses to cross a defer block on its way to the label's scope (330205b) *)
Lemma gen_goto_checked : gen_goto_checks_defer_block = true.
Proof. reflexivity. Qed.

Lemma walk_back : forall l fs,
  walk_meets_deferblock (fun f => has_label l (seen f)) fs = leaves_defer_back l fs.
Proof.
  induction fs as [|f r IH]; simpl; [reflexivity|]. destruct (has_label l (seen f)); [reflexivity|].
  rewrite IH. reflexivity.
Qed.

Lemma leaves_back_none : forall l fs, leaves_defer_back l fs = None ->
  Forall (fun f => has_label l (seen f) = false) fs.
Proof.
  induction fs as [|f r IH]; intro H; simpl in *; [constructor|].
  destruct (has_label l (seen f)) eqn:E; [discriminate|].
  destruct (leaves_defer_back l r); [discriminate|]. constructor; auto.
Qed.

Lemma walk_fwd : forall l fs, Forall (fun f => has_label l (seen f) = false) fs ->
  walk_meets_deferblock (lbl_final l) fs = leaves_defer_fwd l fs.
Proof.
  induction fs as [|f r IH]; intro H; simpl; [reflexivity|]. inversion H as [|? ? Hf Hr]; subst.
  unfold lbl_final at 1. rewrite Hf. simpl. destruct (has_label l (rest f)); [reflexivity|].
  rewrite (IH Hr). reflexivity.
Qed.

Lemma goto_defer_sound : forall id l fs, agoto id l fs = [] -> goto_leaves_defer l fs = false.
Proof.
  intros id l fs H. unfold agoto, agoto_pol in H. apply app_nil_inv in H as [_ H].
  rewrite gen_goto_checked in H. simpl in H.
  destruct (goto_out_of_deferblock l fs) eqn:E; [discriminate|]. clear H.
  unfold goto_out_of_deferblock in E. unfold goto_leaves_defer. rewrite walk_back in E.
  destruct (leaves_defer_back l fs) as [b|] eqn:Eb; [exact E|].
  rewrite (walk_fwd l fs (leaves_back_none l fs Eb)) in E. exact E.
Qed.

Lemma goto_stays_sound :
  (forall s, forall fs id, alab_stmt fs id s = [] -> rgd_stmt fs s = true) /\
  (forall b, forall fs sn isd, alab_block fs sn isd b = [] -> rgd_block fs sn isd b = true) /\
  (forall cs, forall fs, alab_cases fs cs = [] -> rgd_cases fs cs = true).
Proof.
  apply sbc_mutind; try (intros; reflexivity); try (intros; simpl in *; auto; fail).
  - (* If *) intros t IHt e IHe fs id H. simpl in *. apply app_nil_inv in H as [H1 H2]. rewrite IHt, IHe; auto.
  - (* Switch *) intros cs IHc els d IHd fs id H. simpl in *. apply app_nil_inv in H as [H1 H2]. rewrite IHc, IHd; auto.
  - (* Goto *) intros l fs id H. simpl in *. rewrite (goto_defer_sound id l fs H). reflexivity.
  - (* BCons *) intros id s IHs r IHr fs sn isd H. simpl in *. apply app_nil_inv in H as [H1 H2].
    rewrite (IHs _ id H1). simpl. apply IHr; assumption.
  - (* CCons *) intros cid cv b IHb r IHr fs H. simpl in *. apply app_nil_inv in H as [H1 H2]. rewrite IHb, IHr; auto.
Qed.

Lemma find_label_exists : forall l fs,
  (match find_label l fs with Some _ => true | None => false end) = existsb (fun f => has_label l (seen f)) fs.
Proof.
  induction fs as [|f r IH]; simpl; [reflexivity|]. destruct (has_label l (seen f)); [reflexivity | exact IH].
Qed.

Lemma labels_sound :
  (forall s, forall fs id, alab_stmt fs id s = [] -> rlab_stmt fs s = true) /\
  (forall b, forall fs sn isd, alab_block fs sn isd b = [] -> rlab_block fs sn isd b = true) /\
  (forall cs, forall fs, alab_cases fs cs = [] -> rlab_cases fs cs = true).
Proof.
  apply sbc_mutind; try (intros; reflexivity); try (intros; simpl in *; auto; fail).
  - (* If *) intros t IHt e IHe fs id H. simpl in *. apply app_nil_inv in H as [H1 H2]. rewrite IHt, IHe; auto.
  - (* Switch *) intros cs IHc els d IHd fs id H. simpl in *. apply app_nil_inv in H as [H1 H2]. rewrite IHc, IHd; auto.
  - (* Label *) intros l fs id H. simpl in *. unfold alabel in H. unfold rlabel.
    rewrite <- (find_label_exists l fs). destruct (find_label l fs); [discriminate | reflexivity].
  - (* Goto *) intros l fs id H. simpl in *. eapply goto_sound; eauto.
  - (* BCons *) intros id s IHs r IHr fs sn isd H. simpl in *. apply app_nil_inv in H as [H1 H2].
    rewrite (IHs _ id H1). simpl. apply IHr; assumption.
  - (* CCons *) intros cid cv b IHb r IHr fs H. simpl in *. apply app_nil_inv in H as [H1 H2]. rewrite IHb, IHr; auto.
Qed.

(* ================================================================== B. names *)
Definition flat (ch:list nscope) : env := flat_map nsyms ch.

(* (T) visitors.FuncDef refuses a non-declaring definition over a const / comptime variable (1fc2b5c) *)
Lemma gen_funcdef_checked : gen_funcdef_checks_const = true.
Proof. reflexivity. Qed.

Lemma lookup_app : forall x a b, lookup x (a ++ b) = match lookup x a with Some y => Some y | None => lookup x b end.
Proof.
  induction a as [|[y s] r IH]; intro b; simpl; [reflexivity|].
  destruct (Nat.eqb x y); [reflexivity | apply IH].
Qed.

Lemma chain_lookup_flat : forall x ch, chain_lookup x ch = lookup x (flat ch).
Proof.
  induction ch as [|s r IH]; simpl; [reflexivity|].
  rewrite lookup_app. destruct (lookup x (nsyms s)); [reflexivity | exact IH].
Qed.

Lemma flat_declare : forall x y s r, flat (declare x y (s :: r)) = (x, y) :: flat (s :: r).
Proof. reflexivity. Qed.

Lemma up_fun_id_declare : forall x y s r, up_fun_id (declare x y (s :: r)) = up_fun_id (s :: r).
Proof. intros. unfold up_fun_id. simpl. destruct (nfun s); reflexivity. Qed.

Lemma fold_cons_app : forall (g:nat -> nat * sym) ps acc,
  fold_left (fun a p => g p :: a) ps acc = fold_left (fun a p => g p :: a) ps [] ++ acc.
Proof.
  intros g ps. induction ps as [|p r IH]; intro acc; simpl; [reflexivity|].
  rewrite IH. rewrite (IH [g p]). rewrite <- app_assoc. reflexivity.
Qed.

(* (T) in visitors.Id the accessibility check stands after the forcesymbol / lookup branches *)
Lemma gen_forced_checked : gen_upvalue_check_covers_forced_symbols = true.
Proof. reflexivity. Qed.


Definition nonempty (ch:list nscope) : Prop := ch <> [].

(* ---- the analyzer's symbol-table walk against the declarative scoping rule *)
Definition suffix (o fp:list nat) : Prop := exists pre, fp = pre ++ o.

Definition decl_rel (fp:list nat) (y:sym) (d:decl) : Prop :=
  match d with
  | DFun a => sar y = Some a
  | DVar q o => sar y = None /\ sq y = q /\ sfd y = S (length o) /\ suffix o fp
  end.

Definition entry_rel (fp:list nat) (a:nat * sym) (b:nat * decl) : Prop :=
  fst a = fst b /\ decl_rel fp (snd a) (snd b).

Definition Inv (ch:list nscope) (e:renv) (fp:list nat) : Prop :=
  Forall2 (entry_rel fp) (flat ch) e /\ up_fun_id ch = S (length fp).

Lemma path_eqb_eq : forall a b, path_eqb a b = true <-> a = b.
Proof.
  induction a as [|x r IH]; destruct b as [|y r']; simpl; split; intro H; try discriminate; try reflexivity.
  - apply andb_true_iff in H as [H1 H2]. apply Nat.eqb_eq in H1. apply IH in H2. subst. reflexivity.
  - inversion H; subst. rewrite Nat.eqb_refl. simpl. apply IH. reflexivity.
Qed.

Lemma suffix_same_length : forall o fp, suffix o fp -> length o = length fp -> o = fp.
Proof.
  intros o fp [pre ->] H. rewrite app_length in H. destruct pre; [reflexivity|]. simpl in H. lia.
Qed.

Lemma suffix_len_eqb : forall o fp, suffix o fp -> Nat.eqb (S (length o)) (S (length fp)) = path_eqb o fp.
Proof.
  intros o fp Hs. destruct (path_eqb o fp) eqn:E.
  - apply path_eqb_eq in E. subst. apply Nat.eqb_refl.
  - apply Nat.eqb_neq. intro H. injection H as H. apply suffix_same_length in H; [|exact Hs].
    subst. assert (path_eqb fp fp = true) by (apply path_eqb_eq; reflexivity). congruence.
Qed.

Lemma lookup_rel : forall fp x l e, Forall2 (entry_rel fp) l e ->
  match lookup x l, rlookup x e with
  | Some y, Some d => decl_rel fp y d
  | None, None => True
  | _, _ => False
  end.
Proof.
  intros fp x l e H. induction H as [|[a y] [b d] l e [Hab Hr] _ IH]; simpl; [exact I|].
  simpl in Hab. subst b. destruct (Nat.eqb x a); [exact Hr | exact IH].
Qed.

Lemma access_use : forall ch fp y d, up_fun_id ch = S (length fp) -> decl_rel fp y d ->
  accessible ch y = use_ok fp d.
Proof.
  intros ch fp y d Hu Hr. unfold accessible. destruct d as [q o|a]; simpl in Hr.
  - destruct Hr as (H1 & H2 & H3 & H4). rewrite H1, H2, H3, Hu.
    destruct q; simpl; try reflexivity; apply suffix_len_eqb; exact H4.
  - rewrite Hr. reflexivity.
Qed.

Lemma rel_weaken : forall f fp y d, decl_rel fp y d -> decl_rel (f :: fp) y d.
Proof.
  intros f fp y d H. destruct d as [q o|a]; simpl in *; [|exact H].
  destruct H as (H1 & H2 & H3 & [pre ->]). repeat split; auto. exists (f :: pre). reflexivity.
Qed.

Lemma forall2_weaken : forall f fp l e, Forall2 (entry_rel fp) l e -> Forall2 (entry_rel (f :: fp)) l e.
Proof.
  intros f fp l e H. induction H as [|a b l e [H1 H2] _ IH]; constructor; auto.
  split; [exact H1 | apply rel_weaken; exact H2].
Qed.

Lemma params_rel : forall fp fid ps l e, fid = S (length fp) -> Forall2 (entry_rel fp) l e ->
  Forall2 (entry_rel fp) (fold_left (fun acc p => (p, mksym QVar None fid) :: acc) ps l)
                         (fold_left (fun acc p => (p, DVar QVar fp) :: acc) ps e).
Proof.
  intros fp fid ps. induction ps as [|p r IH]; intros l e Hf H; simpl; [exact H|].
  apply IH; [exact Hf|]. constructor; [|exact H]. split; [reflexivity|]. simpl.
  repeat split; auto. exists []. reflexivity.
Qed.

Lemma errs_app_nil : forall (a b:errs), a ++ b = [] <-> a = [] /\ b = [].
Proof. intros a b. split; [apply app_nil_inv | intros [-> ->]; reflexivity]. Qed.

Lemma andb_iff : forall a b (P Q:Prop), (P <-> a = true) -> (Q <-> b = true) -> (P /\ Q <-> a && b = true).
Proof. intros a b P Q H1 H2. rewrite andb_true_iff. tauto. Qed.

(* the analyzer raises nowhere exactly when the declarative rule holds *)
Lemma names_iff :
  (forall s, forall ch e fp id, nonempty ch -> Inv ch e fp -> (aname_stmt ch id s = [] <-> rname_stmt fp e s = true)) /\
  (forall b, forall ch e fp, nonempty ch -> Inv ch e fp -> (aname_block ch b = [] <-> rname_block fp e b = true)) /\
  (forall cs, forall ch e fp, nonempty ch -> Inv ch e fp -> (aname_cases ch cs = [] <-> rname_cases fp e cs = true)).
Proof.
  assert (Hpush : forall ch e fp, Inv ch e fp -> Inv (mkn false [] :: ch) e fp) by (intros ch e fp H; exact H).
  assert (Hne1 : forall ch, nonempty (mkn false [] :: ch)) by (intros; discriminate).
  apply sbc_mutind; try (intros; split; reflexivity).
  - (* Assign *) intros x ch e fp id Hne [Hf Hu]. cbn [aname_stmt rname_stmt]. unfold id_errs.
    rewrite chain_lookup_flat. pose proof (lookup_rel fp x _ _ Hf) as Hl.
    destruct (lookup x (flat ch)) as [y|], (rlookup x e) as [d|]; try contradiction; [|split; discriminate].
    rewrite (access_use ch fp y d Hu Hl). destruct d as [q o|a]; simpl in Hl.
    + destruct Hl as (H1 & H2 & H3 & H4). rewrite H1, H2. destruct q; simpl; try (split; discriminate).
      * destruct (path_eqb o fp); simpl; split; auto; discriminate.
      * destruct (path_eqb o fp); simpl; split; discriminate.
    + rewrite Hl. simpl. split; discriminate.
  - (* Use *) intros x ch e fp id Hne [Hf Hu]. cbn [aname_stmt rname_stmt]. unfold id_errs.
    rewrite chain_lookup_flat. pose proof (lookup_rel fp x _ _ Hf) as Hl.
    destruct (lookup x (flat ch)) as [y|], (rlookup x e) as [d|]; try contradiction; [|split; discriminate].
    rewrite (access_use ch fp y d Hu Hl). simpl. destruct (use_ok fp d); split; auto; discriminate.
  - (* AssignF *) intros x ch e fp id Hne [Hf Hu]. cbn [aname_stmt rname_stmt]. unfold forced_errs, forced_errs_pol.
    rewrite gen_forced_checked.
    rewrite chain_lookup_flat. pose proof (lookup_rel fp x _ _ Hf) as Hl.
    destruct (lookup x (flat ch)) as [y|], (rlookup x e) as [d|]; try contradiction; [|split; discriminate].
    rewrite (access_use ch fp y d Hu Hl). destruct d as [q o|a]; simpl in Hl.
    + destruct Hl as (H1 & H2 & H3 & H4). unfold const_errs. rewrite H1, H2. destruct q; simpl; try (split; discriminate).
      * destruct (path_eqb o fp); simpl; split; auto; discriminate.
      * destruct (path_eqb o fp); simpl; split; discriminate.
    + unfold const_errs. rewrite Hl. simpl. split; discriminate.
  - (* UseF *) intros x ch e fp id Hne [Hf Hu]. cbn [aname_stmt rname_stmt]. unfold forced_errs, forced_errs_pol.
    rewrite gen_forced_checked.
    rewrite chain_lookup_flat. pose proof (lookup_rel fp x _ _ Hf) as Hl.
    destruct (lookup x (flat ch)) as [y|], (rlookup x e) as [d|]; try contradiction; [|split; discriminate].
    rewrite (access_use ch fp y d Hu Hl). simpl. destruct (use_ok fp d); split; auto; discriminate.
  - (* Func *) intros f ps b IH ch e fp id Hne [Hf Hu]. cbn [aname_stmt rname_stmt].
    destruct ch as [|s0 r0]; [exfalso; apply Hne; reflexivity|].
    set (symf := mksym QVar (Some (length ps)) (up_fun_id (s0 :: r0))).
    apply IH; [discriminate|].
    assert (Hid : up_fun_id (mkn true [] :: declare f symf (s0 :: r0)) = S (up_fun_id (s0 :: r0))).
    { unfold up_fun_id at 1. cbn [filter nfun]. cbn [length]. f_equal. apply up_fun_id_declare. }
    split.
    + unfold flat. cbn [flat_map nsyms app]. fold (flat (declare f symf (s0 :: r0))). rewrite flat_declare.
      rewrite fold_cons_app. unfold rparams.
      rewrite (fold_cons_app (fun p => (p, mksym QVar None (up_fun_id (mkn true [] :: declare f symf (s0 :: r0)))))).
      assert (Hx : forall (g:nat -> nat * decl) ps0 acc, fold_left (fun a p => g p :: a) ps0 acc = fold_left (fun a p => g p :: a) ps0 [] ++ acc).
      { intros g ps0. induction ps0 as [|p0 r1 IH1]; intro acc; simpl; [reflexivity|].
        rewrite IH1. rewrite (IH1 [g p0]). rewrite <- app_assoc. reflexivity. }
      rewrite (Hx (fun p => (p, DVar QVar (f :: fp)))).
      apply Forall2_app.
      * rewrite ?app_nil_r. apply params_rel; [rewrite Hid, Hu; reflexivity | constructor].
      * constructor; [split; reflexivity|]. apply forall2_weaken. exact Hf.
    + unfold up_fun_id at 1. cbn [filter nfun]. cbn [length]. f_equal.
      fold (up_fun_id (declare f symf (s0 :: r0))). rewrite up_fun_id_declare. exact Hu.
  - (* FuncAssign *) intros x b IH ch e fp id Hne [Hf Hu]. cbn [aname_stmt rname_stmt]. unfold id_errs.
    unfold funcdef_errs, funcdef_errs_pol. rewrite gen_funcdef_checked.
    rewrite chain_lookup_flat. pose proof (lookup_rel fp x _ _ Hf) as Hl.
    assert (Hbody : aname_block (mkn false [] :: mkn true [] :: ch) b = [] <-> rname_block (x :: fp) e b = true).
    { apply IH; [discriminate|]. split.
      - unfold flat. cbn [flat_map nsyms app]. fold (flat ch). apply forall2_weaken. exact Hf.
      - unfold up_fun_id. cbn [filter nfun length]. fold (up_fun_id ch). rewrite Hu. reflexivity. }
    destruct (lookup x (flat ch)) as [y|], (rlookup x e) as [d|]; try contradiction.
    + rewrite (access_use ch fp y d Hu Hl). rewrite !errs_app_nil.
      assert (Hc : ((if use_ok fp d then [] else [(id, KUpvalue)]) = [] /\
                    match sar y with Some _ => [] | None => const_errs id (Some y) end = []) <-> funcassign_ok fp d = true).
      { destruct d as [q o|a]; simpl in Hl.
        - destruct Hl as (H1 & H2 & H3 & H4). unfold const_errs. rewrite H1, H2.
          destruct q; simpl; try (split; [intros [_ Hx]; discriminate Hx | discriminate]).
          destruct (path_eqb o fp); simpl; split; auto; try discriminate. intros [Hx _]; discriminate Hx.
        - rewrite Hl. simpl. split; auto. }
      rewrite andb_true_iff. rewrite <- Hc, <- Hbody. tauto.
    + split; [intro Hx; discriminate Hx | intro Hx; discriminate Hx].
  - (* Call *) intros f n ch e fp id Hne [Hf Hu]. cbn [aname_stmt rname_stmt].
    rewrite chain_lookup_flat. pose proof (lookup_rel fp f _ _ Hf) as Hl.
    destruct (lookup f (flat ch)) as [y|], (rlookup f e) as [d|]; try contradiction; [|split; discriminate].
    destruct d as [q o|a]; simpl in Hl.
    + destruct Hl as (H1 & _). rewrite H1. simpl. split; discriminate.
    + rewrite Hl. simpl. destruct (Nat.leb n a); split; auto; discriminate.
  - (* Do *) intros b IH ch e fp id Hne Hi. cbn [aname_stmt rname_stmt]. apply IH; auto.
  - (* If *) intros t IHt el IHe ch e fp id Hne Hi. cbn [aname_stmt rname_stmt]. rewrite errs_app_nil.
    apply andb_iff; [apply IHt | apply IHe]; auto.
  - (* While *) intros b IH ch e fp id Hne Hi. cbn [aname_stmt rname_stmt]. apply IH; auto.
  - (* Repeat *) intros b IH ch e fp id Hne Hi. cbn [aname_stmt rname_stmt]. apply IH; auto.
  - (* For *) intros b IH ch e fp id Hne Hi. cbn [aname_stmt rname_stmt]. apply IH; auto.
  - (* Switch *) intros cs IHc els d IHd ch e fp id Hne Hi. cbn [aname_stmt rname_stmt]. rewrite errs_app_nil.
    apply andb_iff; [apply IHc | apply IHd]; auto.
  - (* Defer *) intros b IH ch e fp id Hne Hi. cbn [aname_stmt rname_stmt]. apply IH; auto.
  - (* BCons *) intros id s IHs r IHr ch e fp Hne Hi. cbn [aname_block rname_block]. rewrite errs_app_nil.
    apply andb_iff; [apply IHs; auto|].
    destruct ch as [|s0 r0]; [exfalso; apply Hne; reflexivity|]. destruct Hi as [Hf Hu].
    destruct s; try (apply IHr; [exact Hne | split; assumption]).
    + (* Local *) apply IHr; [discriminate|]. split.
      * rewrite flat_declare. constructor; [|exact Hf]. split; [reflexivity|]. simpl.
        repeat split; auto. exists []. reflexivity.
      * rewrite up_fun_id_declare. exact Hu.
    + (* Func *) apply IHr; [discriminate|]. split.
      * rewrite flat_declare. constructor; [|exact Hf]. split; reflexivity.
      * rewrite up_fun_id_declare. exact Hu.
  - (* CCons *) intros cid cv b IHb r IHr ch e fp Hne Hi. cbn [aname_cases rname_cases]. rewrite errs_app_nil.
    apply andb_iff; [apply IHb | apply IHr]; auto.
Qed.

(* ================================================================== A. break / continue / fallthrough *)
(* (T) the repaired analyzer stores the loop variable in casescope.switchcase_index *)
Lemma gen_switchcase_fixed : gen_switchcase_index_is_loop_var = true.
Proof. reflexivity. Qed.

(* (T) visitors.Break/Continue call check_jump_out_of_defer and visitors.Defer marks its block scope *)
Lemma gen_jump_check_present : gen_break_continue_check_defer_block = true.
Proof. reflexivity. Qed.

Lemma recorded_case_id : forall c, recorded_case c = c.
Proof. intro c. unfold recorded_case, recorded_case_pol. rewrite gen_switchcase_fixed. reflexivity. Qed.

Definition block_rel (ch:list fscope) (ftok:bool) : Prop :=
  match ch with
  | {| fcase := Some (c', n, els) |} :: _ => (Nat.ltb c' n || els) = true -> ftok = true
  | _ => True
  end.

Lemma break_ok_plain : forall s ch, fl s = false -> ff s = false -> fdb s = false -> break_ok (s :: ch) = break_ok ch.
Proof. intros s ch H1 H2 H3. unfold break_ok, break_ok_pol, loop_found. simpl. rewrite H1, H2, H3. reflexivity. Qed.

Lemma block_rel_plain : forall ch ftok, block_rel (plain_scope :: ch) ftok.
Proof. intros. exact I. Qed.

Lemma flow_sound :
  (forall s, forall ch id, aflow_stmt ch id s = [] -> rflow_stmt (break_ok ch) s = true) /\
  (forall b, forall ch ftok, block_rel ch ftok -> aflow_block ch false b = [] ->
      rflow_block (break_ok ch) ftok b = true) /\
  (forall cs, forall ch n els c, (c + ncases cs = S n)%nat ->
      aflow_cases ch n els c cs = [] -> rflow_cases (break_ok ch) els cs = true).
Proof.
  apply sbc_mutind; try (intros; reflexivity).
  - (* Func *) intros f ps b IH ch id H. cbn [aflow_stmt rflow_stmt] in *.
    exact (IH (plain_scope :: func_scope :: ch) false (block_rel_plain _ _) H).
  - (* FuncAssign *) intros x b IH ch id H. cbn [aflow_stmt rflow_stmt] in *.
    exact (IH (plain_scope :: func_scope :: ch) false (block_rel_plain _ _) H).
  - (* Do *) intros b IH ch id H. cbn [aflow_stmt rflow_stmt] in *.
    exact (IH (plain_scope :: ch) false (block_rel_plain _ _) H).
  - (* If *) intros t IHt e IHe ch id H. cbn [aflow_stmt rflow_stmt] in *.
    apply app_nil_inv in H as [H1 H2]. apply andb_true_iff. split.
    + exact (IHt (plain_scope :: ch) false (block_rel_plain _ _) H1).
    + exact (IHe (plain_scope :: ch) false (block_rel_plain _ _) H2).
  - (* While *) intros b IH ch id H. cbn [aflow_stmt rflow_stmt] in *.
    exact (IH (plain_scope :: loop_scope :: ch) false (block_rel_plain _ _) H).
  - (* Repeat *) intros b IH ch id H. cbn [aflow_stmt rflow_stmt] in *.
    exact (IH (plain_scope :: loop_scope :: ch) false (block_rel_plain _ _) H).
  - (* For *) intros b IH ch id H. cbn [aflow_stmt rflow_stmt] in *.
    exact (IH (plain_scope :: loop_scope :: ch) false (block_rel_plain _ _) H).
  - (* Switch *) intros cs IHc els d IHd ch id H. cbn [aflow_stmt rflow_stmt] in *.
    apply app_nil_inv in H as [H1 H2]. apply andb_true_iff. split.
    + exact (IHc (plain_scope :: ch) (ncases cs) els 1%nat eq_refl H1).
    + exact (IHd (plain_scope :: plain_scope :: ch) false (block_rel_plain _ _) H2).
  - (* Break *) intros ch id H. cbn [aflow_stmt rflow_stmt] in *.
    destruct (break_ok ch); [reflexivity | discriminate].
  - (* Continue *) intros ch id H. cbn [aflow_stmt rflow_stmt] in *.
    destruct (break_ok ch); [reflexivity | discriminate].
  - (* Fallthrough as a statement: only reached through blocks *) intros ch id H. cbn [aflow_stmt] in H.
    discriminate.
  - (* Defer *) intros b IH ch id H. cbn [aflow_stmt rflow_stmt] in *.
    exact (IH (defer_scope :: ch) false I H).
  - (* BCons *) intros id s IHs r IHr ch ftok Hrel H.
    assert (Hgen : aflow_stmt ch id s ++ aflow_block ch false r = [] ->
                   rflow_stmt (break_ok ch) s && rflow_block (break_ok ch) ftok r = true).
    { intros Happ. apply app_nil_inv in Happ as [H1 H2]. apply andb_true_iff. split.
      - exact (IHs ch id H1).
      - exact (IHr ch ftok Hrel H2). }
    destruct s; try (cbn [aflow_block rflow_block] in *; apply Hgen; exact H).
    (* Fallthrough *)
    cbn [aflow_block rflow_block] in *. apply app_nil_inv in H as [H1 H2].
    unfold fall_errs in H1. unfold block_rel in Hrel.
    destruct ch as [|[l f db [[[c' n] els]|]] ch']; try discriminate.
    cbn [negb andb] in H1.
    destruct (Nat.ltb c' n || els) eqn:E; [|discriminate]. cbn [app] in H1.
    destruct (is_bnil r) eqn:Er; [|discriminate].
    rewrite (Hrel eq_refl). reflexivity.
  - (* CCons *) intros cid cv b IHb r IHr ch n els c Hc H.
    cbn [aflow_cases rflow_cases ncases] in *.
    apply app_nil_inv in H as [H1 H2].
    apply andb_true_iff. split.
    + rewrite <- (break_ok_plain (mkf false false false (Some (recorded_case c, n, els))) ch eq_refl eq_refl eq_refl).
      apply (IHb _ _); [|exact H1].
      unfold block_rel. rewrite recorded_case_id. destruct r as [|cid2 cv2 b2 r2].
      * (* last case: c = n *) cbn [ncases] in Hc. intro Hx. apply orb_true_iff in Hx as [Hx|Hx]; [|exact Hx].
        apply Nat.ltb_lt in Hx. lia.
      * intros; reflexivity.
    + apply (IHr ch n els (S c)); [lia | exact H2].
Qed.

(* ---- completeness of the control-flow checks: rule-abiding placements are never rejected *)
Definition case_compl (ch:list fscope) (ftok:bool) : Prop :=
  ftok = true -> exists c' n els rest, ch = mkf false false false (Some (c', n, els)) :: rest /\ (Nat.ltb c' n || els) = true.

Lemma flow_complete :
  (forall s, forall ch id, rflow_stmt (break_ok ch) s = true -> aflow_stmt ch id s = []) /\
  (forall b, forall ch ftok, case_compl ch ftok -> rflow_block (break_ok ch) ftok b = true ->
      aflow_block ch false b = []) /\
  (forall cs, forall ch n els c, (c + ncases cs = S n)%nat -> (1 <= c)%nat ->
      rflow_cases (break_ok ch) els cs = true -> aflow_cases ch n els c cs = []).
Proof.
  assert (Hnc : forall ch, case_compl (plain_scope :: ch) false) by (intros ch H; discriminate H).
  apply sbc_mutind; try (intros; reflexivity).
  - (* Func *) intros f ps b IH ch id H. cbn [aflow_stmt rflow_stmt] in *.
    exact (IH (plain_scope :: func_scope :: ch) false (Hnc _) H).
  - (* FuncAssign *) intros x b IH ch id H. cbn [aflow_stmt rflow_stmt] in *.
    exact (IH (plain_scope :: func_scope :: ch) false (Hnc _) H).
  - (* Do *) intros b IH ch id H. cbn [aflow_stmt rflow_stmt] in *. exact (IH (plain_scope :: ch) false (Hnc _) H).
  - (* If *) intros t IHt e IHe ch id H. cbn [aflow_stmt rflow_stmt] in *. apply andb_true_iff in H as [H1 H2].
    rewrite (IHt (plain_scope :: ch) false (Hnc _) H1), (IHe (plain_scope :: ch) false (Hnc _) H2). reflexivity.
  - (* While *) intros b IH ch id H. cbn [aflow_stmt rflow_stmt] in *. exact (IH (plain_scope :: loop_scope :: ch) false (Hnc _) H).
  - (* Repeat *) intros b IH ch id H. cbn [aflow_stmt rflow_stmt] in *. exact (IH (plain_scope :: loop_scope :: ch) false (Hnc _) H).
  - (* For *) intros b IH ch id H. cbn [aflow_stmt rflow_stmt] in *. exact (IH (plain_scope :: loop_scope :: ch) false (Hnc _) H).
  - (* Switch *) intros cs IHc els d IHd ch id H. cbn [aflow_stmt rflow_stmt] in *. apply andb_true_iff in H as [H1 H2].
    rewrite (IHc (plain_scope :: ch) (ncases cs) els 1%nat eq_refl (le_n 1) H1).
    rewrite (IHd (plain_scope :: plain_scope :: ch) false (Hnc _) H2). reflexivity.
  - (* Break *) intros ch id H. cbn [aflow_stmt rflow_stmt] in *. rewrite H. reflexivity.
  - (* Continue *) intros ch id H. cbn [aflow_stmt rflow_stmt] in *. rewrite H. reflexivity.
  - (* Fallthrough *) intros ch id H. cbn [rflow_stmt] in H. discriminate.
  - (* Defer *) intros b IH ch id H. cbn [aflow_stmt rflow_stmt] in *.
    apply (IH (defer_scope :: ch) false); [intro Hx; discriminate Hx | exact H].
  - (* BCons *) intros id s IHs r IHr ch ftok Hcc H.
    assert (Hgen : rflow_stmt (break_ok ch) s && rflow_block (break_ok ch) ftok r = true ->
                   aflow_stmt ch id s ++ aflow_block ch false r = []).
    { intro Hx. apply andb_true_iff in Hx as [H1 H2]. rewrite (IHs ch id H1), (IHr ch ftok Hcc H2). reflexivity. }
    destruct s; try (cbn [aflow_block rflow_block] in *; apply Hgen; exact H).
    cbn [aflow_block rflow_block] in *. apply andb_true_iff in H as [H1 H2].
    destruct r; [|discriminate]. destruct (Hcc H1) as (c' & n & els & rest & -> & Hok).
    unfold fall_errs. rewrite Hok. reflexivity.
  - (* CCons *) intros cid cv b IHb r IHr ch n els c Hc Hc1 H. cbn [aflow_cases rflow_cases ncases] in *.
    apply andb_true_iff in H as [H1 H2].
    rewrite (IHr ch n els (S c)); [| lia | lia | exact H2]. rewrite app_nil_r.
    apply (IHb (mkf false false false (Some (recorded_case c, n, els)) :: ch) (match r with CNil => els | CCons _ _ _ _ => true end)); [|exact H1].
    intro Hft. exists (recorded_case c), n, els, ch. split; [reflexivity|].
    destruct r as [|cid2 cv2 b2 r2].
    + rewrite Hft. apply orb_true_r.
    + cbn [ncases] in Hc. apply orb_true_iff. left. apply Nat.ltb_lt.
      unfold recorded_case, recorded_case_pol. destruct gen_switchcase_index_is_loop_var; lia.
Qed.

(* ================================================================== whole programs *)
Lemma analyzer_ok_parts : forall p, analyzer_ok p = true ->
  off_flow p = [] /\ off_names p = [] /\ off_labels p = [] /\ off_consts p = [] /\ off_switch p = [].
Proof.
  intros p H. unfold analyzer_ok, offenders in H.
  destruct (off_flow p ++ off_names p ++ off_labels p ++ off_consts p ++ off_switch p) eqn:E; [|discriminate].
  apply app_nil_inv in E as [E1 E]. apply app_nil_inv in E as [E2 E]. apply app_nil_inv in E as [E3 E].
  apply app_nil_inv in E as [E4 E5]. auto.
Qed.

(* ---- E. switch case values *)
Lemma dup_errs_sound : forall cs seen, dup_errs seen cs = [] ->
  (forall v, In v (case_values cs) -> existsb (Nat.eqb v) seen = false) /\ nodupb (case_values cs) = true.
Proof.
  induction cs as [|cid v b r IH]; intros seen H; cbn [dup_errs case_values nodupb] in *.
  - split; [intros v [] | reflexivity].
  - apply app_nil_inv in H as [H1 H2]. destruct (existsb (Nat.eqb v) seen) eqn:E; [discriminate|].
    destruct (IH (v :: seen) H2) as [Ha Hb]. split.
    + intros w [->|Hw]; [exact E|]. specialize (Ha w Hw). cbn [existsb] in Ha.
      apply orb_false_iff in Ha as [_ Ha]. exact Ha.
    + rewrite Hb, andb_true_r. apply negb_true_iff.
      destruct (existsb (Nat.eqb v) (case_values r)) eqn:E2; [|reflexivity].
      apply existsb_exists in E2 as (w & Hw & Hvw). apply Nat.eqb_eq in Hvw. subst w.
      specialize (Ha v Hw). cbn [existsb] in Ha. rewrite Nat.eqb_refl in Ha. discriminate.
Qed.

Lemma switch_sound :
  (forall s, asw_stmt s = [] -> rsw_stmt s = true) /\
  (forall b, asw_block b = [] -> rsw_block b = true) /\
  (forall cs, asw_cases cs = [] -> rsw_cases cs = true).
Proof.
  apply sbc_mutind; try (intros; reflexivity); try (intros; simpl in *; auto; fail).
  - (* If *) intros t IHt e IHe H. simpl in *. apply app_nil_inv in H as [H1 H2]. rewrite IHt, IHe; auto.
  - (* Switch *) intros cs IHc els d IHd H. simpl in *. apply app_nil_inv in H as [H1 H]. apply app_nil_inv in H as [H2 H3].
    rewrite (proj2 (dup_errs_sound cs [] H1)), IHc, IHd; auto.
  - (* BCons *) intros id s IHs r IHr H. simpl in *. apply app_nil_inv in H as [H1 H2]. rewrite IHs, IHr; auto.
  - (* CCons *) intros cid cv b IHb r IHr H. simpl in *. apply app_nil_inv in H as [H1 H2]. rewrite IHb, IHr; auto.
Qed.

Theorem switch_sound_thm : forall p, off_switch p = [] -> rule_switch p = true.
Proof. intros p H. exact (proj1 (proj2 switch_sound) p H). Qed.

Theorem names_sound_thm : forall p, off_names p = [] -> rule_names p = true.
Proof.
  intros p H. unfold off_names, rule_names in *.
  apply (proj1 (proj2 names_iff) p [mkn false []; mkn true []] [] []); [discriminate | split; [constructor | reflexivity] | exact H].
Qed.

Theorem labels_sound_thm : forall p, off_labels p = [] -> rule_labels p = true /\ rule_goto_stays_in_defer p = true.
Proof.
  intros p H. split; [exact (proj1 (proj2 labels_sound) p [] [] false H) | exact (proj1 (proj2 goto_stays_sound) p [] [] false H)].
Qed.

Theorem consts_sound_thm : forall p, off_consts p = [] -> rule_consts p = true.
Proof. intros p H. exact (proj1 (proj2 consts_sound) p H). Qed.

Theorem flow_sound_thm : forall p, off_flow p = [] -> rule_flow p = true.
Proof.
  intros p H. unfold off_flow, rule_flow in *.
  exact (proj1 (proj2 flow_sound) p [plain_scope; func_scope] false I H).
Qed.

Theorem flow_complete_thm : forall p, rule_flow p = true -> off_flow p = [].
Proof.
  intros p H. unfold off_flow, rule_flow in *.
  apply (proj1 (proj2 flow_complete) p [plain_scope; func_scope] false); [intro Hx; discriminate Hx | exact H].
Qed.

Theorem analyzer_sound_partial : forall p, analyzer_ok p = true -> rule_ok p = true.
Proof.
  intros p H. destruct (analyzer_ok_parts p H) as (H1 & H2 & H3 & H4 & H5). unfold rule_ok.
  destruct (labels_sound_thm p H3) as [H3a H3b].
  rewrite (flow_sound_thm p H1), (names_sound_thm p H2), H3a, H3b, (consts_sound_thm p H4), (switch_sound_thm p H5).
  reflexivity.
Qed.

(* ---- full strength: FALSE for the unchanged analyzer *)
Definition labels_sound_full : Prop := forall p, off_labels p = [] -> rule_labels_full p = true.

(* ::l1::  defer goto l1 end : the goto leaves the defer block - rejected since 330205b (regression witness) *)
Definition witness_goto_leaves_defer : block :=
  BCons 1 (Label 1) (BCons 2 (Defer (BCons 3 (Goto 1) BNil)) BNil).

Example witness_goto_leaves_defer_rejected :
  offenders witness_goto_leaves_defer = [(3%nat, KGotoDefer)] /\ rule_goto_stays_in_defer witness_goto_leaves_defer = false.
Proof. split; vm_compute; reflexivity. Qed.

(* do ::l1:: end  ::l1:: : the label is repeated in the function (not visible at the second declaration) *)
Definition witness_label_repeated : block :=
  BCons 1 (Do (BCons 2 (Label 1) BNil)) (BCons 3 (Label 1) BNil).

Lemma witness_label_repeated_facts :
  analyzer_ok witness_label_repeated = true /\ rule_ok witness_label_repeated = true /\
  rule_labels_unique witness_label_repeated = false.
Proof. repeat split; vm_compute; reflexivity. Qed.

Theorem labels_unique_refuted : ~ (forall p, off_labels p = [] -> rule_labels_unique p = true).
Proof.
  intro H. assert (Ho : off_labels witness_label_repeated = []) by (vm_compute; reflexivity).
  specialize (H _ Ho). vm_compute in H. discriminate.
Qed.

Theorem analyzer_sound_refuted : ~ analyzer_sound_full.
Proof.
  intro H. destruct witness_label_repeated_facts as (Ha & _ & _).
  specialize (H _ Ha). vm_compute in H. discriminate.
Qed.

(* regression witness of the repaired hole: switch sel() do case 1 then  case 2 then fallthrough end *)
Definition witness_last_ft : block :=
  BCons 1 (Switch (CCons 3 1 BNil (CCons 4 2 (BCons 2 Fallthrough BNil) CNil)) false BNil) BNil.

Example witness_last_ft_rejected : offenders witness_last_ft = [(2%nat, KFall)] /\ rule_ok witness_last_ft = false.
Proof. split; vm_compute; reflexivity. Qed.

(* non-vacuity: a program with nested functions, loops, switch, labels satisfies the hypotheses and is accepted *)
Example sound_example :
  let p := BCons 1 (Local 1 QVar)
          (BCons 2 (Func 100 [2] (BCons 3 (While (BCons 4 (Use 2) (BCons 5 Break BNil))) BNil))
          (BCons 6 (Switch (CCons 12 1 (BCons 7 (Call 100 1) (BCons 8 Fallthrough BNil)) (CCons 13 2 (BCons 9 (Assign 1) BNil) CNil)) false BNil)
          (BCons 10 (Label 1) (BCons 11 (Goto 1) BNil)))) in
  analyzer_ok p = true /\ rule_ok p = true.
Proof. vm_compute. auto. Qed.

(* ================================================================== completeness of the name checks *)
Theorem names_complete_thm : forall p, rule_names p = true -> off_names p = [].
Proof.
  intros p H. unfold off_names, rule_names in *.
  apply (proj1 (proj2 names_iff) p [mkn false []; mkn true []] [] []); [discriminate | split; [constructor | reflexivity] | exact H].
Qed.

(* the goto/defer check is deliberately conservative: a defer BEFORE the label is not crossed by a backward
   goto, the rule allows it, the analyzer (has_defer flag of the whole scope) rejects it *)
Example labels_conservative :
  let p := BCons 1 (Defer BNil) (BCons 2 (Label 1) (BCons 3 (Goto 1) BNil)) in
  rule_labels p = true /\ off_labels p = [(3%nat, KGotoDefer)].
Proof. split; vm_compute; reflexivity. Qed.

(* ================================================================== the scraped checks are needed *)
(* Each pin above enters a soundness proof only through [rewrite gen_..._checked].  The companions below state
   what the pinned decision function does under the OTHER policy: it lets through a concrete input that the
   policy-on function (and the rule) refuses.  So a checkout in which the scraped fact flips cannot keep the
   theorems: the pin fails, and the decision function is shown here to differ on a witness. *)
Definition two_case_last (pol:bool) : list fscope := [mkf false false false (Some (recorded_case_pol pol 2, 2%nat, false))].

Lemma switchcase_index_needed :
  fall_errs (two_case_last false) 7 false true = [] /\ fall_errs (two_case_last true) 7 false true = [(7%nat, KFall)].
Proof. split; reflexivity. Qed.

Lemma jump_check_needed :
  break_ok_pol false [defer_scope; loop_scope] = true /\ break_ok_pol true [defer_scope; loop_scope] = false /\
  rflow_stmt false Break = false.
Proof. repeat split; reflexivity. Qed.

Definition nested_chain : list nscope := [mkn false []; mkn true []; mkn false [(1%nat, mksym QVar None 1)]; mkn true []].

Lemma forced_check_needed :
  fst (forced_errs_pol false nested_chain 7 1) = [] /\ fst (forced_errs_pol true nested_chain 7 1) = [(7%nat, KUpvalue)] /\
  use_ok [9%nat] (DVar QVar []) = false.
Proof. repeat split; reflexivity. Qed.

(* ::l1:: defer goto l1 end : the frames of the goto *)
Definition goto_in_defer : list lframe := [mkl [] [] true; mkl [MLabel 1] [] false].

Lemma goto_check_needed :
  agoto_pol false 7 1 goto_in_defer = [] /\ agoto_pol true 7 1 goto_in_defer = [(7%nat, KGotoDefer)] /\
  goto_leaves_defer 1 goto_in_defer = true.
Proof. repeat split; reflexivity. Qed.

Lemma call_recheck_needed : forall t b sg v, type_info t = Some (b, sg) -> is_inrange b sg v = false ->
  conv_errs_pol false 7 t v true = [] /\ conv_errs_pol true 7 t v true = [(7%nat, KRange)].
Proof. intros t b sg v Ht Hr. unfold conv_errs_pol. rewrite Ht, Hr. split; reflexivity. Qed.

Lemma funcdef_check_needed :
  funcdef_errs_pol false 7 (Some (mksym QConst None 1)) = [] /\
  funcdef_errs_pol true 7 (Some (mksym QConst None 1)) = [(7%nat, KConstAssign)] /\
  funcassign_ok [] (DVar QConst []) = false.
Proof. repeat split; reflexivity. Qed.

(* the exemption of 1fc2b5c: a declared function is redefinable under either policy *)
Lemma funcdef_function_exempt : forall pol a fd, funcdef_errs_pol pol 7 (Some (mksym QVar (Some a) fd)) = [].
Proof. intros. reflexivity. Qed.

Definition checks_needed : Prop :=
  (fall_errs (two_case_last false) 7 false true = [] /\ fall_errs (two_case_last true) 7 false true = [(7%nat, KFall)]) /\
  (break_ok_pol false [defer_scope; loop_scope] = true /\ break_ok_pol true [defer_scope; loop_scope] = false /\
   rflow_stmt false Break = false) /\
  (fst (forced_errs_pol false nested_chain 7 1) = [] /\ fst (forced_errs_pol true nested_chain 7 1) = [(7%nat, KUpvalue)] /\
   use_ok [9%nat] (DVar QVar []) = false) /\
  (agoto_pol false 7 1 goto_in_defer = [] /\ agoto_pol true 7 1 goto_in_defer = [(7%nat, KGotoDefer)] /\
   goto_leaves_defer 1 goto_in_defer = true) /\
  (forall t b sg v, type_info t = Some (b, sg) -> is_inrange b sg v = false ->
   conv_errs_pol false 7 t v true = [] /\ conv_errs_pol true 7 t v true = [(7%nat, KRange)]) /\
  (funcdef_errs_pol false 7 (Some (mksym QConst None 1)) = [] /\
   funcdef_errs_pol true 7 (Some (mksym QConst None 1)) = [(7%nat, KConstAssign)] /\
   funcassign_ok [] (DVar QConst []) = false).

Lemma checks_needed_thm : checks_needed.
Proof.
  repeat apply conj; try reflexivity. exact call_recheck_needed.
Qed.
