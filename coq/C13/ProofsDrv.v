(* C13 (d) - proofs about the drivers: find's search loop, gsub (Nelua's search-based loop = Lua's
   position-by-position loop, for every anchored matcher), gmatch (refuted: no lastmatch rule),
   max/min over partial orders (refuted). *)
From C13 Require Import Model ModelDrv ProofsIdx.
Local Open Scope Z_scope.

(* ------------------------------------------------------------------ find *)
Lemma search_eq_lua k : forall m anchor len p, nl_search k m anchor len p = lua_search k m anchor len p.
Proof.
  induction k as [|k IH]; intros m anchor len p; cbn [nl_search lua_search].
  - destruct (m p) as [[e c]|]; [reflexivity|].
    destruct (Z.ltb_spec len (p + 1)); destruct (Z.ltb_spec p len); destruct anchor; cbn; try reflexivity; lia.
  - destruct (m p) as [[e c]|]; [reflexivity|].
    destruct (Z.ltb_spec len (p + 1)); destruct (Z.ltb_spec p len); destruct anchor; cbn; try reflexivity; try lia.
    apply IH.
Qed.

(* string.find / match: ms:match(init) = Lua's do-while search, whenever init is inside the subject *)
Lemma find_search_eq_lua s m anchor init : init <= slen s ->
  nl_ms_match s m anchor init = lua_do_search s m anchor init.
Proof.
  intros H. unfold nl_ms_match, lua_do_search.
  destruct (Z.ltb_spec (slen s) init); [lia|]. apply search_eq_lua.
Qed.

(* ------------------------------------------------------------------ slices *)
Lemma slice_nil s a : slice s a 0 = [].
Proof. unfold slice. reflexivity. Qed.

Lemma skipn_plus (l : bytes) : forall a b, skipn (a + b) l = skipn a (skipn b l).
Proof.
  intros a b. revert l. induction b as [|b IH]; intros l.
  - rewrite Nat.add_0_r. reflexivity.
  - destruct l as [|x l]; [rewrite !skipn_nil; reflexivity|].
    rewrite Nat.add_succ_r. cbn [skipn]. apply IH.
Qed.

Lemma firstn_plus (l : bytes) : forall a b, firstn (a + b) l = firstn a l ++ firstn b (skipn a l).
Proof.
  intros a b. revert l. induction a as [|a IH]; intros l; [reflexivity|].
  destruct l as [|x l]; [rewrite !firstn_nil; reflexivity|].
  cbn [Nat.add firstn skipn app]. f_equal. apply IH.
Qed.

Lemma slice_app s a n1 n2 : 0 <= a -> 0 <= n1 -> 0 <= n2 ->
  slice s a n1 ++ slice s (a + n1) n2 = slice s a (n1 + n2).
Proof.
  intros Ha H1 H2. unfold slice.
  replace (Z.to_nat (a + n1)) with (Z.to_nat n1 + Z.to_nat a)%nat by lia.
  replace (Z.to_nat (n1 + n2)) with (Z.to_nat n1 + Z.to_nat n2)%nat by lia.
  rewrite skipn_plus, firstn_plus. reflexivity.
Qed.

(* ------------------------------------------------------------------ gsub *)
Section Gsub.
  Variable m : matcher.
  Variable s repl : bytes.
  Variable anchor : bool.
  Variable maxn : Z.
  (* the only facts used about the matcher: a match ends at or after its start and inside the subject *)
  Hypothesis Hm : forall p e c, m p = Some (e, c) -> p <= e <= slen s.

  Notation L := (fun f => lua_gsub_loop f m s repl anchor maxn).
  Notation N := (fun f => nl_gsub_loop f m s repl anchor maxn).

  Lemma m_outside p : slen s < p -> m p = None.
  Proof.
    intros H. destruct (m p) as [[e c]|] eqn:E; [|reflexivity]. apply Hm in E. lia.
  Qed.

  Lemma L_mono_le f : forall g src last n acc r, (f <= g)%nat ->
    lua_gsub_loop f m s repl anchor maxn src last n acc = Some r ->
    lua_gsub_loop g m s repl anchor maxn src last n acc = Some r.
  Proof.
    induction f as [|f IH]; intros g src last n acc r Hle; [discriminate|].
    destruct g as [|g]; [lia|].
    intros H. cbn [lua_gsub_loop] in H. cbn [lua_gsub_loop].
    destruct (n <? maxn); [|exact H].
    destruct (m src) as [[e caps]|].
    - destruct (negb (e =? last)).
      + destruct (expand s src e caps repl); [|exact H].
        destruct anchor; [exact H|]. apply IH; [lia|exact H].
      + destruct (src <? slen s); [|exact H]. destruct anchor; [exact H|]. apply IH; [lia|exact H].
    - destruct (src <? slen s); [|exact H]. destruct anchor; [exact H|]. apply IH; [lia|exact H].
  Qed.

  Lemma L_mono_k k : forall f src last n acc r,
    lua_gsub_loop f m s repl anchor maxn src last n acc = Some r ->
    lua_gsub_loop (k + f) m s repl anchor maxn src last n acc = Some r.
  Proof. intros. eapply L_mono_le; [|eassumption]. lia. Qed.

  (* facts about the search of ms:match *)
  Lemma nl_search_spec k : forall len p st e c,
    nl_search k m anchor len p = Some (st, e, c) ->
    p <= st /\ m st = Some (e, c) /\ (forall q, p <= q < st -> m q = None) /\ (anchor = true -> st = p) /\ st <= len \/ st = p /\ m p = Some (e, c).
  Proof.
    induction k as [|k IH]; intros len p st e c; cbn [nl_search].
    - destruct (m p) as [[e0 c0]|] eqn:E.
      + intros [= <- <- <-]. right. auto.
      + destruct ((len <? p + 1) || anchor); discriminate.
    - destruct (m p) as [[e0 c0]|] eqn:E.
      + intros [= <- <- <-]. right. auto.
      + destruct (Z.ltb_spec len (p + 1)) as [Hlp|Hlp]; cbn [orb]; [discriminate|].
        destruct anchor eqn:Ea; [discriminate|].
        intros Hs. apply IH in Hs. left.
        destruct Hs as [(H1 & H2 & H3 & H4 & H5)|(H1 & H2)].
        * split; [lia|]. split; [exact H2|]. split; [|split; [discriminate|lia]].
          intros q Hq. destruct (Z.eq_dec q p) as [->|]; [exact E|]. apply H3. lia.
        * subst st. split; [lia|]. split; [exact H2|]. split; [|split; [discriminate|lia]].
          intros q Hq. assert (q = p) by lia. subst q. exact E.
  Qed.

  (* uniform reading of a successful ms:match(pos) *)
  Lemma ms_match_some pos st e c : nl_ms_match s m anchor pos = Some (st, e, c) ->
    pos <= st <= slen s /\ m st = Some (e, c) /\ (forall q, pos <= q < st -> m q = None) /\ (anchor = true -> st = pos).
  Proof.
    unfold nl_ms_match. destruct (Z.ltb_spec (slen s) pos) as [Hgt|Hle]; [discriminate|].
    intros Hs. apply nl_search_spec in Hs.
    destruct Hs as [(H1 & H2 & H3 & H4 & H5)|(H1 & H2)].
    - split; [lia|]. split; [exact H2|]. split; [exact H3|exact H4].
    - subst st. split; [lia|]. split; [exact H2|]. split; [intros q Hq; lia|reflexivity].
  Qed.

  Lemma nl_search_none k : forall len p,
    nl_search k m anchor len p = None -> m p = None.
  Proof.
    destruct k; intros len p; cbn [nl_search]; destruct (m p) as [[e c]|]; try discriminate; reflexivity.
  Qed.

  Lemma ms_match_none pos : nl_ms_match s m anchor pos = None -> m pos = None.
  Proof.
    unfold nl_ms_match. destruct (Z.ltb_spec (slen s) pos); [intros _; apply m_outside; lia|].
    apply nl_search_none.
  Qed.

  (* Lua runs over a stretch without matches one character at a time *)
  Lemma L_skip_run d : forall f src last n acc,
    anchor = false -> (n <? maxn) = true -> 0 <= src ->
    (forall q, src <= q < src + Z.of_nat d -> m q = None) -> src + Z.of_nat d <= slen s ->
    lua_gsub_loop (d + f) m s repl anchor maxn src last n acc =
    lua_gsub_loop f m s repl anchor maxn (src + Z.of_nat d) last n (acc ++ slice s src (Z.of_nat d)).
  Proof.
    induction d as [|d IH]; intros f src last n acc Ha Hn Hs Hq Hl.
    - cbn [Nat.add Z.of_nat]. rewrite Z.add_0_r, slice_nil, app_nil_r. reflexivity.
    - cbn [Nat.add]. cbn [lua_gsub_loop]. rewrite Hn.
      rewrite (Hq src) by lia. destruct anchor; [discriminate|].
      destruct (Z.ltb_spec src (slen s)); [|lia].
      rewrite IH; auto; try lia.
      + replace (src + 1 + Z.of_nat d) with (src + Z.of_nat (S d)) by lia.
        rewrite <- app_assoc. rewrite (slice_app s src 1 (Z.of_nat d)) by lia.
        replace (1 + Z.of_nat d) with (Z.of_nat (S d)) by lia. reflexivity.
      + intros q Hq'. apply Hq. lia.
  Qed.

  (* one step of Nelua's loop is a run of steps of Lua's loop *)
  Lemma N_simulated fN : forall pos last n acc r, 0 <= pos ->
    nl_gsub_loop fN m s repl anchor maxn pos last n acc = Some r ->
    exists fL, lua_gsub_loop fL m s repl anchor maxn pos last n acc = Some r.
  Proof.
    pose proof L_skip_run as Hrun.
    induction fN as [|fN IH]; intros pos last n acc r Hpos; [discriminate|].
    cbn [nl_gsub_loop].
    destruct (n <? maxn) eqn:Hn.
    2:{ intros H. exists 1%nat. cbn [lua_gsub_loop]. rewrite Hn. exact H. }
    (* the "skip one character" branch is the same step in both loops whenever Lua sees no usable
       match at pos *)
    assert (Hskip : (m pos = None \/ exists e c, m pos = Some (e, c) /\ e = last) ->
      (if pos <? slen s
       then if anchor then gsub_finish s (pos + 1) n (acc ++ slice s pos 1)
            else nl_gsub_loop fN m s repl anchor maxn (pos + 1) last n (acc ++ slice s pos 1)
       else gsub_finish s pos n acc) = Some r ->
      exists fL, lua_gsub_loop fL m s repl anchor maxn pos last n acc = Some r).
    { intros Hno H.
      destruct (pos <? slen s) eqn:Hlt.
      - destruct anchor eqn:Ea.
        + exists 1%nat. cbn [lua_gsub_loop]. rewrite Hn, Hlt.
          destruct Hno as [->|(e & c & -> & ->)]; [exact H|]. rewrite Z.eqb_refl. cbn [negb]. exact H.
        + apply IH in H; [|lia]. destruct H as [fL H]. exists (S fL). cbn [lua_gsub_loop]. rewrite Hn, Hlt.
          destruct Hno as [->|(e & c & -> & ->)]; [exact H|]. rewrite Z.eqb_refl. cbn [negb]. exact H.
      - exists 1%nat. cbn [lua_gsub_loop]. rewrite Hn, Hlt.
        destruct Hno as [->|(e & c & -> & ->)]; [exact H|]. rewrite Z.eqb_refl. cbn [negb]. exact H. }
    destruct (nl_ms_match s m anchor pos) as [[[st e] caps]|] eqn:Hms.
    2:{ apply Hskip. left. apply ms_match_none. exact Hms. }
    apply ms_match_some in Hms. destruct Hms as (Hst & Hmst & Hbefore & Hanch).
    destruct (Z.eqb_spec e last) as [He|He]; cbn [negb].
    { (* the match found ends where the previous one ended: skip *)
      apply Hskip. destruct (Z.eq_dec st pos) as [->|Hne].
      - right. eauto.
      - left. apply Hbefore. lia. }
    (* a usable match at st >= pos *)
    set (d := Z.to_nat (st - pos)).
    assert (Hd : pos + Z.of_nat d = st) by (subst d; lia).
    destruct (expand s st e caps repl) as [r0|] eqn:Hex.
    - destruct anchor eqn:Ea.
      + (* anchored: st = pos *)
        specialize (Hanch eq_refl). subst st. intros H.
        exists 1%nat. cbn [lua_gsub_loop]. rewrite Hn, Hmst.
        destruct (Z.eqb_spec e last); [contradiction|]. cbn [negb]. rewrite Hex.
        rewrite Z.sub_diag, slice_nil in H. exact H.
      + intros H. apply IH in H; [|apply Hm in Hmst; lia]. destruct H as [fL H].
        exists (d + S fL)%nat.
        rewrite Hrun; auto; try lia.
        * rewrite Hd. cbn [lua_gsub_loop]. rewrite Hn, Hmst.
          destruct (Z.eqb_spec e last); [contradiction|]. cbn [negb]. rewrite Hex.
          replace (Z.of_nat d) with (st - pos) by lia. rewrite <- app_assoc. exact H.
        * intros q Hq. apply Hbefore. lia.
    - intros H. destruct anchor eqn:Ea.
      + specialize (Hanch eq_refl). subst st.
        exists 1%nat. cbn [lua_gsub_loop]. rewrite Hn, Hmst.
        destruct (Z.eqb_spec e last); [contradiction|]. cbn [negb]. rewrite Hex. exact H.
      + exists (d + 1)%nat. rewrite Hrun; auto; try lia.
        * rewrite Hd. cbn [lua_gsub_loop]. rewrite Hn, Hmst.
          destruct (Z.eqb_spec e last); [contradiction|]. cbn [negb]. rewrite Hex. exact H.
        * intros q Hq. apply Hbefore. lia.
  Qed.

  (* termination measure: twice the distance to the end, plus one while an empty match at the
     current position is still allowed *)
  Definition mu (src last : Z) : Z := 2 * Z.max 0 (slen s - src) + (if last =? src then 0 else 1).

  Lemma L_total f : forall src last n acc, mu src last < Z.of_nat f ->
    lua_gsub_loop f m s repl anchor maxn src last n acc <> None.
  Proof.
    induction f as [|f IH]; intros src last n acc Hmu.
    { unfold mu in Hmu. destruct (last =? src); lia. }
    cbn [lua_gsub_loop]. destruct (n <? maxn); [|discriminate].
    assert (Hskip : (if src <? slen s
       then if anchor then gsub_finish s (src + 1) n (acc ++ slice s src 1)
            else lua_gsub_loop f m s repl anchor maxn (src + 1) last n (acc ++ slice s src 1)
       else gsub_finish s src n acc) <> None).
    { destruct (Z.ltb_spec src (slen s)); [|discriminate]. destruct anchor; [discriminate|].
      apply IH. unfold mu in *. destruct (last =? src); destruct (last =? src + 1); lia. }
    destruct (m src) as [[e caps]|] eqn:E; [|exact Hskip].
    destruct (Z.eqb_spec e last) as [He|He]; cbn [negb]; [exact Hskip|].
    destruct (expand s src e caps repl); [|discriminate].
    destruct anchor; [discriminate|]. apply IH. apply Hm in E.
    unfold mu in *. rewrite Z.eqb_refl.
    destruct (Z.eqb_spec last src); [|lia]. assert (src < e) by lia. lia.
  Qed.

  Lemma N_total f : forall pos last n acc, 0 <= pos -> mu pos last < Z.of_nat f ->
    nl_gsub_loop f m s repl anchor maxn pos last n acc <> None.
  Proof.
    induction f as [|f IH]; intros pos last n acc Hpos Hmu.
    { unfold mu in Hmu. destruct (last =? pos); lia. }
    cbn [nl_gsub_loop]. destruct (n <? maxn); [|discriminate].
    assert (Hskip : (if pos <? slen s
       then if anchor then gsub_finish s (pos + 1) n (acc ++ slice s pos 1)
            else nl_gsub_loop f m s repl anchor maxn (pos + 1) last n (acc ++ slice s pos 1)
       else gsub_finish s pos n acc) <> None).
    { destruct (Z.ltb_spec pos (slen s)); [|discriminate]. destruct anchor; [discriminate|].
      apply IH; [lia|]. unfold mu in *. destruct (last =? pos); destruct (last =? pos + 1); lia. }
    destruct (nl_ms_match s m anchor pos) as [[[st e] caps]|] eqn:E; [|exact Hskip].
    apply ms_match_some in E. destruct E as (Hst & Hmst & _ & _).
    destruct (Z.eqb_spec e last) as [He|He]; cbn [negb]; [exact Hskip|].
    destruct (expand s st e caps repl); [|discriminate].
    destruct anchor; [discriminate|]. apply Hm in Hmst. apply IH; [lia|].
    unfold mu in *. rewrite Z.eqb_refl.
    destruct (Z.eqb_spec last pos); [|lia]. assert (pos < e) by lia. lia.
  Qed.

  Lemma mu_init : mu 0 (-1) < Z.of_nat (gsub_fuel s).
  Proof.
    unfold mu, gsub_fuel, slen. cbn [Z.eqb]. lia.
  Qed.

  (* string.gsub = Lua's str_gsub, and neither runs out of fuel *)
  Theorem gsub_eq_lua_gen :
    nl_gsub m s repl anchor maxn = lua_gsub m s repl anchor maxn /\ lua_gsub m s repl anchor maxn <> None.
  Proof.
    unfold nl_gsub, lua_gsub.
    pose proof (N_total (gsub_fuel s) 0 (-1) 0 [] ltac:(lia) mu_init) as HN.
    pose proof (L_total (gsub_fuel s) 0 (-1) 0 [] mu_init) as HL.
    split; [|exact HL].
    destruct (nl_gsub_loop (gsub_fuel s) m s repl anchor maxn 0 (-1) 0 []) as [r|] eqn:EN; [|contradiction].
    destruct (lua_gsub_loop (gsub_fuel s) m s repl anchor maxn 0 (-1) 0 []) as [r'|] eqn:EL; [|contradiction].
    apply N_simulated in EN; [|lia]. destruct EN as [fL EfL].
    apply (L_mono_k (gsub_fuel s)) in EfL. apply (L_mono_k fL) in EL.
    rewrite Nat.add_comm in EL. congruence.
  Qed.
End Gsub.

(* ------------------------------------------------------------------ gmatch *)
(* string.gmatch after 0222fe3 (lastend rule) and 893bab4 ('^' is no anchor): iterating it yields exactly
   the sequence of matches Lua's gmatch yields, for every anchored matcher, subject and start *)
Section Gmatch.
  Variable m : matcher.
  Variable s : bytes.
  Hypothesis Hm : forall p e c, m p = Some (e, c) -> p <= e <= slen s.
  Notation len := (slen s).

  Lemma search_false_some k : forall p st e c,
    nl_search k m false len p = Some (st, e, c) ->
    p <= st /\ m st = Some (e, c) /\ (forall q, p <= q < st -> m q = None) /\ st <= p + Z.of_nat k.
  Proof.
    induction k as [|k IH]; intros p st e c; cbn [nl_search].
    - destruct (m p) as [[e0 c0]|] eqn:E; [|destruct ((len <? p + 1) || false); discriminate].
      intros [= <- <- <-]. repeat split; try lia; auto.
    - destruct (m p) as [[e0 c0]|] eqn:E.
      + intros [= <- <- <-]. repeat split; try lia; auto.
      + rewrite orb_false_r. destruct (Z.ltb_spec len (p + 1)) as [Hlp|Hlp]; [discriminate|].
        intros Hs. apply IH in Hs. destruct Hs as (H1 & H2 & H3 & H4).
        split; [lia|]. split; [exact H2|]. split; [|lia].
        intros q Hq. destruct (Z.eq_dec q p) as [->|]; [exact E|]. apply H3. lia.
  Qed.

  Lemma search_false_none k : forall p, nl_search k m false len p = None -> p + Z.of_nat k >= len ->
    forall q, p <= q <= len -> m q = None.
  Proof.
    induction k as [|k IH]; intros p; cbn [nl_search].
    - destruct (m p) as [[e0 c0]|] eqn:E; [discriminate|]. intros _ Hk q Hq. assert (q = p) by lia. subst. exact E.
    - destruct (m p) as [[e0 c0]|] eqn:E; [discriminate|]. rewrite orb_false_r.
      destruct (Z.ltb_spec len (p + 1)) as [Hlp|Hlp].
      + intros _ _ q Hq. assert (q = p) by lia. subst. exact E.
      + intros Hs Hk q Hq. destruct (Z.eq_dec q p) as [->|]; [exact E|]. apply (IH (p + 1) Hs); lia.
  Qed.

  Lemma lua_next_none k : forall src last, (forall q, src <= q <= len -> m q = None) ->
    lua_gmatch_next k m len src last = None.
  Proof.
    induction k as [|k IH]; intros src last Hn; cbn [lua_gmatch_next];
      destruct (Z.ltb_spec len src); try reflexivity; rewrite (Hn src) by lia; [reflexivity|].
    apply IH. intros q Hq. apply Hn. lia.
  Qed.

  Lemma lua_next_skip d : forall k src last, (forall q, src <= q < src + Z.of_nat d -> m q = None) ->
    src + Z.of_nat d <= len ->
    lua_gmatch_next (d + k) m len src last = lua_gmatch_next k m len (src + Z.of_nat d) last.
  Proof.
    induction d as [|d IH]; intros k src last Hn Hl.
    - cbn [Nat.add Z.of_nat]. rewrite Z.add_0_r. reflexivity.
    - cbn [Nat.add lua_gmatch_next]. destruct (Z.ltb_spec len src); [lia|].
      rewrite (Hn src) by lia. rewrite IH; [f_equal; lia| |lia].
      intros q Hq. apply Hn. lia.
  Qed.

  Lemma next_out pos : len < pos ->
    (forall kN le, nl_gmatch_next kN m s pos le = None) /\ (forall k last, lua_gmatch_next k m len pos last = None).
  Proof.
    intros H. split.
    - intros kN le. destruct kN; cbn [nl_gmatch_next]; unfold nl_ms_match; destruct (Z.ltb_spec len pos); try lia; reflexivity.
    - intros k last. destruct k; cbn [lua_gmatch_next]; destruct (Z.ltb_spec len pos); try lia; reflexivity.
  Qed.

  (* one call of the iterator *)
  Lemma gmatch_next_eq n : forall pos last kN, 0 <= pos -> (Z.to_nat (len + 1 - pos) <= n)%nat -> (n <= kN)%nat ->
    nl_gmatch_next kN m s pos (last + 1) = lua_gmatch_next (Z.to_nat (len - pos)) m len pos last.
  Proof.
    induction n as [|n IH]; intros pos last kN Hpos Hn Hk.
    - (* pos > len *)
      destruct (next_out pos ltac:(lia)) as [E1 E2]. rewrite E1, E2. reflexivity.
    - destruct (Z.ltb_spec len pos) as [Hout|Hin].
      { destruct (next_out pos Hout) as [E1 E2]. rewrite E1, E2. reflexivity. }
      assert (Hstep : nl_gmatch_next kN m s pos (last + 1) =
                      match nl_ms_match s m false pos with
                      | None => None
                      | Some (st, e, c) =>
                          if e + 1 =? last + 1 then
                            match kN with O => None | S k' => nl_gmatch_next k' m s (st + 1) (last + 1) end
                          else Some (st, e, c)
                      end) by (destruct kN; reflexivity).
      rewrite Hstep. unfold nl_ms_match. destruct (Z.ltb_spec len pos); [lia|].
      destruct (nl_search (Z.to_nat (len - pos)) m false len pos) as [[[st e] c]|] eqn:Es.
      + apply search_false_some in Es. destruct Es as (H1 & H2 & H3 & H4).
        assert (Hst : st <= len) by lia.
        replace (Z.to_nat (len - pos)) with (Z.to_nat (st - pos) + Z.to_nat (len - st))%nat by lia.
        rewrite lua_next_skip; [|intros q Hq; apply H3; lia|lia].
        replace (pos + Z.of_nat (Z.to_nat (st - pos))) with st by lia.
        destruct (Z.eqb_spec (e + 1) (last + 1)) as [He|He].
        * (* ends where the last match ended: both go on one character later *)
          assert (e = last) by lia. subst e.
          destruct (Z.to_nat (len - st)) as [|k'] eqn:Ek; cbn [lua_gmatch_next];
            (destruct (Z.ltb_spec len st); [lia|]); rewrite H2, Z.eqb_refl; cbn [negb].
          -- (* st = len: nothing left *)
             destruct kN as [|kN']; [reflexivity|].
             apply (next_out (st + 1)). lia.
          -- destruct kN as [|kN']; [lia|].
             rewrite (IH (st + 1) last kN') by lia. f_equal. lia.
        * destruct (Z.to_nat (len - st)); cbn [lua_gmatch_next];
            (destruct (Z.ltb_spec len st); [lia|]); rewrite H2;
            (destruct (Z.eqb_spec e last); [lia|reflexivity]).
      + symmetry. apply lua_next_none. apply (search_false_none _ _ Es). lia.
  Qed.

  Lemma gmatch_all_eq f : forall src last, 0 <= src ->
    nl_gmatch_all f m s src (last + 1) = lua_gmatch_all f m s src last.
  Proof.
    induction f as [|f IH]; intros src last Hs; [reflexivity|].
    cbn [nl_gmatch_all lua_gmatch_all].
    rewrite (gmatch_next_eq (S (length s)) src last (S (length s))) by (unfold slen; lia).
    destruct (lua_gmatch_next (Z.to_nat (len - src)) m len src last) as [[[st e] c]|] eqn:E; [|reflexivity].
    assert (He : 0 <= e).
    { clear IH. revert E. generalize (Z.to_nat (len - src)) as k. intros k. revert src Hs.
      induction k as [|k IHk]; intros src Hs; cbn [lua_gmatch_next]; destruct (len <? src); try discriminate;
        destruct (m src) as [[e0 c0]|] eqn:Em; try discriminate.
      - destruct (negb (e0 =? last)); [|discriminate]. intros [= <- <- <-]. apply Hm in Em. lia.
      - destruct (negb (e0 =? last)); [intros [= <- <- <-]; apply Hm in Em; lia|]. apply IHk. lia.
      - apply IHk. lia. }
    rewrite (IH e e He). reflexivity.
  Qed.

  Lemma lua_next_range k : forall src last st e c, lua_gmatch_next k m len src last = Some (st, e, c) ->
    src <= st /\ st <= e <= len /\ e <> last.
  Proof.
    induction k as [|k IH]; intros src last st e c; cbn [lua_gmatch_next]; destruct (len <? src); try discriminate;
      destruct (m src) as [[e0 c0]|] eqn:Em; try discriminate.
    - destruct (Z.eqb_spec e0 last); cbn [negb]; [discriminate|]. intros [= <- <- <-]. apply Hm in Em. lia.
    - destruct (Z.eqb_spec e0 last); cbn [negb].
      + intros H. apply IH in H. lia.
      + intros [= <- <- <-]. apply Hm in Em. lia.
    - intros H. apply IH in H. lia.
  Qed.

  (* Lua's iteration ends: after a match ending at e the next match ends strictly later *)
  Lemma lua_gmatch_total f : forall src last, last <= src -> Z.max 0 (len - last) < Z.of_nat f ->
    lua_gmatch_all f m s src last <> None.
  Proof.
    induction f as [|f IH]; intros src last Hl Hf; [lia|].
    cbn [lua_gmatch_all].
    destruct (lua_gmatch_next (Z.to_nat (len - src)) m len src last) as [[[st e] c]|] eqn:E; [|discriminate].
    apply lua_next_range in E. destruct E as (H1 & H2 & H3).
    assert (last < e) by lia.
    specialize (IH e e ltac:(lia) ltac:(lia)). destruct (lua_gmatch_all f m s e e); [discriminate|contradiction].
  Qed.

  Theorem gmatch_eq_lua_gen init : 0 <= init ->
    nl_gmatch m s init = lua_gmatch m s init /\ lua_gmatch m s init <> None.
  Proof.
    intros Hi. unfold nl_gmatch, lua_gmatch. change 0 with (-1 + 1) at 1.
    rewrite gmatch_all_eq by exact Hi. split; [reflexivity|].
    apply lua_gmatch_total; [lia|]. unfold slen. lia.
  Qed.
End Gmatch.

(* ------------------------------------------------------------------ max / min with two arguments *)
(* after 873f3b9 the two-argument forms compare exactly like lmathlib.c, for every order relation
   (floats with NaN and signed zeros included) *)
Lemma max2_eq_lua (A : Type) (lt : A -> A -> bool) (x y : A) :
  nl_max2_gen A lt x y = lua_max2_gen A lt x y /\ nl_min2_gen A lt x y = lua_min2_gen A lt x y.
Proof. split; reflexivity. Qed.
