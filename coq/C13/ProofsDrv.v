(* C13 (d) - proofs about the drivers: find's search loop, gsub (Nelua's search-based loop = Lua's
   position-by-position loop, for every anchored matcher), gmatch (refuted: no lastmatch rule),
   max/min over partial orders (refuted). *)
From C13 Require Import Model ModelDrv ProofsIdx.
Local Open Scope Z_scope.

(* ------------------------------------------------------------------ find *)
Lemma search_eq_lua k : forall m anchor len p, nl_search k m anchor len p = lua_search k m anchor len p.
Proof.
  induction k as [|k IH]; intros m anchor len p; cbn [nl_search lua_search].
  - destruct (m p) as [[e c]|]; [reflexivity|].
    destruct (Z.ltb_spec len (p + 1)); destruct (Z.ltb_spec p len); destruct anchor; cbn; try reflexivity; lia.
  - destruct (m p) as [[e c]|]; [reflexivity|].
    destruct (Z.ltb_spec len (p + 1)); destruct (Z.ltb_spec p len); destruct anchor; cbn; try reflexivity; try lia.
    apply IH.
Qed.

(* string.find / match: ms:match(init) = Lua's do-while search, whenever init is inside the subject *)
Lemma find_search_eq_lua s m anchor init : init <= slen s ->
  nl_ms_match s m anchor init = lua_do_search s m anchor init.
Proof.
  intros H. unfold nl_ms_match, lua_do_search.
  destruct (Z.ltb_spec (slen s) init); [lia|]. apply search_eq_lua.
Qed.

(* ------------------------------------------------------------------ slices *)
Lemma slice_nil s a : slice s a 0 = [].
Proof. unfold slice. reflexivity. Qed.

Lemma skipn_plus (l : bytes) : forall a b, skipn (a + b) l = skipn a (skipn b l).
Proof.
  intros a b. revert l. induction b as [|b IH]; intros l.
  - rewrite Nat.add_0_r. reflexivity.
  - destruct l as [|x l]; [rewrite !skipn_nil; reflexivity|].
    rewrite Nat.add_succ_r. cbn [skipn]. apply IH.
Qed.

Lemma firstn_plus (l : bytes) : forall a b, firstn (a + b) l = firstn a l ++ firstn b (skipn a l).
Proof.
  intros a b. revert l. induction a as [|a IH]; intros l; [reflexivity|].
  destruct l as [|x l]; [rewrite !firstn_nil; reflexivity|].
  cbn [Nat.add firstn skipn app]. f_equal. apply IH.
Qed.

Lemma slice_app s a n1 n2 : 0 <= a -> 0 <= n1 -> 0 <= n2 ->
  slice s a n1 ++ slice s (a + n1) n2 = slice s a (n1 + n2).
Proof.
  intros Ha H1 H2. unfold slice.
  replace (Z.to_nat (a + n1)) with (Z.to_nat n1 + Z.to_nat a)%nat by lia.
  replace (Z.to_nat (n1 + n2)) with (Z.to_nat n1 + Z.to_nat n2)%nat by lia.
  rewrite skipn_plus, firstn_plus. reflexivity.
Qed.

(* ------------------------------------------------------------------ gsub *)
Section Gsub.
  Variable m : matcher.
  Variable s repl : bytes.
  Variable anchor : bool.
  Variable maxn : Z.
  (* the only facts used about the matcher: a match ends at or after its start and inside the subject *)
  Hypothesis Hm : forall p e c, m p = Some (e, c) -> p <= e <= slen s.

  Notation L := (fun f => lua_gsub_loop f m s repl anchor maxn).
  Notation N := (fun f => nl_gsub_loop f m s repl anchor maxn).

  Lemma m_outside p : slen s < p -> m p = None.
  Proof.
    intros H. destruct (m p) as [[e c]|] eqn:E; [|reflexivity]. apply Hm in E. lia.
  Qed.

  Lemma L_mono_le f : forall g src last n acc r, (f <= g)%nat ->
    lua_gsub_loop f m s repl anchor maxn src last n acc = Some r ->
    lua_gsub_loop g m s repl anchor maxn src last n acc = Some r.
  Proof.
    induction f as [|f IH]; intros g src last n acc r Hle; [discriminate|].
    destruct g as [|g]; [lia|].
    intros H. cbn [lua_gsub_loop] in H. cbn [lua_gsub_loop].
    destruct (n <? maxn); [|exact H].
    destruct (m src) as [[e caps]|].
    - destruct (negb (e =? last)).
      + destruct (expand s src e caps repl); [|exact H].
        destruct anchor; [exact H|]. apply IH; [lia|exact H].
      + destruct (src <? slen s); [|exact H]. destruct anchor; [exact H|]. apply IH; [lia|exact H].
    - destruct (src <? slen s); [|exact H]. destruct anchor; [exact H|]. apply IH; [lia|exact H].
  Qed.

  Lemma L_mono_k k : forall f src last n acc r,
    lua_gsub_loop f m s repl anchor maxn src last n acc = Some r ->
    lua_gsub_loop (k + f) m s repl anchor maxn src last n acc = Some r.
  Proof. intros. eapply L_mono_le; [|eassumption]. lia. Qed.

  (* facts about the search of ms:match *)
  Lemma nl_search_spec k : forall len p st e c,
    nl_search k m anchor len p = Some (st, e, c) ->
    p <= st /\ m st = Some (e, c) /\ (forall q, p <= q < st -> m q = None) /\ (anchor = true -> st = p) /\ st <= len \/ st = p /\ m p = Some (e, c).
  Proof.
    induction k as [|k IH]; intros len p st e c; cbn [nl_search].
    - destruct (m p) as [[e0 c0]|] eqn:E.
      + intros [= <- <- <-]. right. auto.
      + destruct ((len <? p + 1) || anchor); discriminate.
    - destruct (m p) as [[e0 c0]|] eqn:E.
      + intros [= <- <- <-]. right. auto.
      + destruct (Z.ltb_spec len (p + 1)) as [Hlp|Hlp]; cbn [orb]; [discriminate|].
        destruct anchor eqn:Ea; [discriminate|].
        intros Hs. apply IH in Hs. left.
        destruct Hs as [(H1 & H2 & H3 & H4 & H5)|(H1 & H2)].
        * split; [lia|]. split; [exact H2|]. split; [|split; [discriminate|lia]].
          intros q Hq. destruct (Z.eq_dec q p) as [->|]; [exact E|]. apply H3. lia.
        * subst st. split; [lia|]. split; [exact H2|]. split; [|split; [discriminate|lia]].
          intros q Hq. assert (q = p) by lia. subst q. exact E.
  Qed.

  (* uniform reading of a successful ms:match(pos) *)
  Lemma ms_match_some pos st e c : nl_ms_match s m anchor pos = Some (st, e, c) ->
    pos <= st <= slen s /\ m st = Some (e, c) /\ (forall q, pos <= q < st -> m q = None) /\ (anchor = true -> st = pos).
  Proof.
    unfold nl_ms_match. destruct (Z.ltb_spec (slen s) pos) as [Hgt|Hle]; [discriminate|].
    intros Hs. apply nl_search_spec in Hs.
    destruct Hs as [(H1 & H2 & H3 & H4 & H5)|(H1 & H2)].
    - split; [lia|]. split; [exact H2|]. split; [exact H3|exact H4].
    - subst st. split; [lia|]. split; [exact H2|]. split; [intros q Hq; lia|reflexivity].
  Qed.

  Lemma nl_search_none k : forall len p,
    nl_search k m anchor len p = None -> m p = None.
  Proof.
    destruct k; intros len p; cbn [nl_search]; destruct (m p) as [[e c]|]; try discriminate; reflexivity.
  Qed.

  Lemma ms_match_none pos : nl_ms_match s m anchor pos = None -> m pos = None.
  Proof.
    unfold nl_ms_match. destruct (Z.ltb_spec (slen s) pos); [intros _; apply m_outside; lia|].
    apply nl_search_none.
  Qed.

  (* Lua runs over a stretch without matches one character at a time *)
  Lemma L_skip_run d : forall f src last n acc,
    anchor = false -> (n <? maxn) = true -> 0 <= src ->
    (forall q, src <= q < src + Z.of_nat d -> m q = None) -> src + Z.of_nat d <= slen s ->
    lua_gsub_loop (d + f) m s repl anchor maxn src last n acc =
    lua_gsub_loop f m s repl anchor maxn (src + Z.of_nat d) last n (acc ++ slice s src (Z.of_nat d)).
  Proof.
    induction d as [|d IH]; intros f src last n acc Ha Hn Hs Hq Hl.
    - cbn [Nat.add Z.of_nat]. rewrite Z.add_0_r, slice_nil, app_nil_r. reflexivity.
    - cbn [Nat.add]. cbn [lua_gsub_loop]. rewrite Hn.
      rewrite (Hq src) by lia. destruct anchor; [discriminate|].
      destruct (Z.ltb_spec src (slen s)); [|lia].
      rewrite IH; auto; try lia.
      + replace (src + 1 + Z.of_nat d) with (src + Z.of_nat (S d)) by lia.
        rewrite <- app_assoc. rewrite (slice_app s src 1 (Z.of_nat d)) by lia.
        replace (1 + Z.of_nat d) with (Z.of_nat (S d)) by lia. reflexivity.
      + intros q Hq'. apply Hq. lia.
  Qed.

  (* one step of Nelua's loop is a run of steps of Lua's loop *)
  Lemma N_simulated fN : forall pos last n acc r, 0 <= pos ->
    nl_gsub_loop fN m s repl anchor maxn pos last n acc = Some r ->
    exists fL, lua_gsub_loop fL m s repl anchor maxn pos last n acc = Some r.
  Proof.
    pose proof L_skip_run as Hrun.
    induction fN as [|fN IH]; intros pos last n acc r Hpos; [discriminate|].
    cbn [nl_gsub_loop].
    destruct (n <? maxn) eqn:Hn.
    2:{ intros H. exists 1%nat. cbn [lua_gsub_loop]. rewrite Hn. exact H. }
    (* the "skip one character" branch is the same step in both loops whenever Lua sees no usable
       match at pos *)
    assert (Hskip : (m pos = None \/ exists e c, m pos = Some (e, c) /\ e = last) ->
      (if pos <? slen s
       then if anchor then gsub_finish s (pos + 1) n (acc ++ slice s pos 1)
            else nl_gsub_loop fN m s repl anchor maxn (pos + 1) last n (acc ++ slice s pos 1)
       else gsub_finish s pos n acc) = Some r ->
      exists fL, lua_gsub_loop fL m s repl anchor maxn pos last n acc = Some r).
    { intros Hno H.
      destruct (pos <? slen s) eqn:Hlt.
      - destruct anchor eqn:Ea.
        + exists 1%nat. cbn [lua_gsub_loop]. rewrite Hn, Hlt.
          destruct Hno as [->|(e & c & -> & ->)]; [exact H|]. rewrite Z.eqb_refl. cbn [negb]. exact H.
        + apply IH in H; [|lia]. destruct H as [fL H]. exists (S fL). cbn [lua_gsub_loop]. rewrite Hn, Hlt.
          destruct Hno as [->|(e & c & -> & ->)]; [exact H|]. rewrite Z.eqb_refl. cbn [negb]. exact H.
      - exists 1%nat. cbn [lua_gsub_loop]. rewrite Hn, Hlt.
        destruct Hno as [->|(e & c & -> & ->)]; [exact H|]. rewrite Z.eqb_refl. cbn [negb]. exact H. }
    destruct (nl_ms_match s m anchor pos) as [[[st e] caps]|] eqn:Hms.
    2:{ apply Hskip. left. apply ms_match_none. exact Hms. }
    apply ms_match_some in Hms. destruct Hms as (Hst & Hmst & Hbefore & Hanch).
    destruct (Z.eqb_spec e last) as [He|He]; cbn [negb].
    { (* the match found ends where the previous one ended: skip *)
      apply Hskip. destruct (Z.eq_dec st pos) as [->|Hne].
      - right. eauto.
      - left. apply Hbefore. lia. }
    (* a usable match at st >= pos *)
    set (d := Z.to_nat (st - pos)).
    assert (Hd : pos + Z.of_nat d = st) by (subst d; lia).
    destruct (expand s st e caps repl) as [r0|] eqn:Hex.
    - destruct anchor eqn:Ea.
      + (* anchored: st = pos *)
        specialize (Hanch eq_refl). subst st. intros H.
        exists 1%nat. cbn [lua_gsub_loop]. rewrite Hn, Hmst.
        destruct (Z.eqb_spec e last); [contradiction|]. cbn [negb]. rewrite Hex.
        rewrite Z.sub_diag, slice_nil in H. exact H.
      + intros H. apply IH in H; [|apply Hm in Hmst; lia]. destruct H as [fL H].
        exists (d + S fL)%nat.
        rewrite Hrun; auto; try lia.
        * rewrite Hd. cbn [lua_gsub_loop]. rewrite Hn, Hmst.
          destruct (Z.eqb_spec e last); [contradiction|]. cbn [negb]. rewrite Hex.
          replace (Z.of_nat d) with (st - pos) by lia. rewrite <- app_assoc. exact H.
        * intros q Hq. apply Hbefore. lia.
    - intros H. destruct anchor eqn:Ea.
      + specialize (Hanch eq_refl). subst st.
        exists 1%nat. cbn [lua_gsub_loop]. rewrite Hn, Hmst.
        destruct (Z.eqb_spec e last); [contradiction|]. cbn [negb]. rewrite Hex. exact H.
      + exists (d + 1)%nat. rewrite Hrun; auto; try lia.
        * rewrite Hd. cbn [lua_gsub_loop]. rewrite Hn, Hmst.
          destruct (Z.eqb_spec e last); [contradiction|]. cbn [negb]. rewrite Hex. exact H.
        * intros q Hq. apply Hbefore. lia.
  Qed.

  (* termination measure: twice the distance to the end, plus one while an empty match at the
     current position is still allowed *)
  Definition mu (src last : Z) : Z := 2 * Z.max 0 (slen s - src) + (if last =? src then 0 else 1).

  Lemma L_total f : forall src last n acc, mu src last < Z.of_nat f ->
    lua_gsub_loop f m s repl anchor maxn src last n acc <> None.
  Proof.
    induction f as [|f IH]; intros src last n acc Hmu.
    { unfold mu in Hmu. destruct (last =? src); lia. }
    cbn [lua_gsub_loop]. destruct (n <? maxn); [|discriminate].
    assert (Hskip : (if src <? slen s
       then if anchor then gsub_finish s (src + 1) n (acc ++ slice s src 1)
            else lua_gsub_loop f m s repl anchor maxn (src + 1) last n (acc ++ slice s src 1)
       else gsub_finish s src n acc) <> None).
    { destruct (Z.ltb_spec src (slen s)); [|discriminate]. destruct anchor; [discriminate|].
      apply IH. unfold mu in *. destruct (last =? src); destruct (last =? src + 1); lia. }
    destruct (m src) as [[e caps]|] eqn:E; [|exact Hskip].
    destruct (Z.eqb_spec e last) as [He|He]; cbn [negb]; [exact Hskip|].
    destruct (expand s src e caps repl); [|discriminate].
    destruct anchor; [discriminate|]. apply IH. apply Hm in E.
    unfold mu in *. rewrite Z.eqb_refl.
    destruct (Z.eqb_spec last src); [|lia]. assert (src < e) by lia. lia.
  Qed.

  Lemma N_total f : forall pos last n acc, 0 <= pos -> mu pos last < Z.of_nat f ->
    nl_gsub_loop f m s repl anchor maxn pos last n acc <> None.
  Proof.
    induction f as [|f IH]; intros pos last n acc Hpos Hmu.
    { unfold mu in Hmu. destruct (last =? pos); lia. }
    cbn [nl_gsub_loop]. destruct (n <? maxn); [|discriminate].
    assert (Hskip : (if pos <? slen s
       then if anchor then gsub_finish s (pos + 1) n (acc ++ slice s pos 1)
            else nl_gsub_loop f m s repl anchor maxn (pos + 1) last n (acc ++ slice s pos 1)
       else gsub_finish s pos n acc) <> None).
    { destruct (Z.ltb_spec pos (slen s)); [|discriminate]. destruct anchor; [discriminate|].
      apply IH; [lia|]. unfold mu in *. destruct (last =? pos); destruct (last =? pos + 1); lia. }
    destruct (nl_ms_match s m anchor pos) as [[[st e] caps]|] eqn:E; [|exact Hskip].
    apply ms_match_some in E. destruct E as (Hst & Hmst & _ & _).
    destruct (Z.eqb_spec e last) as [He|He]; cbn [negb]; [exact Hskip|].
    destruct (expand s st e caps repl); [|discriminate].
    destruct anchor; [discriminate|]. apply Hm in Hmst. apply IH; [lia|].
    unfold mu in *. rewrite Z.eqb_refl.
    destruct (Z.eqb_spec last pos); [|lia]. assert (pos < e) by lia. lia.
  Qed.

  Lemma mu_init : mu 0 (-1) < Z.of_nat (gsub_fuel s).
  Proof.
    unfold mu, gsub_fuel, slen. cbn [Z.eqb]. lia.
  Qed.

  (* string.gsub = Lua's str_gsub, and neither runs out of fuel *)
  Theorem gsub_eq_lua_gen :
    nl_gsub m s repl anchor maxn = lua_gsub m s repl anchor maxn /\ lua_gsub m s repl anchor maxn <> None.
  Proof.
    unfold nl_gsub, lua_gsub.
    pose proof (N_total (gsub_fuel s) 0 (-1) 0 [] ltac:(lia) mu_init) as HN.
    pose proof (L_total (gsub_fuel s) 0 (-1) 0 [] mu_init) as HL.
    split; [|exact HL].
    destruct (nl_gsub_loop (gsub_fuel s) m s repl anchor maxn 0 (-1) 0 []) as [r|] eqn:EN; [|contradiction].
    destruct (lua_gsub_loop (gsub_fuel s) m s repl anchor maxn 0 (-1) 0 []) as [r'|] eqn:EL; [|contradiction].
    apply N_simulated in EN; [|lia]. destruct EN as [fL EfL].
    apply (L_mono_k (gsub_fuel s)) in EfL. apply (L_mono_k fL) in EL.
    rewrite Nat.add_comm in EL. congruence.
  Qed.
End Gsub.

(* ------------------------------------------------------------------ gmatch *)
(* the matcher of the pattern "x*" on a subject of length len without 'x': the empty match at every
   position of the subject *)
Definition empty_matcher (len : Z) : matcher :=
  fun p => if (0 <=? p) && (p <=? len) then Some (p, []) else None.

Lemma empty_matcher_ok len p e c : empty_matcher len p = Some (e, c) -> p <= e <= len.
Proof.
  unfold empty_matcher. destruct (Z.leb_spec 0 p); destruct (Z.leb_spec p len); cbn [andb]; try discriminate.
  intros [= <- <-]. lia.
Qed.

Lemma nl_gmatch_empty_loops f : forall s init, 0 <= init <= slen s ->
  nl_gmatch_all f (empty_matcher (slen s)) s false init = None.
Proof.
  induction f as [|f IH]; intros s init Hi; [reflexivity|].
  cbn [nl_gmatch_all]. unfold nl_ms_match.
  destruct (Z.ltb_spec (slen s) init); [lia|].
  assert (Hm : empty_matcher (slen s) init = Some (init, [])).
  { unfold empty_matcher. destruct (Z.leb_spec 0 init); destruct (Z.leb_spec init (slen s)); cbn [andb]; try lia. reflexivity. }
  assert (E : nl_search (Z.to_nat (slen s - init)) (empty_matcher (slen s)) false (slen s) init = Some (init, init, [])).
  { destruct (Z.to_nat (slen s - init)); cbn [nl_search]; rewrite Hm; reflexivity. }
  rewrite E. rewrite IH by exact Hi. reflexivity.
Qed.

(* full statement: iterating string.gmatch yields, with enough fuel, the sequence of matches that
   Lua's gmatch yields *)
Definition gmatch_eq_lua : Prop :=
  forall (m : matcher) (s : bytes),
    (forall p e c, m p = Some (e, c) -> p <= e <= slen s) ->
    exists fuel, nl_gmatch_all fuel m s false 0 = lua_gmatch m s 0 /\ lua_gmatch m s 0 <> None.

(* ("abc"):gmatch("x*"): Lua yields four empty matches ... *)
Lemma gmatch_witness_lua :
  lua_gmatch (empty_matcher 3) [97; 98; 99] 0 = Some [(0, 0, []); (1, 1, []); (2, 2, []); (3, 3, [])].
Proof. vm_compute. reflexivity. Qed.

(* ... and Nelua's iteration never ends, whatever the fuel *)
Lemma gmatch_eq_lua_refuted : ~ gmatch_eq_lua.
Proof.
  intros H. destruct (H (empty_matcher 3) [97; 98; 99]) as [fuel [E Hne]].
  { apply empty_matcher_ok. }
  change 3 with (slen [97; 98; 99]) in E at 1.
  rewrite nl_gmatch_empty_loops in E by (unfold slen; cbn; lia).
  apply Hne. symmetry. exact E.
Qed.

(* the strongest true restriction: a matcher that never matches the empty string *)
Section GmatchPartial.
  Variable m : matcher.
  Variable s : bytes.
  Hypothesis Hm : forall p e c, m p = Some (e, c) -> p < e <= slen s.

  Lemma gm_next_eq k : forall src last, last <= src ->
    lua_gmatch_next k m (slen s) src last =
    (if slen s <? src then None else nl_search k m false (slen s) src).
  Proof.
    induction k as [|k IH]; intros src last Hl; cbn [lua_gmatch_next nl_search].
    - destruct (Z.ltb_spec (slen s) src); [reflexivity|].
      destruct (m src) as [[e c]|] eqn:E.
      + apply Hm in E. destruct (Z.eqb_spec e last); [lia|]. reflexivity.
      + rewrite orb_false_r. destruct (slen s <? src + 1); reflexivity.
    - destruct (Z.ltb_spec (slen s) src); [reflexivity|].
      destruct (m src) as [[e c]|] eqn:E.
      + apply Hm in E. destruct (Z.eqb_spec e last); [lia|]. reflexivity.
      + rewrite orb_false_r. rewrite IH by lia.
        destruct (Z.ltb_spec (slen s) (src + 1)); reflexivity.
  Qed.

  Lemma nl_search_ge k : forall len p st e c,
    nl_search k m false len p = Some (st, e, c) -> p <= st /\ m st = Some (e, c).
  Proof.
    induction k as [|k IH]; intros len p st e c; cbn [nl_search].
    - destruct (m p) as [[e0 c0]|] eqn:E; [intros [= <- <- <-]; split; [lia|exact E]|].
      destruct ((len <? p + 1) || false); discriminate.
    - destruct (m p) as [[e0 c0]|] eqn:E; [intros [= <- <- <-]; split; [lia|exact E]|].
      destruct ((len <? p + 1) || false); [discriminate|]. intros H. apply IH in H. split; [lia|tauto].
  Qed.

  Lemma gmatch_all_eq f : forall src last, last <= src ->
    lua_gmatch_all f m s src last = nl_gmatch_all f m s false src.
  Proof.
    induction f as [|f IH]; intros src last Hl; [reflexivity|].
    cbn [lua_gmatch_all nl_gmatch_all]. unfold nl_ms_match. rewrite gm_next_eq by exact Hl.
    destruct (slen s <? src); [reflexivity|].
    destruct (nl_search (Z.to_nat (slen s - src)) m false (slen s) src) as [[[st e] c]|]; [|reflexivity].
    rewrite IH by lia. reflexivity.
  Qed.

  Lemma nl_gmatch_total f : forall src, Z.max 0 (slen s - src + 1) < Z.of_nat f ->
    nl_gmatch_all f m s false src <> None.
  Proof.
    induction f as [|f IH]; intros src Hf; [lia|].
    cbn [nl_gmatch_all]. unfold nl_ms_match.
    destruct (Z.ltb_spec (slen s) src); [discriminate|].
    destruct (nl_search (Z.to_nat (slen s - src)) m false (slen s) src) as [[[st e] c]|] eqn:E; [|discriminate].
    apply nl_search_ge in E. destruct E as [Hst E]. apply Hm in E.
    specialize (IH e ltac:(lia)). destruct (nl_gmatch_all f m s false e); [discriminate|contradiction].
  Qed.

  Theorem gmatch_eq_lua_partial_gen init : 0 <= init ->
    nl_gmatch_all (S (S (length s))) m s false init = lua_gmatch m s init /\ lua_gmatch m s init <> None.
  Proof.
    intros Hi. unfold lua_gmatch. rewrite gmatch_all_eq by lia. split; [reflexivity|].
    apply nl_gmatch_total. unfold slen. lia.
  Qed.
End GmatchPartial.

(* ------------------------------------------------------------------ max / min with two arguments *)
(* full statement: math.max(x, y) / math.min(x, y) agree with Lua for every order relation [lt] *)
Definition max2_eq_lua : Prop :=
  forall (A : Type) (lt : A -> A -> bool) (x y : A),
    nl_max2_gen A lt x y = lua_max2_gen A lt x y /\ nl_min2_gen A lt x y = lua_min2_gen A lt x y.

(* floats: NaN is below nothing and above nothing (the same happens with 0.0 and -0.0, which compare
   equal but differ); modelled as the two-point domain with the empty order *)
Lemma max2_eq_lua_refuted : ~ max2_eq_lua.
Proof.
  intros H. destruct (H bool (fun _ _ => false) true false) as [E _]. discriminate.
Qed.

(* the strongest true restriction: any total order in which incomparable means equal (integers) *)
Lemma max2_eq_lua_partial (A : Type) (lt : A -> A -> bool) (x y : A) :
  (lt x y = false -> lt y x = false -> x = y) -> (lt x y = true -> lt y x = false) ->
  nl_max2_gen A lt x y = lua_max2_gen A lt x y /\ nl_min2_gen A lt x y = lua_min2_gen A lt x y.
Proof.
  intros Htot Hasym. unfold nl_max2_gen, lua_max2_gen, nl_min2_gen, lua_min2_gen.
  destruct (lt x y) eqn:E1; destruct (lt y x) eqn:E2; auto.
  all: try (specialize (Hasym eq_refl); congruence).
  all: specialize (Htot eq_refl eq_refl); subst; auto.
Qed.
