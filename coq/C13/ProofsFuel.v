(* C13 - the loop bounds of the drivers are never what ends them: each bounded loop returns the same result under
   ANY larger bound (so the value it returns when the bound runs out - "no match", "end of iteration", an error - is
   never returned for that reason).  Same device as for the matcher's inner loops (ProofsPatFuel.v). *)
From C13 Require Import Model ModelDrv ModelFmt ModelPackFmt ProofsIdx ProofsFmt.
Local Open Scope Z_scope.

(* ---- find: the search loops ---- *)
Lemma lua_search_stable m anchor len : forall k1 k2 s1, len - s1 <= Z.of_nat k1 -> len - s1 <= Z.of_nat k2 ->
  lua_search k1 m anchor len s1 = lua_search k2 m anchor len s1.
Proof.
  induction k1 as [|k1 IH]; intros k2 s1 H1 H2; destruct k2 as [|k2]; cbn [lua_search];
    destruct (m s1) as [[e c]|]; try reflexivity;
    destruct (Z.ltb_spec s1 len); cbn [andb]; try reflexivity; try lia;
    destruct (negb anchor); try reflexivity. apply IH; lia.
Qed.

Lemma nl_search_stable m anchor len : forall k1 k2 s0, len - s0 <= Z.of_nat k1 -> len - s0 <= Z.of_nat k2 ->
  nl_search k1 m anchor len s0 = nl_search k2 m anchor len s0.
Proof.
  induction k1 as [|k1 IH]; intros k2 s0 H1 H2; destruct k2 as [|k2]; cbn [nl_search];
    destruct (m s0) as [[e c]|]; try reflexivity;
    destruct (Z.ltb_spec len (s0 + 1)); cbn [orb]; try reflexivity; try lia;
    destruct anchor; try reflexivity. apply IH; lia.
Qed.

Lemma nl_search_start k m anchor len : forall s0 st e c, nl_search k m anchor len s0 = Some (st, e, c) -> s0 <= st.
Proof.
  induction k as [|k IH]; intros s0 st e c; cbn [nl_search]; destruct (m s0) as [[e0 c0]|];
    try (intros [= <- _ _]; lia); destruct ((len <? s0 + 1) || anchor); try discriminate.
  intros H. apply IH in H. lia.
Qed.

(* ---- gmatch: one iteration ---- *)
Lemma lua_gmatch_next_past m len last k src : len < src -> lua_gmatch_next k m len src last = None.
Proof. intros H. destruct k; cbn [lua_gmatch_next]; destruct (Z.ltb_spec len src); try reflexivity; lia. Qed.

Lemma lua_gmatch_next_stable m len last : forall k1 k2 src, len - src <= Z.of_nat k1 -> len - src <= Z.of_nat k2 ->
  lua_gmatch_next k1 m len src last = lua_gmatch_next k2 m len src last.
Proof.
  induction k1 as [|k1 IH]; intros k2 src H1 H2.
  - destruct k2 as [|k2]; [reflexivity|]. cbn [lua_gmatch_next]. destruct (Z.ltb_spec len src); [reflexivity|].
    destruct (m src) as [[e c]|]; [destruct (negb (e =? last)); [reflexivity|]|];
      symmetry; apply lua_gmatch_next_past; lia.
  - destruct k2 as [|k2].
    + cbn [lua_gmatch_next]. destruct (Z.ltb_spec len src); [reflexivity|].
      destruct (m src) as [[e c]|]; [destruct (negb (e =? last)); [reflexivity|]|]; apply lua_gmatch_next_past; lia.
    + cbn [lua_gmatch_next]. destruct (Z.ltb_spec len src); [reflexivity|].
      destruct (m src) as [[e c]|]; [destruct (negb (e =? last)); [reflexivity|]|]; apply IH; lia.
Qed.

Lemma nl_gmatch_next_past m s lastend k pos : slen s < pos -> nl_gmatch_next k m s pos lastend = None.
Proof. intros H. destruct k; cbn [nl_gmatch_next]; unfold nl_ms_match; destruct (Z.ltb_spec (slen s) pos); try reflexivity; lia. Qed.

Lemma nl_gmatch_next_stable m s lastend : forall k1 k2 pos, slen s - pos <= Z.of_nat k1 -> slen s - pos <= Z.of_nat k2 ->
  nl_gmatch_next k1 m s pos lastend = nl_gmatch_next k2 m s pos lastend.
Proof.
  assert (Hst : forall pos st e c, nl_ms_match s m false pos = Some (st, e, c) -> pos <= st).
  { intros pos st e c. unfold nl_ms_match. destruct (slen s <? pos); [discriminate|]. apply nl_search_start. }
  induction k1 as [|k1 IH]; intros k2 pos H1 H2.
  - destruct k2 as [|k2]; [reflexivity|]. cbn [nl_gmatch_next].
    destruct (nl_ms_match s m false pos) as [[[st e] c]|] eqn:E; [|reflexivity]. apply Hst in E.
    destruct (e + 1 =? lastend); [|reflexivity]. symmetry. apply nl_gmatch_next_past. lia.
  - destruct k2 as [|k2]; cbn [nl_gmatch_next];
      (destruct (nl_ms_match s m false pos) as [[[st e] c]|] eqn:E; [|reflexivity]); apply Hst in E;
      (destruct (e + 1 =? lastend); [|reflexivity]).
    + apply nl_gmatch_next_past. lia.
    + apply IH; lia.
Qed.

(* ---- string.format: the scan of the format string, and the digit generator of the C model ---- *)
Section FmtFuel.
Variable cfloat : bytes -> Z -> bytes.

Lemma tl_len (l : bytes) : (length (tl l) <= length l)%nat.
Proof. destruct l; cbn; lia. Qed.

Lemma nl_scanformat_rest_len r form conv r' : nl_scanformat r = Val (form, conv, r') -> (length r' <= length r)%nat.
Proof.
  unfold nl_scanformat. destruct (scan isflagF true false r) as [[fl wp] rem] eqn:E.
  destruct (NL_MAXFLAGS <? slen fl); [discriminate|]. destruct (c_isdigit (hd0 rem)); [discriminate|].
  intros [= _ _ <-]. apply scan_app in E. subst r. rewrite !app_length. pose proof (tl_len rem). lia.
Qed.

Lemma nl_item_rest_len r a o r' : nl_item cfloat r a = Val (o, r') -> (length r' <= length r)%nat.
Proof.
  unfold nl_item. destruct (nl_scanformat r) as [[[form conv] rest']| |] eqn:S; try discriminate.
  apply nl_scanformat_rest_len in S. intros H.
  assert (r' = rest').
  { revert H. destruct (negb (nl_checkformat form conv)); [discriminate|].
    destruct a as [v|s0];
      repeat match goal with
      | |- (if ?b then _ else _) = _ -> _ => destruct b
      | |- match ?o with Some _ => _ | None => _ end = _ -> _ => destruct o
      | |- Val (_, _) = Val (_, _) -> _ => let H := fresh in intros H; inversion H; reflexivity
      | |- _ = _ -> _ => discriminate
      end. }
  subst. exact S.
Qed.

Lemma nl_format_loop_stable : forall k1 k2 fmt args, (length fmt < k1)%nat -> (length fmt < k2)%nat ->
  nl_format_loop cfloat k1 fmt args = nl_format_loop cfloat k2 fmt args.
Proof.
  induction k1 as [|k1 IH]; intros k2 fmt args H1 H2; [lia|]. destruct k2 as [|k2]; [lia|].
  cbn [nl_format_loop]. destruct fmt as [|c r]; [reflexivity|]. cbn [length] in H1, H2.
  destruct (negb (c =? 37)); [rewrite (IH k2 r args) by lia; reflexivity|].
  destruct (hd0 r =? 37); [pose proof (tl_len r); rewrite (IH k2 (tl r) args) by lia; reflexivity|].
  destruct (nl_scanformat r) as [x0| |]; try reflexivity. destruct args as [|a0 args']; [reflexivity|].
  destruct (nl_item cfloat r a0) as [[o r']| |] eqn:E; try reflexivity.
  apply nl_item_rest_len in E. rewrite (IH k2 r' args') by lia. reflexivity.
Qed.

Lemma span_rest_len P s a b : span P s = (a, b) -> (length b <= length s)%nat.
Proof. intros H. apply span_app in H. subst. rewrite app_length. lia. Qed.

Lemma lua_item_rest_len cap pq r a o r' : lua_item cfloat cap pq r a = LVal (o, r') -> (length r' <= length r)%nat.
Proof.
  unfold lua_item, lua_getformat. destruct (span spanset r) as [sp r0] eqn:E. apply span_rest_len in E.
  destruct (22 <=? slen sp + 1); [discriminate|]. intros H.
  assert (r' = tl r0).
  { revert H. destruct a as [v|s0];
      repeat match goal with
      | |- (if ?b then _ else _) = _ -> _ => destruct b
      | |- (let s := _ in _) = _ -> _ => cbv zeta
      | |- match ?o with Some _ => _ | None => _ end = _ -> _ => destruct o
      | |- LVal (_, _) = LVal (_, _) -> _ => let H := fresh in intros H; inversion H; reflexivity
      | |- _ = _ -> _ => discriminate
      end. }
  subst. pose proof (tl_len r0). lia.
Qed.

Lemma lua_format_loop_stable cap pq : forall k1 k2 fmt args, (length fmt < k1)%nat -> (length fmt < k2)%nat ->
  lua_format_loop cfloat cap pq k1 fmt args = lua_format_loop cfloat cap pq k2 fmt args.
Proof.
  induction k1 as [|k1 IH]; intros k2 fmt args H1 H2; [lia|]. destruct k2 as [|k2]; [lia|].
  cbn [lua_format_loop]. destruct fmt as [|c r]; [reflexivity|]. cbn [length] in H1, H2.
  destruct (negb (c =? 37)); [rewrite (IH k2 r args) by lia; reflexivity|].
  destruct (hd0 r =? 37); [pose proof (tl_len r); rewrite (IH k2 (tl r) args) by lia; reflexivity|].
  destruct args as [|a args']; [reflexivity|].
  destruct (lua_item cfloat cap pq r a) as [[o r']|] eqn:E; [|reflexivity].
  apply lua_item_rest_len in E. rewrite (IH k2 r' args') by lia. reflexivity.
Qed.
End FmtFuel.

(* the digits of a 64-bit number: 64 rounds are never too few (base >= 2) *)
Lemma digits_fuel_stable base upper : 2 <= base -> forall f1 f2 n acc, n < 2 ^ Z.of_nat f1 -> n < 2 ^ Z.of_nat f2 ->
  digits_fuel f1 base upper n acc = digits_fuel f2 base upper n acc.
Proof.
  intros Hb. induction f1 as [|f1 IH]; intros f2 n acc H1 H2.
  - destruct f2 as [|f2]; [reflexivity|]. cbn [digits_fuel]. change (2 ^ Z.of_nat 0) with 1 in H1.
    destruct (Z.leb_spec n 0); [reflexivity|lia].
  - destruct f2 as [|f2]; cbn [digits_fuel].
    + change (2 ^ Z.of_nat 0) with 1 in H2. destruct (Z.leb_spec n 0); [reflexivity|lia].
    + destruct (Z.leb_spec n 0); [reflexivity|].
      assert (Hd : forall f, n < 2 ^ Z.of_nat (S f) -> n / base < 2 ^ Z.of_nat f).
      { intros f Hf. rewrite Nat2Z.inj_succ, Z.pow_succ_r in Hf by lia.
        apply Z.le_lt_trans with (n / 2); [apply Z.div_le_compat_l; lia|]. apply Z.div_lt_upper_bound; lia. }
      apply IH; apply Hd; assumption.
Qed.

(* ---- string.packsize: the option loop of the port ---- *)
From C13 Require Import ProofsPackFmt.

Lemma nl_getnum_len f def n r : nl_getnum f def = (n, r) -> (length r <= length f)%nat.
Proof.
  unfold nl_getnum. destruct (nl_getnum_loop f 0) as [n0 r0] eqn:E. apply nl_getnum_loop_len in E.
  destruct (Nat.eqb (length r0) (length f)); intros [= _ <-]; lia.
Qed.

Lemma nl_getnumlimit_len f def n r : nl_getnumlimit f def = Val (n, r) -> (length r <= length f)%nat.
Proof.
  unfold nl_getnumlimit. destruct (nl_getnum f def) as [n0 r0] eqn:E. apply nl_getnum_len in E.
  destruct ((0 <? n0) && (n0 <=? 16)); [|discriminate]. intros [= _ <-]. exact E.
Qed.

Lemma nl_getoptalign_len f a r : nl_getoptalign f = Val (a, r) -> (length r < length f)%nat.
Proof.
  unfold nl_getoptalign. destruct f as [|c r0]; [discriminate|]. cbn [length].
  assert (G : forall g, match g with Val (a0, r') => if 0 <? a0 then Val (a0, r') else Trap | Trap => Trap | Unsafe => Unsafe end = Val (a, r) ->
                (forall a1 r1, g = Val (a1, r1) -> (length r1 <= length r0)%nat) -> (length r < S (length r0))%nat).
  { intros g Hg Hl. destruct g as [[a1 r1]| |]; try discriminate. destruct (0 <? a1); [|discriminate].
    inversion Hg. subst. specialize (Hl _ _ eq_refl). lia. }
  intros H. eapply G; [exact H|]. intros a1 r1.
  repeat match goal with |- (if ?b then _ else _) = _ -> _ => destruct b end;
    try (intros E; apply nl_getnumlimit_len in E; exact E); intros [= _ <-]; lia.
Qed.

Lemma nl_packsize_loop_stable : forall k1 k2 f ma len, (length f < k1)%nat -> (length f < k2)%nat ->
  nl_packsize_loop k1 f ma len = nl_packsize_loop k2 f ma len.
Proof.
  induction k1 as [|k1 IH]; intros k2 f ma len H1 H2; [lia|]. destruct k2 as [|k2]; [lia|].
  cbn [nl_packsize_loop]. destruct f as [|c r]; [reflexivity|]. cbn [length] in H1, H2.
  assert (Hs : forall sz r', (length r' <= length r)%nat ->
             nl_sized (nl_packsize_loop k1) len sz ma r' = nl_sized (nl_packsize_loop k2) len sz ma r').
  { intros sz r' Hr. unfold nl_sized. destruct (nl_alignforward len sz ma); try reflexivity. apply IH; lia. }
  destruct ((c =? 32) || (c =? 60) || (c =? 62) || (c =? 61)); [apply IH; lia|].
  destruct (c =? 33).
  { destruct (nl_getnumlimit r NATIVE_MAXALIGN) as [[n r']| |] eqn:E; try reflexivity. apply nl_getnumlimit_len in E. apply IH; lia. }
  destruct (c =? 88).
  { destruct (nl_getoptalign r) as [[a r']| |] eqn:E; try reflexivity. apply nl_getoptalign_len in E.
    destruct (nl_alignforward len a ma); try reflexivity. apply IH; lia. }
  destruct ((c =? 120) || (c =? 98) || (c =? 66)); [apply IH; lia|].
  destruct (c =? 99).
  { destruct r as [|d r0]; [reflexivity|]. destruct ((d - 48) mod 256 <? 10); [|reflexivity].
    destruct (nl_getnum (d :: r0) 0) as [n r'] eqn:E. apply nl_getnum_len in E. apply IH; lia. }
  destruct ((c =? 105) || (c =? 73)).
  { destruct (nl_getnumlimit r SZ_INT) as [[n r']| |] eqn:E; try reflexivity. apply nl_getnumlimit_len in E. apply Hs. exact E. }
  repeat match goal with |- (if ?b then _ else _) = _ => destruct b; [apply Hs; lia|] end. reflexivity.
Qed.

(* the bounds as the drivers instantiate them, against any larger bound n *)
Lemma search_bounds_adequate (m : matcher) (s : bytes) :
  (forall anchor init n, 0 <= init -> (length s < n)%nat ->
     lua_do_search s m anchor init = lua_search n m anchor (slen s) init) /\
  (forall anchor pos n, 0 <= pos -> (length s < n)%nat ->
     nl_ms_match s m anchor pos = if slen s <? pos then None else nl_search n m anchor (slen s) pos) /\
  (forall src last n, 0 <= src -> (length s < n)%nat ->
     lua_gmatch_next (Z.to_nat (slen s - src)) m (slen s) src last = lua_gmatch_next n m (slen s) src last) /\
  (forall pos lastend n, 0 <= pos -> (length s < n)%nat ->
     nl_gmatch_next (S (length s)) m s pos lastend = nl_gmatch_next n m s pos lastend).
Proof.
  unfold slen. repeat split.
  - intros anchor init n Hi Hn. unfold lua_do_search, slen. apply lua_search_stable; lia.
  - intros anchor pos n Hp Hn. unfold nl_ms_match, slen. destruct (Z.of_nat (length s) <? pos); [reflexivity|].
    apply nl_search_stable; lia.
  - intros src last n Hs Hn. apply lua_gmatch_next_stable; lia.
  - intros pos lastend n Hp Hn. apply nl_gmatch_next_stable; unfold slen; lia.
Qed.

Lemma format_bounds_adequate cfloat :
  (forall fmt args n, (length fmt < n)%nat -> nl_format cfloat fmt args = nl_format_loop cfloat n fmt args) /\
  (forall fmt args n, (length fmt < n)%nat -> lua_format cfloat fmt args = lua_format_loop cfloat 21 true n fmt args) /\
  (forall base upper v n, 2 <= base -> 0 <= v < two64 -> (64 <= n)%nat ->
     digits base upper v = digits_fuel n base upper v []).
Proof.
  repeat split.
  - intros fmt args n Hn. unfold nl_format. apply nl_format_loop_stable; lia.
  - intros fmt args n Hn. unfold lua_format, lua_format_cap. apply lua_format_loop_stable; lia.
  - intros base upper v n Hb Hv Hn. unfold digits. apply digits_fuel_stable; [exact Hb| |].
    + unfold two64 in Hv. change (2 ^ Z.of_nat 64) with 18446744073709551616. lia.
    + apply Z.lt_le_trans with (2 ^ Z.of_nat 64); [unfold two64 in Hv; change (2 ^ Z.of_nat 64) with 18446744073709551616; lia|].
      apply Z.pow_le_mono_r; lia.
Qed.

Lemma packsize_bound_adequate fmt n : (length fmt < n)%nat ->
  nl_packsize_loop (S (length fmt)) fmt 1 0 = nl_packsize_loop n fmt 1 0.
Proof. intros Hn. apply nl_packsize_loop_stable; lia. Qed.
